/-
  Lemmas/PyEvalLoDFull.lean — the proofs behind the `full_join` statements of `Proofs/EvalC16b.lean`: the evaluator of
  `Model/PyEvalLoDAgg.lean` on the term `ListOfDicts.full_join` returns (method calls run the regenerated bodies; shared
  sub-terms are evaluated once; the two counters), and the resulting contents are the model's `LoD.fullJoin`.

  1. the terms; the tagging loop; generic steps of `evalAM`;
  2. `a`, `b`, `ab` (`ab_eval`, for either order in which `b` comes to be evaluated);
  3. the three evaluations: the test `len(b') == 0`, the early return, the general return;
  4. the contents: the pipeline of model functions on the tagged items = `LoD.fullJoin`.
-/
import Lemmas.PyEvalLoDAgg

namespace DI.PyEvalLoD
open DI DI.Py DI.LoD

/-! ### full_join: the terms -/

def counterT : Term := .app "itertools.count" [.app "=start" [.int 1]]
def countLamT : Term := .app "lambda" [.app "params" [.sym "x"], .app "next" [counterT]]
def modifyT (w : Term) (kw : String) : Term := .app ".modify" [.app ".deepcopy" [w], .app kw [countLamT]]
def aT : Term := modifyT (.sym "self") "=_aid_"
def bT : Term := modifyT (.sym "other") "=_bid_"
def ljT : Term := .app ".left_join" [.app ".deepcopy" [aT], bT, .app "*" [.sym "by"]]
def abT : Term := .app ".fill_missing_keys" [ljT, .app "=_bid_" [.app "next" [counterT]]]
def b'T : Term := .app ".anti_join" [bT, abT, .sym "'_bid_'"]
def fjTestT : Term := .app "Eq" [.app "len" [b'T], .int 0]
def fjThenT : Term := .app ".unselect" [abT, .sym "'_aid_'", .sym "'_bid_'"]
def byRevT : Term :=
  .app "ListComp" [.app "ifexp" [.app "isinstance" [.sym "x", .app "tuple" [.sym "list", .sym "tuple"]],
    .app "tuple()" [.app "reversed" [.sym "x"]], .sym "x"], .app "in" [.sym "x", .sym "by", .app "if" []]]
def ljRevT : Term := .app ".left_join" [b'T, aT, .app "*" [byRevT]]
def baT : Term := .app ".fill_missing_keys" [ljRevT, .app "=_aid_" [.app "next" [counterT]]]
def addT : Term := .app "Add" [abT, baT]
def fjSortT : Term := .app ".sort" [addT, .app "=_aid_" [.int 1], .app "=_bid_" [.int 1]]
def fjElseT : Term := .app ".unselect" [fjSortT, .sym "'_aid_'", .sym "'_bid_'"]

/-- `item[key] = c, c + 1, …` along the list. -/
def tagFrom (key : String) : Int → List Item → List Item
  | _, [] => []
  | c, x :: xs => { x with kv := x.kv.set key (.i c) } :: tagFrom key (c + 1) xs

theorem tagLoop_spec (key : String) : ∀ (rs : List Nat) (c : Int) (σ : Store) (xs : List Item), rs.Nodup →
    Store.view σ rs = some xs →
    ∃ σ', tagLoop key rs c σ = some σ' ∧ Store.view σ' rs = some (tagFrom key c xs) ∧ ∀ n, n ∉ rs → σ'.lookup n = σ.lookup n
  | [], c, σ, xs, _, hv => by
    simp only [Store.view, Option.some.injEq] at hv
    subst hv
    exact ⟨σ, rfl, rfl, fun _ _ => rfl⟩
  | r :: rs, c, σ, xs, hd, hv => by
    obtain ⟨d, ys, hl, hvr, e⟩ := Store.view_cons_inv σ r rs xs hv
    subst e
    have hr : r ∉ rs := (List.nodup_cons.mp hd).1
    have hv1 : Store.view (Store.set σ r (d.set key (.i c))) rs = some ys := by
      rw [Store.view_set_of_not_mem _ _ _ _ hr]; exact hvr
    obtain ⟨σ', e1, h2, h3⟩ := tagLoop_spec key rs (c + 1) _ ys (List.nodup_cons.mp hd).2 hv1
    refine ⟨σ', ?_, ?_, ?_⟩
    · simp only [tagLoop, Store.setKey, hl, Option.map_some, Option.bind_some, e1]
    · simp only [Store.view, h3 r hr, Store.lookup_set_self σ r d _ hl, h2, Option.bind_some, Option.map_some, tagFrom]
    · intro n hn
      have hnr : n ≠ r := fun e => hn (e ▸ List.mem_cons_self)
      rw [h3 n (fun hm => hn (List.mem_cons_of_mem _ hm)), Store.lookup_set_other _ _ _ _ hnr]

section FJ
variable (F : Funs) (B : Bodies)

theorem evalAM_modify (x : Term) (kw : String) (p body : Term) (s : MSt) :
    evalAM F B (.app ".modify" [x, .app kw [.app "lambda" [.app "params" [p], body]]]) s =
    memoized (.app ".modify" [x, .app kw [.app "lambda" [.app "params" [p], body]]]) s fun s =>
      (kwName kw).bind fun k => (counterT? body).bind fun st => (evalAM F B x s).bind fun r => r.1.asRefs.bind fun rs =>
        (tagLoop k rs (ctrGet r.2.ctr k st) r.2.store).map fun σ' =>
          (refsV rs, { r.2 with store := σ', ctr := (k, ctrGet r.2.ctr k st + rs.length) :: r.2.ctr }) := rfl

/-- `w.deepcopy().modify(key=lambda x: next(counter))`: new objects with the contents of `w`'s items plus the ids. -/
theorem tagged_eval (w : Term) (kw key : String) (hkw : kwName kw = some key) (e : Env) (σ : Store) (m : List (Term × PVal))
    (c : List (String × Int)) (rs : List Nat) (xs : List Item)
    (hw : evalAM F B w ⟨e, σ, m, c⟩ = some (refsV rs, ⟨e, σ, m, c⟩))
    (hm1 : memoGet m (modifyT w kw) = none) (hm2 : memoGet m (.app ".deepcopy" [w]) = none)
    (hv : Store.view σ rs = some xs) :
    ∃ σ', evalAM F B (modifyT w kw) ⟨e, σ, m, c⟩ = some (refsV (allocAll σ (xs.map (·.kv))).1,
        ⟨e, σ', (modifyT w kw, refsV (allocAll σ (xs.map (·.kv))).1) :: (.app ".deepcopy" [w], refsV (allocAll σ (xs.map (·.kv))).1) :: m,
          (key, ctrGet c key 1 + xs.length) :: c⟩) ∧
      Store.view σ' (allocAll σ (xs.map (·.kv))).1 =
        some (tagFrom key (ctrGet c key 1) (mkItems (allocAll σ (xs.map (·.kv))).1 (xs.map (·.kv)))) ∧
      (∀ n, n ∉ (allocAll σ (xs.map (·.kv))).1 → σ'.lookup n = σ.lookup n) := by
  obtain ⟨hl1, hnew1, hnd1, hview1, hold1⟩ := allocAll_spec σ (xs.map (·.kv))
  generalize hA : allocAll σ (xs.map (·.kv)) = A at hl1 hnew1 hnd1 hview1 hold1
  obtain ⟨σ', et, hv', hold'⟩ := tagLoop_spec key A.1 (ctrGet c key 1) A.2 _ hnd1 hview1
  refine ⟨σ', ?_, hv', fun n hn => by rw [hold' n hn, hold1 n hn]⟩
  have edc : evalAM F B (.app ".deepcopy" [w]) ⟨e, σ, m, c⟩ =
      some (refsV A.1, ⟨e, A.2, (.app ".deepcopy" [w], refsV A.1) :: m, c⟩) := by
    rw [evalAM_deepcopy, memoized_miss _ _ _ hm2, hw]
    simp only [Option.bind_some, asRefs_refsV, hv, Option.map_some, hA]
  unfold modifyT countLamT at hm1 ⊢
  rw [evalAM_modify, memoized_miss _ _ _ hm1, hkw]
  have hct : counterT? (.app "next" [counterT]) = some 1 := rfl
  simp only [Option.bind_some, hct, edc, asRefs_refsV, et, Option.map_some]
  have : A.1.length = xs.length := by simpa using hl1
  rw [this]


/-! #### generic steps -/

theorem memoized_hit (t : Term) (s : MSt) (k : MSt → Option (PVal × MSt)) (v : PVal) (h : memoGet s.memo t = some v) :
    memoized t s k = some (v, s) := by
  simp only [memoized, h]

theorem evalAM_left_join (x y : Term) (args : List Term) (s : MSt) : evalAM F B (.app ".left_join" (x :: y :: args)) s =
    memoized (.app ".left_join" (x :: y :: args)) s fun s =>
    (evalAM F B x s).bind fun rx => (evalAM F B y rx.2).bind fun ry => (evalStar F args ry.2.env ry.2.store).bind fun vb =>
      callGen (runJ F) B.leftJoin [("self", rx.1), ("other", ry.1), ("by", .tuple vb)] ry.2 := rfl
theorem evalAM_anti_join (x y : Term) (args : List Term) (s : MSt) : evalAM F B (.app ".anti_join" (x :: y :: args)) s =
    memoized (.app ".anti_join" (x :: y :: args)) s fun s =>
    (evalAM F B x s).bind fun rx => (evalAM F B y rx.2).bind fun ry => (evalStar F args ry.2.env ry.2.store).bind fun vb =>
      callGen (runJ F) B.antiJoin [("self", rx.1), ("other", ry.1), ("by", .tuple vb)] ry.2 := rfl
theorem evalAM_fill (x : Term) (kw : String) (e : Term) (s : MSt) : evalAM F B (.app ".fill_missing_keys" [x, .app kw [e]]) s =
    memoized (.app ".fill_missing_keys" [x, .app kw [e]]) s fun s =>
    (kwName kw).bind fun k => (evalAM F B x s).bind fun rx => (evalKwVal F k e rx.2).bind fun rv =>
      callGen (run F) B.fill [("self", rx.1), ("key_value_pairs", .tuple [.tuple [PVal.str k, rv.1]])] rv.2 := rfl
theorem evalAM_unselect (x : Term) (args : List Term) (s : MSt) : evalAM F B (.app ".unselect" (x :: args)) s =
    memoized (.app ".unselect" (x :: args)) s fun s =>
    (evalAM F B x s).bind fun rx => (evalStar F args rx.2.env rx.2.store).bind fun ks =>
      callGen (run F) B.unselect [("self", rx.1), ("keys", .tuple ks)] rx.2 := rfl
theorem evalAM_Add (x y : Term) (s : MSt) : evalAM F B (.app "Add" [x, y]) s =
    memoized (.app "Add" [x, y]) s fun s =>
    (evalAM F B x s).bind fun rx => (evalAM F B y rx.2).bind fun ry =>
      callGen (run F) B.add [("self", rx.1), ("other", ry.1)] ry.2 := rfl
theorem evalAM_len (x : Term) (s : MSt) : evalAM F B (.app "len" [x]) s =
    (evalAM F B x s).bind fun rx => rx.1.asTuple.map fun l => (.atom (.i l.length), rx.2) := rfl
theorem evalAM_Eq (a b : Term) (s : MSt) : evalAM F B (.app "Eq" [a, b]) s =
    (evalAM F B a s).bind fun ra => (evalAM F B b ra.2).bind fun rb => (pyEq ra.1 rb.1).map fun e => (.bool e, rb.2) := rfl
theorem evalAM_int (i : Int) (s : MSt) : evalAM F B (.int i) s = some (.atom (.i i), s) := rfl

/-- what the regenerated bodies must be (`Proofs/` shows it for the current source, under the conditions on `truth`). -/
structure FJBodies (B : Bodies) : Prop where
  leftJoin : B.leftJoin = [leftJoinT]
  antiJoin : B.antiJoin = [keepKeyT "NotIn"]
  fill : B.fill = [onePassT (fillEditT (Term.sym "key_value_pairs"))]
  unselect : B.unselect = [onePassT unselectEditT]
  add : B.add = [Term.app "yield-from" [Term.app "itertools.chain" [Term.sym "self", Term.sym "other"]]]
  sort : B.sort = Out.ret [sortLoopT] sortRetT

theorem tagFrom_kv (key : String) : ∀ (c : Int) (xs ys : List Item), xs.map (·.kv) = ys.map (·.kv) →
    (tagFrom key c xs).map (·.kv) = (tagFrom key c ys).map (·.kv)
  | _, [], [], _ => rfl
  | _, [], _ :: _, h => by simp at h
  | _, _ :: _, [], h => by simp at h
  | c, x :: xs, y :: ys, h => by
    simp only [List.map_cons, List.cons.injEq] at h
    simp only [tagFrom, List.map_cons, h.1, tagFrom_kv key (c + 1) xs ys h.2]

theorem tagFrom_tags (key : String) : ∀ (c : Int) (xs : List Item), (tagFrom key c xs).map (·.tag) = xs.map (·.tag)
  | _, [] => rfl
  | c, x :: xs => by simp only [tagFrom, List.map_cons, tagFrom_tags key (c + 1) xs]

theorem mem_tagFrom (key : String) : ∀ (c : Int) (xs : List Item) (y : Item), y ∈ tagFrom key c xs →
    ∃ x v, x ∈ xs ∧ y = { x with kv := x.kv.set key v }
  | _, [], y, h => by cases h
  | c, x :: xs, y, h => by
    simp only [tagFrom, List.mem_cons] at h
    rcases h with e | m
    · exact ⟨x, .i c, List.mem_cons_self, e⟩
    · obtain ⟨x', v, hx', e⟩ := mem_tagFrom key (c + 1) xs y m
      exact ⟨x', v, List.mem_cons_of_mem _ hx', e⟩

theorem has_set_of_has (d : LoD.Dict) (k k' : String) (v : LoD.Val) (h : d.has k = true) : (d.set k' v).has k = true := by
  rw [Dict.has_iff_get?] at h ⊢
  by_cases e : k = k'
  · subst e; rw [Dict.get?_set_self]; rfl
  · rw [Dict.get?_set_other d k' k v e]; exact h


theorem memoGet_cons_ne (t' t : Term) (v : PVal) (m : List (Term × PVal)) (h : Term.beq t' t = false) :
    memoGet ((t', v) :: m) t = memoGet m t := by
  simp only [memoGet, List.find?_cons, h]
theorem memoGet_cons_eq (t' t : Term) (v : PVal) (m : List (Term × PVal)) (h : Term.beq t' t = true) :
    memoGet ((t', v) :: m) t = some v := by
  simp only [memoGet, List.find?_cons, h, Option.map_some]

def dcSelfT : Term := .app ".deepcopy" [.sym "self"]
def dcOtherT : Term := .app ".deepcopy" [.sym "other"]
def dcaT : Term := .app ".deepcopy" [aT]

/-- the state after `a = self.deepcopy().modify(_aid_=…)` and `a.deepcopy()`: `A` / `A'` the new objects, `XA` / `XA'` their
    contents (the receiver's items with `_aid_ = c, c + 1, …`). -/
structure AfterA (ρ : Env) (σ0 : Store) (m0 : List (Term × PVal)) (c0 : List (String × Int)) (xs : List Item) (s1 : MSt)
    (A A' : List Nat) (XA XA' : List Item) : Prop where
  env : s1.env = ρ
  memo : s1.memo = (dcaT, refsV A') :: (aT, refsV A) :: (dcSelfT, refsV A) :: m0
  ctr : s1.ctr = ("_aid_", ctrGet c0 "_aid_" 1 + xs.length) :: c0
  old : ∀ n d, σ0.lookup n = some d → s1.store.lookup n = some d
  newA : ∀ r, r ∈ A → σ0.lookup r = none
  newA' : ∀ r, r ∈ A' → σ0.lookup r = none
  disj : ∀ r, r ∈ A → r ∉ A'
  ndA : A.Nodup
  ndA' : A'.Nodup
  viewA : Store.view s1.store A = some XA
  viewA' : Store.view s1.store A' = some XA'
  kvA : XA.map (·.kv) = (tagFrom "_aid_" (ctrGet c0 "_aid_" 1) xs).map (·.kv)
  kvA' : XA'.map (·.kv) = XA.map (·.kv)

theorem evalAM_sym_self (e : Env) (σ : Store) (m : List (Term × PVal)) (c : List (String × Int)) (rs : List Nat)
    (h : e.lookup "self" = some (refsVal rs)) : evalAM F B (.sym "self") ⟨e, σ, m, c⟩ = some (refsV rs, ⟨e, σ, m, c⟩) := by
  rw [evalAM_sym]; simp only [evalAE_sym_self, h, Option.map_some]; rfl
theorem evalAM_sym_other (e : Env) (σ : Store) (m : List (Term × PVal)) (c : List (String × Int)) (rs : List Nat)
    (h : e.lookup "other" = some (refsVal rs)) : evalAM F B (.sym "other") ⟨e, σ, m, c⟩ = some (refsV rs, ⟨e, σ, m, c⟩) := by
  rw [evalAM_sym]; simp only [evalAE_sym_other, h, Option.map_some]; rfl

theorem a_eval (ρ : Env) (σ0 : Store) (m0 : List (Term × PVal)) (c0 : List (String × Int)) (rs : List Nat) (xs : List Item)
    (hself : ρ.lookup "self" = some (refsVal rs)) (hv : Store.view σ0 rs = some xs)
    (hm : memoGet m0 aT = none) (hm' : memoGet m0 dcSelfT = none) (hm'' : memoGet m0 dcaT = none) :
    ∃ s1 A A' XA XA', evalAM F B dcaT ⟨ρ, σ0, m0, c0⟩ = some (refsV A', s1) ∧ AfterA ρ σ0 m0 c0 xs s1 A A' XA XA' := by
  obtain ⟨hl1, hnew1, hnd1, _, _⟩ := allocAll_spec σ0 (xs.map (·.kv))
  obtain ⟨σa, ea, hva, holda⟩ := tagged_eval F B (.sym "self") "=_aid_" "_aid_" rfl ρ σ0 m0 c0 rs xs
    (evalAM_sym_self F B ρ σ0 m0 c0 rs hself) hm hm' hv
  generalize hA : allocAll σ0 (xs.map (·.kv)) = A at hl1 hnew1 hnd1 ea hva holda
  let XA := tagFrom "_aid_" (ctrGet c0 "_aid_" 1) (mkItems A.1 (xs.map (·.kv)))
  obtain ⟨hl2, hnew2, hnd2, hview2, hold2⟩ := allocAll_spec σa (XA.map (·.kv))
  generalize hA' : allocAll σa (XA.map (·.kv)) = A' at hl2 hnew2 hnd2 hview2 hold2
  have hmdc : memoGet ((aT, refsV A.1) :: (dcSelfT, refsV A.1) :: m0) dcaT = none := by
    rw [memoGet_cons_ne _ _ _ _ rfl, memoGet_cons_ne _ _ _ _ rfl]; exact hm''
  have hliveA : ∀ r, r ∈ A.1 → ∃ d, σa.lookup r = some d := fun r hr => by
    have := Store.view_lookup_of_mem σa A.1 XA hva
    have hr' : r ∈ XA.map (·.tag) := by rw [Store.view_tags σa A.1 XA hva]; exact hr
    obtain ⟨x, hx, e⟩ := List.mem_map.mp hr'
    exact ⟨x.kv, e ▸ this x hx⟩
  refine ⟨⟨ρ, A'.2, (dcaT, refsV A'.1) :: (aT, refsV A.1) :: (dcSelfT, refsV A.1) :: m0,
      ("_aid_", ctrGet c0 "_aid_" 1 + xs.length) :: c0⟩, A.1, A'.1, XA, mkItems A'.1 (XA.map (·.kv)), ?_, ?_⟩
  · unfold dcaT
    rw [evalAM_deepcopy, memoized_miss _ _ _ hmdc]
    show Option.map _ ((evalAM F B (modifyT (.sym "self") "=_aid_") _).bind _) = _
    rw [ea]
    simp only [Option.bind_some, asRefs_refsV, hva, Option.map_some]
    have hA'' : allocAll σa ((tagFrom "_aid_" (ctrGet c0 "_aid_" 1) (mkItems A.1 (xs.map (·.kv)))).map (·.kv)) = A' := hA'
    rw [hA'']; rfl
  · have hdisj : ∀ r, r ∈ A.1 → r ∉ A'.1 := fun r hr hr' => by
      obtain ⟨d, hd⟩ := hliveA r hr
      rw [hnew2 r hr'] at hd; cases hd
    refine ⟨rfl, rfl, rfl, ?_, hnew1, ?_, hdisj, hnd1, hnd2, ?_, hview2, ?_, ?_⟩
    · intro n d hn
      have h1 : n ∉ A.1 := fun hm => by rw [hnew1 n hm] at hn; cases hn
      have h2 : n ∉ A'.1 := fun hm => by
        have := hnew2 n hm
        rw [holda n h1, hn] at this; cases this
      show List.lookup n A'.2 = _
      rw [hold2 n h2, holda n h1, hn]
    · intro r hr
      have := hnew2 r hr
      by_cases h : r ∈ A.1
      · exact hnew1 r h
      · rw [holda r h] at this; exact this
    · show Store.view A'.2 A.1 = some XA
      rw [Store.view_congr σa A'.2 A.1 (fun n hn => hold2 n (hdisj n hn))]; exact hva
    · exact tagFrom_kv "_aid_" _ _ _ (mkItems_kvs _ _ hl1)
    · exact mkItems_kvs _ _ hl2


theorem evalStar_by (ρ : Env) (σ : Store) (bys : List ByArg) (hby : ρ.lookup "by" = some (byVal bys)) :
    evalStar F [.app "*" [.sym "by"]] ρ σ = some (bys.map ByArg.val) := by
  simp only [evalStar, evalAE_sym_by, hby, byVal, Option.bind_some, PVal.asTuple, Option.map_some, List.append_nil]

theorem evalKwVal_next (k : String) (s : MSt) :
    evalKwVal F k (.app "next" [counterT]) s =
      some (.atom (.i (ctrGet s.ctr k 1)), { s with ctr := (k, ctrGet s.ctr k 1 + 1) :: s.ctr }) := rfl

/-- the items of a list whose contents are those of `tagFrom key c xs`. -/
theorem tagged_members (key : String) (c : Int) (xs X : List Item) (h : X.map (·.kv) = (tagFrom key c xs).map (·.kv)) :
    ∀ x', x' ∈ X → ∃ x v, x ∈ xs ∧ x'.kv = x.kv.set key v := by
  intro x' hx'
  have : x'.kv ∈ (tagFrom key c xs).map (·.kv) := h ▸ List.mem_map_of_mem hx'
  obtain ⟨y, hy, e⟩ := List.mem_map.mp this
  obtain ⟨x, v, hx, rfl⟩ := mem_tagFrom key c xs y hy
  exact ⟨x, v, hx, e.symm⟩

/-- `ab = a.deepcopy().left_join(b, *by).fill_missing_keys(_bid_=next(bcounter))`, however `b` comes to be evaluated (`K`:
    afresh, or remembered). -/
theorem ab_eval (hB : FJBodies B) (ρ : Env) (σ0 : Store) (m0 : List (Term × PVal)) (c0 : List (String × Int)) (rs : List Nat)
    (xs : List Item) (bys : List ByArg) (hself : ρ.lookup "self" = some (refsVal rs)) (hby : ρ.lookup "by" = some (byVal bys))
    (hne : bys ≠ []) (hv : Store.view σ0 rs = some xs) (hk1 : ∀ x, x ∈ xs → ∀ k, k ∈ byLeft bys → x.kv.has k = true)
    (hm1 : memoGet m0 aT = none) (hm2 : memoGet m0 dcSelfT = none) (hm3 : memoGet m0 dcaT = none)
    (hm4 : memoGet m0 ljT = none) (hm5 : memoGet m0 abT = none)
    (K : ∀ s1 A A' XA XA', AfterA ρ σ0 m0 c0 xs s1 A A' XA XA' →
      ∃ Bt s2 YB, evalAM F B bT s1 = some (refsV Bt, s2) ∧ s2.env = ρ ∧
        (∀ n d, s1.store.lookup n = some d → s2.store.lookup n = some d) ∧ Store.view s2.store Bt = some YB ∧
        (∀ y, y ∈ YB → ∀ k, k ∈ byRight bys → y.kv.has k = true) ∧ (∀ r, r ∈ A' → r ∉ Bt) ∧
        memoGet s2.memo ljT = none ∧ memoGet s2.memo abT = none) :
    ∃ s1 A A' XA XA' Bt s2 YB σf, AfterA ρ σ0 m0 c0 xs s1 A A' XA XA' ∧ evalAM F B bT s1 = some (refsV Bt, s2) ∧
      Store.view s2.store Bt = some YB ∧
      evalAM F B abT ⟨ρ, σ0, m0, c0⟩ = some (refsV A', ⟨ρ, σf, (abT, refsV A') :: (ljT, refsV A') :: s2.memo,
        ("_bid_", ctrGet s2.ctr "_bid_" 1 + 1) :: s2.ctr⟩) ∧
      Store.view σf A' = some (LoD.fillMissing (LoD.leftJoin XA' YB (byLeft bys) (byRight bys))
        [("_bid_", .i (ctrGet s2.ctr "_bid_" 1))]) ∧
      (∀ n, n ∉ A' → σf.lookup n = s2.store.lookup n) := by
  obtain ⟨s1, A, A', XA, XA', e1, hA⟩ := a_eval F B ρ σ0 m0 c0 rs xs hself hv hm1 hm2 hm3
  obtain ⟨Bt, s2, YB, e2, henv, hframe, hYB, hk2, hdis, hml, hmab⟩ := K s1 A A' XA XA' hA
  obtain ⟨e, σb, mb, cb⟩ := s2
  simp only at henv hframe hYB hml hmab
  subst henv
  -- the left join
  have hXA' : Store.view σb A' = some XA' := by
    have := hA.viewA'
    rw [← this]
    apply Store.view_congr
    intro n hn
    obtain ⟨d, hd⟩ : ∃ d, s1.store.lookup n = some d := by
      have hv' := hA.viewA'
      have hn' : n ∈ XA'.map (·.tag) := by rw [Store.view_tags _ A' XA' hv']; exact hn
      obtain ⟨x, hx, e⟩ := List.mem_map.mp hn'
      exact ⟨x.kv, e ▸ Store.view_lookup_of_mem _ A' XA' hv' x hx⟩
    rw [hframe n d hd, hd]
  have hkXA' : ∀ x, x ∈ XA' → ∀ k, k ∈ byLeft bys → x.kv.has k = true := by
    intro x' hx' k hk
    obtain ⟨x, v, hx, e⟩ := tagged_members "_aid_" _ xs XA' (hA.kvA'.trans hA.kvA) x' hx'
    rw [e]; exact has_set_of_has _ _ _ _ (hk1 x hx k hk)
  obtain ⟨σl, el, hvl, holdl⟩ := left_join_run F [("self", refsV A'), ("other", refsV Bt), ("by", .tuple (bys.map ByArg.val))]
    σb A' Bt bys XA' YB rfl rfl rfl hne hA.ndA' hdis hXA' hYB hkXA' hk2
  have elj : evalAM F B ljT ⟨e, σ0, m0, c0⟩ = some (refsV A', ⟨e, σl, (ljT, refsV A') :: mb, cb⟩) := by
    unfold ljT
    rw [evalAM_left_join, memoized_miss _ _ _ hm4]
    show Option.map _ ((evalAM F B dcaT _).bind _) = _
    rw [e1]
    simp only [Option.bind_some, e2, evalStar_by F e σb bys hby]
    rw [callGen_refs (runJ F) B.leftJoin _ e σb mb cb A' σl (by rw [hB.leftJoin]; exact el)]
    rfl
  -- fill_missing_keys
  obtain ⟨σf, ef, hvf, holdf⟩ := refines_of_run
    (fill_run F [("self", refsV A'), ("key_value_pairs", kvPairsVal [("_bid_", .i (ctrGet cb "_bid_" 1))])] σl A'
      [("_bid_", .i (ctrGet cb "_bid_" 1))] rfl rfl)
    (fillLoop_model [("_bid_", .i (ctrGet cb "_bid_" 1))] A' hA.ndA' σl _ hvl)
  refine ⟨s1, A, A', XA, XA', Bt, ⟨e, σb, mb, cb⟩, YB, σf, hA, e2, hYB, ?_, hvf, fun n hn => by rw [holdf n hn, holdl n hn]⟩
  unfold abT
  have hmab' : memoGet m0 (.app ".fill_missing_keys" [ljT, .app "=_bid_" [.app "next" [counterT]]]) = none := hm5
  rw [evalAM_fill, memoized_miss _ _ _ hmab']
  have hkw : kwName "=_bid_" = some "_bid_" := rfl
  simp only [hkw, Option.bind_some, elj, evalKwVal_next]
  rw [callGen_refs (run F) B.fill _ e σl _ _ A' σf (by rw [hB.fill]; exact ef)]
  rfl

end FJ


section FJ2
variable (F : Funs) (B : Bodies)

theorem refsV_inj (a b : List Nat) (h : refsV a = refsV b) : a = b := by
  have := congrArg PVal.asRefs h
  rw [asRefs_refsV, asRefs_refsV] at this
  exact Option.some.inj this

theorem ctrGet_nil (k : String) (st : Int) : ctrGet [] k st = st := rfl

/-- `b = other.deepcopy().modify(_bid_=…)` evaluated afresh. -/
theorem b_eval (ρ : Env) (σ1 : Store) (m1 : List (Term × PVal)) (c1 : List (String × Int)) (os : List Nat) (ys : List Item)
    (hother : ρ.lookup "other" = some (refsVal os)) (hw : Store.view σ1 os = some ys)
    (hm : memoGet m1 bT = none) (hm' : memoGet m1 dcOtherT = none) :
    ∃ Bt σb YB, evalAM F B bT ⟨ρ, σ1, m1, c1⟩ = some (refsV Bt,
        ⟨ρ, σb, (bT, refsV Bt) :: (dcOtherT, refsV Bt) :: m1, ("_bid_", ctrGet c1 "_bid_" 1 + ys.length) :: c1⟩) ∧
      Store.view σb Bt = some YB ∧ YB.map (·.kv) = (tagFrom "_bid_" (ctrGet c1 "_bid_" 1) ys).map (·.kv) ∧
      Bt.Nodup ∧ (∀ r, r ∈ Bt → σ1.lookup r = none) ∧ (∀ n, n ∉ Bt → σb.lookup n = σ1.lookup n) := by
  obtain ⟨hl, hnew, hnd, _, _⟩ := allocAll_spec σ1 (ys.map (·.kv))
  obtain ⟨σb, eb, hvb, holdb⟩ := tagged_eval F B (.sym "other") "=_bid_" "_bid_" rfl ρ σ1 m1 c1 os ys
    (evalAM_sym_other F B ρ σ1 m1 c1 os hother) hm hm' hw
  exact ⟨_, σb, _, eb, hvb, tagFrom_kv "_bid_" _ _ _ (mkItems_kvs _ _ hl), hnd, hnew, holdb⟩

/-- the state after `a`, `b`, `ab` have been evaluated in this order (the two return expressions). -/
structure AfterAB (ρ : Env) (σ : Store) (xs ys : List Item) (bys : List ByArg) (s : MSt) (A A' Bt : List Nat)
    (XA XA' YB : List Item) : Prop where
  env : s.env = ρ
  memo : s.memo = [(abT, refsV A'), (ljT, refsV A'), (bT, refsV Bt), (dcOtherT, refsV Bt), (dcaT, refsV A'), (aT, refsV A),
    (dcSelfT, refsV A)]
  ctr : s.ctr = [("_bid_", 1 + (ys.length : Int) + 1), ("_bid_", 1 + (ys.length : Int)), ("_aid_", 1 + (xs.length : Int))]
  old : ∀ n d, σ.lookup n = some d → s.store.lookup n = some d
  newA : ∀ r, r ∈ A → σ.lookup r = none
  newA' : ∀ r, r ∈ A' → σ.lookup r = none
  newB : ∀ r, r ∈ Bt → σ.lookup r = none
  ndA : A.Nodup
  ndA' : A'.Nodup
  ndB : Bt.Nodup
  disjAA' : ∀ r, r ∈ A → r ∉ A'
  disjAB : ∀ r, r ∈ A → r ∉ Bt
  disjA'B : ∀ r, r ∈ A' → r ∉ Bt
  viewA : Store.view s.store A = some XA
  viewA' : Store.view s.store A' = some (LoD.fillMissing (LoD.leftJoin XA' YB (byLeft bys) (byRight bys))
    [("_bid_", .i (1 + (ys.length : Int)))])
  viewB : Store.view s.store Bt = some YB
  tagsA' : XA'.map (·.tag) = A'
  kvA : XA.map (·.kv) = (tagFrom "_aid_" 1 xs).map (·.kv)
  kvA' : XA'.map (·.kv) = XA.map (·.kv)
  kvB : YB.map (·.kv) = (tagFrom "_bid_" 1 ys).map (·.kv)

theorem live_of_view (σ : Store) (rs : List Nat) (xs : List Item) (h : Store.view σ rs = some xs) (r : Nat) (hr : r ∈ rs) :
    ∃ d, σ.lookup r = some d := by
  have hr' : r ∈ xs.map (·.tag) := by rw [Store.view_tags σ rs xs h]; exact hr
  obtain ⟨x, hx, e⟩ := List.mem_map.mp hr'
  exact ⟨x.kv, e ▸ Store.view_lookup_of_mem σ rs xs h x hx⟩

theorem view_frame (σ σ' : Store) (rs : List Nat) (xs : List Item) (h : Store.view σ rs = some xs)
    (hf : ∀ n d, σ.lookup n = some d → σ'.lookup n = some d) : Store.view σ' rs = some xs := by
  rw [← h]
  apply Store.view_congr
  intro n hn
  obtain ⟨d, hd⟩ := live_of_view σ rs xs h n hn
  rw [hf n d hd, hd]

/-- `ab` from the initial state: `a`, then `b`, then the join. -/
theorem ab_fresh (hB : FJBodies B) (ρ : Env) (σ : Store) (rs os : List Nat) (xs ys : List Item) (bys : List ByArg)
    (hself : ρ.lookup "self" = some (refsVal rs)) (hother : ρ.lookup "other" = some (refsVal os))
    (hby : ρ.lookup "by" = some (byVal bys)) (hne : bys ≠ [])
    (hv : Store.view σ rs = some xs) (hw : Store.view σ os = some ys)
    (hk1 : ∀ x, x ∈ xs → ∀ k, k ∈ byLeft bys → x.kv.has k = true)
    (hk2 : ∀ y, y ∈ ys → ∀ k, k ∈ byRight bys → y.kv.has k = true) :
    ∃ s A A' Bt XA XA' YB, evalAM F B abT ⟨ρ, σ, [], []⟩ = some (refsV A', s) ∧ AfterAB ρ σ xs ys bys s A A' Bt XA XA' YB := by
  obtain ⟨s1, A, A', XA, XA', Bt, s2, YB, σf, hA, e2, hYB, eab, hvf, holdf⟩ :=
    ab_eval F B hB ρ σ [] [] rs xs bys hself hby hne hv hk1 rfl rfl rfl rfl rfl
      (fun s1 A A' XA XA' hA => by
        obtain ⟨e1, σ1, m1, c1⟩ := s1
        have henv := hA.env; have hmemo := hA.memo; have hctr := hA.ctr
        simp only at henv hmemo hctr
        subst henv hmemo hctr
        have hw1 : Store.view σ1 os = some ys := view_frame σ σ1 os ys hw hA.old
        obtain ⟨Bt, σb, YB, eb, hvb, hkvb, hndb, hnewb, holdb⟩ := b_eval F B e1 σ1
          [(dcaT, refsV A'), (aT, refsV A), (dcSelfT, refsV A)] _ os ys hother hw1 rfl rfl
        refine ⟨Bt, _, YB, eb, rfl, ?_, hvb, ?_, ?_, ?_, ?_⟩
        · intro n d hn
          have : n ∉ Bt := fun hm => by rw [hnewb n hm] at hn; cases hn
          show σb.lookup n = _
          rw [holdb n this]; exact hn
        · intro y hy k hk
          obtain ⟨y0, v, hy0, e⟩ := tagged_members "_bid_" _ ys YB hkvb y hy
          rw [e]; exact has_set_of_has _ _ _ _ (hk2 y0 hy0 k hk)
        · intro r hr hr'
          obtain ⟨d, hd⟩ := live_of_view σ1 A' XA' hA.viewA' r hr
          rw [hnewb r hr'] at hd; cases hd
        · rfl
        · rfl)
  -- what `b` was, for the `s1` at hand
  obtain ⟨e1, σ1, m1, c1⟩ := s1
  have henv := hA.env; have hmemo := hA.memo; have hctr := hA.ctr
  simp only at henv hmemo hctr
  subst henv hmemo hctr
  have hw1 : Store.view σ1 os = some ys := view_frame σ σ1 os ys hw hA.old
  obtain ⟨Bt0, σb, YB0, eb, hvb, hkvb, hndb, hnewb, holdb⟩ := b_eval F B e1 σ1
    [(dcaT, refsV A'), (aT, refsV A), (dcSelfT, refsV A)] _ os ys hother hw1 rfl rfl
  rw [eb] at e2
  simp only [Option.some.injEq, Prod.mk.injEq] at e2
  obtain ⟨eBt, es2⟩ := e2
  have eBt' := refsV_inj _ _ eBt
  subst eBt'
  subst es2
  simp only at hYB hvf holdf eab
  rw [hvb] at hYB
  have eYB : YB0 = YB := Option.some.inj hYB
  subst eYB
  have hliveA : ∀ r, r ∈ A → ∃ d, σ1.lookup r = some d := live_of_view σ1 A XA hA.viewA
  have hliveA' : ∀ r, r ∈ A' → ∃ d, σ1.lookup r = some d := live_of_view σ1 A' XA' hA.viewA'
  have hAB : ∀ r, r ∈ A → r ∉ Bt0 := fun r hr hr' => by
    obtain ⟨d, hd⟩ := hliveA r hr; rw [hnewb r hr'] at hd; cases hd
  have hA'B : ∀ r, r ∈ A' → r ∉ Bt0 := fun r hr hr' => by
    obtain ⟨d, hd⟩ := hliveA' r hr; rw [hnewb r hr'] at hd; cases hd
  have hc1 : ctrGet [("_aid_", ctrGet [] "_aid_" 1 + (xs.length : Int))] "_bid_" 1 = 1 := rfl
  have hcb : ctrGet (("_bid_", ctrGet [("_aid_", ctrGet [] "_aid_" 1 + (xs.length : Int))] "_bid_" 1 + (ys.length : Int)) ::
      [("_aid_", ctrGet [] "_aid_" 1 + (xs.length : Int))]) "_bid_" 1 = 1 + (ys.length : Int) := by
    simp [ctrGet, List.lookup_cons]
  refine ⟨_, A, A', Bt0, XA, XA', YB0, eab, ⟨rfl, rfl, ?_, ?_, hA.newA, hA.newA', ?_, hA.ndA, hA.ndA', hndb, hA.disj, hAB, hA'B,
    ?_, ?_, ?_, Store.view_tags σ1 A' XA' hA.viewA', hA.kvA, hA.kvA', ?_⟩⟩
  · simp only [ctrGet_nil] at hcb hc1 ⊢
    rw [hcb, hc1]
  · intro n d hn
    show σf.lookup n = _
    have h1 := hA.old n d hn
    have hnB : n ∉ Bt0 := fun hm => by rw [hnewb n hm] at h1; cases h1
    have hnA' : n ∉ A' := fun hm => by rw [hA.newA' n hm] at hn; cases hn
    rw [holdf n hnA', holdb n hnB]; exact h1
  · intro r hr
    have := hnewb r hr
    cases h : σ.lookup r with
    | none => rfl
    | some d => rw [hA.old r d h] at this; cases this
  · show Store.view σf A = some XA
    rw [Store.view_congr σ1 σf A (fun n hn => by rw [holdf n (hA.disj n hn), holdb n (hAB n hn)])]
    exact hA.viewA
  · show Store.view σf A' = _
    rw [hvf, hcb]
  · show Store.view σf Bt0 = some YB0
    rw [Store.view_congr σb σf Bt0 (fun n hn => holdf n (fun hm => hA'B n hm hn))]
    exact hvb
  · rw [hkvb, hc1]


theorem evalAM_hit_bT (s : MSt) (v : PVal) (h : memoGet s.memo bT = some v) : evalAM F B bT s = some (v, s) := by
  unfold bT modifyT countLamT at h ⊢
  rw [evalAM_modify]; exact memoized_hit _ _ _ v h
theorem evalAM_hit_aT (s : MSt) (v : PVal) (h : memoGet s.memo aT = some v) : evalAM F B aT s = some (v, s) := by
  unfold aT modifyT countLamT at h ⊢
  rw [evalAM_modify]; exact memoized_hit _ _ _ v h
theorem evalAM_hit_abT (s : MSt) (v : PVal) (h : memoGet s.memo abT = some v) : evalAM F B abT s = some (v, s) := by
  unfold abT at h ⊢
  rw [evalAM_fill]; exact memoized_hit _ _ _ v h

theorem evalStar_bidLit (ρ : Env) (σ : Store) : evalStar F [.sym "'_bid_'"] ρ σ = some [PVal.str "_bid_"] := rfl
theorem evalStar_idLits (ρ : Env) (σ : Store) :
    evalStar F [.sym "'_aid_'", .sym "'_bid_'"] ρ σ = some [PVal.str "_aid_", PVal.str "_bid_"] := rfl

/-- `b' = b.anti_join(ab, "_bid_")`, given how `b` and `ab` evaluate. -/
theorem bprime_step (hB : FJBodies B) (s0 s1 : MSt) (e : Env) (σ : Store) (m : List (Term × PVal)) (c : List (String × Int))
    (A' Bt : List Nat) (AB YB : List Item)
    (hmb' : memoGet s0.memo b'T = none) (eb : evalAM F B bT s0 = some (refsV Bt, s1))
    (eab : evalAM F B abT s1 = some (refsV A', ⟨e, σ, m, c⟩))
    (hvA' : Store.view σ A' = some AB) (hvB : Store.view σ Bt = some YB)
    (hkB : ∀ y, y ∈ YB → y.kv.has "_bid_" = true) (hkA : ∀ x, x ∈ AB → x.kv.has "_bid_" = true) :
    evalAM F B b'T s0 = some (refsV ((LoD.antiJoin YB AB ["_bid_"] ["_bid_"]).map (·.tag)),
      ⟨e, σ, (b'T, refsV ((LoD.antiJoin YB AB ["_bid_"] ["_bid_"]).map (·.tag))) :: m, c⟩) := by
  have hrun := anti_join_run F [("self", refsV Bt), ("other", refsV A'), ("by", .tuple [PVal.str "_bid_"])] σ Bt A'
    [.same "_bid_"] YB AB rfl rfl rfl (by simp) hvB hvA'
    (fun y hy k hk => by simp [byLeft, ByArg.left] at hk; subst hk; exact hkB y hy)
    (fun x hx k hk => by simp [byRight, ByArg.right] at hk; subst hk; exact hkA x hx)
  have hrun' : runJ F B.antiJoin [("self", refsV Bt), ("other", refsV A'), ("by", .tuple [PVal.str "_bid_"])] σ =
      some (((LoD.antiJoin YB AB ["_bid_"] ["_bid_"]).map (·.tag)).map PVal.ref, σ) := by
    rw [hB.antiJoin, hrun, List.map_map]; rfl
  unfold b'T at hmb' ⊢
  rw [evalAM_anti_join, memoized_miss _ _ _ hmb', eb]
  simp only [Option.bind_some, eab, evalStar_bidLit]
  rw [callGen_refs (runJ F) B.antiJoin _ e σ m c _ σ hrun']
  rfl

/-- `b' = b.anti_join(ab, "_bid_")`, `b` and `ab` remembered. -/
theorem bprime_eval (hB : FJBodies B) (e : Env) (σ : Store) (m : List (Term × PVal)) (c : List (String × Int))
    (A' Bt : List Nat) (AB YB : List Item)
    (hmb' : memoGet m b'T = none) (hmb : memoGet m bT = some (refsV Bt)) (hmab : memoGet m abT = some (refsV A'))
    (hvA' : Store.view σ A' = some AB) (hvB : Store.view σ Bt = some YB)
    (hkB : ∀ y, y ∈ YB → y.kv.has "_bid_" = true) (hkA : ∀ x, x ∈ AB → x.kv.has "_bid_" = true) :
    evalAM F B b'T ⟨e, σ, m, c⟩ = some (refsV ((LoD.antiJoin YB AB ["_bid_"] ["_bid_"]).map (·.tag)),
      ⟨e, σ, (b'T, refsV ((LoD.antiJoin YB AB ["_bid_"] ["_bid_"]).map (·.tag))) :: m, c⟩) :=
  bprime_step F B hB _ _ e σ m c A' Bt AB YB hmb' (evalAM_hit_bT F B _ _ hmb) (evalAM_hit_abT F B _ _ hmab) hvA' hvB hkB hkA

/-- the early return `ab.unselect("_aid_", "_bid_")`. -/
theorem fj_then_eval (hB : FJBodies B) (ρ : Env) (σ : Store) (rs os : List Nat) (xs ys : List Item) (bys : List ByArg)
    (hself : ρ.lookup "self" = some (refsVal rs)) (hother : ρ.lookup "other" = some (refsVal os))
    (hby : ρ.lookup "by" = some (byVal bys)) (hne : bys ≠ [])
    (hv : Store.view σ rs = some xs) (hw : Store.view σ os = some ys)
    (hk1 : ∀ x, x ∈ xs → ∀ k, k ∈ byLeft bys → x.kv.has k = true)
    (hk2 : ∀ y, y ∈ ys → ∀ k, k ∈ byRight bys → y.kv.has k = true) :
    ∃ A' XA' YB σu, evalM1 F B fjThenT ρ σ = some (refsV A', σu) ∧
      XA'.map (·.kv) = (tagFrom "_aid_" 1 xs).map (·.kv) ∧ YB.map (·.kv) = (tagFrom "_bid_" 1 ys).map (·.kv) ∧
      Store.view σu A' = some (LoD.unselect (LoD.fillMissing (LoD.leftJoin XA' YB (byLeft bys) (byRight bys))
        [("_bid_", .i (1 + (ys.length : Int)))]) ["_aid_", "_bid_"]) ∧
      A'.Nodup ∧ (∀ r, r ∈ A' → σ.lookup r = none) ∧ (∀ n d, σ.lookup n = some d → σu.lookup n = some d) := by
  obtain ⟨s, A, A', Bt, XA, XA', YB, eab, h⟩ := ab_fresh F B hB ρ σ rs os xs ys bys hself hother hby hne hv hw hk1 hk2
  obtain ⟨e, σf, m, c⟩ := s
  have henv := h.env; simp only at henv; subst henv
  have hvA' := h.viewA'; simp only at hvA'
  obtain ⟨σu, eu, hvu, holdu⟩ := refines_of_run
    (unselect_run F [("self", refsV A'), ("keys", keysVal ["_aid_", "_bid_"])] σf A' ["_aid_", "_bid_"] rfl rfl)
    (unselectLoop_model ["_aid_", "_bid_"] A' h.ndA' σf _ hvA')
  refine ⟨A', XA', YB, σu, ?_, h.kvA'.trans h.kvA, h.kvB, hvu, h.ndA', h.newA', ?_⟩
  · unfold evalM1 fjThenT
    rw [evalAM_unselect, memoized_miss _ _ _ rfl, eab]
    simp only [Option.bind_some, evalStar_idLits]
    rw [callGen_refs (run F) B.unselect _ e σf m c A' σu (by rw [hB.unselect]; exact eu)]
    rfl
  · intro n d hn
    have hnA' : n ∉ A' := fun hm => by rw [h.newA' n hm] at hn; cases hn
    rw [holdu n hnA']; exact h.old n d hn


/-- a `by` argument with the two sides exchanged (`tuple(reversed(x))`). -/
def ByArg.rev : ByArg → ByArg
  | .same k => .same k
  | .pair a b => .pair b a

theorem byLeft_rev (bys : List ByArg) : byLeft (bys.map ByArg.rev) = byRight bys := by
  simp only [byLeft, byRight, List.map_map]; apply List.map_congr_left; intro b _; cases b <;> rfl
theorem byRight_rev (bys : List ByArg) : byRight (bys.map ByArg.rev) = byLeft bys := by
  simp only [byLeft, byRight, List.map_map]; apply List.map_congr_left; intro b _; cases b <;> rfl

theorem byRev_eval (ρ : Env) (σ : Store) (bys : List ByArg) (hby : ρ.lookup "by" = some (byVal bys)) :
    evalAE F byRevT ρ σ = some (byVal (bys.map ByArg.rev)) := by
  have h := compLoop_map (bindTarget (.sym "x")) (fun _ => some true)
    (fun ρ1 => evalAE F (.app "ifexp" [.app "isinstance" [.sym "x", .app "tuple" [.sym "list", .sym "tuple"]],
      .app "tuple()" [.app "reversed" [.sym "x"]], .sym "x"]) ρ1 σ)
    ρ ByArg.val (fun b => some b.rev.val) bys (by
      intro b _
      refine ⟨("x", b.val) :: ρ, rfl, Or.inr ⟨_, rfl, rfl, ?_⟩⟩
      have hx : ∀ v : PVal, (("x", v) :: ρ).lookup "x" = some v := fun v => by rw [List.lookup_cons]; simp
      rw [evalAE_ifexp, evalAE_isinstance_seq, evalAE_sym_x, hx]
      cases b with
      | same k => simp only [ByArg.val, PVal.str, PVal.asTuple, Option.map_some, Option.isSome_none, Option.bind_some, truthy,
          Bool.false_eq_true, if_false, ByArg.rev]
      | pair a b =>
        simp only [ByArg.val, PVal.asTuple, Option.map_some, Option.isSome_some, Option.bind_some, truthy, if_true,
          evalAE_tupleCall, evalAE_reversed, evalAE_sym_x, hx, ByArg.rev]
        rfl)
  unfold byRevT
  rw [evalAE_ListComp, evalAE_sym_by, hby]
  simp only [byVal, Option.bind_some, PVal.asTuple, h, Option.map_some, List.filterMap_eq_map', List.map_map]
  rfl

theorem evalStar_byRev (ρ : Env) (σ : Store) (bys : List ByArg) (hby : ρ.lookup "by" = some (byVal bys)) :
    evalStar F [.app "*" [byRevT]] ρ σ = some ((bys.map ByArg.rev).map ByArg.val) := by
  simp only [evalStar, byRev_eval F ρ σ bys hby, byVal, Option.bind_some, PVal.asTuple, Option.map_some, List.append_nil]

/-- the rows carry integer ids. -/
def IdsInt (d : LoD.Dict) : Prop := (∃ a, d.get? "_aid_" = some (.i a)) ∧ (∃ b, d.get? "_bid_" = some (.i b))

def fjABi (XA' YB : List Item) (by1 by2 : List String) (m : Nat) : List Item :=
  LoD.fillMissing (LoD.leftJoin XA' YB by1 by2) [("_bid_", .i (1 + (m : Int)))]
def fjBAi (B' XA : List Item) (by1 by2 : List String) (n : Nat) : List Item :=
  LoD.fillMissing (LoD.leftJoin B' XA by2 by1) [("_aid_", .i (1 + (n : Int)))]
def fjB'i (YB AB : List Item) : List Item := LoD.antiJoin YB AB ["_bid_"] ["_bid_"]

theorem evalKwargs_ids (ρ : Env) (σ : Store) :
    evalKwargs F [.app "=_aid_" [.int 1], .app "=_bid_" [.int 1]] ρ σ =
      some [(PVal.str "_aid_", .atom (.i 1)), (PVal.str "_bid_", .atom (.i 1))] := rfl

theorem dirPairs_ids : dictValP (aofPairs [(PVal.str "_aid_", PVal.atom (.i 1)), (PVal.str "_bid_", PVal.atom (.i 1))]) =
    dirPairsVal [("_aid_", false), ("_bid_", false)] := by decide


theorem idsInt_has (d : LoD.Dict) (h : IdsInt d) : d.has "_aid_" = true ∧ d.has "_bid_" = true := by
  obtain ⟨⟨a, ha⟩, ⟨b, hb⟩⟩ := h
  rw [Dict.has_iff_get?, Dict.has_iff_get?, ha, hb]; exact ⟨rfl, rfl⟩

theorem idsInt_sameKind (x y : Item) (hx : IdsInt x.kv) (hy : IdsInt y.kv) (k : String) (hk : k = "_aid_" ∨ k = "_bid_") :
    sameKind (keyVal k x) (keyVal k y) = true := by
  obtain ⟨⟨a, ha⟩, ⟨b, hb⟩⟩ := hx
  obtain ⟨⟨a', ha'⟩, ⟨b', hb'⟩⟩ := hy
  rcases hk with rfl | rfl
  · simp [keyVal, ha, ha', sameKind]
  · simp [keyVal, hb, hb', sameKind]

theorem antiJoin_sublist (xs ys : List Item) (by1 by2 : List String) : (LoD.antiJoin xs ys by1 by2).Sublist xs :=
  List.filter_sublist

/-- the general return `(ab + ba).sort(_aid_=1, _bid_=1).unselect("_aid_", "_bid_")`. -/
theorem fj_else_eval (hB : FJBodies B) (ρ : Env) (σ : Store) (rs os : List Nat) (xs ys : List Item) (bys : List ByArg)
    (hself : ρ.lookup "self" = some (refsVal rs)) (hother : ρ.lookup "other" = some (refsVal os))
    (hby : ρ.lookup "by" = some (byVal bys)) (hne : bys ≠ [])
    (hv : Store.view σ rs = some xs) (hw : Store.view σ os = some ys)
    (hk1 : ∀ x, x ∈ xs → ∀ k, k ∈ byLeft bys → x.kv.has k = true)
    (hk2 : ∀ y, y ∈ ys → ∀ k, k ∈ byRight bys → y.kv.has k = true)
    (hint : ∀ XA XA' YB : List Item, XA.map (·.kv) = (tagFrom "_aid_" 1 xs).map (·.kv) → XA'.map (·.kv) = XA.map (·.kv) →
      YB.map (·.kv) = (tagFrom "_bid_" 1 ys).map (·.kv) →
      ∀ r, r ∈ fjABi XA' YB (byLeft bys) (byRight bys) ys.length ++
        fjBAi (fjB'i YB (fjABi XA' YB (byLeft bys) (byRight bys) ys.length)) XA (byLeft bys) (byRight bys) xs.length →
        IdsInt r.kv) :
    ∃ XA XA' YB T σu, evalM1 F B fjElseT ρ σ = some (.tuple (T.map tagRef), σu) ∧
      XA.map (·.kv) = (tagFrom "_aid_" 1 xs).map (·.kv) ∧ XA'.map (·.kv) = XA.map (·.kv) ∧
      YB.map (·.kv) = (tagFrom "_bid_" 1 ys).map (·.kv) ∧
      T = LoD.sort (fjABi XA' YB (byLeft bys) (byRight bys) ys.length ++
        fjBAi (fjB'i YB (fjABi XA' YB (byLeft bys) (byRight bys) ys.length)) XA (byLeft bys) (byRight bys) xs.length)
        [("_aid_", false), ("_bid_", false)] ∧
      Store.view σu (T.map (·.tag)) = some (LoD.unselect T ["_aid_", "_bid_"]) ∧
      (T.map (·.tag)).Nodup ∧ (∀ t, t ∈ T → σ.lookup t.tag = none) ∧ (∀ n d, σ.lookup n = some d → σu.lookup n = some d) := by
  obtain ⟨s, A, A', Bt, XA, XA', YB, eab, h⟩ := ab_fresh F B hB ρ σ rs os xs ys bys hself hother hby hne hv hw hk1 hk2
  obtain ⟨e, σf, m, c⟩ := s
  have henv := h.env; have hmemo := h.memo; have hctr := h.ctr
  simp only at henv hmemo hctr
  subst henv hmemo hctr
  have hvA := h.viewA; have hvA' := h.viewA'; have hvB := h.viewB
  simp only at hvA hvA' hvB
  let AB := fjABi XA' YB (byLeft bys) (byRight bys) ys.length
  let B' := fjB'i YB AB
  let BA := fjBAi B' XA (byLeft bys) (byRight bys) xs.length
  have hint' : ∀ r, r ∈ AB ++ BA → IdsInt r.kv := hint XA XA' YB h.kvA h.kvA' h.kvB
  -- b'
  have hkB : ∀ y, y ∈ YB → y.kv.has "_bid_" = true := by
    intro y hy
    obtain ⟨y0, v, _, e'⟩ := tagged_members "_bid_" _ ys YB h.kvB y hy
    rw [e', Dict.has_iff_get?, Dict.get?_set_self]; rfl
  have hkA : ∀ x, x ∈ AB → x.kv.has "_bid_" = true := fun x hx => (idsInt_has x.kv (hint' x (List.mem_append_left _ hx))).2
  have eb' := bprime_eval F B hB e σf
    [(abT, refsV A'), (ljT, refsV A'), (bT, refsV Bt), (dcOtherT, refsV Bt), (dcaT, refsV A'), (aT, refsV A), (dcSelfT, refsV A)]
    [("_bid_", 1 + (ys.length : Int) + 1), ("_bid_", 1 + (ys.length : Int)), ("_aid_", 1 + (xs.length : Int))]
    A' Bt AB YB rfl rfl rfl hvA' hvB hkB hkA
  -- the reverse join
  have hB'sub : B'.Sublist YB := antiJoin_sublist _ _ _ _
  have hB'tags : (B'.map (·.tag)).Sublist Bt := by
    rw [← Store.view_tags σf Bt YB hvB]; exact hB'sub.map _
  have hndB' : (B'.map (·.tag)).Nodup := h.ndB.sublist hB'tags
  have hvB' : Store.view σf (B'.map (·.tag)) = some B' :=
    Store.view_of_lookups σf B' (fun y hy => Store.view_lookup_of_mem σf Bt YB hvB y (hB'sub.subset hy))
  have hdisB'A : ∀ r, r ∈ B'.map (·.tag) → r ∉ A := fun r hr hr' => h.disjAB r hr' (hB'tags.subset hr)
  have hkB'2 : ∀ y, y ∈ B' → ∀ k, k ∈ byLeft (bys.map ByArg.rev) → y.kv.has k = true := by
    intro y hy k hk
    rw [byLeft_rev] at hk
    obtain ⟨y0, v, hy0, e'⟩ := tagged_members "_bid_" _ ys YB h.kvB y (hB'sub.subset hy)
    rw [e']; exact has_set_of_has _ _ _ _ (hk2 y0 hy0 k hk)
  have hkXA1 : ∀ x, x ∈ XA → ∀ k, k ∈ byRight (bys.map ByArg.rev) → x.kv.has k = true := by
    intro x hx k hk
    rw [byRight_rev] at hk
    obtain ⟨x0, v, hx0, e'⟩ := tagged_members "_aid_" _ xs XA h.kvA x hx
    rw [e']; exact has_set_of_has _ _ _ _ (hk1 x0 hx0 k hk)
  obtain ⟨σl, el, hvl, holdl⟩ := left_join_run F
    [("self", refsV (B'.map (·.tag))), ("other", refsV A), ("by", .tuple ((bys.map ByArg.rev).map ByArg.val))]
    σf (B'.map (·.tag)) A (bys.map ByArg.rev) B' XA rfl rfl rfl (by simpa using hne) hndB' hdisB'A hvB' hvA hkB'2 hkXA1
  rw [byLeft_rev, byRight_rev] at hvl
  obtain ⟨σg, eg, hvg, holdg⟩ := refines_of_run
    (fill_run F [("self", refsV (B'.map (·.tag))), ("key_value_pairs", kvPairsVal [("_aid_", .i (1 + (xs.length : Int)))])] σl
      (B'.map (·.tag)) [("_aid_", .i (1 + (xs.length : Int)))] rfl rfl)
    (fillLoop_model [("_aid_", .i (1 + (xs.length : Int)))] (B'.map (·.tag)) hndB' σl _ hvl)
  have hvgBA : Store.view σg (B'.map (·.tag)) = some BA := hvg
  have hBAtags : BA.map (·.tag) = B'.map (·.tag) := Store.view_tags σg _ BA hvgBA
  have hdisA'B' : ∀ r, r ∈ A' → r ∉ B'.map (·.tag) := fun r hr hr' => h.disjA'B r hr (hB'tags.subset hr')
  have hvgAB : Store.view σg A' = some AB := by
    rw [Store.view_congr σf σg A' (fun n hn => by rw [holdg n (hdisA'B' n hn), holdl n (hdisA'B' n hn)])]
    exact hvA'
  have hABtags : AB.map (·.tag) = A' := Store.view_tags σg _ AB hvgAB
  -- the sort
  have hvR : Store.view σg (A' ++ B'.map (·.tag)) = some (AB ++ BA) := by
    rw [Store.view_append, hvgAB, hvgBA]; rfl
  obtain ⟨ρs, es⟩ := sort_run F [("self", refsVal (A' ++ B'.map (·.tag))),
      ("key_dir_pairs", dirPairsVal [("_aid_", false), ("_bid_", false)])] σg (A' ++ B'.map (·.tag)) (AB ++ BA)
    [("_aid_", false), ("_bid_", false)] rfl rfl hvR
    (by
      intro p hp x hx
      have := idsInt_has x.kv (hint' x hx)
      simp only [List.mem_cons, List.mem_nil_iff, or_false] at hp
      rcases hp with rfl | rfl
      · exact this.1
      · exact this.2)
    (by
      intro p hp x hx y hy
      simp only [List.mem_cons, List.mem_nil_iff, or_false] at hp
      rcases hp with rfl | rfl
      · exact idsInt_sameKind x y (hint' x hx) (hint' y hy) _ (Or.inl rfl)
      · exact idsInt_sameKind x y (hint' x hx) (hint' y hy) _ (Or.inr rfl))
  let T := LoD.sort (AB ++ BA) [("_aid_", false), ("_bid_", false)]
  have hTperm : T.Perm (AB ++ BA) := sort_perm _ _
  have hTtags : (T.map (·.tag)).Perm (A' ++ B'.map (·.tag)) := by
    have := hTperm.map (·.tag)
    rw [List.map_append, hABtags, hBAtags] at this; exact this
  have hndR : (A' ++ B'.map (·.tag)).Nodup := by
    rw [List.nodup_append]
    exact ⟨h.ndA', hndB', fun a ha b hb e' => hdisA'B' a ha (e' ▸ hb)⟩
  have hndT : (T.map (·.tag)).Nodup := hTtags.nodup_iff.mpr hndR
  have hvT : Store.view σg (T.map (·.tag)) = some T :=
    Store.view_of_lookups σg T (fun t ht =>
      Store.view_lookup_of_mem σg _ (AB ++ BA) hvR t (hTperm.mem_iff.mp ht))
  obtain ⟨σu, eu, hvu, holdu⟩ := refines_of_run
    (unselect_run F [("self", .tuple (T.map tagRef)), ("keys", keysVal ["_aid_", "_bid_"])] σg (T.map (·.tag))
      ["_aid_", "_bid_"] (by rw [← refs_of_view σg _ T hvT]; rfl) rfl)
    (unselectLoop_model ["_aid_", "_bid_"] (T.map (·.tag)) hndT σg _ hvT)
  have hnewT : ∀ t, t ∈ T → σ.lookup t.tag = none := by
    intro t ht
    have : t.tag ∈ A' ++ B'.map (·.tag) := hTtags.mem_iff.mp (List.mem_map_of_mem ht)
    rcases List.mem_append.mp this with h1 | h1
    · exact h.newA' _ h1
    · exact h.newB _ (hB'tags.subset h1)
  refine ⟨XA, XA', YB, T, σu, ?_, h.kvA, h.kvA', h.kvB, rfl, hvu, hndT, hnewT, ?_⟩
  · -- the evaluation
    have eaT : ∀ v : PVal, evalAM F B aT
        ⟨e, σf, (b'T, v) :: [(abT, refsV A'), (ljT, refsV A'), (bT, refsV Bt), (dcOtherT, refsV Bt),
          (dcaT, refsV A'), (aT, refsV A), (dcSelfT, refsV A)],
          [("_bid_", 1 + (ys.length : Int) + 1), ("_bid_", 1 + (ys.length : Int)), ("_aid_", 1 + (xs.length : Int))]⟩ =
        some (refsV A, ⟨e, σf, (b'T, v) :: [(abT, refsV A'), (ljT, refsV A'), (bT, refsV Bt), (dcOtherT, refsV Bt),
          (dcaT, refsV A'), (aT, refsV A), (dcSelfT, refsV A)],
          [("_bid_", 1 + (ys.length : Int) + 1), ("_bid_", 1 + (ys.length : Int)), ("_aid_", 1 + (xs.length : Int))]⟩) :=
      fun v => evalAM_hit_aT F B _ (refsV A) rfl
    have eljr : evalAM F B ljRevT ⟨e, σf, [(abT, refsV A'), (ljT, refsV A'), (bT, refsV Bt), (dcOtherT, refsV Bt),
        (dcaT, refsV A'), (aT, refsV A), (dcSelfT, refsV A)],
        [("_bid_", 1 + (ys.length : Int) + 1), ("_bid_", 1 + (ys.length : Int)), ("_aid_", 1 + (xs.length : Int))]⟩ =
        some (refsV (B'.map (·.tag)), ⟨e, σl, (ljRevT, refsV (B'.map (·.tag))) :: (b'T, refsV (B'.map (·.tag))) ::
          [(abT, refsV A'), (ljT, refsV A'), (bT, refsV Bt), (dcOtherT, refsV Bt), (dcaT, refsV A'), (aT, refsV A),
            (dcSelfT, refsV A)],
          [("_bid_", 1 + (ys.length : Int) + 1), ("_bid_", 1 + (ys.length : Int)), ("_aid_", 1 + (xs.length : Int))]⟩) := by
      unfold ljRevT
      rw [evalAM_left_join, memoized_miss _ _ _ rfl, eb']
      simp only [Option.bind_some, eaT, evalStar_byRev F e σf bys hby]
      rw [callGen_refs (runJ F) B.leftJoin _ e σf _ _ (B'.map (·.tag)) σl (by rw [hB.leftJoin]; exact el)]
      rfl
    have eba : evalAM F B baT ⟨e, σf, [(abT, refsV A'), (ljT, refsV A'), (bT, refsV Bt), (dcOtherT, refsV Bt),
        (dcaT, refsV A'), (aT, refsV A), (dcSelfT, refsV A)],
        [("_bid_", 1 + (ys.length : Int) + 1), ("_bid_", 1 + (ys.length : Int)), ("_aid_", 1 + (xs.length : Int))]⟩ =
        some (refsV (B'.map (·.tag)), ⟨e, σg, (baT, refsV (B'.map (·.tag))) :: (ljRevT, refsV (B'.map (·.tag))) ::
          (b'T, refsV (B'.map (·.tag))) :: [(abT, refsV A'), (ljT, refsV A'), (bT, refsV Bt), (dcOtherT, refsV Bt),
            (dcaT, refsV A'), (aT, refsV A), (dcSelfT, refsV A)],
          ("_aid_", 1 + (xs.length : Int) + 1) :: [("_bid_", 1 + (ys.length : Int) + 1), ("_bid_", 1 + (ys.length : Int)),
            ("_aid_", 1 + (xs.length : Int))]⟩) := by
      unfold baT
      rw [evalAM_fill, memoized_miss _ _ _ rfl]
      have hkw : kwName "=_aid_" = some "_aid_" := rfl
      simp only [hkw, Option.bind_some, eljr, evalKwVal_next]
      have hc : ctrGet [("_bid_", 1 + (ys.length : Int) + 1), ("_bid_", 1 + (ys.length : Int)), ("_aid_", 1 + (xs.length : Int))]
          "_aid_" 1 = 1 + (xs.length : Int) := by simp [ctrGet, List.lookup_cons]
      simp only [hc]
      rw [callGen_refs (run F) B.fill _ e σl _ _ (B'.map (·.tag)) σg (by rw [hB.fill]; exact eg)]
      rfl
    have eadd : evalAM F B addT ⟨e, σ, [], []⟩ = some (refsV (A' ++ B'.map (·.tag)), ⟨e, σg,
        (addT, refsV (A' ++ B'.map (·.tag))) :: (baT, refsV (B'.map (·.tag))) :: (ljRevT, refsV (B'.map (·.tag))) ::
          (b'T, refsV (B'.map (·.tag))) :: [(abT, refsV A'), (ljT, refsV A'), (bT, refsV Bt), (dcOtherT, refsV Bt),
            (dcaT, refsV A'), (aT, refsV A), (dcSelfT, refsV A)],
          ("_aid_", 1 + (xs.length : Int) + 1) :: [("_bid_", 1 + (ys.length : Int) + 1), ("_bid_", 1 + (ys.length : Int)),
            ("_aid_", 1 + (xs.length : Int))]⟩) := by
      unfold addT
      rw [evalAM_Add, memoized_miss _ _ _ rfl, eab]
      simp only [Option.bind_some, eba]
      rw [callGen_refs (run F) B.add _ e σg _ _ (A' ++ B'.map (·.tag)) σg
        (by rw [hB.add]; exact add_run F [("self", refsV A'), ("other", refsV (B'.map (·.tag)))] σg A' (B'.map (·.tag)) rfl rfl)]
      rfl
    unfold evalM1 fjElseT
    rw [evalAM_unselect, memoized_miss _ _ _ rfl]
    unfold fjSortT
    rw [evalAM_sort, memoized_miss _ _ _ rfl, eadd]
    simp only [Option.bind_some, evalKwargs_ids, dirPairs_ids, hB.sort, refsV_eq, es, Option.map_some, evalStar_idLits]
    rw [callGen_refs (run F) B.unselect _ e σg _ _ (T.map (·.tag)) σu (by rw [hB.unselect]; exact eu)]
    simp only [Option.map_some, refsV, List.map_map]
    rfl
  · intro n d hn
    have hnT : n ∉ T.map (·.tag) := fun hm => by
      obtain ⟨t, ht, e'⟩ := List.mem_map.mp hm
      have := hnewT t ht
      rw [e', hn] at this; cases this
    have hnB' : n ∉ B'.map (·.tag) := fun hm => by
      have := h.newB n (hB'tags.subset hm)
      rw [hn] at this; cases this
    rw [holdu n hnT, holdg n hnB', holdl n hnB']
    exact h.old n d hn


theorem fjABi_has_bid (XA' YB : List Item) (by1 by2 : List String) (m : Nat) (x : Item) (hx : x ∈ fjABi XA' YB by1 by2 m) :
    x.kv.has "_bid_" = true := by
  rw [Dict.has_iff_get?]
  exact fillMissing_has_all _ _ x hx "_bid_" (by simp)

/-- the test `len(b') == 0`: `b` first, then `a` and `ab`, then the anti join. -/
theorem fj_test_eval (hB : FJBodies B) (ρ : Env) (σ : Store) (rs os : List Nat) (xs ys : List Item) (bys : List ByArg)
    (hself : ρ.lookup "self" = some (refsVal rs)) (hother : ρ.lookup "other" = some (refsVal os))
    (hby : ρ.lookup "by" = some (byVal bys)) (hne : bys ≠ [])
    (hv : Store.view σ rs = some xs) (hw : Store.view σ os = some ys)
    (hk1 : ∀ x, x ∈ xs → ∀ k, k ∈ byLeft bys → x.kv.has k = true)
    (hk2 : ∀ y, y ∈ ys → ∀ k, k ∈ byRight bys → y.kv.has k = true) :
    ∃ XA' YB σt, evalM1 F B fjTestT ρ σ =
        some (.bool (fjB'i YB (fjABi XA' YB (byLeft bys) (byRight bys) ys.length)).isEmpty, σt) ∧
      XA'.map (·.kv) = (tagFrom "_aid_" 1 xs).map (·.kv) ∧ YB.map (·.kv) = (tagFrom "_bid_" 1 ys).map (·.kv) := by
  -- b
  obtain ⟨Bt, σb, YB, eb, hvb, hkvb, hndb, hnewb, holdb⟩ := b_eval F B ρ σ [] [] os ys hother hw rfl rfl
  have hframe0 : ∀ n d, σ.lookup n = some d → σb.lookup n = some d := fun n d hn => by
    have : n ∉ Bt := fun hm => by rw [hnewb n hm] at hn; cases hn
    rw [holdb n this]; exact hn
  have hvb_rs : Store.view σb rs = some xs := view_frame σ σb rs xs hv hframe0
  have hkYB : ∀ y, y ∈ YB → ∀ k, k ∈ byRight bys → y.kv.has k = true := by
    intro y hy k hk
    obtain ⟨y0, v, hy0, e'⟩ := tagged_members "_bid_" _ ys YB hkvb y hy
    rw [e']; exact has_set_of_has _ _ _ _ (hk2 y0 hy0 k hk)
  -- ab, with b remembered
  obtain ⟨s1, A, A', XA, XA', Bt', s2, YB', σf, hA, e2, hYB', eab, hvf, holdf⟩ :=
    ab_eval F B hB ρ σb [(bT, refsV Bt), (dcOtherT, refsV Bt)] [("_bid_", ctrGet [] "_bid_" 1 + (ys.length : Int))] rs xs bys
      hself hby hne hvb_rs hk1 rfl rfl rfl rfl rfl
      (fun s1 A A' XA XA' hA => by
        obtain ⟨e1, σ1, m1, c1⟩ := s1
        have henv := hA.env; have hmemo := hA.memo
        simp only at henv hmemo
        subst henv hmemo
        refine ⟨Bt, _, YB, evalAM_hit_bT F B _ (refsV Bt) rfl, rfl, fun _ _ h => h, view_frame σb σ1 Bt YB hvb hA.old, hkYB, ?_,
          rfl, rfl⟩
        intro r hr hr'
        obtain ⟨d, hd⟩ := live_of_view σb Bt YB hvb r hr'
        rw [hA.newA' r hr] at hd; cases hd)
  obtain ⟨e1, σ1, m1, c1⟩ := s1
  have henv := hA.env; have hmemo := hA.memo; have hctr := hA.ctr
  simp only at henv hmemo hctr
  subst henv hmemo hctr
  rw [evalAM_hit_bT F B _ (refsV Bt) rfl] at e2
  simp only [Option.some.injEq, Prod.mk.injEq] at e2
  obtain ⟨eBt, es2⟩ := e2
  have eBt' := refsV_inj _ _ eBt
  subst eBt' es2
  simp only at hYB' hvf holdf eab
  have hYB1 : Store.view σ1 Bt = some YB := view_frame σb σ1 Bt YB hvb hA.old
  rw [hYB1] at hYB'
  have eYB : YB = YB' := Option.some.inj hYB'
  subst eYB
  have hc : ctrGet (("_aid_", ctrGet [("_bid_", ctrGet [] "_bid_" 1 + (ys.length : Int))] "_aid_" 1 + (xs.length : Int)) ::
      [("_bid_", ctrGet [] "_bid_" 1 + (ys.length : Int))]) "_bid_" 1 = 1 + (ys.length : Int) := by
    simp [ctrGet, List.lookup_cons]
  rw [hc] at hvf
  have hca : ctrGet [("_bid_", ctrGet [] "_bid_" 1 + (ys.length : Int))] "_aid_" 1 = 1 := by
    simp [ctrGet, List.lookup_cons]
  have hA'B : ∀ r, r ∈ A' → r ∉ Bt := fun r hr hr' => by
    obtain ⟨d, hd⟩ := live_of_view σb Bt YB hvb r hr'
    rw [hA.newA' r hr] at hd; cases hd
  have hvfB : Store.view σf Bt = some YB := by
    rw [Store.view_congr σ1 σf Bt (fun n hn => holdf n (fun hm => hA'B n hm hn))]; exact hYB1
  have hkB : ∀ y, y ∈ YB → y.kv.has "_bid_" = true := by
    intro y hy
    obtain ⟨y0, v, _, e'⟩ := tagged_members "_bid_" _ ys YB hkvb y hy
    rw [e', Dict.has_iff_get?, Dict.get?_set_self]; rfl
  have eb' := bprime_step F B hB ⟨e1, σ, [], []⟩ _ e1 σf _ _ A' Bt _ YB rfl eb eab hvf hvfB hkB
    (fun x hx => fjABi_has_bid XA' YB _ _ ys.length x hx)
  refine ⟨XA', YB, σf, ?_, ?_, ?_⟩
  · unfold evalM1 fjTestT
    rw [evalAM_Eq, evalAM_len, eb']
    simp only [Option.bind_some, refsV, PVal.asTuple, Option.map_some, evalAM_int, pyEq, PVal.plain, Bool.and_self, if_true]
    congr 2
    simp only [fjB'i, fjABi, List.length_map]
    cases h : LoD.antiJoin YB (LoD.fillMissing (LoD.leftJoin XA' YB (byLeft bys) (byRight bys)) [("_bid_", .i (1 + (ys.length : Int)))])
        ["_bid_"] ["_bid_"] with
    | nil => simp
    | cons a l =>
      simp only [List.length_cons, List.isEmpty_cons]
      have : ¬ ((l.length : Int) + 1 = 0) := by omega
      simp [this]
  · rw [hA.kvA', hA.kvA, hca]
  · rw [hkvb]; rfl

end FJ2


/-! ### 4. the contents: dict algebra -/

theorem has_set (d : LoD.Dict) (k k' : String) (v : LoD.Val) : (d.set k' v).has k = (d.has k || k == k') := by
  rw [Dict.has_iff_get?, Dict.has_iff_get?]
  by_cases e : k = k'
  · subst e; rw [Dict.get?_set_self]; simp
  · rw [Dict.get?_set_other d k' k v e]
    have : (k == k') = false := by simpa using e
    simp [this]

theorem set_of_not_has (d : LoD.Dict) (k : String) (v : LoD.Val) (h : d.has k = false) : d.set k v = d ++ [(k, v)] := by
  simp [Dict.set, h]

theorem filter_arepl (d : LoD.Dict) (k k' : String) (v : LoD.Val) :
    (d.map (arepl k v)).filter (fun p => p.1 != k') = (d.filter (fun p => p.1 != k')).map (arepl k v) := by
  rw [List.filter_map]
  congr 1
  apply List.filter_congr
  intro p _
  simp only [Function.comp, arepl_fst]

theorem map_arepl_filter_self (d : LoD.Dict) (k : String) (v : LoD.Val) :
    (d.filter (fun p => p.1 != k)).map (arepl k v) = d.filter (fun p => p.1 != k) := by
  conv => rhs; rw [← List.map_id (d.filter (fun p => p.1 != k))]
  apply List.map_congr_left
  intro p hp
  have h := (List.mem_filter.mp hp).2
  have : (p.1 == k) = false := by simpa using h
  simp [arepl, this]

theorem del_set_self (d : LoD.Dict) (k : String) (v : LoD.Val) : (d.set k v).del k = d.del k := by
  rw [Dict.set_eq_aset, aset_def]
  unfold Dict.del
  split
  · rw [filter_arepl, map_arepl_filter_self]
  · simp [List.filter_append]

theorem del_set_other (d : LoD.Dict) (k k' : String) (v : LoD.Val) (h : k ≠ k') : (d.set k v).del k' = (d.del k').set k v := by
  have hhas : (d.del k').any (fun p => p.1 == k) = d.any (fun p => p.1 == k) := by
    have := Dict.get?_del_other d k' k h
    have e1 : (d.del k').has k = d.has k := by rw [Dict.has_iff_get?, Dict.has_iff_get?, this]
    exact e1
  rw [Dict.set_eq_aset, aset_def, Dict.set_eq_aset, aset_def, hhas]
  split
  · exact filter_arepl d k k' v
  · have hk : (k != k') = true := by simpa using h
    simp [Dict.del, List.filter_append, hk]

theorem update_eq_foldl (d o : LoD.Dict) : d.update o = o.foldl (fun d p => d.set p.1 p.2) d := rfl

theorem has_cons (p : String × LoD.Val) (o : LoD.Dict) (k : String) : Dict.has (p :: o) k = (p.1 == k || Dict.has o k) := rfl

theorem del_update (d o : LoD.Dict) (k : String) (h : Dict.has o k = false) : (d.update o).del k = (d.del k).update o := by
  induction o generalizing d with
  | nil => rfl
  | cons p o ih =>
    rw [has_cons, Bool.or_eq_false_iff] at h
    have hp : p.1 ≠ k := by simpa using h.1
    simp only [update_eq_foldl, List.foldl_cons] at ih ⊢
    rw [ih (d.set p.1 p.2) h.2, del_set_other d p.1 k p.2 hp]

theorem update_append (d o o' : LoD.Dict) : d.update (o ++ o') = (d.update o).update o' := by
  simp only [update_eq_foldl, List.foldl_append]

theorem has_update (d o : LoD.Dict) (k : String) : (d.update o).has k = (d.has k || Dict.has o k) := by
  induction o generalizing d with
  | nil => simp [update_eq_foldl, Dict.has]
  | cons p o ih =>
    simp only [update_eq_foldl, List.foldl_cons] at ih ⊢
    rw [ih, has_set, has_cons]
    have : (k == p.1) = (p.1 == k) := by
      by_cases e : k = p.1
      · subst e; simp
      · have e' : ¬ p.1 = k := fun h => e h.symm
        rw [beq_eq_false_iff_ne.mpr e, beq_eq_false_iff_ne.mpr e']
    rw [this, Bool.or_assoc]

theorem get_update_of_not_has (d o : LoD.Dict) (k : String) (h : Dict.has o k = false) : (d.update o).get? k = d.get? k := by
  induction o generalizing d with
  | nil => rfl
  | cons p o ih =>
    rw [has_cons, Bool.or_eq_false_iff] at h
    have hp : k ≠ p.1 := by
      have : ¬ p.1 = k := by simpa using h.1
      exact fun e => this e.symm
    simp only [update_eq_foldl, List.foldl_cons] at ih ⊢
    rw [ih _ h.2, Dict.get?_set_other d p.1 k p.2 hp]

theorem has_nonKey (d : LoD.Dict) (ks : List String) (k : String) : Dict.has (nonKey d ks) k = (d.has k && !ks.contains k) := by
  induction d with
  | nil => rfl
  | cons p d ih =>
    have hstep : nonKey (p :: d) ks = if ks.contains p.1 then nonKey d ks else p :: nonKey d ks := by
      simp only [nonKey, List.filter_cons]
      cases ks.contains p.1 <;> rfl
    rw [hstep]
    by_cases e : p.1 = k
    · subst e
      cases c : ks.contains p.1
      · simp [has_cons]
      · simp only [if_true, ih, c, has_cons, beq_self_eq_true, Bool.true_or, Bool.not_true, Bool.and_false]
    · have e' : (p.1 == k) = false := by simpa using e
      cases c : ks.contains p.1
      · simp [has_cons, e', ih]
      · simp [has_cons, e', ih]

theorem nonKey_append (d e : LoD.Dict) (ks : List String) : nonKey (d ++ e) ks = nonKey d ks ++ nonKey e ks := by
  simp [nonKey, List.filter_append]


/-! ### the rows of the pipeline -/

/-- the two bookkeeping keys removed (`unselect("_aid_", "_bid_")`). -/
def cleanK (d : LoD.Dict) : LoD.Dict := (d.del "_aid_").del "_bid_"

/-- an item's contents without the bookkeeping keys. -/
def Clean (d : LoD.Dict) : Prop := d.has "_aid_" = false ∧ d.has "_bid_" = false

theorem clean_ab (d o : LoD.Dict) (a b : LoD.Val) (hd : Clean d) (ho : Clean o) :
    cleanK (((d.set "_aid_" a).update o).set "_bid_" b) = d.update o := by
  unfold cleanK
  have h1 : (((d.set "_aid_" a).update o).set "_bid_" b).del "_aid_" = (d.update o).set "_bid_" b := by
    rw [del_set_other _ "_bid_" "_aid_" b (by decide), del_update _ o "_aid_" ho.1, del_set_self d "_aid_" a,
      Dict.del_of_not_has d _ hd.1]
  rw [h1, del_set_self, del_update _ o "_bid_" ho.2, Dict.del_of_not_has d _ hd.2]

theorem clean_ba (d o : LoD.Dict) (a b : LoD.Val) (hd : Clean d) (ho : Clean o) :
    cleanK (((d.set "_bid_" b).update o).set "_aid_" a) = d.update o := by
  unfold cleanK
  have h1 : (((d.set "_bid_" b).update o).set "_aid_" a).del "_aid_" = (d.set "_bid_" b).update o := by
    rw [del_set_self, del_update _ o "_aid_" ho.1, del_set_other d "_bid_" "_aid_" b (by decide), Dict.del_of_not_has d _ hd.1]
  rw [h1, del_update _ o "_bid_" ho.2, del_set_self, Dict.del_of_not_has d _ hd.2]

theorem clean_nonKey (d : LoD.Dict) (ks : List String) (h : Clean d) : Clean (nonKey d ks) := by
  unfold Clean at h ⊢
  rw [has_nonKey, has_nonKey, h.1, h.2]; exact ⟨rfl, rfl⟩

/-- `fill_missing_keys(k=v)` on one dict. -/
def fillK (k : String) (v : LoD.Val) (d : LoD.Dict) : LoD.Dict := if d.has k then d else d.set k v

theorem fillMissing_one (X : List Item) (k : String) (v : LoD.Val) :
    LoD.fillMissing X [(k, v)] = X.map fun x => { tag := x.tag, kv := fillK k v x.kv } := rfl

theorem tagFrom_closed (key : String) (c0 : Int) : ∀ (xs : List Item) (c : Int) (n : Nat), c = c0 + n →
    (tagFrom key c xs).map (·.kv) = (xs.zipIdx n).map fun q => q.1.kv.set key (.i (c0 + q.2))
  | [], _, _, _ => rfl
  | x :: xs, c, n, h => by
    simp only [tagFrom, List.map_cons, List.zipIdx_cons]
    rw [tagFrom_closed key c0 xs (c + 1) (n + 1) (by rw [h]; omega), h]

theorem tagFrom_kvs (key : String) (xs : List Item) :
    (tagFrom key 1 xs).map (·.kv) = xs.zipIdx.map fun q => q.1.kv.set key (.i (1 + q.2)) :=
  tagFrom_closed key 1 xs 1 0 (by simp)

theorem extract_set_other (ks : List String) (d : LoD.Dict) (k : String) (v : LoD.Val) (t t' : Nat) (h : k ∉ ks) :
    extract ks ⟨t, d.set k v⟩ = extract ks ⟨t', d⟩ := by
  unfold extract
  apply List.map_congr_left
  intro k' hk'
  have : k' ≠ k := fun e => h (e ▸ hk')
  simp only [Dict.get?_set_other d k k' v this]

theorem not_mem_of_has (ks : List String) (d : LoD.Dict) (k : String) (hk : ∀ k', k' ∈ ks → d.has k' = true) (hd : d.has k = false) :
    k ∉ ks := fun hm => by rw [hk k hm] at hd; cases hd

theorem find?_congr_mem {α : Type} (p q : α → Bool) (l : List α) (h : ∀ a, a ∈ l → p a = q a) : l.find? p = l.find? q := by
  induction l with
  | nil => rfl
  | cons a l ih =>
    simp only [List.find?_cons, h a List.mem_cons_self, ih (fun b hb => h b (List.mem_cons_of_mem _ hb))]

/-- the match `left_join` finds in a list `Z` whose contents are the items `zs` tagged with `k2`: the first `z` with equal
    key values, carrying its id. -/
theorem lookup_tagged (k2 : String) (zs Z : List Item) (byR : List String) (id : List LoD.Val)
    (hZ : Z.map (·.kv) = (tagFrom k2 1 zs).map (·.kv))
    (hk : ∀ z, z ∈ zs → ∀ k, k ∈ byR → z.kv.has k = true) (hc : ∀ z, z ∈ zs → z.kv.has k2 = false) :
    (LoD.lookupRev Z byR id).map (·.kv) =
      (zs.zipIdx.find? fun q => extract byR q.1 == id).map fun q => q.1.kv.set k2 (.i (1 + q.2)) := by
  rw [lookupRev_eq_find]
  have h1 : (Z.find? fun z => extract byR z == id).map (·.kv) = (Z.map (·.kv)).find? fun e => extract byR ⟨0, e⟩ == id := by
    rw [List.find?_map]; rfl
  rw [h1, hZ, tagFrom_kvs, List.find?_map]
  congr 1
  apply find?_congr_mem
  intro q hq
  have hq' : q.1 ∈ zs := by
    rcases q with ⟨z, j⟩
    exact (List.mem_zipIdx hq).2.2 ▸ List.getElem_mem _
  simp only [Function.comp]
  rw [extract_set_other byR q.1.kv k2 _ 0 q.1.tag (not_mem_of_has byR q.1.kv k2 (hk q.1 hq') (hc q.1 hq'))]


theorem clean_nil : Clean ([] : LoD.Dict) := ⟨rfl, rfl⟩

theorem mem_of_zipIdx_find {α : Type} (l : List α) (p : α × Nat → Bool) (q : α × Nat) (h : l.zipIdx.find? p = some q) : q.1 ∈ l := by
  have hm := List.mem_of_find?_eq_some h
  rcases q with ⟨z, j⟩
  exact (List.mem_zipIdx hm).2.2 ▸ List.getElem_mem _

/-- one row of a left join of a `k1`-tagged item `x` with the `k2`-tagged list `Z` (contents: `zs`), after
    `fill_missing_keys(k2=bogus)`: without the two bookkeeping keys it is the model's merge with the FIRST match; `k1`
    holds the item's own id, `k2` the id of the match (or the bogus value). -/
theorem gen_row (k1 k2 : String) (hne : k1 ≠ k2) (hk1c : ∀ d, Clean d → d.has k1 = false) (hk2c : ∀ d, Clean d → d.has k2 = false)
    (hcl : ∀ d o a b, Clean d → Clean o → cleanK (((d.set k1 a).update o).set k2 b) = d.update o)
    (zs Z : List Item) (byL byR : List String) (hZ : Z.map (·.kv) = (tagFrom k2 1 zs).map (·.kv))
    (hkz : ∀ z, z ∈ zs → ∀ k, k ∈ byR → z.kv.has k = true) (hcz : ∀ z, z ∈ zs → Clean z.kv)
    (x : Item) (hcx : Clean x.kv) (hkx : ∀ k, k ∈ byL → x.kv.has k = true) (a bogus : Int) :
    match zs.zipIdx.find? (fun q => extract byR q.1 == extract byL x) with
    | some q =>
      cleanK (fillK k2 (.i bogus) (joinDict Z byL byR (x.kv.set k1 (.i a)))) = x.kv.update (nonKey q.1.kv byR) ∧
      (fillK k2 (.i bogus) (joinDict Z byL byR (x.kv.set k1 (.i a)))).get? k1 = some (.i a) ∧
      (fillK k2 (.i bogus) (joinDict Z byL byR (x.kv.set k1 (.i a)))).get? k2 = some (.i (1 + (q.2 : Int)))
    | none =>
      cleanK (fillK k2 (.i bogus) (joinDict Z byL byR (x.kv.set k1 (.i a)))) = x.kv ∧
      (fillK k2 (.i bogus) (joinDict Z byL byR (x.kv.set k1 (.i a)))).get? k1 = some (.i a) ∧
      (fillK k2 (.i bogus) (joinDict Z byL byR (x.kv.set k1 (.i a)))).get? k2 = some (.i bogus) := by
  have hex : extract byL ⟨0, x.kv.set k1 (.i a)⟩ = extract byL x :=
    extract_set_other byL x.kv k1 _ 0 x.tag (not_mem_of_has byL x.kv k1 hkx (hk1c _ hcx))
  have hlook := lookup_tagged k2 zs Z byR (extract byL x) hZ hkz (fun z hz => hk2c _ (hcz z hz))
  have hjd : joinDict Z byL byR (x.kv.set k1 (.i a)) =
      match LoD.lookupRev Z byR (extract byL x) with
      | some m => (x.kv.set k1 (.i a)).update (nonKey m.kv byR)
      | none => x.kv.set k1 (.i a) := by
    simp only [joinDict, hex]
    cases LoD.lookupRev Z byR (extract byL x) <;> rfl
  have hk2d : (x.kv.set k1 (.i a)).has k2 = false := by
    rw [has_set, hk2c _ hcx]
    have : (k2 == k1) = false := by simpa using fun e : k2 = k1 => hne e.symm
    simp [this]
  cases hf : zs.zipIdx.find? (fun q => extract byR q.1 == extract byL x) with
  | none =>
    rw [hf, Option.map_none] at hlook
    have hl : LoD.lookupRev Z byR (extract byL x) = none := by
      cases h : LoD.lookupRev Z byR (extract byL x) with
      | none => rfl
      | some m => rw [h] at hlook; simp at hlook
    rw [hl] at hjd
    simp only [hjd]
    have hfill : fillK k2 (.i bogus) (x.kv.set k1 (.i a)) = ((x.kv.set k1 (.i a)).update []).set k2 (.i bogus) := by
      simp only [fillK, hk2d, Bool.false_eq_true, if_false]; rfl
    rw [hfill]
    refine ⟨?_, ?_, ?_⟩
    · rw [hcl _ _ _ _ hcx clean_nil]; rfl
    · rw [Dict.get?_set_other _ k2 k1 _ hne]
      show (x.kv.set k1 (.i a)).get? k1 = _
      rw [Dict.get?_set_self]
    · rw [Dict.get?_set_self]
  | some q =>
    rw [hf, Option.map_some] at hlook
    have hqz : q.1 ∈ zs := mem_of_zipIdx_find zs _ q hf
    obtain ⟨m, hm, hmkv⟩ : ∃ m, LoD.lookupRev Z byR (extract byL x) = some m ∧ m.kv = q.1.kv.set k2 (.i (1 + (q.2 : Int))) := by
      cases h : LoD.lookupRev Z byR (extract byL x) with
      | none => rw [h] at hlook; simp at hlook
      | some m => rw [h] at hlook; exact ⟨m, rfl, by simpa using hlook⟩
    rw [hm] at hjd
    simp only [hjd, hmkv]
    have hcq := hcz q.1 hqz
    have hk2R : k2 ∉ byR := not_mem_of_has byR q.1.kv k2 (hkz q.1 hqz) (hk2c _ hcq)
    have hnk : nonKey (q.1.kv.set k2 (.i (1 + (q.2 : Int)))) byR = nonKey q.1.kv byR ++ [(k2, .i (1 + (q.2 : Int)))] := by
      rw [set_of_not_has _ _ _ (hk2c _ hcq), nonKey_append]
      congr 1
      have : byR.contains k2 = false := by simpa using hk2R
      show List.filter (fun p => !byR.contains p.1) [(k2, _)] = _
      simp only [List.filter_cons, this, Bool.not_false, if_true, List.filter_nil]
    have hupd : (x.kv.set k1 (.i a)).update (nonKey (q.1.kv.set k2 (.i (1 + (q.2 : Int)))) byR) =
        ((x.kv.set k1 (.i a)).update (nonKey q.1.kv byR)).set k2 (.i (1 + (q.2 : Int))) := by
      rw [hnk, update_append]; rfl
    have hhas : (((x.kv.set k1 (.i a)).update (nonKey q.1.kv byR)).set k2 (.i (1 + (q.2 : Int)))).has k2 = true := by
      rw [has_set]; simp
    have hco : Clean (nonKey q.1.kv byR) := clean_nonKey _ _ hcq
    rw [hupd]
    simp only [fillK, hhas, if_true]
    refine ⟨hcl _ _ _ _ hcx hco, ?_, ?_⟩
    · rw [Dict.get?_set_other _ k2 k1 _ hne, get_update_of_not_has _ _ k1 (hk1c _ hco), Dict.get?_set_self]
    · rw [Dict.get?_set_self]


/-! ### the lists -/

/-- the id stored for a position (`none` = the bogus id, one past the last real one). -/
def encId (bogus : Nat) : Option Nat → Int
  | some i => 1 + (i : Int)
  | none => 1 + (bogus : Int)

/-- a row of the pipeline (contents `d`) stands for the row `p` of the model. -/
def RowOK (n m : Nat) (d : LoD.Dict) (p : LoD.Pair) : Prop :=
  cleanK d = p.kv ∧ d.get? "_aid_" = some (.i (encId n p.l)) ∧ d.get? "_bid_" = some (.i (encId m p.r))

theorem zip_of_maps {α β γ δ : Type} (φ : β → δ) (f : α → δ) (g : α → γ) : ∀ (l : List α) (R : List β),
    R.map φ = l.map f → ∀ rp, rp ∈ R.zip (l.map g) → ∃ a, a ∈ l ∧ φ rp.1 = f a ∧ rp.2 = g a
  | [], R, _, rp, h => by simp at h
  | a :: l, [], hR, rp, h => by simp at hR
  | a :: l, r :: R, hR, rp, h => by
    simp only [List.map_cons, List.cons.injEq] at hR
    simp only [List.map_cons, List.zip_cons_cons, List.mem_cons] at h
    rcases h with e | m
    · exact ⟨a, List.mem_cons_self, by rw [e]; exact hR.1, by rw [e]⟩
    · obtain ⟨a', ha', h1, h2⟩ := zip_of_maps φ f g l R hR.2 rp m
      exact ⟨a', List.mem_cons_of_mem _ ha', h1, h2⟩

theorem length_of_maps {α β δ : Type} (φ : β → δ) (f : α → δ) (l : List α) (R : List β) (h : R.map φ = l.map f) :
    R.length = l.length := by
  have := congrArg List.length h
  simpa using this

theorem fjABi_kv (XA' YB : List Item) (by1 by2 : List String) (m : Nat) :
    (fjABi XA' YB by1 by2 m).map (·.kv) =
      (XA'.map (·.kv)).map fun d => fillK "_bid_" (.i (1 + (m : Int))) (joinDict YB by1 by2 d) := by
  simp only [fjABi, fillMissing_one, leftJoin_eq_map, List.map_map]; rfl

theorem fjBAi_kv (B' XA : List Item) (by1 by2 : List String) (n : Nat) :
    (fjBAi B' XA by1 by2 n).map (·.kv) =
      (B'.map (·.kv)).map fun d => fillK "_aid_" (.i (1 + (n : Int))) (joinDict XA by2 by1 d) := by
  simp only [fjBAi, fillMissing_one, leftJoin_eq_map, List.map_map]; rfl

theorem mem_zipIdx_zero {α : Type} (l : List α) (q : α × Nat) (h : q ∈ l.zipIdx) : q.1 ∈ l ∧ q.2 < l.length := by
  rcases q with ⟨z, j⟩
  have := List.mem_zipIdx h
  exact ⟨this.2.2 ▸ List.getElem_mem _, by simpa using this.2.1⟩

/-- the rows of `ab` stand for the model's `fjAB`, position by position. -/
theorem ab_rows (xs ys : List Item) (by1 by2 : List String) (XA' YB : List Item)
    (hXA' : XA'.map (·.kv) = (tagFrom "_aid_" 1 xs).map (·.kv)) (hYB : YB.map (·.kv) = (tagFrom "_bid_" 1 ys).map (·.kv))
    (hc1 : ∀ x, x ∈ xs → Clean x.kv) (hc2 : ∀ y, y ∈ ys → Clean y.kv)
    (hk1 : ∀ x, x ∈ xs → ∀ k, k ∈ by1 → x.kv.has k = true) (hk2 : ∀ y, y ∈ ys → ∀ k, k ∈ by2 → y.kv.has k = true) :
    (fjABi XA' YB by1 by2 ys.length).length = (fjAB xs ys by1 by2).length ∧
    ∀ rp, rp ∈ (fjABi XA' YB by1 by2 ys.length).zip (fjAB xs ys by1 by2) → RowOK xs.length ys.length rp.1.kv rp.2 := by
  have hkv : (fjABi XA' YB by1 by2 ys.length).map (·.kv) = xs.zipIdx.map fun q =>
      fillK "_bid_" (.i (1 + (ys.length : Int))) (joinDict YB by1 by2 (q.1.kv.set "_aid_" (.i (1 + (q.2 : Int))))) := by
    rw [fjABi_kv, hXA', tagFrom_kvs, List.map_map]; rfl
  refine ⟨by rw [length_of_maps _ _ _ _ hkv, fjAB_eq, List.length_map], ?_⟩
  intro rp hrp
  rw [fjAB_eq] at hrp
  obtain ⟨q, hq, h1, h2⟩ := zip_of_maps (·.kv) _ (fun q : Item × Nat => abRow ys by1 by2 q.1 q.2) xs.zipIdx _ hkv rp hrp
  obtain ⟨hqx, _⟩ := mem_zipIdx_zero xs q hq
  have hg := gen_row "_aid_" "_bid_" (by decide) (fun d h => h.1) (fun d h => h.2) clean_ab ys YB by1 by2 hYB hk2 hc2 q.1
    (hc1 q.1 hqx) (hk1 q.1 hqx) (1 + (q.2 : Int)) (1 + (ys.length : Int))
  rw [h1, h2]
  unfold RowOK abRow
  cases hf : ys.zipIdx.find? (fun q' => extract by2 q'.1 == extract by1 q.1) with
  | none => rw [hf] at hg; exact ⟨hg.1, hg.2.1, hg.2.2⟩
  | some q' =>
    rw [hf] at hg
    rcases q' with ⟨y, j⟩
    exact ⟨hg.1, hg.2.1, hg.2.2⟩


theorem mem_zip_left {α β : Type} : ∀ (R : List α) (P : List β), R.length = P.length → ∀ r, r ∈ R → ∃ p, (r, p) ∈ R.zip P
  | [], _, _, r, h => by cases h
  | a :: R, [], hl, _, _ => by simp at hl
  | a :: R, b :: P, hl, r, h => by
    rcases List.mem_cons.mp h with e | m
    · exact ⟨b, by rw [e]; simp⟩
    · obtain ⟨p, hp⟩ := mem_zip_left R P (by simpa using hl) r m
      exact ⟨p, by simp [hp]⟩

theorem mem_zip_right {α β : Type} : ∀ (R : List α) (P : List β), R.length = P.length → ∀ p, p ∈ P → ∃ r, (r, p) ∈ R.zip P
  | _, [], _, p, h => by cases h
  | [], b :: P, hl, _, _ => by simp at hl
  | a :: R, b :: P, hl, p, h => by
    rcases List.mem_cons.mp h with e | m
    · exact ⟨a, by rw [e]; simp⟩
    · obtain ⟨r, hr⟩ := mem_zip_right R P (by simpa using hl) p m
      exact ⟨r, by simp [hr]⟩

theorem extract_one (k : String) (t : Nat) (d : LoD.Dict) (v : LoD.Val) (h : d.get? k = some v) : extract [k] ⟨t, d⟩ = [v] := by
  simp [extract, h]

/-- `b'` holds exactly the right items the model calls unused (`fjRest`), tagged. -/
theorem bprime_kv (xs ys : List Item) (by1 by2 : List String) (XA' YB : List Item)
    (hXA' : XA'.map (·.kv) = (tagFrom "_aid_" 1 xs).map (·.kv)) (hYB : YB.map (·.kv) = (tagFrom "_bid_" 1 ys).map (·.kv))
    (hc1 : ∀ x, x ∈ xs → Clean x.kv) (hc2 : ∀ y, y ∈ ys → Clean y.kv)
    (hk1 : ∀ x, x ∈ xs → ∀ k, k ∈ by1 → x.kv.has k = true) (hk2 : ∀ y, y ∈ ys → ∀ k, k ∈ by2 → y.kv.has k = true) :
    (fjB'i YB (fjABi XA' YB by1 by2 ys.length)).map (·.kv) =
      (fjRest xs ys by1 by2).map fun q => q.1.kv.set "_bid_" (.i (1 + (q.2 : Int))) := by
  obtain ⟨hlen, hrows⟩ := ab_rows xs ys by1 by2 XA' YB hXA' hYB hc1 hc2 hk1 hk2
  let AB := fjABi XA' YB by1 by2 ys.length
  let ids := AB.map (extract ["_bid_"])
  have h1 : (fjB'i YB AB).map (·.kv) = (YB.map (·.kv)).filter fun d => !ids.contains (extract ["_bid_"] ⟨0, d⟩) := by
    simp only [fjB'i, LoD.antiJoin, List.filter_map]; rfl
  rw [h1, hYB, tagFrom_kvs, List.filter_map]
  congr 1
  simp only [fjRest]
  apply List.filter_congr
  intro q hq
  obtain ⟨_, hqlt⟩ := mem_zipIdx_zero ys q hq
  simp only [Function.comp]
  rw [extract_one "_bid_" 0 _ (.i (1 + (q.2 : Int))) (Dict.get?_set_self _ _ _)]
  congr 1
  rw [Bool.eq_iff_iff, List.contains_iff_mem, List.contains_iff_mem, mem_fjUsed]
  constructor
  · intro hm
    obtain ⟨r, hr, e⟩ := List.mem_map.mp hm
    obtain ⟨p, hp⟩ := mem_zip_left AB _ hlen r hr
    have hok := hrows (r, p) hp
    refine ⟨p, (List.of_mem_zip hp).2, ?_⟩
    have hb := hok.2.2
    rw [extract_one "_bid_" r.tag r.kv _ hb] at e
    simp only [List.cons.injEq, LoD.Val.i.injEq, and_true] at e
    cases hpr : p.r with
    | none => rw [hpr] at e; simp only [encId] at e; omega
    | some j' => rw [hpr] at e; simp only [encId] at e; congr 1; omega
  · rintro ⟨p, hp, hpr⟩
    obtain ⟨r, hr⟩ := mem_zip_right AB _ hlen p hp
    have hok := hrows (r, p) hr
    have hb := hok.2.2
    refine List.mem_map.mpr ⟨r, (List.of_mem_zip hr).1, ?_⟩
    rw [extract_one "_bid_" r.tag r.kv _ hb, hpr]
    rfl


/-- the rows of `ba` stand for the model's `fjBA`, position by position. -/
theorem ba_rows (xs ys : List Item) (by1 by2 : List String) (XA B' : List Item)
    (hXA : XA.map (·.kv) = (tagFrom "_aid_" 1 xs).map (·.kv))
    (hB' : B'.map (·.kv) = (fjRest xs ys by1 by2).map fun q => q.1.kv.set "_bid_" (.i (1 + (q.2 : Int))))
    (hc1 : ∀ x, x ∈ xs → Clean x.kv) (hc2 : ∀ y, y ∈ ys → Clean y.kv)
    (hk1 : ∀ x, x ∈ xs → ∀ k, k ∈ by1 → x.kv.has k = true) (hk2 : ∀ y, y ∈ ys → ∀ k, k ∈ by2 → y.kv.has k = true) :
    (fjBAi B' XA by1 by2 xs.length).length = (fjBA xs ys by1 by2).length ∧
    ∀ rp, rp ∈ (fjBAi B' XA by1 by2 xs.length).zip (fjBA xs ys by1 by2) → RowOK xs.length ys.length rp.1.kv rp.2 := by
  have hkv : (fjBAi B' XA by1 by2 xs.length).map (·.kv) = (fjRest xs ys by1 by2).map fun q =>
      fillK "_aid_" (.i (1 + (xs.length : Int))) (joinDict XA by2 by1 (q.1.kv.set "_bid_" (.i (1 + (q.2 : Int))))) := by
    rw [fjBAi_kv, hB', List.map_map]; rfl
  refine ⟨by rw [length_of_maps _ _ _ _ hkv, fjBA_eq, List.length_map], ?_⟩
  intro rp hrp
  rw [fjBA_eq] at hrp
  obtain ⟨q, hq, h1, h2⟩ := zip_of_maps (·.kv) _ (fun q : Item × Nat => baRow xs by1 by2 q.1 q.2) (fjRest xs ys by1 by2) _ hkv
    rp hrp
  have hq' : q ∈ ys.zipIdx := (List.mem_filter.mp hq).1
  obtain ⟨hqy, _⟩ := mem_zipIdx_zero ys q hq'
  have hg := gen_row "_bid_" "_aid_" (by decide) (fun d h => h.2) (fun d h => h.1)
    (fun d o a b hd ho => clean_ba d o b a hd ho) xs XA by2 by1 hXA hk1 hc1 q.1
    (hc2 q.1 hqy) (hk2 q.1 hqy) (1 + (q.2 : Int)) (1 + (xs.length : Int))
  rw [h1, h2]
  unfold RowOK baRow
  cases hf : xs.zipIdx.find? (fun q' => extract by1 q'.1 == extract by2 q.1) with
  | none => rw [hf] at hg; exact ⟨hg.1, hg.2.2, hg.2.1⟩
  | some q' =>
    rw [hf] at hg
    rcases q' with ⟨x, i⟩
    exact ⟨hg.1, hg.2.2, hg.2.1⟩

/-- the ids of the model's rows are real positions. -/
def InRange (n m : Nat) (p : LoD.Pair) : Prop := (∀ i, p.l = some i → i < n) ∧ (∀ j, p.r = some j → j < m)

theorem fjAB_inRange (xs ys : List Item) (by1 by2 : List String) (p : LoD.Pair) (hp : p ∈ fjAB xs ys by1 by2) :
    InRange xs.length ys.length p := by
  obtain ⟨i, hi, rfl⟩ := mem_fjAB.mp hp
  refine ⟨fun i' h => ?_, fun j h => (abRow_r_some ys by1 by2 _ i j h).1⟩
  rw [abRow_l] at h
  cases h; exact hi

theorem fjBA_inRange (xs ys : List Item) (by1 by2 : List String) (p : LoD.Pair) (hp : p ∈ fjBA xs ys by1 by2) :
    InRange xs.length ys.length p := by
  obtain ⟨j, hj, _, rfl⟩ := mem_fjBA.mp hp
  refine ⟨fun i h => (baRow_l_some xs by1 by2 _ i j h).1, fun j' h => ?_⟩
  rw [baRow_r] at h
  cases h; exact hj

/-- `sort(_aid_=1, _bid_=1)` compares two rows as the model's `pairLe` compares the rows they stand for. -/
theorem specLex_pairLe (n m : Nat) (r r' : Item) (p p' : LoD.Pair) (h : RowOK n m r.kv p) (h' : RowOK n m r'.kv p')
    (hr : InRange n m p) (hr' : InRange n m p') :
    specLex [("_aid_", false), ("_bid_", false)] r r' = pairLe p p' := by
  obtain ⟨_, ha, hb⟩ := h
  obtain ⟨_, ha', hb'⟩ := h'
  have e1 : keyVal "_aid_" r = .i (encId n p.l) := by simp [keyVal, ha]
  have e2 : keyVal "_aid_" r' = .i (encId n p'.l) := by simp [keyVal, ha']
  have e3 : keyVal "_bid_" r = .i (encId m p.r) := by simp [keyVal, hb]
  have e4 : keyVal "_bid_" r' = .i (encId m p'.r) := by simp [keyVal, hb']
  have hle : ∀ (N : Nat) (o o' : Option Nat), (∀ i, o = some i → i < N) → (∀ i, o' = some i → i < N) →
      (decide (encId N o ≤ encId N o') = optLe o o') ∧ (encId N o = encId N o' ↔ o = o') := by
    intro N o o' ho ho'
    cases o with
    | none =>
      cases o' with
      | none => simp [encId, optLe]
      | some j => have := ho' j rfl; simp only [encId, optLe]; constructor <;> simp <;> omega
    | some i =>
      cases o' with
      | none => have := ho i rfl; simp only [encId, optLe]; constructor <;> simp <;> omega
      | some j => simp only [encId, optLe]; constructor <;> simp <;> omega
  obtain ⟨l1, l2⟩ := hle n p.l p'.l hr.1 hr'.1
  obtain ⟨l1', _⟩ := hle n p'.l p.l hr'.1 hr.1
  obtain ⟨r1, _⟩ := hle m p.r p'.r hr.2 hr'.2
  obtain ⟨r1', _⟩ := hle m p'.r p.r hr'.2 hr.2
  simp only [specLex, e1, e2, e3, e4, specLe1, Val.le, Bool.false_eq_true, if_false, l1, l1', r1, r1', pairLe]
  by_cases hl : p.l = p'.l
  · rw [hl] at l1 l1' ⊢
    simp [optLe_refl]
    exact fun a _ => a
  · have hn : ¬ (optLe p.l p'.l = true ∧ optLe p'.l p.l = true) := fun ⟨a, b⟩ => hl (optLe_antisymm _ _ a b)
    simp only [hl, if_false]
    cases h1 : optLe p.l p'.l <;> cases h2 : optLe p'.l p.l <;> simp_all


theorem unselect_ids_kv (R : List Item) : (LoD.unselect R ["_aid_", "_bid_"]).map (·.kv) = R.map fun r => cleanK r.kv := by
  simp only [LoD.unselect, List.map_map]; rfl

theorem idsInt_of_rowOK (n m : Nat) (d : LoD.Dict) (p : LoD.Pair) (h : RowOK n m d p) : IdsInt d :=
  ⟨⟨_, h.2.1⟩, ⟨_, h.2.2⟩⟩

/-- **the contents of full_join's pipeline are the model's rows.**  `XA`, `XA'`, `YB`: any items whose contents are the left
    / left / right items with `_aid_` / `_aid_` / `_bid_` = 1, 2, …  (`hc`: no item has a key `_aid_` or `_bid_`; `hk`: every
    item has the key columns). -/
theorem fj_contents (xs ys : List Item) (by1 by2 : List String) (XA XA' YB : List Item)
    (hXA : XA.map (·.kv) = (tagFrom "_aid_" 1 xs).map (·.kv)) (hXA' : XA'.map (·.kv) = XA.map (·.kv))
    (hYB : YB.map (·.kv) = (tagFrom "_bid_" 1 ys).map (·.kv))
    (hc1 : ∀ x, x ∈ xs → Clean x.kv) (hc2 : ∀ y, y ∈ ys → Clean y.kv)
    (hk1 : ∀ x, x ∈ xs → ∀ k, k ∈ by1 → x.kv.has k = true) (hk2 : ∀ y, y ∈ ys → ∀ k, k ∈ by2 → y.kv.has k = true) :
    (∀ r, r ∈ fjABi XA' YB by1 by2 ys.length ++ fjBAi (fjB'i YB (fjABi XA' YB by1 by2 ys.length)) XA by1 by2 xs.length →
      IdsInt r.kv) ∧
    (fjB'i YB (fjABi XA' YB by1 by2 ys.length)).isEmpty = (fjRest xs ys by1 by2).isEmpty ∧
    (LoD.unselect (fjABi XA' YB by1 by2 ys.length) ["_aid_", "_bid_"]).map (·.kv) = (fjAB xs ys by1 by2).map (·.kv) ∧
    (LoD.unselect (LoD.sort (fjABi XA' YB by1 by2 ys.length ++
        fjBAi (fjB'i YB (fjABi XA' YB by1 by2 ys.length)) XA by1 by2 xs.length) [("_aid_", false), ("_bid_", false)])
        ["_aid_", "_bid_"]).map (·.kv) =
      ((fjAB xs ys by1 by2 ++ fjBA xs ys by1 by2).mergeSort pairLe).map (·.kv) := by
  have hXA'' := hXA'.trans hXA
  obtain ⟨hlen1, hrows1⟩ := ab_rows xs ys by1 by2 XA' YB hXA'' hYB hc1 hc2 hk1 hk2
  have hB' := bprime_kv xs ys by1 by2 XA' YB hXA'' hYB hc1 hc2 hk1 hk2
  obtain ⟨hlen2, hrows2⟩ := ba_rows xs ys by1 by2 XA _ hXA hB' hc1 hc2 hk1 hk2
  generalize fjABi XA' YB by1 by2 ys.length = AB at *
  generalize fjBAi (fjB'i YB AB) XA by1 by2 xs.length = BA at *
  let L := (AB ++ BA).zip (fjAB xs ys by1 by2 ++ fjBA xs ys by1 by2)
  have hL : L = AB.zip (fjAB xs ys by1 by2) ++ BA.zip (fjBA xs ys by1 by2) := List.zip_append hlen1
  have hlen : (AB ++ BA).length = (fjAB xs ys by1 by2 ++ fjBA xs ys by1 by2).length := by
    simp only [List.length_append, hlen1, hlen2]
  have hLok : ∀ rp, rp ∈ L → RowOK xs.length ys.length rp.1.kv rp.2 ∧ InRange xs.length ys.length rp.2 := by
    intro rp hrp
    rw [hL] at hrp
    rcases List.mem_append.mp hrp with h | h
    · exact ⟨hrows1 rp h, fjAB_inRange xs ys by1 by2 rp.2 (List.of_mem_zip h).2⟩
    · exact ⟨hrows2 rp h, fjBA_inRange xs ys by1 by2 rp.2 (List.of_mem_zip h).2⟩
  have hfst : L.map (·.1) = AB ++ BA := List.map_fst_zip (by omega)
  have hsnd : L.map (·.2) = fjAB xs ys by1 by2 ++ fjBA xs ys by1 by2 := List.map_snd_zip (by omega)
  refine ⟨?_, ?_, ?_, ?_⟩
  · intro r hr
    obtain ⟨p, hp⟩ := mem_zip_left _ _ hlen r hr
    exact idsInt_of_rowOK _ _ _ _ (hLok (r, p) hp).1
  · have := congrArg List.length hB'
    simp only [List.length_map] at this
    cases h1 : fjB'i YB AB <;> cases h2 : fjRest xs ys by1 by2 <;> simp_all
  · rw [unselect_ids_kv]
    have e1 : AB.map (fun r => cleanK r.kv) = (AB.zip (fjAB xs ys by1 by2)).map (fun rp => cleanK rp.1.kv) := by
      conv => lhs; rw [← List.map_fst_zip (l₁ := AB) (l₂ := fjAB xs ys by1 by2) (by omega)]
      rw [List.map_map]; rfl
    have e2 : (fjAB xs ys by1 by2).map (·.kv) = (AB.zip (fjAB xs ys by1 by2)).map (fun rp => rp.2.kv) := by
      conv => lhs; rw [← List.map_snd_zip (l₁ := AB) (l₂ := fjAB xs ys by1 by2) (by omega)]
      rw [List.map_map]; rfl
    rw [e1, e2]
    apply List.map_congr_left
    intro rp hrp
    exact (hrows1 rp hrp).1
  · rw [unselect_ids_kv, sort_eq_mergeSort, ← hfst, ← hsnd]
    let le' : Item × LoD.Pair → Item × LoD.Pair → Bool := fun a b => specLex [("_aid_", false), ("_bid_", false)] a.1 b.1
    have m1 : (L.mergeSort le').map (·.1) = (L.map (·.1)).mergeSort (specLex [("_aid_", false), ("_bid_", false)]) :=
      List.map_mergeSort (fun a _ b _ => rfl)
    have m2 : (L.mergeSort le').map (·.2) = (L.map (·.2)).mergeSort pairLe :=
      List.map_mergeSort (fun a ha b hb =>
        specLex_pairLe xs.length ys.length a.1 b.1 a.2 b.2 (hLok a ha).1 (hLok b hb).1 (hLok a ha).2 (hLok b hb).2)
    rw [← m1, ← m2, List.map_map, List.map_map]
    apply List.map_congr_left
    intro rp hrp
    have : rp ∈ L := (List.mergeSort_perm L le').mem_iff.mp hrp
    exact (hLok rp this).1.1



section FJ3
variable (F : Funs) (B : Bodies)

/-- **full_join**: the three evaluations.  The test `len(b') == 0` evaluates to whether the model has no unmatched right
    item; the return expression that the test selects evaluates to NEW objects whose contents are the model's
    `LoD.fullJoin`, in its order; every object that existed before — both operands' items — is unchanged. -/
theorem full_join_run (hB : FJBodies B) (ρ : Env) (σ : Store) (rs os : List Nat) (xs ys : List Item) (bys : List ByArg)
    (hself : ρ.lookup "self" = some (refsVal rs)) (hother : ρ.lookup "other" = some (refsVal os))
    (hby : ρ.lookup "by" = some (byVal bys)) (hne : bys ≠ [])
    (hv : Store.view σ rs = some xs) (hw : Store.view σ os = some ys)
    (hk1 : ∀ x, x ∈ xs → ∀ k, k ∈ byLeft bys → x.kv.has k = true)
    (hk2 : ∀ y, y ∈ ys → ∀ k, k ∈ byRight bys → y.kv.has k = true)
    (hc1 : ∀ x, x ∈ xs → Clean x.kv) (hc2 : ∀ y, y ∈ ys → Clean y.kv) :
    (∃ σt, evalM1 F B fjTestT ρ σ = some (.bool (fjRest xs ys (byLeft bys) (byRight bys)).isEmpty, σt)) ∧
    ∃ σ' R, evalM1 F B (if (fjRest xs ys (byLeft bys) (byRight bys)).isEmpty then fjThenT else fjElseT) ρ σ =
        some (.tuple (R.map tagRef), σ') ∧
      Store.view σ' (R.map (·.tag)) = some R ∧
      R.map (·.kv) = (LoD.fullJoin xs ys (byLeft bys) (byRight bys)).map (·.kv) ∧
      (R.map (·.tag)).Nodup ∧ (∀ r, r ∈ R → σ.lookup r.tag = none) ∧
      (∀ n d, σ.lookup n = some d → σ'.lookup n = some d) := by
  constructor
  · obtain ⟨XA', YB, σt, et, hXA', hYB⟩ := fj_test_eval F B hB ρ σ rs os xs ys bys hself hother hby hne hv hw hk1 hk2
    have hc := (fj_contents xs ys (byLeft bys) (byRight bys) XA' XA' YB hXA' rfl hYB hc1 hc2 hk1 hk2).2.1
    exact ⟨σt, by rw [et, hc]⟩
  · rw [fullJoin_eq]
    cases hrest : (fjRest xs ys (byLeft bys) (byRight bys)).isEmpty with
    | true =>
      simp only [if_true]
      obtain ⟨A', XA', YB, σu, eu, hXA', hYB, hvu, hnd, hnew, hold⟩ :=
        fj_then_eval F B hB ρ σ rs os xs ys bys hself hother hby hne hv hw hk1 hk2
      have hc := (fj_contents xs ys (byLeft bys) (byRight bys) XA' XA' YB hXA' rfl hYB hc1 hc2 hk1 hk2).2.2.1
      let R := LoD.unselect (LoD.fillMissing (LoD.leftJoin XA' YB (byLeft bys) (byRight bys))
        [("_bid_", .i (1 + (ys.length : Int)))]) ["_aid_", "_bid_"]
      have htags : R.map (·.tag) = A' := Store.view_tags σu A' R hvu
      refine ⟨σu, R, ?_, by rw [htags]; exact hvu, hc, by rw [htags]; exact hnd, ?_, hold⟩
      · rw [eu, refsV, ← htags, List.map_map]; rfl
      · intro r hr
        exact hnew r.tag (htags ▸ List.mem_map_of_mem hr)
    | false =>
      simp only [Bool.false_eq_true, if_false]
      have hint : ∀ XA XA' YB : List Item, XA.map (·.kv) = (tagFrom "_aid_" 1 xs).map (·.kv) → XA'.map (·.kv) = XA.map (·.kv) →
          YB.map (·.kv) = (tagFrom "_bid_" 1 ys).map (·.kv) →
          ∀ r, r ∈ fjABi XA' YB (byLeft bys) (byRight bys) ys.length ++
            fjBAi (fjB'i YB (fjABi XA' YB (byLeft bys) (byRight bys) ys.length)) XA (byLeft bys) (byRight bys) xs.length →
            IdsInt r.kv :=
        fun XA XA' YB h1 h2 h3 => (fj_contents xs ys (byLeft bys) (byRight bys) XA XA' YB h1 h2 h3 hc1 hc2 hk1 hk2).1
      obtain ⟨XA, XA', YB, T, σu, eu, hXA, hXA', hYB, hT, hvu, hnd, hnew, hold⟩ :=
        fj_else_eval F B hB ρ σ rs os xs ys bys hself hother hby hne hv hw hk1 hk2 hint
      have hc := (fj_contents xs ys (byLeft bys) (byRight bys) XA XA' YB hXA hXA' hYB hc1 hc2 hk1 hk2).2.2.2
      rw [← hT] at hc
      let R := LoD.unselect T ["_aid_", "_bid_"]
      have htags : R.map (·.tag) = T.map (·.tag) := Store.view_tags σu _ R hvu
      refine ⟨σu, R, ?_, by rw [htags]; exact hvu, hc, by rw [htags]; exact hnd, ?_, hold⟩
      · rw [eu]
        have : R.map tagRef = T.map tagRef := by
          have := congrArg (List.map PVal.ref) htags
          rw [List.map_map, List.map_map] at this
          exact this
        rw [this]
      · intro r hr
        have : r.tag ∈ T.map (·.tag) := htags ▸ List.mem_map_of_mem hr
        obtain ⟨t, ht, e⟩ := List.mem_map.mp this
        rw [← e]; exact hnew t ht

end FJ3

end DI.PyEvalLoD

import Model.IO

namespace DI.IO

/-- when both sides go through xopen, or both hand the path to the library, reading back what was
    written returns the table — whatever the suffix. -/
theorem roundtrip_symmetric {T B : Type} (c : Codec T B) (w : Wrap B) (x : Bool) (s : String) (t : T) :
    readVia c w x s (writeVia c w x s t) = some t := by
  cases x <;> simp [readVia, writeVia, c.law, w.law]

/-- the symmetry is needed: a writer that bypasses xopen with a reader that does not (or vice
    versa) fails for a codec/compressor pair as simple as "prepend a marker". -/
theorem asymmetric_fails :
    ∃ (c : Codec Nat (List Nat)) (w : Wrap (List Nat)),
      readVia c w true ".gz" (writeVia c w false ".gz" 7) ≠ some 7 := by
  refine ⟨⟨fun t => [t], fun b => b.head?, fun _ => rfl⟩,
          ⟨fun s b => if s == "" then b else 0 :: b, fun s b => if s == "" then some b else b.tail?, ?_⟩, ?_⟩
  · intro s b; by_cases h : s == "" <;> simp [h]
  · decide

end DI.IO

/-
  Lemmas/Aggregate.lean — aggregation helpers (C07) and their Numba twins (C08).
-/
import Model.Aggregate
import Model.Numba

namespace DI.Agg

/-! ### yield_groups: the chunks are consecutive pieces of the column -/

theorem chunks_flatten (ids : List Nat) (xs : List Num) (h : ids.length = xs.length) :
    (chunks ids xs).flatten = xs := by
  induction ids generalizing xs with
  | nil => cases xs <;> simp_all [chunks]
  | cons g gs ih =>
    cases xs with
    | nil => simp at h
    | cons x xs =>
      have h' : gs.length = xs.length := by simpa using h
      have ih' := ih xs h'
      simp only [chunks]
      cases gs with
      | nil =>
        have : xs = [] := by cases xs <;> simp_all
        subst this; simp [chunks]
      | cons g' gs' =>
        cases hc : chunks (g' :: gs') xs with
        | nil => rw [hc] at ih'; simp at ih' ⊢; exact ih'.symm ▸ rfl
        | cons c cs =>
          rw [hc] at ih'
          simp only []
          split
          · simp only [List.flatten_cons, List.cons_append] at ih' ⊢; rw [ih']
          · simp only [List.flatten_cons, List.cons_append, List.nil_append] at ih' ⊢; rw [ih']

theorem mem_chunk (ids : List Nat) (xs : List Num) (h : ids.length = xs.length) (xg : List Num)
    (hg : xg ∈ chunks ids xs) (x : Num) (hx : x ∈ xg) : x ∈ xs := by
  rw [← chunks_flatten ids xs h, List.mem_flatten]
  exact ⟨xg, hg, hx⟩

theorem dropNa_of_no_na (xs : List Num) (h : hasNa xs = false) : dropNa xs = xs := by
  unfold dropNa hasNa at *
  rw [List.filter_eq_self]
  intro a ha
  rw [List.any_eq_false] at h
  have := h a ha
  cases a <;> simp_all

theorem hasNa_chunk (ids : List Nat) (xs : List Num) (h : ids.length = xs.length) (xg : List Num)
    (hg : xg ∈ chunks ids xs) (hna : hasNa xs = false) : hasNa xg = false := by
  unfold hasNa at *
  rw [List.any_eq_false] at hna ⊢
  intro x hx
  exact hna x (mem_chunk ids xs h xg hg x hx)

/-- in every group, dropping "when requested and the column has a missing value at all" is the
    same as dropping when requested. -/
theorem handleNa_group (ids : List Nat) (xs : List Num) (h : ids.length = xs.length) (xg : List Num)
    (hg : xg ∈ chunks ids xs) (d : Bool) : handleNa xg (d && hasNa xs) = handleNa xg d := by
  cases d with
  | false => simp [handleNa]
  | true =>
    cases hna : hasNa xs with
    | true => simp
    | false =>
      simp only [Bool.and_false, handleNa, Bool.false_eq_true, if_false, if_true]
      exact (dropNa_of_no_na xg (hasNa_chunk ids xs h xg hg hna)).symm

/-- the closure's result for one group (after `None -> default`) is the vector form of the
    helper applied to that group. -/
theorem kernel_eq_vector (h : Helper) (d : Bool) (xg : List Num)
    (hall : (h = .all ∨ h = .any) → d = false) :
    (match kernel h (handleNa xg d) with | some r => r | none => defaultOf h) = vectorForm h d xg := by
  cases h with
  | all => simp [hall (Or.inl rfl), kernel, vectorForm, handleNa]
  | any => simp [hall (Or.inr rfl), kernel, vectorForm, handleNa]
  | count => simp [kernel, vectorForm]
  | countUnique n => simp [kernel, vectorForm]
  | nth i =>
    simp only [kernel, vectorForm, defaultOf]
    cases nthOf (handleNa xg d) i <;> rfl
  | min =>
    simp only [kernel, vectorForm, defaultOf]
    by_cases hl : (handleNa xg d).length ≥ 1 <;> simp [hl]
  | max =>
    simp only [kernel, vectorForm, defaultOf]
    by_cases hl : (handleNa xg d).length ≥ 1 <;> simp [hl]
  | mode =>
    simp only [kernel, vectorForm, defaultOf]
    by_cases hl : (handleNa xg d).length ≥ 1 <;> simp [hl]
  | mean =>
    simp only [kernel, vectorForm, defaultOf]
    by_cases hl : (handleNa xg d).length ≥ 1 <;> simp [hl]
  | median =>
    simp only [kernel, vectorForm, defaultOf]
    by_cases hl : (handleNa xg d).length ≥ 1 <;> simp [hl]
  | quantile q =>
    simp only [kernel, vectorForm, defaultOf]
    by_cases hl : (handleNa xg d).length ≥ 1 <;> simp [hl]
  | std n =>
    simp only [kernel, vectorForm, defaultOf]
    by_cases hl : (handleNa xg d).length ≥ 2 <;> simp [hl]
  | var n =>
    simp only [kernel, vectorForm, defaultOf]
    by_cases hl : (handleNa xg d).length ≥ 2 <;> simp [hl]
  | sum => simp [kernel, vectorForm]

/-- both calling forms agree: the group-wise form yields, for every group, the vector form on
    exactly that group's elements (in order). -/
theorem group_eq_vector (h : Helper) (d : Bool) (xs : List Num) (ids : List Nat)
    (hlen : ids.length = xs.length) (hall : (h = .all ∨ h = .any) → d = false) :
    groupForm h d xs ids = (chunks ids xs).map (fun xg => vectorForm h d xg) := by
  unfold groupForm
  apply List.map_congr_left
  intro xg hg
  rw [handleNa_group ids xs hlen xg hg d]
  exact kernel_eq_vector h d xg hall

/-! ### NA policy -/

theorem dropNa_removes_exactly_na (xs : List Num) :
    (∀ x ∈ dropNa xs, x.isSome = true) ∧ (dropNa xs).Sublist xs ∧ values (dropNa xs) = values xs := by
  refine ⟨fun x hx => (List.mem_filter.mp hx).2, List.filter_sublist, ?_⟩
  unfold dropNa values
  induction xs with
  | nil => rfl
  | cons a l ih => cases a <;> simp [List.filter_cons, ih]

/-- without drop_na, a missing value propagates through every numeric reduction. -/
theorem na_propagates (xs : List Num) (h : hasNa xs = true) (q : Rat) (ddof : Nat) :
    npSum xs = .missing ∧ npMean xs = .missing ∧ npMedian xs = .missing ∧ npQuantile q xs = .missing ∧
    npVar ddof xs = .missing ∧ npStd ddof xs = .missing ∧ npMin xs = .missing ∧ npMax xs = .missing := by
  simp [npSum, npMean, npMedian, npQuantile, npVar, npStd, npMin, npMax, h]

/-- a group left with fewer elements than the statistic needs yields the documented default. -/
theorem short_group_default (d : Bool) (x : Num) (ddof : Nat) (q : Rat) (i : Int) :
    vectorForm .mean d [] = .missing ∧ vectorForm .median d [] = .missing ∧
    vectorForm (.quantile q) d [] = .missing ∧ vectorForm (.std ddof) d [x] = .missing ∧
    vectorForm (.var ddof) d [x] = .missing ∧ vectorForm (.std ddof) d [] = .missing ∧
    vectorForm .min d [] = .missing ∧ vectorForm .max d [] = .missing ∧ vectorForm .mode d [] = .missing ∧
    vectorForm (.nth i) d [] = .missing ∧ vectorForm .sum d [] = .val 0 ∧ vectorForm .count d [] = .nat 0 ∧
    vectorForm .all d [] = .bool true ∧ vectorForm .any d [] = .bool false := by
  refine ⟨?_, ?_, ?_, ?_, ?_, ?_, ?_, ?_, ?_, ?_, ?_, ?_, ?_, ?_⟩ <;>
    cases d <;> (try cases x) <;> simp [vectorForm, handleNa, dropNa, nthOf, npSum, hasNa, values, rsum, npAll, npAny] <;>
    (try split) <;> simp <;> omega

end DI.Agg

namespace DI.Agg

/-! ### C08: the Numba kernels compute what the Python kernels compute -/

/-- `nth_apply_numba` (explicit index range test) = `nth_apply` (try / except IndexError). -/
theorem nthNumba_eq (xg : List Num) (i : Int) :
    (match nthNumba xg i with | some .missing => none | r => r) =
      (match nthOf xg i with | .missing => none | r => some r) := by
  unfold nthNumba nthOf
  simp only []
  by_cases h0 : 0 ≤ i
  · have hneg : ¬ i < 0 := by omega
    by_cases hlt : i < (xg.length : Int)
    · have hi : i.toNat < xg.length := by omega
      have hc : (0 ≤ i ∧ i < (xg.length : Int)) ∨ (-(xg.length : Int) ≤ i ∧ i < 0) := Or.inl ⟨h0, hlt⟩
      rw [if_pos hc, if_neg hneg, if_pos h0, List.getElem?_eq_getElem hi, getElem!_pos xg i.toNat hi]
      dsimp only
      cases ofNum xg[i.toNat] <;> rfl
    · have hnone : xg[i.toNat]? = none := by rw [List.getElem?_eq_none_iff]; omega
      have hc : ¬ ((0 ≤ i ∧ i < (xg.length : Int)) ∨ (-(xg.length : Int) ≤ i ∧ i < 0)) := by omega
      rw [if_neg hc, if_pos h0, hnone]
  · have hneg : i < 0 := by omega
    by_cases hge : -(xg.length : Int) ≤ i
    · have hi : (i + xg.length).toNat < xg.length := by omega
      have hc : (0 ≤ i ∧ i < (xg.length : Int)) ∨ (-(xg.length : Int) ≤ i ∧ i < 0) := Or.inr ⟨hge, hneg⟩
      rw [if_pos hc, if_pos hneg, if_neg h0, if_pos hge, List.getElem?_eq_getElem hi,
        getElem!_pos xg (i + xg.length).toNat hi]
      dsimp only
      cases ofNum xg[(i + xg.length).toNat] <;> rfl
    · have hc : ¬ ((0 ≤ i ∧ i < (xg.length : Int)) ∨ (-(xg.length : Int) ≤ i ∧ i < 0)) := by omega
      rw [if_neg hc, if_neg h0, if_neg hge]

/-- `mode_apply_numba` (quadratic equality count + first argmax) = `mode_apply` (statistics.mode),
    when the group holds no missing value (NaN equals nothing under Numba, but every NaN object
    is a key of its own for `statistics.mode`). -/
theorem modeNumba_eq (xg : List Num) (hna : hasNa xg = false) :
    modeNumba xg = (if xg.length ≥ 1 then some (modeOf xg) else none) := by
  unfold modeNumba
  have hcounts : xg.map (numbaEqCount xg) = xg.map (fun y => xg.count y) := by
    apply List.map_congr_left
    intro x hx
    cases x with
    | none =>
      unfold hasNa at hna
      rw [List.any_eq_false] at hna
      have := hna none hx
      simp at this
    | some v => simp [numbaEqCount, List.count_eq_length_filter]
  rw [hcounts]
  cases xg with
  | nil => simp
  | cons a l =>
    simp only [List.length_cons, gt_iff_lt, Nat.zero_lt_succ, if_true, ge_iff_le, Nat.le_add_left, modeOf]

/-- without missing values the Python set and Numba's np.unique count the same. -/
theorem countUniqueNumba_eq (xg : List Num) (d : Bool) (hna : hasNa xg = false) :
    countUniqueNumba xg = countUniqueOf d xg := by
  unfold countUniqueNumba countUniqueOf hasNa at *
  have : xg.filter (·.isNone) = [] := by
    rw [List.filter_eq_nil_iff]
    intro a ha
    rw [List.any_eq_false] at hna
    simpa using hna a ha
  simp [this]

/-- is this helper's Numba kernel sensitive to missing values inside the group? -/
def naSensitive : Helper → Bool
  | .mode => true
  | .countUnique d => !d
  | _ => false

theorem kernelNumba_eq (h : Helper) (xg : List Num) (hna : naSensitive h = true → hasNa xg = false) :
    kernelNumba h xg = kernel h xg := by
  cases h with
  | nth i => simp only [kernelNumba, kernel]; exact nthNumba_eq xg i
  | mode =>
    simp only [kernelNumba, kernel]
    rw [modeNumba_eq xg (hna rfl)]
  | countUnique d =>
    simp only [kernelNumba, kernel]
    cases d with
    | true => simp [countUniqueNumba, countUniqueOf]
    | false => rw [countUniqueNumba_eq xg false (hna rfl)]
  | _ => rfl

theorem hasNa_handleNa (xg : List Num) (d : Bool) (h : d = true ∨ hasNa xg = false) :
    hasNa (handleNa xg d) = false := by
  rcases h with rfl | h
  · simp only [handleNa, if_true, hasNa, dropNa]
    rw [List.any_eq_false]
    intro x hx
    have := (List.mem_filter.mp hx).2
    cases x <;> simp_all
  · cases d
    · simpa [handleNa] using h
    · simp only [handleNa, if_true, hasNa, dropNa]
      rw [List.any_eq_false]
      intro x hx
      have := (List.mem_filter.mp hx).2
      cases x <;> simp_all

/-- Numba on = Numba off, for every helper, every column and every group layout: unconditionally
    for the reductions, first/last/nth, count, count_unique on dtypes whose missing value is its
    own key; for mode (and set-based count_unique) whenever missing values are dropped or absent. -/
theorem numba_eq_python (h : Helper) (d : Bool) (xs : List Num) (ids : List Nat)
    (hlen : ids.length = xs.length)
    (hna : naSensitive h = true → (d = true ∨ hasNa xs = false)) :
    groupFormNumba h d xs ids = groupForm h d xs ids := by
  unfold groupFormNumba groupForm
  apply List.map_congr_left
  intro xg hg
  have hk : kernelNumba h (handleNa xg (d && hasNa xs)) = kernel h (handleNa xg (d && hasNa xs)) := by
    apply kernelNumba_eq
    intro hs
    rcases hna hs with hd | hx
    · cases hx : hasNa xs
      · simp only [hd, Bool.and_false]
        have := hasNa_chunk ids xs hlen xg hg hx
        simpa [handleNa] using this
      · simp only [hd, Bool.and_true]
        exact hasNa_handleNa xg true (Or.inl rfl)
    · simp only [hx, Bool.and_false]
      have := hasNa_chunk ids xs hlen xg hg hx
      simpa [handleNa] using this
  rw [hk]
  cases kernel h (handleNa xg (d && hasNa xs)) <;> rfl

/-- the specification the JIT has to refine: what a call returns does not depend on which kernels
    were compiled before, in this process or into the on-disk cache, nor on the cache setting. -/
theorem history_independent (s s' : JitState) (c : Call) (cacheOn cacheOn' : Bool) :
    (stepJ s c cacheOn).2 = (stepJ s' c cacheOn').2 := rfl

end DI.Agg

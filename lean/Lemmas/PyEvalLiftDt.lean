/-
  Lemmas/PyEvalLiftDt.lean — the evaluator of `Model/PyEvalLiftDt.lean` on the regenerated bodies of `_pull_datetime`,
  `_pull_str`, `_pull_int`, `replace`, `to_string`, `from_string`, `quarter`, `weekday`, `new` (`Generated/CodeC19.lean`): unfolding
  lemmas, the store, list semantics, and the evaluation of every body for ALL vectors.
-/
import Model.PyEvalLiftDt
import Lemmas.PyEvalLift
import Generated.CodeC19

namespace DI.PyEvalLiftDt

open DI DI.Py DI.Gen DI.PyEvalLift DI.DtRe

variable {ε ρ γ : Type}

/-! ### specification functions -/

/-- the same with the position of the element. -/
def mapOptIdx {α β : Type} (g : Nat → α → Option β) : Nat → List (Option α) → Option (List (Option β))
  | _, [] => some []
  | k, none :: r => (mapOptIdx g (k + 1) r).map (fun l => none :: l)
  | k, some y :: r => match g k y with
    | none => none
    | some v => (mapOptIdx g (k + 1) r).map (fun l => some v :: l)

theorem mapOpt_total {α β : Type} (g : α → β) (xs : List (Option α)) :
    mapOpt (fun y => some (g y)) xs = some (xs.map (fun x => x.map g)) := by
  induction xs with
  | nil => rfl
  | cons x xs ih => cases x <;> simp [mapOpt, ih]

theorem mapOptIdx_total {α β : Type} (g : Nat → α → β) (k : Nat) (xs : List (Option α)) :
    mapOptIdx (fun i y => some (g i y)) k xs = some ((xs.zipIdx k).map (fun p => p.1.map (g p.2))) := by
  induction xs generalizing k with
  | nil => rfl
  | cons x xs ih => cases x <;> simp [mapOptIdx, ih, List.zipIdx_cons]

theorem mapOptIdx_const {α β : Type} (g : α → Option β) (k : Nat) (xs : List (Option α)) :
    mapOptIdx (fun _ y => g y) k xs = mapOpt g xs := by
  induction xs generalizing k with
  | nil => rfl
  | cons x xs ih =>
    cases x with
    | none => simp [mapOptIdx, mapOpt, ih]
    | some y =>
      simp only [mapOptIdx, mapOpt, ih]
      cases g y <;> rfl

theorem mapOpt_length {α β : Type} (g : α → Option β) (xs : List (Option α)) (l : List (Option β))
    (h : mapOpt g xs = some l) : l.length = xs.length := by
  induction xs generalizing l with
  | nil => simp [mapOpt] at h; subst h; rfl
  | cons x xs ih =>
    cases x with
    | none =>
      simp only [mapOpt, Option.map_eq_some_iff] at h
      obtain ⟨l', h1, rfl⟩ := h
      simp [ih l' h1]
    | some y =>
      simp only [mapOpt] at h
      cases hg : g y with
      | none => rw [hg] at h; cases h
      | some v =>
        rw [hg] at h
        simp only [Option.map_eq_some_iff] at h
        obtain ⟨l', h1, rfl⟩ := h
        simp [ih l' h1]

theorem mapOpt_all_none {α β : Type} (g : α → Option β) (xs : List (Option α)) (h : (xs.map (·.isNone)).all id = true) :
    mapOpt g xs = some (xs.map (fun _ => none)) := by
  induction xs with
  | nil => rfl
  | cons x xs ih =>
    cases x with
    | none =>
      have h' : (xs.map (·.isNone)).all id = true := by simpa using h
      simp [mapOpt, ih h']
    | some y => simp at h

/-! ### unfolding -/

theorem evalD_sym (C : DCtx ε ρ γ) (P : DEnv ε ρ γ) (σ : DStore ε ρ γ) (env : DEnv ε ρ γ) (s : String) :
    evalD C P σ env (.sym s) = some (lookupD env s) := by rw [evalD]

theorem evalD_int (C : DCtx ε ρ γ) (P : DEnv ε ρ γ) (σ : DStore ε ρ γ) (env : DEnv ε ρ γ) (k : Nat) :
    evalD C P σ env (.int (k : Int)) = some (.nat k) := by
  rw [evalD]; simp

theorem evalD_int0 (C : DCtx ε ρ γ) (P : DEnv ε ρ γ) (σ : DStore ε ρ γ) (env : DEnv ε ρ γ) :
    evalD C P σ env (.int 0) = some (.nat 0) := by
  rw [evalD]; rfl

theorem evalD_app (C : DCtx ε ρ γ) (P : DEnv ε ρ γ) (σ : DStore ε ρ γ) (env : DEnv ε ρ γ) (g : String) (args : List Term)
    (h : σ.find (.app g args) = none) (hg : specialHeads.contains g = false) :
    evalD C P σ env (.app g args) = (evalArgsD C P σ env args).bind (applyD C g) := by
  simp only [specialHeads, List.contains_cons, List.contains_nil, Bool.or_false, Bool.or_eq_false_iff, beq_eq_false_iff_ne,
    ne_eq] at hg
  obtain ⟨h1, h2, h3, h4⟩ := hg
  rw [evalD]
  simp only [h, if_neg h1, if_neg h2, if_neg h3, if_neg h4]
  cases evalArgsD C P σ env args <;> rfl

theorem evalD_dictcomp (C : DCtx ε ρ γ) (P : DEnv ε ρ γ) (σ : DStore ε ρ γ) (env : DEnv ε ρ γ) (args : List Term)
    (h : σ.find (.app "DictComp" args) = none) :
    evalD C P σ env (.app "DictComp" args) = evalDictCompD C P σ env args := by
  rw [evalD]; simp only [h]; rfl

theorem evalD_listcomp (C : DCtx ε ρ γ) (P : DEnv ε ρ γ) (σ : DStore ε ρ γ) (env : DEnv ε ρ γ) (args : List Term)
    (h : σ.find (.app "ListComp" args) = none) :
    evalD C P σ env (.app "ListComp" args) = evalListCompD C P σ env args := by
  rw [evalD]; simp only [h]; rfl

theorem evalD_or (C : DCtx ε ρ γ) (P : DEnv ε ρ γ) (σ : DStore ε ρ γ) (env : DEnv ε ρ γ) (args : List Term)
    (h : σ.find (.app "Or" args) = none) :
    evalD C P σ env (.app "Or" args) = evalOrD C P σ env args := by
  rw [evalD]; simp only [h]; rfl

theorem evalD_lambda (C : DCtx ε ρ γ) (P : DEnv ε ρ γ) (σ : DStore ε ρ γ) (env : DEnv ε ρ γ) (args : List Term)
    (h : σ.find (.app "lambda" args) = none) :
    evalD C P σ env (.app "lambda" args) = evalLambdaD C P σ env args := by
  rw [evalD]; simp only [h]; rfl

theorem evalD_found (C : DCtx ε ρ γ) (P : DEnv ε ρ γ) (σ : DStore ε ρ γ) (env : DEnv ε ρ γ) (g : String) (args : List Term)
    (v : DVal ε ρ γ) (h : σ.find (.app g args) = some v) : evalD C P σ env (.app g args) = some v := by
  rw [evalD]; simp only [h]

theorem evalArgsD_nil (C : DCtx ε ρ γ) (P : DEnv ε ρ γ) (σ : DStore ε ρ γ) (env : DEnv ε ρ γ) :
    evalArgsD C P σ env [] = some [] := by rw [evalArgsD]

theorem evalArgsD_cons (C : DCtx ε ρ γ) (P : DEnv ε ρ γ) (σ : DStore ε ρ γ) (env : DEnv ε ρ γ) (t : Term) (ts : List Term) :
    evalArgsD C P σ env (t :: ts) =
      (evalD C P σ env t).bind (fun v => (evalArgsD C P σ env ts).map (fun vs => v :: vs)) := by
  rw [evalArgsD]; cases evalD C P σ env t <;> cases evalArgsD C P σ env ts <;> rfl

theorem execBlockD_nil (C : DCtx ε ρ γ) (P env : DEnv ε ρ γ) (σ : DStore ε ρ γ) : execBlockD C P env [] σ = some σ := by
  rw [execBlockD]

theorem execBlockD_cons (C : DCtx ε ρ γ) (P env : DEnv ε ρ γ) (s : Term) (ss : List Term) (σ : DStore ε ρ γ) :
    execBlockD C P env (s :: ss) σ = (execD C P env s σ).bind (execBlockD C P env ss) := by
  rw [execBlockD]; cases execD C P env s σ <;> rfl

theorem runD_ret (C : DCtx ε ρ γ) (env : DEnv ε ρ γ) (effs : List Term) (t : Term) :
    runD C env (.ret effs t) = (execBlockD C env env effs []).bind (fun σ => evalD C env σ env t) := by
  simp only [runD]; cases execBlockD C env env effs [] <;> rfl

/-! ### the tests -/

theorem agreesAt_truthAtD (C : DCtx ε ρ γ) (env : DEnv ε ρ γ) (σ : DStore ε ρ γ) : AgreesAtD C env σ (truthAtD C env σ) := by
  intro t b h; simp [truthAtD, h]

theorem agrees_truthOfD (C : DCtx ε ρ γ) (env : DEnv ε ρ γ) : AgreesD C env (truthOfD C env) := agreesAt_truthAtD C env []

/-! ### the store -/

/-- every written object is one of `ks`. -/
def KeysIn (ks : List Term) (σ : DStore ε ρ γ) : Prop := ∀ p ∈ σ, p.1 ∈ ks

theorem KeysIn.nil (ks : List Term) : KeysIn ks ([] : DStore ε ρ γ) := by intro p hp; cases hp

theorem KeysIn.cons {ks : List Term} {σ : DStore ε ρ γ} (h : KeysIn ks σ) {k : Term} (hk : k ∈ ks) (v : DVal ε ρ γ) :
    KeysIn ks ((k, v) :: σ) := by
  intro p hp
  rcases List.mem_cons.mp hp with rfl | hp
  · exact hk
  · exact h p hp

theorem findD_none {ks : List Term} {t : Term} {σ : DStore ε ρ γ} (h : KeysIn ks σ) (hne : ∀ k ∈ ks, k ≠ t) :
    σ.find t = none := by
  induction σ with
  | nil => rfl
  | cons p r ih =>
    obtain ⟨k', v⟩ := p
    have hk : k' ∈ ks := h (k', v) List.mem_cons_self
    have hr : KeysIn ks r := fun q hq => h q (List.mem_cons_of_mem _ hq)
    simp only [DStore.find]
    rw [if_neg (hne k' hk)]
    exact ih hr

theorem findD_cons_self (k : Term) (v : DVal ε ρ γ) (σ : DStore ε ρ γ) : DStore.find ((k, v) :: σ) k = some v := by
  simp [DStore.find]

theorem findD_cons_ne (k t : Term) (v : DVal ε ρ γ) (σ : DStore ε ρ γ) (h : k ≠ t) :
    DStore.find ((k, v) :: σ) t = DStore.find σ t := by
  simp [DStore.find, h]

/-- a call whose head is none of the heads of the written objects. -/
theorem heads_ne {ks : List Term} {hs : List String} (hks : ∀ k ∈ ks, ∃ g a, k = Term.app g a ∧ g ∈ hs) {g : String}
    (a : List Term) (hg : g ∉ hs) : ∀ k ∈ ks, k ≠ Term.app g a := by
  intro k hk e
  obtain ⟨g', a', rfl, hg'⟩ := hks k hk
  exact hg ((Term.app.inj e).1 ▸ hg')

/-! ### names -/

theorem lookupD_head (env : DEnv ε ρ γ) (x : String) (v : DVal ε ρ γ) (h1 : x ∉ naSyms) (h2 : x ≠ "'x'") :
    lookupD ((x, v) :: env) x = v := by
  unfold lookupD
  rw [if_neg (fun c => h1 (List.contains_iff_mem.mp c)), if_neg h2]
  simp [DEnv.get?, List.find?]

theorem lookupD_cons_ne (env : DEnv ε ρ γ) (x s : String) (v : DVal ε ρ γ) (h : x ≠ s) :
    lookupD ((x, v) :: env) s = lookupD env s := by
  have hb : (x == s) = false := by simpa using h
  unfold lookupD
  simp [DEnv.get?, List.find?, hb]

/-! ### list semantics -/

theorem allSome_length {α : Type} (l : List (Option α)) (vs : List α) (h : allSome l = some vs) : vs.length = l.length := by
  induction l generalizing vs with
  | nil => simp [allSome] at h; subst h; rfl
  | cons x l ih =>
    cases x with
    | none => simp [allSome] at h
    | some a =>
      simp only [allSome] at h
      cases hl : allSome l with
      | none => rw [hl] at h; cases h
      | some l' =>
        rw [hl] at h
        simp only [Option.some.injEq] at h
        subst h
        simp [ih l' hl]

theorem select_isSome_isEmpty {α : Type} (xs : List (Option α)) :
    (select (xs.map (·.isSome)) xs).isEmpty = (xs.map (·.isNone)).all id := by
  induction xs with
  | nil => rfl
  | cons x xs ih => cases x <;> simp [select, ih]

/-- the masked assignment of the vectorised PARTIAL call into the array of missing markers is the element-wise map. -/
theorem putMask_mapOpt {α β : Type} (g : α → Option β) (xs : List (Option α)) :
    (allSome ((xs.filterMap id).map g)).map
        (fun vs => putMask (xs.map (·.isSome)) (xs.map (fun _ => (none : Option β))) vs) = mapOpt g xs := by
  induction xs with
  | nil => rfl
  | cons x xs ih =>
    cases x with
    | none =>
      simp only [List.filterMap_cons, id, List.map_cons, Option.isSome_none, mapOpt]
      rw [← ih]
      cases allSome ((xs.filterMap id).map g) with
      | none => rfl
      | some l => simp [putMask]
    | some y =>
      simp only [List.filterMap_cons, id, List.map_cons, Option.isSome_some, mapOpt]
      cases hg : g y with
      | none => rfl
      | some v =>
        simp only []
        rw [← ih]
        cases hL : allSome ((xs.filterMap id).map g) with
        | none => simp [allSome, hL]
        | some l => simp [allSome, hL, putMask]

/-! ### `_pull_datetime` / `_pull_str` / `_pull_int`: the vector branch -/

/-- the call `_pull_x(x, function)` on a vector, `function` being the stdlib method with the keywords `kw`. -/
def pullEnvD (xs : List (Option ε)) (kw : List (String × γ)) : DEnv ε ρ γ := [("x", .vec xs), ("function", .meth kw)]

def naT : Term := Term.app "np.isnat" [Term.sym "x"]
def checksT : List Term :=
  [Term.app "assert" [Term.app "isinstance" [Term.sym "x", Term.sym "np.ndarray"]],
   Term.app "assert" [Term.app "np.issubdtype" [Term.app ".dtype" [Term.sym "x"], Term.sym "np.datetime64"]]]
/-- `np.vectorize(function)(x[~na].astype(object))`. -/
def callT : Term :=
  Term.app "call" [Term.app "np.vectorize" [Term.sym "function"],
    Term.app ".astype" [Term.app "getitem" [Term.sym "x", Term.app "~" [naT]], Term.sym "object"]]
/-- `out[~na] = np.vectorize(function)(x[~na].astype(object))`. -/
def storeT (outT : Term) : Term := Term.app "store" [Term.app "getitem" [outT, Term.app "~" [naT]], callT]
/-- the three `out` terms. -/
def outDT : Term := Term.app "Vector.fast" [Term.app "np.full_like" [Term.sym "x", Term.sym "np.nan"], Term.sym "np.datetime64"]
def outST : Term :=
  Term.app "Vector.fast" [Term.app "np.full_like" [Term.sym "x", Term.sym "dtypes.string.na_object", Term.sym "object"], Term.sym "object"]
def outIT : Term := Term.app "Vector.fast" [Term.app "np.full_like" [Term.sym "x", Term.sym "np.nan", Term.sym "float"], Term.sym "float"]

section pull
variable (C : DCtx ε ρ γ) (xs : List (Option ε)) (kw : List (String × γ))

theorem eval_is_scalar_x :
    evalD C (pullEnvD xs kw) [] (pullEnvD xs kw) (Term.app "util.is_scalar" [Term.sym "x"]) = some (.bool false) := rfl
theorem eval_all_naT :
    evalD C (pullEnvD xs kw) [] (pullEnvD xs kw) (Term.app ".all" [naT]) = some (.bool ((xs.map (·.isNone)).all id)) := rfl
theorem eval_any_naT :
    evalD C (pullEnvD xs kw) [] (pullEnvD xs kw) (Term.app ".any" [naT]) = some (.bool ((xs.map (·.isNone)).any id)) := rfl
theorem checksT_run : execBlockD C (pullEnvD xs kw) (pullEnvD xs kw) checksT [] = some [] := rfl
theorem eval_outDT0 : evalD C (pullEnvD xs kw) [] (pullEnvD xs kw) outDT = some (.out (xs.map (fun _ => none))) := rfl
theorem eval_outST0 : evalD C (pullEnvD xs kw) [] (pullEnvD xs kw) outST = some (.out (xs.map (fun _ => none))) := rfl
theorem eval_outIT0 : evalD C (pullEnvD xs kw) [] (pullEnvD xs kw) outIT = some (.out (xs.map (fun _ => none))) := rfl
theorem eval_notNaT :
    evalD C (pullEnvD xs kw) [] (pullEnvD xs kw) (Term.app "~" [naT]) = some (.mask ((xs.map (·.isNone)).map (!·))) := rfl

theorem applyD_call (l : List (Option ε)) :
    applyD C "call" [.vmeth kw, .vec l] =
      if l.isEmpty then none else (allSome l).bind (fun l => (allSome (l.map (fun y => C.f y kw))).map DVal.vals) := rfl

/-- the values of the vectorised call: the method on exactly the non-missing elements, in order; an error if there is
    none (size-0 input) or if the method rejects one. -/
theorem eval_callT (hna : (xs.map (·.isNone)).all id = false) :
    evalD C (pullEnvD xs kw) [] (pullEnvD xs kw) callT =
      (allSome ((xs.filterMap id).map (fun y => C.f y kw))).map DVal.vals := by
  have hsel : evalD C (pullEnvD xs kw) [] (pullEnvD xs kw) (Term.app "getitem" [Term.sym "x", Term.app "~" [naT]]) =
      some (.vec (select (xs.map (·.isSome)) xs)) := by
    rw [evalD_app C _ [] _ _ _ rfl rfl]
    simp only [evalArgsD_cons, evalArgsD_nil, eval_notNaT, evalD_sym, Option.bind_some, Option.map_some]
    show (if ((xs.map (·.isNone)).map (!·)).length = xs.length then _ else _) = _
    rw [if_pos (by simp), not_isNone_map]
  have hast : evalD C (pullEnvD xs kw) [] (pullEnvD xs kw)
      (Term.app ".astype" [Term.app "getitem" [Term.sym "x", Term.app "~" [naT]], Term.sym "object"]) =
      some (.vec (select (xs.map (·.isSome)) xs)) := by
    rw [evalD_app C _ [] _ _ _ rfl rfl]
    simp only [evalArgsD_cons, evalArgsD_nil, hsel, evalD_sym, Option.bind_some, Option.map_some]
    rfl
  have hvf : evalD C (pullEnvD xs kw) [] (pullEnvD xs kw) (Term.app "np.vectorize" [Term.sym "function"]) =
      some (.vmeth kw) := rfl
  unfold callT
  rw [evalD_app C _ [] _ _ _ rfl rfl]
  simp only [evalArgsD_cons, evalArgsD_nil, hast, hvf, Option.bind_some, Option.map_some, applyD_call,
    select_isSome_isEmpty, hna, Bool.false_eq_true, if_false, select_isSome]

/-- the statements of the vector branch when something is not missing: `out` holds the element-wise map; an exception
    if the method rejects an element. -/
theorem pullStoreD_run (outT : Term)
    (hout0 : evalD C (pullEnvD xs kw) [] (pullEnvD xs kw) outT = some (.out (xs.map (fun _ => none))))
    (hna : (xs.map (·.isNone)).all id = false) :
    execBlockD C (pullEnvD xs kw) (pullEnvD xs kw) (checksT ++ [storeT outT]) [] =
      (mapOpt (fun y => C.f y kw) xs).map (fun l => [(outT, .out l)]) := by
  show execBlockD C (pullEnvD xs kw) (pullEnvD xs kw) [_, _, storeT outT] [] = _
  have h0 : execD C (pullEnvD xs kw) (pullEnvD xs kw)
      (Term.app "assert" [Term.app "isinstance" [Term.sym "x", Term.sym "np.ndarray"]]) [] = some [] := rfl
  have h1 : execD C (pullEnvD xs kw) (pullEnvD xs kw)
      (Term.app "assert" [Term.app "np.issubdtype" [Term.app ".dtype" [Term.sym "x"], Term.sym "np.datetime64"]]) [] =
      some [] := rfl
  simp only [execBlockD_cons, execBlockD_nil, h0, h1, Option.bind_some]
  · 
      unfold storeT
      rw [execD]
      simp only [eval_callT C xs kw hna, hout0, eval_notNaT]
      rw [← putMask_mapOpt, not_isNone_map]
      cases hv : allSome ((xs.filterMap id).map (fun y => C.f y kw)) with
      | none => rfl
      | some vs =>
        have hl := allSome_length _ _ hv
        simp only [Option.map_some, assignD, List.length_map, filter_isSome_length, hl, and_self, if_true,
          Option.bind_some, execBlockD_nil]

end pull

/-! ### the three regenerated `_pull_*` bodies on a vector -/

section pullBodies
variable (C : DCtx ε ρ γ) (xs : List (Option ε)) (kw : List (String × γ)) (truth : Term → Bool)

theorem found_outT (outT : Term) (g : String) (a : List Term) (h : outT = Term.app g a) (v : DVal ε ρ γ) (P env : DEnv ε ρ γ) :
    evalD C P [(outT, v)] env outT = some v := by
  subst h; exact evalD_found C P _ env g a v (findD_cons_self _ _ _)

/-- **`_pull_datetime`** on a vector: the element-wise map of the (partial) method. -/
theorem pull_datetime_run (ht : AgreesD C (pullEnvD xs kw) truth) :
    runD C (pullEnvD xs kw) (dt_pull_datetime truth) = (mapOpt (fun y => C.f y kw) xs).map DVal.out := by
  have h1 : truth (Term.app "util.is_scalar" [Term.sym "x"]) = false := ht _ _ (eval_is_scalar_x C xs kw)
  have h2 : truth (Term.app ".all" [Term.app "np.isnat" [Term.sym "x"]]) = _ := ht _ _ (eval_all_naT C xs kw)
  unfold dt_pull_datetime
  dsimp only
  rw [h1, h2]
  simp only [Bool.false_eq_true, if_false]
  cases hall : (xs.map (·.isNone)).all id
  · simp only [Bool.false_eq_true, if_false]
    show runD C _ (Out.ret (checksT ++ [storeT outDT]) outDT) = _
    rw [runD_ret]
    rw [pullStoreD_run C xs kw outDT (eval_outDT0 C xs kw) hall]
    cases mapOpt (fun y => C.f y kw) xs with
    | none => rfl
    | some l => exact found_outT C outDT _ _ rfl _ (pullEnvD xs kw) (pullEnvD xs kw)
  · simp only [if_true]
    show runD C _ (Out.ret checksT outDT) = _
    rw [runD_ret]
    rw [checksT_run, mapOpt_all_none _ xs hall]
    exact eval_outDT0 C xs kw

/-- **`_pull_str`** on a vector. -/
theorem pull_str_run (ht : AgreesD C (pullEnvD xs kw) truth) :
    runD C (pullEnvD xs kw) (dt_pull_str truth) = (mapOpt (fun y => C.f y kw) xs).map DVal.out := by
  have h1 : truth (Term.app "util.is_scalar" [Term.sym "x"]) = false := ht _ _ (eval_is_scalar_x C xs kw)
  have h2 : truth (Term.app ".all" [Term.app "np.isnat" [Term.sym "x"]]) = _ := ht _ _ (eval_all_naT C xs kw)
  unfold dt_pull_str
  dsimp only
  rw [h1, h2]
  simp only [Bool.false_eq_true, if_false]
  cases hall : (xs.map (·.isNone)).all id
  · simp only [Bool.false_eq_true, if_false]
    show runD C _ (Out.ret (checksT ++ [storeT outST]) (Term.app ".as_string" [outST])) = _
    rw [runD_ret]
    rw [pullStoreD_run C xs kw outST (eval_outST0 C xs kw) hall]
    cases mapOpt (fun y => C.f y kw) xs with
    | none => rfl
    | some l => rfl
  · simp only [if_true]
    show runD C _ (Out.ret checksT (Term.app ".as_string" [outST])) = _
    rw [runD_ret]
    rw [checksT_run, mapOpt_all_none _ xs hall]
    rfl

/-- **`_pull_int`** on a vector: the float vector with the missing marker at the NaT positions when something is
    missing or there is no element (`DtRe.pullIntIsInteger` false), the integer vector of the values otherwise. -/
theorem pull_int_run (ht : AgreesD C (pullEnvD xs kw) truth) :
    runD C (pullEnvD xs kw) (dt_pull_int truth) =
      (mapOpt (fun y => C.f y kw) xs).bind
        (fun l => if pullIntIsInteger xs then (allSome l).map DVal.iout else some (.out l)) := by
  have h1 : truth (Term.app "util.is_scalar" [Term.sym "x"]) = false := ht _ _ (eval_is_scalar_x C xs kw)
  have h2 : truth (Term.app ".all" [Term.app "np.isnat" [Term.sym "x"]]) = _ := ht _ _ (eval_all_naT C xs kw)
  have h3 : truth (Term.app ".any" [Term.app "np.isnat" [Term.sym "x"]]) = _ := ht _ _ (eval_any_naT C xs kw)
  unfold dt_pull_int
  dsimp only
  rw [h1, h2, h3]
  simp only [Bool.false_eq_true, if_false]
  by_cases hall : (xs.map (·.isNone)).all id = true
  · have hI : pullIntIsInteger xs = false := by unfold pullIntIsInteger; simp only [hall, if_true]
    simp only [hall, if_true, hI, Bool.false_eq_true, if_false]
    show runD C _ (Out.ret checksT outIT) = _
    rw [runD_ret, checksT_run, mapOpt_all_none _ xs hall]
    exact eval_outIT0 C xs kw
  · have hall' : (xs.map (·.isNone)).all id = false := Bool.eq_false_iff.mpr hall
    by_cases hany : (xs.map (·.isNone)).any id = true
    · have hI : pullIntIsInteger xs = false := by
        unfold pullIntIsInteger; simp only [hall', hany, Bool.false_eq_true, if_false, Bool.not_true]
      simp only [hall', hany, if_true, hI, Bool.false_eq_true, if_false]
      show runD C _ (Out.ret (checksT ++ [storeT outIT]) outIT) = _
      rw [runD_ret, pullStoreD_run C xs kw outIT (eval_outIT0 C xs kw) hall']
      cases mapOpt (fun y => C.f y kw) xs with
      | none => rfl
      | some l => exact found_outT C outIT _ _ rfl _ (pullEnvD xs kw) (pullEnvD xs kw)
    · have hany' : (xs.map (·.isNone)).any id = false := Bool.eq_false_iff.mpr hany
      have hI : pullIntIsInteger xs = true := by
        unfold pullIntIsInteger; simp only [hall', hany', Bool.false_eq_true, if_false, Bool.not_false]
      simp only [hall', hany', hI, Bool.false_eq_true, if_false, if_true]
      show runD C _ (Out.ret (checksT ++ [storeT outIT]) (Term.app ".as_integer" [outIT])) = _
      rw [runD_ret, pullStoreD_run C xs kw outIT (eval_outIT0 C xs kw) hall']
      cases mapOpt (fun y => C.f y kw) xs with
      | none => rfl
      | some l => rfl

end pullBodies

/-! ### `replace`: the terms of the regenerated body -/

/-- `kwargs = {k: v for k, v in locals().items() if k != "x" and v is not None}`. -/
def kwargsT : Term :=
  Term.app "DictComp" [Term.app "pair" [Term.sym "k", Term.sym "v"],
    Term.app "in" [Term.app "tuple" [Term.sym "k", Term.sym "v"], Term.app ".items" [Term.app "locals" []],
      Term.app "if" [Term.app "And" [Term.app "NotEq" [Term.sym "k", Term.sym "'x'"], Term.app "IsNot" [Term.sym "v", Term.sym "None"]]]]]
/-- `all(map(util.is_scalar, kwargs.values()))`. -/
def allScalarT : Term := Term.app "all" [Term.app "map" [Term.sym "util.is_scalar", Term.app ".values" [kwargsT]]]
/-- `lambda y: y.replace(**kwargs)`. -/
def lambdaT : Term :=
  Term.app "lambda" [Term.app "params" [Term.sym "y"], Term.app ".replace" [Term.sym "y", Term.app "=**" [kwargsT]]]
/-- `scalar_keys = [x for x in kwargs if util.is_scalar(kwargs[x])]`. -/
def skT : Term :=
  Term.app "ListComp" [Term.sym "x", Term.app "in" [Term.sym "x", kwargsT,
    Term.app "if" [Term.app "util.is_scalar" [Term.app "getitem" [kwargsT, Term.sym "x"]]]]]
/-- `vector_keys = [x for x in kwargs if x not in scalar_keys]`. -/
def vkT : Term :=
  Term.app "ListComp" [Term.sym "x", Term.app "in" [Term.sym "x", kwargsT, Term.app "if" [Term.app "NotIn" [Term.sym "x", skT]]]]
/-- `kwargs_scalar = {x: kwargs[x] for x in scalar_keys}`. -/
def ksT : Term :=
  Term.app "DictComp" [Term.app "pair" [Term.sym "x", Term.app "getitem" [kwargsT, Term.sym "x"]],
    Term.app "in" [Term.sym "x", skT, Term.app "if" []]]
/-- `for value in kwargs.values(): assert util.is_scalar(value) or len(value) == len(x)`. -/
def lenCheckT : Term :=
  Term.app "for" [Term.sym "value", Term.app ".values" [kwargsT], Term.app "block"
    [Term.app "assert" [Term.app "Or" [Term.app "util.is_scalar" [Term.sym "value"],
      Term.app "Eq" [Term.app "len" [Term.sym "value"], Term.app "len" [Term.sym "x"]]]]]]
def xobjT : Term := Term.app ".astype" [Term.sym "x", Term.sym "object"]
/-- `kwargs_scalar[key] = kwargs[key][i]`. -/
def ksStoreT : Term :=
  Term.app "store" [Term.app "getitem" [ksT, Term.sym "key"],
    Term.app "getitem" [Term.app "getitem" [kwargsT, Term.sym "key"], Term.sym "i"]]
def innerForT : Term := Term.app "for" [Term.sym "key", vkT, Term.app "block" [ksStoreT]]
/-- `out[i] = xobj[i].replace(**kwargs_scalar)`. -/
def outStoreT : Term :=
  Term.app "store" [Term.app "getitem" [outDT, Term.sym "i"],
    Term.app ".replace" [Term.app "getitem" [xobjT, Term.sym "i"], Term.app "=**" [ksT]]]
def mainForT : Term :=
  Term.app "for" [Term.sym "i", Term.app "np.flatnonzero" [Term.app "~" [naT]], Term.app "block" [innerForT, outStoreT]]

/-- **the regenerated `replace`** in these words. -/
theorem replace_code (truth : Term → Bool) :
    dt_replace truth =
      if truth allScalarT then Out.ret [] (Term.app "_pull_datetime" [Term.sym "x", lambdaT])
      else Out.ret ([lenCheckT] ++ checksT ++ [mainForT]) outDT := rfl

/-! ### `replace`: the arguments -/

/-- the value bound to a component parameter: `None`, a scalar, a vector. -/
def argVal : Option (Comp γ) → DVal ε ρ γ
  | none => .na
  | some c => compVal c

/-- the bindings of a call `replace(x, **components)`: `ps` lists the component parameters in signature order. -/
def replEnvX (xv : DVal ε ρ γ) (ps : List (String × Option (Comp γ))) : DEnv ε ρ γ :=
  ("x", xv) :: ps.map (fun p => (p.1, argVal p.2))

/-- … with `x` a vector. -/
abbrev replEnv (xs : List (Option ε)) (ps : List (String × Option (Comp γ))) : DEnv ε ρ γ := replEnvX (.vec xs) ps

/-- the dict `kwargs`: the components that are given, in signature order. -/
def kwargsOf (ps : List (String × Option (Comp γ))) : List (String × Comp γ) :=
  ps.filterMap (fun p => p.2.map (fun c => (p.1, c)))

theorem argVal_none : (argVal (none : Option (Comp γ)) : DVal ε ρ γ) = .na := rfl
theorem argVal_some (c : Comp γ) : (argVal (some c) : DVal ε ρ γ) = compVal c := rfl

theorem valComp_compVal (c : Comp γ) : valComp (compVal c : DVal ε ρ γ) = some c := by cases c <;> rfl

theorem isNa_compVal (c : Comp γ) : isNa (compVal c : DVal ε ρ γ) = false := by cases c <;> rfl

theorem collect_kwargs (xv : DVal ε ρ γ) (F : List (DVal ε ρ γ) → Option (Option (String × Comp γ)))
    (hF : ∀ n val, F [.str n, val] =
      if (n != "x" && !isNa val) = true then (valComp val).map (fun c => some (n, c)) else some none)
    (ps : List (String × Option (Comp γ))) (hx : ∀ p ∈ ps, p.1 ≠ "x") :
    collectD F ((replEnvX xv ps).map (fun p => [.str p.1, p.2])) = some (kwargsOf ps) := by
  have hrest : collectD F ((ps.map (fun p => (p.1, (argVal p.2 : DVal ε ρ γ)))).map (fun p => [.str p.1, p.2])) =
      some (kwargsOf ps) := by
    induction ps with
    | nil => rfl
    | cons p ps ih =>
      obtain ⟨n, a⟩ := p
      have hn : n ≠ "x" := hx (n, a) List.mem_cons_self
      have ih' := ih (fun q hq => hx q (List.mem_cons_of_mem _ hq))
      cases a with
      | none =>
        simp only [List.map_cons, collectD, hF, argVal_none, isNa, Bool.not_true, Bool.and_false, Bool.false_eq_true, if_false]
        rw [ih']; rfl
      | some c =>
        have hne : (n != "x") = true := by simpa using hn
        simp only [List.map_cons, collectD, hF, argVal_some, isNa_compVal, hne, Bool.not_false, Bool.and_self, if_true,
          valComp_compVal, Option.map_some]
        rw [ih']; rfl
  show collectD F ([.str "x", xv] :: _) = _
  simp only [collectD, hF]
  exact hrest

/-! ### small evaluations used inside the comprehensions and loops -/

theorem lookupD_None (env : DEnv ε ρ γ) : lookupD env "None" = .na := rfl
theorem lookupD_qx (env : DEnv ε ρ γ) : lookupD env "'x'" = .str "x" := rfl
theorem lookupD_k (env : DEnv ε ρ γ) (a : DVal ε ρ γ) : lookupD (("k", a) :: env) "k" = a := lookupD_head env _ _ (by decide) (by decide)
theorem lookupD_v (env : DEnv ε ρ γ) (a b : DVal ε ρ γ) : lookupD (("k", a) :: ("v", b) :: env) "v" = b := by
  rw [lookupD_cons_ne _ _ _ _ (by decide)]; exact lookupD_head env _ _ (by decide) (by decide)
theorem lookupD_x (env : DEnv ε ρ γ) (a : DVal ε ρ γ) : lookupD (("x", a) :: env) "x" = a := lookupD_head env _ _ (by decide) (by decide)
theorem lookupD_value (env : DEnv ε ρ γ) (a : DVal ε ρ γ) : lookupD (("value", a) :: env) "value" = a :=
  lookupD_head env _ _ (by decide) (by decide)
theorem lookupD_key (env : DEnv ε ρ γ) (a : DVal ε ρ γ) : lookupD (("key", a) :: env) "key" = a :=
  lookupD_head env _ _ (by decide) (by decide)
theorem lookupD_i (env : DEnv ε ρ γ) (a : DVal ε ρ γ) : lookupD (("i", a) :: env) "i" = a :=
  lookupD_head env _ _ (by decide) (by decide)

section prims
variable (C : DCtx ε ρ γ)
theorem applyD_NotEq (a b : String) : applyD C "NotEq" [.str a, .str b] = some (.bool (a != b)) := rfl
theorem applyD_IsNot (v : DVal ε ρ γ) : applyD C "IsNot" [v, .na] = some (.bool (!isNa v)) := rfl
theorem applyD_And (a b : Bool) : applyD C "And" [.bool a, .bool b] = some (.bool (a && b)) := rfl
theorem applyD_locals : applyD C "locals" [] = some .scope := rfl
theorem applyD_items : applyD C ".items" [.scope] = some .scopeItems := rfl
theorem applyD_values (d : List (String × Comp γ)) : applyD C ".values" [.dict d] = some (.comps (d.map (·.2))) := rfl
theorem applyD_map (s : String) (l : List (Comp γ)) (hs : s = "util.is_scalar") :
    applyD C "map" [.opaque s, .comps l] = some (.mask (l.map Comp.isScalar)) := by subst hs; rfl
theorem applyD_all (m : List Bool) : applyD C "all" [.mask m] = some (.bool (m.all id)) := rfl
theorem applyD_splat (d : List (String × Comp γ)) : applyD C "=**" [.dict d] = some (.dict d) := rfl
theorem applyD_getitem_dict (d : List (String × Comp γ)) (k : String) :
    applyD C "getitem" [.dict d, .str k] = (d.lookup k).map compVal := rfl
theorem applyD_getitem_cvec (vs : List γ) (i : Nat) : applyD C "getitem" [.cvec vs, .nat i] = vs[i]?.map DVal.comp := rfl
theorem applyD_getitem_vecD (xs : List (Option ε)) (i : Nat) : applyD C "getitem" [.vec xs, .nat i] = xs[i]?.map DVal.elem := rfl
theorem applyD_is_scalar_comp (c : Comp γ) : applyD C "util.is_scalar" [compVal c] = some (.bool c.isScalar) := by
  cases c <;> rfl
theorem applyD_NotIn (k : String) (l : List String) : applyD C "NotIn" [.str k, .keys l] = some (.bool (!l.contains k)) := rfl
theorem applyD_calls {g : String} {h : List (DVal ε ρ γ) → Option (DVal ε ρ γ)} (hp : primNamesD.contains g = false)
    (hc : C.calls g = some h) (vs : List (DVal ε ρ γ)) : applyD C g vs = h vs := by
  unfold applyD; rw [hp]; simp [hc]
theorem applyD_std (hp : primNamesD.contains C.std = false) (hc : C.calls C.std = none) (vs : List (DVal ε ρ γ)) :
    applyD C C.std vs = stdCall C vs := by
  unfold applyD; rw [hp]; simp [hc]
end prims

/-! ### the scalar branch of `_pull_datetime` -/

/-- a context in which `_pull_datetime` is the regenerated function, run in `C`. -/
def pdSelfCtx (C : DCtx ε ρ γ) : DCtx ε ρ γ :=
  { std := C.std, f := C.f, ceilDiv := C.ceilDiv,
    calls := fun g => if g = "_pull_datetime" then some (runFnD C dt_pull_datetime_signature dt_pull_datetime) else none }

/-- the result for a scalar: the method's value (an exception if it raises), NaT for NaT. -/
def scalarRes (g : ε → Option ρ) : Option ε → Option (DVal ε ρ γ)
  | none => some (.res none)
  | some y => (g y).map (fun v => .res (some v))

/-- **`_pull_datetime` on a scalar**: `_pull_datetime(Vector([x], np.datetime64), function)[0]`: the method's value,
    NaT for NaT. -/
theorem pull_datetime_scalar_run (C : DCtx ε ρ γ) (x : Option ε) (kw : List (String × γ)) (truth : Term → Bool)
    (ht : AgreesD (pdSelfCtx C) [("x", .elem x), ("function", .meth kw)] truth) :
    runD (pdSelfCtx C) [("x", .elem x), ("function", .meth kw)] (dt_pull_datetime truth) =
      scalarRes (fun y => C.f y kw) x := by
  have h1 : truth (Term.app "util.is_scalar" [Term.sym "x"]) = true := ht _ _ rfl
  have hv : evalD (pdSelfCtx C) [("x", .elem x), ("function", .meth kw)] [] [("x", .elem x), ("function", .meth kw)]
      (Term.app "Vector" [Term.app "list" [Term.sym "x"], Term.sym "np.datetime64"]) = some (.vec [x]) := rfl
  have hf : evalD (pdSelfCtx C) [("x", .elem x), ("function", .meth kw)] [] [("x", .elem x), ("function", .meth kw)]
      (Term.sym "function") = some (.meth kw) := rfl
  have hcall : runFnD C dt_pull_datetime_signature dt_pull_datetime [.vec [x], .meth kw] =
      (mapOpt (fun y => C.f y kw) [x]).map DVal.out :=
    pull_datetime_run C [x] kw _ (agrees_truthOfD _ _)
  unfold dt_pull_datetime
  dsimp only
  rw [h1]
  simp only [if_true]
  rw [runD_ret, execBlockD_nil, Option.bind_some, evalD_app _ _ [] _ _ _ rfl rfl]
  simp only [evalArgsD_cons, evalArgsD_nil, evalD_int0]
  rw [evalD_app _ _ [] _ _ _ rfl rfl]
  simp only [evalArgsD_cons, evalArgsD_nil, hv, hf, Option.bind_some, Option.map_some]
  rw [applyD_calls (pdSelfCtx C) (g := "_pull_datetime") (by decide) rfl, hcall]
  cases x with
  | none => rfl
  | some y =>
    simp only [mapOpt, scalarRes]
    cases C.f y kw <;> rfl


/-! ### `replace`: `kwargs` and the test -/

section repl
variable (C : DCtx ε ρ γ) (xs : List (Option ε)) (xv : DVal ε ρ γ) (ps : List (String × Option (Comp γ)))

/-- the objects `replace` writes: `out` and `kwargs_scalar`. -/
def replKeys : List Term := [outDT, ksT]

theorem eval_kwargs (hx : ∀ p ∈ ps, p.1 ≠ "x") {σ : DStore ε ρ γ} (hσ : KeysIn replKeys σ) (env : DEnv ε ρ γ) :
    evalD C (replEnvX xv ps) σ env kwargsT = some (.dict (kwargsOf ps)) := by
  have hit : evalD C (replEnvX xv ps) σ env (Term.app ".items" [Term.app "locals" []]) = some .scopeItems := by
    rw [evalD_app C _ σ _ _ _ (findD_none hσ (by decide)) rfl]
    simp only [evalArgsD_cons, evalArgsD_nil]
    rw [evalD_app C _ σ _ _ _ (findD_none hσ (by decide)) rfl]
    simp only [evalArgsD_nil, Option.bind_some, Option.map_some, applyD_locals, applyD_items]
  unfold kwargsT
  rw [evalD_dictcomp C _ σ _ _ (findD_none hσ (by decide)), evalDictCompD]
  simp only [hit, iterItems]
  rw [collect_kwargs xv _ _ ps hx]
  · rfl
  · intro n val
    have hb : bindTarget (Term.app "tuple" [Term.sym "k", Term.sym "v"]) [DVal.str n, val] =
        some ([("k", .str n), ("v", val)] : DEnv ε ρ γ) := rfl
    simp only [hb]
    have hc : evalArgsD C (replEnvX xv ps) σ ([("k", DVal.str n), ("v", val)] ++ env)
        [Term.app "And" [Term.app "NotEq" [Term.sym "k", Term.sym "'x'"], Term.app "IsNot" [Term.sym "v", Term.sym "None"]]] =
        some [.bool (n != "x" && !isNa val)] := by
      simp only [evalArgsD_cons, evalArgsD_nil]
      rw [evalD_app C _ σ _ _ _ (findD_none hσ (by decide)) rfl]
      simp only [evalArgsD_cons, evalArgsD_nil]
      rw [evalD_app C _ σ _ _ _ (findD_none hσ (by decide)) rfl, evalD_app C _ σ _ _ _ (findD_none hσ (by decide)) rfl]
      simp only [evalArgsD_cons, evalArgsD_nil, evalD_sym, List.cons_append, List.nil_append, lookupD_k, lookupD_v,
        lookupD_None, lookupD_qx, Option.bind_some, Option.map_some, applyD_NotEq, applyD_IsNot, applyD_And]
    rw [hc]
    simp only [Option.bind_some, allTrue, Option.map_some, Bool.and_true, evalD_sym, List.cons_append, List.nil_append,
      lookupD_k, lookupD_v, dictEntry]
    cases (n != "x" && !isNa val)
    · rfl
    · cases valComp val <;> rfl

/-- the names of the component parameters. -/
def compNames : List String := ["year", "month", "day", "hour", "minute", "second", "microsecond"]

/-- a name that is not a parameter of `replace` is a module-level object. -/
theorem lookupD_replEnv_free (hn : ∀ p ∈ ps, p.1 ∈ compNames) (s : String)
    (hs : s ∉ "x" :: "'x'" :: (compNames ++ naSyms)) : lookupD (replEnvX xv ps : DEnv ε ρ γ) s = .opaque s := by
  have h1 : s ∉ naSyms := fun h => hs (by simp [h])
  have h2 : s ≠ "'x'" := fun h => hs (by simp [h])
  have h3 : s ≠ "x" := fun h => hs (by simp [h])
  have h4 : s ∉ compNames := fun h => hs (by simp [h])
  unfold lookupD
  rw [if_neg (fun c => h1 (List.contains_iff_mem.mp c)), if_neg h2]
  have : DEnv.get? (replEnvX xv ps : DEnv ε ρ γ) s = none := by
    unfold DEnv.get? replEnvX
    rw [Option.map_eq_none_iff, List.find?_eq_none]
    intro q hq
    rcases List.mem_cons.mp hq with rfl | hq
    · simpa using fun e => h3 e.symm
    · obtain ⟨p, hp, rfl⟩ := List.mem_map.mp hq
      have := hn p hp
      simp only [beq_iff_eq]
      intro e
      exact h4 (e ▸ this)
  rw [this]

theorem lookupD_replEnvX_x : lookupD (replEnvX xv ps : DEnv ε ρ γ) "x" = xv := lookupD_x _ _

theorem lookupD_replEnv_x : lookupD (replEnv xs ps : DEnv ε ρ γ) "x" = .vec xs := lookupD_x _ _

theorem names_ne_x (hn : ∀ p ∈ ps, p.1 ∈ compNames) : ∀ p ∈ ps, p.1 ≠ "x" := by
  intro p hp e
  have := hn p hp
  rw [e] at this
  revert this
  decide

/-- `all(map(util.is_scalar, kwargs.values()))`. -/
theorem eval_allScalarT (hn : ∀ p ∈ ps, p.1 ∈ compNames) :
    evalD C (replEnvX xv ps) [] (replEnvX xv ps) allScalarT =
      some (.bool ((((kwargsOf ps).map (·.2)).map Comp.isScalar).all id)) := by
  unfold allScalarT
  rw [evalD_app C _ [] _ _ _ rfl rfl]
  simp only [evalArgsD_cons, evalArgsD_nil]
  rw [evalD_app C _ [] _ _ _ rfl rfl]
  simp only [evalArgsD_cons, evalArgsD_nil]
  rw [evalD_app C _ [] _ _ _ rfl rfl]
  simp only [evalArgsD_cons, evalArgsD_nil, eval_kwargs C xv ps (names_ne_x ps hn) (KeysIn.nil _), evalD_sym,
    lookupD_replEnv_free xv ps hn "util.is_scalar" (by decide), Option.bind_some, Option.map_some, applyD_values,
    applyD_map C _ _ rfl, applyD_all]

theorem allScalar_isSome (d : List (String × Comp γ)) :
    (allScalar d).isSome = ((d.map (·.2)).map Comp.isScalar).all id := by
  induction d with
  | nil => rfl
  | cons p d ih =>
    obtain ⟨k, c⟩ := p
    cases c with
    | scalar v =>
      simp only [allScalar, List.map_cons, Comp.isScalar, List.all_cons, id, Bool.true_and, ← ih]
      cases allScalar d <;> rfl
    | vector vs => simp [allScalar, Comp.isScalar]

end repl

/-! ### `replace` with scalar components -/

/-- `_pull_datetime` as called by `replace`. -/
def replInner (repl : ε → List (String × γ) → Option ε) : DCtx ε ε γ :=
  { std := ".replace", f := repl, ceilDiv := fun r _ => r, calls := noCallsD }

/-- the context of `replace`: `y.replace(**kw)` denotes `repl y kw`; `_pull_datetime` is the regenerated one (which calls
    itself on a scalar). -/
def replCtx (repl : ε → List (String × γ) → Option ε) : DCtx ε ε γ :=
  { std := ".replace", f := repl, ceilDiv := fun r _ => r,
    calls := fun g => if g = "_pull_datetime" then
      some (runFnD (pdSelfCtx (replInner repl)) dt_pull_datetime_signature dt_pull_datetime) else none }

theorem replace_scalar_run (repl : ε → List (String × γ) → Option ε) (xs : List (Option ε))
    (ps : List (String × Option (Comp γ))) (hn : ∀ p ∈ ps, p.1 ∈ compNames) (kw : List (String × γ))
    (hsc : allScalar (kwargsOf ps) = some kw) (truth : Term → Bool)
    (ht : AgreesD (replCtx repl) (replEnv xs ps) truth) :
    runD (replCtx repl) (replEnv xs ps) (dt_replace truth) = (mapOpt (fun y => repl y kw) xs).map DVal.out := by
  have htest : truth allScalarT = true := by
    rw [ht _ _ (eval_allScalarT (replCtx repl) (.vec xs) ps hn), ← allScalar_isSome, hsc]; rfl
  have hlam : evalD (replCtx repl) (replEnv xs ps) [] (replEnv xs ps) lambdaT = some (.meth kw) := by
    unfold lambdaT
    rw [evalD_lambda _ _ [] _ _ rfl, evalLambdaD, if_pos ⟨rfl, rfl, by decide⟩]
    simp only [evalArgsD_cons, evalArgsD_nil]
    rw [evalD_app _ _ [] _ _ _ rfl rfl]
    simp only [evalArgsD_cons, evalArgsD_nil, eval_kwargs _ (.vec xs) ps (names_ne_x ps hn) (KeysIn.nil _), Option.bind_some,
      Option.map_some, applyD_splat]
    show (kwOf [DVal.dict (kwargsOf ps)]).map DVal.meth = _
    simp only [kwOf, hsc, Option.map_some]
  rw [replace_code, htest, if_pos rfl, runD_ret, execBlockD_nil, Option.bind_some, evalD_app _ _ [] _ _ _ rfl rfl]
  simp only [evalArgsD_cons, evalArgsD_nil, evalD_sym, lookupD_replEnv_x, hlam, Option.bind_some, Option.map_some]
  rw [applyD_calls (replCtx repl) (g := "_pull_datetime") (by decide) rfl]
  exact pull_datetime_run (pdSelfCtx (replInner repl)) xs kw _ (agrees_truthOfD _ _)


/-- **`replace` of a SCALAR `x` with scalar components**: `_pull_datetime(x, lambda y: y.replace(**kw))` on the scalar:
    `repl x kw`, NaT for NaT. -/
theorem replace_scalarx_run (repl : ε → List (String × γ) → Option ε) (x : Option ε)
    (ps : List (String × Option (Comp γ))) (hn : ∀ p ∈ ps, p.1 ∈ compNames) (kw : List (String × γ))
    (hsc : allScalar (kwargsOf ps) = some kw) (truth : Term → Bool)
    (ht : AgreesD (replCtx repl) (replEnvX (.elem x) ps) truth) :
    runD (replCtx repl) (replEnvX (.elem x) ps) (dt_replace truth) = scalarRes (fun y => repl y kw) x := by
  have htest : truth allScalarT = true := by
    rw [ht _ _ (eval_allScalarT (replCtx repl) (.elem x) ps hn), ← allScalar_isSome, hsc]; rfl
  have hlam : evalD (replCtx repl) (replEnvX (.elem x) ps) [] (replEnvX (.elem x) ps) lambdaT = some (.meth kw) := by
    unfold lambdaT
    rw [evalD_lambda _ _ [] _ _ rfl, evalLambdaD, if_pos ⟨rfl, rfl, by decide⟩]
    simp only [evalArgsD_cons, evalArgsD_nil]
    rw [evalD_app _ _ [] _ _ _ rfl rfl]
    simp only [evalArgsD_cons, evalArgsD_nil, eval_kwargs _ (.elem x) ps (names_ne_x ps hn) (KeysIn.nil _), Option.bind_some,
      Option.map_some, applyD_splat]
    show (kwOf [DVal.dict (kwargsOf ps)]).map DVal.meth = _
    simp only [kwOf, hsc, Option.map_some]
  rw [replace_code, htest, if_pos rfl, runD_ret, execBlockD_nil, Option.bind_some, evalD_app _ _ [] _ _ _ rfl rfl]
  simp only [evalArgsD_cons, evalArgsD_nil, evalD_sym, lookupD_replEnvX_x, hlam, Option.bind_some, Option.map_some]
  rw [applyD_calls (replCtx repl) (g := "_pull_datetime") (by decide) rfl]
  exact pull_datetime_scalar_run (replInner repl) x kw _ (agrees_truthOfD _ _)

/-! ### `new` -/

/-- the context of `new`: `np.datetime64(s)` denotes `mk s` (`none` = NumPy rejects the value). -/
def newCtx (mk : ε → Option ρ) : DCtx ε ρ γ :=
  { std := "np.datetime64", f := fun y _ => mk y, ceilDiv := fun r _ => r, calls := noCallsD }

/-- **`new`** on a sequence: `np.datetime64` of every non-missing element, NaT for `None` / the blank string — NO mask and
    no `_pull`: `Vector.fast(map(np.datetime64, x), np.datetime64)`; ValueError as soon as one element is rejected. -/
theorem new_run (mk : ε → Option ρ) (xs : List (Option ε)) (truth : Term → Bool)
    (ht : AgreesD (newCtx mk : DCtx ε ρ γ) [("x", .vec xs)] truth) :
    runD (newCtx mk : DCtx ε ρ γ) [("x", .vec xs)] (dt_new truth) = (mapOpt mk xs).map DVal.out := by
  have h1 : truth (Term.app "util.is_scalar" [Term.sym "x"]) = false := ht _ _ rfl
  have hmap : evalD (newCtx mk : DCtx ε ρ γ) [("x", .vec xs)] [] [("x", .vec xs)]
      (Term.app "map" [Term.sym "np.datetime64", Term.sym "x"]) = (mapOpt mk xs).map DVal.out := rfl
  unfold dt_new
  rw [h1]
  simp only [Bool.false_eq_true, if_false]
  rw [runD_ret, execBlockD_nil, Option.bind_some, evalD_app _ _ [] _ _ _ rfl rfl]
  simp only [evalArgsD_cons, evalArgsD_nil, hmap, evalD_sym]
  cases mapOpt mk xs <;> rfl

/-- … on a (non-missing) scalar: `np.datetime64(x)`. -/
theorem new_scalar_run (mk : ε → Option ρ) (y : ε) (truth : Term → Bool)
    (ht : AgreesD (newCtx mk : DCtx ε ρ γ) [("x", .elem (some y))] truth) :
    runD (newCtx mk : DCtx ε ρ γ) [("x", .elem (some y))] (dt_new truth) = (mk y).map (fun v => .res (some v)) := by
  have h1 : truth (Term.app "util.is_scalar" [Term.sym "x"]) = true := ht _ _ rfl
  unfold dt_new
  rw [h1]
  rfl

/-! ### `replace` with vector components: the comprehensions -/

theorem lookup_of_nodup {β : Type} (d : List (String × β)) (hnd : (d.map (·.1)).Nodup) : ∀ p ∈ d, d.lookup p.1 = some p.2 := by
  induction d with
  | nil => intro p hp; cases hp
  | cons q d ih =>
    obtain ⟨a, b⟩ := q
    simp only [List.map_cons, List.nodup_cons] at hnd
    intro p hp
    rcases List.mem_cons.mp hp with rfl | hp
    · simp [List.lookup]
    · have hne : (p.1 == a) = false := by
        have : p.1 ≠ a := fun e => hnd.1 (e ▸ List.mem_map.mpr ⟨p, hp, rfl⟩)
        simpa using this
      simp only [List.lookup, hne]
      exact ih hnd.2 p hp

theorem eq_of_key_eq {β : Type} (d : List (String × β)) (hnd : (d.map (·.1)).Nodup) (p q : String × β) (hp : p ∈ d)
    (hq : q ∈ d) (h : p.1 = q.1) : p = q := by
  have h1 := lookup_of_nodup d hnd p hp
  have h2 := lookup_of_nodup d hnd q hq
  rw [h] at h1
  have : p.2 = q.2 := Option.some.inj (h1.symm.trans h2)
  exact Prod.ext h this

theorem kwargsOf_keys_sublist (ps : List (String × Option (Comp γ))) :
    ((kwargsOf ps).map (·.1)).Sublist (ps.map (·.1)) := by
  induction ps with
  | nil => exact List.Sublist.slnil
  | cons p ps ih =>
    obtain ⟨n, a⟩ := p
    cases a with
    | none => exact List.Sublist.cons _ ih
    | some c => exact List.Sublist.cons_cons _ ih

theorem kwargsOf_nodup (ps : List (String × Option (Comp γ))) (hnd : (ps.map (·.1)).Nodup) :
    ((kwargsOf ps).map (·.1)).Nodup := hnd.sublist (kwargsOf_keys_sublist ps)

theorem collect_filter {α β δ : Type} (F : List δ → Option (Option β)) (l : List α) (item : α → List δ)
    (c : α → Bool) (r : α → β) (hF : ∀ p ∈ l, F (item p) = some (if c p then some (r p) else none)) :
    collectD F (l.map item) = some ((l.filter c).map r) := by
  induction l with
  | nil => rfl
  | cons a l ih =>
    have ih' := ih (fun p hp => hF p (List.mem_cons_of_mem _ hp))
    have ha := hF a List.mem_cons_self
    cases hc : c a
    · simp only [List.map_cons, collectD, ha, hc, Bool.false_eq_true, if_false, ih', List.filter_cons]
    · simp only [List.map_cons, collectD, ha, hc, if_true, ih', List.filter_cons, Option.map_some]

theorem sk_contains (d : List (String × Comp γ)) (hnd : (d.map (·.1)).Nodup) (p : String × Comp γ) (hp : p ∈ d) :
    ((d.filter (fun q => q.2.isScalar)).map (·.1)).contains p.1 = p.2.isScalar := by
  cases hs : p.2.isScalar
  · rw [Bool.eq_false_iff]
    intro hc
    obtain ⟨q, hq, hqk⟩ := List.mem_map.mp (List.contains_iff_mem.mp hc)
    have hq' := List.mem_filter.mp hq
    have := eq_of_key_eq d hnd q p hq'.1 hp hqk
    rw [this, hs] at hq'
    exact absurd hq'.2 (by decide)
  · exact List.contains_iff_mem.mpr (List.mem_map.mpr ⟨p, List.mem_filter.mpr ⟨hp, hs⟩, rfl⟩)

section replVec
variable (C : DCtx ε ρ γ) (xs : List (Option ε)) (ps : List (String × Option (Comp γ)))

theorem eval_sk (hn : ∀ p ∈ ps, p.1 ∈ compNames) (hnd : (ps.map (·.1)).Nodup) {σ : DStore ε ρ γ}
    (hσ : KeysIn replKeys σ) (env : DEnv ε ρ γ) :
    evalD C (replEnv xs ps) σ env skT = some (.keys (((kwargsOf ps).filter (fun p => p.2.isScalar)).map (·.1))) := by
  unfold skT
  rw [evalD_listcomp C _ σ _ _ (findD_none hσ (by decide)), evalListCompD]
  simp only [eval_kwargs C (.vec xs) ps (names_ne_x ps hn) hσ env, iterItems]
  rw [collect_filter _ (kwargsOf ps) (fun p => [DVal.str p.1]) (fun p => p.2.isScalar) (fun p => p.1)]
  · rfl
  · intro p hp
    have hb : bindTarget (Term.sym "x") [(DVal.str p.1 : DVal ε ρ γ)] = some [("x", .str p.1)] := rfl
    simp only [hb, evalArgsD_cons, evalArgsD_nil, List.cons_append, List.nil_append]
    rw [evalD_app C _ σ _ _ _ (findD_none hσ (by decide)) rfl]
    simp only [evalArgsD_cons, evalArgsD_nil]
    rw [evalD_app C _ σ _ _ _ (findD_none hσ (by decide)) rfl]
    simp only [evalArgsD_cons, evalArgsD_nil, eval_kwargs C (.vec xs) ps (names_ne_x ps hn) hσ, evalD_sym, lookupD_x,
      Option.bind_some, Option.map_some, applyD_getitem_dict, lookup_of_nodup _ (kwargsOf_nodup ps hnd) p hp,
      applyD_is_scalar_comp, allTrue, Bool.and_true, keyEntry]
    cases p.2.isScalar <;> rfl

theorem eval_vk (hn : ∀ p ∈ ps, p.1 ∈ compNames) (hnd : (ps.map (·.1)).Nodup) {σ : DStore ε ρ γ}
    (hσ : KeysIn replKeys σ) (env : DEnv ε ρ γ) :
    evalD C (replEnv xs ps) σ env vkT = some (.keys (((kwargsOf ps).filter (fun p => !p.2.isScalar)).map (·.1))) := by
  unfold vkT
  rw [evalD_listcomp C _ σ _ _ (findD_none hσ (by decide)), evalListCompD]
  simp only [eval_kwargs C (.vec xs) ps (names_ne_x ps hn) hσ env, iterItems]
  rw [collect_filter _ (kwargsOf ps) (fun p => [DVal.str p.1]) (fun p => !p.2.isScalar) (fun p => p.1)]
  · rfl
  · intro p hp
    have hb : bindTarget (Term.sym "x") [(DVal.str p.1 : DVal ε ρ γ)] = some [("x", .str p.1)] := rfl
    simp only [hb, evalArgsD_cons, evalArgsD_nil, List.cons_append, List.nil_append]
    rw [evalD_app C _ σ _ _ _ (findD_none hσ (by decide)) rfl]
    simp only [evalArgsD_cons, evalArgsD_nil, eval_sk C xs ps hn hnd hσ, evalD_sym, lookupD_x,
      Option.bind_some, Option.map_some, applyD_NotIn, sk_contains _ (kwargsOf_nodup ps hnd) p hp,
      allTrue, Bool.and_true, keyEntry]
    cases p.2.isScalar <;> rfl

/-- `kwargs_scalar` before the first write: the scalar components. -/
theorem eval_ks0 (hn : ∀ p ∈ ps, p.1 ∈ compNames) (hnd : (ps.map (·.1)).Nodup) {σ : DStore ε ρ γ}
    (hσ : KeysIn replKeys σ) (hfind : σ.find ksT = none) (env : DEnv ε ρ γ) :
    evalD C (replEnv xs ps) σ env ksT = some (.dict ((kwargsOf ps).filter (fun p => p.2.isScalar))) := by
  unfold ksT
  unfold ksT at hfind
  rw [evalD_dictcomp C _ σ _ _ hfind, evalDictCompD]
  simp only [eval_sk C xs ps hn hnd hσ env, iterItems, List.map_map]
  have := collect_filter
    (fun item => match bindTarget (Term.sym "x") item with
      | none => none
      | some b =>
        match (evalArgsD C (replEnv xs ps) σ (b ++ env) []).bind allTrue with
        | none => none
        | some false => some none
        | some true =>
          Option.map some (dictEntry (evalD C (replEnv xs ps) σ (b ++ env) (Term.sym "x"))
            (evalD C (replEnv xs ps) σ (b ++ env) (Term.app "getitem" [kwargsT, Term.sym "x"]))))
    ((kwargsOf ps).filter (fun p => p.2.isScalar)) (fun p => [(DVal.str p.1 : DVal ε ρ γ)]) (fun _ => true) id ?_
  · have hft : ∀ l : List (String × Comp γ), l.filter (fun _ => true) = l := by
      intro l; induction l <;> simp_all
    rw [hft, List.map_id] at this
    exact congrArg (Option.map DVal.dict) this
  · intro p hp
    have hp' : p ∈ kwargsOf ps := (List.mem_filter.mp hp).1
    have hb : bindTarget (Term.sym "x") [(DVal.str p.1 : DVal ε ρ γ)] = some [("x", .str p.1)] := rfl
    simp only [hb, evalArgsD_nil, List.cons_append, List.nil_append, Option.bind_some, allTrue, if_true]
    rw [evalD_app C _ σ _ _ _ (findD_none hσ (by decide)) rfl]
    simp only [evalArgsD_cons, evalArgsD_nil, eval_kwargs C (.vec xs) ps (names_ne_x ps hn) hσ, evalD_sym, lookupD_x,
      Option.bind_some, Option.map_some, applyD_getitem_dict, lookup_of_nodup _ (kwargsOf_nodup ps hnd) p hp',
      dictEntry, valComp_compVal, id]

end replVec

/-! ### `replace` with vector components: the length check -/

/-- a scalar, or a vector with one value per element. -/
def lenOk (n : Nat) : Comp γ → Bool
  | .scalar _ => true
  | .vector vs => vs.length == n

section lenCheck
variable (C : DCtx ε ρ γ) (xs : List (Option ε)) (ps : List (String × Option (Comp γ)))

theorem lenCheck_loop (cs : List (Comp γ)) :
    loopD (fun (σ' : DStore ε ρ γ) item =>
        match bindTarget (Term.sym "value") item with
        | none => none
        | some b => execBlockD C (replEnv xs ps) (b ++ replEnv xs ps)
            [Term.app "assert" [Term.app "Or" [Term.app "util.is_scalar" [Term.sym "value"],
              Term.app "Eq" [Term.app "len" [Term.sym "value"], Term.app "len" [Term.sym "x"]]]]] σ')
      [] (cs.map (fun c => [compVal c])) = if cs.all (lenOk xs.length) then some [] else none := by
  induction cs with
  | nil => rfl
  | cons c cs ih =>
    have hb : bindTarget (Term.sym "value") [(compVal c : DVal ε ρ γ)] = some [("value", compVal c)] := rfl
    have h1 : evalD C (replEnv xs ps) [] (("value", compVal c) :: replEnv xs ps)
        (Term.app "util.is_scalar" [Term.sym "value"]) = some (.bool c.isScalar) := by
      rw [evalD_app C _ [] _ _ _ rfl rfl]
      simp only [evalArgsD_cons, evalArgsD_nil, evalD_sym, lookupD_value, Option.bind_some, Option.map_some,
        applyD_is_scalar_comp]
    have hstep : execBlockD C (replEnv xs ps) ([("value", compVal c)] ++ replEnv xs ps)
        [Term.app "assert" [Term.app "Or" [Term.app "util.is_scalar" [Term.sym "value"],
          Term.app "Eq" [Term.app "len" [Term.sym "value"], Term.app "len" [Term.sym "x"]]]]] [] =
        if lenOk xs.length c then some [] else none := by
      rw [execBlockD_cons, execD, evalD_or C _ [] _ _ rfl, evalOrD]
      simp only [List.cons_append, List.nil_append, h1]
      cases c with
      | scalar v => rfl
      | vector vs =>
        have h2 : evalD C (replEnv xs ps) [] (("value", compVal (Comp.vector vs)) :: replEnv xs ps)
            (Term.app "Eq" [Term.app "len" [Term.sym "value"], Term.app "len" [Term.sym "x"]]) =
            some (.bool (vs.length == xs.length)) := by
          rw [evalD_app C _ [] _ _ _ rfl rfl]
          simp only [evalArgsD_cons, evalArgsD_nil]
          rw [evalD_app C _ [] _ _ _ rfl rfl, evalD_app C _ [] _ _ _ rfl rfl]
          simp only [evalArgsD_cons, evalArgsD_nil, evalD_sym, lookupD_value,
            lookupD_cons_ne _ "value" "x" _ (by decide), lookupD_replEnv_x, Option.bind_some, Option.map_some]
          rfl
        simp only [Comp.isScalar, h2, lenOk]
        rcases Bool.eq_false_or_eq_true (vs.length == xs.length) with h | h <;> simp [h, execBlockD_nil]
    simp only [List.map_cons, loopD, hb, hstep, List.all_cons]
    rcases Bool.eq_false_or_eq_true (lenOk xs.length c) with h | h
    · simp only [h, if_true, Bool.true_and]; exact ih
    · simp only [h, Bool.false_eq_true, if_false, Bool.false_and]

/-- the loop of assertions: passes iff every vector component has the length of `x` (else AssertionError). -/
theorem lenCheck_run (hn : ∀ p ∈ ps, p.1 ∈ compNames) :
    execD C (replEnv xs ps) (replEnv xs ps) lenCheckT [] =
      if (kwargsOf ps).all (fun p => lenOk xs.length p.2) then some [] else none := by
  have hv : evalD C (replEnv xs ps) [] (replEnv xs ps) (Term.app ".values" [kwargsT]) =
      some (.comps ((kwargsOf ps).map (·.2))) := by
    rw [evalD_app C _ [] _ _ _ rfl rfl]
    simp only [evalArgsD_cons, evalArgsD_nil, eval_kwargs C (.vec xs) ps (names_ne_x ps hn) (KeysIn.nil _), Option.bind_some,
      Option.map_some, applyD_values]
  unfold lenCheckT
  rw [execD]
  simp only [hv, iterItems, List.map_map]
  have := lenCheck_loop C xs ps ((kwargsOf ps).map (·.2))
  simp only [List.map_map, List.all_map] at this
  exact this

end lenCheck

/-! ### `d[k] = v` -/

theorem dictSet_new (D : List (String × Comp γ)) (k : String) (c : Comp γ) (h : k ∉ D.map (·.1)) :
    dictSet D k c = D ++ [(k, c)] := by
  unfold dictSet
  have : D.any (fun p => p.1 == k) = false := by
    rw [Bool.eq_false_iff]
    intro ha
    obtain ⟨p, hp, hpk⟩ := List.any_eq_true.mp ha
    exact h (List.mem_map.mpr ⟨p, hp, by simpa using hpk⟩)
  rw [this]; rfl

theorem dictSet_mid (S V : List (String × Comp γ)) (k : String) (c' c : Comp γ) (hS : k ∉ S.map (·.1))
    (hV : k ∉ V.map (·.1)) : dictSet (S ++ (k, c') :: V) k c = S ++ (k, c) :: V := by
  unfold dictSet
  have hany : (S ++ (k, c') :: V).any (fun p => p.1 == k) = true := by simp
  rw [hany, if_pos rfl]
  have hid : ∀ L : List (String × Comp γ), k ∉ L.map (·.1) →
      L.map (fun p => if (p.1 == k) = true then (k, c) else p) = L := by
    intro L hL
    induction L with
    | nil => rfl
    | cons q L ih =>
      simp only [List.map_cons, List.mem_cons, not_or] at hL
      have hq : (q.1 == k) = false := by simpa using fun e => hL.1 e.symm
      simp only [List.map_cons, hq, Bool.false_eq_true, if_false, ih hL.2]
  simp only [List.map_append, List.map_cons, hid S hS, hid V hV, beq_self_eq_true, if_true]

/-- the writes of one iteration `i`: `kwargs_scalar[key] = kwargs[key][i]` for a vector entry. -/
def setAt (i : Nat) (D : List (String × Comp γ)) (p : String × Comp γ) : List (String × Comp γ) :=
  match p.2 with
  | .vector vs => (match vs[i]? with
    | some v => dictSet D p.1 (.scalar v)
    | none => D)
  | .scalar _ => D

/-- the entries the vector components contribute at position `i`. -/
def vecEntries (i : Nat) (L : List (String × Comp γ)) : List (String × Comp γ) :=
  L.filterMap (fun p => match p.2 with
    | .vector vs => vs[i]?.map (fun v => (p.1, Comp.scalar v))
    | .scalar _ => none)

/-- `L` consists of vector entries that have a value at position `i`. -/
def HasAt (i : Nat) (L : List (String × Comp γ)) : Prop := ∀ p ∈ L, ∃ vs v, p.2 = .vector vs ∧ vs[i]? = some v

theorem vecEntries_keys (i : Nat) (L : List (String × Comp γ)) (h : HasAt i L) : (vecEntries i L).map (·.1) = L.map (·.1) := by
  induction L with
  | nil => rfl
  | cons p L ih =>
    obtain ⟨vs, v, h1, h2⟩ := h p List.mem_cons_self
    have ih' := ih (fun q hq => h q (List.mem_cons_of_mem _ hq))
    simp only [vecEntries, List.filterMap_cons, h1, h2, Option.map_some, List.map_cons] at ih' ⊢
    rw [ih']

/-- first iteration: the keys are appended, in order. -/
theorem setAt_fold_new (i : Nat) (L S : List (String × Comp γ)) (h : HasAt i L) (hnd : (L.map (·.1)).Nodup)
    (hdis : ∀ k ∈ L.map (·.1), k ∉ S.map (·.1)) : L.foldl (setAt i) S = S ++ vecEntries i L := by
  induction L generalizing S with
  | nil => simp [vecEntries]
  | cons p L ih =>
    obtain ⟨vs, v, h1, h2⟩ := h p List.mem_cons_self
    simp only [List.map_cons, List.nodup_cons] at hnd
    have hp : p.1 ∉ S.map (·.1) := hdis p.1 (by simp)
    have hstep : setAt i S p = S ++ [(p.1, Comp.scalar v)] := by
      simp only [setAt, h1, h2]; exact dictSet_new S p.1 _ hp
    rw [List.foldl_cons, hstep, ih (S ++ [(p.1, Comp.scalar v)]) (fun q hq => h q (List.mem_cons_of_mem _ hq)) hnd.2]
    · simp only [vecEntries, List.filterMap_cons, h1, h2, Option.map_some, List.append_assoc, List.singleton_append]
    · intro k hk
      simp only [List.map_append, List.map_cons, List.map_nil, List.mem_append, List.mem_singleton, not_or]
      exact ⟨hdis k (List.mem_cons_of_mem _ hk), fun e => hnd.1 (e ▸ hk)⟩

/-- later iterations: the same keys are overwritten in place. -/
theorem setAt_fold_over (i : Nat) (L S V : List (String × Comp γ)) (h : HasAt i L) (hnd : (L.map (·.1)).Nodup)
    (hdis : ∀ k ∈ L.map (·.1), k ∉ S.map (·.1)) (hV : V.map (·.1) = L.map (·.1)) :
    L.foldl (setAt i) (S ++ V) = S ++ vecEntries i L := by
  induction L generalizing S V with
  | nil =>
    have : V = [] := by simpa using hV
    subst this; simp [vecEntries]
  | cons p L ih =>
    obtain ⟨vs, v, h1, h2⟩ := h p List.mem_cons_self
    simp only [List.map_cons, List.nodup_cons] at hnd
    cases V with
    | nil => simp at hV
    | cons q V =>
      simp only [List.map_cons, List.cons.injEq] at hV
      obtain ⟨hq, hV'⟩ := hV
      have hp : p.1 ∉ S.map (·.1) := hdis p.1 (by simp)
      have hstep : setAt i (S ++ q :: V) p = (S ++ [(p.1, Comp.scalar v)]) ++ V := by
        simp only [setAt, h1, h2]
        have : q = (p.1, q.2) := Prod.ext hq rfl
        rw [this, dictSet_mid S V p.1 q.2 _ hp (by rw [hV']; exact hnd.1)]
        simp
      rw [List.foldl_cons, hstep, ih (S ++ [(p.1, Comp.scalar v)]) V (fun r hr => h r (List.mem_cons_of_mem _ hr)) hnd.2 _ hV']
      · simp only [vecEntries, List.filterMap_cons, h1, h2, Option.map_some, List.append_assoc, List.singleton_append]
      · intro k hk
        simp only [List.map_append, List.map_cons, List.map_nil, List.mem_append, List.mem_singleton, not_or]
        exact ⟨hdis k (List.mem_cons_of_mem _ hk), fun e => hnd.1 (e ▸ hk)⟩

/-! ### `replace` with vector components: the loops -/

/-- the current contents of `kwargs_scalar` (`S` before the first write). -/
def ksCur (S : List (String × Comp γ)) (σ : DStore ε ρ γ) : Option (List (String × Comp γ)) :=
  match σ.find ksT with
  | some (.dict D) => some D
  | some _ => none
  | none => some S

/-- the current contents of `out` (`l0` before the first write). -/
def outCur (l0 : List (Option ρ)) (σ : DStore ε ρ γ) : Option (List (Option ρ)) :=
  match σ.find outDT with
  | some (.out l) => some l
  | some _ => none
  | none => some l0

section replLoops
variable (C : DCtx ε ρ γ) (xs : List (Option ε)) (ps : List (String × Option (Comp γ)))
  (hn : ∀ p ∈ ps, p.1 ∈ compNames) (hnd : (ps.map (·.1)).Nodup)

/-- the scalar entries of `kwargs`. -/
def dS (ps : List (String × Option (Comp γ))) : List (String × Comp γ) := (kwargsOf ps).filter (fun p => p.2.isScalar)
/-- the vector entries of `kwargs`. -/
def dV (ps : List (String × Option (Comp γ))) : List (String × Comp γ) := (kwargsOf ps).filter (fun p => !p.2.isScalar)

include hn hnd in
theorem eval_ks {σ : DStore ε ρ γ} (hσ : KeysIn replKeys σ) {Dc : List (String × Comp γ)}
    (h : ksCur (dS ps) σ = some Dc) (env : DEnv ε ρ γ) :
    evalD C (replEnv xs ps) σ env ksT = some (.dict Dc) := by
  unfold ksCur at h
  cases hf : σ.find ksT with
  | none =>
    rw [hf] at h
    simp only [Option.some.injEq] at h
    subst h
    exact eval_ks0 C xs ps hn hnd hσ hf env
  | some v =>
    rw [hf] at h
    cases v <;> simp at h
    subst h
    exact evalD_found C _ σ env _ _ _ hf

omit hnd in
theorem eval_out {σ : DStore ε ρ γ} (hσ : KeysIn replKeys σ) {l : List (Option ρ)}
    (h : outCur (xs.map (fun _ => none)) σ = some l) (env : DEnv ε ρ γ)
    (hx : lookupD env "x" = .vec xs) (hd : lookupD env "np.datetime64" = .opaque "np.datetime64") :
    evalD C (replEnv xs ps) σ env outDT = some (.out l) := by
  unfold outCur at h
  cases hf : σ.find outDT with
  | none =>
    rw [hf] at h
    simp only [Option.some.injEq] at h
    subst h
    unfold outDT
    unfold outDT at hf
    rw [evalD_app C _ σ _ _ _ hf rfl]
    simp only [evalArgsD_cons, evalArgsD_nil]
    rw [evalD_app C _ σ _ _ _ (findD_none hσ (by decide)) rfl]
    simp only [evalArgsD_cons, evalArgsD_nil, evalD_sym, hx, hd, Option.bind_some, Option.map_some]
    rfl
  | some v =>
    rw [hf] at h
    cases v <;> simp at h
    subst h
    exact evalD_found C _ σ env _ _ _ hf

/-- the environment of iteration `j`. -/
def envI (xs : List (Option ε)) (ps : List (String × Option (Comp γ))) (j : Nat) : DEnv ε ρ γ :=
  ("i", .nat j) :: replEnv xs ps

include hn hnd in
/-- `kwargs_scalar[key] = kwargs[key][i]` for one vector entry. -/
theorem ksStore_step {σ : DStore ε ρ γ} (hσ : KeysIn replKeys σ) (j : Nat) (p : String × Comp γ) (hp : p ∈ kwargsOf ps)
    (vs : List γ) (v : γ) (h1 : p.2 = .vector vs) (h2 : vs[j]? = some v) {Dc : List (String × Comp γ)}
    (hks : ksCur (dS ps) σ = some Dc) :
    execBlockD C (replEnv xs ps) ([("key", .str p.1)] ++ envI xs ps j) [ksStoreT] σ =
      some ((ksT, .dict (setAt j Dc p)) :: σ) := by
  have hset : setAt j Dc p = dictSet Dc p.1 (.scalar v) := by simp only [setAt, h1, h2]
  have he : evalD C (replEnv xs ps) σ (("key", DVal.str p.1) :: envI xs ps j)
      (Term.app "getitem" [Term.app "getitem" [kwargsT, Term.sym "key"], Term.sym "i"]) = some (.comp v) := by
    rw [evalD_app C _ σ _ _ _ (findD_none hσ (by decide)) rfl]
    simp only [evalArgsD_cons, evalArgsD_nil]
    rw [evalD_app C _ σ _ _ _ (findD_none hσ (by decide)) rfl]
    simp only [evalArgsD_cons, evalArgsD_nil, eval_kwargs C (.vec xs) ps (names_ne_x ps hn) hσ, evalD_sym, lookupD_key,
      envI, lookupD_cons_ne _ "key" "i" _ (by decide), lookupD_i, Option.bind_some, Option.map_some,
      applyD_getitem_dict, lookup_of_nodup _ (kwargsOf_nodup ps hnd) p hp, h1, compVal, applyD_getitem_cvec, h2]
  rw [execBlockD_cons]
  unfold ksStoreT
  rw [execD]
  simp only [List.cons_append, List.nil_append, he, eval_ks C xs ps hn hnd hσ hks, evalD_sym, lookupD_key, assignD,
    valComp, Option.map_some, Option.bind_some, execBlockD_nil, hset]

theorem ksCur_cons_ks (S D : List (String × Comp γ)) (σ : DStore ε ρ γ) :
    ksCur S ((ksT, (.dict D : DVal ε ρ γ)) :: σ) = some D := by
  unfold ksCur; rw [findD_cons_self]

theorem find_out_cons_ks (v : DVal ε ρ γ) (σ : DStore ε ρ γ) :
    DStore.find ((ksT, v) :: σ) outDT = σ.find outDT := findD_cons_ne _ _ _ _ (by decide)

theorem ksCur_cons_out (S : List (String × Comp γ)) (v : DVal ε ρ γ) (σ : DStore ε ρ γ) :
    ksCur S ((outDT, v) :: σ) = ksCur S σ := by
  unfold ksCur; rw [findD_cons_ne _ _ _ _ (by decide)]

theorem outCur_cons_out (l0 l : List (Option ρ)) (σ : DStore ε ρ γ) :
    outCur l0 ((outDT, (.out l : DVal ε ρ γ)) :: σ) = some l := by
  unfold outCur; rw [findD_cons_self]

include hn hnd in
/-- `for key in vector_keys: kwargs_scalar[key] = kwargs[key][i]`. -/
theorem inner_loop (j : Nat) (L : List (String × Comp γ)) (hL : ∀ p ∈ L, p ∈ kwargsOf ps) (hat : HasAt j L)
    {σ : DStore ε ρ γ} (hσ : KeysIn replKeys σ) {Dc : List (String × Comp γ)} (hks : ksCur (dS ps) σ = some Dc) :
    ∃ σ', loopD (fun (σ' : DStore ε ρ γ) item =>
        match bindTarget (Term.sym "key") item with
        | none => none
        | some b => execBlockD C (replEnv xs ps) (b ++ envI xs ps j) [ksStoreT] σ') σ (L.map (fun p => [DVal.str p.1])) =
        some σ' ∧ KeysIn replKeys σ' ∧ σ'.find outDT = σ.find outDT ∧
        ksCur (dS ps) σ' = some (L.foldl (setAt j) Dc) := by
  induction L generalizing σ Dc with
  | nil => exact ⟨σ, rfl, hσ, rfl, hks⟩
  | cons p L ih =>
    obtain ⟨vs, v, h1, h2⟩ := hat p List.mem_cons_self
    have hstep := ksStore_step C xs ps hn hnd hσ j p (hL p List.mem_cons_self) vs v h1 h2 hks
    have hσ' : KeysIn replKeys ((ksT, (.dict (setAt j Dc p) : DVal ε ρ γ)) :: σ) := hσ.cons (by simp [replKeys]) _
    obtain ⟨σ'', e1, e2, e3, e4⟩ := ih (fun q hq => hL q (List.mem_cons_of_mem _ hq))
      (fun q hq => hat q (List.mem_cons_of_mem _ hq)) hσ' (ksCur_cons_ks _ _ _)
    refine ⟨σ'', ?_, e2, ?_, ?_⟩
    · have hb : bindTarget (Term.sym "key") [(DVal.str p.1 : DVal ε ρ γ)] = some [("key", .str p.1)] := rfl
      simp only [List.map_cons, loopD, hb, hstep]
      exact e1
    · rw [e3, find_out_cons_ks]
    · rw [e4]; rfl

/-- the scalar values of a dict. -/
def scalarsOf (D : List (String × Comp γ)) : List (String × γ) :=
  D.filterMap (fun p => match p.2 with
    | .scalar v => some (p.1, v)
    | .vector _ => none)

omit hn hnd in
theorem allScalar_of_all (D : List (String × Comp γ)) (h : ∀ p ∈ D, p.2.isScalar = true) :
    allScalar D = some (scalarsOf D) := by
  induction D with
  | nil => rfl
  | cons p D ih =>
    obtain ⟨k, c⟩ := p
    have ih' := ih (fun q hq => h q (List.mem_cons_of_mem _ hq))
    cases c with
    | scalar v => simp [allScalar, ih', scalarsOf]
    | vector vs => have := h (k, .vector vs) List.mem_cons_self; simp [Comp.isScalar] at this

omit hn hnd in
theorem vecEntries_scalar (j : Nat) (L : List (String × Comp γ)) : ∀ p ∈ vecEntries j L, p.2.isScalar = true := by
  intro p hp
  simp only [vecEntries, List.mem_filterMap] at hp
  obtain ⟨q, _, hq⟩ := hp
  cases hq2 : q.2 with
  | scalar v => simp [hq2] at hq
  | vector vs =>
    simp only [hq2, Option.map_eq_some_iff] at hq
    obtain ⟨v, _, rfl⟩ := hq
    rfl

/-- the keywords of the call at position `j`: the scalar components, then the `j`-th value of every vector component. -/
def kwAt (ps : List (String × Option (Comp γ))) (j : Nat) : List (String × γ) :=
  scalarsOf (dS ps ++ vecEntries j (dV ps))

omit hn hnd in
theorem allScalar_kwAt (j : Nat) : allScalar (dS ps ++ vecEntries j (dV ps)) = some (kwAt ps j) := by
  apply allScalar_of_all
  intro p hp
  rcases List.mem_append.mp hp with h | h
  · exact (List.mem_filter.mp h).2
  · exact vecEntries_scalar j _ p h

omit hn in
include hnd in
theorem dV_nodup : ((dV ps).map (·.1)).Nodup :=
  (kwargsOf_nodup ps hnd).sublist (List.Sublist.map _ List.filter_sublist)

omit hn in
include hnd in
theorem dV_dS_disjoint : ∀ k ∈ (dV ps).map (·.1), k ∉ (dS ps).map (·.1) := by
  intro k hk hk'
  obtain ⟨p, hp, rfl⟩ := List.mem_map.mp hk
  obtain ⟨q, hq, hqk⟩ := List.mem_map.mp hk'
  have hp' := List.mem_filter.mp hp
  have hq' := List.mem_filter.mp hq
  have := eq_of_key_eq _ (kwargsOf_nodup ps hnd) q p hq'.1 hp'.1 hqk
  rw [this] at hq'
  have h1 := hp'.2
  rw [hq'.2] at h1
  exact absurd h1 (by decide)

omit hn in
include hnd in
theorem setAt_fold (j : Nat) (hat : HasAt j (dV ps)) (V' : List (String × Comp γ))
    (hV : V' = [] ∨ V'.map (·.1) = (dV ps).map (·.1)) :
    (dV ps).foldl (setAt j) (dS ps ++ V') = dS ps ++ vecEntries j (dV ps) := by
  rcases hV with rfl | hV
  · rw [List.append_nil]
    exact setAt_fold_new j _ _ hat (dV_nodup ps hnd) (dV_dS_disjoint ps hnd)
  · exact setAt_fold_over j _ _ _ hat (dV_nodup ps hnd) (dV_dS_disjoint ps hnd) hV

theorem applyD_astype_obj (xs : List (Option ε)) : applyD C ".astype" [.vec xs, .opaque "object"] = some (.vec xs) := rfl

omit hn hnd in
theorem applyD_replace (hstd : C.std = ".replace") (hcalls : C.calls ".replace" = none) (vs : List (DVal ε ρ γ)) :
    applyD C ".replace" vs = stdCall C vs := by
  have h := applyD_std C (by rw [hstd]; rfl) (by rw [hstd]; exact hcalls) vs
  rwa [hstd] at h

include hn hnd in
/-- one iteration of the main loop at a non-missing position `j`. -/
theorem outer_step (hstd : C.std = ".replace") (hcalls : C.calls ".replace" = none) (j : Nat) (y : ε)
    (hj : xs[j]? = some (some y)) (hat : HasAt j (dV ps)) {σ : DStore ε ρ γ} (hσ : KeysIn replKeys σ)
    {l : List (Option ρ)} (hout : outCur (xs.map (fun _ => none)) σ = some l) (hl : l.length = xs.length)
    {V' : List (String × Comp γ)} (hks : ksCur (dS ps) σ = some (dS ps ++ V'))
    (hV : V' = [] ∨ V'.map (·.1) = (dV ps).map (·.1)) :
    match C.f y (kwAt ps j) with
    | none => execBlockD C (replEnv xs ps) ([("i", .nat j)] ++ replEnv xs ps) [innerForT, outStoreT] σ = none
    | some v => ∃ σ', execBlockD C (replEnv xs ps) ([("i", .nat j)] ++ replEnv xs ps) [innerForT, outStoreT] σ = some σ' ∧
        KeysIn replKeys σ' ∧ outCur (xs.map (fun _ => none)) σ' = some (l.set j (some v)) ∧
        ksCur (dS ps) σ' = some (dS ps ++ vecEntries j (dV ps)) := by
  obtain ⟨σ1, e1, e2, e3, e4⟩ := inner_loop C xs ps hn hnd j (dV ps) (fun p hp => (List.mem_filter.mp hp).1) hat hσ hks
  rw [setAt_fold ps hnd j hat V' hV] at e4
  have hinner : execD C (replEnv xs ps) ([("i", .nat j)] ++ replEnv xs ps) innerForT σ = some σ1 := by
    unfold innerForT
    rw [execD]
    simp only [eval_vk C xs ps hn hnd hσ, iterItems, List.map_map]
    exact e1
  have hout1 : outCur (xs.map (fun _ => none)) σ1 = some l := by unfold outCur; rw [e3]; exact hout
  have hjl : j < l.length := by rw [hl]; exact (List.getElem?_eq_some_iff.mp hj).1
  have hx : lookupD (envI xs ps j : DEnv ε ρ γ) "x" = .vec xs := by
    unfold envI; rw [lookupD_cons_ne _ "i" "x" _ (by decide)]; exact lookupD_replEnv_x xs ps
  have hfree : ∀ s, s ∉ "x" :: "'x'" :: (compNames ++ naSyms) → "i" ≠ s → lookupD (envI xs ps j : DEnv ε ρ γ) s = .opaque s := by
    intro s hs hi
    unfold envI; rw [lookupD_cons_ne _ "i" s _ hi]; exact lookupD_replEnv_free (.vec xs) ps hn s hs
  have harg : evalD C (replEnv xs ps) σ1 (envI xs ps j) (Term.app "getitem" [xobjT, Term.sym "i"]) = some (.elem (some y)) := by
    rw [evalD_app C _ σ1 _ _ _ (findD_none e2 (by decide)) rfl]
    simp only [evalArgsD_cons, evalArgsD_nil]
    unfold xobjT
    rw [evalD_app C _ σ1 _ _ _ (findD_none e2 (by decide)) rfl]
    simp only [evalArgsD_cons, evalArgsD_nil, evalD_sym, hx, hfree "object" (by decide) (by decide), Option.bind_some,
      Option.map_some, applyD_astype_obj, applyD_getitem_vecD, hj]
    simp only [envI, lookupD_i, applyD_getitem_vecD, hj, Option.map_some]
  have hkw : evalD C (replEnv xs ps) σ1 (envI xs ps j) (Term.app "=**" [ksT]) =
      some (.dict (dS ps ++ vecEntries j (dV ps))) := by
    rw [evalD_app C _ σ1 _ _ _ (findD_none e2 (by decide)) rfl]
    simp only [evalArgsD_cons, evalArgsD_nil, eval_ks C xs ps hn hnd e2 e4, Option.bind_some, Option.map_some, applyD_splat]
  have he : evalD C (replEnv xs ps) σ1 (envI xs ps j)
      (Term.app ".replace" [Term.app "getitem" [xobjT, Term.sym "i"], Term.app "=**" [ksT]]) =
      (C.f y (kwAt ps j)).map (fun v => .res (some v)) := by
    rw [evalD_app C _ σ1 _ _ _ (findD_none e2 (by decide)) rfl]
    simp only [evalArgsD_cons, evalArgsD_nil, harg, hkw, Option.bind_some, Option.map_some,
      applyD_replace C hstd hcalls, stdCall, kwOf, allScalar_kwAt]
  have hobj := eval_out C xs ps e2 hout1 (envI xs ps j) hx (hfree "np.datetime64" (by decide) (by decide))
  have hix : evalD C (replEnv xs ps) σ1 (envI xs ps j) (Term.sym "i") = some (.nat j) := by
    rw [evalD_sym]; simp only [envI, lookupD_i]
  have hstore : execD C (replEnv xs ps) (envI xs ps j) outStoreT σ1 =
      (C.f y (kwAt ps j)).map (fun v => (outDT, .out (l.set j (some v))) :: σ1) := by
    unfold outStoreT
    rw [execD]
    simp only [he, hobj, hix]
    cases C.f y (kwAt ps j) with
    | none => rfl
    | some v => simp only [Option.map_some, assignD, hjl, if_true]
  have hblock : execBlockD C (replEnv xs ps) ([("i", .nat j)] ++ replEnv xs ps) [innerForT, outStoreT] σ =
      (C.f y (kwAt ps j)).map (fun v => (outDT, .out (l.set j (some v))) :: σ1) := by
    rw [execBlockD_cons, hinner, Option.bind_some, execBlockD_cons]
    show (execD C (replEnv xs ps) (envI xs ps j) outStoreT σ1).bind _ = _
    rw [hstore]
    cases C.f y (kwAt ps j) with
    | none => rfl
    | some v => simp only [Option.map_some, Option.bind_some, execBlockD_nil]
  rw [hblock]
  cases C.f y (kwAt ps j) with
  | none => rfl
  | some v =>
    refine ⟨_, rfl, e2.cons (by simp [replKeys]) _, outCur_cons_out _ _ _, ?_⟩
    rw [ksCur_cons_out]; exact e4

/-- the main loop as a list function: `out[j] = g j xs[j]` over the positions, an exception as soon as `g` fails. -/
def specLoop {α β : Type} (g : Nat → α → Option β) (xs : List (Option α)) : List (Option β) → List Nat → Option (List (Option β))
  | l, [] => some l
  | l, j :: js =>
    match xs[j]? with
    | some (some y) => (match g j y with
      | none => none
      | some v => specLoop g xs (l.set j (some v)) js)
    | _ => none

include hn hnd in
theorem outer_loop (hstd : C.std = ".replace") (hcalls : C.calls ".replace" = none) (idxs : List Nat)
    (hidx : ∀ j ∈ idxs, ∃ y, xs[j]? = some (some y)) (hat : ∀ j ∈ idxs, HasAt j (dV ps))
    {σ : DStore ε ρ γ} (hσ : KeysIn replKeys σ)
    {l : List (Option ρ)} (hout : outCur (xs.map (fun _ => none)) σ = some l) (hl : l.length = xs.length)
    {V' : List (String × Comp γ)} (hks : ksCur (dS ps) σ = some (dS ps ++ V'))
    (hV : V' = [] ∨ V'.map (·.1) = (dV ps).map (·.1)) :
    match specLoop (fun j y => C.f y (kwAt ps j)) xs l idxs with
    | none => loopD (fun (σ' : DStore ε ρ γ) item =>
        match bindTarget (Term.sym "i") item with
        | none => none
        | some b => execBlockD C (replEnv xs ps) (b ++ replEnv xs ps) [innerForT, outStoreT] σ') σ
          (idxs.map (fun k => [DVal.nat k])) = none
    | some l' => ∃ σ', loopD (fun (σ' : DStore ε ρ γ) item =>
        match bindTarget (Term.sym "i") item with
        | none => none
        | some b => execBlockD C (replEnv xs ps) (b ++ replEnv xs ps) [innerForT, outStoreT] σ') σ
          (idxs.map (fun k => [DVal.nat k])) = some σ' ∧ KeysIn replKeys σ' ∧
          outCur (xs.map (fun _ => none)) σ' = some l' := by
  induction idxs generalizing σ l V' with
  | nil => exact ⟨σ, rfl, hσ, hout⟩
  | cons j js ih =>
    obtain ⟨y, hj⟩ := hidx j List.mem_cons_self
    have hstep := outer_step C xs ps hn hnd hstd hcalls j y hj (hat j List.mem_cons_self) hσ hout hl hks hV
    have hb : bindTarget (Term.sym "i") [(DVal.nat j : DVal ε ρ γ)] = some [("i", .nat j)] := rfl
    simp only [specLoop, hj, List.map_cons, loopD, hb]
    cases hf : C.f y (kwAt ps j) with
    | none =>
      rw [hf] at hstep
      simp only [hstep]
    | some v =>
      rw [hf] at hstep
      obtain ⟨σ1, e1, e2, e3, e4⟩ := hstep
      simp only [e1]
      exact ih (fun k hk => hidx k (List.mem_cons_of_mem _ hk)) (fun k hk => hat k (List.mem_cons_of_mem _ hk)) e2 e3
        (by simpa using hl) e4 (Or.inr (vecEntries_keys j _ (hat j List.mem_cons_self)))

omit hn hnd in
/-- the loop over the non-missing positions, in order, is the element-wise map with the position. -/
theorem specLoop_flatnonzero {α β : Type} (g : Nat → α → Option β) (xs X0 : List (Option α)) (pre : List (Option β))
    (hpre : pre.length = X0.length) :
    specLoop g (X0 ++ xs) (pre ++ xs.map (fun _ => none)) (flatnonzeroFrom X0.length (xs.map (·.isSome))) =
      (mapOptIdx g X0.length xs).map (fun l => pre ++ l) := by
  induction xs generalizing X0 pre with
  | nil => simp [flatnonzeroFrom, specLoop, mapOptIdx]
  | cons x xs ih =>
    cases x with
    | none =>
      have := ih (X0 ++ [none]) (pre ++ [none]) (by simp [hpre])
      simp only [List.append_assoc, List.singleton_append, List.length_append, List.length_cons, List.length_nil,
        Nat.zero_add] at this
      simp only [List.map_cons, Option.isSome_none, flatnonzeroFrom, mapOptIdx, this, Option.map_map]
      congr 1
    | some y =>
      have hk : (X0 ++ some y :: xs)[X0.length]? = some (some y) := by simp
      simp only [List.map_cons, Option.isSome_some, flatnonzeroFrom, specLoop, hk, mapOptIdx]
      cases hg : g X0.length y with
      | none => rfl
      | some v =>
        have hset : (pre ++ none :: xs.map (fun _ => (none : Option β))).set X0.length (some v) =
            (pre ++ [some v]) ++ xs.map (fun _ => none) := by
          rw [← hpre]; simp
        have := ih (X0 ++ [some y]) (pre ++ [some v]) (by simp [hpre])
        simp only [List.append_assoc, List.singleton_append, List.length_append, List.length_cons, List.length_nil,
          Nat.zero_add] at this
        simp only [hset, List.append_assoc, List.singleton_append, this, Option.map_map]
        congr 1

include hn hnd in
/-- **`replace` with a vector component**: AssertionError unless every vector component has the length of `x`;
    then element `j` becomes `y.replace(**kw_j)`, `kw_j` = the scalar components followed by the `j`-th value of every
    vector component; missing stays missing; an exception as soon as `replace` rejects one element. -/
theorem replace_vector_run (hstd : C.std = ".replace") (hcalls : C.calls ".replace" = none)
    (hvec : allScalar (kwargsOf ps) = none) (truth : Term → Bool) (ht : AgreesD C (replEnv xs ps) truth) :
    runD C (replEnv xs ps) (dt_replace truth) =
      if (kwargsOf ps).all (fun p => lenOk xs.length p.2) then
        (mapOptIdx (fun j y => C.f y (kwAt ps j)) 0 xs).map DVal.out
      else none := by
  have htest : truth allScalarT = false := by
    rw [ht _ _ (eval_allScalarT C (.vec xs) ps hn), ← allScalar_isSome, hvec]; rfl
  rw [replace_code, htest]
  simp only [Bool.false_eq_true, if_false]
  rw [runD_ret]
  show (execBlockD C _ _ (lenCheckT :: (checksT ++ [mainForT])) []).bind _ = _
  rw [execBlockD_cons, lenCheck_run C xs ps hn]
  by_cases hlen : (kwargsOf ps).all (fun p => lenOk xs.length p.2) = true
  case neg => simp [hlen]
  simp only [hlen, if_true, Option.bind_some]
  have hx : lookupD (replEnv xs ps : DEnv ε ρ γ) "x" = .vec xs := lookupD_replEnv_x xs ps
  have hfree := lookupD_replEnv_free (ε := ε) (ρ := ρ) (.vec xs) ps hn
  have hc1 : execD C (replEnv xs ps) (replEnv xs ps)
      (Term.app "assert" [Term.app "isinstance" [Term.sym "x", Term.sym "np.ndarray"]]) [] = some [] := by
    rw [execD, evalD_app C _ [] _ _ _ rfl rfl]
    simp only [evalArgsD_cons, evalArgsD_nil, evalD_sym, hx, hfree "np.ndarray" (by decide), Option.bind_some,
      Option.map_some]
    rfl
  have hc2 : execD C (replEnv xs ps) (replEnv xs ps)
      (Term.app "assert" [Term.app "np.issubdtype" [Term.app ".dtype" [Term.sym "x"], Term.sym "np.datetime64"]]) [] =
      some [] := by
    rw [execD, evalD_app C _ [] _ _ _ rfl rfl]
    simp only [evalArgsD_cons, evalArgsD_nil]
    rw [evalD_app C _ [] _ _ _ rfl rfl]
    simp only [evalArgsD_cons, evalArgsD_nil, evalD_sym, hx, hfree "np.datetime64" (by decide), Option.bind_some,
      Option.map_some]
    rfl
  have hiter : evalD C (replEnv xs ps) [] (replEnv xs ps) (Term.app "np.flatnonzero" [Term.app "~" [naT]]) =
      some (.idx (flatnonzero (xs.map (·.isSome)))) := by
    rw [evalD_app C _ [] _ _ _ rfl rfl]
    simp only [evalArgsD_cons, evalArgsD_nil]
    rw [evalD_app C _ [] _ _ _ rfl rfl]
    simp only [evalArgsD_cons, evalArgsD_nil]
    unfold naT
    rw [evalD_app C _ [] _ _ _ rfl rfl]
    simp only [evalArgsD_cons, evalArgsD_nil, evalD_sym, hx, Option.bind_some, Option.map_some]
    show some (DVal.idx (flatnonzero ((xs.map (·.isNone)).map (!·)))) = _
    rw [not_isNone_map]
  -- the positions are non-missing and every vector component has a value there
  have hidx : ∀ j ∈ flatnonzero (xs.map (·.isSome)), ∃ y, xs[j]? = some (some y) := by
    intro j hj
    rw [mem_flatnonzero] at hj
    rcases hxj : xs[j]? with _ | x
    · simp [hxj] at hj
    · cases x with
      | none => simp [hxj] at hj
      | some y => exact ⟨y, rfl⟩
  have hat : ∀ j ∈ flatnonzero (xs.map (·.isSome)), HasAt j (dV ps) := by
    intro j hj p hp
    obtain ⟨y, hy⟩ := hidx j hj
    have hjn : j < xs.length := (List.getElem?_eq_some_iff.mp hy).1
    have hp' := List.mem_filter.mp hp
    have hok := List.all_eq_true.mp hlen p hp'.1
    cases hp2 : p.2 with
    | scalar v => rw [hp2] at hp'; exact absurd hp'.2 (by simp [Comp.isScalar])
    | vector vs =>
      rw [hp2] at hok
      have hlen' : vs.length = xs.length := by simpa [lenOk] using hok
      exact ⟨vs, vs[j]'(by omega), rfl, List.getElem?_eq_getElem (by omega)⟩
  have hloop := outer_loop C xs ps hn hnd hstd hcalls _ hidx hat (KeysIn.nil _)
    (l := xs.map (fun _ => none)) (V' := []) rfl (by simp) (by unfold ksCur; simp [DStore.find]) (Or.inl rfl)
  have hspec := specLoop_flatnonzero (fun j y => C.f y (kwAt ps j)) xs [] [] rfl
  simp only [List.nil_append, List.length_nil] at hspec
  have hspec' : specLoop (fun j y => C.f y (kwAt ps j)) xs (xs.map (fun _ => none)) (flatnonzero (xs.map (·.isSome))) =
      mapOptIdx (fun j y => C.f y (kwAt ps j)) 0 xs := by
    rw [show flatnonzero (xs.map (·.isSome)) = flatnonzeroFrom 0 (xs.map (·.isSome)) from rfl, hspec]
    cases mapOptIdx (fun j y => C.f y (kwAt ps j)) 0 xs <;> rfl
  rw [hspec'] at hloop
  have hmain : ∀ r, (loopD (fun (σ' : DStore ε ρ γ) item =>
        match bindTarget (Term.sym "i") item with
        | none => none
        | some b => execBlockD C (replEnv xs ps) (b ++ replEnv xs ps) [innerForT, outStoreT] σ') []
          ((flatnonzero (xs.map (·.isSome))).map (fun k => [DVal.nat k]))) = r →
      execD C (replEnv xs ps) (replEnv xs ps) mainForT [] = r := by
    intro r hr
    unfold mainForT
    rw [execD]
    simp only [hiter, iterItems]
    exact hr
  show (execBlockD C _ _ [_, _, mainForT] []).bind _ = _
  simp only [execBlockD_cons, execBlockD_nil, hc1, hc2, Option.bind_some]
  cases hm : mapOptIdx (fun j y => C.f y (kwAt ps j)) 0 xs with
  | none =>
    rw [hm] at hloop
    rw [hmain _ hloop]
    rfl
  | some l' =>
    rw [hm] at hloop
    obtain ⟨σ', e1, e2, e3⟩ := hloop
    rw [hmain _ e1]
    simp only [Option.bind_some, Option.map_some]
    exact eval_out C xs ps e2 e3 _ hx (hfree "np.datetime64" (by decide))

end replLoops

/-! ### `from_string` -/

def fsScalarT : Term := Term.app "util.is_scalar" [Term.sym "x"]
/-- `na = x == dtypes.string.na_object`. -/
def naS : Term := Term.app "Eq" [Term.sym "x", Term.sym "dtypes.string.na_object"]
def fsAllNaT : Term := Term.app ".all" [naS]
def fsChecksT : List Term :=
  [Term.app "assert" [Term.app "isinstance" [Term.sym "x", Term.sym "np.ndarray"]],
   Term.app "assert" [Term.app "isinstance" [Term.app ".dtype" [Term.sym "x"], Term.sym "StringDType"]]]
/-- the object array `out`, pre-filled with None. -/
def out0T : Term := Term.app "Vector.fast" [Term.app "np.full_like" [Term.sym "x", Term.sym "None", Term.sym "object"], Term.sym "object"]
/-- `lambda x: datetime.datetime.strptime(x, format)`. -/
def lamS : Term :=
  Term.app "lambda" [Term.app "params" [Term.sym "x"], Term.app "datetime.datetime.strptime" [Term.sym "x", Term.sym "format"]]
def fsCallT : Term :=
  Term.app "call" [Term.app "np.vectorize" [lamS],
    Term.app ".astype" [Term.app "getitem" [Term.sym "x", Term.app "~" [naS]], Term.sym "object"]]
/-- `out[~na] = np.vectorize(lambda …)(x[~na].astype(object))`. -/
def fsStoreT : Term := Term.app "store" [Term.app "getitem" [out0T, Term.app "~" [naS]], fsCallT]
/-- `out.as_datetime()`. -/
def outS : Term := Term.app ".as_datetime" [out0T]
/-- `out[~na]`. -/
def valsS : Term := Term.app "getitem" [outS, Term.app "~" [naS]]
/-- `len(out[~na]) > 0`. -/
def gtT : Term := Term.app "Gt" [Term.app "len" [valsS], Term.int 0]
/-- `(f(out[~na]) == 0).all()`. -/
def zeroT (f : String) : Term := Term.app ".all" [Term.app "Eq" [Term.app f [valsS], Term.int 0]]

/-- the test of the downgrade to dates, as the code asks it. -/
def fsTest (truth : Term → Bool) : Bool :=
  truth gtT && truth (zeroT "hour") && truth (zeroT "minute") && truth (zeroT "second") && truth (zeroT "microsecond")

/-- **the regenerated `from_string`** in these words. -/
theorem from_string_nf (truth : Term → Bool) :
    dt_from_string truth =
      if truth fsScalarT then
        Out.ret [] (Term.app "getitem" [Term.app "from_string" [Term.app "Vector" [Term.app "list" [Term.sym "x"], Term.sym "str"], Term.sym "format"], Term.int 0])
      else if (!truth fsAllNaT) then
        (if fsTest truth then Out.ret (fsChecksT ++ [fsStoreT]) (Term.app ".as_date" [outS])
         else Out.ret (fsChecksT ++ [fsStoreT]) outS)
      else
        (if fsTest truth then Out.ret fsChecksT (Term.app ".as_date" [outS]) else Out.ret fsChecksT outS) := rfl

/-- the statements `from_string` executes depend on the two entry tests only. -/
theorem from_string_effs (truth : Term → Bool) :
    (dt_from_string truth).effs =
      if truth fsScalarT then [] else if truth fsAllNaT then fsChecksT else fsChecksT ++ [fsStoreT] := by
  rw [from_string_nf]
  cases truth fsScalarT <;> cases truth fsAllNaT <;> cases fsTest truth <;> rfl

/-- `truth` answers the tests `ts` as the evaluator does in the store `σ`. -/
def AgreesOnD (C : DCtx ε ρ γ) (env : DEnv ε ρ γ) (σ : DStore ε ρ γ) (ts : List Term) (truth : Term → Bool) : Prop :=
  ∀ t ∈ ts, ∀ b, evalD C env σ env t = some (.bool b) → truth t = b

/-- the five tests on the written array. -/
def fsLateTests : List Term := [gtT, zeroT "hour", zeroT "minute", zeroT "second", zeroT "microsecond"]

/-- the hypothesis on `truth` for `from_string`: the two entry tests are answered as the evaluator answers them on entry,
    the five tests that read the written array as it answers them in the store the body's own statements leave. -/
def FsAgrees (C : DCtx ε ρ γ) (env : DEnv ε ρ γ) (truth : Term → Bool) : Prop :=
  AgreesOnD C env [] [fsScalarT, fsAllNaT] truth ∧
  ∀ σ, execBlockD C env env (dt_from_string truth).effs [] = some σ → AgreesOnD C env σ fsLateTests truth

/-- a `truth` that satisfies it. -/
def fsTruth (C : DCtx ε ρ γ) (env : DEnv ε ρ γ) : Term → Bool := fun t =>
  if t = fsScalarT ∨ t = fsAllNaT then truthAtD C env [] t
  else match execBlockD C env env (dt_from_string (truthOfD C env)).effs [] with
    | some σ => truthAtD C env σ t
    | none => false

theorem fsTruth_agrees (C : DCtx ε ρ γ) (env : DEnv ε ρ γ) : FsAgrees C env (fsTruth C env) := by
  have h1 : fsTruth C env fsScalarT = truthOfD C env fsScalarT := by unfold fsTruth; rw [if_pos (Or.inl rfl)]; rfl
  have h2 : fsTruth C env fsAllNaT = truthOfD C env fsAllNaT := by unfold fsTruth; rw [if_pos (Or.inr rfl)]; rfl
  have heffs : (dt_from_string (fsTruth C env)).effs = (dt_from_string (truthOfD C env)).effs := by
    rw [from_string_effs, from_string_effs, h1, h2]
  refine ⟨?_, ?_⟩
  · intro t ht b hb
    have ht' : t = fsScalarT ∨ t = fsAllNaT := by simpa using ht
    unfold fsTruth
    rw [if_pos ht']
    exact agreesAt_truthAtD C env [] t b hb
  · intro σ hσ t ht b hb
    rw [heffs] at hσ
    have hne : ¬ (t = fsScalarT ∨ t = fsAllNaT) := by
      simp only [fsLateTests, List.mem_cons, List.mem_nil_iff, or_false] at ht
      rcases ht with rfl | rfl | rfl | rfl | rfl <;> decide
    unfold fsTruth
    rw [if_neg hne, hσ]
    exact agreesAt_truthAtD C env σ t b hb

/-- `hour(v)` / `minute(v)` / `second(v)` / `microsecond(v)` on a datetime vector without missing values: the component of every
    element, as integers (what the regenerated extractor returns: `attrCall_is_code`). -/
def attrCall {δ : Type} (attr : δ → Nat) : List (DVal String δ γ) → Option (DVal String δ γ)
  | [.out l] => (allSome l).map (fun ds => .nums (ds.map attr))
  | _ => none

/-- the context of `from_string`: `datetime.datetime.strptime(s, format)` denotes `parse s`. -/
def fsCtx {δ : Type} (parse : String → Option δ) (h m s u : δ → Nat) : DCtx String δ γ :=
  { std := "datetime.datetime.strptime", f := fun str _ => parse str, ceilDiv := fun r _ => r,
    calls := fun g => if g = "hour" then some (attrCall h) else if g = "minute" then some (attrCall m)
      else if g = "second" then some (attrCall s) else if g = "microsecond" then some (attrCall u) else none }

/-- the bindings of `from_string(x, format)`. -/
def fsEnv {δ : Type} (xs : List (Option String)) (fmt : String) : DEnv String δ γ := [("x", .vec xs), ("format", .opaque fmt)]

/-- the downgrade test on the parsed values: at least one, and hour = minute = second = microsecond = 0 for every
    one (midnight to the microsecond). -/
def fsIsDates {δ : Type} (h m s u : δ → Nat) (l : List (Option δ)) : Bool :=
  let vs := l.filterMap id
  decide (0 < vs.length) && (vs.map (fun d => h d == 0)).all id && (vs.map (fun d => m d == 0)).all id &&
    (vs.map (fun d => s d == 0)).all id && (vs.map (fun d => u d == 0)).all id

/-- the downgrade test in one piece: at least one parsed value, and every parsed value at midnight to the microsecond. -/
theorem fsIsDates_eq {δ : Type} (h m s u : δ → Nat) (l : List (Option δ)) :
    fsIsDates h m s u l =
      (decide (0 < (l.filterMap id).length) &&
        (l.filterMap id).all (fun d => h d == 0 && m d == 0 && s d == 0 && u d == 0)) := by
  unfold fsIsDates
  simp only []
  have : ∀ vs : List δ, ((vs.map (fun d => h d == 0)).all id && (vs.map (fun d => m d == 0)).all id &&
      (vs.map (fun d => s d == 0)).all id && (vs.map (fun d => u d == 0)).all id) =
      vs.all (fun d => h d == 0 && m d == 0 && s d == 0 && u d == 0) := by
    intro vs
    induction vs with
    | nil => rfl
    | cons d vs ih =>
      simp only [List.map_cons, List.all_cons, id, ← ih]
      cases (h d == 0) <;> cases (m d == 0) <;> cases (s d == 0) <;> cases (u d == 0) <;> simp
      all_goals
        cases (vs.map (fun d => h d == 0)).all id <;> cases (vs.map (fun d => m d == 0)).all id <;>
          cases (vs.map (fun d => s d == 0)).all id <;> simp
  rw [← this]
  simp only [Bool.and_assoc]

theorem select_map_map {α β : Type} (p : α → Bool) (g : α → β) (xs : List α) :
    select (xs.map p) (xs.map g) = (xs.filter p).map g := by
  induction xs with
  | nil => rfl
  | cons x xs ih => cases hp : p x <;> simp [select, hp, ih]

theorem select_mapOpt {α β : Type} (g : α → Option β) (xs : List (Option α)) (l : List (Option β))
    (h : mapOpt g xs = some l) : select (xs.map (·.isSome)) l = (l.filterMap id).map some := by
  induction xs generalizing l with
  | nil => simp [mapOpt] at h; subst h; rfl
  | cons x xs ih =>
    cases x with
    | none =>
      simp only [mapOpt, Option.map_eq_some_iff] at h
      obtain ⟨l', h1, rfl⟩ := h
      simp [select, ih l' h1]
    | some y =>
      simp only [mapOpt] at h
      cases hg : g y with
      | none => rw [hg] at h; cases h
      | some v =>
        rw [hg] at h
        simp only [Option.map_eq_some_iff] at h
        obtain ⟨l', h1, rfl⟩ := h
        simp [select, ih l' h1]

theorem allSome_map_some {α : Type} (l : List α) : allSome (l.map some) = some l := by
  induction l with
  | nil => rfl
  | cons a l ih => simp [allSome, ih]

section fromString
variable {δ : Type} (parse : String → Option δ) (h m s u : δ → Nat) (xs : List (Option String)) (fmt : String)

local notation "CF" => (fsCtx parse h m s u : DCtx String δ γ)
local notation "EF" => (fsEnv xs fmt : DEnv String δ γ)

theorem fs_eval_scalar : evalD CF EF [] EF fsScalarT = some (.bool false) := rfl
theorem fs_eval_allNa : evalD CF EF [] EF fsAllNaT = some (.bool ((xs.map (·.isNone)).all id)) := rfl
theorem fs_checks_run : execBlockD CF EF EF fsChecksT [] = some [] := rfl
theorem fs_eval_out0 : evalD CF EF [] EF out0T = some (.out (xs.map (fun _ => none))) := rfl
theorem fs_eval_notNa (σ : DStore String δ γ) (hσ : KeysIn [out0T] σ) :
    evalD CF EF σ EF (Term.app "~" [naS]) = some (.mask (xs.map (·.isSome))) := by
  rw [evalD_app _ _ σ _ _ _ (findD_none hσ (by decide)) rfl]
  simp only [evalArgsD_cons, evalArgsD_nil]
  unfold naS
  rw [evalD_app _ _ σ _ _ _ (findD_none hσ (by decide)) rfl]
  simp only [evalArgsD_cons, evalArgsD_nil, evalD_sym, Option.bind_some, Option.map_some]
  show some (DVal.mask ((xs.map (·.isNone)).map (!·))) = _
  rw [not_isNone_map]
theorem fs_eval_lam : evalD CF EF [] EF lamS = some (.meth []) := rfl

theorem fs_eval_call (hna : (xs.map (·.isNone)).all id = false) :
    evalD CF EF [] EF fsCallT = (allSome ((xs.filterMap id).map parse)).map DVal.vals := by
  have hsel : evalD CF EF [] EF (Term.app "getitem" [Term.sym "x", Term.app "~" [naS]]) =
      some (.vec (select (xs.map (·.isSome)) xs)) := by
    rw [evalD_app _ _ [] _ _ _ rfl rfl]
    simp only [evalArgsD_cons, evalArgsD_nil, fs_eval_notNa parse h m s u xs fmt [] (KeysIn.nil _), evalD_sym,
      Option.bind_some, Option.map_some]
    show (if (xs.map (·.isSome)).length = xs.length then _ else _) = _
    rw [if_pos (by simp)]
  have hast : evalD CF EF [] EF
      (Term.app ".astype" [Term.app "getitem" [Term.sym "x", Term.app "~" [naS]], Term.sym "object"]) =
      some (.vec (select (xs.map (·.isSome)) xs)) := by
    rw [evalD_app _ _ [] _ _ _ rfl rfl]
    simp only [evalArgsD_cons, evalArgsD_nil, hsel, evalD_sym, Option.bind_some, Option.map_some]
    rfl
  have hvf : evalD CF EF [] EF (Term.app "np.vectorize" [lamS]) = some (.vmeth []) := rfl
  unfold fsCallT
  rw [evalD_app _ _ [] _ _ _ rfl rfl]
  simp only [evalArgsD_cons, evalArgsD_nil, hast, hvf, Option.bind_some, Option.map_some, applyD_call,
    select_isSome_isEmpty, hna, Bool.false_eq_true, if_false, select_isSome]
  rfl

theorem fs_store_run (hna : (xs.map (·.isNone)).all id = false) :
    execBlockD CF EF EF (fsChecksT ++ [fsStoreT]) [] = (mapOpt parse xs).map (fun l => [(out0T, .out l)]) := by
  show execBlockD CF EF EF [_, _, fsStoreT] [] = _
  have h0 : execD CF EF EF (Term.app "assert" [Term.app "isinstance" [Term.sym "x", Term.sym "np.ndarray"]]) [] =
      some [] := rfl
  have h1 : execD CF EF EF
      (Term.app "assert" [Term.app "isinstance" [Term.app ".dtype" [Term.sym "x"], Term.sym "StringDType"]]) [] =
      some [] := rfl
  simp only [execBlockD_cons, execBlockD_nil, h0, h1, Option.bind_some]
  unfold fsStoreT
  rw [execD]
  simp only [fs_eval_call parse h m s u xs fmt hna, fs_eval_out0, fs_eval_notNa parse h m s u xs fmt [] (KeysIn.nil _)]
  rw [← putMask_mapOpt]
  cases hv : allSome ((xs.filterMap id).map parse) with
  | none => rfl
  | some vs =>
    have hl := allSome_length _ _ hv
    simp only [Option.map_some, assignD, List.length_map, filter_isSome_length, hl, and_self, if_true,
      Option.bind_some, execBlockD_nil]

/-- `out[~na]` in a store where `out` holds `l` (found, or freshly evaluated). -/
theorem fs_eval_vals (σ : DStore String δ γ) (hσ : KeysIn [out0T] σ) (l : List (Option δ)) (hl : l.length = xs.length)
    (hout : evalD CF EF σ EF out0T = some (.out l)) :
    evalD CF EF σ EF valsS = some (.out (select (xs.map (·.isSome)) l)) := by
  unfold valsS
  rw [evalD_app _ _ σ _ _ _ (findD_none hσ (by decide)) rfl]
  simp only [evalArgsD_cons, evalArgsD_nil, fs_eval_notNa parse h m s u xs fmt σ hσ]
  unfold outS
  rw [evalD_app _ _ σ _ _ _ (findD_none hσ (by decide)) rfl]
  simp only [evalArgsD_cons, evalArgsD_nil, hout, Option.bind_some, Option.map_some]
  show (if (xs.map (·.isSome)).length = l.length then _ else _) = _
  rw [if_pos (by simp [hl])]

theorem fs_eval_gt (σ : DStore String δ γ) (hσ : KeysIn [out0T] σ) (vals : List (Option δ))
    (hv : evalD CF EF σ EF valsS = some (.out vals)) :
    evalD CF EF σ EF gtT = some (.bool (decide (0 < vals.length))) := by
  unfold gtT
  rw [evalD_app _ _ σ _ _ _ (findD_none hσ (by decide)) rfl]
  simp only [evalArgsD_cons, evalArgsD_nil]
  rw [evalD_app _ _ σ _ _ _ (findD_none hσ (by decide)) rfl]
  simp only [evalArgsD_cons, evalArgsD_nil, hv, evalD_int0, Option.bind_some, Option.map_some]
  rfl

theorem fs_eval_zero (f : String) (a : δ → Nat) (hf : f = "hour" ∧ a = h ∨ f = "minute" ∧ a = m ∨ f = "second" ∧ a = s ∨ f = "microsecond" ∧ a = u)
    (σ : DStore String δ γ) (hσ : KeysIn [out0T] σ) (pv : List δ)
    (hv : evalD CF EF σ EF valsS = some (.out (pv.map some))) :
    evalD CF EF σ EF (zeroT f) = some (.bool ((pv.map (fun d => a d == 0)).all id)) := by
  have hcall : applyD CF f [.out (pv.map some)] = some (.nums (pv.map a)) := by
    rcases hf with ⟨rfl, rfl⟩ | ⟨rfl, rfl⟩ | ⟨rfl, rfl⟩ | ⟨rfl, rfl⟩
    · show attrCall _ [.out (pv.map some)] = _
      simp only [attrCall, allSome_map_some, Option.map_some]
    · show attrCall _ [.out (pv.map some)] = _
      simp only [attrCall, allSome_map_some, Option.map_some]
    · show attrCall _ [.out (pv.map some)] = _
      simp only [attrCall, allSome_map_some, Option.map_some]
    · show attrCall _ [.out (pv.map some)] = _
      simp only [attrCall, allSome_map_some, Option.map_some]
  have hne : ∀ args, ∀ k ∈ [out0T], k ≠ Term.app f args := by
    intro args k hk e
    simp only [List.mem_singleton] at hk
    subst hk
    have := (Term.app.inj e).1
    rcases hf with ⟨rfl, _⟩ | ⟨rfl, _⟩ | ⟨rfl, _⟩ | ⟨rfl, _⟩ <;> exact absurd this (by decide)
  have hsp : specialHeads.contains f = false := by
    rcases hf with ⟨rfl, _⟩ | ⟨rfl, _⟩ | ⟨rfl, _⟩ | ⟨rfl, _⟩ <;> rfl
  unfold zeroT
  rw [evalD_app _ _ σ _ _ _ (findD_none hσ (heads_ne (hs := ["Vector.fast"]) (by simp [out0T]) _ (by decide))) rfl]
  simp only [evalArgsD_cons, evalArgsD_nil]
  rw [evalD_app _ _ σ _ _ _ (findD_none hσ (heads_ne (hs := ["Vector.fast"]) (by simp [out0T]) _ (by decide))) rfl]
  simp only [evalArgsD_cons, evalArgsD_nil]
  rw [evalD_app _ _ σ _ _ _ (findD_none hσ (hne _)) hsp]
  simp only [evalArgsD_cons, evalArgsD_nil, hv, evalD_int0, Option.bind_some, Option.map_some, hcall]
  show some (DVal.bool (((pv.map a).map (· == 0)).all id)) = _
  rw [List.map_map]
  rfl

theorem fs_eval_outS_after (l : List (Option δ)) : evalD CF EF [(out0T, .out l)] EF outS = some (.out l) := rfl
theorem fs_eval_asdate_after (l : List (Option δ)) :
    evalD CF EF [(out0T, .out l)] EF (Term.app ".as_date" [outS]) = some (.dates l) := rfl
theorem fs_eval_outS0 : evalD CF EF [] EF outS = some (.out (xs.map (fun _ => none))) := rfl

/-- **`from_string`** on a vector: `strptime` at every non-blank string, NaT at the blank ones (ValueError as soon as
    one string does not parse); the result is narrowed to DATES iff there is at least one parsed value and hour, minute,
    second and microsecond of every parsed value are 0 (`fsIsDates`). -/
theorem from_string_run (truth : Term → Bool) (ht : FsAgrees CF EF truth) :
    runD CF EF (dt_from_string truth) =
      (mapOpt parse xs).map (fun l => if fsIsDates h m s u l then DVal.dates l else DVal.out l) := by
  obtain ⟨ht0, ht1⟩ := ht
  have h1 : truth fsScalarT = false := ht0 _ (by simp) _ (fs_eval_scalar parse h m s u xs fmt)
  have h2 : truth fsAllNaT = (xs.map (·.isNone)).all id := ht0 _ (by simp) _ (fs_eval_allNa parse h m s u xs fmt)
  by_cases hall : (xs.map (·.isNone)).all id = true
  · -- every string is blank (or there is none): nothing is parsed, the result stays a datetime vector
    have hσ : execBlockD CF EF EF (dt_from_string truth).effs [] = some [] := by
      rw [from_string_effs, h1, h2, hall]; exact fs_checks_run parse h m s u xs fmt
    have hlate := ht1 [] hσ
    have hvals := fs_eval_vals (γ := γ) parse h m s u xs fmt [] (KeysIn.nil _) (xs.map (fun _ => none)) (by simp)
      (fs_eval_out0 parse h m s u xs fmt)
    have hfil : xs.filter (·.isSome) = [] := by
      rw [List.filter_eq_nil_iff]
      intro x hx
      have := List.all_eq_true.mp hall x.isNone (List.mem_map.mpr ⟨x, hx, rfl⟩)
      cases x <;> simp_all
    rw [select_map_map, hfil] at hvals
    have hgt : truth gtT = false :=
      hlate gtT (by simp [fsLateTests]) _ (fs_eval_gt parse h m s u xs fmt [] (KeysIn.nil _) _ hvals)
    have htest : fsTest truth = false := by unfold fsTest; rw [hgt]; rfl
    have hfm : (xs.map (fun _ => (none : Option δ))).filterMap id = [] := by
      induction xs <;> simp_all
    have hd : fsIsDates h m s u (xs.map (fun _ => (none : Option δ))) = false := by
      unfold fsIsDates; simp only [hfm]; rfl
    rw [from_string_nf, h1, h2, hall, htest, mapOpt_all_none parse xs hall]
    simp only [Bool.false_eq_true, if_false, Bool.not_true, Option.map_some, hd]
    rw [runD_ret, fs_checks_run, Option.bind_some]
    exact fs_eval_outS0 parse h m s u xs fmt
  · have hall' : (xs.map (·.isNone)).all id = false := Bool.eq_false_iff.mpr hall
    have heffs : (dt_from_string truth).effs = fsChecksT ++ [fsStoreT] := by
      rw [from_string_effs, h1, h2, hall']; rfl
    cases hm : mapOpt parse xs with
    | none =>
      rw [from_string_nf, h1, h2, hall']
      simp only [Bool.false_eq_true, if_false, Bool.not_false, if_true]
      cases fsTest truth <;>
        simp only [Bool.false_eq_true, if_false, if_true, runD_ret, fs_store_run parse h m s u xs fmt hall', hm,
          Option.map_none, Option.bind_none]
    | some l =>
      have hσ : execBlockD CF EF EF (dt_from_string truth).effs [] = some [(out0T, .out l)] := by
        rw [heffs, fs_store_run parse h m s u xs fmt hall', hm]; rfl
      have hlate := ht1 _ hσ
      have hk : KeysIn [out0T] ([(out0T, .out l)] : DStore String δ γ) := (KeysIn.nil _).cons (by simp) _
      have hvals := fs_eval_vals parse h m s u xs fmt _ hk l (mapOpt_length parse xs l hm)
        (evalD_found _ _ _ _ _ _ _ (findD_cons_self _ _ _))
      rw [select_mapOpt parse xs l hm] at hvals
      have hgt : truth gtT = decide (0 < (l.filterMap id).length) := by
        have := hlate gtT (by simp [fsLateTests]) _ (fs_eval_gt parse h m s u xs fmt _ hk _ hvals)
        rw [List.length_map] at this
        exact this
      have hh := hlate (zeroT "hour") (by simp [fsLateTests]) _
        (fs_eval_zero parse h m s u xs fmt "hour" h (Or.inl ⟨rfl, rfl⟩) _ hk _ hvals)
      have hmn := hlate (zeroT "minute") (by simp [fsLateTests]) _
        (fs_eval_zero parse h m s u xs fmt "minute" m (Or.inr (Or.inl ⟨rfl, rfl⟩)) _ hk _ hvals)
      have hs := hlate (zeroT "second") (by simp [fsLateTests]) _
        (fs_eval_zero parse h m s u xs fmt "second" s (Or.inr (Or.inr (Or.inl ⟨rfl, rfl⟩))) _ hk _ hvals)
      have hu := hlate (zeroT "microsecond") (by simp [fsLateTests]) _
        (fs_eval_zero parse h m s u xs fmt "microsecond" u (Or.inr (Or.inr (Or.inr ⟨rfl, rfl⟩))) _ hk _ hvals)
      have htest : fsTest truth = fsIsDates h m s u l := by
        unfold fsTest fsIsDates; rw [hgt, hh, hmn, hs, hu]
      rw [from_string_nf, h1, h2, hall', htest]
      simp only [Bool.false_eq_true, if_false, Bool.not_false, if_true, Option.map_some]
      cases fsIsDates h m s u l
      · simp only [Bool.false_eq_true, if_false]
        rw [runD_ret, fs_store_run parse h m s u xs fmt hall', hm]
        exact fs_eval_outS_after parse h m s u xs fmt l
      · simp only [if_true]
        rw [runD_ret, fs_store_run parse h m s u xs fmt hall', hm]
        exact fs_eval_asdate_after parse h m s u xs fmt l

end fromString

/-- the context of `from_string` on a scalar: `from_string` itself is the regenerated function on a vector (its tests
    answered by the evaluator: `fsTruth`). -/
def fsSelfCtx {δ : Type} (parse : String → Option δ) (h m s u : δ → Nat) : DCtx String δ γ :=
  { std := "datetime.datetime.strptime", f := fun str _ => parse str, ceilDiv := fun r _ => r,
    calls := fun g => if g = "from_string" then
      some (fun vs => match vs with
        | [.vec xs, .opaque fmt] =>
          runD (fsCtx parse h m s u : DCtx String δ γ) (fsEnv xs fmt)
            (dt_from_string (fsTruth (fsCtx parse h m s u : DCtx String δ γ) (fsEnv xs fmt)))
        | _ => none)
      else none }

/-- the scalar result of `from_string`: NaT for the blank string; the parsed value, as a DATE iff its hour, minute,
    second and microsecond are 0; ValueError if it does not parse. -/
def fsScalarRes {δ : Type} (parse : String → Option δ) (h m s u : δ → Nat) : Option String → Option (DVal String δ γ)
  | none => some (.res none)
  | some str => (parse str).map (fun v =>
      if h v == 0 && m v == 0 && s v == 0 && u v == 0 then .dres (some v) else .res (some v))

/-- **`from_string` of a scalar**: `from_string(Vector([x], str), format)[0]`. -/
theorem from_string_scalar_run {δ : Type} (parse : String → Option δ) (h m s u : δ → Nat) (x : Option String) (fmt : String)
    (truth : Term → Bool)
    (ht : AgreesOnD (fsSelfCtx parse h m s u : DCtx String δ γ) [("x", .elem x), ("format", .opaque fmt)] [] [fsScalarT] truth) :
    runD (fsSelfCtx parse h m s u : DCtx String δ γ) [("x", .elem x), ("format", .opaque fmt)] (dt_from_string truth) =
      fsScalarRes parse h m s u x := by
  have h1 : truth fsScalarT = true := ht _ (by simp) _ rfl
  have hv : evalD (fsSelfCtx parse h m s u : DCtx String δ γ) [("x", .elem x), ("format", .opaque fmt)] []
      [("x", .elem x), ("format", .opaque fmt)]
      (Term.app "Vector" [Term.app "list" [Term.sym "x"], Term.sym "str"]) = some (.vec [x]) := rfl
  have hf : evalD (fsSelfCtx parse h m s u : DCtx String δ γ) [("x", .elem x), ("format", .opaque fmt)] []
      [("x", .elem x), ("format", .opaque fmt)] (Term.sym "format") = some (.opaque fmt) := rfl
  have hcall := from_string_run (γ := γ) parse h m s u [x] fmt _ (fsTruth_agrees _ _)
  rw [from_string_nf, h1, if_pos rfl, runD_ret, execBlockD_nil, Option.bind_some, evalD_app _ _ [] _ _ _ rfl rfl]
  simp only [evalArgsD_cons, evalArgsD_nil, evalD_int0]
  rw [evalD_app _ _ [] _ _ _ rfl rfl]
  simp only [evalArgsD_cons, evalArgsD_nil, hv, hf, Option.bind_some, Option.map_some]
  rw [applyD_calls (fsSelfCtx parse h m s u) (g := "from_string") (by decide) rfl]
  simp only [hcall]
  cases x with
  | none => rfl
  | some str =>
    simp only [mapOpt, fsScalarRes]
    cases parse str with
    | none => rfl
    | some v =>
      simp only [Option.map_some, fsIsDates, List.filterMap_cons, id, List.filterMap_nil, List.length_singleton,
        Nat.lt_add_one, decide_true, List.map_cons, List.map_nil, List.all_cons, List.all_nil, Bool.and_true, Bool.true_and]
      cases (h v == 0 && m v == 0 && s v == 0 && u v == 0) <;> rfl


/-! ### the extractors (`weekday`, `month`, `hour`, …): `_pull_int(x, lambda y: y.<attr>)`, and `to_string` -/

/-- `_pull_int` / `_pull_str` as called by an extractor / by `to_string`: `y.<attr>` denotes `f y`. -/
def attrInner (attr : String) (f : ε → ρ) (cd : ρ → Nat → ρ) : DCtx ε ρ γ :=
  { std := attr, f := fun y _ => some (f y), ceilDiv := cd, calls := noCallsD }

/-- the context of an extractor: `_pull_int` is the regenerated one. -/
def attrCtx (attr : String) (f : ε → ρ) (cd : ρ → Nat → ρ) : DCtx ε ρ γ :=
  { std := attr, f := fun y _ => some (f y), ceilDiv := cd,
    calls := fun g => if g = "_pull_int" then some (runFnD (attrInner attr f cd) dt_pull_int_signature dt_pull_int) else none }

/-- `_pull_int(x, lambda y: y.<attr>)`. -/
def pullIntOfT (attr : String) : Out :=
  Out.ret [] (Term.app "_pull_int" [Term.sym "x", Term.app "lambda" [Term.app "params" [Term.sym "y"], Term.app attr [Term.sym "y"]]])

theorem pull_int_total (C : DCtx ε ρ γ) (f : ε → ρ) (hf : ∀ y kw, C.f y kw = some (f y)) (xs : List (Option ε))
    (kw : List (String × γ)) (truth : Term → Bool) (ht : AgreesD C (pullEnvD xs kw) truth) :
    runD C (pullEnvD xs kw) (dt_pull_int truth) =
      some (if pullIntIsInteger xs then .iout ((xs.filterMap id).map f) else .out (xs.map (fun x => x.map f))) := by
  rw [pull_int_run C xs kw truth ht]
  have : (fun y => C.f y kw) = fun y => some (f y) := funext (fun y => hf y kw)
  rw [this, mapOpt_total, Option.bind_some]
  cases hI : pullIntIsInteger xs
  · rfl
  · have hs : xs.all (·.isSome) = true := by
      rw [pull_int_typing] at hI
      simp only [Bool.and_eq_true] at hI
      exact hI.2
    simp only [if_true, allSome_map_map, allSome_of_all xs hs, Option.map_some]

/-- **an extractor** on a vector: the attribute of every non-missing element, integers when there is at least one
    element and none is missing, floats with NaN at the NaT positions otherwise. -/
theorem extractor_run (attr : String) (f : ε → ρ) (cd : ρ → Nat → ρ) (xs : List (Option ε)) :
    runD (attrCtx attr f cd : DCtx ε ρ γ) [("x", .vec xs)] (pullIntOfT attr) =
      some (if pullIntIsInteger xs then .iout ((xs.filterMap id).map f) else .out (xs.map (fun x => x.map f))) := by
  have hlam : evalD (attrCtx attr f cd : DCtx ε ρ γ) [("x", .vec xs)] [] [("x", .vec xs)]
      (Term.app "lambda" [Term.app "params" [Term.sym "y"], Term.app attr [Term.sym "y"]]) = some (.meth []) := by
    rw [evalD_lambda _ _ [] _ _ rfl, evalLambdaD, if_pos ⟨rfl, rfl, rfl⟩]
    rfl
  unfold pullIntOfT
  rw [runD_ret, execBlockD_nil, Option.bind_some, evalD_app _ _ [] _ _ _ rfl rfl]
  simp only [evalArgsD_cons, evalArgsD_nil, evalD_sym, lookupD_x, hlam, Option.bind_some, Option.map_some]
  rw [applyD_calls (attrCtx attr f cd) (g := "_pull_int") (by decide) rfl]
  exact pull_int_total (attrInner attr f cd) f (fun _ _ => rfl) xs [] _ (agrees_truthOfD _ _)

/-- a context in which `_pull_str` is the regenerated function, run in `C`. -/
def psSelfCtx (C : DCtx ε ρ γ) : DCtx ε ρ γ :=
  { std := C.std, f := C.f, ceilDiv := C.ceilDiv,
    calls := fun g => if g = "_pull_str" then some (runFnD C dt_pull_str_signature dt_pull_str) else none }

/-- **`_pull_str` on a scalar**. -/
theorem pull_str_scalar_run (C : DCtx ε ρ γ) (x : Option ε) (kw : List (String × γ)) (truth : Term → Bool)
    (ht : AgreesD (psSelfCtx C) [("x", .elem x), ("function", .meth kw)] truth) :
    runD (psSelfCtx C) [("x", .elem x), ("function", .meth kw)] (dt_pull_str truth) =
      scalarRes (fun y => C.f y kw) x := by
  have h1 : truth (Term.app "util.is_scalar" [Term.sym "x"]) = true := ht _ _ rfl
  have hv : evalD (psSelfCtx C) [("x", .elem x), ("function", .meth kw)] [] [("x", .elem x), ("function", .meth kw)]
      (Term.app "Vector" [Term.app "list" [Term.sym "x"], Term.sym "np.datetime64"]) = some (.vec [x]) := rfl
  have hf : evalD (psSelfCtx C) [("x", .elem x), ("function", .meth kw)] [] [("x", .elem x), ("function", .meth kw)]
      (Term.sym "function") = some (.meth kw) := rfl
  have hcall : runFnD C dt_pull_str_signature dt_pull_str [.vec [x], .meth kw] =
      (mapOpt (fun y => C.f y kw) [x]).map DVal.out :=
    pull_str_run C [x] kw _ (agrees_truthOfD _ _)
  unfold dt_pull_str
  dsimp only
  rw [h1]
  simp only [if_true]
  rw [runD_ret, execBlockD_nil, Option.bind_some, evalD_app _ _ [] _ _ _ rfl rfl]
  simp only [evalArgsD_cons, evalArgsD_nil, evalD_int0]
  rw [evalD_app _ _ [] _ _ _ rfl rfl]
  simp only [evalArgsD_cons, evalArgsD_nil, hv, hf, Option.bind_some, Option.map_some]
  rw [applyD_calls (psSelfCtx C) (g := "_pull_str") (by decide) rfl, hcall]
  cases x with
  | none => rfl
  | some y =>
    simp only [mapOpt, scalarRes]
    cases C.f y kw <;> rfl

/-- the context of `to_string`: `x.strftime(format)` denotes `fmt x` (`none` = `strftime` raises for that element). -/
def tsInner (fmt : ε → Option ρ) : DCtx ε ρ γ :=
  { std := ".strftime", f := fun y _ => fmt y, ceilDiv := fun r _ => r, calls := noCallsD }
def tsCtx (fmt : ε → Option ρ) : DCtx ε ρ γ :=
  { std := ".strftime", f := fun y _ => fmt y, ceilDiv := fun r _ => r,
    calls := fun g => if g = "_pull_str" then
      some (runFnD (psSelfCtx (tsInner fmt)) dt_pull_str_signature dt_pull_str) else none }

/-- **`to_string`** on a vector: `_pull_str` of `strftime(format)`. -/
theorem to_string_run (fmt : ε → Option ρ) (xs : List (Option ε)) (format : String) (truth : Term → Bool) :
    runD (tsCtx fmt : DCtx ε ρ γ) [("x", .vec xs), ("format", .opaque format)] (dt_to_string truth) =
      (mapOpt fmt xs).map DVal.out := by
  have hlam : evalD (tsCtx fmt : DCtx ε ρ γ) [("x", .vec xs), ("format", .opaque format)] []
      [("x", .vec xs), ("format", .opaque format)]
      (Term.app "lambda" [Term.app "params" [Term.sym "x"], Term.app ".strftime" [Term.sym "x", Term.sym "format"]]) =
      some (.meth []) := rfl
  unfold dt_to_string
  rw [runD_ret, execBlockD_nil, Option.bind_some, evalD_app _ _ [] _ _ _ rfl rfl]
  simp only [evalArgsD_cons, evalArgsD_nil, evalD_sym, lookupD_x, hlam, Option.bind_some, Option.map_some]
  rw [applyD_calls (tsCtx fmt) (g := "_pull_str") (by decide) rfl]
  exact pull_str_run (psSelfCtx (tsInner fmt)) xs [] _ (agrees_truthOfD _ _)

/-- **`to_string` of a scalar**: `strftime` of it, the blank string for NaT. -/
theorem to_string_scalar_run (fmt : ε → Option ρ) (x : Option ε) (format : String) (truth : Term → Bool) :
    runD (tsCtx fmt : DCtx ε ρ γ) [("x", .elem x), ("format", .opaque format)] (dt_to_string truth) =
      scalarRes fmt x := by
  have hlam : evalD (tsCtx fmt : DCtx ε ρ γ) [("x", .elem x), ("format", .opaque format)] []
      [("x", .elem x), ("format", .opaque format)]
      (Term.app "lambda" [Term.app "params" [Term.sym "x"], Term.app ".strftime" [Term.sym "x", Term.sym "format"]]) =
      some (.meth []) := rfl
  unfold dt_to_string
  rw [runD_ret, execBlockD_nil, Option.bind_some, evalD_app _ _ [] _ _ _ rfl rfl]
  simp only [evalArgsD_cons, evalArgsD_nil, evalD_sym, lookupD_x, hlam, Option.bind_some, Option.map_some]
  rw [applyD_calls (tsCtx fmt) (g := "_pull_str") (by decide) rfl]
  exact pull_str_scalar_run (tsInner fmt) x [] _ (agrees_truthOfD _ _)

/-! ### `hour` / `minute` / `second` as called by `from_string` are the regenerated extractors -/

/-- an integer (or empty float) vector as a plain integer vector. -/
def toNums {δ : Type} : DVal δ Nat γ → Option (DVal String δ γ)
  | .iout ns => some (.nums ns)
  | .out l => (allSome l).map DVal.nums
  | _ => none

/-- the regenerated extractor `body` (reading the attribute `attr`) applied to a datetime vector. -/
def codeAttr {δ : Type} (attr : String) (body : (Term → Bool) → Out) (f : δ → Nat) :
    List (DVal String δ γ) → Option (DVal String δ γ)
  | [.out l] => (runFnD (attrCtx attr f (fun r _ => r) : DCtx δ Nat γ) ["x"] body [.vec l]).bind toNums
  | _ => none

theorem attrCall_is_code {δ : Type} (attr : String) (body : (Term → Bool) → Out) (f : δ → Nat)
    (hbody : ∀ truth, body truth = pullIntOfT attr) (l : List (Option δ)) :
    (attrCall f [.out l] : Option (DVal String δ γ)) = codeAttr attr body f [.out l] := by
  have hrun : runFnD (attrCtx attr f (fun r _ => r) : DCtx δ Nat γ) ["x"] body [.vec l] =
      some (if pullIntIsInteger l then .iout ((l.filterMap id).map f) else .out (l.map (fun x => x.map f))) := by
    show runD _ [("x", .vec l)] (body _) = _
    rw [hbody]
    exact extractor_run attr f _ l
  simp only [attrCall, codeAttr, hrun, Option.bind_some]
  cases hI : pullIntIsInteger l
  · simp only [Bool.false_eq_true, if_false, toNums, allSome_map_map]
    cases allSome l <;> rfl
  · have hs : l.all (·.isSome) = true := by
      rw [pull_int_typing] at hI
      simp only [Bool.and_eq_true] at hI
      exact hI.2
    simp only [if_true, toNums, allSome_of_all l hs, Option.map_some]

/-! ### `quarter` -/

theorem map_of_all_some {α β : Type} (g : α → β) (xs : List (Option α)) (hs : xs.all (·.isSome) = true) :
    xs.map (fun x => x.map g) = ((xs.filterMap id).map g).map some := by
  induction xs with
  | nil => rfl
  | cons x xs ih =>
    cases x with
    | none => simp at hs
    | some a =>
      have hs' : xs.all (·.isSome) = true := by simpa using hs
      simp [ih hs']


/-- the context of `quarter`: `month` is the regenerated `month` (→ `_pull_int`), `np.ceil(v / d)` is `cd v d`. -/
def quarterCtx (month : ε → ρ) (cd : ρ → Nat → ρ) : DCtx ε ρ γ :=
  { std := "", f := fun _ _ => none, ceilDiv := cd,
    calls := fun g => if g = "month" then some (runFnD (attrCtx ".month" month cd) dt_month_signature dt_month) else none }

/-- `y = np.ceil(month(x) / 3)`. -/
def quarterYT : Term := Term.app "np.ceil" [Term.app "Div" [Term.app "month" [Term.sym "x"], Term.int 3]]

/-- **`quarter`** on a vector: `ceil(month / 3)` of every non-missing element; integers iff nothing is missing
    (`DtRe.quarterIsInteger` — the empty vector included), floats with NaN otherwise. -/
theorem quarter_run (month : ε → ρ) (cd : ρ → Nat → ρ) (xs : List (Option ε)) (truth : Term → Bool)
    (ht : AgreesD (quarterCtx month cd : DCtx ε ρ γ) [("x", .vec xs)] truth) :
    runD (quarterCtx month cd : DCtx ε ρ γ) [("x", .vec xs)] (dt_quarter truth) =
      some (if quarterIsInteger xs then .iout ((xs.filterMap id).map (fun y => cd (month y) 3))
            else .out (xs.map (fun x => x.map (fun y => cd (month y) 3)))) := by
  have hmonth : evalD (quarterCtx month cd : DCtx ε ρ γ) [("x", .vec xs)] [] [("x", .vec xs)] (Term.app "month" [Term.sym "x"]) =
      some (if pullIntIsInteger xs then .iout ((xs.filterMap id).map month) else .out (xs.map (fun x => x.map month))) := by
    rw [evalD_app _ _ [] _ _ _ rfl rfl]
    simp only [evalArgsD_cons, evalArgsD_nil, evalD_sym, lookupD_x, Option.bind_some, Option.map_some]
    rw [applyD_calls (quarterCtx month cd) (g := "month") (by decide) rfl]
    exact extractor_run ".month" month cd xs
  have hy : evalD (quarterCtx month cd : DCtx ε ρ γ) [("x", .vec xs)] [] [("x", .vec xs)] quarterYT =
      some (.out (xs.map (fun x => x.map (fun y => cd (month y) 3)))) := by
    unfold quarterYT
    rw [evalD_app _ _ [] _ _ _ rfl rfl]
    simp only [evalArgsD_cons, evalArgsD_nil]
    rw [evalD_app _ _ [] _ _ _ rfl rfl]
    simp only [evalArgsD_cons, evalArgsD_nil, hmonth, Option.bind_some, Option.map_some]
    rw [show evalD (quarterCtx month cd : DCtx ε ρ γ) [("x", .vec xs)] [] [("x", .vec xs)] (Term.int 3) = some (.nat 3) from by
      rw [evalD]; rfl]
    simp only [Option.bind_some, Option.map_some]
    cases hI : pullIntIsInteger xs
    · simp only [Bool.false_eq_true, if_false]
      show some (DVal.out ((xs.map (fun x => x.map month)).map (fun r => r.map (fun v => cd v 3)))) = _
      simp only [List.map_map]
      congr 2
      apply List.map_congr_left
      intro x _
      cases x <;> rfl
    · have hs : xs.all (·.isSome) = true := by
        rw [pull_int_typing] at hI
        simp only [Bool.and_eq_true] at hI
        exact hI.2
      simp only [if_true]
      show some (DVal.out ((((xs.filterMap id).map month).map some).map (fun r => r.map (fun v => cd v 3)))) = _
      rw [map_of_all_some (fun y => cd (month y) 3) xs hs]
      simp only [List.map_map]
      rfl
  have hnan : evalD (quarterCtx month cd : DCtx ε ρ γ) [("x", .vec xs)] [] [("x", .vec xs)]
      (Term.app ".any" [Term.app "np.isnan" [quarterYT]]) = some (.bool ((xs.map (·.isNone)).any id)) := by
    rw [evalD_app _ _ [] _ _ _ rfl rfl]
    simp only [evalArgsD_cons, evalArgsD_nil]
    rw [evalD_app _ _ [] _ _ _ rfl rfl]
    simp only [evalArgsD_cons, evalArgsD_nil, hy, Option.bind_some, Option.map_some]
    show some (DVal.bool (((xs.map (fun x => x.map (fun y => cd (month y) 3))).map (·.isNone)).any id)) = _
    congr 2
    simp only [List.map_map]
    congr 1
    apply List.map_congr_left
    intro x _
    cases x <;> rfl
  have h1 : truth (Term.app ".any" [Term.app "np.isnan" [quarterYT]]) = _ := ht _ _ hnan
  show runD _ _ (Out.ret [] (if truth (Term.app ".any" [Term.app "np.isnan" [quarterYT]]) then quarterYT
    else Term.app ".astype" [quarterYT, Term.sym "int"])) = _
  rw [h1, runD_ret, execBlockD_nil, Option.bind_some]
  unfold quarterIsInteger
  cases hany : (xs.map (·.isNone)).any id
  · simp only [Bool.false_eq_true, if_false, Bool.not_false, if_true]
    rw [evalD_app _ _ [] _ _ _ rfl rfl]
    simp only [evalArgsD_cons, evalArgsD_nil, hy, evalD_sym, Option.bind_some, Option.map_some]
    have hs : xs.all (·.isSome) = true := by
      have h := any_isNone xs
      simp only [List.any_map] at hany
      have e1 : (id ∘ fun (x : Option ε) => x.isNone) = (fun x => x.isNone) := rfl
      rw [e1, h] at hany
      simpa using hany
    show (allSome (xs.map (fun x => x.map (fun y => cd (month y) 3)))).map DVal.iout = _
    rw [allSome_map_map, allSome_of_all xs hs]
    rfl
  · simp only [if_true, Bool.not_true, Bool.false_eq_true, if_false]
    exact hy

/-! ### `replace` and the model `DtRe.replace` -/

theorem hasAt_of_lenOk (xs : List (Option ε)) (ps : List (String × Option (Comp γ)))
    (hlen : (kwargsOf ps).all (fun p => lenOk xs.length p.2) = true) (j : Nat) (hj : j < xs.length) : HasAt j (dV ps) := by
  intro p hp
  have hp' := List.mem_filter.mp hp
  have hok := List.all_eq_true.mp hlen p hp'.1
  cases hp2 : p.2 with
  | scalar v => rw [hp2] at hp'; exact absurd hp'.2 (by simp [Comp.isScalar])
  | vector vs =>
    rw [hp2] at hok
    have hlen' : vs.length = xs.length := by simpa [lenOk] using hok
    exact ⟨vs, vs[j]'(by omega), rfl, List.getElem?_eq_getElem (by omega)⟩

theorem scalarsOf_scalars [Inhabited γ] (j : Nat) (L : List (String × Comp γ)) (h : ∀ p ∈ L, p.2.isScalar = true) :
    scalarsOf L = L.map (fun c => (c.1, c.2.at j)) := by
  induction L with
  | nil => rfl
  | cons p L ih =>
    obtain ⟨k, c⟩ := p
    have ih' := ih (fun q hq => h q (List.mem_cons_of_mem _ hq))
    cases c with
    | scalar v => simp only [scalarsOf, List.filterMap_cons, List.map_cons, Comp.at] at ih' ⊢; rw [ih']
    | vector vs => have := h (k, .vector vs) List.mem_cons_self; simp [Comp.isScalar] at this

theorem scalarsOf_vecEntries [Inhabited γ] (j : Nat) (L : List (String × Comp γ)) (h : HasAt j L) :
    scalarsOf (vecEntries j L) = L.map (fun c => (c.1, c.2.at j)) := by
  induction L with
  | nil => rfl
  | cons p L ih =>
    obtain ⟨vs, v, h1, h2⟩ := h p List.mem_cons_self
    have ih' := ih (fun q hq => h q (List.mem_cons_of_mem _ hq))
    have hv : p.2.at j = v := by rw [h1]; simp [Comp.at, List.getElem!_eq_getElem?_getD, h2]
    simp only [vecEntries, scalarsOf, List.filterMap_cons, h1, h2, Option.map_some, List.map_cons] at ih' ⊢
    rw [ih', ← h1, hv]

/-- the keywords the code passes at position `j` are those of the model, scalars first. -/
theorem kwAt_perm [Inhabited γ] (ps : List (String × Option (Comp γ))) (j : Nat) (hat : HasAt j (dV ps)) :
    (kwAt ps j).Perm ((kwargsOf ps).map (fun c => (c.1, c.2.at j))) := by
  have h1 : kwAt ps j = (dS ps ++ dV ps).map (fun c => (c.1, c.2.at j)) := by
    unfold kwAt
    rw [show scalarsOf (dS ps ++ vecEntries j (dV ps)) = scalarsOf (dS ps) ++ scalarsOf (vecEntries j (dV ps)) from by
      simp [scalarsOf, List.filterMap_append]]
    rw [scalarsOf_scalars j (dS ps) (fun p hp => (List.mem_filter.mp hp).2), scalarsOf_vecEntries j (dV ps) hat,
      List.map_append]
  rw [h1]
  exact (List.filter_append_perm (fun p => p.2.isScalar) (kwargsOf ps)).map _

theorem allScalar_eq_at [Inhabited γ] (d : List (String × Comp γ)) (kw : List (String × γ)) (h : allScalar d = some kw) :
    kw = d.map (fun c => (c.1, c.2.at 0)) := by
  induction d generalizing kw with
  | nil => simp [allScalar] at h; subst h; rfl
  | cons p d ih =>
    obtain ⟨k, c⟩ := p
    cases c with
    | scalar v =>
      simp only [allScalar, Option.map_eq_some_iff] at h
      obtain ⟨l, hl, rfl⟩ := h
      simp [Comp.at, ih l hl]
    | vector vs => simp [allScalar] at h

theorem allScalar_all (d : List (String × Comp γ)) (kw : List (String × γ)) (h : allScalar d = some kw) :
    ∀ c ∈ d, ∃ v, c.2 = .scalar v := by
  induction d generalizing kw with
  | nil => intro c hc; cases hc
  | cons p d ih =>
    obtain ⟨k, c⟩ := p
    cases c with
    | scalar v =>
      simp only [allScalar, Option.map_eq_some_iff] at h
      obtain ⟨l, hl, rfl⟩ := h
      intro c hc
      rcases List.mem_cons.mp hc with rfl | hc
      · exact ⟨v, rfl⟩
      · exact ih l hl c hc
    | vector vs => simp [allScalar] at h

theorem allScalar_none_vector (d : List (String × Comp γ)) (h : allScalar d = none) :
    ∃ c ∈ d, ∃ vs, c.2 = .vector vs := by
  induction d with
  | nil => simp [allScalar] at h
  | cons p d ih =>
    obtain ⟨k, c⟩ := p
    cases c with
    | scalar v =>
      simp only [allScalar, Option.map_eq_none_iff] at h
      obtain ⟨c, hc, hv⟩ := ih h
      exact ⟨c, List.mem_cons_of_mem _ hc, hv⟩
    | vector vs => exact ⟨_, List.mem_cons_self, vs, rfl⟩

/-- scalar components: the evaluated `replace` is the model's `DtRe.replace`. -/
theorem replace_scalar_model [Inhabited γ] (repl : ε → List (String × γ) → ε) (xs : List (Option ε))
    (ps : List (String × Option (Comp γ))) (kw : List (String × γ)) (hsc : allScalar (kwargsOf ps) = some kw) :
    (mapOpt (fun y => some (repl y kw)) xs).map (DVal.out (ε := ε) (γ := γ)) =
      some (.out (DtRe.replace repl xs (kwargsOf ps))) := by
  rw [mapOpt_total]
  unfold DtRe.replace
  split
  · rw [pull_elementwise, ← allScalar_eq_at _ _ hsc]
    rfl
  · rename_i hne
    exfalso
    apply hne
    apply List.all_eq_true.mpr
    intro c hc
    obtain ⟨v, hv⟩ := allScalar_all _ _ hsc c hc
    simp [hv]

/-- vector components: the evaluated `replace` is the model's `DtRe.replace`, for a `replace` that — like Python's
    keyword call — does not depend on the order of the keywords. -/
theorem replace_vector_model [Inhabited γ] (repl : ε → List (String × γ) → ε)
    (hperm : ∀ y kw kw', kw.Perm kw' → repl y kw = repl y kw') (xs : List (Option ε))
    (ps : List (String × Option (Comp γ))) (hvec : allScalar (kwargsOf ps) = none)
    (hlen : (kwargsOf ps).all (fun p => lenOk xs.length p.2) = true) :
    (mapOptIdx (fun j y => some (repl y (kwAt ps j))) 0 xs).map (DVal.out (ε := ε) (γ := γ)) =
      some (.out (DtRe.replace repl xs (kwargsOf ps))) := by
  rw [mapOptIdx_total]
  unfold DtRe.replace
  split
  · rename_i hall
    exfalso
    obtain ⟨c, hc, vs, hv⟩ := allScalar_none_vector _ hvec
    have := List.all_eq_true.mp hall c hc
    simp [hv] at this
  simp only [Option.map_some]
  congr 2
  apply List.map_congr_left
  intro p hp
  obtain ⟨x, i⟩ := p
  have hi := (List.mem_zipIdx hp).2.1
  cases x with
  | none => rfl
  | some y =>
    simp only [Option.map_some]
    congr 1
    exact hperm y _ _ (kwAt_perm ps i (hasAt_of_lenOk xs ps hlen i (by omega)))

/-! ### what `mapOpt` returns -/

theorem mapOpt_eq_bind {α β : Type} (g : α → Option β) (xs : List (Option α)) (l : List (Option β))
    (h : mapOpt g xs = some l) : l = xs.map (fun x => x.bind g) := by
  induction xs generalizing l with
  | nil => simp [mapOpt] at h; subst h; rfl
  | cons x xs ih =>
    cases x with
    | none =>
      simp only [mapOpt, Option.map_eq_some_iff] at h
      obtain ⟨l', h1, rfl⟩ := h
      simp [ih l' h1]
    | some y =>
      simp only [mapOpt] at h
      cases hg : g y with
      | none => rw [hg] at h; cases h
      | some v =>
        rw [hg] at h
        simp only [Option.map_eq_some_iff] at h
        obtain ⟨l', h1, rfl⟩ := h
        simp [ih l' h1, hg]

/-- missing out ⇔ missing in, position by position. -/
theorem mapOpt_isNone {α β : Type} (g : α → Option β) (xs : List (Option α)) (l : List (Option β))
    (h : mapOpt g xs = some l) : l.map (·.isNone) = xs.map (·.isNone) := by
  induction xs generalizing l with
  | nil => simp [mapOpt] at h; subst h; rfl
  | cons x xs ih =>
    cases x with
    | none =>
      simp only [mapOpt, Option.map_eq_some_iff] at h
      obtain ⟨l', h1, rfl⟩ := h
      simp [ih l' h1]
    | some y =>
      simp only [mapOpt] at h
      cases hg : g y with
      | none => rw [hg] at h; cases h
      | some v =>
        rw [hg] at h
        simp only [Option.map_eq_some_iff] at h
        obtain ⟨l', h1, rfl⟩ := h
        simp [ih l' h1]

/-! ### `replace`: a one-element vector component and the scalar agree -/

/-- a scalar component as the one-element vector. -/
def vec1 : Comp γ → Comp γ
  | .scalar v => .vector [v]
  | .vector vs => .vector vs

/-- every scalar component replaced by the one-element vector holding it. -/
def vec1Params (ps : List (String × Option (Comp γ))) : List (String × Option (Comp γ)) :=
  ps.map (fun p => (p.1, p.2.map vec1))

theorem vec1Params_names (ps : List (String × Option (Comp γ))) : (vec1Params ps).map (·.1) = ps.map (·.1) := by
  simp [vec1Params, List.map_map, Function.comp_def]

theorem kwargsOf_vec1 (ps : List (String × Option (Comp γ))) :
    kwargsOf (vec1Params ps) = (kwargsOf ps).map (fun c => (c.1, vec1 c.2)) := by
  induction ps with
  | nil => rfl
  | cons p ps ih =>
    obtain ⟨n, a⟩ := p
    cases a with
    | none => simpa [kwargsOf, vec1Params] using ih
    | some c =>
      simp only [kwargsOf, vec1Params, List.map_cons, List.filterMap_cons, Option.map_some] at ih ⊢
      rw [ih]

theorem vec1_filter_scalar (d : List (String × Comp γ)) :
    (d.map (fun c => (c.1, vec1 c.2))).filter (fun p => p.2.isScalar) = [] := by
  rw [List.filter_eq_nil_iff]
  intro p hp
  obtain ⟨c, _, rfl⟩ := List.mem_map.mp hp
  cases h : c.2 <;> simp [vec1, Comp.isScalar, h]

theorem vec1_filter_vector (d : List (String × Comp γ)) :
    (d.map (fun c => (c.1, vec1 c.2))).filter (fun p => !p.2.isScalar) = d.map (fun c => (c.1, vec1 c.2)) := by
  rw [List.filter_eq_self]
  intro p hp
  obtain ⟨c, _, rfl⟩ := List.mem_map.mp hp
  cases h : c.2 <;> simp [vec1, Comp.isScalar, h]

theorem vec1_entries (d : List (String × Comp γ)) (kw : List (String × γ)) (h : allScalar d = some kw) :
    scalarsOf (vecEntries 0 (d.map (fun c => (c.1, vec1 c.2)))) = kw := by
  induction d generalizing kw with
  | nil => simp [allScalar] at h; subst h; rfl
  | cons p d ih =>
    obtain ⟨k, c⟩ := p
    cases c with
    | scalar v =>
      simp only [allScalar, Option.map_eq_some_iff] at h
      obtain ⟨l, hl, rfl⟩ := h
      have := ih l hl
      simp only [vecEntries, scalarsOf, List.map_cons, vec1, List.filterMap_cons, List.getElem?_cons_zero,
        Option.map_some] at this ⊢
      rw [this]
    | vector vs => simp [allScalar] at h

theorem kwAt_vec1 (ps : List (String × Option (Comp γ))) (kw : List (String × γ))
    (h : allScalar (kwargsOf ps) = some kw) : kwAt (vec1Params ps) 0 = kw := by
  unfold kwAt dS dV
  rw [kwargsOf_vec1, vec1_filter_scalar, vec1_filter_vector, List.nil_append, vec1_entries _ _ h]

theorem lenOk_vec1 (ps : List (String × Option (Comp γ))) (kw : List (String × γ))
    (h : allScalar (kwargsOf ps) = some kw) :
    (kwargsOf (vec1Params ps)).all (fun p => lenOk 1 p.2) = true := by
  rw [kwargsOf_vec1, List.all_eq_true]
  intro p hp
  obtain ⟨c, hc, rfl⟩ := List.mem_map.mp hp
  obtain ⟨v, hv⟩ := allScalar_all _ _ h c hc
  simp [hv, vec1, lenOk]

theorem allScalar_vec1_none (ps : List (String × Option (Comp γ))) (hne : kwargsOf ps ≠ []) :
    allScalar (kwargsOf (vec1Params ps)) = none := by
  rw [kwargsOf_vec1]
  cases hd : kwargsOf ps with
  | nil => exact absurd hd hne
  | cons p d =>
    obtain ⟨k, c⟩ := p
    cases c <;> simp [vec1, allScalar]

/-! ### the seven component parameters of `replace` -/

/-- the optional components of a call `dt.replace(x, year=…, …, microsecond=…)`. -/
structure ReplArgs (γ : Type) where
  year : Option (Comp γ) := none
  month : Option (Comp γ) := none
  day : Option (Comp γ) := none
  hour : Option (Comp γ) := none
  minute : Option (Comp γ) := none
  second : Option (Comp γ) := none
  microsecond : Option (Comp γ) := none

/-- in signature order. -/
def ReplArgs.params (a : ReplArgs γ) : List (String × Option (Comp γ)) :=
  [("year", a.year), ("month", a.month), ("day", a.day), ("hour", a.hour), ("minute", a.minute), ("second", a.second),
   ("microsecond", a.microsecond)]

theorem ReplArgs.names (a : ReplArgs γ) : ∀ p ∈ a.params, p.1 ∈ compNames := by
  intro p hp
  simp only [ReplArgs.params, List.mem_cons, List.mem_nil_iff, or_false] at hp
  rcases hp with rfl | rfl | rfl | rfl | rfl | rfl | rfl <;> simp [compNames]

theorem ReplArgs.nodup (a : ReplArgs γ) : (a.params.map (·.1)).Nodup := by
  show (compNames).Nodup
  decide

end DI.PyEvalLiftDt

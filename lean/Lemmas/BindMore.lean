/-
  Lemmas/BindMore.lean — C09: cbind, update and ungrouped modify leave every untouched column whole.
-/
import Model.Bind
import Lemmas.Bind

namespace DI.Bind

theorem mapM_opt_spec {α β : Type} (f : α → Option β) :
    ∀ (l : List α) (out : List β), l.mapM f = some out →
      out.length = l.length ∧ ∀ i (h1 : i < l.length) (h2 : i < out.length), f l[i] = some out[i]
  | [], out, h => by
    simp at h; subst h; exact ⟨rfl, fun i h1 => absurd h1 (Nat.not_lt_zero _)⟩
  | a :: l, out, h => by
    rw [List.mapM_cons] at h
    cases hfa : f a with
    | none => simp [hfa] at h
    | some b =>
      cases hl : l.mapM f with
      | none => simp [hfa, hl] at h
      | some bs =>
        simp [hfa, hl] at h
        subst h
        obtain ⟨e1, e2⟩ := mapM_opt_spec f l bs hl
        refine ⟨by simp [e1], ?_⟩
        intro i h1 h2
        cases i with
        | zero => simpa using hfa
        | succ k => simpa using e2 k (by simpa using h1) (by simpa using h2)

/-- the only two ways a column is fitted to a frame: taken whole, or a single row broadcast. -/
def Fitted (i : Nat) (c : String) (len nrow : Nat) (s : List Src) : Prop :=
  s = colCells i c len ∨ (len = 1 ∧ s = List.replicate nrow (Src.cell i c 0))

theorem reconcile_fitted (i : Nat) (c : String) (len nrow : Nat) (e : Bool) (s : List Src)
    (h : reconcile i c len nrow e = some s) : Fitted i c len nrow s := by
  unfold reconcile at h
  split at h
  · simp at h; exact Or.inl h.symm
  · split at h
    · rename_i h1
      simp at h; exact Or.inr ⟨h1.1, h.symm⟩
    · cases h

/-- `update`: self's columns that other does not have come first, whole and in order; then other's
    columns in order, each whole or broadcast. -/
theorem update_spec (self other : Frame) (out : List OutCol) (h : update self other = some out) :
    ∃ o, out = (self.names.filter (fun c => !other.names.contains c)).map (fun c => (c, colCells 0 c self.nrow)) ++ o ∧
      o.length = other.names.length ∧
      ∀ i (h1 : i < other.names.length) (h2 : i < o.length),
        (o[i]).1 = other.names[i] ∧ Fitted 1 other.names[i] other.nrow self.nrow (o[i]).2 := by
  unfold update at h
  simp only at h
  cases hm : other.names.mapM (fun c => (reconcile 1 c other.nrow self.nrow self.names.isEmpty).map (fun s => (c, s))) with
  | none => simp [hm] at h
  | some o =>
    simp [hm] at h
    obtain ⟨e1, e2⟩ := mapM_opt_spec _ _ _ hm
    refine ⟨o, by rw [← h]; simp, e1, ?_⟩
    intro i h1 h2
    have hp := e2 i h1 h2
    cases hr : reconcile 1 other.names[i] other.nrow self.nrow self.names.isEmpty with
    | none => simp [hr] at hp
    | some s =>
      simp [hr] at hp
      rw [← hp]
      exact ⟨rfl, reconcile_fitted _ _ _ _ _ _ hr⟩

theorem mem_dictOf_of_unique (ps : List OutCol) (p : OutCol) (hp : p ∈ ps)
    (hu : ∀ q ∈ ps, q.1 = p.1 → q = p) : p ∈ dictOf ps := by
  -- generalise over the accumulator of the fold
  have key : ∀ (ps d : List OutCol), (∀ q ∈ ps, q.1 = p.1 → q = p) → (p ∈ d ∨ p ∈ ps) →
      p ∈ ps.foldl (fun d p => if d.any (fun q => q.1 == p.1) then d.map (fun q => if q.1 == p.1 then p else q)
                       else d ++ [p]) d := by
    intro ps
    induction ps with
    | nil => intro d _ h; rcases h with h | h; exact h; cases h
    | cons x xs ih =>
      intro d hu h
      simp only [List.foldl_cons]
      apply ih _ (fun q hq => hu q (by simp [hq]))
      by_cases hx : x = p
      · subst hx
        left
        split
        · rename_i hany
          simp only [List.any_eq_true, beq_iff_eq] at hany
          obtain ⟨q, hq, hq1⟩ := hany
          exact List.mem_map.mpr ⟨q, hq, by simp [hq1]⟩
        · simp
      · rcases h with h | h
        · left
          split
          · apply List.mem_map.mpr
            refine ⟨p, h, ?_⟩
            have : ¬ (p.1 = x.1) := fun e => hx (hu x (by simp) e.symm)
            simp [this]
          · simp [h]
        · rcases List.mem_cons.mp h with h | h
          · exact absurd h.symm hx
          · right; exact h
  exact key ps [] hu (Or.inr hp)

/-- ungrouped `modify`: every column of self that is not assigned is in the result, whole; and every
    result column is either such an own column or one of the given values. -/
theorem modify_spec (self : Frame) (kvs : List (String × Nat)) (out : List OutCol)
    (h : modify self kvs = some out) :
    (∀ c ∈ self.names, c ∉ kvs.map (·.1) → (c, colCells 0 c self.nrow) ∈ out) ∧
    (∀ p ∈ out, (p.1 ∈ self.names ∧ p.2 = colCells 0 p.1 self.nrow) ∨ p.1 ∈ kvs.map (·.1)) ∧
    (out.map (·.1)).Nodup := by
  unfold modify at h
  simp only at h
  generalize hf : (fun (x : String × Nat) =>
      (if x.2 = self.nrow || self.names.isEmpty then some ((List.range x.2).map (fun r => Src.value x.1 r))
       else if x.2 = 1 ∧ 1 ≤ self.nrow then some (List.replicate self.nrow (Src.value x.1 0))
       else none).map (fun s => (x.1, s))) = f at h
  cases hm : kvs.mapM f with
  | none =>
    have : kvs.mapM (fun (x : String × Nat) => f x) = none := hm
    simp [← hf] at this
    simp [← hf, this] at h
  | some vs =>
    have hm' := hm
    rw [← hf] at hm'
    simp only [← hf] at h
    have hh : out = dictOf (self.names.map (fun c => (c, colCells 0 c self.nrow)) ++ vs) := by
      have : (kvs.mapM (fun (x : String × Nat) =>
        (if x.2 = self.nrow || self.names.isEmpty then some ((List.range x.2).map (fun r => Src.value x.1 r))
         else if x.2 = 1 ∧ 1 ≤ self.nrow then some (List.replicate self.nrow (Src.value x.1 0))
         else none).map (fun s => (x.1, s)))) = some vs := hm'
      simp only [this, Option.map_some, Option.some.injEq] at h
      exact h.symm
    have hvs := mapM_opt_spec _ _ _ hm'
    have hvs1 : ∀ v ∈ vs, v.1 ∈ kvs.map (·.1) := by
      intro v hv
      obtain ⟨i, hi, rfl⟩ := List.mem_iff_getElem.mp hv
      have hlen := hvs.1
      have := hvs.2 i (by omega) hi
      apply List.mem_map.mpr
      refine ⟨kvs[i]'(by omega), List.getElem_mem _, ?_⟩
      split at this
      · simp at this; rw [← this]
      · split at this
        · simp at this; rw [← this]
        · simp at this
    subst hh
    refine ⟨?_, ?_, dictOf_nodup _⟩
    · intro c hc hck
      apply mem_dictOf_of_unique
      · exact List.mem_append.mpr (Or.inl (List.mem_map.mpr ⟨c, hc, rfl⟩))
      · intro q hq hq1
        rcases List.mem_append.mp hq with hq | hq
        · obtain ⟨c', _, rfl⟩ := List.mem_map.mp hq
          simp only at hq1; subst hq1; rfl
        · have := hvs1 q hq
          rw [hq1] at this
          exact absurd this hck
    · intro p hp
      have := mem_dictOf _ p hp
      rcases List.mem_append.mp this with hq | hq
      · obtain ⟨c', hc', rfl⟩ := List.mem_map.mp hq
        exact Or.inl ⟨hc', rfl⟩
      · exact Or.inr (hvs1 p hq)

end DI.Bind

/-
  Lemmas/PyEvalLoDJoin.lean — the evaluator of `Model/PyEvalLoDJoin.lean` on the generator bodies of the joins
  (`left_join`, `inner_join`, `semi_join`, `anti_join`) and of `unique`, `select`, `rename`
  (`Proofs/EvalC16.lean` / `Proofs/EvalC15b.lean` state the results for the generated definitions).

  1. insertion-ordered association lists (`aset` / `aget` / `aofPairs`): lookup after a sequence of insertions, the
     model's `Dict.set` is `aset`, and `d.update(dict(pairs)) = d.update(pairs)` for EVERY `d` and `pairs`
     (`update_ofPairs`: a comprehension may normalise its pairs before they are merged);
  2. values: join key arguments (`ByArg`, `byVal`), key values (`keyEnc`, injective), dict values;
  3. equation lemmas of the evaluator (by `rfl`), comprehension loops (`compLoop_map`);
  4. the loop rule `forJ_inv` (evaluation follows a specification loop as long as a store invariant holds) and
     specification loops of LOCAL steps (`localStep`: read / edit only the object at hand): `specLoop_local` (pairwise
     distinct references), `specLoop_readonly`;
  5. the bodies.
-/
import Model.PyEvalLoDJoin
import Lemmas.PyEval

set_option linter.unusedSectionVars false

namespace DI.PyEvalLoD

open DI DI.Py DI.LoD

/-! ### 1. association lists -/

section AList
variable {κ β : Type} [BEq κ] [LawfulBEq κ]

/-- the replacement `aset` applies to every entry. -/
def arepl (k : κ) (v : β) (p : κ × β) : κ × β := if p.1 == k then (k, v) else p

theorem aset_def (d : List (κ × β)) (k : κ) (v : β) :
    aset d k v = if d.any (fun p => p.1 == k) then d.map (arepl k v) else d ++ [(k, v)] := rfl

theorem arepl_fst (k : κ) (v : β) (p : κ × β) : (arepl k v p).1 = p.1 := by
  unfold arepl
  split
  · rename_i h; exact (eq_of_beq h).symm
  · rfl

theorem any_map_arepl (d : List (κ × β)) (k x : κ) (v : β) :
    (d.map (arepl k v)).any (fun p => p.1 == x) = d.any (fun p => p.1 == x) := by
  rw [List.any_map]
  congr 1
  funext p
  simp only [Function.comp, arepl_fst]

theorem map_arepl_of_not_any (d : List (κ × β)) (k : κ) (v : β) (h : d.any (fun p => p.1 == k) = false) :
    d.map (arepl k v) = d := by
  rw [List.any_eq_false] at h
  conv => rhs; rw [← List.map_id d]
  apply List.map_congr_left
  intro p hp
  have := h p hp
  simp only [arepl, id]
  split
  · contradiction
  · rfl

theorem aset_cons_ne (p : κ × β) (d : List (κ × β)) (k : κ) (v : β) (h : (p.1 == k) = false) :
    aset (p :: d) k v = p :: aset d k v := by
  simp only [aset_def, List.any_cons, h, Bool.false_or, List.map_cons, List.cons_append]
  split
  · simp only [arepl, h, Bool.false_eq_true, if_false]
  · rfl

theorem aset_cons_eq (p : κ × β) (d : List (κ × β)) (k : κ) (v : β) (h : (p.1 == k) = true) :
    aset (p :: d) k v = (k, v) :: d.map (arepl k v) := by
  simp only [aset_def, List.any_cons, h, Bool.true_or, if_true, List.map_cons, arepl]

theorem any_aset (d : List (κ × β)) (k x : κ) (v : β) :
    (aset d k v).any (fun p => p.1 == x) = (d.any (fun p => p.1 == x) || k == x) := by
  rw [aset_def]
  split
  · rename_i h
    rw [any_map_arepl]
    by_cases hx : k = x
    · subst hx; simp [h]
    · have : (k == x) = false := by simpa using hx
      simp [this]
  · simp [List.any_append]

/-- `d[k] = v0; d[k] = v` is `d[k] = v`. -/
theorem aset_aset_same (d : List (κ × β)) (k : κ) (v0 v : β) : aset (aset d k v0) k v = aset d k v := by
  induction d with
  | nil => simp [aset_def, arepl]
  | cons p d ih =>
    cases h : (p.1 == k) with
    | false => rw [aset_cons_ne p d k v0 h, aset_cons_ne p _ k v h, aset_cons_ne p d k v h, ih]
    | true =>
      rw [aset_cons_eq p d k v0 h, aset_cons_eq p d k v h, aset_cons_eq _ _ k v (by simp), List.map_map]
      congr 1
      apply List.map_congr_left
      intro q _
      simp only [Function.comp, arepl]
      split <;> simp_all

/-- writes under different keys commute, once the first key is there (positions are then fixed). -/
theorem aset_comm (d : List (κ × β)) (k k' : κ) (v v' : β) (hne : (k' == k) = false)
    (hk : d.any (fun p => p.1 == k) = true) : aset (aset d k' v') k v = aset (aset d k v) k' v' := by
  have hne' : (k == k') = false := by
    cases h : (k == k') with
    | false => rfl
    | true => rw [eq_of_beq h] at hne; simp at hne
  have h1 : (aset d k' v').any (fun p => p.1 == k) = true := by rw [any_aset, hk]; rfl
  have h2 : (aset d k v).any (fun p => p.1 == k') = d.any (fun p => p.1 == k') := by
    rw [any_aset, hne', Bool.or_false]
  have hpt : ∀ p : κ × β, arepl k v (arepl k' v' p) = arepl k' v' (arepl k v p) := by
    intro p
    simp only [arepl]
    by_cases a : (p.1 == k) = true
    · have b : (p.1 == k') = false := by
        cases hb : (p.1 == k') with
        | false => rfl
        | true => rw [← eq_of_beq a, ← eq_of_beq hb] at hne; simp at hne
      simp [a, b, hne']
    · have a' : (p.1 == k) = false := by simpa using a
      by_cases b : (p.1 == k') = true
      · simp [a', b, hne]
      · have b' : (p.1 == k') = false := by simpa using b
        simp [a', b']
  rw [aset_def (aset d k' v') k v, if_pos h1, aset_def (aset d k v) k' v', h2, aset_def d k v, if_pos hk]
  rw [aset_def d k' v']
  cases hk' : d.any (fun p => p.1 == k') with
  | true =>
    simp only [if_true, List.map_map]
    apply List.map_congr_left
    intro p _
    exact hpt p
  | false =>
    simp only [Bool.false_eq_true, if_false, List.map_append, List.map_cons, List.map_nil, arepl, hne]

theorem foldl_aset_any (ps : List (κ × β)) (d : List (κ × β)) (k : κ) (h : d.any (fun p => p.1 == k) = true) :
    (ps.foldl (fun d p => aset d p.1 p.2) d).any (fun p => p.1 == k) = true := by
  induction ps generalizing d with
  | nil => exact h
  | cons q ps ih => exact ih _ (by rw [any_aset, h]; rfl)

/-- a write under a key that is already there can be moved before later writes under other keys. -/
theorem aset_foldl_comm (B : List (κ × β)) (d : List (κ × β)) (k : κ) (v : β)
    (hk : d.any (fun p => p.1 == k) = true) (hB : B.any (fun p => p.1 == k) = false) :
    aset (B.foldl (fun d p => aset d p.1 p.2) d) k v = B.foldl (fun d p => aset d p.1 p.2) (aset d k v) := by
  induction B generalizing d with
  | nil => rfl
  | cons q B ih =>
    simp only [List.any_cons, Bool.or_eq_false_iff] at hB
    rw [List.foldl_cons, List.foldl_cons, ih _ (by rw [any_aset, hk]; rfl) hB.2, aset_comm d k q.1 v q.2 hB.1 hk]

/-- merging a dict with one more write = merging it, then writing — when the dict has no repeated key. -/
theorem foldl_aset_aset (E : List (κ × β)) (hE : (E.map (·.1)).Nodup) (d : List (κ × β)) (k : κ) (v : β) :
    (aset E k v).foldl (fun d p => aset d p.1 p.2) d = aset (E.foldl (fun d p => aset d p.1 p.2) d) k v := by
  induction E generalizing d with
  | nil => simp [aset_def]
  | cons p E ih =>
    simp only [List.map_cons, List.nodup_cons] at hE
    cases h : (p.1 == k) with
    | false => rw [aset_cons_ne p E k v h, List.foldl_cons, List.foldl_cons, ih hE.2]
    | true =>
      have hpk : p.1 = k := eq_of_beq h
      have hnot : E.any (fun q => q.1 == k) = false := by
        rw [List.any_eq_false]
        intro q hq hc
        exact hE.1 (List.mem_map.mpr ⟨q, hq, by rw [eq_of_beq hc, hpk]⟩)
      rw [aset_cons_eq p E k v h, map_arepl_of_not_any E k v hnot, List.foldl_cons, List.foldl_cons,
        aset_foldl_comm E _ k v (by rw [any_aset, hpk]; simp) hnot, hpk, aset_aset_same]

theorem nodup_keys_aset (E : List (κ × β)) (hE : (E.map (·.1)).Nodup) (k : κ) (v : β) :
    ((aset E k v).map (·.1)).Nodup := by
  rw [aset_def]
  split
  · rw [List.map_map]
    have : ((fun p : κ × β => p.1) ∘ arepl k v) = fun p => p.1 := by funext p; exact arepl_fst k v p
    rw [this]; exact hE
  · rename_i h
    rw [List.map_append, List.nodup_append]
    refine ⟨hE, by simp, ?_⟩
    intro a ha b hb
    simp only [List.map_cons, List.map_nil, List.mem_singleton] at hb
    subst hb
    intro e
    subst e
    apply h
    obtain ⟨q, hq, e⟩ := List.mem_map.mp ha
    rw [List.any_eq_true]
    exact ⟨q, hq, by rw [e]; simp⟩

theorem foldl_aset_foldl (ps : List (κ × β)) (E : List (κ × β)) (hE : (E.map (·.1)).Nodup) (d : List (κ × β)) :
    (ps.foldl (fun d p => aset d p.1 p.2) E).foldl (fun d p => aset d p.1 p.2) d =
      ps.foldl (fun d p => aset d p.1 p.2) (E.foldl (fun d p => aset d p.1 p.2) d) := by
  induction ps generalizing E d with
  | nil => rfl
  | cons p ps ih =>
    rw [List.foldl_cons, List.foldl_cons, ih _ (nodup_keys_aset E hE p.1 p.2), foldl_aset_aset E hE]

/-- **`d.update(dict(pairs)) = d.update(pairs)`**, for every `d` (repeated keys in `d` allowed). -/
theorem foldl_aset_aofPairs (ps : List (κ × β)) (d : List (κ × β)) :
    (aofPairs ps).foldl (fun d p => aset d p.1 p.2) d = ps.foldl (fun d p => aset d p.1 p.2) d :=
  foldl_aset_foldl ps [] (by simp) d

/-! lookups -/

theorem aget_aset_self (d : List (κ × β)) (k : κ) (v : β) : aget (aset d k v) k = some v := by
  induction d with
  | nil => simp [aset_def, aget]
  | cons p d ih =>
    cases h : (p.1 == k) with
    | false =>
      rw [aset_cons_ne p d k v h]
      simp only [aget, List.find?_cons, h] at ih ⊢
      exact ih
    | true => rw [aset_cons_eq p d k v h]; simp [aget]

theorem aget_aset_other (d : List (κ × β)) (k k' : κ) (v : β) (hne : (k == k') = false) :
    aget (aset d k v) k' = aget d k' := by
  induction d with
  | nil => simp [aset_def, aget, hne]
  | cons p d ih =>
    cases h : (p.1 == k) with
    | false =>
      rw [aset_cons_ne p d k v h]
      simp only [aget, List.find?_cons] at ih ⊢
      cases (p.1 == k') with
      | true => rfl
      | false => exact ih
    | true =>
      rw [aset_cons_eq p d k v h]
      have hp : (p.1 == k') = false := by rw [eq_of_beq h]; exact hne
      simp only [aget, List.find?_cons, hne, hp]
      by_cases ha : d.any (fun p => p.1 == k) = true
      · have := ih
        rw [aset_def, if_pos ha] at this
        simpa [aget] using this
      · rw [map_arepl_of_not_any d k v (Bool.eq_false_iff.mpr ha)]

/-- lookup after a sequence of writes: the value of the LAST pair with that key, else the old value. -/
theorem aget_foldl (ps : List (κ × β)) (d : List (κ × β)) (k : κ) :
    aget (ps.foldl (fun d p => aset d p.1 p.2) d) k =
      ((ps.reverse.find? (fun p => p.1 == k)).map (·.2)).or (aget d k) := by
  induction ps generalizing d with
  | nil => simp
  | cons p t ih =>
    rw [List.foldl_cons, ih, List.reverse_cons, List.find?_append]
    cases ht : t.reverse.find? (fun p => p.1 == k) with
    | some q => simp
    | none =>
      simp only [Option.none_or, Option.map_none, List.find?_cons, List.find?_nil]
      cases hk : (p.1 == k) with
      | true => rw [eq_of_beq hk]; simp [aget_aset_self]
      | false => simp [aget_aset_other d p.1 k p.2 hk]

theorem aget_aofPairs (ps : List (κ × β)) (k : κ) :
    aget (aofPairs ps) k = (ps.reverse.find? (fun p => p.1 == k)).map (·.2) := by
  unfold aofPairs
  rw [aget_foldl]
  simp [aget]

theorem any_eq_aget_isSome (d : List (κ × β)) (k : κ) : d.any (fun p => p.1 == k) = (aget d k).isSome := by
  induction d with
  | nil => rfl
  | cons p d ih =>
    simp only [aget, List.any_cons, List.find?_cons] at ih ⊢
    cases (p.1 == k) <;> simp [ih]

end AList

/-! the model's dicts are association lists with string keys -/

theorem Dict.set_eq_aset (d : LoD.Dict) (k : String) (v : LoD.Val) : d.set k v = aset d k v := rfl

theorem Dict.ofPairs_eq_aofPairs (ps : List (String × LoD.Val)) : Dict.ofPairs ps = aofPairs ps := rfl

/-- **`d.update(dict(pairs)) = d.update(pairs)`**. -/
theorem update_ofPairs (d : LoD.Dict) (ps : List (String × LoD.Val)) : d.update (Dict.ofPairs ps) = d.update ps :=
  foldl_aset_aofPairs ps d

/-- `dict(dict(pairs)) = dict(pairs)`. -/
theorem ofPairs_ofPairs (ps : List (String × LoD.Val)) : Dict.ofPairs (Dict.ofPairs ps) = Dict.ofPairs ps :=
  foldl_aset_aofPairs ps []

/-- an injective re-labelling of keys and values commutes with insertion. -/
theorem aset_map {κ β κ' β' : Type} [BEq κ] [LawfulBEq κ] [BEq κ'] [LawfulBEq κ'] (g : κ → κ') (h : β → β')
    (hg : ∀ a b, g a = g b → a = b) (d : List (κ × β)) (k : κ) (v : β) :
    aset (d.map fun p => (g p.1, h p.2)) (g k) (h v) = (aset d k v).map fun p => (g p.1, h p.2) := by
  have hb : ∀ a b : κ, (g a == g b) = (a == b) := by
    intro a b
    by_cases e : a = b
    · subst e; simp
    · have : g a ≠ g b := fun c => e (hg a b c)
      rw [beq_eq_false_iff_ne.mpr this, beq_eq_false_iff_ne.mpr e]
  have hany : (d.map fun p => (g p.1, h p.2)).any (fun p => p.1 == g k) = d.any (fun p => p.1 == k) := by
    rw [List.any_map]
    congr 1
    funext p
    exact hb _ _
  rw [aset_def, hany, aset_def]
  split
  · rw [List.map_map, List.map_map]
    apply List.map_congr_left
    intro p _
    simp only [Function.comp, arepl, hb]
    split <;> rfl
  · simp

theorem aofPairs_map {κ β κ' β' : Type} [BEq κ] [LawfulBEq κ] [BEq κ'] [LawfulBEq κ'] (g : κ → κ') (h : β → β')
    (hg : ∀ a b, g a = g b → a = b) (ps : List (κ × β)) :
    aofPairs (ps.map fun p => (g p.1, h p.2)) = (aofPairs ps).map fun p => (g p.1, h p.2) := by
  unfold aofPairs
  suffices H : ∀ acc : List (κ × β),
      (ps.map fun p => (g p.1, h p.2)).foldl (fun d p => aset d p.1 p.2) (acc.map fun p => (g p.1, h p.2)) =
        (ps.foldl (fun d p => aset d p.1 p.2) acc).map fun p => (g p.1, h p.2) by simpa using H []
  induction ps with
  | nil => intro acc; rfl
  | cons p ps ih =>
    intro acc
    rw [List.map_cons, List.foldl_cons, List.foldl_cons, aset_map g h hg, ih]

/-! ### 2. values -/

/-- one `by` argument of a join: a key name valid on both sides, or a (left name, right name) pair. -/
inductive ByArg where
  | same (k : String)
  | pair (a b : String)
  deriving Repr, DecidableEq

def ByArg.val : ByArg → PVal
  | .same k => PVal.str k
  | .pair a b => .tuple [PVal.str a, PVal.str b]
def ByArg.left : ByArg → String | .same k => k | .pair a _ => a
def ByArg.right : ByArg → String | .same k => k | .pair _ b => b

/-- `*by` as it enters the environment. -/
def byVal (bys : List ByArg) : PVal := .tuple (bys.map ByArg.val)
/-- the key names on the left / right side (`_split_join_by`). -/
def byLeft (bys : List ByArg) : List String := bys.map ByArg.left
def byRight (bys : List ByArg) : List String := bys.map ByArg.right

theorem splitBy_left (σ : Store) (bys : List ByArg) : splitBy σ 0 (byVal bys) = some (keysVal (byLeft bys)) := by
  simp only [splitBy, byVal]
  rw [allM_map _ ByArg.val (fun b => PVal.str b.left) (fun b => by cases b <;> rfl)]
  simp [keysVal, byLeft]

theorem splitBy_right (σ : Store) (bys : List ByArg) : splitBy σ 1 (byVal bys) = some (keysVal (byRight bys)) := by
  simp only [splitBy, byVal]
  rw [allM_map _ ByArg.val (fun b => PVal.str b.right) (fun b => by cases b <;> rfl)]
  simp [keysVal, byRight]

/-- the value of `operator.itemgetter(*keys)(item)`: the value itself for one key, a tuple otherwise. -/
def keyEnc : List LoD.Val → PVal
  | [v] => .atom v
  | vs => .tuple (vs.map PVal.atom)

theorem keyEnc_inj (a b : List LoD.Val) (h : keyEnc a = keyEnc b) : a = b := by
  match a, b, h with
  | [], [], _ => rfl
  | [], [_], h => simp [keyEnc] at h
  | [], _ :: _ :: _, h => simp [keyEnc] at h
  | [_], [], h => simp [keyEnc] at h
  | [x], [y], h => simp only [keyEnc, PVal.atom.injEq] at h; rw [h]
  | [_], _ :: _ :: _, h => simp [keyEnc] at h
  | _ :: _ :: _, [], h => simp [keyEnc] at h
  | _ :: _ :: _, [_], h => simp [keyEnc] at h
  | x :: x' :: xs, y :: y' :: ys, h =>
    simp only [keyEnc, PVal.tuple.injEq] at h
    exact (map_atom_inj _ _).mp h

theorem keyEnc_beq (a b : List LoD.Val) : (keyEnc a == keyEnc b) = (a == b) := by
  by_cases e : a = b
  · subst e; simp
  · have : keyEnc a ≠ keyEnc b := fun c => e (keyEnc_inj a b c)
    rw [beq_eq_false_iff_ne.mpr this, beq_eq_false_iff_ne.mpr e]

theorem keyEnc_plain (a : List LoD.Val) : (keyEnc a).plain = true := by
  match a with
  | [] => rfl
  | [_] => rfl
  | x :: y :: t => exact plain_tuple_atoms (x :: y :: t)

theorem contains_map_keyEnc (L : List (List LoD.Val)) (a : List LoD.Val) :
    (L.map keyEnc).contains (keyEnc a) = L.contains a := by
  induction L with
  | nil => rfl
  | cons x L ih => simp only [List.map_cons, List.contains_cons, ih, keyEnc_beq a x]

theorem all_plain_map_keyEnc (L : List (List LoD.Val)) : (L.map keyEnc).all PVal.plain = true := by
  simp [List.all_map, Function.comp_def, keyEnc_plain]

theorem pyIn_tuple (σ : Store) (k : PVal) (vs : List PVal) :
    pyIn σ k (.tuple vs) = if k.plain && vs.all PVal.plain then some (vs.contains k) else none := by
  cases k with
  | atom v => cases v <;> rfl
  | _ => rfl

theorem pyIn_keyEnc (σ : Store) (a : List LoD.Val) (L : List (List LoD.Val)) :
    pyIn σ (keyEnc a) (.tuple (L.map keyEnc)) = some (L.contains a) := by
  rw [pyIn_tuple, keyEnc_plain, all_plain_map_keyEnc, contains_map_keyEnc]; rfl

theorem pyIn_str_keys (σ : Store) (k : String) (ks : List String) :
    pyIn σ (PVal.str k) (keysVal ks) = some (ks.contains k) := by
  have h2 : (List.map PVal.str ks).contains (PVal.str k) = ks.contains k := by
    induction ks with
    | nil => rfl
    | cons x ks ih =>
      simp only [List.map_cons, List.contains_cons, ih]
      congr 1
      by_cases e : k = x
      · subst e; simp
      · have : PVal.str k ≠ PVal.str x := fun c => e (by simpa [PVal.str] using c)
        rw [beq_eq_false_iff_ne.mpr this, beq_eq_false_iff_ne.mpr e]
  have h1 : (List.map PVal.str ks).all PVal.plain = true := by simp [List.all_map, Function.comp_def, PVal.str, PVal.plain]
  rw [keysVal, pyIn_tuple, h1, h2]; rfl

/-- what `itemgetter` returns for the values `vs`. -/
theorem igRes_cons (v : LoD.Val) (vs : List LoD.Val) :
    (match v :: vs with
      | [] => none
      | [v] => some (PVal.atom v)
      | vs => some (PVal.tuple (vs.map PVal.atom))) = some (keyEnc (v :: vs)) := by
  cases vs <;> rfl

/-- the key value of an object that has all the key columns. -/
theorem itemgetter_view (σ : Store) (ks : List String) (hne : ks ≠ []) (r : Nat) (d : LoD.Dict)
    (hl : σ.lookup r = some d) (hk : ∀ k, k ∈ ks → d.has k = true) :
    itemgetter σ (keysVal ks) (.ref r) = some (keyEnc (LoD.extract ks { tag := r, kv := d })) := by
  rw [itemgetter_keys, hl, Option.bind_some, getAll_of_has d ks hk r, Option.bind_some]
  cases ks with
  | nil => exact absurd rfl hne
  | cons k ks => exact igRes_cons _ _

/-! the store: views -/

theorem Store.view_cons_inv (σ : Store) (r : Nat) (rs : List Nat) (xs : List Item) (h : Store.view σ (r :: rs) = some xs) :
    ∃ d ys, σ.lookup r = some d ∧ Store.view σ rs = some ys ∧ xs = { tag := r, kv := d } :: ys := by
  simp only [Store.view] at h
  cases hl : σ.lookup r with
  | none => rw [hl] at h; simp at h
  | some d =>
    rw [hl] at h
    cases hv : Store.view σ rs with
    | none => rw [hv] at h; simp at h
    | some ys =>
      rw [hv] at h
      simp only [Option.bind_some, Option.map_some, Option.some.injEq] at h
      exact ⟨d, ys, rfl, rfl, h.symm⟩

theorem Store.view_cons (σ : Store) (r : Nat) (rs : List Nat) (d : LoD.Dict) (ys : List Item)
    (hl : σ.lookup r = some d) (hv : Store.view σ rs = some ys) :
    Store.view σ (r :: rs) = some ({ tag := r, kv := d } :: ys) := by
  simp only [Store.view, hl, hv, Option.bind_some, Option.map_some]

theorem Store.view_lookup_of_mem (σ : Store) (rs : List Nat) (xs : List Item) (h : Store.view σ rs = some xs)
    (x : Item) (hx : x ∈ xs) : σ.lookup x.tag = some x.kv := by
  induction rs generalizing xs with
  | nil => simp only [Store.view, Option.some.injEq] at h; subst h; cases hx
  | cons r rs ih =>
    obtain ⟨d, ys, hl, hv, e⟩ := Store.view_cons_inv σ r rs xs h
    subst e
    rcases List.mem_cons.mp hx with e | hm
    · subst e; exact hl
    · exact ih ys hv hm

theorem Store.view_of_lookups (σ : Store) (xs : List Item) (h : ∀ x, x ∈ xs → σ.lookup x.tag = some x.kv) :
    Store.view σ (xs.map (·.tag)) = some xs := by
  induction xs with
  | nil => rfl
  | cons x xs ih =>
    rw [List.map_cons, Store.view_cons σ x.tag _ x.kv xs (h x List.mem_cons_self)
      (ih fun y hy => h y (List.mem_cons_of_mem _ hy))]

/-- the key values of viewed objects. -/
theorem allM_itemgetter_view (σ : Store) (ks : List String) (hne : ks ≠ []) (os : List Nat) (ys : List Item)
    (hw : Store.view σ os = some ys) (hk : ∀ y, y ∈ ys → ∀ k, k ∈ ks → y.kv.has k = true) :
    allM (itemgetter σ (keysVal ks)) (os.map PVal.ref) = some (ys.map fun y => keyEnc (LoD.extract ks y)) := by
  induction os generalizing ys with
  | nil => simp only [Store.view, Option.some.injEq] at hw; subst hw; rfl
  | cons o os ih =>
    obtain ⟨d, zs, hl, hv, e⟩ := Store.view_cons_inv σ o os ys hw
    subst e
    simp only [List.map_cons, allM, itemgetter_view σ ks hne o d hl (hk _ List.mem_cons_self), Option.bind_some,
      ih zs hv (fun y hy => hk y (List.mem_cons_of_mem _ hy)), Option.map_some]

/-! dict values -/

/-- the `(key, value)` pairs of a dict with string keys, as values. -/
def kvEnc (p : String × LoD.Val) : PVal × PVal := (PVal.str p.1, PVal.atom p.2)

theorem dictVal_eq (d : LoD.Dict) : dictVal d = dictValP (d.map kvEnc) := rfl

theorem dictVal_eq_kvPairsVal (d : LoD.Dict) : dictVal d = kvPairsVal d := by
  simp [dictVal, dictValP, kvPairsVal, pairVal, List.map_map, Function.comp_def]

theorem asPairs_dictValP (ps : List (PVal × PVal)) : (dictValP ps).asPairs = some ps := by
  simp only [dictValP, PVal.asPairs, PVal.asTuple, Option.bind_some]
  rw [allM_map PVal.asPair pairVal id (fun _ => rfl), List.map_id]

theorem asKvs_dictVal (d : LoD.Dict) : (dictVal d).asKvs = some d := by
  simp only [dictVal_eq, PVal.asKvs, asPairs_dictValP, Option.bind_some]
  rw [allM_map _ kvEnc id (fun _ => rfl), List.map_id]

theorem kvEnc_str_inj (a b : String) (h : PVal.str a = PVal.str b) : a = b := by simpa [PVal.str] using h

/-- a comprehension over string keys builds `dict(pairs)`. -/
theorem aofPairs_kvEnc (ps : List (String × LoD.Val)) : aofPairs (ps.map kvEnc) = (Dict.ofPairs ps).map kvEnc :=
  aofPairs_map PVal.str PVal.atom kvEnc_str_inj ps

theorem itemsOf_ref (σ : Store) (m : Nat) (d : LoD.Dict) (h : σ.lookup m = some d) :
    itemsOf σ (.ref m) = some (dictVal d) := by
  simp [itemsOf, h, dictVal, dictValP, pairVal, List.map_map, Function.comp_def]

theorem itemsOf_empty (σ : Store) : itemsOf σ (.tuple []) = some (dictVal []) := rfl

/-! ### 3. equation lemmas of the evaluator, comprehension loops -/

section EqsJ
variable (F : Funs) (ρ : Env) (σ : Store)

theorem evalJE_self : evalJE F (.sym "self") ρ σ = ρ.lookup "self" := rfl
theorem evalJE_other : evalJE F (.sym "other") ρ σ = ρ.lookup "other" := rfl
theorem evalJE_item : evalJE F (.sym "item") ρ σ = ρ.lookup "item" := rfl
theorem evalJE_by : evalJE F (.sym "by") ρ σ = ρ.lookup "by" := rfl
theorem evalJE_keys : evalJE F (.sym "keys") ρ σ = ρ.lookup "keys" := rfl
theorem evalJE_new : evalJE F (.sym "new") ρ σ = ρ.lookup "new" := rfl
theorem evalJE_id : evalJE F (.sym "id") ρ σ = ρ.lookup "id" := rfl
theorem evalJE_x : evalJE F (.sym "x") ρ σ = ρ.lookup "x" := rfl
theorem evalJE_k : evalJE F (.sym "k") ρ σ = ρ.lookup "k" := rfl
theorem evalJE_v : evalJE F (.sym "v") ρ σ = ρ.lookup "v" := rfl
theorem evalJE_emptyDict : evalJE F (.sym "{}") ρ σ = some (.tuple []) := rfl
theorem evalJE_seen : evalJE F (.app "set()" []) ρ σ = some ((ρ.lookup seenName).getD (.tuple [])) := rfl
theorem evalJE_set (e : Term) : evalJE F (.app "set()" [e]) ρ σ = (evalJE F e ρ σ).bind fun v => v.asTuple.map .tuple := rfl
theorem evalJE_map_ig (ks xs : Term) :
    evalJE F (.app "map" [.app "operator.itemgetter" [.app "*" [ks]], xs]) ρ σ =
      (evalJE F ks ρ σ).bind fun vks => (evalJE F xs ρ σ).bind fun vxs => vxs.asTuple.bind fun l =>
        (allM (itemgetter σ vks) l).map .tuple := rfl
theorem evalJE_item0 (s b : Term) :
    evalJE F (.app "item0" [.app "._split_join_by" [s, .app "*" [b]]]) ρ σ = (evalJE F b ρ σ).bind (splitBy σ 0) := rfl
theorem evalJE_item1 (s b : Term) :
    evalJE F (.app "item1" [.app "._split_join_by" [s, .app "*" [b]]]) ρ σ = (evalJE F b ρ σ).bind (splitBy σ 1) := rfl
theorem evalJE_call_ig (ks x : Term) :
    evalJE F (.app "call" [.app "operator.itemgetter" [.app "*" [ks]], x]) ρ σ =
      (evalJE F ks ρ σ).bind fun vks => (evalJE F x ρ σ).bind fun vx => itemgetter σ vks vx := rfl
theorem evalJE_DictComp (dc : List Term) : evalJE F (.app "DictComp" dc) ρ σ = (evalJDC F dc ρ σ).map dictValP := rfl
theorem evalJE_ListComp (e tgt it : Term) (conds : List Term) :
    evalJE F (.app "ListComp" [e, .app "in" [tgt, it, .app "if" conds]]) ρ σ =
      (evalJE F it ρ σ).bind fun vi => vi.asTuple.bind fun vs =>
        (compLoop (bindTarget tgt) (fun ρ1 => evalJConds F conds ρ1 σ) (fun ρ1 => evalJE F e ρ1 σ) ρ vs).map .tuple := rfl
theorem evalJDC_eq (ke ve tgt it : Term) (conds : List Term) :
    evalJDC F [.app "pair" [ke, ve], .app "in" [tgt, it, .app "if" conds]] ρ σ =
      (evalJE F it ρ σ).bind fun vi => vi.asTuple.bind fun vs =>
        (compLoop (bindTarget tgt) (fun ρ1 => evalJConds F conds ρ1 σ)
          (fun ρ1 => (evalJE F ke ρ1 σ).bind fun vk => (evalJE F ve ρ1 σ).bind fun vv =>
            if vk.plain then some (vk, vv) else none) ρ vs).map aofPairs := rfl
theorem evalJConds_nil : evalJConds F [] ρ σ = some true := rfl
theorem evalJConds_cons (c : Term) (cs : List Term) : evalJConds F (c :: cs) ρ σ =
    (evalJE F c ρ σ).bind fun vc => (truthy σ vc).bind fun t => if t then evalJConds F cs ρ σ else some false := rfl
theorem evalJE_In_DC (k : Term) (dc : List Term) : evalJE F (.app "In" [k, .app "DictComp" dc]) ρ σ =
    (evalJE F k ρ σ).bind fun vk => (evalJDC F dc ρ σ).bind fun d => (dictHas d vk).map .bool := rfl
theorem evalJE_In_set (k : Term) (args : List Term) : evalJE F (.app "In" [k, .app "set()" args]) ρ σ =
    (evalJE F k ρ σ).bind fun vk => (evalJE F (.app "set()" args) ρ σ).bind fun vx => (pyIn σ vk vx).map .bool := rfl
theorem evalJE_NotIn_set (k : Term) (args : List Term) : evalJE F (.app "NotIn" [k, .app "set()" args]) ρ σ =
    (evalJE F k ρ σ).bind fun vk => (evalJE F (.app "set()" args) ρ σ).bind fun vx =>
      (pyIn σ vk vx).map (fun b => .bool !b) := rfl
theorem evalJE_NotIn_item1 (k : Term) (args : List Term) : evalJE F (.app "NotIn" [k, .app "item1" args]) ρ σ =
    (evalJE F k ρ σ).bind fun vk => (evalJE F (.app "item1" args) ρ σ).bind fun vx =>
      (pyIn σ vk vx).map (fun b => .bool !b) := rfl
theorem evalJE_In_x_item : evalJE F (.app "In" [.sym "x", .sym "item"]) ρ σ =
    (ρ.lookup "x").bind fun vk => (ρ.lookup "item").bind fun vx => (pyIn σ vk vx).map .bool := rfl
theorem evalJE_getitem_DC (dc : List Term) (k : Term) : evalJE F (.app "getitem" [.app "DictComp" dc, k]) ρ σ =
    (evalJDC F dc ρ σ).bind fun d => (evalJE F k ρ σ).bind fun vk => (dictGet d vk).bind id := rfl
theorem evalJE_get_DC (dc : List Term) (k dflt : Term) : evalJE F (.app ".get" [.app "DictComp" dc, k, dflt]) ρ σ =
    (evalJDC F dc ρ σ).bind fun d => (evalJE F k ρ σ).bind fun vk => (evalJE F dflt ρ σ).bind fun vd =>
      (dictGet d vk).map fun r => r.getD vd := rfl
theorem evalJE_zip (a b : Term) : evalJE F (.app "zip" [a, b]) ρ σ =
    (evalJE F a ρ σ).bind fun va => (evalJE F b ρ σ).bind fun vb => zipVal va vb := rfl
theorem evalJE_AttributeDict (e : Term) : evalJE F (.app "AttributeDict" [e]) ρ σ =
    (evalJE F e ρ σ).bind fun v => v.asKvs.map fun d => dictVal (Dict.ofPairs d) := rfl
/-- forms left to `Model/PyEval.lean`. -/
theorem evalJE_reversed_other : evalJE F (.app "reversed" [.sym "other"]) ρ σ =
    (ρ.lookup "other").bind fun vx => vx.asTuple.map fun l => .tuple l.reverse := rfl
theorem evalJE_items_new : evalJE F (.app ".items" [.sym "new"]) ρ σ = (ρ.lookup "new").bind (itemsOf σ) := rfl
theorem evalJE_items_tfp : evalJE F (.app ".items" [.sym "to_from_pairs"]) ρ σ =
    (ρ.lookup "to_from_pairs").bind (itemsOf σ) := rfl
theorem evalJE_keys_item : evalJE F (.app ".keys" [.sym "item"]) ρ σ = (ρ.lookup "item").bind (keysOf σ) := rfl
theorem evalJE_values_item : evalJE F (.app ".values" [.sym "item"]) ρ σ = (ρ.lookup "item").bind (valuesOf σ) := rfl
theorem evalJE_getitem_item_x : evalJE F (.app "getitem" [.sym "item", .sym "x"]) ρ σ =
    (ρ.lookup "item").bind fun vx => (ρ.lookup "x").bind fun vk => getItem σ vx vk := rfl

end EqsJ

section EqsJS
variable (F : Funs)

theorem evalJS_block (ss : List Term) (s : St) : evalJS F (.app "block" ss) s = evalJB F ss s := rfl
theorem evalJB_nil (s : St) : evalJB F [] s = some (Ctl.normal, s) := rfl
theorem evalJB_cons (t : Term) (ts : List Term) (s : St) :
    evalJB F (t :: ts) s = (evalJS F t s).bind fun r => match r.1 with | .normal => evalJB F ts r.2 | .cont => some r := rfl
theorem evalJS_if (c a b : Term) (s : St) : evalJS F (.app "if" [c, a, b]) s =
    (evalJE F c s.env s.store).bind fun vc => (truthy s.store vc).bind fun t => if t then evalJS F a s else evalJS F b s := rfl
theorem evalJS_for (tgt it body : Term) (s : St) : evalJS F (.app "for" [tgt, it, body]) s =
    (evalJE F it s.env s.store).bind fun vi => vi.asTuple.bind fun vs =>
      (loopOver (evalJS F body) (bindTarget tgt) vs s).map fun s' => (Ctl.normal, s') := rfl
theorem evalJS_assign (x : String) (e : Term) (s : St) : evalJS F (.app "assign" [.sym x, e]) s =
    (evalJE F e s.env s.store).map fun v => (Ctl.normal, { s with env := (x, v) :: s.env }) := rfl
theorem evalJS_update (x y : Term) (s : St) : evalJS F (.app ".update" [x, y]) s =
    (evalJE F x s.env s.store).bind fun vx => (evalJE F y s.env s.store).bind fun vy =>
      vx.asRef.bind fun n => (s.store.lookup n).bind fun d =>
        (match vy with
         | .ref m => s.store.lookup m
         | v => v.asKvs).map fun o => (Ctl.normal, { s with store := s.store.set n (d.update o) }) := rfl
theorem evalJS_add (e : Term) (s : St) : evalJS F (.app ".add" [.app "set()" [], e]) s =
    (evalJE F e s.env s.store).bind fun v => ((s.env.lookup seenName).getD (.tuple [])).asTuple.bind fun l =>
      if v.plain then some (Ctl.normal, { s with env := (seenName, .tuple (l ++ [v])) :: s.env }) else none := rfl
theorem evalJS_yield (e : Term) (s : St) : evalJS F (.app "yield" [e]) s =
    (evalJE F e s.env s.store).map fun v => (Ctl.normal, { s with out := s.out ++ [v] }) := rfl

end EqsJS

/-- a comprehension over the values `bs.map val`: if at every element the target binds, the condition evaluates to
    whether `g b` is an element, and the element expression evaluates to it, the elements are `bs.filterMap g`. -/
theorem compLoop_map {α β : Type} (bind : PVal → Env → Option Env) (cond : Env → Option Bool) (elt : Env → Option α)
    (ρ : Env) (val : β → PVal) (g : β → Option α) (bs : List β)
    (h : ∀ b, b ∈ bs → ∃ ρ1, bind (val b) ρ = some ρ1 ∧
      ((g b = none ∧ cond ρ1 = some false) ∨ (∃ a, g b = some a ∧ cond ρ1 = some true ∧ elt ρ1 = some a))) :
    compLoop bind cond elt ρ (bs.map val) = some (bs.filterMap g) := by
  induction bs with
  | nil => rfl
  | cons b bs ih =>
    obtain ⟨ρ1, hb, hc⟩ := h b List.mem_cons_self
    have ih' := ih (fun b' hb' => h b' (List.mem_cons_of_mem _ hb'))
    rw [List.map_cons, compLoop, hb, Option.bind_some]
    rcases hc with ⟨hg, hcond⟩ | ⟨a, hg, hcond, he⟩
    · simp only [hcond, Option.bind_some, Bool.false_eq_true, if_false, ih', List.filterMap_cons, hg]
    · simp only [hcond, Option.bind_some, if_true, he, ih', Option.map_some, List.filterMap_cons, hg]

/-! ### 4. loops -/

/-- **the loop rule**: as long as the store invariant `Inv` holds, every iteration of the body whose specification step
    succeeds ends normally with the specified store and output (and keeps `Inv` and the environment invariant `I`);
    then the `for` statement follows the whole specification loop. -/
theorem loopJ_inv {α : Type} (I : Env → Prop) (Inv : Store → Prop) (body : St → Option (Ctl × St))
    (bind : PVal → Env → Option Env) (val : α → PVal) (step : α → Store → Option (List PVal × Store)) (as : List α)
    (h : ∀ a, a ∈ as → ∀ ρ σ out res, I ρ → Inv σ → step a σ = some res →
      ∃ ρ', I ρ' ∧ ((bind (val a) ρ).bind fun ρ1 => body ⟨ρ1, σ, out⟩) = some (Ctl.normal, ⟨ρ', res.2, out ++ res.1⟩) ∧
        Inv res.2) :
    ∀ (ρ : Env) (σ : Store) (out : List PVal) (res : List PVal × Store), I ρ → Inv σ → specLoop step as σ = some res →
      ∃ ρ', I ρ' ∧ loopOver body bind (as.map val) ⟨ρ, σ, out⟩ = some ⟨ρ', res.2, out ++ res.1⟩ := by
  induction as with
  | nil =>
    intro ρ σ out res hI _ hs
    simp only [specLoop, Option.some.injEq] at hs
    subst hs
    exact ⟨ρ, hI, by simp [loopOver_nil]⟩
  | cons a as ih =>
    intro ρ σ out res hI hInv hs
    simp only [specLoop] at hs
    cases h1 : step a σ with
    | none => rw [h1] at hs; simp at hs
    | some r1 =>
      rw [h1, Option.bind_some] at hs
      cases h2 : specLoop step as r1.2 with
      | none => rw [h2] at hs; simp at hs
      | some r2 =>
        rw [h2, Option.map_some, Option.some.injEq] at hs
        subst hs
        obtain ⟨ρ1, hI1, e1, hInv1⟩ := h a List.mem_cons_self ρ σ out r1 hI hInv h1
        obtain ⟨ρ2, hI2, e2⟩ := ih (fun a' ha' => h a' (List.mem_cons_of_mem _ ha')) ρ1 r1.2 (out ++ r1.1) r2 hI1 hInv1 h2
        refine ⟨ρ2, hI2, ?_⟩
        rw [List.map_cons, loopOver_cons, e1, Option.bind_some, e2, List.append_assoc]

/-- the rule for a body that is ONE `for` statement, as a result of `runJ`. -/
theorem runJ_for_inv {α : Type} (F : Funs) (I : Env → Prop) (Inv : Store → Prop) (tgt it body : Term)
    (val : α → PVal) (step : α → Store → Option (List PVal × Store)) (as : List α) (ρ : Env) (σ : Store)
    (hit : evalJE F it ρ σ = some (.tuple (as.map val))) (hI : I ρ) (hInv : Inv σ)
    (h : ∀ a, a ∈ as → ∀ ρ σ out res, I ρ → Inv σ → step a σ = some res →
      ∃ ρ', I ρ' ∧ ((bindTarget tgt (val a) ρ).bind fun ρ1 => evalJS F body ⟨ρ1, σ, out⟩) =
        some (Ctl.normal, ⟨ρ', res.2, out ++ res.1⟩) ∧ Inv res.2)
    (res : List PVal × Store) (hs : specLoop step as σ = some res) :
    runJ F [.app "for" [tgt, it, body]] ρ σ = some res := by
  obtain ⟨ρ', _, e⟩ := loopJ_inv I Inv (evalJS F body) (bindTarget tgt) val step as h ρ σ [] res hI hInv hs
  simp only [runJ, evalJB_cons, evalJB_nil, evalJS_for, hit, Option.bind_some, PVal.asTuple, e, Option.map_some,
    List.nil_append]

/-- a LOCAL step at object `r`: defined when the object exists and its contents satisfy `P`; yields `y r d` and
    replaces the contents `d` by `e d`; nothing else is read or written. -/
def localStep (P : LoD.Dict → Bool) (y : Nat → LoD.Dict → List PVal) (e : LoD.Dict → LoD.Dict) (r : Nat) (σ : Store) :
    Option (List PVal × Store) :=
  (σ.lookup r).bind fun d => if P d then some (y r d, Store.set σ r (e d)) else none

theorem localStep_inv (P : LoD.Dict → Bool) (y : Nat → LoD.Dict → List PVal) (e : LoD.Dict → LoD.Dict) (r : Nat) (σ : Store)
    (res : List PVal × Store) (h : localStep P y e r σ = some res) :
    ∃ d, σ.lookup r = some d ∧ P d = true ∧ res = (y r d, Store.set σ r (e d)) := by
  unfold localStep at h
  cases hl : σ.lookup r with
  | none => rw [hl] at h; simp at h
  | some d =>
    rw [hl, Option.bind_some] at h
    cases hp : P d with
    | false => rw [hp] at h; simp at h
    | true => rw [hp] at h; simp only [if_true, Option.some.injEq] at h; exact ⟨d, rfl, hp, h.symm⟩

/-- local steps over pairwise distinct references: every object is read as it was at the start, the outputs are the
    per-item outputs in order, the receiver's objects end as the per-item edits, the rest of the store is untouched. -/
theorem specLoop_local (P : LoD.Dict → Bool) (y : Nat → LoD.Dict → List PVal) (e : LoD.Dict → LoD.Dict)
    (rs : List Nat) (hd : rs.Nodup) (σ : Store) (xs : List Item) (hv : Store.view σ rs = some xs)
    (hP : ∀ x, x ∈ xs → P x.kv = true) :
    ∃ σ', specLoop (localStep P y e) rs σ = some (xs.flatMap (fun x => y x.tag x.kv), σ') ∧
      Store.view σ' rs = some (xs.map fun x => { tag := x.tag, kv := e x.kv }) ∧
      ∀ n, n ∉ rs → σ'.lookup n = σ.lookup n := by
  induction rs generalizing σ xs with
  | nil =>
    simp only [Store.view, Option.some.injEq] at hv
    subst hv
    exact ⟨σ, rfl, rfl, fun _ _ => rfl⟩
  | cons r rs ih =>
    have hr : r ∉ rs := (List.nodup_cons.mp hd).1
    obtain ⟨d, ys, hl, hvr, e1⟩ := Store.view_cons_inv σ r rs xs hv
    subst e1
    have hv1 : Store.view (Store.set σ r (e d)) rs = some ys := by rw [Store.view_set_of_not_mem _ _ _ _ hr, hvr]
    obtain ⟨σ', h1, h2, h3⟩ := ih (List.nodup_cons.mp hd).2 (Store.set σ r (e d)) ys hv1
      (fun x hx => hP x (List.mem_cons_of_mem _ hx))
    have hPd : P d = true := hP _ List.mem_cons_self
    refine ⟨σ', ?_, ?_, ?_⟩
    · simp only [specLoop, localStep, hl, Option.bind_some, hPd, if_true, h1, Option.map_some, List.flatMap_cons]
    · simp only [Store.view, h3 r hr, Store.lookup_set_self σ r d (e d) hl, h2, Option.bind_some, Option.map_some,
        List.map_cons]
    · intro n hn
      have hnr : n ≠ r := fun e => hn (e ▸ List.mem_cons_self)
      rw [h3 n (fun hm => hn (List.mem_cons_of_mem _ hm)), Store.lookup_set_other _ _ _ _ hnr]

/-- local steps that edit nothing: the store stays EXACTLY as it is (any references, repeated ones included). -/
theorem specLoop_readonly (P : LoD.Dict → Bool) (y : Nat → LoD.Dict → List PVal)
    (rs : List Nat) (σ : Store) (xs : List Item) (hv : Store.view σ rs = some xs) (hP : ∀ x, x ∈ xs → P x.kv = true) :
    specLoop (localStep P y id) rs σ = some (xs.flatMap (fun x => y x.tag x.kv), σ) := by
  induction rs generalizing xs with
  | nil => simp only [Store.view, Option.some.injEq] at hv; subst hv; rfl
  | cons r rs ih =>
    obtain ⟨d, ys, hl, hvr, e1⟩ := Store.view_cons_inv σ r rs xs hv
    subst e1
    have hPd : P d = true := hP _ List.mem_cons_self
    simp only [specLoop, localStep, hl, Option.bind_some, hPd, if_true, id, Store.set_self σ r d hl,
      ih ys hvr (fun x hx => hP x (List.mem_cons_of_mem _ hx)), Option.map_some, List.flatMap_cons]

/-! ### 5. the bodies -/

section StmtsJ
variable (F : Funs)

/-- a statement that ends normally, then the rest of the block. -/
theorem evalJB_step (t : Term) (ts : List Term) (s s' : St) (h : evalJS F t s = some (Ctl.normal, s')) :
    evalJB F (t :: ts) s = evalJB F ts s' := by
  rw [evalJB_cons, h]; rfl

theorem evalJS_assign_of (x : String) (e : Term) (ρ : Env) (σ : Store) (out : List PVal) (v : PVal)
    (h : evalJE F e ρ σ = some v) :
    evalJS F (.app "assign" [.sym x, e]) ⟨ρ, σ, out⟩ = some (Ctl.normal, ⟨(x, v) :: ρ, σ, out⟩) := by
  rw [evalJS_assign]; simp only [h, Option.map_some]

theorem evalJS_yield_of (e : Term) (ρ : Env) (σ : Store) (out : List PVal) (v : PVal) (h : evalJE F e ρ σ = some v) :
    evalJS F (.app "yield" [e]) ⟨ρ, σ, out⟩ = some (Ctl.normal, ⟨ρ, σ, out ++ [v]⟩) := by
  rw [evalJS_yield]; simp only [h, Option.map_some]

/-- `x.update(y)`, `x` an object and `y` a dict VALUE. -/
theorem evalJS_update_of (x y : Term) (ρ : Env) (σ : Store) (out : List PVal) (r : Nat) (d D : LoD.Dict)
    (hx : evalJE F x ρ σ = some (.ref r)) (hy : evalJE F y ρ σ = some (dictVal D)) (hl : σ.lookup r = some d) :
    evalJS F (.app ".update" [x, y]) ⟨ρ, σ, out⟩ = some (Ctl.normal, ⟨ρ, Store.set σ r (d.update D), out⟩) := by
  have hk := asKvs_dictVal D
  rw [evalJS_update]
  simp only [hx, hy, Option.bind_some, PVal.asRef, hl]
  simp only [dictVal, dictValP] at hk ⊢
  simp only [hk, Option.map_some]

theorem evalJS_if_of (c a b : Term) (ρ : Env) (σ : Store) (out : List PVal) (t : Bool)
    (hc : evalJE F c ρ σ = some (.bool t)) :
    evalJS F (.app "if" [c, a, b]) ⟨ρ, σ, out⟩ = if t then evalJS F a ⟨ρ, σ, out⟩ else evalJS F b ⟨ρ, σ, out⟩ := by
  rw [evalJS_if]; simp only [hc, Option.bind_some, truthy]

end StmtsJ

/-! #### the join terms (`Proofs/TieC16.lean`: `split`, `by1`, `by2`, `extract`, …) -/

def splitT : Term := Term.app "._split_join_by" [Term.sym "self", Term.app "*" [Term.sym "by"]]
def by1T : Term := Term.app "item0" [splitT]
def by2T : Term := Term.app "item1" [splitT]
def extractT (byv : Term) : Term := Term.app "operator.itemgetter" [Term.app "*" [byv]]
/-- `extract1(item)`. -/
def key1T : Term := Term.app "call" [extractT by1T, Term.sym "item"]
/-- `{extract2(x): x for x in reversed(other)}`. -/
def byIdDC : List Term :=
  [Term.app "pair" [Term.app "call" [extractT by2T, Term.sym "x"], Term.sym "x"],
   Term.app "in" [Term.sym "x", Term.app "reversed" [Term.sym "other"], Term.app "if" []]]
/-- `{k: v for k, v in new.items() if k not in by2}`. -/
def newDC : List Term :=
  [Term.app "pair" [Term.sym "k", Term.sym "v"],
   Term.app "in" [Term.app "tuple" [Term.sym "k", Term.sym "v"], Term.app ".items" [Term.sym "new"],
     Term.app "if" [Term.app "NotIn" [Term.sym "k", by2T]]]]
/-- `set(map(extract2, other))`. -/
def idsT : Term := Term.app "set()" [Term.app "map" [extractT by2T, Term.sym "other"]]

/-- all the key columns are there. -/
def hasAll (ks : List String) (d : LoD.Dict) : Bool := ks.all fun k => d.has k

theorem hasAll_iff (ks : List String) (d : LoD.Dict) : hasAll ks d = true ↔ ∀ k, k ∈ ks → d.has k = true := by
  simp [hasAll, List.all_eq_true]

/-- one left dict after the join: the non-key entries of the FIRST right item with an equal key tuple are merged. -/
def joinDict (ys : List Item) (by1 by2 : List String) (d : LoD.Dict) : LoD.Dict :=
  match LoD.lookupRev ys by2 (LoD.extract by1 { tag := 0, kv := d }) with
  | some m => d.update (LoD.nonKey m.kv by2)
  | none => d

/-- whether a left dict has a match. -/
def joinMatched (ys : List Item) (by1 by2 : List String) (d : LoD.Dict) : Bool :=
  (LoD.lookupRev ys by2 (LoD.extract by1 { tag := 0, kv := d })).isSome

theorem leftJoin_eq_map (xs ys : List Item) (by1 by2 : List String) :
    LoD.leftJoin xs ys by1 by2 = xs.map fun x => { tag := x.tag, kv := joinDict ys by1 by2 x.kv } := by
  unfold LoD.leftJoin
  apply List.map_congr_left
  intro x _
  show _ = Item.mk x.tag (match LoD.lookupRev ys by2 (LoD.extract by1 x) with
    | some m => x.kv.update (LoD.nonKey m.kv by2) | none => x.kv)
  cases LoD.lookupRev ys by2 (LoD.extract by1 x) <;> rfl

theorem innerJoin_eq_filter (xs ys : List Item) (by1 by2 : List String) :
    LoD.innerJoin xs ys by1 by2 =
      (xs.filter fun x => joinMatched ys by1 by2 x.kv).map fun x => { tag := x.tag, kv := joinDict ys by1 by2 x.kv } := by
  unfold LoD.innerJoin
  induction xs with
  | nil => rfl
  | cons x xs ih =>
    have hm : joinMatched ys by1 by2 x.kv = (LoD.lookupRev ys by2 (LoD.extract by1 x)).isSome := rfl
    have hj : joinDict ys by1 by2 x.kv = (match LoD.lookupRev ys by2 (LoD.extract by1 x) with
      | some m => x.kv.update (LoD.nonKey m.kv by2) | none => x.kv) := rfl
    rw [List.filterMap_cons, List.filter_cons, hm, ih]
    cases h : LoD.lookupRev ys by2 (LoD.extract by1 x) with
    | none => simp
    | some m => simp [hj, h]

section JoinExprs
variable (F : Funs)

theorem evalJE_by1 (ρ : Env) (σ : Store) (bys : List ByArg) (h : ρ.lookup "by" = some (byVal bys)) :
    evalJE F by1T ρ σ = some (keysVal (byLeft bys)) := by
  simp only [by1T, splitT, evalJE_item0, evalJE_by, h, Option.bind_some, splitBy_left]

theorem evalJE_by2 (ρ : Env) (σ : Store) (bys : List ByArg) (h : ρ.lookup "by" = some (byVal bys)) :
    evalJE F by2T ρ σ = some (keysVal (byRight bys)) := by
  simp only [by2T, splitT, evalJE_item1, evalJE_by, h, Option.bind_some, splitBy_right]

/-- `extract(v)` for a reference `v` to an object with all the key columns. -/
theorem evalJE_extract (t v : Term) (ρ : Env) (σ : Store) (ks : List String) (hne : ks ≠ []) (r : Nat) (d : LoD.Dict)
    (ht : evalJE F t ρ σ = some (keysVal ks)) (hv : evalJE F v ρ σ = some (.ref r)) (hl : σ.lookup r = some d)
    (hk : ∀ k, k ∈ ks → d.has k = true) :
    evalJE F (Term.app "call" [extractT t, v]) ρ σ = some (keyEnc (LoD.extract ks { tag := r, kv := d })) := by
  simp only [extractT, evalJE_call_ig, ht, hv, Option.bind_some, itemgetter_view σ ks hne r d hl hk]

theorem byRight_ne_nil (bys : List ByArg) (h : bys ≠ []) : byRight bys ≠ [] := by
  cases bys with
  | nil => exact absurd rfl h
  | cons b bs => simp [byRight]

theorem byLeft_ne_nil (bys : List ByArg) (h : bys ≠ []) : byLeft bys ≠ [] := by
  cases bys with
  | nil => exact absurd rfl h
  | cons b bs => simp [byLeft]

/-- the lookup dict `{extract2(x): x for x in reversed(other)}`. -/
def byIdPairs (ys : List Item) (by2 : List String) : List (PVal × PVal) :=
  aofPairs (ys.reverse.map fun y => (keyEnc (LoD.extract by2 y), PVal.ref y.tag))

theorem byId_eval (ρ : Env) (σ : Store) (os : List Nat) (ys : List Item) (bys : List ByArg) (hne : bys ≠ [])
    (hother : ρ.lookup "other" = some (refsVal os)) (hby : ρ.lookup "by" = some (byVal bys))
    (hw : Store.view σ os = some ys) (hk2 : ∀ y, y ∈ ys → ∀ k, k ∈ byRight bys → y.kv.has k = true) :
    evalJDC F byIdDC ρ σ = some (byIdPairs ys (byRight bys)) := by
  have hrefs : (os.map PVal.ref).reverse = ys.reverse.map fun y => PVal.ref y.tag := by
    rw [← Store.view_tags σ os ys hw, List.map_map, List.map_reverse]; rfl
  rw [byIdDC, evalJDC_eq, evalJE_reversed_other, hother]
  simp only [refsVal, PVal.asTuple, Option.bind_some, Option.map_some, hrefs]
  rw [compLoop_map _ _ _ ρ (fun y : Item => PVal.ref y.tag)
    (fun y => some (keyEnc (LoD.extract (byRight bys) y), PVal.ref y.tag)) ys.reverse]
  · rw [List.filterMap_eq_map', Option.map_some]; rfl
  · intro y hy
    have hy' : y ∈ ys := List.mem_reverse.mp hy
    refine ⟨("x", PVal.ref y.tag) :: ρ, rfl, Or.inr ⟨_, rfl, rfl, ?_⟩⟩
    have hb : List.lookup "by" (("x", PVal.ref y.tag) :: ρ) = some (byVal bys) := by
      rw [List.lookup_cons]; exact hby
    rw [evalJE_extract F by2T (Term.sym "x") _ σ (byRight bys) (byRight_ne_nil bys hne) y.tag y.kv
      (evalJE_by2 F _ σ bys hb) (by rw [evalJE_x]; simp) (Store.view_lookup_of_mem σ os ys hw y hy') (hk2 y hy')]
    simp only [Option.bind_some, evalJE_x, List.lookup_cons_self, keyEnc_plain, if_true]

/-- **first match**: looking a key value up in the reversed dict gives the FIRST right item with that key tuple. -/
theorem byId_get (ys : List Item) (by2 : List String) (id : List LoD.Val) :
    aget (byIdPairs ys by2) (keyEnc id) = (LoD.lookupRev ys by2 id).map fun m => PVal.ref m.tag := by
  unfold byIdPairs
  rw [aget_aofPairs, ← List.map_reverse, List.reverse_reverse, List.find?_map, LoD.lookupRev_eq_find, Option.map_map]
  have : ((fun p : PVal × PVal => p.1 == keyEnc id) ∘ fun y : Item => (keyEnc (LoD.extract by2 y), PVal.ref y.tag)) =
      fun y => LoD.extract by2 y == id := by
    funext y; exact keyEnc_beq _ _
  rw [this]; rfl

theorem byId_dictGet (ys : List Item) (by2 : List String) (id : List LoD.Val) :
    dictGet (byIdPairs ys by2) (keyEnc id) = some ((LoD.lookupRev ys by2 id).map fun m => PVal.ref m.tag) := by
  simp only [dictGet, keyEnc_plain, if_true, byId_get]

theorem byId_dictHas (ys : List Item) (by2 : List String) (id : List LoD.Val) :
    dictHas (byIdPairs ys by2) (keyEnc id) = some (LoD.lookupRev ys by2 id).isSome := by
  simp only [dictHas, keyEnc_plain, if_true, any_eq_aget_isSome, byId_get, Option.isSome_map]

theorem filterMap_nonKey (D : LoD.Dict) (by2 : List String) :
    D.filterMap (fun p => if by2.contains p.1 then none else some (kvEnc p)) = (LoD.nonKey D by2).map kvEnc := by
  unfold LoD.nonKey
  induction D with
  | nil => rfl
  | cons p D ih =>
    rw [List.filterMap_cons, List.filter_cons]
    cases h : by2.contains p.1 with
    | true => simp only [if_true, Bool.not_true, Bool.false_eq_true, if_false]; exact ih
    | false => simp only [Bool.false_eq_true, if_false, Bool.not_false, if_true, List.map_cons, ih]

/-- `{k: v for k, v in new.items() if k not in by2}` where `new` holds the entries `D`. -/
theorem newDC_eval (ρ : Env) (σ : Store) (v1 : PVal) (D : LoD.Dict) (bys : List ByArg)
    (hnew : ρ.lookup "new" = some v1) (hitems : itemsOf σ v1 = some (dictVal D)) (hby : ρ.lookup "by" = some (byVal bys)) :
    evalJE F (Term.app "DictComp" newDC) ρ σ = some (dictVal (Dict.ofPairs (LoD.nonKey D (byRight bys)))) := by
  rw [evalJE_DictComp, newDC, evalJDC_eq, evalJE_items_new, hnew, Option.bind_some, hitems]
  simp only [dictVal_eq, dictValP, PVal.asTuple, Option.bind_some, List.map_map]
  rw [compLoop_map _ _ _ ρ (pairVal ∘ kvEnc)
    (fun p => if (byRight bys).contains p.1 then none else some (kvEnc p)) D]
  · rw [filterMap_nonKey, Option.map_some, Option.map_some, aofPairs_kvEnc]
    simp only [dictValP, List.map_map]
  · intro p _
    refine ⟨("v", PVal.atom p.2) :: ("k", PVal.str p.1) :: ρ, rfl, ?_⟩
    have hb : List.lookup "by" (("v", PVal.atom p.2) :: ("k", PVal.str p.1) :: ρ) = some (byVal bys) := by
      rw [List.lookup_cons, List.lookup_cons]; exact hby
    have hcond : evalJConds F [Term.app "NotIn" [Term.sym "k", by2T]] (("v", PVal.atom p.2) :: ("k", PVal.str p.1) :: ρ) σ =
        some (!(byRight bys).contains p.1) := by
      rw [evalJConds_cons, by2T, evalJE_NotIn_item1, ← by2T, evalJE_by2 F _ σ bys hb, evalJE_k]
      simp only [List.lookup_cons]
      rw [show (("k" : String) == "v") = false from rfl]
      simp only [beq_self_eq_true, Option.bind_some, pyIn_str_keys, Option.map_some, truthy, evalJConds_nil]
      cases (byRight bys).contains p.1 <;> rfl
    cases hc : (byRight bys).contains p.1 with
    | true => exact Or.inl ⟨by simp, by rw [hcond, hc]; rfl⟩
    | false =>
      refine Or.inr ⟨kvEnc p, by simp, by rw [hcond, hc]; rfl, ?_⟩
      simp only [evalJE_k, evalJE_v, List.lookup_cons]
      simp [kvEnc, PVal.str, PVal.plain]

/-- `set(map(extract2, other))`: the key values of the right items. -/
theorem ids_eval (ρ : Env) (σ : Store) (os : List Nat) (ys : List Item) (bys : List ByArg) (hne : bys ≠ [])
    (hother : ρ.lookup "other" = some (refsVal os)) (hby : ρ.lookup "by" = some (byVal bys))
    (hw : Store.view σ os = some ys) (hk2 : ∀ y, y ∈ ys → ∀ k, k ∈ byRight bys → y.kv.has k = true) :
    evalJE F idsT ρ σ = some (.tuple ((ys.map (LoD.extract (byRight bys))).map keyEnc)) := by
  simp only [idsT, extractT, evalJE_set, evalJE_map_ig, evalJE_by2 F ρ σ bys hby, evalJE_other, hother, Option.bind_some,
    refsVal, PVal.asTuple, allM_itemgetter_view σ _ (byRight_ne_nil bys hne) os ys hw hk2, Option.map_some, List.map_map]
  rfl

end JoinExprs

/-! #### left_join / inner_join -/

/-- the names the join bodies assign. -/
def joinNames : List String := ["item", "new", "id"]

def mergeTailT : List Term :=
  [Term.app "assign" [Term.sym "new", Term.app "DictComp" newDC],
   Term.app ".update" [Term.sym "item", Term.sym "new"],
   Term.app "yield" [Term.sym "item"]]

def leftBodyT : Term := Term.app "block"
  (Term.app "assign" [Term.sym "new", Term.app ".get" [Term.app "DictComp" byIdDC, key1T, Term.sym "{}"]] :: mergeTailT)

def leftJoinT : Term := Term.app "for" [Term.sym "item", Term.sym "self", leftBodyT]

def innerThenT : Term := Term.app "block"
  (Term.app "assign" [Term.sym "new", Term.app "getitem" [Term.app "DictComp" byIdDC, Term.sym "id"]] :: mergeTailT)

def innerIfT : Term :=
  Term.app "if" [Term.app "In" [Term.sym "id", Term.app "DictComp" byIdDC], innerThenT, Term.app "block" []]

def innerBodyT : Term := Term.app "block" [Term.app "assign" [Term.sym "id", key1T], innerIfT]

def innerJoinT : Term := Term.app "for" [Term.sym "item", Term.sym "self", innerBodyT]

section JoinBodies
variable (F : Funs)

/-- the end of both bodies: `new` holds the entries `D` (those of the match, or none); its non-key entries are merged
    into the object `r` in place and `r` is yielded. -/
theorem mergeTail_run (ρ : Env) (σ : Store) (out : List PVal) (r : Nat) (d : LoD.Dict) (v1 : PVal) (D : LoD.Dict)
    (bys : List ByArg) (hitem : ρ.lookup "item" = some (.ref r)) (hnew : ρ.lookup "new" = some v1)
    (hitems : itemsOf σ v1 = some (dictVal D)) (hby : ρ.lookup "by" = some (byVal bys)) (hl : σ.lookup r = some d) :
    evalJB F mergeTailT ⟨ρ, σ, out⟩ =
      some (Ctl.normal, ⟨("new", dictVal (Dict.ofPairs (LoD.nonKey D (byRight bys)))) :: ρ,
        Store.set σ r (d.update (LoD.nonKey D (byRight bys))), out ++ [.ref r]⟩) := by
  have hitem' : List.lookup "item" (("new", dictVal (Dict.ofPairs (LoD.nonKey D (byRight bys)))) :: ρ) = some (.ref r) := by
    rw [List.lookup_cons]; exact hitem
  unfold mergeTailT
  rw [evalJB_step F _ _ _ _ (evalJS_assign_of F "new" _ ρ σ out _ (newDC_eval F ρ σ v1 D bys hnew hitems hby)),
    evalJB_step F _ _ _ _ (evalJS_update_of F _ _ _ σ out r d (Dict.ofPairs (LoD.nonKey D (byRight bys)))
      (by rw [evalJE_item]; exact hitem') (by rw [evalJE_new, List.lookup_cons_self]) hl),
    evalJB_step F _ _ _ _ (evalJS_yield_of F _ _ _ out (.ref r) (by rw [evalJE_item]; exact hitem')),
    evalJB_nil, update_ofPairs]

theorem lookupRev_mem (ys : List Item) (by2 : List String) (id : List LoD.Val) (m : Item)
    (h : LoD.lookupRev ys by2 id = some m) : m ∈ ys := by
  rw [LoD.lookupRev_eq_find] at h
  exact List.mem_of_find?_eq_some h

variable (ρ0 : Env) (os : List Nat) (ys : List Item) (bys : List ByArg) (hne : bys ≠ [])
  (hother0 : ρ0.lookup "other" = some (refsVal os)) (hby0 : ρ0.lookup "by" = some (byVal bys))
  (hk2 : ∀ y, y ∈ ys → ∀ k, k ∈ byRight bys → y.kv.has k = true)

include hne hother0 hby0 hk2

/-- one iteration of **left_join**. -/
theorem left_iter (r : Nat) (hr : r ∉ os) (ρ : Env) (σ : Store) (out : List PVal) (res : List PVal × Store)
    (hK : Keeps joinNames ρ0 ρ) (hw : Store.view σ os = some ys)
    (hs : localStep (hasAll (byLeft bys)) (fun r _ => [PVal.ref r]) (joinDict ys (byLeft bys) (byRight bys)) r σ = some res) :
    ∃ ρ', Keeps joinNames ρ0 ρ' ∧
      ((bindTarget (Term.sym "item") (.ref r) ρ).bind fun ρ1 => evalJS F leftBodyT ⟨ρ1, σ, out⟩) =
        some (Ctl.normal, ⟨ρ', res.2, out ++ res.1⟩) ∧ Store.view res.2 os = some ys := by
  obtain ⟨d, hl, hP, e⟩ := localStep_inv _ _ _ r σ res hs
  subst e
  have hK1 : Keeps joinNames ρ0 (("item", PVal.ref r) :: ρ) := hK.cons _ _ (by decide)
  have hother1 : List.lookup "other" (("item", PVal.ref r) :: ρ) = some (refsVal os) := by
    rw [hK1 "other" (by decide)]; exact hother0
  have hby1 : List.lookup "by" (("item", PVal.ref r) :: ρ) = some (byVal bys) := by
    rw [hK1 "by" (by decide)]; exact hby0
  have hkey : evalJE F key1T (("item", PVal.ref r) :: ρ) σ =
      some (keyEnc (LoD.extract (byLeft bys) { tag := r, kv := d })) :=
    evalJE_extract F by1T (Term.sym "item") _ σ (byLeft bys) (byLeft_ne_nil bys hne) r d (evalJE_by1 F _ σ bys hby1)
      (by rw [evalJE_item]; simp) hl ((hasAll_iff _ _).mp hP)
  have hget : evalJE F (Term.app ".get" [Term.app "DictComp" byIdDC, key1T, Term.sym "{}"]) (("item", PVal.ref r) :: ρ) σ =
      some (((LoD.lookupRev ys (byRight bys) (LoD.extract (byLeft bys) { tag := r, kv := d })).map
        fun m => PVal.ref m.tag).getD (.tuple [])) := by
    rw [evalJE_get_DC, byId_eval F _ σ os ys bys hne hother1 hby1 hw hk2, hkey, evalJE_emptyDict]
    simp only [Option.bind_some, byId_dictGet, Option.map_some]
  have hview : Store.view (Store.set σ r (joinDict ys (byLeft bys) (byRight bys) d)) os = some ys := by
    rw [Store.view_set_of_not_mem _ _ _ _ hr, hw]
  simp only [bindTarget, Option.bind_some, leftBodyT, evalJS_block]
  rw [evalJB_step F _ _ _ _ (evalJS_assign_of F "new" _ _ σ out _ hget)]
  have hjd : joinDict ys (byLeft bys) (byRight bys) d =
      match LoD.lookupRev ys (byRight bys) (LoD.extract (byLeft bys) { tag := r, kv := d }) with
      | some m => d.update (LoD.nonKey m.kv (byRight bys))
      | none => d := rfl
  cases hm : LoD.lookupRev ys (byRight bys) (LoD.extract (byLeft bys) { tag := r, kv := d }) with
  | none =>
    rw [hm] at hjd
    simp only [Option.map_none, Option.getD_none]
    rw [mergeTail_run F (("new", PVal.tuple []) :: ("item", PVal.ref r) :: ρ) σ out r d (.tuple []) [] bys
      (by rw [List.lookup_cons]; simp) (by simp) (itemsOf_empty σ) (by rw [List.lookup_cons]; exact hby1) hl]
    refine ⟨("new", dictVal (Dict.ofPairs (LoD.nonKey [] (byRight bys)))) :: ("new", PVal.tuple []) :: ("item", PVal.ref r) :: ρ,
      (hK1.cons "new" _ (by decide)).cons "new" _ (by decide), ?_, hview⟩
    rw [hjd]; rfl
  | some m =>
    rw [hm] at hjd
    simp only [Option.map_some, Option.getD_some]
    have hml : σ.lookup m.tag = some m.kv := Store.view_lookup_of_mem σ os ys hw m (lookupRev_mem ys _ _ m hm)
    rw [mergeTail_run F (("new", PVal.ref m.tag) :: ("item", PVal.ref r) :: ρ) σ out r d (.ref m.tag) m.kv bys
      (by rw [List.lookup_cons]; simp) (by simp) (itemsOf_ref σ m.tag m.kv hml) (by rw [List.lookup_cons]; exact hby1) hl]
    refine ⟨("new", dictVal (Dict.ofPairs (LoD.nonKey m.kv (byRight bys)))) :: ("new", PVal.ref m.tag) :: ("item", PVal.ref r) :: ρ,
      (hK1.cons "new" _ (by decide)).cons "new" _ (by decide), ?_, hview⟩
    rw [hjd]

/-- one iteration of **inner_join**. -/
theorem inner_iter (r : Nat) (hr : r ∉ os) (ρ : Env) (σ : Store) (out : List PVal) (res : List PVal × Store)
    (hK : Keeps joinNames ρ0 ρ) (hw : Store.view σ os = some ys)
    (hs : localStep (hasAll (byLeft bys))
      (fun r d => if joinMatched ys (byLeft bys) (byRight bys) d then [PVal.ref r] else [])
      (joinDict ys (byLeft bys) (byRight bys)) r σ = some res) :
    ∃ ρ', Keeps joinNames ρ0 ρ' ∧
      ((bindTarget (Term.sym "item") (.ref r) ρ).bind fun ρ1 => evalJS F innerBodyT ⟨ρ1, σ, out⟩) =
        some (Ctl.normal, ⟨ρ', res.2, out ++ res.1⟩) ∧ Store.view res.2 os = some ys := by
  obtain ⟨d, hl, hP, e⟩ := localStep_inv _ _ _ r σ res hs
  subst e
  have hK1 : Keeps joinNames ρ0 (("item", PVal.ref r) :: ρ) := hK.cons _ _ (by decide)
  have hby1 : List.lookup "by" (("item", PVal.ref r) :: ρ) = some (byVal bys) := by
    rw [hK1 "by" (by decide)]; exact hby0
  have hkey : evalJE F key1T (("item", PVal.ref r) :: ρ) σ =
      some (keyEnc (LoD.extract (byLeft bys) { tag := r, kv := d })) :=
    evalJE_extract F by1T (Term.sym "item") _ σ (byLeft bys) (byLeft_ne_nil bys hne) r d (evalJE_by1 F _ σ bys hby1)
      (by rw [evalJE_item]; simp) hl ((hasAll_iff _ _).mp hP)
  have hK2 : Keeps joinNames ρ0 (("id", keyEnc (LoD.extract (byLeft bys) { tag := r, kv := d })) :: ("item", PVal.ref r) :: ρ) :=
    hK1.cons _ _ (by decide)
  have hother2 : List.lookup "other" (("id", keyEnc (LoD.extract (byLeft bys) { tag := r, kv := d })) :: ("item", PVal.ref r) :: ρ) =
      some (refsVal os) := by rw [hK2 "other" (by decide)]; exact hother0
  have hby2 : List.lookup "by" (("id", keyEnc (LoD.extract (byLeft bys) { tag := r, kv := d })) :: ("item", PVal.ref r) :: ρ) =
      some (byVal bys) := by rw [hK2 "by" (by decide)]; exact hby0
  have hin : evalJE F (Term.app "In" [Term.sym "id", Term.app "DictComp" byIdDC])
      (("id", keyEnc (LoD.extract (byLeft bys) { tag := r, kv := d })) :: ("item", PVal.ref r) :: ρ) σ =
      some (.bool (LoD.lookupRev ys (byRight bys) (LoD.extract (byLeft bys) { tag := r, kv := d })).isSome) := by
    rw [evalJE_In_DC, evalJE_id, byId_eval F _ σ os ys bys hne hother2 hby2 hw hk2]
    simp only [List.lookup_cons_self, Option.bind_some, byId_dictHas, Option.map_some]
  have hview : Store.view (Store.set σ r (joinDict ys (byLeft bys) (byRight bys) d)) os = some ys := by
    rw [Store.view_set_of_not_mem _ _ _ _ hr, hw]
  have hjd : joinDict ys (byLeft bys) (byRight bys) d =
      match LoD.lookupRev ys (byRight bys) (LoD.extract (byLeft bys) { tag := r, kv := d }) with
      | some m => d.update (LoD.nonKey m.kv (byRight bys))
      | none => d := rfl
  have hjm : joinMatched ys (byLeft bys) (byRight bys) d =
      (LoD.lookupRev ys (byRight bys) (LoD.extract (byLeft bys) { tag := r, kv := d })).isSome := rfl
  simp only [bindTarget, Option.bind_some, innerBodyT, evalJS_block]
  rw [evalJB_step F _ _ _ _ (evalJS_assign_of F "id" _ _ σ out _ hkey)]
  cases hm : LoD.lookupRev ys (byRight bys) (LoD.extract (byLeft bys) { tag := r, kv := d }) with
  | none =>
    rw [hm] at hjd hjm hin
    have hif : evalJS F innerIfT
        ⟨("id", keyEnc (LoD.extract (byLeft bys) { tag := r, kv := d })) :: ("item", PVal.ref r) :: ρ, σ, out⟩ =
        some (Ctl.normal, ⟨("id", keyEnc (LoD.extract (byLeft bys) { tag := r, kv := d })) :: ("item", PVal.ref r) :: ρ, σ, out⟩) := by
      rw [innerIfT, evalJS_if_of F _ _ _ _ σ out _ hin]
      simp only [Option.isSome_none, Bool.false_eq_true, if_false, evalJS_block, evalJB_nil]
    rw [evalJB_step F _ _ _ _ hif, evalJB_nil]
    refine ⟨("id", keyEnc (LoD.extract (byLeft bys) { tag := r, kv := d })) :: ("item", PVal.ref r) :: ρ, hK2, ?_,
      by rw [hjd, Store.set_self σ r d hl]; exact hw⟩
    simp only [hjm, hjd, Store.set_self σ r d hl, Option.isSome_none, Bool.false_eq_true, if_false, List.append_nil]
  | some m =>
    rw [hm] at hjd hjm hin
    have hml : σ.lookup m.tag = some m.kv := Store.view_lookup_of_mem σ os ys hw m (lookupRev_mem ys _ _ m hm)
    have hgi : evalJE F (Term.app "getitem" [Term.app "DictComp" byIdDC, Term.sym "id"])
        (("id", keyEnc (LoD.extract (byLeft bys) { tag := r, kv := d })) :: ("item", PVal.ref r) :: ρ) σ =
        some (.ref m.tag) := by
      rw [evalJE_getitem_DC, evalJE_id, byId_eval F _ σ os ys bys hne hother2 hby2 hw hk2]
      simp only [List.lookup_cons_self, Option.bind_some, byId_dictGet, hm, Option.map_some, id]
    have hif : evalJS F innerIfT
        ⟨("id", keyEnc (LoD.extract (byLeft bys) { tag := r, kv := d })) :: ("item", PVal.ref r) :: ρ, σ, out⟩ =
        some (Ctl.normal, ⟨("new", dictVal (Dict.ofPairs (LoD.nonKey m.kv (byRight bys)))) :: ("new", PVal.ref m.tag) ::
          ("id", keyEnc (LoD.extract (byLeft bys) { tag := r, kv := d })) :: ("item", PVal.ref r) :: ρ,
          Store.set σ r (d.update (LoD.nonKey m.kv (byRight bys))), out ++ [.ref r]⟩) := by
      rw [innerIfT, evalJS_if_of F _ _ _ _ σ out _ hin]
      simp only [Option.isSome_some, if_true, innerThenT, evalJS_block]
      rw [evalJB_step F _ _ _ _ (evalJS_assign_of F "new" _ _ σ out _ hgi),
        mergeTail_run F (("new", PVal.ref m.tag) :: ("id", keyEnc (LoD.extract (byLeft bys) { tag := r, kv := d })) ::
          ("item", PVal.ref r) :: ρ) σ out r d (.ref m.tag) m.kv bys
          (by rw [List.lookup_cons, List.lookup_cons]; simp) (by simp) (itemsOf_ref σ m.tag m.kv hml)
          (by rw [List.lookup_cons]; exact hby2) hl]
    rw [evalJB_step F _ _ _ _ hif, evalJB_nil]
    refine ⟨("new", dictVal (Dict.ofPairs (LoD.nonKey m.kv (byRight bys)))) :: ("new", PVal.ref m.tag) ::
        ("id", keyEnc (LoD.extract (byLeft bys) { tag := r, kv := d })) :: ("item", PVal.ref r) :: ρ,
      (hK2.cons "new" _ (by decide)).cons "new" _ (by decide), ?_, hview⟩
    simp only [hjm, hjd, Option.isSome_some, if_true]

end JoinBodies

/-! #### the join bodies as a whole -/

theorem flatMap_ref_tags (σ : Store) (rs : List Nat) (xs : List Item) (hv : Store.view σ rs = some xs) :
    xs.flatMap (fun x => [PVal.ref x.tag]) = rs.map PVal.ref := by
  rw [flatMap_single (fun x : Item => PVal.ref x.tag) xs, ← Store.view_tags σ rs xs hv, List.map_map]; rfl

theorem flatMap_if {α : Type} (q : α → Bool) (f : α → PVal) (xs : List α) :
    xs.flatMap (fun x => if q x then [f x] else []) = (xs.filter q).map f := by
  induction xs with
  | nil => rfl
  | cons x xs ih =>
    rw [List.flatMap_cons, List.filter_cons, ih]
    cases q x <;> rfl

section JoinRuns
variable (F : Funs)

/-- **left_join**: on pairwise distinct left references none of which is also a right reference, with all key columns
    present: the left references are yielded in order, the left objects end as the model's `LoD.leftJoin`, nothing else
    in the store changes. -/
theorem left_join_run (ρ : Env) (σ : Store) (rs os : List Nat) (bys : List ByArg) (xs ys : List Item)
    (hself : ρ.lookup "self" = some (refsVal rs)) (hother : ρ.lookup "other" = some (refsVal os))
    (hby : ρ.lookup "by" = some (byVal bys)) (hne : bys ≠ []) (hd : rs.Nodup) (hdis : ∀ r, r ∈ rs → r ∉ os)
    (hv : Store.view σ rs = some xs) (hw : Store.view σ os = some ys)
    (hk1 : ∀ x, x ∈ xs → ∀ k, k ∈ byLeft bys → x.kv.has k = true)
    (hk2 : ∀ y, y ∈ ys → ∀ k, k ∈ byRight bys → y.kv.has k = true) :
    ∃ σ', runJ F [leftJoinT] ρ σ = some (rs.map PVal.ref, σ') ∧
      Store.view σ' rs = some (LoD.leftJoin xs ys (byLeft bys) (byRight bys)) ∧
      ∀ n, n ∉ rs → σ'.lookup n = σ.lookup n := by
  obtain ⟨σ', hspec, hview, hoth⟩ := specLoop_local (hasAll (byLeft bys)) (fun r _ => [PVal.ref r])
    (joinDict ys (byLeft bys) (byRight bys)) rs hd σ xs hv (fun x hx => (hasAll_iff _ _).mpr (hk1 x hx))
  rw [flatMap_ref_tags σ rs xs hv] at hspec
  refine ⟨σ', ?_, by rw [leftJoin_eq_map]; exact hview, hoth⟩
  exact runJ_for_inv F (Keeps joinNames ρ) (fun σ => Store.view σ os = some ys) _ _ _ PVal.ref _ rs ρ σ
    (by rw [evalJE_self, hself]; rfl) (Keeps.refl _ _) hw
    (fun r hr ρ' σ' out res hK hInv hs =>
      left_iter F ρ os ys bys hne hother hby hk2 r (hdis r hr) ρ' σ' out res hK hInv hs) _ hspec

theorem mem_innerJoin_leftJoin (xs ys : List Item) (by1 by2 : List String) (z : Item)
    (hz : z ∈ LoD.innerJoin xs ys by1 by2) : z ∈ LoD.leftJoin xs ys by1 by2 := by
  rw [innerJoin_eq_filter] at hz
  rw [leftJoin_eq_map]
  obtain ⟨x, hx, e⟩ := List.mem_map.mp hz
  exact List.mem_map.mpr ⟨x, (List.mem_filter.mp hx).1, e⟩

/-- **inner_join**: the matched left references are yielded in order; the store changes exactly as in left_join (the
    unmatched left objects are left as they are), so the yielded objects hold the model's `LoD.innerJoin`. -/
theorem inner_join_run (ρ : Env) (σ : Store) (rs os : List Nat) (bys : List ByArg) (xs ys : List Item)
    (hself : ρ.lookup "self" = some (refsVal rs)) (hother : ρ.lookup "other" = some (refsVal os))
    (hby : ρ.lookup "by" = some (byVal bys)) (hne : bys ≠ []) (hd : rs.Nodup) (hdis : ∀ r, r ∈ rs → r ∉ os)
    (hv : Store.view σ rs = some xs) (hw : Store.view σ os = some ys)
    (hk1 : ∀ x, x ∈ xs → ∀ k, k ∈ byLeft bys → x.kv.has k = true)
    (hk2 : ∀ y, y ∈ ys → ∀ k, k ∈ byRight bys → y.kv.has k = true) :
    ∃ σ', runJ F [innerJoinT] ρ σ = some ((LoD.innerJoin xs ys (byLeft bys) (byRight bys)).map tagRef, σ') ∧
      Store.view σ' ((LoD.innerJoin xs ys (byLeft bys) (byRight bys)).map (·.tag)) =
        some (LoD.innerJoin xs ys (byLeft bys) (byRight bys)) ∧
      Store.view σ' rs = some (LoD.leftJoin xs ys (byLeft bys) (byRight bys)) ∧
      ∀ n, n ∉ rs → σ'.lookup n = σ.lookup n := by
  obtain ⟨σ', hspec, hview, hoth⟩ := specLoop_local (hasAll (byLeft bys))
    (fun r d => if joinMatched ys (byLeft bys) (byRight bys) d then [PVal.ref r] else [])
    (joinDict ys (byLeft bys) (byRight bys)) rs hd σ xs hv (fun x hx => (hasAll_iff _ _).mpr (hk1 x hx))
  have hout : (xs.flatMap fun x => if joinMatched ys (byLeft bys) (byRight bys) x.kv then [PVal.ref x.tag] else []) =
      (LoD.innerJoin xs ys (byLeft bys) (byRight bys)).map tagRef := by
    rw [flatMap_if (fun x : Item => joinMatched ys (byLeft bys) (byRight bys) x.kv) (fun x => PVal.ref x.tag),
      innerJoin_eq_filter, List.map_map]
    rfl
  rw [hout] at hspec
  have hview' : Store.view σ' rs = some (LoD.leftJoin xs ys (byLeft bys) (byRight bys)) := by
    rw [leftJoin_eq_map]; exact hview
  refine ⟨σ', ?_, ?_, hview', hoth⟩
  · exact runJ_for_inv F (Keeps joinNames ρ) (fun σ => Store.view σ os = some ys) _ _ _ PVal.ref _ rs ρ σ
      (by rw [evalJE_self, hself]; rfl) (Keeps.refl _ _) hw
      (fun r hr ρ' σ' out res hK hInv hs =>
        inner_iter F ρ os ys bys hne hother hby hk2 r (hdis r hr) ρ' σ' out res hK hInv hs) _ hspec
  · exact Store.view_of_lookups σ' _ (fun z hz =>
      Store.view_lookup_of_mem σ' rs _ hview' z (mem_innerJoin_leftJoin xs ys _ _ z hz))

/-! #### semi_join / anti_join -/

def keepKeyT (op : String) : Term :=
  Term.app "for" [Term.sym "item", Term.sym "self", Term.app "block"
    [Term.app "if" [Term.app op [key1T, idsT], Term.app "block" [Term.app "yield" [Term.sym "item"]], Term.app "block" []]]]

/-- whether the key tuple of a left dict occurs among the right key tuples. -/
def keyAmong (ys : List Item) (by1 by2 : List String) (d : LoD.Dict) : Bool :=
  (ys.map (LoD.extract by2)).contains (LoD.extract by1 { tag := 0, kv := d })

/-- one iteration of semi_join (`neg = false`) / anti_join (`neg = true`). -/
theorem keepKey_iter (neg : Bool) (ρ0 : Env) (os : List Nat) (ys : List Item) (bys : List ByArg) (hne : bys ≠ [])
    (hother0 : ρ0.lookup "other" = some (refsVal os)) (hby0 : ρ0.lookup "by" = some (byVal bys))
    (hk2 : ∀ y, y ∈ ys → ∀ k, k ∈ byRight bys → y.kv.has k = true)
    (r : Nat) (ρ : Env) (σ : Store) (out : List PVal) (res : List PVal × Store)
    (hK : Keeps joinNames ρ0 ρ) (hw : Store.view σ os = some ys)
    (hs : localStep (hasAll (byLeft bys))
      (fun r d => if (neg != keyAmong ys (byLeft bys) (byRight bys) d) then [PVal.ref r] else []) id r σ = some res) :
    ∃ ρ', Keeps joinNames ρ0 ρ' ∧
      ((bindTarget (Term.sym "item") (.ref r) ρ).bind fun ρ1 =>
        evalJS F (Term.app "block" [Term.app "if" [Term.app (if neg then "NotIn" else "In") [key1T, idsT],
          Term.app "block" [Term.app "yield" [Term.sym "item"]], Term.app "block" []]]) ⟨ρ1, σ, out⟩) =
        some (Ctl.normal, ⟨ρ', res.2, out ++ res.1⟩) ∧ res.2 = σ := by
  obtain ⟨d, hl, hP, e⟩ := localStep_inv _ _ _ r σ res hs
  subst e
  have hK1 : Keeps joinNames ρ0 (("item", PVal.ref r) :: ρ) := hK.cons _ _ (by decide)
  have hother1 : List.lookup "other" (("item", PVal.ref r) :: ρ) = some (refsVal os) := by
    rw [hK1 "other" (by decide)]; exact hother0
  have hby1 : List.lookup "by" (("item", PVal.ref r) :: ρ) = some (byVal bys) := by
    rw [hK1 "by" (by decide)]; exact hby0
  have hkey : evalJE F key1T (("item", PVal.ref r) :: ρ) σ =
      some (keyEnc (LoD.extract (byLeft bys) { tag := r, kv := d })) :=
    evalJE_extract F by1T (Term.sym "item") _ σ (byLeft bys) (byLeft_ne_nil bys hne) r d (evalJE_by1 F _ σ bys hby1)
      (by rw [evalJE_item]; simp) hl ((hasAll_iff _ _).mp hP)
  have hids := ids_eval F _ σ os ys bys hne hother1 hby1 hw hk2
  have hka : keyAmong ys (byLeft bys) (byRight bys) d =
      (ys.map (LoD.extract (byRight bys))).contains (LoD.extract (byLeft bys) { tag := r, kv := d }) := rfl
  have hyield : evalJS F (Term.app "block" [Term.app "yield" [Term.sym "item"]]) ⟨("item", PVal.ref r) :: ρ, σ, out⟩ =
      some (Ctl.normal, ⟨("item", PVal.ref r) :: ρ, σ, out ++ [.ref r]⟩) := by
    rw [evalJS_block, evalJB_step F _ _ _ _ (evalJS_yield_of F _ _ σ out (.ref r) (by rw [evalJE_item]; simp)), evalJB_nil]
  have hcond : evalJE F (Term.app (if neg then "NotIn" else "In") [key1T, idsT]) (("item", PVal.ref r) :: ρ) σ =
      some (.bool (neg != keyAmong ys (byLeft bys) (byRight bys) d)) := by
    cases neg with
    | false =>
      simp only [Bool.false_eq_true, if_false]
      rw [idsT, evalJE_In_set, ← idsT, hkey, hids]
      simp only [Option.bind_some, pyIn_keyEnc, Option.map_some, hka, Bool.false_bne]
    | true =>
      simp only [if_true]
      rw [idsT, evalJE_NotIn_set, ← idsT, hkey, hids]
      simp only [Option.bind_some, pyIn_keyEnc, Option.map_some, hka, Bool.true_bne]
  simp only [bindTarget, Option.bind_some, evalJS_block]
  refine ⟨("item", PVal.ref r) :: ρ, hK1, ?_, Store.set_self σ r d hl⟩
  rw [evalJB_step F _ _ _ (if (neg != keyAmong ys (byLeft bys) (byRight bys) d) then
      ⟨("item", PVal.ref r) :: ρ, σ, out ++ [.ref r]⟩ else ⟨("item", PVal.ref r) :: ρ, σ, out⟩), evalJB_nil]
  · simp only [id, Store.set_self σ r d hl]
    cases (neg != keyAmong ys (byLeft bys) (byRight bys) d) <;> simp
  · rw [evalJS_if_of F _ _ _ _ σ out _ hcond]
    cases (neg != keyAmong ys (byLeft bys) (byRight bys) d) with
    | true => simp only [if_true]; exact hyield
    | false => simp only [Bool.false_eq_true, if_false, evalJS_block, evalJB_nil]

theorem keepKey_run (neg : Bool) (ρ : Env) (σ : Store) (rs os : List Nat) (bys : List ByArg) (xs ys : List Item)
    (hself : ρ.lookup "self" = some (refsVal rs)) (hother : ρ.lookup "other" = some (refsVal os))
    (hby : ρ.lookup "by" = some (byVal bys)) (hne : bys ≠ [])
    (hv : Store.view σ rs = some xs) (hw : Store.view σ os = some ys)
    (hk1 : ∀ x, x ∈ xs → ∀ k, k ∈ byLeft bys → x.kv.has k = true)
    (hk2 : ∀ y, y ∈ ys → ∀ k, k ∈ byRight bys → y.kv.has k = true) :
    runJ F [keepKeyT (if neg then "NotIn" else "In")] ρ σ =
      some (((xs.filter fun x => neg != keyAmong ys (byLeft bys) (byRight bys) x.kv).map tagRef), σ) := by
  have hspec := specLoop_readonly (hasAll (byLeft bys))
    (fun r d => if (neg != keyAmong ys (byLeft bys) (byRight bys) d) then [PVal.ref r] else []) rs σ xs hv
    (fun x hx => (hasAll_iff _ _).mpr (hk1 x hx))
  rw [flatMap_if (fun x : Item => neg != keyAmong ys (byLeft bys) (byRight bys) x.kv) (fun x => PVal.ref x.tag)] at hspec
  exact runJ_for_inv F (Keeps joinNames ρ) (fun σ' => σ' = σ) _ _ _ PVal.ref _ rs ρ σ
    (by rw [evalJE_self, hself]; rfl) (Keeps.refl _ _) rfl
    (fun r _ ρ' σ' out res hK hInv hs => by
      subst hInv
      obtain ⟨ρ'', h1, h2, h3⟩ := keepKey_iter F neg ρ os ys bys hne hother hby hk2 r ρ' σ' out res hK hw hs
      exact ⟨ρ'', h1, h2, h3⟩) _ hspec

theorem semiJoin_eq_filter (xs ys : List Item) (by1 by2 : List String) :
    LoD.semiJoin xs ys by1 by2 = xs.filter fun x => keyAmong ys by1 by2 x.kv := rfl

theorem antiJoin_eq_filter (xs ys : List Item) (by1 by2 : List String) :
    LoD.antiJoin xs ys by1 by2 = xs.filter fun x => !keyAmong ys by1 by2 x.kv := rfl

/-- **semi_join**: the left references whose key tuple is among the right key tuples; the store is unchanged. -/
theorem semi_join_run (ρ : Env) (σ : Store) (rs os : List Nat) (bys : List ByArg) (xs ys : List Item)
    (hself : ρ.lookup "self" = some (refsVal rs)) (hother : ρ.lookup "other" = some (refsVal os))
    (hby : ρ.lookup "by" = some (byVal bys)) (hne : bys ≠ [])
    (hv : Store.view σ rs = some xs) (hw : Store.view σ os = some ys)
    (hk1 : ∀ x, x ∈ xs → ∀ k, k ∈ byLeft bys → x.kv.has k = true)
    (hk2 : ∀ y, y ∈ ys → ∀ k, k ∈ byRight bys → y.kv.has k = true) :
    runJ F [keepKeyT "In"] ρ σ = some ((LoD.semiJoin xs ys (byLeft bys) (byRight bys)).map tagRef, σ) := by
  have h := keepKey_run F false ρ σ rs os bys xs ys hself hother hby hne hv hw hk1 hk2
  simp only [Bool.false_eq_true, if_false, Bool.false_bne] at h
  rw [semiJoin_eq_filter]; exact h

/-- **anti_join**: the left references whose key tuple is NOT among the right key tuples; the store is unchanged. -/
theorem anti_join_run (ρ : Env) (σ : Store) (rs os : List Nat) (bys : List ByArg) (xs ys : List Item)
    (hself : ρ.lookup "self" = some (refsVal rs)) (hother : ρ.lookup "other" = some (refsVal os))
    (hby : ρ.lookup "by" = some (byVal bys)) (hne : bys ≠ [])
    (hv : Store.view σ rs = some xs) (hw : Store.view σ os = some ys)
    (hk1 : ∀ x, x ∈ xs → ∀ k, k ∈ byLeft bys → x.kv.has k = true)
    (hk2 : ∀ y, y ∈ ys → ∀ k, k ∈ byRight bys → y.kv.has k = true) :
    runJ F [keepKeyT "NotIn"] ρ σ = some ((LoD.antiJoin xs ys (byLeft bys) (byRight bys)).map tagRef, σ) := by
  have h := keepKey_run F true ρ σ rs os bys xs ys hself hother hby hne hv hw hk1 hk2
  simp only [if_true, Bool.true_bne] at h
  rw [antiJoin_eq_filter]; exact h

end JoinRuns

/-! #### unique -/

def uniqueIfT : Term :=
  Term.app "if" [Term.app "NotIn" [Term.sym "id", Term.app "set()" []],
    Term.app "block" [Term.app ".add" [Term.app "set()" [], Term.sym "id"], Term.app "yield" [Term.sym "item"]],
    Term.app "block" []]

def uniqueBodyT : Term := Term.app "block"
  [Term.app "assign" [Term.sym "id", Term.app "call" [extractT (Term.sym "keys"), Term.sym "item"]], uniqueIfT]

def uniqueT : Term := Term.app "for" [Term.sym "item", Term.sym "self", uniqueBodyT]

/-- the names the body of `unique` assigns (`"set()"` = the bookkeeping set). -/
def uniqueNames : List String := ["item", "id", seenName]

section Unique
variable (F : Funs)

/-- the loop of **unique**, from any point: `seen` = the key tuples recorded so far (the bookkeeping set holds their
    values, in the order they were added). -/
theorem unique_loop (ρ0 : Env) (σ : Store) (ks : List String) (hne : ks ≠ []) (hkeys : ρ0.lookup "keys" = some (keysVal ks)) :
    ∀ (rs : List Nat) (xs : List Item) (seen : List (List LoD.Val)) (ρ : Env) (out : List PVal),
      Keeps uniqueNames ρ0 ρ → (ρ.lookup seenName).getD (.tuple []) = .tuple (seen.reverse.map keyEnc) →
      Store.view σ rs = some xs → (∀ x, x ∈ xs → ∀ k, k ∈ ks → x.kv.has k = true) →
      ∃ ρ', loopOver (evalJS F uniqueBodyT) (bindTarget (Term.sym "item")) (rs.map PVal.ref) ⟨ρ, σ, out⟩ =
        some ⟨ρ', σ, out ++ (LoD.uniqueScan xs ks seen).map tagRef⟩ := by
  intro rs
  induction rs with
  | nil =>
    intro xs seen ρ out _ _ hv _
    simp only [Store.view, Option.some.injEq] at hv
    subst hv
    exact ⟨ρ, by simp [loopOver_nil, LoD.uniqueScan]⟩
  | cons r rs ih =>
    intro xs seen ρ out hK hseen hv hk
    obtain ⟨d, zs, hl, hvr, e⟩ := Store.view_cons_inv σ r rs xs hv
    subst e
    have hK1 : Keeps uniqueNames ρ0 (("item", PVal.ref r) :: ρ) := hK.cons _ _ (by decide)
    have hkeys1 : List.lookup "keys" (("item", PVal.ref r) :: ρ) = some (keysVal ks) := by
      rw [hK1 "keys" (by decide)]; exact hkeys
    have hkey : evalJE F (Term.app "call" [extractT (Term.sym "keys"), Term.sym "item"]) (("item", PVal.ref r) :: ρ) σ =
        some (keyEnc (LoD.extract ks { tag := r, kv := d })) :=
      evalJE_extract F (Term.sym "keys") (Term.sym "item") _ σ ks hne r d (by rw [evalJE_keys]; exact hkeys1)
        (by rw [evalJE_item]; simp) hl (hk _ List.mem_cons_self)
    have hK2 : Keeps uniqueNames ρ0 (("id", keyEnc (LoD.extract ks { tag := r, kv := d })) :: ("item", PVal.ref r) :: ρ) :=
      hK1.cons _ _ (by decide)
    have hseen2 : (List.lookup seenName (("id", keyEnc (LoD.extract ks { tag := r, kv := d })) :: ("item", PVal.ref r) :: ρ)).getD
        (.tuple []) = .tuple (seen.reverse.map keyEnc) := by
      rw [List.lookup_cons, List.lookup_cons]; exact hseen
    have hcond : evalJE F (Term.app "NotIn" [Term.sym "id", Term.app "set()" []])
        (("id", keyEnc (LoD.extract ks { tag := r, kv := d })) :: ("item", PVal.ref r) :: ρ) σ =
        some (.bool !(seen.contains (LoD.extract ks { tag := r, kv := d }))) := by
      rw [evalJE_NotIn_set, evalJE_id, evalJE_seen, hseen2]
      simp only [List.lookup_cons_self, Option.bind_some, pyIn_keyEnc, Option.map_some]
      simp
    have hk' : ∀ x, x ∈ zs → ∀ k, k ∈ ks → x.kv.has k = true := fun x hx => hk x (List.mem_cons_of_mem _ hx)
    rw [List.map_cons, loopOver_cons]
    simp only [bindTarget, Option.bind_some]
    have hscan : LoD.uniqueScan ({ tag := r, kv := d } :: zs) ks seen =
        if seen.contains (LoD.extract ks { tag := r, kv := d }) then LoD.uniqueScan zs ks seen
        else { tag := r, kv := d } :: LoD.uniqueScan zs ks (LoD.extract ks { tag := r, kv := d } :: seen) := rfl
    cases hc : seen.contains (LoD.extract ks { tag := r, kv := d }) with
    | true =>
      rw [hc] at hcond hscan
      have hif : evalJS F uniqueIfT
          ⟨("id", keyEnc (LoD.extract ks { tag := r, kv := d })) :: ("item", PVal.ref r) :: ρ, σ, out⟩ =
          some (Ctl.normal, ⟨("id", keyEnc (LoD.extract ks { tag := r, kv := d })) :: ("item", PVal.ref r) :: ρ, σ, out⟩) := by
        rw [uniqueIfT, evalJS_if_of F _ _ _ _ σ out _ hcond]
        simp only [Bool.not_true, Bool.false_eq_true, if_false, evalJS_block, evalJB_nil]
      have hbody : evalJS F uniqueBodyT ⟨("item", PVal.ref r) :: ρ, σ, out⟩ =
          some (Ctl.normal, ⟨("id", keyEnc (LoD.extract ks { tag := r, kv := d })) :: ("item", PVal.ref r) :: ρ, σ, out⟩) := by
        rw [uniqueBodyT, evalJS_block, evalJB_step F _ _ _ _ (evalJS_assign_of F "id" _ _ σ out _ hkey),
          evalJB_step F _ _ _ _ hif, evalJB_nil]
      rw [hbody, Option.bind_some]
      obtain ⟨ρ', h⟩ := ih zs seen _ out hK2 hseen2 hvr hk'
      exact ⟨ρ', by rw [h, hscan]; simp⟩
    | false =>
      rw [hc] at hcond hscan
      have hadd : evalJS F (Term.app ".add" [Term.app "set()" [], Term.sym "id"])
          ⟨("id", keyEnc (LoD.extract ks { tag := r, kv := d })) :: ("item", PVal.ref r) :: ρ, σ, out⟩ =
          some (Ctl.normal, ⟨(seenName, .tuple (seen.reverse.map keyEnc ++ [keyEnc (LoD.extract ks { tag := r, kv := d })])) ::
            ("id", keyEnc (LoD.extract ks { tag := r, kv := d })) :: ("item", PVal.ref r) :: ρ, σ, out⟩) := by
        rw [evalJS_add, evalJE_id]
        simp only [List.lookup_cons_self, Option.bind_some, hseen2, PVal.asTuple, keyEnc_plain, if_true]
      have hitem3 : List.lookup "item" ((seenName, PVal.tuple (seen.reverse.map keyEnc ++ [keyEnc (LoD.extract ks { tag := r, kv := d })])) ::
            ("id", keyEnc (LoD.extract ks { tag := r, kv := d })) :: ("item", PVal.ref r) :: ρ) = some (PVal.ref r) := by
        rw [List.lookup_cons, List.lookup_cons, List.lookup_cons_self]
        rfl
      have hif : evalJS F uniqueIfT
          ⟨("id", keyEnc (LoD.extract ks { tag := r, kv := d })) :: ("item", PVal.ref r) :: ρ, σ, out⟩ =
          some (Ctl.normal, ⟨(seenName, .tuple (seen.reverse.map keyEnc ++ [keyEnc (LoD.extract ks { tag := r, kv := d })])) ::
            ("id", keyEnc (LoD.extract ks { tag := r, kv := d })) :: ("item", PVal.ref r) :: ρ, σ, out ++ [.ref r]⟩) := by
        rw [uniqueIfT, evalJS_if_of F _ _ _ _ σ out _ hcond]
        simp only [Bool.not_false, if_true, evalJS_block]
        rw [evalJB_step F _ _ _ _ hadd,
          evalJB_step F _ _ _ _ (evalJS_yield_of F _ _ σ out (.ref r) (by rw [evalJE_item]; exact hitem3)), evalJB_nil]
      have hbody : evalJS F uniqueBodyT ⟨("item", PVal.ref r) :: ρ, σ, out⟩ =
          some (Ctl.normal, ⟨(seenName, .tuple (seen.reverse.map keyEnc ++ [keyEnc (LoD.extract ks { tag := r, kv := d })])) ::
            ("id", keyEnc (LoD.extract ks { tag := r, kv := d })) :: ("item", PVal.ref r) :: ρ, σ, out ++ [.ref r]⟩) := by
        rw [uniqueBodyT, evalJS_block, evalJB_step F _ _ _ _ (evalJS_assign_of F "id" _ _ σ out _ hkey),
          evalJB_step F _ _ _ _ hif, evalJB_nil]
      rw [hbody, Option.bind_some]
      obtain ⟨ρ', h⟩ := ih zs (LoD.extract ks { tag := r, kv := d } :: seen)
        ((seenName, .tuple (seen.reverse.map keyEnc ++ [keyEnc (LoD.extract ks { tag := r, kv := d })])) ::
          ("id", keyEnc (LoD.extract ks { tag := r, kv := d })) :: ("item", PVal.ref r) :: ρ) (out ++ [.ref r])
        ((hK2.cons seenName _ (by decide))) (by
          rw [List.lookup_cons_self]
          simp [List.reverse_cons, List.map_append]) hvr hk'
      exact ⟨ρ', by rw [h, hscan]; simp [tagRef]⟩

/-- **unique**: the references whose key tuple has not been seen before, in order; the store is unchanged. -/
theorem unique_run (ρ : Env) (σ : Store) (rs : List Nat) (ks : List String) (xs : List Item) (hne : ks ≠ [])
    (hself : ρ.lookup "self" = some (refsVal rs)) (hkeys : ρ.lookup "keys" = some (keysVal ks))
    (hseen : ρ.lookup seenName = none)
    (hv : Store.view σ rs = some xs) (hk : ∀ x, x ∈ xs → ∀ k, k ∈ ks → x.kv.has k = true) :
    runJ F [uniqueT] ρ σ = some ((LoD.unique xs ks).map tagRef, σ) := by
  obtain ⟨ρ', h⟩ := unique_loop F ρ σ ks hne hkeys rs xs [] ρ [] (Keeps.refl _ _) (by rw [hseen]; rfl) hv hk
  simp only [runJ, uniqueT, evalJB_cons, evalJB_nil, evalJS_for, evalJE_self, hself, refsVal, Option.bind_some,
    PVal.asTuple, h, Option.map_some, List.nil_append, LoD.unique]

end Unique

/-! #### select / rename: one NEW dict per item, yielded by value -/

theorem zip_map_fst {α β γ : Type} (f : α → γ) (xs : List α) (fresh : List β) (h : xs.length ≤ fresh.length) :
    (xs.zip fresh).map (fun p => f p.1) = xs.map f := by
  induction xs generalizing fresh with
  | nil => rfl
  | cons x xs ih =>
    cases fresh with
    | nil => simp at h
    | cons b fresh =>
      simp only [List.zip_cons_cons, List.map_cons, ih fresh (by simpa using h)]

def selDC : List Term :=
  [Term.app "pair" [Term.sym "x", Term.app "getitem" [Term.sym "item", Term.sym "x"]],
   Term.app "in" [Term.sym "x", Term.sym "keys", Term.app "if" [Term.app "In" [Term.sym "x", Term.sym "item"]]]]

def selectBodyT : Term :=
  Term.app "block" [Term.app "yield" [Term.app "AttributeDict" [Term.app "DictComp" selDC]]]

def selectT : Term := Term.app "for" [Term.sym "item", Term.sym "self", selectBodyT]

/-- the contents of the dict `select(*keys)` builds from the contents `d` (as in `LoD.select`). -/
def selectKv (ks : List String) (d : LoD.Dict) : LoD.Dict :=
  Dict.ofPairs (ks.filterMap fun k => (d.get? k).map fun v => (k, v))

theorem select_kvs (xs : List Item) (ks : List String) (fresh : List Nat) (h : xs.length ≤ fresh.length) :
    (LoD.select xs ks fresh).map (fun it => dictVal it.kv) = xs.map fun x => dictVal (selectKv ks x.kv) :=
  by
    unfold LoD.select
    rw [List.map_map]
    exact zip_map_fst (fun x : Item => dictVal (selectKv ks x.kv)) xs fresh h

def renDC : List Term :=
  [Term.app "pair" [Term.sym "v", Term.sym "k"],
   Term.app "in" [Term.app "tuple" [Term.sym "k", Term.sym "v"], Term.app ".items" [Term.sym "to_from_pairs"], Term.app "if" []]]

def renKeysT : Term :=
  Term.app "ListComp" [Term.app ".get" [Term.app "DictComp" renDC, Term.sym "x", Term.sym "x"],
    Term.app "in" [Term.sym "x", Term.app ".keys" [Term.sym "item"], Term.app "if" []]]

def renameBodyT : Term := Term.app "block"
  [Term.app "assign" [Term.sym "keys", renKeysT],
   Term.app "yield" [Term.app "AttributeDict" [Term.app "zip" [Term.sym "keys", Term.app ".values" [Term.sym "item"]]]]]

def renameT : Term := Term.app "for" [Term.sym "item", Term.sym "self", renameBodyT]

/-- `**to_from_pairs` as it enters the environment: new name ↦ old name. -/
def tfVal (toFrom : List (String × String)) : PVal := kvPairsVal (toFrom.map fun p => (p.1, LoD.Val.s p.2))

/-- `renames = {from: to}` (insertion order, a later pair for the same old name wins). -/
def renamesOf (toFrom : List (String × String)) : List (String × String) := aofPairs (toFrom.map fun p => (p.2, p.1))

def renKey (toFrom : List (String × String)) (k : String) : String := (aget (renamesOf toFrom) k).getD k

/-- the contents of the dict `rename(**to_from_pairs)` builds from the contents `d` (as in `LoD.rename`). -/
def renameKv (toFrom : List (String × String)) (d : LoD.Dict) : LoD.Dict :=
  Dict.ofPairs (d.map fun e => (renKey toFrom e.1, e.2))

theorem rename_eq_map (xs : List Item) (toFrom : List (String × String)) (fresh : List Nat) :
    LoD.rename xs toFrom fresh = (xs.zip fresh).map fun p => { tag := p.2, kv := renameKv toFrom p.1.kv } := by
  have hren : renamesOf toFrom = toFrom.foldl (fun acc p =>
      if acc.any (fun q => q.1 == p.2) then acc.map (fun q => if q.1 == p.2 then (p.2, p.1) else q)
      else acc ++ [(p.2, p.1)]) [] := by
    unfold renamesOf aofPairs
    rw [List.foldl_map]
    rfl
  unfold LoD.rename renameKv renKey
  rw [hren]
  rfl

theorem rename_kvs (xs : List Item) (toFrom : List (String × String)) (fresh : List Nat) (h : xs.length ≤ fresh.length) :
    (LoD.rename xs toFrom fresh).map (fun it => dictVal it.kv) = xs.map fun x => dictVal (renameKv toFrom x.kv) := by
  rw [rename_eq_map, List.map_map]
  exact zip_map_fst (fun x : Item => dictVal (renameKv toFrom x.kv)) xs fresh h

theorem aget_map {κ β κ' β' : Type} [BEq κ] [LawfulBEq κ] [BEq κ'] [LawfulBEq κ'] (g : κ → κ') (h : β → β')
    (hg : ∀ a b, g a = g b → a = b) (d : List (κ × β)) (k : κ) :
    aget (d.map fun p => (g p.1, h p.2)) (g k) = (aget d k).map h := by
  have hb : ∀ a b : κ, (g a == g b) = (a == b) := by
    intro a b
    by_cases e : a = b
    · subst e; simp
    · have : g a ≠ g b := fun c => e (hg a b c)
      rw [beq_eq_false_iff_ne.mpr this, beq_eq_false_iff_ne.mpr e]
  induction d with
  | nil => rfl
  | cons p d ih =>
    simp only [aget, List.map_cons, List.find?_cons, hb] at ih ⊢
    cases (p.1 == k) with
    | true => rfl
    | false => exact ih

section SelectRename
variable (F : Funs)

theorem selDC_eval (ρ : Env) (σ : Store) (ks : List String) (r : Nat) (d : LoD.Dict)
    (hkeys : ρ.lookup "keys" = some (keysVal ks)) (hitem : ρ.lookup "item" = some (.ref r)) (hl : σ.lookup r = some d) :
    evalJE F (Term.app "DictComp" selDC) ρ σ = some (dictVal (selectKv ks d)) := by
  rw [evalJE_DictComp, selDC, evalJDC_eq, evalJE_keys, hkeys]
  simp only [keysVal, PVal.asTuple, Option.bind_some]
  rw [compLoop_map _ _ _ ρ PVal.str (fun k => (d.get? k).map fun v => kvEnc (k, v)) ks]
  · have : (ks.filterMap fun k => (d.get? k).map fun v => kvEnc (k, v)) =
        (ks.filterMap fun k => (d.get? k).map fun v => (k, v)).map kvEnc := by
      rw [List.map_filterMap]
      congr 1
      funext k
      cases d.get? k <;> rfl
    rw [this, Option.map_some, Option.map_some, aofPairs_kvEnc]
    rfl
  · intro k _
    refine ⟨("x", PVal.str k) :: ρ, rfl, ?_⟩
    have hitem1 : List.lookup "item" (("x", PVal.str k) :: ρ) = some (.ref r) := by
      rw [List.lookup_cons]; exact hitem
    have hcond : evalJConds F [Term.app "In" [Term.sym "x", Term.sym "item"]] (("x", PVal.str k) :: ρ) σ =
        some (d.get? k).isSome := by
      rw [evalJConds_cons, evalJE_In_x_item, hitem1, List.lookup_cons_self]
      simp only [Option.bind_some, PVal.str, pyIn, hl, Option.map_some, truthy, evalJConds_nil, Dict.has_iff_get?]
      cases (d.get? k).isSome <;> rfl
    cases hg : d.get? k with
    | none => exact Or.inl ⟨rfl, by rw [hcond, hg]; rfl⟩
    | some v =>
      refine Or.inr ⟨kvEnc (k, v), rfl, by rw [hcond, hg]; rfl, ?_⟩
      rw [evalJE_x, evalJE_getitem_item_x, hitem1, List.lookup_cons_self]
      simp only [Option.bind_some, PVal.str, getItem, hl, hg, Option.map_some, PVal.plain, if_true, kvEnc]

/-- one iteration of **select**. -/
theorem select_iter (ρ0 : Env) (ks : List String) (hkeys : ρ0.lookup "keys" = some (keysVal ks))
    (r : Nat) (ρ : Env) (σ : Store) (out : List PVal) (res : List PVal × Store) (hK : Keeps ["item"] ρ0 ρ)
    (hs : localStep (fun _ => true) (fun _ d => [dictVal (selectKv ks d)]) id r σ = some res) :
    ∃ ρ', Keeps ["item"] ρ0 ρ' ∧
      ((bindTarget (Term.sym "item") (.ref r) ρ).bind fun ρ1 => evalJS F selectBodyT ⟨ρ1, σ, out⟩) =
        some (Ctl.normal, ⟨ρ', res.2, out ++ res.1⟩) ∧ res.2 = σ := by
  obtain ⟨d, hl, _, e⟩ := localStep_inv _ _ _ r σ res hs
  subst e
  have hK1 : Keeps ["item"] ρ0 (("item", PVal.ref r) :: ρ) := hK.cons _ _ (by decide)
  have hkeys1 : List.lookup "keys" (("item", PVal.ref r) :: ρ) = some (keysVal ks) := by
    rw [hK1 "keys" (by decide)]; exact hkeys
  have hval : evalJE F (Term.app "AttributeDict" [Term.app "DictComp" selDC]) (("item", PVal.ref r) :: ρ) σ =
      some (dictVal (selectKv ks d)) := by
    rw [evalJE_AttributeDict, selDC_eval F _ σ ks r d hkeys1 (List.lookup_cons_self) hl, Option.bind_some, asKvs_dictVal,
      Option.map_some, selectKv, ofPairs_ofPairs]
  refine ⟨("item", PVal.ref r) :: ρ, hK1, ?_, Store.set_self σ r d hl⟩
  simp only [bindTarget, Option.bind_some, selectBodyT, evalJS_block]
  rw [evalJB_step F _ _ _ _ (evalJS_yield_of F _ _ σ out _ hval), evalJB_nil]
  simp only [id, Store.set_self σ r d hl]

/-- **select**: one new dict per item, `LoD.select`'s contents, yielded by value; the store is unchanged. -/
theorem select_run (ρ : Env) (σ : Store) (rs : List Nat) (ks : List String) (xs : List Item)
    (hself : ρ.lookup "self" = some (refsVal rs)) (hkeys : ρ.lookup "keys" = some (keysVal ks))
    (hv : Store.view σ rs = some xs) :
    runJ F [selectT] ρ σ = some (xs.map (fun x => dictVal (selectKv ks x.kv)), σ) := by
  have hspec := specLoop_readonly (fun _ => true) (fun _ d => [dictVal (selectKv ks d)]) rs σ xs hv (fun _ _ => rfl)
  rw [flatMap_single (fun x : Item => dictVal (selectKv ks x.kv)) xs] at hspec
  exact runJ_for_inv F (Keeps ["item"] ρ) (fun σ' => σ' = σ) _ _ _ PVal.ref _ rs ρ σ
    (by rw [evalJE_self, hself]; rfl) (Keeps.refl _ _) rfl
    (fun r _ ρ' σ' out res hK hInv hs => by
      subst hInv
      exact select_iter F ρ ks hkeys r ρ' σ' out res hK hs) _ hspec

theorem renDC_eval (ρ : Env) (σ : Store) (toFrom : List (String × String))
    (htf : ρ.lookup "to_from_pairs" = some (tfVal toFrom)) :
    evalJDC F renDC ρ σ = some ((renamesOf toFrom).map fun p => (PVal.str p.1, PVal.str p.2)) := by
  rw [renDC, evalJDC_eq, evalJE_items_tfp, htf, Option.bind_some, tfVal, itemsOf_kvPairs]
  simp only [kvPairsVal, PVal.asTuple, Option.bind_some, List.map_map]
  rw [compLoop_map _ _ _ ρ ((fun p : String × LoD.Val => PVal.tuple [PVal.str p.1, PVal.atom p.2]) ∘
      fun p : String × String => (p.1, LoD.Val.s p.2))
    (fun p => some (PVal.str p.2, PVal.str p.1)) toFrom]
  · rw [List.filterMap_eq_map', Option.map_some, renamesOf,
      ← aofPairs_map PVal.str PVal.str kvEnc_str_inj, List.map_map]
    rfl
  · intro p _
    refine ⟨("v", PVal.atom (LoD.Val.s p.2)) :: ("k", PVal.str p.1) :: ρ, rfl, Or.inr ⟨_, rfl, rfl, ?_⟩⟩
    rw [evalJE_v, evalJE_k, List.lookup_cons_self, List.lookup_cons, List.lookup_cons_self]
    rfl

theorem renKeys_eval (ρ : Env) (σ : Store) (toFrom : List (String × String)) (r : Nat) (d : LoD.Dict)
    (htf : ρ.lookup "to_from_pairs" = some (tfVal toFrom)) (hitem : ρ.lookup "item" = some (.ref r))
    (hl : σ.lookup r = some d) :
    evalJE F renKeysT ρ σ = some (.tuple (d.map fun e => PVal.str (renKey toFrom e.1))) := by
  rw [renKeysT, evalJE_ListComp, evalJE_keys_item, hitem]
  simp only [Option.bind_some, keysOf, hl, Option.map_some, PVal.asTuple]
  rw [compLoop_map _ _ _ ρ (fun e : String × LoD.Val => PVal.str e.1) (fun e => some (PVal.str (renKey toFrom e.1))) d]
  · rw [List.filterMap_eq_map', Option.map_some]
  · intro e _
    refine ⟨("x", PVal.str e.1) :: ρ, rfl, Or.inr ⟨_, rfl, rfl, ?_⟩⟩
    have htf1 : List.lookup "to_from_pairs" (("x", PVal.str e.1) :: ρ) = some (tfVal toFrom) := by
      rw [List.lookup_cons]; exact htf
    rw [evalJE_get_DC, renDC_eval F _ σ toFrom htf1, evalJE_x, List.lookup_cons_self]
    have hplain : (PVal.str e.1).plain = true := rfl
    simp only [Option.bind_some, dictGet, hplain, if_true, Option.map_some,
      aget_map PVal.str PVal.str kvEnc_str_inj (renamesOf toFrom) e.1, renKey]
    cases aget (renamesOf toFrom) e.1 <;> rfl

/-- one iteration of **rename**. -/
theorem rename_iter (ρ0 : Env) (toFrom : List (String × String)) (htf : ρ0.lookup "to_from_pairs" = some (tfVal toFrom))
    (r : Nat) (ρ : Env) (σ : Store) (out : List PVal) (res : List PVal × Store) (hK : Keeps ["item", "keys"] ρ0 ρ)
    (hs : localStep (fun _ => true) (fun _ d => [dictVal (renameKv toFrom d)]) id r σ = some res) :
    ∃ ρ', Keeps ["item", "keys"] ρ0 ρ' ∧
      ((bindTarget (Term.sym "item") (.ref r) ρ).bind fun ρ1 => evalJS F renameBodyT ⟨ρ1, σ, out⟩) =
        some (Ctl.normal, ⟨ρ', res.2, out ++ res.1⟩) ∧ res.2 = σ := by
  obtain ⟨d, hl, _, e⟩ := localStep_inv _ _ _ r σ res hs
  subst e
  have hK1 : Keeps ["item", "keys"] ρ0 (("item", PVal.ref r) :: ρ) := hK.cons _ _ (by decide)
  have htf1 : List.lookup "to_from_pairs" (("item", PVal.ref r) :: ρ) = some (tfVal toFrom) := by
    rw [hK1 "to_from_pairs" (by decide)]; exact htf
  have hkeys := renKeys_eval F _ σ toFrom r d htf1 (List.lookup_cons_self) hl
  have hval : evalJE F (Term.app "AttributeDict" [Term.app "zip" [Term.sym "keys", Term.app ".values" [Term.sym "item"]]])
      (("keys", PVal.tuple (d.map fun e => PVal.str (renKey toFrom e.1))) :: ("item", PVal.ref r) :: ρ) σ =
      some (dictVal (renameKv toFrom d)) := by
    have hz : (d.map fun e => PVal.str (renKey toFrom e.1)).zip (d.map fun p => PVal.atom p.2) =
        (d.map fun e => (renKey toFrom e.1, e.2)).map kvEnc := by
      rw [List.zip_map', List.map_map]; rfl
    have hk : List.lookup "keys" (("keys", PVal.tuple (d.map fun e => PVal.str (renKey toFrom e.1))) :: ("item", PVal.ref r) :: ρ) =
        some (PVal.tuple (d.map fun e => PVal.str (renKey toFrom e.1))) := List.lookup_cons_self
    have hi : List.lookup "item" (("keys", PVal.tuple (d.map fun e => PVal.str (renKey toFrom e.1))) :: ("item", PVal.ref r) :: ρ) =
        some (PVal.ref r) := by rw [List.lookup_cons]; simp
    rw [evalJE_AttributeDict, evalJE_zip, evalJE_keys, evalJE_values_item, hk, hi]
    simp only [Option.bind_some, valuesOf, hl, Option.map_some, zipVal, PVal.asTuple, hz]
    rw [← dictVal_eq, asKvs_dictVal]
    rfl
  refine ⟨("keys", PVal.tuple (d.map fun e => PVal.str (renKey toFrom e.1))) :: ("item", PVal.ref r) :: ρ,
    hK1.cons _ _ (by decide), ?_, Store.set_self σ r d hl⟩
  simp only [bindTarget, Option.bind_some, renameBodyT, evalJS_block]
  rw [evalJB_step F _ _ _ _ (evalJS_assign_of F "keys" _ _ σ out _ hkeys),
    evalJB_step F _ _ _ _ (evalJS_yield_of F _ _ σ out _ hval), evalJB_nil]
  simp only [id, Store.set_self σ r d hl]

/-- **rename**: one new dict per item, `LoD.rename`'s contents, yielded by value; the store is unchanged. -/
theorem rename_run (ρ : Env) (σ : Store) (rs : List Nat) (toFrom : List (String × String)) (xs : List Item)
    (hself : ρ.lookup "self" = some (refsVal rs)) (htf : ρ.lookup "to_from_pairs" = some (tfVal toFrom))
    (hv : Store.view σ rs = some xs) :
    runJ F [renameT] ρ σ = some (xs.map (fun x => dictVal (renameKv toFrom x.kv)), σ) := by
  have hspec := specLoop_readonly (fun _ => true) (fun _ d => [dictVal (renameKv toFrom d)]) rs σ xs hv (fun _ _ => rfl)
  rw [flatMap_single (fun x : Item => dictVal (renameKv toFrom x.kv)) xs] at hspec
  exact runJ_for_inv F (Keeps ["item", "keys"] ρ) (fun σ' => σ' = σ) _ _ _ PVal.ref _ rs ρ σ
    (by rw [evalJE_self, hself]; rfl) (Keeps.refl _ _) rfl
    (fun r _ ρ' σ' out res hK hInv hs => by
      subst hInv
      exact rename_iter F ρ toFrom htf r ρ' σ' out res hK hs) _ hspec

end SelectRename

end DI.PyEvalLoD

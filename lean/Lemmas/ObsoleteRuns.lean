/-
  Lemmas/ObsoleteRuns.lean — C17 over whole histories (all finite op sequences):
    * predecessor pointers are immutable and point to older lists (`pred_stable`, `pred_older`);
    * a list is obsolete after a run iff some edit in the run had it on the receiver's chain;
    * a deep copy and its descendants never share a dict with any other list, so writes on one
      side are never observed on the other;
    * the warning of a list is printed exactly once iff it is used while obsolete.
-/
import Model.Obsolete
import Lemmas.Obsolete
import Lemmas.ObsoleteHist

namespace DI.Obs

/-! ### vocabulary -/

/-- the `@obsoletes` methods. -/
def Op.isEdit : Op → Bool
  | .editInPlace _ _ => true
  | .editFresh _ => true
  | _ => false

/-- a direct item write `r[pos][k] = v` (no attribute access on the list, so no warning). -/
def Op.isPoke : Op → Bool
  | .poke _ _ => true
  | _ => false

/-- `_obsolete` of list `i` (false for a list that does not exist yet). -/
def isObs (w : World) (i : Nat) : Bool :=
  match w.lists[i]? with
  | some l => l.obsolete
  | none => false

/-- `_obsolete_warned` of list `i` (false for a list that does not exist yet). -/
def isWarned (w : World) (i : Nat) : Bool :=
  match w.lists[i]? with
  | some l => l.warned
  | none => false

/-- predecessors are strictly older objects. -/
def PredOlder (ls : List LObj) : Prop :=
  ∀ (i : Nat) (l : LObj) (p : Nat), ls[i]? = some l → l.pred = some p → p < i

/-- every item of every list is an allocated dict object. -/
def ItemsValid (w : World) : Prop :=
  ∀ (i : Nat) (l : LObj) (d : Nat), w.lists[i]? = some l → d ∈ l.items → d < w.vers.length

/-- well-formed world. -/
def WF (w : World) : Prop := PredOlder w.lists ∧ ItemsValid w

/-- `Anc ls i r`: list `i` lies on the `_predecessor` chain of list `r` (`i = r` or `i` is an
    ancestor of `r`); equivalently `r` is `i` or a descendant of `i`. Fuel-free. -/
inductive Anc (ls : List LObj) : Nat → Nat → Prop
  | refl (r : Nat) (l : LObj) : ls[r]? = some l → Anc ls r r
  | step (i r : Nat) (l : LObj) (p : Nat) : ls[r]? = some l → l.pred = some p → Anc ls i p → Anc ls i r

/-! ### small facts about `touch`, `bump`, `pick`, `chain` -/

theorem touch_some (w : World) (r i : Nat) (l : LObj) (h : w.lists[i]? = some l) :
    ∃ l1, (touch w r).1.lists[i]? = some l1 ∧ l1.items = l.items ∧ l1.pred = l.pred ∧
      l1.obsolete = l.obsolete := by
  rw [touch_lists_get, h]
  simp only [Option.map_some]
  refine ⟨_, rfl, ?_⟩
  split <;> simp

theorem touch_none (w : World) (r i : Nat) (h : w.lists[i]? = none) :
    (touch w r).1.lists[i]? = none := by
  rw [touch_lists_get, h]; rfl

theorem touch_some_inv (w : World) (r i : Nat) (l1 : LObj) (h : (touch w r).1.lists[i]? = some l1) :
    ∃ l, w.lists[i]? = some l ∧ l1.items = l.items ∧ l1.pred = l.pred ∧ l1.obsolete = l.obsolete := by
  cases hi : w.lists[i]? with
  | none => rw [touch_none w r i hi] at h; cases h
  | some l =>
    obtain ⟨l2, h2, e⟩ := touch_some w r i l hi
    rw [h] at h2; cases h2
    exact ⟨l, rfl, e⟩

theorem bump_length (vers ds : List Nat) : (bump vers ds).length = vers.length := by
  simp [bump]

theorem bump_get_of_not_mem (vers ds : List Nat) (d : Nat) (hd : d ∉ ds) :
    (bump vers ds)[d]? = vers[d]? := by
  simp only [bump, List.getElem?_map, List.getElem?_zipIdx]
  cases vers[d]? <;> simp [hd]

theorem mem_pick (items keep : List Nat) (d : Nat) (h : d ∈ pick items keep) : d ∈ items := by
  simp only [pick, List.mem_filterMap] at h
  obtain ⟨i, _, hi⟩ := h
  exact List.mem_of_getElem? hi

theorem chain_of_none (fuel : Nat) (ls : List LObj) (r : Nat) (h : ls[r]? = none) :
    chain fuel ls r = [] := by
  cases fuel with
  | zero => rfl
  | succ f => exact chain_none f ls r h

theorem chain_congr (fuel : Nat) (ls ls' : List LObj)
    (h : ∀ j : Nat, (ls[j]?).map LObj.pred = (ls'[j]?).map LObj.pred) (r : Nat) :
    chain fuel ls r = chain fuel ls' r := by
  induction fuel generalizing r with
  | zero => rfl
  | succ f ih =>
    have hr := h r
    cases h1 : ls[r]? with
    | none =>
      cases h2 : ls'[r]? with
      | none => rw [chain_none _ _ _ h1, chain_none _ _ _ h2]
      | some b => rw [h1, h2] at hr; cases hr
    | some a =>
      cases h2 : ls'[r]? with
      | none => rw [h1, h2] at hr; cases hr
      | some b =>
        rw [h1, h2] at hr
        simp only [Option.map_some, Option.some.injEq] at hr
        rw [chain_some _ _ _ a h1, chain_some _ _ _ b h2, hr]
        cases b.pred with
        | none => rfl
        | some p => simp only [ih p]

theorem chain_touch (w : World) (r x : Nat) :
    chain (touch w r).1.lists.length (touch w r).1.lists x = chain w.lists.length w.lists x := by
  rw [touch_length]
  exact chain_congr _ _ _ (fun j => touch_pred w r j) x

/-- members of a chain are existing lists. -/
theorem chain_mem_lt (fuel : Nat) (ls : List LObj) (r i : Nat) (h : i ∈ chain fuel ls r) :
    i < ls.length := by
  induction fuel generalizing r with
  | zero => simp [chain] at h
  | succ f ih =>
    cases h1 : ls[r]? with
    | none => rw [chain_none _ _ _ h1] at h; cases h
    | some a =>
      rw [chain_some _ _ _ a h1] at h
      rcases List.mem_cons.mp h with rfl | h
      · exact (List.getElem?_eq_some_iff.mp h1).1
      · cases hp : a.pred with
        | none => rw [hp] at h; cases h
        | some p => rw [hp] at h; exact ih p h

/-! ### one call: effect on the existing lists, the new list, and the dict versions -/

def Op.isDeepcopy : Op → Bool
  | .deepcopy _ => true
  | _ => false

theorem touch_recv_none (w : World) (r : Nat) (h : (touch w r).1.lists[r]? = none) :
    w.lists[r]? = none := by
  cases h0 : w.lists[r]? with
  | none => rfl
  | some x =>
    obtain ⟨_, hx, _⟩ := touch_some w r r x h0
    rw [h] at hx; cases hx

theorem markChain_old (ls : List LObj) (r i : Nat) (l1 : LObj) (h : ls[i]? = some l1) (new : LObj) :
    ∃ l', (markChain ls.length ls r ++ [new])[i]? = some l' ∧ l'.items = l1.items ∧
      l'.pred = l1.pred ∧ l'.obsolete = (l1.obsolete || decide (i ∈ chain ls.length ls r)) := by
  have hi : i < ls.length := (List.getElem?_eq_some_iff.mp h).1
  rw [List.getElem?_append_left (by rw [markChain_length]; exact hi), markChain_get, h]
  exact ⟨_, rfl, rfl, rfl, rfl⟩

/-- one call, seen from an already existing list: items and predecessor are untouched; the
    obsolete flag is raised exactly when the call is an edit whose receiver has `i` on its chain. -/
theorem step_old (w : World) (op : Op) (i : Nat) (l : LObj) (h : w.lists[i]? = some l) :
    ∃ l', (step w op).1.lists[i]? = some l' ∧ l'.items = l.items ∧ l'.pred = l.pred ∧
      l'.obsolete =
        (l.obsolete || (op.isEdit && decide (i ∈ chain w.lists.length w.lists op.recv))) := by
  cases op with
  | poke r pos =>
    rw [(step_poke w r pos).2]
    exact ⟨l, h, rfl, rfl, by simp [Op.isEdit]⟩
  | use r =>
    obtain ⟨l1, h1, e1, e2, e3⟩ := touch_some w r i l h
    exact ⟨l1, by simpa [step] using h1, e1, e2, by simp [Op.isEdit, e3]⟩
  | derive r keep extra =>
    obtain ⟨l1, h1, e1, e2, e3⟩ := touch_some w r i l h
    have hi : i < (touch w r).1.lists.length := (List.getElem?_eq_some_iff.mp h1).1
    refine ⟨l1, ?_, e1, e2, by simp [Op.isEdit, e3]⟩
    simp only [step]
    cases hr : (touch w r).1.lists[r]? with
    | none => exact h1
    | some lr => simp only [List.getElem?_append_left hi]; exact h1
  | deepcopy r =>
    obtain ⟨l1, h1, e1, e2, e3⟩ := touch_some w r i l h
    have hi : i < (touch w r).1.lists.length := (List.getElem?_eq_some_iff.mp h1).1
    refine ⟨l1, ?_, e1, e2, by simp [Op.isEdit, e3]⟩
    simp only [step]
    cases hr : (touch w r).1.lists[r]? with
    | none => exact h1
    | some lr => simp only [List.getElem?_append_left hi]; exact h1
  | editInPlace r keep =>
    obtain ⟨l1, h1, e1, e2, e3⟩ := touch_some w r i l h
    cases hr : (touch w r).1.lists[r]? with
    | none =>
      have hr0 := touch_recv_none w r hr
      refine ⟨l1, by simpa [step, hr] using h1, e1, e2, ?_⟩
      simp [Op.recv, chain_of_none _ _ _ hr0, e3]
    | some lr =>
      rw [editInPlace_lists w r keep lr hr]
      obtain ⟨l', h', f1, f2, f3⟩ := markChain_old (touch w r).1.lists r i l1 h1
        { items := pick lr.items keep, pred := some r, obsolete := false, warned := false }
      refine ⟨l', h', by rw [f1, e1], by rw [f2, e2], ?_⟩
      rw [f3, chain_touch, e3]; simp only [Op.isEdit, Op.recv, Bool.true_and]; congr
  | editFresh r =>
    obtain ⟨l1, h1, e1, e2, e3⟩ := touch_some w r i l h
    cases hr : (touch w r).1.lists[r]? with
    | none =>
      have hr0 := touch_recv_none w r hr
      refine ⟨l1, by simpa [step, hr] using h1, e1, e2, ?_⟩
      simp [Op.recv, chain_of_none _ _ _ hr0, e3]
    | some lr =>
      rw [editFresh_lists w r lr hr]
      obtain ⟨l', h', f1, f2, f3⟩ := markChain_old (touch w r).1.lists r i l1 h1
        { items := (List.range lr.items.length).map (· + (touch w r).1.vers.length), pred := some r,
          obsolete := false, warned := false }
      refine ⟨l', h', by rw [f1, e1], by rw [f2, e2], ?_⟩
      rw [f3, chain_touch, e3]; simp only [Op.isEdit, Op.recv, Bool.true_and]; congr

/-- one call creates at most one list; if it does, the receiver existed, the new list is neither
    obsolete nor warned, its predecessor is the receiver (none for `deepcopy`), and each of its
    items is an item of the receiver or a brand-new dict. -/
theorem step_new (w : World) (op : Op) :
    (step w op).1.lists.length = w.lists.length ∨
    ∃ l new, w.lists[op.recv]? = some l ∧
      (step w op).1.lists.length = w.lists.length + 1 ∧
      (step w op).1.lists[w.lists.length]? = some new ∧
      new.obsolete = false ∧ new.warned = false ∧
      new.pred = (if op.isDeepcopy then none else some op.recv) ∧
      (∀ d ∈ new.items, (d ∈ l.items ∧ op.isDeepcopy = false) ∨
        (w.vers.length ≤ d ∧ d < (step w op).1.vers.length)) := by
  cases op with
  | poke r pos => left; rw [(step_poke w r pos).2]
  | use r => left; simp [step, touch_length]
  | derive r keep extra =>
    cases hr : (touch w r).1.lists[r]? with
    | none => left; simp [step, hr, touch_length]
    | some lr =>
      right
      obtain ⟨l, hl, e1, _, _⟩ := touch_some_inv w r r lr hr
      refine ⟨l, { items := pick lr.items keep ++ (List.range extra).map (· + (touch w r).1.vers.length),
                   pred := some r, obsolete := false, warned := false }, hl, ?_, ?_, rfl, rfl, rfl, ?_⟩
      · simp [step, hr, touch_length]
      · simp only [step, hr]
        rw [List.getElem?_append_right (by rw [touch_length]; exact Nat.le_refl _), touch_length]
        simp
      · intro d hd
        simp only [List.mem_append, List.mem_map, List.mem_range] at hd
        rcases hd with hd | ⟨k, hk, rfl⟩
        · left; rw [← e1]; exact ⟨mem_pick _ _ _ hd, rfl⟩
        · right; simp only [step, hr, touch_vers, List.length_append, List.length_replicate]; omega
  | deepcopy r =>
    cases hr : (touch w r).1.lists[r]? with
    | none => left; simp [step, hr, touch_length]
    | some lr =>
      right
      obtain ⟨l, hl, e1, _, _⟩ := touch_some_inv w r r lr hr
      refine ⟨l, { items := (List.range lr.items.length).map (· + (touch w r).1.vers.length),
                   pred := none, obsolete := false, warned := false }, hl, ?_, ?_, rfl, rfl, rfl, ?_⟩
      · simp [step, hr, touch_length]
      · simp only [step, hr]
        rw [List.getElem?_append_right (by rw [touch_length]; exact Nat.le_refl _), touch_length]
        simp
      · intro d hd
        simp only [List.mem_map, List.mem_range] at hd
        obtain ⟨k, hk, rfl⟩ := hd
        right; simp only [step, hr, touch_vers, List.length_append, List.length_replicate]; omega
  | editInPlace r keep =>
    cases hr : (touch w r).1.lists[r]? with
    | none => left; simp [step, hr, touch_length]
    | some lr =>
      right
      obtain ⟨l, hl, e1, _, _⟩ := touch_some_inv w r r lr hr
      refine ⟨l, _, hl, ?_, editInPlace_result w r keep lr hr, rfl, rfl, rfl, ?_⟩
      · rw [editInPlace_lists w r keep lr hr]; simp [markChain_length, touch_length]
      · intro d hd
        left; rw [← e1]; exact ⟨mem_pick _ _ _ hd, rfl⟩
  | editFresh r =>
    cases hr : (touch w r).1.lists[r]? with
    | none => left; simp [step, hr, touch_length]
    | some lr =>
      right
      obtain ⟨l, hl, e1, _, _⟩ := touch_some_inv w r r lr hr
      refine ⟨l, { items := (List.range lr.items.length).map (· + (touch w r).1.vers.length),
                   pred := some r, obsolete := false, warned := false }, hl, ?_, ?_, rfl, rfl, rfl, ?_⟩
      · rw [editFresh_lists w r lr hr]; simp [markChain_length, touch_length]
      · rw [editFresh_lists w r lr hr]
        rw [List.getElem?_append_right (by rw [markChain_length, touch_length]; exact Nat.le_refl _),
          markChain_length, touch_length]
        simp
      · intro d hd
        simp only [List.mem_map, List.mem_range] at hd
        obtain ⟨k, hk, rfl⟩ := hd
        right; simp only [step, hr, touch_vers, List.length_append, List.length_replicate]; omega

theorem step_vers_length (w : World) (op : Op) : w.vers.length ≤ (step w op).1.vers.length := by
  cases op with
  | poke r pos => simp only [step]; cases w.lists[r]? <;> simp [bump_length]
  | use r => simp [step, touch_vers]
  | derive r keep extra => simp only [step]; cases (touch w r).1.lists[r]? <;> simp [touch_vers]
  | deepcopy r => simp only [step]; cases (touch w r).1.lists[r]? <;> simp [touch_vers]
  | editInPlace r keep =>
    simp only [step]; cases (touch w r).1.lists[r]? <;> simp [touch_vers, bump_length]
  | editFresh r => simp only [step]; cases (touch w r).1.lists[r]? <;> simp [touch_vers]

/-- one call writes only dicts that are items of its receiver (at call time). -/
theorem step_vers_unchanged (w : World) (op : Op) (d : Nat) (hd : d < w.vers.length)
    (h : ∀ l, w.lists[op.recv]? = some l → d ∉ l.items) :
    (step w op).1.vers[d]? = w.vers[d]? := by
  cases op with
  | poke r pos =>
    simp only [step]
    cases hr : w.lists[r]? with
    | none => rfl
    | some l =>
      simp only []
      exact bump_get_of_not_mem _ _ _ (fun hm => h l hr (mem_pick _ _ _ hm))
  | use r => simp [step, touch_vers]
  | derive r keep extra => exact derive_vers w r keep extra d hd
  | deepcopy r => exact deepcopy_vers w r d hd
  | editInPlace r keep =>
    cases hr : (touch w r).1.lists[r]? with
    | none => simp [step, hr, touch_vers]
    | some lr =>
      obtain ⟨l, hl, e1, _, _⟩ := touch_some_inv w r r lr hr
      exact editInPlace_vers w r keep lr hr d (by rw [e1]; exact h l hl)
  | editFresh r =>
    simp only [step]
    cases hr : (touch w r).1.lists[r]? with
    | none => simp [touch_vers]
    | some lr => simp only [touch_vers]; rw [List.getElem?_append_left hd]

/-- dict objects allocated by a call start at version 0. -/
theorem step_vers_fresh (w : World) (op : Op) (d : Nat) (h1 : w.vers.length ≤ d)
    (h2 : d < (step w op).1.vers.length) : (step w op).1.vers[d]? = some 0 := by
  cases op with
  | poke r pos =>
    simp only [step] at h2
    cases hr : w.lists[r]? with
    | none => rw [hr] at h2; simp only [] at h2; omega
    | some l => rw [hr] at h2; simp only [bump_length] at h2; omega
  | use r => simp only [step, touch_vers] at h2; omega
  | derive r keep extra =>
    simp only [step] at h2 ⊢
    cases hr : (touch w r).1.lists[r]? with
    | none => rw [hr] at h2; simp only [touch_vers] at h2; omega
    | some lr =>
      rw [hr] at h2
      simp only [touch_vers, List.length_append, List.length_replicate] at h2 ⊢
      rw [List.getElem?_append_right h1, List.getElem?_replicate]; simp; omega
  | deepcopy r =>
    simp only [step] at h2 ⊢
    cases hr : (touch w r).1.lists[r]? with
    | none => rw [hr] at h2; simp only [touch_vers] at h2; omega
    | some lr =>
      rw [hr] at h2
      simp only [touch_vers, List.length_append, List.length_replicate] at h2 ⊢
      rw [List.getElem?_append_right h1, List.getElem?_replicate]; simp; omega
  | editInPlace r keep =>
    simp only [step] at h2
    cases hr : (touch w r).1.lists[r]? with
    | none => rw [hr] at h2; simp only [touch_vers] at h2; omega
    | some lr => rw [hr] at h2; simp only [touch_vers, bump_length] at h2; omega
  | editFresh r =>
    simp only [step] at h2 ⊢
    cases hr : (touch w r).1.lists[r]? with
    | none => rw [hr] at h2; simp only [touch_vers] at h2; omega
    | some lr =>
      rw [hr] at h2
      simp only [touch_vers, List.length_append, List.length_replicate] at h2 ⊢
      rw [List.getElem?_append_right h1, List.getElem?_replicate]; simp; omega

/-! ### invariants of one call -/

theorem getElem?_some_of_lt {α : Type} (xs : List α) (i : Nat) (h : i < xs.length) :
    ∃ x, xs[i]? = some x := ⟨xs[i], List.getElem?_eq_getElem h⟩

theorem lt_of_getElem?_some {α : Type} {xs : List α} {i : Nat} {x : α} (h : xs[i]? = some x) :
    i < xs.length := (List.getElem?_eq_some_iff.mp h).1

theorem step_lists_length_le (w : World) (op : Op) :
    w.lists.length ≤ (step w op).1.lists.length := by
  rcases step_new w op with h | ⟨_, _, _, h, _⟩ <;> omega

/-- predecessors stay older objects. -/
theorem step_predOlder (w : World) (op : Op) (h : PredOlder w.lists) :
    PredOlder (step w op).1.lists := by
  intro i l' p hl' hp
  have hi' := lt_of_getElem?_some hl'
  by_cases hi : i < w.lists.length
  · obtain ⟨l, hl⟩ := getElem?_some_of_lt _ _ hi
    obtain ⟨l2, h2, _, e2, _⟩ := step_old w op i l hl
    rw [hl'] at h2; cases h2
    exact h i l p hl (by rw [← e2]; exact hp)
  · rcases step_new w op with hlen | ⟨l, new, hl, hlen, hnew, _, _, hpred, _⟩
    · omega
    · have hie : i = w.lists.length := by omega
      subst hie
      rw [hnew] at hl'; cases hl'
      rw [hpred] at hp
      split at hp
      · cases hp
      · cases hp; exact lt_of_getElem?_some hl

theorem step_itemsValid (w : World) (op : Op) (h : ItemsValid w) : ItemsValid (step w op).1 := by
  intro i l' d hl' hd
  have hi' := lt_of_getElem?_some hl'
  have hv := step_vers_length w op
  by_cases hi : i < w.lists.length
  · obtain ⟨l, hl⟩ := getElem?_some_of_lt _ _ hi
    obtain ⟨l2, h2, e1, _, _⟩ := step_old w op i l hl
    rw [hl'] at h2; cases h2
    have := h i l d hl (by rw [← e1]; exact hd)
    omega
  · rcases step_new w op with hlen | ⟨l, new, hl, hlen, hnew, _, _, _, hitems⟩
    · omega
    · have hie : i = w.lists.length := by omega
      subst hie
      rw [hnew] at hl'; cases hl'
      rcases hitems d hd with ⟨hm, _⟩ | ⟨_, hlt⟩
      · have := h _ l d hl hm; omega
      · exact hlt

theorem step_WF (w : World) (op : Op) (h : WF w) : WF (step w op).1 :=
  ⟨step_predOlder w op h.1, step_itemsValid w op h.2⟩

theorem init_WF (n : Nat) : WF (init n) := by
  refine ⟨?_, ?_⟩
  · intro i l p hl hp
    simp only [init] at hl
    cases i with
    | zero => simp at hl; subst hl; cases hp
    | succ k => simp at hl
  · intro i l d hl hd
    simp only [init] at hl ⊢
    cases i with
    | zero => simp at hl; subst hl; simpa using hd
    | succ k => simp at hl

theorem init_not_obsolete (n j : Nat) : isObs (init n) j = false := by
  cases j with
  | zero => rfl
  | succ k => simp [isObs, init]

/-! ### whole histories: `runFinal` -/

theorem runFinal_nil (w : World) : runFinal w [] = w := rfl

theorem runFinal_cons (w : World) (op : Op) (ops : List Op) :
    runFinal w (op :: ops) = runFinal (step w op).1 ops := rfl

theorem runFinal_append (w : World) (a b : List Op) :
    runFinal w (a ++ b) = runFinal (runFinal w a) b := by
  simp [runFinal, List.foldl_append]

/-- **well-formedness is an invariant of every history** (in particular `pred_older`). -/
theorem run_WF (ops : List Op) : ∀ w : World, WF w → WF (runFinal w ops) := by
  induction ops with
  | nil => intro w h; exact h
  | cons op ops ih => intro w h; exact ih _ (step_WF w op h)

theorem run_predOlder (ops : List Op) : ∀ w : World, PredOlder w.lists →
    PredOlder (runFinal w ops).lists := by
  induction ops with
  | nil => intro w h; exact h
  | cons op ops ih => intro w h; exact ih _ (step_predOlder w op h)

/-- **`pred_stable`**: along every history, an existing list keeps its predecessor pointer and its
    item identities. -/
theorem run_old (ops : List Op) : ∀ (w : World) (i : Nat) (l : LObj), w.lists[i]? = some l →
    ∃ l', (runFinal w ops).lists[i]? = some l' ∧ l'.items = l.items ∧ l'.pred = l.pred := by
  induction ops with
  | nil => intro w i l h; exact ⟨l, h, rfl, rfl⟩
  | cons op ops ih =>
    intro w i l h
    obtain ⟨l1, h1, e1, e2, _⟩ := step_old w op i l h
    obtain ⟨l2, h2, f1, f2⟩ := ih _ i l1 h1
    exact ⟨l2, h2, by rw [f1, e1], by rw [f2, e2]⟩

theorem run_lists_length_le (ops : List Op) : ∀ w : World,
    w.lists.length ≤ (runFinal w ops).lists.length := by
  induction ops with
  | nil => intro w; exact Nat.le_refl _
  | cons op ops ih =>
    intro w
    exact Nat.le_trans (step_lists_length_le w op) (ih _)

/-! ### the fuel-free ancestor relation -/

theorem anc_lt {ls : List LObj} {i r : Nat} (h : Anc ls i r) : i < ls.length ∧ r < ls.length := by
  induction h with
  | refl l hl => exact ⟨lt_of_getElem?_some hl, lt_of_getElem?_some hl⟩
  | step r l p hl _ _ ih => exact ⟨ih.1, lt_of_getElem?_some hl⟩

theorem anc_le {ls : List LObj} (hpo : PredOlder ls) {i r : Nat} (h : Anc ls i r) : i ≤ r := by
  induction h with
  | refl l hl => exact Nat.le_refl _
  | step r l p hl hp _ ih => have := hpo r l p hl hp; omega

theorem anc_refl_of_lt {ls : List LObj} {r : Nat} (h : r < ls.length) : Anc ls r r := by
  obtain ⟨l, hl⟩ := getElem?_some_of_lt _ _ h
  exact Anc.refl r l hl

/-- unfolding at the descendant end. -/
theorem anc_iff {ls : List LObj} {i r : Nat} :
    Anc ls i r ↔ ∃ l, ls[r]? = some l ∧ (i = r ∨ ∃ p, l.pred = some p ∧ Anc ls i p) := by
  constructor
  · intro h
    cases h with
    | refl l hl => exact ⟨l, hl, Or.inl rfl⟩
    | step _ l p hl hp ha => exact ⟨l, hl, Or.inr ⟨p, hp, ha⟩⟩
  · rintro ⟨l, hl, rfl | ⟨p, hp, ha⟩⟩
    · exact Anc.refl _ l hl
    · exact Anc.step _ _ l p hl hp ha

theorem anc_of_mem_chain (fuel : Nat) (ls : List LObj) (r i : Nat) (h : i ∈ chain fuel ls r) :
    Anc ls i r := by
  induction fuel generalizing r with
  | zero => simp [chain] at h
  | succ f ih =>
    cases h1 : ls[r]? with
    | none => rw [chain_none _ _ _ h1] at h; cases h
    | some a =>
      rw [chain_some _ _ _ a h1] at h
      rcases List.mem_cons.mp h with rfl | h
      · exact Anc.refl _ a h1
      · cases hp : a.pred with
        | none => rw [hp] at h; cases h
        | some p => rw [hp] at h; exact Anc.step _ _ a p h1 hp (ih p h)

theorem mem_chain_of_anc {ls : List LObj} (hpo : PredOlder ls) {i r : Nat} (h : Anc ls i r) :
    ∀ fuel, r < fuel → i ∈ chain fuel ls r := by
  induction h with
  | refl l hl =>
    intro fuel hf
    cases fuel with
    | zero => omega
    | succ f => rw [chain_some _ _ _ l hl]; exact List.mem_cons_self
  | step r l p hl hp _ ih =>
    intro fuel hf
    cases fuel with
    | zero => omega
    | succ f =>
      rw [chain_some _ _ _ l hl, hp]
      have := hpo r l p hl hp
      exact List.mem_cons_of_mem _ (ih f (by omega))

/-- in a well-formed world the fuelled `chain` used by `_mark_obsolete` is exactly the ancestor
    relation: the fuel `lists.length` is always enough. -/
theorem mem_chain_iff_anc {ls : List LObj} (hpo : PredOlder ls) (i r : Nat) :
    i ∈ chain ls.length ls r ↔ Anc ls i r :=
  ⟨anc_of_mem_chain _ _ _ _, fun h => mem_chain_of_anc hpo h _ (anc_lt h).2⟩

/-- `ls'` extends `ls` keeping all predecessor pointers. -/
def Ext (ls ls' : List LObj) : Prop :=
  ∀ (j : Nat) (l : LObj), ls[j]? = some l → ∃ l', ls'[j]? = some l' ∧ l'.pred = l.pred

theorem step_ext (w : World) (op : Op) : Ext w.lists (step w op).1.lists := by
  intro j l hl
  obtain ⟨l', h', _, e, _⟩ := step_old w op j l hl
  exact ⟨l', h', e⟩

theorem run_ext (w : World) (ops : List Op) : Ext w.lists (runFinal w ops).lists := by
  intro j l hl
  obtain ⟨l', h', _, e⟩ := run_old ops w j l hl
  exact ⟨l', h', e⟩

theorem anc_mono {ls ls' : List LObj} (hx : Ext ls ls') {i r : Nat} (h : Anc ls i r) :
    Anc ls' i r := by
  induction h with
  | refl l hl =>
    obtain ⟨l', hl', _⟩ := hx _ l hl
    exact Anc.refl _ l' hl'
  | step r l p hl hp _ ih =>
    obtain ⟨l', hl', e⟩ := hx r l hl
    exact Anc.step i r l' p hl' (by rw [e]; exact hp) ih

theorem anc_restrict {ls ls' : List LObj} (hpo : PredOlder ls) (hx : Ext ls ls') {i r : Nat}
    (h : Anc ls' i r) : r < ls.length → Anc ls i r := by
  induction h with
  | refl l hl => intro hr; exact anc_refl_of_lt hr
  | step r l' p hl' hp' _ ih =>
    intro hr
    obtain ⟨l, hl⟩ := getElem?_some_of_lt _ _ hr
    obtain ⟨l2, hl2, e⟩ := hx r l hl
    rw [hl'] at hl2; cases hl2
    have hp : l.pred = some p := by rw [← e]; exact hp'
    have := hpo r l p hl hp
    exact Anc.step i r l p hl hp (ih (by omega))

/-- **ancestry is stable**: later calls never change who is an ancestor of an existing list. -/
theorem anc_stable {ls ls' : List LObj} (hpo : PredOlder ls) (hx : Ext ls ls') (i r : Nat) :
    Anc ls i r ↔ (r < ls.length ∧ Anc ls' i r) :=
  ⟨fun h => ⟨(anc_lt h).2, anc_mono hx h⟩, fun h => anc_restrict hpo hx h.2 h.1⟩

/-! ### (1) obsolete at the end of a run ⇔ an edit happened on the list or on a descendant -/

/-- executable form: some edit in the history had `i` on its receiver's chain at that time. -/
def editedAnc (i : Nat) : World → List Op → Bool
  | _, [] => false
  | w, op :: ops =>
    (op.isEdit && decide (i ∈ chain w.lists.length w.lists op.recv)) ||
      editedAnc i (step w op).1 ops

theorem isObs_of_some {w : World} {i : Nat} {l : LObj} (h : w.lists[i]? = some l) :
    isObs w i = l.obsolete := by simp [isObs, h]

theorem isObs_of_none {w : World} {i : Nat} (h : w.lists[i]? = none) : isObs w i = false := by
  simp [isObs, h]

/-- one call, for every list id (existing, being created, or not yet existing). -/
theorem isObs_step (w : World) (op : Op) (i : Nat) :
    isObs (step w op).1 i =
      (isObs w i || (op.isEdit && decide (i ∈ chain w.lists.length w.lists op.recv))) := by
  cases hi : w.lists[i]? with
  | some l =>
    obtain ⟨l', h', _, _, e⟩ := step_old w op i l hi
    rw [isObs_of_some h', isObs_of_some hi, e]
  | none =>
    have hge : w.lists.length ≤ i := List.getElem?_eq_none_iff.mp hi
    have hnc : i ∉ chain w.lists.length w.lists op.recv := fun hm => by
      have := chain_mem_lt _ _ _ _ hm; omega
    rw [isObs_of_none hi]
    simp only [hnc, decide_false, Bool.and_false, Bool.or_false]
    rcases step_new w op with hlen | ⟨l, new, _, hlen, hnew, ho, _⟩
    · exact isObs_of_none (List.getElem?_eq_none_iff.mpr (by omega))
    · by_cases hie : i = w.lists.length
      · subst hie; rw [isObs_of_some hnew, ho]
      · exact isObs_of_none (List.getElem?_eq_none_iff.mpr (by omega))

theorem isObs_run (i : Nat) (ops : List Op) : ∀ w : World,
    isObs (runFinal w ops) i = (isObs w i || editedAnc i w ops) := by
  induction ops with
  | nil => intro w; simp [runFinal, editedAnc]
  | cons op ops ih =>
    intro w
    rw [runFinal_cons, ih, isObs_step, editedAnc, Bool.or_assoc]

theorem editedAnc_iff (i : Nat) (ops : List Op) : ∀ w : World,
    editedAnc i w ops = true ↔
      ∃ pre op post, ops = pre ++ op :: post ∧ op.isEdit = true ∧
        i ∈ chain (runFinal w pre).lists.length (runFinal w pre).lists op.recv := by
  induction ops with
  | nil =>
    intro w
    simp only [editedAnc, Bool.false_eq_true, false_iff]
    rintro ⟨pre, op, post, h, _⟩
    cases pre <;> cases h
  | cons o os ih =>
    intro w
    simp only [editedAnc, Bool.or_eq_true, Bool.and_eq_true, decide_eq_true_eq]
    constructor
    · rintro (⟨he, hm⟩ | h)
      · exact ⟨[], o, os, rfl, he, hm⟩
      · obtain ⟨pre, op, post, e, he, hm⟩ := (ih _).mp h
        exact ⟨o :: pre, op, post, by rw [e]; rfl, he, hm⟩
    · rintro ⟨pre, op, post, e, he, hm⟩
      cases pre with
      | nil =>
        simp only [List.nil_append, List.cons.injEq] at e
        obtain ⟨rfl, rfl⟩ := e
        exact Or.inl ⟨he, hm⟩
      | cons o' pre' =>
        simp only [List.cons_append, List.cons.injEq] at e
        obtain ⟨rfl, rfl⟩ := e
        exact Or.inr ((ih _).mpr ⟨pre', op, post, rfl, he, hm⟩)

/-- **history characterisation of obsolescence** (general start): after any history from a
    well-formed world, list `i` is obsolete iff it was obsolete at the start or some editing call
    in the history had a receiver whose predecessor chain (at that time) contains `i`. -/
theorem obsolete_iff (w : World) (hpo : PredOlder w.lists) (ops : List Op) (i : Nat) :
    isObs (runFinal w ops) i = true ↔
      (isObs w i = true ∨
        ∃ pre op post, ops = pre ++ op :: post ∧ op.isEdit = true ∧
          Anc (runFinal w pre).lists i op.recv) := by
  rw [isObs_run, Bool.or_eq_true, editedAnc_iff]
  constructor
  · rintro (h | ⟨pre, op, post, e, he, hm⟩)
    · exact Or.inl h
    · exact Or.inr ⟨pre, op, post, e, he,
        (mem_chain_iff_anc (run_predOlder pre w hpo) _ _).mp hm⟩
  · rintro (h | ⟨pre, op, post, e, he, hm⟩)
    · exact Or.inl h
    · exact Or.inr ⟨pre, op, post, e, he,
        (mem_chain_iff_anc (run_predOlder pre w hpo) _ _).mpr hm⟩

/-- the same with ancestry read off the *final* world (ancestry never changes): `i` is obsolete
    iff some editing call had an already existing receiver that is `i` or a descendant of `i`. -/
theorem obsolete_iff_final (w : World) (hpo : PredOlder w.lists) (ops : List Op) (i : Nat) :
    isObs (runFinal w ops) i = true ↔
      (isObs w i = true ∨
        ∃ pre op post, ops = pre ++ op :: post ∧ op.isEdit = true ∧
          op.recv < (runFinal w pre).lists.length ∧ Anc (runFinal w ops).lists i op.recv) := by
  rw [obsolete_iff w hpo]
  have key : ∀ pre op post, ops = pre ++ op :: post →
      (Anc (runFinal w pre).lists i op.recv ↔
        (op.recv < (runFinal w pre).lists.length ∧ Anc (runFinal w ops).lists i op.recv)) := by
    intro pre op post e
    have hx : Ext (runFinal w pre).lists (runFinal w ops).lists := by
      rw [e, runFinal_append]; exact run_ext _ _
    exact anc_stable (run_predOlder pre w hpo) hx i op.recv
  constructor
  · rintro (h | ⟨pre, op, post, e, he, ha⟩)
    · exact Or.inl h
    · exact Or.inr ⟨pre, op, post, e, he, (key pre op post e).mp ha⟩
  · rintro (h | ⟨pre, op, post, e, he, ha⟩)
    · exact Or.inl h
    · exact Or.inr ⟨pre, op, post, e, he, (key pre op post e).mpr ha⟩

/-- obsolescence is permanent. -/
theorem isObs_run_mono (w : World) (ops : List Op) (i : Nat) (h : isObs w i = true) :
    isObs (runFinal w ops) i = true := by
  rw [isObs_run, h]; rfl

/-! ### (3) the list returned by an edit -/

theorem step_edit_creates (w : World) (op : Op) (he : op.isEdit = true) (l : LObj)
    (hl : w.lists[op.recv]? = some l) :
    (step w op).1.lists.length = w.lists.length + 1 := by
  cases op with
  | editInPlace r keep =>
    obtain ⟨l1, h1, _⟩ := touch_some w r r l hl
    rw [editInPlace_lists w r keep l1 h1]; simp [markChain_length, touch_length]
  | editFresh r =>
    obtain ⟨l1, h1, _⟩ := touch_some w r r l hl
    rw [editFresh_lists w r l1 h1]; simp [markChain_length, touch_length]
  | derive r keep extra => cases he
  | deepcopy r => cases he
  | use r => cases he
  | poke r pos => cases he

/-- the list returned by an editing call on an existing receiver is new, not obsolete, not warned,
    remembers the receiver — and along every later history it is obsolete exactly when some later
    editing call had it on its receiver's chain (i.e. edited it or one of its descendants). -/
theorem edit_result_chain (w : World) (hpo : PredOlder w.lists) (op : Op) (he : op.isEdit = true)
    (hr : op.recv < w.lists.length) (post : List Op) :
    (∃ new, (step w op).1.lists[w.lists.length]? = some new ∧ new.obsolete = false ∧
        new.warned = false ∧ new.pred = some op.recv) ∧
    (isObs (runFinal (step w op).1 post) w.lists.length = true ↔
      ∃ p1 o p2, post = p1 ++ o :: p2 ∧ o.isEdit = true ∧
        Anc (runFinal (step w op).1 p1).lists w.lists.length o.recv) := by
  obtain ⟨l, hl⟩ := getElem?_some_of_lt _ _ hr
  have hlen := step_edit_creates w op he l hl
  rcases step_new w op with h0 | ⟨_, new, _, _, hnew, ho, hw, hp, _⟩
  · omega
  · have hnd : op.isDeepcopy = false := by cases op <;> first | rfl | cases he
    refine ⟨⟨new, hnew, ho, hw, by simpa [hnd] using hp⟩, ?_⟩
    rw [obsolete_iff _ (step_predOlder w op hpo), isObs_of_some hnew, ho]
    simp

/-! ### (2) isolation of a deep copy over whole histories -/

/-- `Iso c w`: no dict is shared between a list in `c`'s family (`c` and its descendants) and a
    list outside of it. -/
def Iso (c : Nat) (w : World) : Prop :=
  ∀ (j j' : Nat) (l l' : LObj), w.lists[j]? = some l → w.lists[j']? = some l' →
    Anc w.lists c j → ¬ Anc w.lists c j' → ∀ d, d ∈ l.items → d ∉ l'.items

/-- every list after a call is an old list (same items, same predecessor) or the new one. -/
theorem step_get_cases (w : World) (op : Op) (x : Nat) (lx : LObj)
    (h : (step w op).1.lists[x]? = some lx) :
    (∃ l0, w.lists[x]? = some l0 ∧ lx.items = l0.items ∧ lx.pred = l0.pred) ∨
    (x = w.lists.length ∧ ∃ lr, w.lists[op.recv]? = some lr ∧
      lx.pred = (if op.isDeepcopy then none else some op.recv) ∧
      ∀ d ∈ lx.items, (d ∈ lr.items ∧ op.isDeepcopy = false) ∨
        (w.vers.length ≤ d ∧ d < (step w op).1.vers.length)) := by
  have hx := lt_of_getElem?_some h
  by_cases hi : x < w.lists.length
  · obtain ⟨l0, hl0⟩ := getElem?_some_of_lt _ _ hi
    obtain ⟨l2, h2, e1, e2, _⟩ := step_old w op x l0 hl0
    rw [h] at h2; cases h2
    exact Or.inl ⟨l0, hl0, e1, e2⟩
  · rcases step_new w op with hlen | ⟨lr, new, hlr, hlen, hnew, _, _, hpred, hitems⟩
    · omega
    · have hie : x = w.lists.length := by omega
      subst hie
      rw [hnew] at h; cases h
      exact Or.inr ⟨rfl, lr, hlr, hpred, hitems⟩

/-- family membership of the list created by a call. -/
theorem anc_new (w : World) (hwf : WF w) (op : Op) (c : Nat) (hc : c < w.lists.length)
    (lx lr : LObj) (h : (step w op).1.lists[w.lists.length]? = some lx)
    (hlr : w.lists[op.recv]? = some lr)
    (hp : lx.pred = (if op.isDeepcopy then none else some op.recv)) :
    Anc (step w op).1.lists c w.lists.length ↔ (op.isDeepcopy = false ∧ Anc w.lists c op.recv) := by
  have hrl := lt_of_getElem?_some hlr
  constructor
  · intro ha
    obtain ⟨l2, h2, hor⟩ := anc_iff.mp ha
    rw [h] at h2; cases h2
    rcases hor with e | ⟨p, hpp, hap⟩
    · omega
    · rw [hp] at hpp
      cases hd : op.isDeepcopy with
      | true => rw [hd] at hpp; cases hpp
      | false =>
        rw [hd] at hpp
        simp only [Bool.false_eq_true, if_false, Option.some.injEq] at hpp
        subst hpp
        exact ⟨rfl, anc_restrict hwf.1 (step_ext w op) hap hrl⟩
  · rintro ⟨hd, ha⟩
    refine Anc.step _ _ lx op.recv h ?_ (anc_mono (step_ext w op) ha)
    rw [hp, hd]; rfl

/-- **the family boundary is never crossed by sharing**: `Iso c` is preserved by every call. -/
theorem step_iso (c : Nat) (w : World) (op : Op) (hwf : WF w) (hc : c < w.lists.length)
    (hiso : Iso c w) : Iso c (step w op).1 := by
  intro j j' l l' hl hl' ha hna d hd hd'
  have hst : ∀ x, x < w.lists.length → (Anc (step w op).1.lists c x ↔ Anc w.lists c x) := by
    intro x hx
    constructor
    · intro h; exact anc_restrict hwf.1 (step_ext w op) h hx
    · intro h; exact anc_mono (step_ext w op) h
  rcases step_get_cases w op j l hl with ⟨l0, hl0, e0, _⟩ | ⟨rfl, lr, hlr, hp, hit⟩
  · have hj := lt_of_getElem?_some hl0
    have ha0 := (hst j hj).mp ha
    rw [e0] at hd
    rcases step_get_cases w op j' l' hl' with ⟨l0', hl0', e0', _⟩ | ⟨rfl, lr', hlr', hp', hit'⟩
    · -- both old
      have hj' := lt_of_getElem?_some hl0'
      rw [e0'] at hd'
      exact hiso j j' l0 l0' hl0 hl0' ha0 (fun h => hna ((hst j' hj').mpr h)) d hd hd'
    · -- `j` old and in the family, `j'` the new list outside of it
      rcases hit' d hd' with ⟨hm, hdc⟩ | ⟨hge, _⟩
      · have hnr : ¬ Anc w.lists c op.recv := fun h =>
          hna ((anc_new w hwf op c hc l' lr' hl' hlr' hp').mpr ⟨hdc, h⟩)
        exact hiso j op.recv l0 lr' hl0 hlr' ha0 hnr d hd hm
      · have := hwf.2 j l0 d hl0 hd; omega
  · -- `j` is the new list, in the family
    obtain ⟨hdc, har⟩ := (anc_new w hwf op c hc l lr hl hlr hp).mp ha
    rcases step_get_cases w op j' l' hl' with ⟨l0', hl0', e0', _⟩ | ⟨hj', _⟩
    · have hj' := lt_of_getElem?_some hl0'
      rw [e0'] at hd'
      rcases hit d hd with ⟨hm, _⟩ | ⟨hge, _⟩
      · exact hiso op.recv j' lr l0' hlr hl0' har (fun h => hna ((hst j' hj').mpr h)) d hm hd'
      · have := hwf.2 j' l0' d hl0' hd'; omega
    · subst hj'; exact hna ha

theorem run_iso (c : Nat) (ops : List Op) : ∀ w : World, WF w → c < w.lists.length → Iso c w →
    Iso c (runFinal w ops) := by
  induction ops with
  | nil => intro w _ _ h; exact h
  | cons op ops ih =>
    intro w hwf hc h
    exact ih _ (step_WF w op hwf) (Nat.lt_of_lt_of_le hc (step_lists_length_le w op))
      (step_iso c w op hwf hc h)

/-- right after `deepcopy`, the copy shares no dict with any other list. -/
theorem deepcopy_iso (w0 : World) (hwf : WF w0) (r : Nat) (hr : r < w0.lists.length) :
    Iso w0.lists.length (step w0 (.deepcopy r)).1 := by
  intro j j' l l' hl hl' ha hna d hd hd'
  have hwf1 := step_WF w0 (.deepcopy r) hwf
  obtain ⟨lr, hlr⟩ := getElem?_some_of_lt _ _ hr
  have hlen : (step w0 (.deepcopy r)).1.lists.length = w0.lists.length + 1 := by
    rcases step_new w0 (.deepcopy r) with h0 | ⟨_, _, _, h1, _⟩
    · obtain ⟨new, hn, _⟩ := deepcopy_fresh w0 r _ (touch_some w0 r r lr hlr).choose_spec.1
      rw [hn, List.length_append, touch_length] at h0
      simp at h0
    · exact h1
  have hjc : j = w0.lists.length := by
    have h1 := anc_le hwf1.1 ha
    have h2 := lt_of_getElem?_some hl
    omega
  subst hjc
  have hj' : j' ≠ w0.lists.length := by
    intro e; subst e
    exact hna (Anc.refl _ l hl)
  have hj'lt : j' < w0.lists.length := by
    have := lt_of_getElem?_some hl'; omega
  rcases step_get_cases w0 (.deepcopy r) _ l hl with ⟨l0, hl0, _⟩ | ⟨_, lr2, _, _, hit⟩
  · have := lt_of_getElem?_some hl0; omega
  · rcases step_get_cases w0 (.deepcopy r) j' l' hl' with ⟨l0', hl0', e0', _⟩ | ⟨hx, _⟩
    · rw [e0'] at hd'
      have hlt := hwf.2 j' l0' d hl0' hd'
      rcases hit d hd with ⟨_, hdc⟩ | ⟨hge, _⟩
      · cases hdc
      · omega
    · omega

/-- **a write is never observed across the family boundary** (one call in an isolated world):
    if the receiver is in `c`'s family and `j` is not — or the other way round — no item of `j`
    changes its version. -/
theorem iso_write_unobserved (c : Nat) (w : World) (op : Op) (hwf : WF w) (hiso : Iso c w)
    (j : Nat) (l : LObj) (d : Nat) (hl : w.lists[j]? = some l) (hd : d ∈ l.items)
    (hside : Anc w.lists c op.recv ↔ ¬ Anc w.lists c j) :
    (step w op).1.vers[d]? = w.vers[d]? := by
  apply step_vers_unchanged w op d (hwf.2 j l d hl hd)
  intro lr hlr hm
  by_cases har : Anc w.lists c op.recv
  · exact hiso op.recv j lr l hlr hl har (hside.mp har) d hm hd
  · have haj : Anc w.lists c j := Classical.byContradiction (fun h => har (hside.mpr h))
    exact hiso j op.recv l lr hl hlr haj har d hd hm

/-- **deepcopy isolation over whole histories.** Let `c` be the list returned by `deepcopy r` in a
    well-formed world. After *any* history `pre`, (a) no dict is shared between `c`'s family and the
    rest, and (b) any further call `op` whose receiver lies on one side of the family boundary
    leaves every item of every list on the other side unwritten. -/
theorem deepcopy_isolated_forever (w0 : World) (hwf : WF w0) (r : Nat) (hr : r < w0.lists.length)
    (pre : List Op) :
    Iso w0.lists.length (runFinal (step w0 (.deepcopy r)).1 pre) ∧
    ∀ (op : Op) (j : Nat) (l : LObj) (d : Nat),
      (runFinal (step w0 (.deepcopy r)).1 pre).lists[j]? = some l → d ∈ l.items →
      (Anc (runFinal (step w0 (.deepcopy r)).1 pre).lists w0.lists.length op.recv ↔
        ¬ Anc (runFinal (step w0 (.deepcopy r)).1 pre).lists w0.lists.length j) →
      (step (runFinal (step w0 (.deepcopy r)).1 pre) op).1.vers[d]? =
        (runFinal (step w0 (.deepcopy r)).1 pre).vers[d]? := by
  have hwf1 := step_WF w0 (.deepcopy r) hwf
  have hc1 : w0.lists.length < (step w0 (.deepcopy r)).1.lists.length := by
    obtain ⟨lr, hlr⟩ := getElem?_some_of_lt _ _ hr
    obtain ⟨new, hn, _⟩ := deepcopy_fresh w0 r _ (touch_some w0 r r lr hlr).choose_spec.1
    rw [hn, List.length_append, touch_length]; simp
  have hiso := run_iso w0.lists.length pre _ hwf1 hc1 (deepcopy_iso w0 hwf r hr)
  refine ⟨hiso, ?_⟩
  intro op j l d hl hd hside
  exact iso_write_unobserved _ _ op (run_WF pre _ hwf1) hiso j l d hl hd hside

/-! ### predicates along a history -/

/-- `P` holds for every call of the history, evaluated in the world in which the call is made. -/
def AllAlong (P : World → Op → Prop) : World → List Op → Prop
  | _, [] => True
  | w, op :: ops => P w op ∧ AllAlong P (step w op).1 ops

theorem allAlong_iff (P : World → Op → Prop) (ops : List Op) : ∀ w : World,
    AllAlong P w ops ↔ ∀ pre op post, ops = pre ++ op :: post → P (runFinal w pre) op := by
  induction ops with
  | nil =>
    intro w
    simp only [AllAlong, true_iff]
    intro pre op post h
    cases pre <;> cases h
  | cons o os ih =>
    intro w
    simp only [AllAlong]
    constructor
    · rintro ⟨h0, h1⟩ pre op post e
      cases pre with
      | nil =>
        simp only [List.nil_append, List.cons.injEq] at e
        obtain ⟨rfl, rfl⟩ := e
        exact h0
      | cons o' pre' =>
        simp only [List.cons_append, List.cons.injEq] at e
        obtain ⟨rfl, rfl⟩ := e
        exact (ih _).mp h1 pre' op post rfl
    · intro h
      exact ⟨h [] o os rfl, (ih _).mpr (fun pre op post e => h (o :: pre) op post (by rw [e]; rfl))⟩

/-- `P` holds for some call of the history (executable). -/
def existsAlong (P : World → Op → Bool) : World → List Op → Bool
  | _, [] => false
  | w, op :: ops => P w op || existsAlong P (step w op).1 ops

theorem existsAlong_iff (P : World → Op → Bool) (ops : List Op) : ∀ w : World,
    existsAlong P w ops = true ↔
      ∃ pre op post, ops = pre ++ op :: post ∧ P (runFinal w pre) op = true := by
  induction ops with
  | nil =>
    intro w
    simp only [existsAlong, Bool.false_eq_true, false_iff]
    rintro ⟨pre, op, post, h, _⟩
    cases pre <;> cases h
  | cons o os ih =>
    intro w
    simp only [existsAlong, Bool.or_eq_true]
    constructor
    · rintro (h | h)
      · exact ⟨[], o, os, rfl, h⟩
      · obtain ⟨pre, op, post, e, hp⟩ := (ih _).mp h
        exact ⟨o :: pre, op, post, by rw [e]; rfl, hp⟩
    · rintro ⟨pre, op, post, e, hp⟩
      cases pre with
      | nil =>
        simp only [List.nil_append, List.cons.injEq] at e
        obtain ⟨rfl, rfl⟩ := e
        exact Or.inl hp
      | cons o' pre' =>
        simp only [List.cons_append, List.cons.injEq] at e
        obtain ⟨rfl, rfl⟩ := e
        exact Or.inr ((ih _).mpr ⟨pre', op, post, rfl, hp⟩)

/-! ### (2, end to end) a whole history on one side never writes the other side -/

theorem other_side_untouched_along (c : Nat) (ops : List Op) : ∀ (w : World), WF w →
    c < w.lists.length → Iso c w → ∀ (j : Nat) (l : LObj), w.lists[j]? = some l →
    AllAlong (fun w op => (Anc w.lists c op.recv ↔ ¬ Anc w.lists c j)) w ops →
    ∀ d ∈ l.items, (runFinal w ops).vers[d]? = w.vers[d]? := by
  induction ops with
  | nil => intro w _ _ _ j l _ _ d _; rfl
  | cons op ops ih =>
    intro w hwf hc hiso j l hl hall d hd
    obtain ⟨h0, h1⟩ := hall
    obtain ⟨l1, hl1, e1, _, _⟩ := step_old w op j l hl
    rw [runFinal_cons,
      ih _ (step_WF w op hwf) (Nat.lt_of_lt_of_le hc (step_lists_length_le w op))
        (step_iso c w op hwf hc hiso) j l1 hl1 h1 d (by rw [e1]; exact hd)]
    exact iso_write_unobserved c w op hwf hiso j l d hl hd h0

/-- **deepcopy, end to end**: after `deepcopy r` (result `c`), take any list `j` and any history in
    which every call's receiver is on the other side of `c`'s family boundary than `j` (e.g. `j = c`
    and all calls on originals and their derivatives; or `j` an original and all calls on the copy
    and its derivatives). Then no item of `j` is ever written. -/
theorem deepcopy_other_side_untouched (w0 : World) (hwf : WF w0) (r : Nat)
    (hr : r < w0.lists.length) (ops : List Op) (j : Nat) (l : LObj)
    (hl : (step w0 (.deepcopy r)).1.lists[j]? = some l)
    (hside : ∀ pre op post, ops = pre ++ op :: post →
      (Anc (runFinal (step w0 (.deepcopy r)).1 pre).lists w0.lists.length op.recv ↔
        ¬ Anc (runFinal (step w0 (.deepcopy r)).1 pre).lists w0.lists.length j)) :
    ∀ d ∈ l.items,
      (runFinal (step w0 (.deepcopy r)).1 ops).vers[d]? = (step w0 (.deepcopy r)).1.vers[d]? := by
  have hwf1 := step_WF w0 (.deepcopy r) hwf
  have hc1 : w0.lists.length < (step w0 (.deepcopy r)).1.lists.length := by
    obtain ⟨lr, hlr⟩ := getElem?_some_of_lt _ _ hr
    obtain ⟨new, hn, _⟩ := deepcopy_fresh w0 r _ (touch_some w0 r r lr hlr).choose_spec.1
    rw [hn, List.length_append, touch_length]; simp
  exact other_side_untouched_along _ ops _ hwf1 hc1 (deepcopy_iso w0 hwf r hr) j l hl
    ((allAlong_iff _ ops _).mpr hside)

/-! ### (4) the warning is printed exactly once iff the list is used while obsolete -/

theorem isWarned_of_some {w : World} {i : Nat} {l : LObj} (h : w.lists[i]? = some l) :
    isWarned w i = l.warned := by simp [isWarned, h]

theorem isWarned_of_none {w : World} {i : Nat} (h : w.lists[i]? = none) :
    isWarned w i = false := by simp [isWarned, h]

/-- when exactly a call prints the warning. -/
theorem step_printed_eq (w : World) (op : Op) :
    (step w op).2 = (!op.isPoke && isObs w op.recv && !isWarned w op.recv) := by
  by_cases hpk : ∃ r pos, op = .poke r pos
  · obtain ⟨r, pos, rfl⟩ := hpk
    rw [(step_poke w r pos).1]; rfl
  · have hnp : ∀ r pos, op ≠ .poke r pos := fun r pos e => hpk ⟨r, pos, e⟩
    have hk : op.isPoke = false := by
      cases op <;> first | rfl | exact absurd rfl (hnp _ _)
    rw [hk]
    cases hp : (step w op).2 with
    | true =>
      obtain ⟨l, hl, ho, hw⟩ := step_printed_requires w op hp
      rw [isObs_of_some hl, isWarned_of_some hl, ho, hw]; rfl
    | false =>
      rw [step_printed_eq_touch w op hnp] at hp
      cases hl : w.lists[op.recv]? with
      | none => rw [isObs_of_none hl]; rfl
      | some l =>
        rw [isObs_of_some hl, isWarned_of_some hl]
        cases ho : l.obsolete with
        | false => rfl
        | true =>
          cases hw : l.warned with
          | true => rfl
          | false =>
            have := (touch_warn_iff w op.recv).mpr ⟨l, hl, ho, hw⟩
            rw [hp] at this; cases this

theorem isWarned_step (w : World) (op : Op) (r : Nat) :
    isWarned (step w op).1 r = (isWarned w r || (decide (r = op.recv) && (step w op).2)) := by
  cases hl : w.lists[r]? with
  | some l =>
    obtain ⟨l', hl', e⟩ := step_warned w op r l hl
    rw [isWarned_of_some hl', isWarned_of_some hl, e]
  | none =>
    have hge : w.lists.length ≤ r := List.getElem?_eq_none_iff.mp hl
    have hz : (decide (r = op.recv) && (step w op).2) = false := by
      cases hp : (step w op).2 with
      | false => simp
      | true =>
        obtain ⟨l, hl2, _⟩ := step_printed_requires w op hp
        have : r ≠ op.recv := fun e => by rw [← e, hl] at hl2; cases hl2
        simp [this]
    rw [isWarned_of_none hl, hz]
    rcases step_new w op with hlen | ⟨_, new, _, hlen, hnew, _, hw, _⟩
    · exact isWarned_of_none (List.getElem?_eq_none_iff.mpr (by omega))
    · by_cases hie : r = w.lists.length
      · subst hie; rw [isWarned_of_some hnew, hw]; rfl
      · exact isWarned_of_none (List.getElem?_eq_none_iff.mpr (by omega))

/-- list `r` is the receiver of some attribute-accessing call made while it is obsolete. -/
def usedWhileObsolete (r : Nat) : World → List Op → Bool :=
  existsAlong (fun w op => decide (op.recv = r) && !op.isPoke && isObs w r)

/-- **exactly once**: the number of warnings printed for `r` along any history from any world is
    `1` if `r` has not warned yet and is used while obsolete, and `0` otherwise. -/
theorem warnCount_eq (r : Nat) (ops : List Op) : ∀ w : World,
    warnCount r w ops = (!isWarned w r && usedWhileObsolete r w ops).toNat := by
  induction ops with
  | nil => intro w; simp [warnCount, usedWhileObsolete, existsAlong]
  | cons op ops ih =>
    intro w
    have ih' := ih (step w op).1
    simp only [usedWhileObsolete] at ih' ⊢
    simp only [warnCount, existsAlong, ih', isWarned_step]
    by_cases har : op.recv = r
    · simp only [step_printed_eq, har]
      generalize op.isPoke = k
      generalize isObs w r = o
      generalize isWarned w r = wd
      generalize existsAlong _ _ _ = u
      cases k <;> cases o <;> cases wd <;> cases u <;> rfl
    · have h1 : decide (op.recv = r) = false := decide_eq_false har
      have h2 : decide (r = op.recv) = false := decide_eq_false (fun e => har e.symm)
      simp [h1, h2]

theorem usedWhileObsolete_iff (r : Nat) (ops : List Op) (w : World) :
    usedWhileObsolete r w ops = true ↔
      ∃ pre op post, ops = pre ++ op :: post ∧ op.recv = r ∧ op.isPoke = false ∧
        isObs (runFinal w pre) r = true := by
  rw [usedWhileObsolete, existsAlong_iff]
  constructor
  · rintro ⟨pre, op, post, e, h⟩
    simp only [Bool.and_eq_true, decide_eq_true_eq, Bool.not_eq_true'] at h
    exact ⟨pre, op, post, e, h.1.1, h.1.2, h.2⟩
  · rintro ⟨pre, op, post, e, h1, h2, h3⟩
    refine ⟨pre, op, post, e, ?_⟩
    simp [h1, h2, h3]

/-- **warning exactly once** in the plain history vocabulary. -/
theorem warnCount_exact (r : Nat) (w : World) (hnw : isWarned w r = false) (ops : List Op) :
    (warnCount r w ops = 1 ↔
      ∃ pre op post, ops = pre ++ op :: post ∧ op.recv = r ∧ op.isPoke = false ∧
        isObs (runFinal w pre) r = true) ∧
    (warnCount r w ops = 0 ↔
      ¬ ∃ pre op post, ops = pre ++ op :: post ∧ op.recv = r ∧ op.isPoke = false ∧
        isObs (runFinal w pre) r = true) := by
  rw [← usedWhileObsolete_iff, warnCount_eq, hnw]
  cases usedWhileObsolete r w ops <;> simp

theorem isWarned_run_unused (r : Nat) (ops : List Op) : ∀ w : World,
    (∀ o ∈ ops, o.recv = r → o.isPoke = true) → isWarned (runFinal w ops) r = isWarned w r := by
  induction ops with
  | nil => intro w _; rfl
  | cons op ops ih =>
    intro w h
    rw [runFinal_cons, ih _ (fun o ho => h o (List.mem_cons_of_mem _ ho)), isWarned_step]
    by_cases har : op.recv = r
    · have hk := h op List.mem_cons_self har
      rw [step_printed_eq, hk]; simp
    · have h2 : decide (r = op.recv) = false := decide_eq_false (fun e => har e.symm)
      simp [h2]

/-- **progress + safety**: once `r` is obsolete and has not warned, then after any history that
    does not access `r`'s attributes, the next call on `r` prints the warning — and no later call
    ever prints it again. -/
theorem next_use_warns (w : World) (r : Nat) (ho : isObs w r = true) (hw : isWarned w r = false)
    (ops : List Op) (hno : ∀ o ∈ ops, o.recv = r → o.isPoke = true)
    (op : Op) (hr : op.recv = r) (hk : op.isPoke = false) :
    (step (runFinal w ops) op).2 = true ∧
    ∀ post, warnCount r (step (runFinal w ops) op).1 post = 0 := by
  have h1 : (step (runFinal w ops) op).2 = true := by
    rw [step_printed_eq, hr, hk, isObs_run_mono w ops r ho, isWarned_run_unused r ops w hno, hw]
    rfl
  refine ⟨h1, ?_⟩
  intro post
  rw [warnCount_eq, isWarned_step, h1, hr]
  simp

/-! ### (1) specialised to runs that start with no obsolete list -/

theorem obsolete_iff_clean (w : World) (hpo : PredOlder w.lists) (hclean : ∀ j, isObs w j = false)
    (ops : List Op) (i : Nat) :
    isObs (runFinal w ops) i = true ↔
      ∃ pre op post, ops = pre ++ op :: post ∧ op.isEdit = true ∧
        Anc (runFinal w pre).lists i op.recv := by
  rw [obsolete_iff w hpo, hclean i]; simp

theorem obsolete_iff_final_clean (w : World) (hpo : PredOlder w.lists) (hclean : ∀ j, isObs w j = false)
    (ops : List Op) (i : Nat) :
    isObs (runFinal w ops) i = true ↔
      ∃ pre op post, ops = pre ++ op :: post ∧ op.isEdit = true ∧
        op.recv < (runFinal w pre).lists.length ∧ Anc (runFinal w ops).lists i op.recv := by
  rw [obsolete_iff_final w hpo, hclean i]; simp

theorem obsolete_iff_init (n : Nat) (ops : List Op) (i : Nat) :
    isObs (runFinal (init n) ops) i = true ↔
      ∃ pre op post, ops = pre ++ op :: post ∧ op.isEdit = true ∧
        Anc (runFinal (init n) pre).lists i op.recv :=
  obsolete_iff_clean (init n) (init_WF n).1 (init_not_obsolete n) ops i

/-- `pred_older`, spelled out: in every world reachable from a well-formed one, every predecessor
    pointer points to a strictly older list, so predecessor chains are acyclic. -/
theorem run_pred_older (w : World) (hpo : PredOlder w.lists) (ops : List Op) (i : Nat) (l : LObj)
    (p : Nat) (hl : (runFinal w ops).lists[i]? = some l) (hp : l.pred = some p) : p < i :=
  run_predOlder ops w hpo i l p hl hp

end DI.Obs

/-
  Lemmas/LoD.lean — ListOfDicts transformations (C15) and joins (C16).
-/
import Model.LoD
import Lemmas.Sort

namespace DI.LoD

open DI

/-! ### filter / filter_out -/

theorem filterMask_sublist (xs : List Item) (mask : List Bool) : (filterMask xs mask).Sublist xs := by
  induction xs generalizing mask with
  | nil => simp [filterMask]
  | cons x xs ih =>
    cases mask with
    | nil => simp [filterMask]
    | cons m ms =>
      have := ih ms
      simp only [filterMask, List.zip_cons_cons, List.filterMap_cons] at this ⊢
      cases m <;> simp
      · exact List.Sublist.cons _ this
      · exact this

theorem filterOutMask_sublist (xs : List Item) (mask : List Bool) : (filterOutMask xs mask).Sublist xs := by
  induction xs generalizing mask with
  | nil => simp [filterOutMask]
  | cons x xs ih =>
    cases mask with
    | nil => simp [filterOutMask]
    | cons m ms =>
      have := ih ms
      simp only [filterOutMask, List.zip_cons_cons, List.filterMap_cons] at this ⊢
      cases m <;> simp
      · exact this
      · exact List.Sublist.cons _ this

/-- filter and filter_out partition the items (for a predicate evaluated on every item). -/
theorem filter_partition (xs : List Item) (mask : List Bool) (h : mask.length = xs.length) :
    (filterMask xs mask ++ filterOutMask xs mask).Perm xs := by
  induction xs generalizing mask with
  | nil => simp [filterMask, filterOutMask]
  | cons x xs ih =>
    cases mask with
    | nil => simp at h
    | cons m ms =>
      have := ih ms (by simpa using h)
      simp only [filterMask, filterOutMask, List.zip_cons_cons, List.filterMap_cons] at this ⊢
      cases m <;> simp
      · exact (List.perm_middle).trans (List.Perm.cons _ this)
      · exact this

/-- the key=value form is the predicate form with the predicate `extract(item) == values`. -/
theorem filterKv_eq_mask (xs : List Item) (kvs : List (String × Val)) :
    filterKv xs kvs = filterMask xs (xs.map (fun it => extract (kvs.map (·.1)) it == kvs.map (·.2))) := by
  induction xs with
  | nil => simp [filterKv, filterMask]
  | cons x xs ih =>
    simp only [filterKv, filterMask, List.filter_cons, List.map_cons, List.zip_cons_cons,
      List.filterMap_cons] at ih ⊢
    split <;> simp_all

theorem filterOutKv_eq_mask (xs : List Item) (kvs : List (String × Val)) :
    filterOutKv xs kvs = filterOutMask xs (xs.map (fun it => extract (kvs.map (·.1)) it == kvs.map (·.2))) := by
  induction xs with
  | nil => simp [filterOutKv, filterOutMask]
  | cons x xs ih =>
    simp only [filterOutKv, filterOutMask, List.filter_cons, List.map_cons, List.zip_cons_cons,
      List.filterMap_cons] at ih ⊢
    split <;> simp_all

/-! ### list operations -/

theorem head_spec (xs : List Item) (n : Nat) :
    head xs n = xs.take (min n xs.length) ∧ (head xs n).length = min n xs.length := by
  simp [head, Nat.min_comm]

theorem tail_spec (xs : List Item) (n : Nat) :
    tail xs n = xs.drop (xs.length - min n xs.length) ∧ (tail xs n).length = min n xs.length := by
  simp only [tail, Nat.min_comm, List.length_drop, true_and]
  omega

theorem insertPos_le (len : Nat) (i : Int) : insertPos len i ≤ len := by
  unfold insertPos
  split
  · split <;> omega
  · exact Nat.min_le_right _ _

/-- `insert` = Python's `list.insert`: the item lands at the clamped position, everything else
    keeps its order. -/
theorem insert_spec (xs : List Item) (i : Int) (it : Item) :
    insert xs i it = xs.take (insertPos xs.length i) ++ it :: xs.drop (insertPos xs.length i) ∧
    (insert xs i it).length = xs.length + 1 := by
  have hp := insertPos_le xs.length i
  constructor
  · simp [insert]
  · simp [insert]; omega

theorem insertPos_nonneg (len : Nat) (i : Nat) : insertPos len (i : Int) = min i len := by
  unfold insertPos
  have : ¬ ((i : Int) < 0) := by omega
  simp [this]

theorem reverse_spec (xs : List Item) : reverse xs = xs.reverse := rfl
theorem add_spec (xs ys : List Item) : add xs ys = xs ++ ys := rfl
theorem append_spec (xs : List Item) (it : Item) : append xs it = xs ++ [it] := rfl
theorem mul_length (xs : List Item) (n : Nat) : (mul xs n).length = n * xs.length := by
  simp [mul, List.length_flatten]

/-! ### sort -/

theorem sortPass_perm (xs : List Item) (key : String) (desc : Bool) :
    (sortPass xs key desc).Perm xs := by
  unfold sortPass gather
  simp only []
  have hp := argsort_perm (fun a b => if desc then passLe desc b a else passLe desc a b)
    (xs.map (fun it => (it.kv.get? key).getD Val.none))
  simp only [List.length_map] at hp
  unfold argsortPy
  have h2 := hp.map (fun i => xs[i]!)
  refine h2.trans ?_
  apply List.Perm.of_eq
  apply List.ext_getElem
  · simp
  · intro i h1 h2; simp at h1; simp [h1]

/-- every pass, hence the whole sort, returns the same items. -/
theorem sort_perm (xs : List Item) (keys : List (String × Bool)) : (sort xs keys).Perm xs := by
  unfold sort
  generalize keys.reverse = ks
  induction ks generalizing xs with
  | nil => simp
  | cons k ks ih =>
    simp only [List.foldl_cons]
    exact (ih (sortPass xs k.1 k.2)).trans (sortPass_perm xs k.1 k.2)

/-! ### unique -/

theorem uniqueScan_sublist (xs : List Item) (keys : List String) (seen : List (List Val)) :
    (uniqueScan xs keys seen).Sublist xs := by
  induction xs generalizing seen with
  | nil => simp [uniqueScan]
  | cons x xs ih =>
    simp only [uniqueScan]
    split
    · exact List.Sublist.cons _ (ih _)
    · exact List.Sublist.cons_cons _ (ih _)

/-- an item is kept iff its key combination was not seen before it. -/
theorem mem_uniqueScan_key (xs : List Item) (keys : List String) (seen : List (List Val)) (k : List Val) :
    k ∈ (uniqueScan xs keys seen).map (extract keys) ↔ k ∉ seen ∧ k ∈ xs.map (extract keys) := by
  induction xs generalizing seen with
  | nil => simp [uniqueScan]
  | cons x xs ih =>
    simp only [uniqueScan]
    by_cases hs : seen.contains (extract keys x) = true
    · simp only [hs, if_true]
      rw [ih]
      have hs' : extract keys x ∈ seen := by simpa using hs
      constructor
      · rintro ⟨h1, h2⟩; exact ⟨h1, by simp [h2]⟩
      · rintro ⟨h1, h2⟩
        refine ⟨h1, ?_⟩
        simp only [List.map_cons, List.mem_cons] at h2
        rcases h2 with rfl | h2
        · exact absurd hs' h1
        · exact h2
    · simp only [hs, Bool.false_eq_true, if_false, List.map_cons, List.mem_cons]
      have hs' : extract keys x ∉ seen := by simpa using hs
      rw [ih]
      constructor
      · rintro (rfl | ⟨h1, h2⟩)
        · exact ⟨hs', Or.inl rfl⟩
        · simp only [List.mem_cons, not_or] at h1
          exact ⟨h1.2, Or.inr h2⟩
      · rintro ⟨h1, h2 | h2⟩
        · exact Or.inl h2
        · by_cases he : k = extract keys x
          · exact Or.inl he
          · exact Or.inr ⟨by simp [he, h1], h2⟩

/-- no key combination is kept twice. -/
theorem uniqueScan_nodup (xs : List Item) (keys : List String) (seen : List (List Val)) :
    ((uniqueScan xs keys seen).map (extract keys)).Nodup := by
  induction xs generalizing seen with
  | nil => simp [uniqueScan]
  | cons x xs ih =>
    simp only [uniqueScan]
    split
    · exact ih _
    · simp only [List.map_cons, List.nodup_cons]
      refine ⟨?_, ih _⟩
      intro h
      have := (mem_uniqueScan_key xs keys (extract keys x :: seen) (extract keys x)).mp h
      simp at this

/-! ### C16: the reversed dict gives the first match -/

/-- `{extract2(x): x for x in reversed(other)}.get(id)` is the first item of `other` whose key
    tuple equals `id`. -/
theorem lookupRev_eq_find (other : List Item) (by2 : List String) (id : List Val) :
    lookupRev other by2 id = other.find? (fun x => extract by2 x == id) := by
  unfold lookupRev
  rw [List.foldl_reverse]
  induction other with
  | nil => simp
  | cons x xs ih =>
    simp only [List.foldr_cons, List.find?_cons]
    by_cases h : extract by2 x = id
    · simp [h]
    · have hb : (extract by2 x == id) = false := by simp [h]
      simp only [hb, Bool.false_eq_true, if_false]
      exact ih

theorem leftJoin_length (xs other : List Item) (by1 by2 : List String) :
    (leftJoin xs other by1 by2).length = xs.length := by simp [leftJoin]

/-- left_join keeps every left item (same object, same position). -/
theorem leftJoin_tags (xs other : List Item) (by1 by2 : List String) :
    (leftJoin xs other by1 by2).map (·.tag) = xs.map (·.tag) := by
  unfold leftJoin
  rw [List.map_map]
  apply List.map_congr_left
  intro it _
  simp only [Function.comp]
  split <;> rfl

/-- an unmatched left item is returned unchanged (nothing is added). -/
theorem leftJoin_unmatched (xs other : List Item) (by1 by2 : List String) (it : Item) (hit : it ∈ xs)
    (hno : other.find? (fun x => extract by2 x == extract by1 it) = none) :
    it ∈ leftJoin xs other by1 by2 := by
  unfold leftJoin
  rw [List.mem_map]
  refine ⟨it, hit, ?_⟩
  rw [lookupRev_eq_find, hno]

/-- a matched left item receives exactly the non-key entries of the first right item with equal
    key values. -/
theorem leftJoin_matched (xs other : List Item) (by1 by2 : List String) (it m : Item) (hit : it ∈ xs)
    (hm : other.find? (fun x => extract by2 x == extract by1 it) = some m) :
    { it with kv := it.kv.update (nonKey m.kv by2) } ∈ leftJoin xs other by1 by2 := by
  unfold leftJoin
  rw [List.mem_map]
  refine ⟨it, hit, ?_⟩
  rw [lookupRev_eq_find, hm]

/-- semi_join and anti_join partition the left items, in order. -/
theorem semi_anti_partition (xs other : List Item) (by1 by2 : List String) :
    (semiJoin xs other by1 by2 ++ antiJoin xs other by1 by2).Perm xs ∧
    (semiJoin xs other by1 by2).Sublist xs ∧ (antiJoin xs other by1 by2).Sublist xs := by
  refine ⟨List.filter_append_perm _ _, List.filter_sublist, List.filter_sublist⟩

/-- inner_join = the matched items of left_join, merged the same way. -/
theorem innerJoin_eq (xs other : List Item) (by1 by2 : List String) :
    innerJoin xs other by1 by2 =
      (xs.filter (fun it => (lookupRev other by2 (extract by1 it)).isSome)).map (fun it =>
        match lookupRev other by2 (extract by1 it) with
        | some m => { it with kv := it.kv.update (nonKey m.kv by2) }
        | none => it) := by
  unfold innerJoin
  induction xs with
  | nil => simp
  | cons x xs ih =>
    simp only [List.filterMap_cons, List.filter_cons]
    cases h : lookupRev other by2 (extract by1 x) <;> simp [h, ih]

end DI.LoD

/-
  Lemmas/PyEvalObs.lean — the regenerated bookkeeping code of ListOfDicts, RUN by the evaluator of
  `Model/PyEvalObs.lean`, computes the state machine of `Model/Obsolete.lean`.
-/
import Model.PyEvalObs
import Lemmas.Obsolete
import Lemmas.ObsoleteHist
import Lemmas.ObsoleteRuns

namespace DI.PyEvalObs

open DI.Py DI.Gen DI.Obs

/-! ### equation lemmas -/

@[simp] theorem bind_ok (v : Val) (c : Cfg) (k : Val → Cfg → Res) : (Res.ok v c).bind k = k v c := rfl
@[simp] theorem bind_raised (c : Cfg) (k : Val → Cfg → Res) : (Res.raised c).bind k = .raised c := rfl
@[simp] theorem bind_unsupported (k : Val → Cfg → Res) : Res.unsupported.bind k = .unsupported := rfl
@[simp] theorem leave_ok (v : Val) (c : Cfg) (env : Env) : (Res.ok v c).leave env = .ok v { c with env := env } := rfl
@[simp] theorem leave_raised (c : Cfg) (env : Env) : (Res.raised c).leave env = .raised { c with env := env } := rfl
@[simp] theorem leave_unsupported (env : Env) : Res.unsupported.leave env = .unsupported := rfl

section eqs
variable (ctx : Ctx) (n : Nat) (c : Cfg)

theorem ev_True : ev ctx (n+1) (.sym "True") c = .ok .tt c := rfl
theorem ev_False : ev ctx (n+1) (.sym "False") c = .ok .ff c := rfl
theorem ev_None : ev ctx (n+1) (.sym "None") c = .ok .none c := rfl
theorem ev_self : ev ctx (n+1) (.sym "self") c =
    match c.env.lookup "self" with | some v => .ok v c | none => .unsupported := rfl
theorem ev_dicts : ev ctx (n+1) (.sym "dicts") c =
    match c.env.lookup "dicts" with | some v => .ok v c | none => .unsupported := rfl
theorem ev_tuple : ev ctx (n+1) (.app "tuple" []) c = .ok .opaque c := rfl
theorem ev_getattribute : ev ctx (n+1) (.app "super().__getattribute__" [.sym "name"]) c =
    match c.env.lookup "name" with | some (.kind _ _) => .ok .opaque c | _ => .unsupported := rfl
theorem ev_print (s : String) : ev ctx (n+1) (.app "print" [.sym s]) c = .ok .none { c with out := c.out ++ [s] } := rfl
theorem ev_setattr (tgt val : Term) (a : String) :
    ev ctx (n+1) (.app "setattr" [tgt, .sym a, val]) c =
      (ev ctx n tgt c).bind fun vt c1 => (ev ctx n val c1).bind fun vv c2 => setAttr vt a vv c2 := rfl
theorem ev_mark (x : Term) :
    ev ctx (n+1) (.app "._mark_obsolete" [x]) c =
      (ev ctx n x c).bind fun vx c1 => (getAttr (ev ctx n) vx true true c1).bind fun _ c2 =>
        call (ev ctx n) false ListOfDicts_mark_obsolete [("self", vx)] c2 := rfl
theorem ev_pred (x : Term) :
    ev ctx (n+1) (.app "._predecessor" [x]) c =
      (ev ctx n x c).bind fun v c1 => (getAttr (ev ctx n) v false false c1).bind fun _ c2 =>
        match objOf c2 v with
        | some l => .ok (match l.pred with | some p => .ref p | none => .none) c2
        | none => .unsupported := rfl
end eqs

def warnOut (b : Bool) : List String := if b then [warningText] else []

theorem touch_of_some (w : World) (r : Nat) (l : LObj) (h : w.lists[r]? = some l) :
    touch w r = if (l.obsolete && !l.warned) then
      ({ w with lists := w.lists.set r { l with warned := true } }, true) else (w, false) := by
  simp [touch, h]

theorem getAttr_eq (ctx : Ctx) (n : Nat) (c : Cfg) (r : Nat) (l : LObj) (bk cl : Bool)
    (h : c.w.lists[r]? = some l) :
    getAttr (ev ctx (n+2)) (.ref r) bk cl c =
      if (!bk && cl && l.obsolete && !l.warned) then
        .ok .opaque { c with w := { c.w with lists := c.w.lists.set r { l with warned := true } }, out := c.out ++ [warningText] }
      else .ok .opaque c := by
  obtain ⟨env, w, out⟩ := c
  have h' : w.lists[r]? = some l := h
  have t1 : ∀ d, truthOf d ⟨[("self", Val.ref r), ("name", Val.kind bk cl)], w, out⟩
      (Term.app "NotIn" [Term.sym "'obsolete'", Term.sym "name"]) = !bk := by
    intro d; simp [truthOf, List.lookup]
  have t2 : ∀ d, truthOf d ⟨[("self", Val.ref r), ("name", Val.kind bk cl)], w, out⟩
      (Term.app "callable" [Term.app "super().__getattribute__" [Term.sym "name"]]) = cl := by
    intro d; simp [truthOf, List.lookup]
  have t3 : ∀ d, truthOf d ⟨[("self", Val.ref r), ("name", Val.kind bk cl)], w, out⟩
      (Term.app "._obsolete" [Term.sym "self"]) = l.obsolete := by
    intro d; simp [truthOf, List.lookup, objOf, h']
  have t4 : ∀ d, truthOf d ⟨[("self", Val.ref r), ("name", Val.kind bk cl)], w, out⟩
      (Term.app "._obsolete_warned" [Term.sym "self"]) = l.warned := by
    intro d; simp [truthOf, List.lookup, objOf, h']
  simp only [getAttr, objOf, h', call, ListOfDicts_getattribute, t1, t2, t3, t4]
  by_cases hc : (!bk && cl && l.obsolete && !l.warned) = true
  · simp only [hc, if_true]
    simp [seq, ev_print, ev_setattr, ev_self, ev_True, ev_getattribute, List.lookup, setAttr, setObj, h', warningText]
  · simp only [hc, if_false, Bool.false_eq_true]
    simp [seq, ev_getattribute, List.lookup]

theorem getAttr_silent (ctx : Ctx) (n : Nat) (c : Cfg) (r : Nat) (l : LObj) (bk cl : Bool)
    (h : c.w.lists[r]? = some l) (hk : bk = true ∨ cl = false) :
    getAttr (ev ctx (n+2)) (.ref r) bk cl c = .ok .opaque c := by
  rw [getAttr_eq ctx n c r l bk cl h]
  rcases hk with rfl | rfl <;> simp

theorem getAttr_touch (ctx : Ctx) (n : Nat) (c : Cfg) (r : Nat) (l : LObj) (h : c.w.lists[r]? = some l) :
    getAttr (ev ctx (n+2)) (.ref r) false true c =
      .ok .opaque { c with w := (touch c.w r).1, out := c.out ++ warnOut (touch c.w r).2 } := by
  rw [getAttr_eq ctx n c r l false true h, touch_of_some c.w r l h]
  by_cases hc : (l.obsolete && !l.warned) = true
  · simp [hc, warnOut]
  · simp [hc, warnOut]

theorem markChain_fuel {ls : List LObj} (hpo : PredOlder ls) :
    ∀ (r f : Nat), r < f → markChain f ls r = markChain (r+1) ls r := by
  intro r
  induction r using Nat.strongRecOn with
  | _ r ih =>
    intro f hf
    obtain ⟨f', rfl⟩ : ∃ f', f = f' + 1 := ⟨f - 1, by omega⟩
    rcases Option.eq_none_or_eq_some (ls[r]?) with hr | ⟨l, hr⟩
    · rw [markChain_none _ _ _ hr, markChain_none _ _ _ hr]
    · rw [markChain_some _ _ _ l hr, markChain_some _ _ _ l hr]
      cases hp : l.pred with
      | none => rfl
      | some p =>
        have hpr := hpo r l p hr hp
        simp only []
        rw [ih p hpr f' (by omega), ih p hpr r hpr]

/-- `self._obsolete = True`. -/
theorem ev_set_obsolete (ctx : Ctx) (n : Nat) (c : Cfg) (r : Nat) (l : LObj)
    (hs : c.env.lookup "self" = some (.ref r)) (h : c.w.lists[r]? = some l) :
    ev ctx (n+2) (.app "setattr" [.sym "self", .sym "_obsolete", .sym "True"]) c =
      .ok .none (setObj c r { l with obsolete := true }) := by
  simp [ev_setattr, ev_self, ev_True, hs, setAttr, h]

theorem call_mark (ctx : Ctx) : ∀ (r n : Nat) (c : Cfg), PredOlder c.w.lists → r < c.w.lists.length → r + 4 ≤ n →
    call (ev ctx n) false ListOfDicts_mark_obsolete [("self", .ref r)] c =
      .ok .none { c with w := { c.w with lists := markChain (r+1) c.w.lists r } } := by
  intro r
  induction r using Nat.strongRecOn with
  | _ r ih =>
    intro n c hpo hr hn
    obtain ⟨env, w, out⟩ := c
    have hr' : r < w.lists.length := hr
    obtain ⟨l, hl⟩ : ∃ l, w.lists[r]? = some l := ⟨w.lists[r], List.getElem?_eq_getElem hr'⟩
    have t1 : truthOf false ⟨[("self", Val.ref r)], w, out⟩
        (Term.app "isinstance" [Term.app "._predecessor" [Term.sym "self"], Term.sym "ListOfDicts"]) = l.pred.isSome := by
      simp [truthOf, List.lookup, objOf, hl]
    simp only [call, ListOfDicts_mark_obsolete, t1]
    cases hp : l.pred with
    | none =>
      obtain ⟨m, rfl⟩ : ∃ m, n = m + 2 := ⟨n - 2, by omega⟩
      simp only [Option.isSome_none, Bool.false_eq_true, if_false, seq]
      rw [ev_set_obsolete ctx m _ r l (by simp [List.lookup]) hl]
      rw [markChain_some _ _ _ l hl]
      simp [hp, hl, setObj]
    | some p =>
      have hpr : p < r := hpo r l p hl hp
      obtain ⟨m, rfl⟩ : ∃ m, n = m + 4 := ⟨n - 4, by omega⟩
      have hpl : p < w.lists.length := by omega
      obtain ⟨lp, hlp⟩ : ∃ lp, w.lists[p]? = some lp := ⟨w.lists[p], List.getElem?_eq_getElem hpl⟩
      simp only [Option.isSome_some, if_true, seq]
      rw [ev_mark, ev_pred, ev_self]
      simp only [List.lookup, beq_self_eq_true, bind_ok]
      rw [getAttr_silent ctx m _ r l false false hl (Or.inr rfl)]
      simp only [bind_ok, objOf, hl, hp]
      rw [getAttr_silent ctx (m+1) _ p lp true true hlp (Or.inl rfl)]
      simp only [bind_ok]
      rw [ih p hpr (m+3) ⟨[("self", Val.ref r)], w, out⟩ hpo hpl (by omega)]
      simp only [bind_ok]
      have hget := markChain_get (p+1) w.lists p r
      rw [hl] at hget
      simp only [Option.map_some] at hget
      rw [ev_set_obsolete ctx (m+2) _ r _ (by simp [List.lookup]) hget]
      rw [markChain_some _ _ _ l hl]
      simp only [hp, markChain_fuel hpo p r hpr, hget, bind_ok, leave_ok, setObj]

section eqs2
variable (ctx : Ctx) (n : Nat) (c : Cfg)

theorem ev_new_sym : ev ctx (n+1) (.sym "new") c =
    match c.env.lookup "new" with | some v => .ok v c | none => .unsupported := rfl
theorem ev_group_keys (x : Term) :
    ev ctx (n+1) (.app "._group_keys" [x]) c =
      (ev ctx n x c).bind fun v c1 => (getAttr (ev ctx n) v false false c1).bind fun _ c2 => .ok .opaque c2 := rfl
theorem ev_super_init (x : Term) :
    ev ctx (n+1) (.app "super().__init__" [x]) c =
      (ev ctx n x c).bind fun vd c1 =>
        match c1.env.lookup "self", asDicts c1 vd with
        | some (.ref i), some ds =>
          match c1.w.lists[i]? with
          | some l => .ok .none (setObj c1 i { l with items := ds })
          | none => .unsupported
        | _, _ => .unsupported := rfl
theorem ev_map_deepcopy (x : Term) :
    ev ctx (n+1) (.app "map" [.sym "copy.deepcopy", x]) c =
      (ev ctx n x c).bind fun v c1 =>
        match objOf c1 v with
        | some l =>
          .ok (.dicts ((List.range l.items.length).map (· + c1.w.vers.length)))
            { c1 with w := { c1.w with vers := c1.w.vers ++ List.replicate l.items.length 0 } }
        | none => .unsupported := rfl
theorem ev_class (x d a : Term) :
    ev ctx (n+1) (.app ".__class__" [x, d, .app "=as_is" [a]]) c =
      match c.env.lookup "new" with
      | some v => .ok v c
      | none =>
        (ev ctx n x c).bind fun vx c1 => (getAttr (ev ctx n) vx false true c1).bind fun _ c2 =>
        (ev ctx n d c2).bind fun vd c3 => (ev ctx n a c3).bind fun va c4 => allocInit ctx.raw (ev ctx n) vd va c4 := rfl
theorem ev_new (x d : Term) :
    ev ctx (n+1) (.app "._new" [x, d]) c =
      (ev ctx n x c).bind fun vx c1 => (getAttr (ev ctx n) vx false true c1).bind fun _ c2 =>
      (ev ctx n d c2).bind fun vd c3 => call (ev ctx n) false ListOfDicts_new [("self", vx), ("dicts", vd)] c3 := rfl
theorem ev_function (x : Term) :
    ev ctx (n+1) (.app "function" [x, .app "*" [.sym "args"], .app "=**" [.sym "kwargs"]]) c =
      (ev ctx n x c).bind fun vx c1 => ctx.fn vx c1 := rfl
end eqs2

/-- the clean list object `__init__` leaves. -/
def fresh (ds : List Nat) (pred : Option Nat) : LObj := { items := ds, pred := pred, obsolete := false, warned := false }

/-- `__init__(self, dicts, as_is=True)` on the object `i`, whatever it held: the items are the given dicts, no
    predecessor, not obsolete, not warned; nothing else is written, nothing printed. -/
theorem call_init (ctx : Ctx) (n : Nat) (c : Cfg) (i : Nat) (vd : Val) (ds : List Nat)
    (hi : i < c.w.lists.length) (hd : asDicts c vd = some ds) :
    call (ev ctx (n+2)) false ListOfDicts_init [("self", .ref i), ("dicts", vd), ("as_is", .tt)] c =
      .ok .none (setObj c i (fresh ds none)) := by
  obtain ⟨env, w, out⟩ := c
  have hi' : i < w.lists.length := hi
  obtain ⟨l, hl⟩ : ∃ l, w.lists[i]? = some l := ⟨w.lists[i], List.getElem?_eq_getElem hi'⟩
  have t1 : truthOf false ⟨[("self", Val.ref i), ("dicts", vd), ("as_is", .tt)], w, out⟩ (Term.sym "as_is") = true := by
    simp [truthOf, List.lookup]
  have hd2 : asDicts ⟨[("self", Val.ref i), ("dicts", vd), ("as_is", .tt)], w, out⟩ vd = some ds := by
    rw [← hd]; cases vd <;> rfl
  simp only [call, ListOfDicts_init, t1, if_true, seq, ev_super_init, ev_dicts, ev_setattr, ev_self, ev_tuple, ev_False,
    ev_None, List.lookup, bind_ok]
  simp [hd2, setAttr, setObj, hi', fresh]

theorem set_append_last {α : Type} (l : List α) (a b : α) : (l ++ [a]).set l.length b = l ++ [b] := by
  induction l with
  | nil => rfl
  | cons x xs ih => simp [ih]

theorem asDicts_env (env env' : Env) (w : World) (out out' : List String) (v : Val) :
    asDicts ⟨env, w, out⟩ v = asDicts ⟨env', w, out'⟩ v := by cases v <;> rfl

theorem asDicts_touch (c : Cfg) (r : Nat) (v : Val) (env : Env) (out : List String) :
    asDicts ⟨env, (touch c.w r).1, out⟩ v = asDicts c v := by
  cases v with
  | ref j =>
    simp only [asDicts, touch_lists_get]
    cases c.w.lists[j]? with
    | none => rfl
    | some l => simp only [Option.map_some]; split <;> rfl
  | _ => rfl

theorem asDicts_append (c : Cfg) (v : Val) (ds : List Nat) (x : LObj) (env : Env) (h : asDicts c v = some ds) :
    asDicts ⟨env, { c.w with lists := c.w.lists ++ [x] }, c.out⟩ v = some ds := by
  cases v with
  | ref j =>
    simp only [asDicts] at h ⊢
    cases hj : c.w.lists[j]? with
    | none => rw [hj] at h; cases h
    | some l =>
      have hlt := (List.getElem?_eq_some_iff.mp hj).1
      rw [List.getElem?_append_left hlt, hj]; rw [hj] at h; exact h
  | dicts ds' => exact h
  | _ => cases h

/-- the allocation `self.__class__(<dicts>, as_is=True)` once `self.__class__` has been looked up and the arguments
    are values: a new object at the end, initialised by the regenerated `__init__`, bound to `new`. -/
theorem alloc_tail (ctx : Ctx) (n : Nat) (c : Cfg) (vd : Val) (ds : List Nat) (hd : asDicts c vd = some ds) :
    allocInit ctx.raw (ev ctx (n+2)) vd .tt c =
    .ok (.ref c.w.lists.length)
      { c with env := ("new", .ref c.w.lists.length) :: c.env,
               w := { c.w with lists := c.w.lists ++ [fresh ds none] } } := by
  simp only [allocInit]
  rw [call_init ctx n _ c.w.lists.length vd ds (by simp) (asDicts_append c vd ds ctx.raw c.env hd)]
  simp [setObj]

/-- `self._new(dicts)` = the attribute access `self.__class__` (the model's `touch`), then ONE new object at the end:
    the given dicts, the receiver as predecessor, not obsolete, not warned. -/
theorem call_new (ctx : Ctx) (n : Nat) (c : Cfg) (r : Nat) (l : LObj) (vd : Val) (ds : List Nat)
    (hl : c.w.lists[r]? = some l) (hd : asDicts c vd = some ds) :
    call (ev ctx (n+4)) false ListOfDicts_new [("self", .ref r), ("dicts", vd)] c =
      .ok (.ref c.w.lists.length)
        { c with w := { (touch c.w r).1 with lists := (touch c.w r).1.lists ++ [fresh ds (some r)] },
                 out := c.out ++ warnOut (touch c.w r).2 } := by
  obtain ⟨env, w, out⟩ := c
  have hl' : w.lists[r]? = some l := hl
  obtain ⟨l1, hl1, _, _⟩ := touch_some w r r l hl'
  have hd1 : asDicts ⟨[("self", Val.ref r), ("dicts", vd)], (touch w r).1, out ++ warnOut (touch w r).2⟩ vd = some ds := by
    rw [← hd]; exact asDicts_touch ⟨env, w, out⟩ r vd _ _
  have hlen : (touch w r).1.lists.length = w.lists.length := touch_length w r
  simp only [call, ListOfDicts_new, seq, Bool.false_eq_true, if_false]
  rw [ev_setattr, ev_class]
  simp only [List.lookup, String.reduceBEq, ev_self, ev_dicts, ev_True, bind_ok]
  rw [getAttr_touch ctx n _ r l hl']
  simp only [bind_ok, List.lookup, String.reduceBEq]
  rw [alloc_tail ctx n _ vd ds hd1]
  simp only [bind_ok, ev_group_keys, ev_self, List.lookup, String.reduceBEq]
  have hl1' : ((touch w r).1.lists ++ [fresh ds none])[r]? = some l1 := by
    rw [List.getElem?_append_left (List.getElem?_eq_some_iff.mp hl1).1]; exact hl1
  rw [getAttr_silent ctx n _ r l1 false false hl1' (Or.inr rfl)]
  simp only [bind_ok]
  have hlast : ∀ x : LObj, ((touch w r).1.lists ++ [x])[(touch w r).1.lists.length]? = some x := by
    intro x; simp
  simp only [setAttr, hlast, bind_ok]
  rw [ev_setattr, ev_class]
  simp only [List.lookup, String.reduceBEq, bind_ok, ev_self]
  simp only [setAttr, hlast, bind_ok, setObj, set_append_last]
  rw [ev_class]
  simp only [List.lookup, String.reduceBEq, leave_ok, hlen, fresh]

/-- `self.__deepcopy__()` = the attribute access `self.__class__` (`touch`), one brand-new dict per item, ONE new object
    at the end holding them: no predecessor, not obsolete, not warned. -/
theorem call_deepcopy (ctx : Ctx) (n : Nat) (c : Cfg) (r : Nat) (l : LObj) (hl : c.w.lists[r]? = some l) :
    call (ev ctx (n+4)) false ListOfDicts_deepcopy [("self", .ref r)] c =
      .ok (.ref c.w.lists.length)
        { c with w := { lists := (touch c.w r).1.lists ++
                          [fresh ((List.range l.items.length).map (· + c.w.vers.length)) none],
                        vers := c.w.vers ++ List.replicate l.items.length 0 },
                 out := c.out ++ warnOut (touch c.w r).2 } := by
  obtain ⟨env, w, out⟩ := c
  have hl' : w.lists[r]? = some l := hl
  obtain ⟨l1, hl1, hit, _⟩ := touch_some w r r l hl'
  have hlen : (touch w r).1.lists.length = w.lists.length := touch_length w r
  have hv : (touch w r).1.vers = w.vers := touch_vers w r
  simp only [call, ListOfDicts_deepcopy, seq, Bool.false_eq_true, if_false]
  rw [ev_setattr, ev_class]
  simp only [List.lookup, String.reduceBEq, ev_self, ev_True, bind_ok]
  rw [getAttr_touch ctx n _ r l hl']
  simp only [bind_ok, ev_map_deepcopy, ev_self, List.lookup, String.reduceBEq, objOf, hl1, hit, hv]
  have ha := alloc_tail ctx n ⟨[("self", Val.ref r)], { lists := (touch w r).1.lists, vers := w.vers ++ List.replicate l.items.length 0 },
    out ++ warnOut (touch w r).2⟩ (Val.dicts ((List.range l.items.length).map (· + w.vers.length))) _ rfl
  simp only [] at ha
  rw [ha]
  simp only [bind_ok, ev_group_keys, ev_self, List.lookup, String.reduceBEq]
  have hl1' : ∀ x, ((touch w r).1.lists ++ [x])[r]? = some l1 := by
    intro x; rw [List.getElem?_append_left (List.getElem?_eq_some_iff.mp hl1).1]; exact hl1
  rw [getAttr_silent ctx n _ r l1 false false (hl1' _) (Or.inr rfl)]
  have hlast : ∀ x : LObj, ((touch w r).1.lists ++ [x])[(touch w r).1.lists.length]? = some x := by
    intro x; simp
  simp only [setAttr, hlast, bind_ok]
  rw [ev_class]
  simp only [List.lookup, String.reduceBEq, leave_ok, hlen]

/-- a second access right after the first prints nothing and writes nothing (whatever happened to the dicts). -/
theorem touch_idem (w w' : World) (r : Nat) (h : w'.lists = (touch w r).1.lists) : touch w' r = (w', false) := by
  unfold touch
  rw [h, touch_lists_get]
  cases hr : w.lists[r]? with
  | none => rfl
  | some l =>
    simp only [Option.map_some, true_and]
    by_cases ho : l.obsolete = true
    · simp [ho]
    · simp [ho]

theorem predOlder_touch (w : World) (r : Nat) (h : PredOlder w.lists) : PredOlder (touch w r).1.lists := by
  intro i l p hl hp
  obtain ⟨l0, h0, _, hp0, _⟩ := touch_some_inv w r i l hl
  exact h i l0 p h0 (by rw [← hp0]; exact hp)

theorem predOlder_append (ls : List LObj) (x : LObj) (h : PredOlder ls) (hx : ∀ p, x.pred = some p → p < ls.length) :
    PredOlder (ls ++ [x]) := by
  intro i l p hl hp
  by_cases hi : i < ls.length
  · rw [List.getElem?_append_left hi] at hl; exact h i l p hl hp
  · have hlen := (List.getElem?_eq_some_iff.mp hl).1
    simp only [List.length_append, List.length_cons, List.length_nil] at hlen
    have : i = ls.length := by omega
    subst this
    simp only [List.getElem?_concat_length, Option.some.injEq] at hl
    subst hl
    exact hx p hp

theorem markChain_append {ls : List LObj} (hpo : PredOlder ls) (x : LObj) :
    ∀ (f r : Nat), r < ls.length → markChain f (ls ++ [x]) r = markChain f ls r ++ [x] := by
  intro f
  induction f with
  | zero => intro r _; rfl
  | succ f ih =>
    intro r hr
    obtain ⟨l, hl⟩ : ∃ l, ls[r]? = some l := ⟨ls[r], List.getElem?_eq_getElem hr⟩
    have hl' : (ls ++ [x])[r]? = some l := by rw [List.getElem?_append_left hr]; exact hl
    rw [markChain_some _ _ _ l hl, markChain_some _ _ _ l hl']
    have key : ∀ M : List LObj, M.length = ls.length →
        (match (M ++ [x])[r]? with
          | none => M ++ [x]
          | some l' => (M ++ [x]).set r { l' with obsolete := true }) =
        (match M[r]? with
          | none => M
          | some l' => M.set r { l' with obsolete := true }) ++ [x] := by
      intro M hM
      have hrM : r < M.length := by omega
      rw [List.getElem?_append_left hrM]
      cases M[r]? with
      | none => rfl
      | some l' => simp only []; rw [List.set_append_left _ _ hrM]
    cases hp : l.pred with
    | none => exact key ls rfl
    | some p =>
      have hpr := hpo r l p hl hp
      simp only []
      rw [ih p (by omega)]
      exact key _ (markChain_length _ _ _)

/-- what a `@new_from_generator` call leaves, from the outcome of the generator. -/
def nfgResult (c : Cfg) (r : Nat) (o : Option (List Nat) × World) : Res :=
  match o with
  | (some ds, w') =>
    .ok (.ref c.w.lists.length)
      { c with w := { lists := w'.lists ++ [fresh ds (some r)], vers := w'.vers },
               out := c.out ++ warnOut (touch c.w r).2 }
  | (none, w') => .raised { c with w := w', out := c.out ++ warnOut (touch c.w r).2 }

/-- the regenerated `new_from_generator` wrapper: the access `self._new` (`touch`), then the generator runs, then `_new`
    allocates ONE object at the end with the yielded dicts and the receiver as predecessor. -/
theorem nfgCall_eq (raw : LObj) (n : Nat) (g : Gen) (c : Cfg) (r : Nat) (l : LObj) (hl : c.w.lists[r]? = some l)
    (hg : (g r (touch c.w r).1).2.lists = (touch c.w r).1.lists) :
    nfgCall raw (n+5) g (.ref r) c = nfgResult c r (g r (touch c.w r).1) := by
  obtain ⟨env, w, out⟩ := c
  have hl' : w.lists[r]? = some l := hl
  have hg' : (g r (touch w r).1).2.lists = (touch w r).1.lists := hg
  obtain ⟨l1, hl1, _, _⟩ := touch_some w r r l hl'
  simp only [nfgCall, call, deco_new_from_generator_wrapper, seq, Bool.false_eq_true, if_false, bind_ok]
  rw [ev_new]
  simp only [ev_self, List.lookup, String.reduceBEq, bind_ok]
  rw [getAttr_touch _ (n+2) _ r l hl']
  simp only [bind_ok, ev_function, ev_self, List.lookup, String.reduceBEq, genFn, nfgResult]
  rcases hgo : g r (touch w r).1 with ⟨o, w'⟩
  rw [hgo] at hg'
  simp only [] at hg'
  cases o with
  | none => simp only [bind_raised, leave_raised]
  | some ds =>
    simp only [bind_ok]
    have hl1' : w'.lists[r]? = some l1 := by rw [hg']; exact hl1
    rw [call_new _ n _ r l1 (.dicts ds) ds hl1' rfl]
    simp only [leave_ok, touch_idem w w' r hg', hg', touch_length, List.append_nil, warnOut, Bool.false_eq_true, if_false]

/-- what an `@obsoletes @new_from_generator` call leaves, from the outcome of the generator. -/
def obsResult (c : Cfg) (r : Nat) (o : Option (List Nat) × World) : Res :=
  match o with
  | (some ds, w') =>
    .ok (.ref c.w.lists.length)
      { c with w := { lists := markChain c.w.lists.length w'.lists r ++ [fresh ds (some r)], vers := w'.vers },
               out := c.out ++ warnOut (touch c.w r).2 }
  | (none, w') => .raised { c with w := w', out := c.out ++ warnOut (touch c.w r).2 }

/-- the regenerated `obsoletes` wrapper around the regenerated `new_from_generator` wrapper, in Python's order: the
    wrapped call first (its result is allocated, NOT obsolete, predecessor = the receiver), then `_mark_obsolete` on the
    receiver — the whole predecessor chain of the receiver, nothing else; if the wrapped call raises, nothing is marked. -/
theorem obsCall_eq (raw : LObj) (n : Nat) (g : Gen) (c : Cfg) (r : Nat) (l : LObj) (hl : c.w.lists[r]? = some l)
    (hpo : PredOlder c.w.lists) (hn : c.w.lists.length + 5 ≤ n)
    (hg : (g r (touch c.w r).1).2.lists = (touch c.w r).1.lists) :
    obsCall raw n true g (.ref r) c = obsResult c r (g r (touch c.w r).1) := by
  obtain ⟨env, w, out⟩ := c
  have hl' : w.lists[r]? = some l := hl
  have hpo' : PredOlder w.lists := hpo
  have hr : r < w.lists.length := (List.getElem?_eq_some_iff.mp hl').1
  have hg' : (g r (touch w r).1).2.lists = (touch w r).1.lists := hg
  obtain ⟨m, rfl⟩ : ∃ m, n = m + 5 := ⟨n - 5, by have : w.lists.length + 5 ≤ n := hn; omega⟩
  have hm : w.lists.length ≤ m := by have : w.lists.length + 5 ≤ m + 5 := hn; omega
  obtain ⟨l1, hl1, _, _⟩ := touch_some w r r l hl'
  simp only [obsCall, call, deco_obsoletes_wrapper, if_true]
  rw [ev_function]
  simp only [ev_self, List.lookup, String.reduceBEq, bind_ok]
  rw [nfgCall_eq raw m g _ r l hl' hg']
  simp only [nfgResult, obsResult]
  rcases hgo : g r (touch w r).1 with ⟨o, w'⟩
  rw [hgo] at hg'
  simp only [] at hg'
  cases o with
  | none => simp only [bind_raised, leave_raised]
  | some ds =>
    have hlen : (touch w r).1.lists.length = w.lists.length := touch_length w r
    have hpo1 : PredOlder (touch w r).1.lists := predOlder_touch w r hpo'
    have hpo2 : PredOlder ((touch w r).1.lists ++ [fresh ds (some r)]) :=
      predOlder_append _ _ hpo1 (by intro p hp; simp only [fresh, Option.some.injEq] at hp; omega)
    have hl2 : ((touch w r).1.lists ++ [fresh ds (some r)])[r]? = some l1 := by
      rw [List.getElem?_append_left (by omega)]; exact hl1
    simp only [bind_ok, seq, hg']
    rw [ev_mark]
    simp only [ev_self, List.lookup, String.reduceBEq, bind_ok]
    rw [getAttr_silent _ (m+2) _ r l1 true true hl2 (Or.inl rfl)]
    simp only [bind_ok]
    rw [call_mark _ r (m+4) _ hpo2 (by simp only [List.length_append, List.length_cons, List.length_nil]; omega) (by omega)]
    simp only [bind_ok, leave_ok]
    rw [markChain_append hpo1 _ _ r (by omega), markChain_fuel hpo1 r w.lists.length hr]

theorem warnOut_false_right (xs : List String) : xs ++ warnOut false = xs := by simp [warnOut]

/-! ### the entry points -/

theorem runGetattribute_eq (raw : LObj) (w : World) (r : Nat) (hr : r < w.lists.length) (bk cl : Bool) :
    runGetattribute raw w r bk cl =
      if (!bk && cl) then .ok .opaque { env := [], w := (touch w r).1, out := warnOut (touch w r).2 }
      else .ok .opaque (start w) := by
  obtain ⟨l, hl⟩ : ∃ l, w.lists[r]? = some l := ⟨w.lists[r], List.getElem?_eq_getElem hr⟩
  by_cases hk : (!bk && cl) = true
  · simp only [hk, if_true]
    simp only [Bool.and_eq_true, Bool.not_eq_true'] at hk
    obtain ⟨rfl, rfl⟩ := hk
    exact getAttr_touch ⟨noFn, raw⟩ (w.lists.length + 8) (start w) r l hl
  · simp only [hk]
    refine getAttr_silent ⟨noFn, raw⟩ (w.lists.length + 8) (start w) r l bk cl hl ?_
    cases bk <;> cases cl <;> simp_all

theorem runMarkObsolete_eq (raw : LObj) (w : World) (hpo : PredOlder w.lists) (r : Nat) (hr : r < w.lists.length) :
    runMarkObsolete raw w r =
      .ok .none { env := [], w := { w with lists := markChain w.lists.length w.lists r }, out := [] } := by
  unfold runMarkObsolete
  rw [call_mark ⟨noFn, raw⟩ r (fuelFor w) (start w) hpo hr (by unfold fuelFor; omega)]
  simp only [start, markChain_fuel hpo r w.lists.length hr]

theorem runNew_eq (raw : LObj) (w : World) (r : Nat) (hr : r < w.lists.length) (ds : List Nat) :
    runNew raw w r ds =
      .ok (.ref w.lists.length)
        { env := [], w := { (touch w r).1 with lists := (touch w r).1.lists ++ [fresh ds (some r)] },
          out := warnOut (touch w r).2 } := by
  obtain ⟨l, hl⟩ : ∃ l, w.lists[r]? = some l := ⟨w.lists[r], List.getElem?_eq_getElem hr⟩
  exact call_new ⟨noFn, raw⟩ (w.lists.length + 6) (start w) r l (.dicts ds) ds hl rfl

theorem runDeepcopy_eq (raw : LObj) (w : World) (r : Nat) (l : LObj) (hl : w.lists[r]? = some l) :
    runDeepcopy raw w r =
      .ok (.ref w.lists.length)
        { env := [],
          w := { lists := (touch w r).1.lists ++ [fresh ((List.range l.items.length).map (· + w.vers.length)) none],
                 vers := w.vers ++ List.replicate l.items.length 0 },
          out := warnOut (touch w r).2 } :=
  call_deepcopy ⟨noFn, raw⟩ (w.lists.length + 6) (start w) r l hl

/-- a generator that leaves the list objects alone (it reads the items, writes into dicts, allocates dicts). -/
def Gen.KeepsLists (g : Gen) : Prop := ∀ r w, (g r w).2.lists = w.lists

theorem genDerive_keeps (keep : List Nat) (extra : Nat) : (genDerive keep extra).KeepsLists := by
  intro r w; unfold genDerive; cases w.lists[r]? <;> rfl
theorem genEditInPlace_keeps (keep : List Nat) : (genEditInPlace keep).KeepsLists := by
  intro r w; unfold genEditInPlace; cases w.lists[r]? <;> rfl
theorem genEditFresh_keeps : genEditFresh.KeepsLists := by
  intro r w; unfold genEditFresh; cases w.lists[r]? <;> rfl

/-- `r.m(…)` for a `@new_from_generator` method `m`: `touch`, the generator, one new object. -/
theorem runDerived_eq (raw : LObj) (w : World) (r : Nat) (hr : r < w.lists.length) (g : Gen) (hg : g.KeepsLists) :
    runDerived raw w r g =
      match g r (touch w r).1 with
      | (some ds, w') =>
        .ok (.ref w.lists.length)
          { env := [], w := { lists := (touch w r).1.lists ++ [fresh ds (some r)], vers := w'.vers },
            out := warnOut (touch w r).2 }
      | (none, w') => .raised { env := [], w := w', out := warnOut (touch w r).2 } := by
  obtain ⟨l, hl⟩ : ∃ l, w.lists[r]? = some l := ⟨w.lists[r], List.getElem?_eq_getElem hr⟩
  obtain ⟨l1, hl1, _, _⟩ := touch_some w r r l hl
  unfold runDerived
  rw [show getAttr (ev ⟨noFn, raw⟩ (fuelFor w)) (.ref r) false true (start w) = _ from
    getAttr_touch ⟨noFn, raw⟩ (w.lists.length + 8) (start w) r l hl]
  simp only [bind_ok, start]
  have hidem := touch_idem w (touch w r).1 r rfl
  rw [show nfgCall raw (fuelFor w) g (.ref r) _ = _ from
    nfgCall_eq raw (w.lists.length + 5) g ⟨[], (touch w r).1, [] ++ warnOut (touch w r).2⟩ r l1 hl1
      (by show (g r (touch (touch w r).1 r).1).2.lists = (touch (touch w r).1 r).1.lists; rw [hidem]; exact hg r _)]
  simp only [nfgResult, hidem, touch_length, List.nil_append, warnOut_false_right]
  have hgl := hg r (touch w r).1
  rcases hgo : g r (touch w r).1 with ⟨o, w'⟩
  rw [hgo] at hgl
  cases o with
  | none => rfl
  | some ds =>
    have hgl' : w'.lists = (touch w r).1.lists := hgl
    simp only [hgl']

/-- `r.m(…)` for an `@obsoletes @new_from_generator` method `m`: `touch`, the generator, one new object, then the
    receiver's chain is marked; if the generator raises nothing is marked. -/
theorem runEditing_eq (raw : LObj) (w : World) (hpo : PredOlder w.lists) (r : Nat) (hr : r < w.lists.length)
    (g : Gen) (hg : g.KeepsLists) :
    runEditing raw w r g =
      match g r (touch w r).1 with
      | (some ds, w') =>
        .ok (.ref w.lists.length)
          { env := [], w := { lists := markChain w.lists.length (touch w r).1.lists r ++ [fresh ds (some r)],
                              vers := w'.vers },
            out := warnOut (touch w r).2 }
      | (none, w') => .raised { env := [], w := w', out := warnOut (touch w r).2 } := by
  obtain ⟨l, hl⟩ : ∃ l, w.lists[r]? = some l := ⟨w.lists[r], List.getElem?_eq_getElem hr⟩
  obtain ⟨l1, hl1, _, _⟩ := touch_some w r r l hl
  unfold runEditing
  rw [show getAttr (ev ⟨noFn, raw⟩ (fuelFor w)) (.ref r) false true (start w) = _ from
    getAttr_touch ⟨noFn, raw⟩ (w.lists.length + 8) (start w) r l hl]
  simp only [bind_ok, start]
  have hidem := touch_idem w (touch w r).1 r rfl
  rw [obsCall_eq raw (fuelFor w) g ⟨[], (touch w r).1, [] ++ warnOut (touch w r).2⟩ r l1 hl1
      (predOlder_touch w r hpo) (by simp only [touch_length, fuelFor]; omega)
      (by show (g r (touch (touch w r).1 r).1).2.lists = (touch (touch w r).1 r).1.lists; rw [hidem]; exact hg r _)]
  simp only [obsResult, hidem, touch_length, List.nil_append, warnOut_false_right]
  have hgl := hg r (touch w r).1
  rcases hgo : g r (touch w r).1 with ⟨o, w'⟩
  rw [hgo] at hgl
  cases o with
  | none => rfl
  | some ds =>
    have hgl' : w'.lists = (touch w r).1.lists := hgl
    simp only [hgl']

theorem runDeepcopyMethod_eq (raw : LObj) (w : World) (r : Nat) (l : LObj) (hl : w.lists[r]? = some l) :
    runDeepcopyMethod raw w r =
      .ok (.ref w.lists.length)
        { env := [],
          w := { lists := (touch w r).1.lists ++ [fresh ((List.range l.items.length).map (· + w.vers.length)) none],
                 vers := w.vers ++ List.replicate l.items.length 0 },
          out := warnOut (touch w r).2 } := by
  obtain ⟨l1, hl1, hit, _⟩ := touch_some w r r l hl
  unfold runDeepcopyMethod
  rw [show getAttr (ev ⟨noFn, raw⟩ (fuelFor w)) (.ref r) false true (start w) = _ from
    getAttr_touch ⟨noFn, raw⟩ (w.lists.length + 8) (start w) r l hl]
  simp only [bind_ok, start]
  have hidem := touch_idem w (touch w r).1 r rfl
  rw [show call (ev ⟨noFn, raw⟩ (fuelFor w)) false ListOfDicts_deepcopy [("self", .ref r)] _ = _ from
    call_deepcopy ⟨noFn, raw⟩ (w.lists.length + 6) ⟨[], (touch w r).1, [] ++ warnOut (touch w r).2⟩ r l1 hl1]
  simp only [hidem, touch_length, touch_vers, List.nil_append, warnOut_false_right, hit]

/-- **one call, executed by the regenerated code, is the model's `step`** — same world, and the warning text is printed
    exactly when the model says so. -/
theorem codeStep_eq (raw : LObj) (w : World) (hpo : PredOlder w.lists) (op : Op) (hr : op.recv < w.lists.length) :
    codeStep raw w op = some ((step w op).1, warnOut (step w op).2) := by
  cases op with
  | use r =>
    have hr' : r < w.lists.length := hr
    simp only [codeStep, runGetattribute_eq raw w r hr', step]
    rfl
  | poke r pos =>
    have hr' : r < w.lists.length := hr
    obtain ⟨l, hl⟩ : ∃ l, w.lists[r]? = some l := ⟨w.lists[r], List.getElem?_eq_getElem hr'⟩
    simp only [codeStep, step, hl, warnOut, Bool.false_eq_true, if_false]
  | derive r keep extra =>
    have hr' : r < w.lists.length := hr
    obtain ⟨l, hl⟩ : ∃ l, w.lists[r]? = some l := ⟨w.lists[r], List.getElem?_eq_getElem hr'⟩
    obtain ⟨l1, hl1, _, _⟩ := touch_some w r r l hl
    simp only [codeStep, runDerived_eq raw w r hr' _ (genDerive_keeps keep extra), step, genDerive, hl1, Res.done, fresh]
  | editInPlace r keep =>
    have hr' : r < w.lists.length := hr
    obtain ⟨l, hl⟩ : ∃ l, w.lists[r]? = some l := ⟨w.lists[r], List.getElem?_eq_getElem hr'⟩
    obtain ⟨l1, hl1, _, _⟩ := touch_some w r r l hl
    simp only [codeStep, runEditing_eq raw w hpo r hr' _ (genEditInPlace_keeps keep), step, genEditInPlace, hl1, Res.done,
      fresh, touch_length]
  | editFresh r =>
    have hr' : r < w.lists.length := hr
    obtain ⟨l, hl⟩ : ∃ l, w.lists[r]? = some l := ⟨w.lists[r], List.getElem?_eq_getElem hr'⟩
    obtain ⟨l1, hl1, _, _⟩ := touch_some w r r l hl
    simp only [codeStep, runEditing_eq raw w hpo r hr' _ genEditFresh_keeps, step, genEditFresh, hl1, Res.done,
      fresh, touch_length]
  | deepcopy r =>
    have hr' : r < w.lists.length := hr
    obtain ⟨l, hl⟩ : ∃ l, w.lists[r]? = some l := ⟨w.lists[r], List.getElem?_eq_getElem hr'⟩
    obtain ⟨l1, hl1, hit, _⟩ := touch_some w r r l hl
    simp only [codeStep, runDeepcopyMethod_eq raw w r l hl, step, hl1, Res.done, fresh, touch_vers, hit]

/-- a call on a reference that is not a list object is not executed (the evaluator has no object to read). -/
theorem codeStep_none (raw : LObj) (w : World) (op : Op) (hr : ¬ op.recv < w.lists.length) :
    codeStep raw w op = none := by
  have hn : w.lists[op.recv]? = none := List.getElem?_eq_none (by omega)
  cases op <;> simp only [Op.recv] at hn <;>
    simp [codeStep, runGetattribute, runDerived, runEditing, runDeepcopyMethod, getAttr, objOf, start, hn, Res.done]

/-- every receiver of the history is a list object at the time of its call. -/
def ValidRecv (w : World) (ops : List Op) : Prop := AllAlong (fun w op => op.recv < w.lists.length) w ops

/-- **the lift**: a whole history executed by the regenerated code is the model's `run`. -/
theorem codeRun_eq (raw : LObj) (ops : List Op) : ∀ (w : World), PredOlder w.lists → ValidRecv w ops →
    codeRun raw w ops = some ((run w ops).map fun p => (warnOut p.1, p.2)) := by
  induction ops with
  | nil => intro w _ _; rfl
  | cons op ops ih =>
    intro w hpo hv
    obtain ⟨h0, h1⟩ := hv
    simp only [codeRun, codeStep_eq raw w hpo op h0, run]
    rw [ih (step w op).1 (step_predOlder w op hpo) h1]
    rfl

/-- `r.__copy__()` = `r._new(r)`: the access `self._new` (`touch`), then one new object holding the SAME dict objects. -/
theorem runCopy_eq (raw : LObj) (w : World) (r : Nat) (l : LObj) (hl : w.lists[r]? = some l) :
    runCopy raw w r =
      .ok (.ref w.lists.length)
        { env := [], w := { (touch w r).1 with lists := (touch w r).1.lists ++ [fresh l.items (some r)] },
          out := warnOut (touch w r).2 } := by
  obtain ⟨l1, hl1, hit, _⟩ := touch_some w r r l hl
  have hidem := touch_idem w (touch w r).1 r rfl
  unfold runCopy fuelFor
  simp only [call, ListOfDicts_copy, seq, Bool.false_eq_true, if_false, bind_ok, start]
  rw [ev_new]
  simp only [ev_self, List.lookup, String.reduceBEq, bind_ok]
  rw [getAttr_touch _ (w.lists.length + 7) _ r l hl]
  simp only [bind_ok, List.lookup, String.reduceBEq]
  rw [call_new _ (w.lists.length + 5) _ r l1 (.ref r) l1.items hl1 (by simp only [asDicts, hl1, Option.map_some])]
  simp only [leave_ok, hidem, touch_length, List.nil_append, warnOut_false_right, hit]

/-! ### observers of a code-level history -/

/-- how often the warning text is printed by calls on the list `r` along a history executed by the regenerated code. -/
def codeWarnCount (raw : LObj) (r : Nat) : World → List Op → Option Nat
  | _, [] => some 0
  | w, op :: ops =>
    match codeStep raw w op with
    | none => none
    | some (w', printed) =>
      (codeWarnCount raw r w' ops).map fun k =>
        (if printed.contains warningText && decide (op.recv = r) then 1 else 0) + k

theorem warnOut_contains (b : Bool) : (warnOut b).contains warningText = b := by
  cases b <;> simp [warnOut]

theorem codeFinal_eq (raw : LObj) (ops : List Op) : ∀ (w : World), PredOlder w.lists → ValidRecv w ops →
    codeFinal raw w ops = some (runFinal w ops) := by
  induction ops with
  | nil => intro w _ _; rfl
  | cons op ops ih =>
    intro w hpo hv
    obtain ⟨h0, h1⟩ := hv
    simp only [codeFinal, codeStep_eq raw w hpo op h0, runFinal_cons]
    exact ih (step w op).1 (step_predOlder w op hpo) h1

theorem codeWarnCount_eq (raw : LObj) (r : Nat) (ops : List Op) : ∀ (w : World), PredOlder w.lists → ValidRecv w ops →
    codeWarnCount raw r w ops = some (warnCount r w ops) := by
  induction ops with
  | nil => intro w _ _; rfl
  | cons op ops ih =>
    intro w hpo hv
    obtain ⟨h0, h1⟩ := hv
    simp only [codeWarnCount, codeStep_eq raw w hpo op h0, warnCount, warnOut_contains]
    rw [ih (step w op).1 (step_predOlder w op hpo) h1]
    rfl

theorem validRecv_iff (w : World) (ops : List Op) :
    ValidRecv w ops ↔ ∀ pre op post, ops = pre ++ op :: post → op.recv < (runFinal w pre).lists.length :=
  allAlong_iff _ ops w

/-- the code-level history is defined exactly on the histories whose receivers exist. -/
theorem codeFinal_isSome_iff (raw : LObj) (ops : List Op) : ∀ (w : World), PredOlder w.lists →
    ((codeFinal raw w ops).isSome = true ↔ ValidRecv w ops) := by
  induction ops with
  | nil => intro w _; simp [codeFinal, ValidRecv, AllAlong]
  | cons op ops ih =>
    intro w hpo
    by_cases h0 : op.recv < w.lists.length
    · simp only [codeFinal, codeStep_eq raw w hpo op h0, ValidRecv, AllAlong, h0, true_and]
      exact ih (step w op).1 (step_predOlder w op hpo)
    · simp [codeFinal, codeStep_none raw w op h0, ValidRecv, AllAlong, h0]

/-! ### `_mark_obsolete`, pointwise -/

theorem markChain_pointwise (w : World) (hpo : PredOlder w.lists) (r i : Nat) (l : LObj) (h : w.lists[i]? = some l) :
    ∃ l', (markChain w.lists.length w.lists r)[i]? = some l' ∧ l'.items = l.items ∧ l'.pred = l.pred ∧
      l'.warned = l.warned ∧ (l'.obsolete = true ↔ (l.obsolete = true ∨ Anc w.lists i r)) := by
  refine ⟨{ l with obsolete := l.obsolete || decide (i ∈ chain w.lists.length w.lists r) },
    by rw [markChain_get, h]; rfl, rfl, rfl, rfl, ?_⟩
  simp only [Bool.or_eq_true, decide_eq_true_eq, mem_chain_iff_anc hpo i r]

/-! ### the tests the eight functions make are tests the evaluator knows -/

theorem init_tests_known (c : Cfg) (d : Bool) (h : c.env.lookup "as_is" = some .tt ∨ c.env.lookup "as_is" = some .ff) :
    ListOfDicts_init (truthOf d c) = ListOfDicts_init (truthOf false c) := by
  rcases h with h | h <;> simp [ListOfDicts_init, truthOf, h]

theorem mark_obsolete_tests_known (c : Cfg) (d : Bool) (l : LObj) (h : (c.env.lookup "self").bind (objOf c) = some l) :
    ListOfDicts_mark_obsolete (truthOf d c) = ListOfDicts_mark_obsolete (truthOf false c) := by
  simp [ListOfDicts_mark_obsolete, truthOf, h]

theorem getattribute_tests_known (c : Cfg) (d : Bool) (l : LObj) (bk cl : Bool)
    (h : (c.env.lookup "self").bind (objOf c) = some l) (hn : c.env.lookup "name" = some (.kind bk cl)) :
    ListOfDicts_getattribute (truthOf d c) = ListOfDicts_getattribute (truthOf false c) := by
  simp [ListOfDicts_getattribute, truthOf, h, hn]

/-- an access to a list that is not obsolete, or has warned already, does nothing. -/
theorem touch_noop (w : World) (r : Nat) (l : LObj) (hl : w.lists[r]? = some l)
    (h : l.obsolete = false ∨ l.warned = true) : touch w r = (w, false) := by
  rw [touch_of_some w r l hl]
  rcases h with h | h <;> simp [h]

theorem validRecv_prefix (w : World) (pre rest : List Op) (h : ValidRecv w (pre ++ rest)) : ValidRecv w pre := by
  rw [validRecv_iff] at h ⊢
  intro p op post e
  exact h p op (post ++ rest) (by rw [e]; simp)

/-- clause 1 of C17 for the code-level execution: along a history run by the regenerated code from a clean world whose
    predecessors are older, a list is obsolete at the end iff some `@obsoletes` call was made on it or on a descendant. -/
theorem code_obsolete_iff (raw : LObj) (w : World) (hpo : PredOlder w.lists) (hclean : ∀ j, isObs w j = false)
    (ops : List Op) (hv : ValidRecv w ops) (i : Nat) :
    ∃ wf, codeFinal raw w ops = some wf ∧
      (isObs wf i = true ↔
        ∃ pre op post wpre, ops = pre ++ op :: post ∧ op.isEdit = true ∧
          codeFinal raw w pre = some wpre ∧ Anc wpre.lists i op.recv) := by
  refine ⟨_, codeFinal_eq raw ops w hpo hv, ?_⟩
  rw [obsolete_iff_clean w hpo hclean ops i]
  constructor
  · rintro ⟨pre, op, post, e, he, ha⟩
    exact ⟨pre, op, post, _, e, he, codeFinal_eq raw pre w hpo (validRecv_prefix w pre (op :: post) (e ▸ hv)), ha⟩
  · rintro ⟨pre, op, post, wpre, e, he, hc, ha⟩
    rw [codeFinal_eq raw pre w hpo (validRecv_prefix w pre (op :: post) (e ▸ hv))] at hc
    cases hc
    exact ⟨pre, op, post, e, he, ha⟩

/-- `__getattribute__` on a callable, non-bookkeeping attribute, by cases on the flags of the list. -/
theorem runGetattribute_cases (raw : LObj) (w : World) (r : Nat) (l : LObj) (hl : w.lists[r]? = some l) :
    (l.obsolete = true ∧ l.warned = false →
      runGetattribute raw w r false true =
        .ok .opaque { env := [], w := { w with lists := w.lists.set r { l with warned := true } }, out := [warningText] }) ∧
    (l.obsolete = false ∨ l.warned = true →
      runGetattribute raw w r false true = .ok .opaque { env := [], w := w, out := [] }) := by
  have hr := (List.getElem?_eq_some_iff.mp hl).1
  constructor
  · rintro ⟨ho, hw⟩
    rw [runGetattribute_eq raw w r hr, touch_of_some w r l hl]
    simp [ho, hw, warnOut]
  · intro h
    rw [runGetattribute_eq raw w r hr, touch_noop w r l hl h]
    simp [warnOut]

end DI.PyEvalObs

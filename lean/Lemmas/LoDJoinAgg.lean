/-
  Lemmas/LoDJoinAgg.lean — C16, second half: `ListOfDicts.full_join` and
  `ListOfDicts.aggregate` (model functions `LoD.fullJoin`, `LoD.aggregate`).
-/
import Model.LoD
import Lemmas.Sort
import Lemmas.LoD

namespace DI

/-! ### generic: index sort + gather is the stable merge sort of the values -/

theorem gather_argsort_map {α β : Type} [Inhabited α] (le : β → β → Bool) (f : α → β) (xs : List α) :
    gather xs (argsort le (xs.map f)) = xs.mergeSort (fun a b => le (f a) (f b)) := by
  unfold gather argsort sortPairs
  have hz : (xs.map f).zipIdx = xs.zipIdx.map (fun p => (f p.1, p.2)) := by
    rw [List.zipIdx_map]; rfl
  rw [hz]
  rw [← List.map_mergeSort (r := fun p q => le (f p.1) (f q.1)) (f := fun p : α × Nat => (f p.1, p.2))
    (fun a _ b _ => rfl)]
  rw [List.map_map, List.map_map]
  have h1 : (xs.zipIdx.mergeSort (fun p q => le (f p.1) (f q.1))).map
      ((fun i => xs[i]!) ∘ (fun x : β × Nat => x.2) ∘ fun p : α × Nat => (f p.1, p.2))
      = (xs.zipIdx.mergeSort (fun p q => le (f p.1) (f q.1))).map (·.1) := by
    apply List.map_congr_left
    intro p hp
    have hp' : p ∈ xs.zipIdx := (List.mergeSort_perm _ _).mem_iff.mp hp
    rcases p with ⟨x, i⟩
    have := List.mem_zipIdx hp'
    simp at this
    obtain ⟨h1, h2⟩ := this
    simp [h2, h1]
  refine (h1 : _ = _).trans ?_
  rw [List.map_mergeSort (s := fun a b => le (f a) (f b)) (fun a _ b _ => rfl)]
  rw [List.zipIdx_map_fst]

theorem gather_argsort {α : Type} [Inhabited α] (le : α → α → Bool) (xs : List α) :
    gather xs (argsort le xs) = xs.mergeSort le := by
  have := gather_argsort_map le id xs
  simpa using this

/-! ### generic: a stable sort leaves every class of tied elements untouched -/

theorem mergeSort_filter_eq {α : Type} {le : α → α → Bool} (h : PreOrd le) (P : α → Bool) (xs : List α)
    (hP : ∀ a b, P a → P b → le a b) :
    (xs.mergeSort le).filter P = xs.filter P := by
  have hsub : (xs.filter P).Sublist (xs.mergeSort le) := by
    apply List.sublist_mergeSort h.trans h.total
    · apply List.Pairwise.imp_of_mem (R := fun _ _ => True)
      · intro a b ha hb _
        exact hP a b (by simpa using (List.mem_filter.mp ha).2) (by simpa using (List.mem_filter.mp hb).2)
      · exact List.pairwise_of_forall (fun _ _ => trivial)
    · exact List.filter_sublist
  have hsub2 : (xs.filter P).Sublist ((xs.mergeSort le).filter P) := by
    have := hsub.filter P
    simpa using this
  have hlen : ((xs.mergeSort le).filter P).length = (xs.filter P).length :=
    ((List.mergeSort_perm xs le).filter P).length_eq
  exact (hsub2.eq_of_length hlen.symm).symm

/-- one pass of a stable sort refines the order already present: afterwards the list is ordered
    by the new key, and tied elements are still in their previous order. -/
theorem mergeSort_lex_step {α : Type} {le : α → α → Bool} (h : PreOrd le) (R : α → α → Prop)
    (xs : List α) (hR : xs.Pairwise R) :
    (xs.mergeSort le).Pairwise (fun a b => le a b ∧ (le b a → R a b)) := by
  rw [List.pairwise_iff_forall_sublist]
  intro a b hab
  have hs := List.pairwise_mergeSort h.trans h.total xs
  have hle : le a b := (List.pairwise_iff_forall_sublist.mp hs) hab
  refine ⟨hle, fun hba => ?_⟩
  let P : α → Bool := fun c => le a c && le c a
  have hPa : P a = true := by simp [P, h.refl a]
  have hPb : P b = true := by simp [P, hle, hba]
  have hf := mergeSort_filter_eq h P xs (by
    intro c d hc hd
    simp only [P, Bool.and_eq_true] at hc hd
    exact h.trans c a d hc.2 hd.1)
  have h1 : ([a, b].filter P).Sublist ((xs.mergeSort le).filter P) := hab.filter P
  rw [hf] at h1
  have h2 : [a, b].filter P = [a, b] := by simp [hPa, hPb]
  rw [h2] at h1
  exact (List.pairwise_iff_forall_sublist.mp hR) (h1.trans List.filter_sublist)

namespace LoD

/-! ### full_join: the pieces of the model function, named -/

/-- `ab`: the left join of `a` with `b`, one row per left item. -/
def fjAB (xs other : List Item) (by1 by2 : List String) : List Pair :=
  xs.zipIdx.map (fun (it, i) =>
    match (other.zipIdx.find? (fun q => extract by2 q.1 == extract by1 it)) with
    | some (m, j) => { l := some i, r := some j, kv := it.kv.update (nonKey m.kv by2) }
    | none => { l := some i, r := none, kv := it.kv })

/-- the `_bid_` values used by `ab`. -/
def fjUsed (xs other : List Item) (by1 by2 : List String) : List Nat :=
  (fjAB xs other by1 by2).filterMap (·.r)

/-- the right items that were not joined into `ab` (`b.anti_join(ab, "_bid_")`). -/
def fjRest (xs other : List Item) (by1 by2 : List String) : List (Item × Nat) :=
  other.zipIdx.filter (fun q => !(fjUsed xs other by1 by2).contains q.2)

/-- `ba`: the left join of the remaining right items with `a`. -/
def fjBA (xs other : List Item) (by1 by2 : List String) : List Pair :=
  (fjRest xs other by1 by2).map (fun (it, j) =>
    match (xs.zipIdx.find? (fun q => extract by1 q.1 == extract by2 it)) with
    | some (m, i) => { l := some i, r := some j, kv := it.kv.update (nonKey m.kv by1) }
    | none => { l := none, r := some j, kv := it.kv })

/-- ids with the bogus id (`none`) last. -/
def optLe : Option Nat → Option Nat → Bool
  | some a, some b => a ≤ b
  | some _, none => true
  | none, some _ => false
  | none, none => true

/-- the order of `sort(_aid_=1, _bid_=1)`: by left id, then right id, missing ids last. -/
def pairLe (p q : Pair) : Bool := if p.l = q.l then optLe p.r q.r else optLe p.l q.l

/-- the comparison as written in the model. -/
def fjLeModel (p q : Pair) : Bool :=
  let key (o : Option Nat) : Nat × Nat := match o with | some v => (0, v) | none => (1, 0)
  let (a1, a2) := key p.l; let (b1, b2) := key q.l
  let (c1, c2) := key p.r; let (d1, d2) := key q.r
  if (a1, a2) == (b1, b2) then (c1 < d1 || (c1 == d1 && c2 ≤ d2)) else (a1 < b1 || (a1 == b1 && a2 ≤ b2))

theorem fjLeModel_eq : fjLeModel = pairLe := by
  funext p q
  rcases p with ⟨pl, pr, pk⟩
  rcases q with ⟨ql, qr, qk⟩
  cases pl <;> cases ql <;> cases pr <;> cases qr <;> simp [fjLeModel, pairLe, optLe]

theorem fullJoin_unfold (xs other : List Item) (by1 by2 : List String) :
    fullJoin xs other by1 by2 =
      if (fjRest xs other by1 by2).isEmpty then fjAB xs other by1 by2
      else gather (fjAB xs other by1 by2 ++ fjBA xs other by1 by2)
        (argsort fjLeModel (fjAB xs other by1 by2 ++ fjBA xs other by1 by2)) := rfl

theorem fullJoin_eq (xs other : List Item) (by1 by2 : List String) :
    fullJoin xs other by1 by2 =
      if (fjRest xs other by1 by2).isEmpty then fjAB xs other by1 by2
      else (fjAB xs other by1 by2 ++ fjBA xs other by1 by2).mergeSort pairLe := by
  rw [fullJoin_unfold, gather_argsort, fjLeModel_eq]

/-! ### the order -/

theorem optLe_total (a b : Option Nat) : optLe a b || optLe b a := by
  cases a <;> cases b <;> simp [optLe]; omega

theorem optLe_trans (a b c : Option Nat) : optLe a b → optLe b c → optLe a c := by
  cases a <;> cases b <;> cases c <;> simp [optLe]; omega

theorem optLe_antisymm (a b : Option Nat) : optLe a b → optLe b a → a = b := by
  cases a <;> cases b <;> simp [optLe]; omega

theorem optLe_refl (a : Option Nat) : optLe a a := by cases a <;> simp [optLe]

theorem pairLe_pre : PreOrd pairLe := by
  constructor
  · intro p q
    unfold pairLe
    by_cases h : p.l = q.l
    · simp only [h, if_true]; exact optLe_total _ _
    · have h' : ¬ q.l = p.l := fun e => h e.symm
      simp only [h, h', if_false]; exact optLe_total _ _
  · intro p q r
    rcases p with ⟨pl, pr, pk⟩
    rcases q with ⟨ql, qr, qk⟩
    rcases r with ⟨rl, rr, rk⟩
    simp only [pairLe]
    by_cases h1 : pl = ql <;> by_cases h2 : ql = rl
    · subst h1; subst h2
      simp only [if_true]; exact optLe_trans _ _ _
    · subst h1
      simp only [h2, if_true, if_false]; intro _ h; exact h
    · subst h2
      simp only [h1, if_true, if_false]; intro h _; exact h
    · simp only [h1, h2, if_false]
      intro ha hb
      have hc := optLe_trans _ _ _ ha hb
      by_cases h3 : pl = rl
      · exfalso
        subst h3
        exact h1 (optLe_antisymm _ _ ha hb)
      · simp only [h3, if_false]; exact hc

/-- two rows tied in the order carry the same pair of ids. -/
theorem pairLe_antisymm (p q : Pair) (h1 : pairLe p q) (h2 : pairLe q p) : p.l = q.l ∧ p.r = q.r := by
  unfold pairLe at h1 h2
  by_cases h : p.l = q.l
  · simp only [h, if_true] at h1 h2
    exact ⟨h, optLe_antisymm _ _ h1 h2⟩
  · have h' : ¬ q.l = p.l := fun e => h e.symm
    simp only [h, h', if_false] at h1 h2
    exact absurd (optLe_antisymm _ _ h1 h2) h

/-! ### first match in an indexed list -/

theorem find_zipIdx_some {α : Type} (P : α → Bool) (l : List α) (m : α) (j : Nat)
    (h : l.zipIdx.find? (fun q => P q.1) = some (m, j)) :
    ∃ hj : j < l.length, l[j] = m ∧ P m = true ∧
      ∀ j' (hj' : j' < l.length), P l[j'] = true → j ≤ j' := by
  rw [List.find?_eq_some_iff_getElem] at h
  obtain ⟨hp, i, hi, hget, hmin⟩ := h
  simp only [List.length_zipIdx] at hi
  simp only [List.getElem_zipIdx, Nat.zero_add, Prod.mk.injEq] at hget
  obtain ⟨hget, rfl⟩ := hget
  refine ⟨hi, hget, hp, ?_⟩
  intro j' hj' hP
  apply Nat.le_of_not_lt
  intro hlt
  have := hmin j' hlt
  simp [hP] at this

theorem find_zipIdx_none {α : Type} (P : α → Bool) (l : List α)
    (h : l.zipIdx.find? (fun q => P q.1) = none) : ∀ x ∈ l, P x = false := by
  intro x hx
  rw [List.find?_eq_none] at h
  obtain ⟨j, hj, rfl⟩ := List.getElem_of_mem hx
  have := h (l[j], j) (by rw [List.mk_mem_zipIdx_iff_getElem?]; simp [hj])
  simpa using this

theorem find_zipIdx_fst {α : Type} (P : α → Bool) (l : List α) (n : Nat) :
    ((l.zipIdx n).find? (fun q => P q.1)).map (·.1) = l.find? P := by
  induction l generalizing n with
  | nil => simp
  | cons x xs ih =>
    simp only [List.zipIdx_cons, List.find?_cons]
    cases h : P x
    · simp only []; exact ih (n + 1)
    · simp

/-! ### the rows of `ab` and `ba` -/

def abRow (other : List Item) (by1 by2 : List String) (it : Item) (i : Nat) : Pair :=
  match (other.zipIdx.find? (fun q => extract by2 q.1 == extract by1 it)) with
  | some (m, j) => { l := some i, r := some j, kv := it.kv.update (nonKey m.kv by2) }
  | none => { l := some i, r := none, kv := it.kv }

def baRow (xs : List Item) (by1 by2 : List String) (it : Item) (j : Nat) : Pair :=
  match (xs.zipIdx.find? (fun q => extract by1 q.1 == extract by2 it)) with
  | some (m, i) => { l := some i, r := some j, kv := it.kv.update (nonKey m.kv by1) }
  | none => { l := none, r := some j, kv := it.kv }

theorem fjAB_eq (xs other : List Item) (by1 by2 : List String) :
    fjAB xs other by1 by2 = xs.zipIdx.map (fun q => abRow other by1 by2 q.1 q.2) := rfl

theorem fjBA_eq (xs other : List Item) (by1 by2 : List String) :
    fjBA xs other by1 by2 = (fjRest xs other by1 by2).map (fun q => baRow xs by1 by2 q.1 q.2) := rfl

theorem abRow_l (other : List Item) (by1 by2 : List String) (it : Item) (i : Nat) :
    (abRow other by1 by2 it i).l = some i := by
  unfold abRow; split <;> rfl

theorem baRow_r (xs : List Item) (by1 by2 : List String) (it : Item) (j : Nat) :
    (baRow xs by1 by2 it j).r = some j := by
  unfold baRow; split <;> rfl

/-- the right id of an `ab` row is the FIRST right position with equal key values. -/
theorem abRow_r_some (other : List Item) (by1 by2 : List String) (it : Item) (i j : Nat)
    (h : (abRow other by1 by2 it i).r = some j) :
    ∃ hj : j < other.length, extract by2 other[j] = extract by1 it ∧
      ∀ j' (hj' : j' < other.length), extract by2 other[j'] = extract by1 it → j ≤ j' := by
  unfold abRow at h
  split at h
  · rename_i m j0 hf
    simp only [Option.some.injEq] at h
    subst h
    obtain ⟨hj, hget, hp, hmin⟩ := find_zipIdx_some (fun x => extract by2 x == extract by1 it) other m j0 hf
    refine ⟨hj, ?_, ?_⟩
    · rw [hget]; simpa using hp
    · intro j' hj' he; exact hmin j' hj' (by simpa using he)
  · simp at h

theorem abRow_r_none (other : List Item) (by1 by2 : List String) (it : Item) (i : Nat)
    (h : (abRow other by1 by2 it i).r = none) :
    ∀ x ∈ other, extract by2 x ≠ extract by1 it := by
  unfold abRow at h
  split at h
  · simp at h
  · rename_i hf
    intro x hx
    have := find_zipIdx_none (fun x => extract by2 x == extract by1 it) other hf x hx
    simpa using this

theorem baRow_l_some (xs : List Item) (by1 by2 : List String) (it : Item) (i j : Nat)
    (h : (baRow xs by1 by2 it j).l = some i) :
    ∃ hi : i < xs.length, extract by1 xs[i] = extract by2 it := by
  unfold baRow at h
  split at h
  · rename_i m i0 hf
    simp only [Option.some.injEq] at h
    subst h
    obtain ⟨hi, hget, hp, _⟩ := find_zipIdx_some (fun x => extract by1 x == extract by2 it) xs m i0 hf
    refine ⟨hi, ?_⟩
    rw [hget]; simpa using hp
  · simp at h

/-- the merged content of an `ab` row is what `left_join` produces for that left item. -/
theorem abRow_kv (other : List Item) (by1 by2 : List String) (it : Item) (i : Nat) :
    (abRow other by1 by2 it i).kv =
      (match lookupRev other by2 (extract by1 it) with
       | some m => { it with kv := it.kv.update (nonKey m.kv by2) }
       | none => it).kv := by
  rw [lookupRev_eq_find, ← find_zipIdx_fst (fun x => extract by2 x == extract by1 it) other 0]
  unfold abRow
  cases h : List.find? (fun q => extract by2 q.1 == extract by1 it) other.zipIdx with
  | none => simp
  | some q => rcases q with ⟨m, j⟩; simp

theorem mem_fjAB {xs other : List Item} {by1 by2 : List String} {p : Pair} :
    p ∈ fjAB xs other by1 by2 ↔ ∃ i, ∃ hi : i < xs.length, p = abRow other by1 by2 xs[i] i := by
  rw [fjAB_eq, List.mem_map]
  constructor
  · rintro ⟨⟨it, i⟩, hq, rfl⟩
    obtain ⟨hi, he⟩ := List.mem_zipIdx' hq
    exact ⟨i, hi, by rw [he]⟩
  · rintro ⟨i, hi, rfl⟩
    exact ⟨(xs[i], i), by rw [List.mk_mem_zipIdx_iff_getElem?]; simp [hi], rfl⟩

theorem mem_fjUsed {xs other : List Item} {by1 by2 : List String} {j : Nat} :
    j ∈ fjUsed xs other by1 by2 ↔ ∃ p ∈ fjAB xs other by1 by2, p.r = some j := by
  simp [fjUsed, List.mem_filterMap]

theorem mem_fjBA {xs other : List Item} {by1 by2 : List String} {p : Pair} :
    p ∈ fjBA xs other by1 by2 ↔
      ∃ j, ∃ hj : j < other.length, j ∉ fjUsed xs other by1 by2 ∧ p = baRow xs by1 by2 other[j] j := by
  rw [fjBA_eq, List.mem_map]
  constructor
  · rintro ⟨⟨it, j⟩, hq, rfl⟩
    simp only [fjRest, List.mem_filter] at hq
    obtain ⟨hj, he⟩ := List.mem_zipIdx' hq.1
    exact ⟨j, hj, by simpa using hq.2, by rw [he]⟩
  · rintro ⟨j, hj, hu, rfl⟩
    refine ⟨(other[j], j), ?_, rfl⟩
    simp only [fjRest, List.mem_filter]
    exact ⟨by rw [List.mk_mem_zipIdx_iff_getElem?]; simp [hj], by simpa using hu⟩

/-- the result is a rearrangement of `ab ++ ba`. -/
theorem fullJoin_perm (xs other : List Item) (by1 by2 : List String) :
    (fullJoin xs other by1 by2).Perm (fjAB xs other by1 by2 ++ fjBA xs other by1 by2) := by
  rw [fullJoin_eq]
  split
  · rename_i h
    have : fjBA xs other by1 by2 = [] := by
      rw [fjBA_eq]; simp only [List.isEmpty_iff] at h; simp [h]
    simp [this]
  · exact List.mergeSort_perm _ _

theorem mem_fullJoin {xs other : List Item} {by1 by2 : List String} {p : Pair} :
    p ∈ fullJoin xs other by1 by2 ↔ p ∈ fjAB xs other by1 by2 ∨ p ∈ fjBA xs other by1 by2 := by
  rw [(fullJoin_perm xs other by1 by2).mem_iff, List.mem_append]

/-! ### full_join: the theorems -/

/-- every left item occurs (its `ab` row). -/
theorem fullJoin_keeps_left (xs other : List Item) (by1 by2 : List String) (i : Nat) (hi : i < xs.length) :
    ∃ p ∈ fullJoin xs other by1 by2, p.l = some i :=
  ⟨abRow other by1 by2 xs[i] i, mem_fullJoin.mpr (Or.inl (mem_fjAB.mpr ⟨i, hi, rfl⟩)), abRow_l _ _ _ _ _⟩

/-- every right item occurs: in an `ab` row if some left item matched it first, otherwise in
    its own `ba` row. -/
theorem fullJoin_keeps_right (xs other : List Item) (by1 by2 : List String) (j : Nat) (hj : j < other.length) :
    ∃ p ∈ fullJoin xs other by1 by2, p.r = some j := by
  by_cases hu : j ∈ fjUsed xs other by1 by2
  · obtain ⟨p, hp, hr⟩ := mem_fjUsed.mp hu
    exact ⟨p, mem_fullJoin.mpr (Or.inl hp), hr⟩
  · exact ⟨baRow xs by1 by2 other[j] j, mem_fullJoin.mpr (Or.inr (mem_fjBA.mpr ⟨j, hj, hu, rfl⟩)),
      baRow_r _ _ _ _ _⟩

/-- ids are real positions, and a row with both ids joins items with EQUAL key values. -/
theorem fullJoin_equal_keys (xs other : List Item) (by1 by2 : List String) (p : Pair)
    (hp : p ∈ fullJoin xs other by1 by2) (i j : Nat) (hl : p.l = some i) (hr : p.r = some j) :
    ∃ (hi : i < xs.length) (hj : j < other.length), extract by1 xs[i] = extract by2 other[j] := by
  rcases mem_fullJoin.mp hp with h | h
  · obtain ⟨i', hi', rfl⟩ := mem_fjAB.mp h
    rw [abRow_l] at hl
    simp only [Option.some.injEq] at hl
    subst hl
    obtain ⟨hj, he, _⟩ := abRow_r_some _ _ _ _ _ _ hr
    exact ⟨hi', hj, he.symm⟩
  · obtain ⟨j', hj', _, rfl⟩ := mem_fjBA.mp h
    rw [baRow_r] at hr
    simp only [Option.some.injEq] at hr
    subst hr
    obtain ⟨hi, he⟩ := baRow_l_some _ _ _ _ _ _ hl
    exact ⟨hi, hj', he⟩

theorem fullJoin_left_id_lt (xs other : List Item) (by1 by2 : List String) (p : Pair)
    (hp : p ∈ fullJoin xs other by1 by2) (i : Nat) (hl : p.l = some i) : i < xs.length := by
  rcases mem_fullJoin.mp hp with h | h
  · obtain ⟨i', hi', rfl⟩ := mem_fjAB.mp h
    rw [abRow_l] at hl
    simp only [Option.some.injEq] at hl
    omega
  · obtain ⟨j', hj', _, rfl⟩ := mem_fjBA.mp h
    exact (baRow_l_some _ _ _ _ _ _ hl).1

theorem fullJoin_right_id_lt (xs other : List Item) (by1 by2 : List String) (p : Pair)
    (hp : p ∈ fullJoin xs other by1 by2) (j : Nat) (hr : p.r = some j) : j < other.length := by
  rcases mem_fullJoin.mp hp with h | h
  · obtain ⟨i', hi', rfl⟩ := mem_fjAB.mp h
    exact (abRow_r_some _ _ _ _ _ _ hr).1
  · obtain ⟨j', hj', _, rfl⟩ := mem_fjBA.mp h
    rw [baRow_r] at hr
    simp only [Option.some.injEq] at hr
    omega

/-- no row is without ids. -/
theorem fullJoin_has_id (xs other : List Item) (by1 by2 : List String) (p : Pair)
    (hp : p ∈ fullJoin xs other by1 by2) : p.l ≠ none ∨ p.r ≠ none := by
  rcases mem_fullJoin.mp hp with h | h
  · obtain ⟨i', hi', rfl⟩ := mem_fjAB.mp h
    left; rw [abRow_l]; simp
  · obtain ⟨j', hj', _, rfl⟩ := mem_fjBA.mp h
    right; rw [baRow_r]; simp

theorem fjAB_getElem (xs other : List Item) (by1 by2 : List String) (a : Nat)
    (ha : a < (fjAB xs other by1 by2).length) :
    (fjAB xs other by1 by2)[a] =
      abRow other by1 by2 (xs[a]'(by simpa [fjAB_eq] using ha)) a := by
  simp [fjAB_eq]

theorem fjAB_length (xs other : List Item) (by1 by2 : List String) :
    (fjAB xs other by1 by2).length = xs.length := by simp [fjAB_eq]

theorem fjAB_sorted (xs other : List Item) (by1 by2 : List String) :
    (fjAB xs other by1 by2).Pairwise (fun p q => pairLe p q) := by
  rw [List.pairwise_iff_getElem]
  intro a b ha hb hab
  rw [fjAB_getElem, fjAB_getElem]
  unfold pairLe
  rw [abRow_l, abRow_l]
  have : ¬ a = b := by omega
  simp [optLe, this]; omega

/-- the result is ordered by (left id, right id), missing ids last. -/
theorem fullJoin_sorted (xs other : List Item) (by1 by2 : List String) :
    (fullJoin xs other by1 by2).Pairwise (fun p q => pairLe p q) := by
  rw [fullJoin_eq]
  split
  · exact fjAB_sorted xs other by1 by2
  · exact List.pairwise_mergeSort pairLe_pre.trans pairLe_pre.total _

/-- no two rows carry the same pair of ids. -/
theorem fjAll_ids_distinct (xs other : List Item) (by1 by2 : List String) :
    (fjAB xs other by1 by2 ++ fjBA xs other by1 by2).Pairwise (fun p q => ¬ (p.l = q.l ∧ p.r = q.r)) := by
  rw [List.pairwise_append]
  refine ⟨?_, ?_, ?_⟩
  · rw [List.pairwise_iff_getElem]
    intro a b ha hb hab
    rw [fjAB_getElem, fjAB_getElem, abRow_l, abRow_l]
    simp; omega
  · rw [fjBA_eq, List.pairwise_map]
    have hz : (other.zipIdx).Pairwise (fun a b => a.2 ≠ b.2) := by
      rw [List.pairwise_iff_getElem]
      intro a b ha hb hab
      simp only [List.getElem_zipIdx]; omega
    refine (hz.filter _).imp ?_
    intro a b hne
    rw [baRow_r, baRow_r]
    simp [hne]
  · intro p hp q hq ⟨_, hr⟩
    obtain ⟨j, hj, hu, rfl⟩ := mem_fjBA.mp hq
    rw [baRow_r] at hr
    exact hu (mem_fjUsed.mpr ⟨p, hp, hr⟩)

theorem fullJoin_ids_distinct (xs other : List Item) (by1 by2 : List String) :
    (fullJoin xs other by1 by2).Pairwise (fun p q => ¬ (p.l = q.l ∧ p.r = q.r)) := by
  refine ((fullJoin_perm xs other by1 by2).pairwise_iff ?_).mpr (fjAll_ids_distinct xs other by1 by2)
  intro p q h ⟨h1, h2⟩
  exact h ⟨h1.symm, h2.symm⟩

/-- strictly ordered: every row is strictly before all later rows. -/
theorem fullJoin_strict_sorted (xs other : List Item) (by1 by2 : List String) :
    (fullJoin xs other by1 by2).Pairwise (fun p q => pairLe p q = true ∧ pairLe q p = false) := by
  have h1 := fullJoin_sorted xs other by1 by2
  have h2 := fullJoin_ids_distinct xs other by1 by2
  refine (h1.and h2).imp ?_
  intro p q ⟨hle, hne⟩
  refine ⟨hle, ?_⟩
  cases h : pairLe q p
  · rfl
  · exact absurd (pairLe_antisymm p q hle h) hne

/-- the first row of a left item is its `ab` row: the left join row. -/
theorem fullJoin_find_left (xs other : List Item) (by1 by2 : List String) (i : Nat) (hi : i < xs.length) :
    (fullJoin xs other by1 by2).find? (fun p => p.l == some i) = some (abRow other by1 by2 xs[i] i) := by
  have hq : abRow other by1 by2 xs[i] i ∈ fullJoin xs other by1 by2 :=
    mem_fullJoin.mpr (Or.inl (mem_fjAB.mpr ⟨i, hi, rfl⟩))
  have hql := abRow_l other by1 by2 xs[i] i
  cases hf : (fullJoin xs other by1 by2).find? (fun p => p.l == some i) with
  | none =>
    rw [List.find?_eq_none] at hf
    have := hf _ hq
    simp [hql] at this
  | some p =>
    rw [List.find?_eq_some_iff_append] at hf
    obtain ⟨hpl, as, bs, hL, has⟩ := hf
    have hpl' : p.l = some i := by simpa using hpl
    have hp : p ∈ fullJoin xs other by1 by2 := by rw [hL]; simp
    congr 1
    rcases mem_fullJoin.mp hp with h | h
    · obtain ⟨i', hi', rfl⟩ := mem_fjAB.mp h
      rw [abRow_l] at hpl'
      simp only [Option.some.injEq] at hpl'
      subst hpl'
      rfl
    · exfalso
      obtain ⟨j, hj, hu, rfl⟩ := mem_fjBA.mp h
      obtain ⟨_, hkey⟩ := baRow_l_some _ _ _ _ _ _ hpl'
      -- the ab row of `i` has a right id `j' < j`
      cases hr : (abRow other by1 by2 xs[i] i).r with
      | none =>
        exact abRow_r_none _ _ _ _ _ hr other[j] (List.getElem_mem hj) hkey.symm
      | some j' =>
        obtain ⟨hj', _, hmin⟩ := abRow_r_some _ _ _ _ _ _ hr
        have hle : j' ≤ j := hmin j hj hkey.symm
        have hne : j' ≠ j := by
          rintro rfl
          exact hu (mem_fjUsed.mpr ⟨_, mem_fjAB.mpr ⟨i, hi, rfl⟩, hr⟩)
        -- where is the ab row in the result?
        have hmem : abRow other by1 by2 xs[i] i ∈ as ++ baRow xs by1 by2 other[j] j :: bs := hL ▸ hq
        rw [List.mem_append, List.mem_cons] at hmem
        have hs := fullJoin_sorted xs other by1 by2
        rw [hL, List.pairwise_append] at hs
        rcases hmem with hm | hm | hm
        · have := has _ hm
          simp [hql] at this
        · have : (baRow xs by1 by2 other[j] j).r = some j' := by rw [← hm]; exact hr
          rw [baRow_r] at this
          simp only [Option.some.injEq] at this
          exact hne this.symm
        · have := (List.pairwise_cons.mp hs.2.1).1 _ hm
          unfold pairLe at this
          rw [hpl', hql, baRow_r, hr] at this
          simp [optLe] at this
          omega

theorem leftJoin_getElem_kv (xs other : List Item) (by1 by2 : List String) (i : Nat) (hi : i < xs.length) :
    ((leftJoin xs other by1 by2)[i]'(by rw [leftJoin_length]; exact hi)).kv =
      (abRow other by1 by2 xs[i] i).kv := by
  rw [abRow_kv]
  simp only [leftJoin, List.getElem_map]
  rfl

/-- the first row of left item `i`: its content is that of `left_join`, its right id the first
    right position with equal key values (none if there is no such position). -/
theorem fullJoin_first_row (xs other : List Item) (by1 by2 : List String) (i : Nat) (hi : i < xs.length) :
    ∃ p, (fullJoin xs other by1 by2).find? (fun p => p.l == some i) = some p ∧
      p.kv = ((leftJoin xs other by1 by2)[i]'(by rw [leftJoin_length]; exact hi)).kv ∧
      (∀ j, p.r = some j → ∃ hj : j < other.length, extract by2 other[j] = extract by1 xs[i] ∧
        ∀ j' (hj' : j' < other.length), extract by2 other[j'] = extract by1 xs[i] → j ≤ j') ∧
      (p.r = none → ∀ x ∈ other, extract by2 x ≠ extract by1 xs[i]) :=
  ⟨abRow other by1 by2 xs[i] i, fullJoin_find_left xs other by1 by2 i hi,
    (leftJoin_getElem_kv xs other by1 by2 i hi).symm,
    fun j h => abRow_r_some _ _ _ _ _ _ h, fun h => abRow_r_none _ _ _ _ _ h⟩

/-- a row without left id is an unmatched right item, unchanged. -/
theorem fullJoin_right_only (xs other : List Item) (by1 by2 : List String) (p : Pair)
    (hp : p ∈ fullJoin xs other by1 by2) (hl : p.l = none) :
    ∃ j, ∃ hj : j < other.length, p.r = some j ∧ p.kv = other[j].kv ∧
      ∀ x ∈ xs, extract by1 x ≠ extract by2 other[j] := by
  rcases mem_fullJoin.mp hp with h | h
  · obtain ⟨i', hi', rfl⟩ := mem_fjAB.mp h
    rw [abRow_l] at hl; simp at hl
  · obtain ⟨j, hj, _, rfl⟩ := mem_fjBA.mp h
    refine ⟨j, hj, baRow_r _ _ _ _ _, ?_⟩
    unfold baRow at hl ⊢
    split
    · rename_i hf; rw [hf] at hl; simp at hl
    · rename_i hf
      refine ⟨rfl, ?_⟩
      intro x hx
      have := find_zipIdx_none (fun x => extract by1 x == extract by2 other[j]) xs hf x hx
      simpa using this

/-- a row without right id is an unmatched left item, unchanged. -/
theorem fullJoin_left_only (xs other : List Item) (by1 by2 : List String) (p : Pair)
    (hp : p ∈ fullJoin xs other by1 by2) (hr : p.r = none) :
    ∃ i, ∃ hi : i < xs.length, p.l = some i ∧ p.kv = xs[i].kv ∧
      ∀ x ∈ other, extract by2 x ≠ extract by1 xs[i] := by
  rcases mem_fullJoin.mp hp with h | h
  · obtain ⟨i, hi, rfl⟩ := mem_fjAB.mp h
    refine ⟨i, hi, abRow_l _ _ _ _ _, ?_, abRow_r_none _ _ _ _ _ hr⟩
    unfold abRow at hr ⊢
    split
    · rename_i hf; rw [hf] at hr; simp at hr
    · rfl
  · obtain ⟨j, hj, _, rfl⟩ := mem_fjBA.mp h
    rw [baRow_r] at hr; simp at hr

/-! ### full_join: how often an item occurs -/

theorem filter_length_eq_one {α : Type} {l : List α} {Q : α → Bool} (hex : ∃ a ∈ l, Q a = true)
    (hp : l.Pairwise (fun a b => ¬ (Q a = true ∧ Q b = true))) : (l.filter Q).length = 1 := by
  induction l with
  | nil => simp at hex
  | cons x xs ih =>
    rw [List.pairwise_cons] at hp
    rw [List.filter_cons]
    cases hx : Q x
    · simp only [Bool.false_eq_true, if_false]
      apply ih _ hp.2
      obtain ⟨a, ha, hq⟩ := hex
      rcases List.mem_cons.mp ha with rfl | ha
      · simp [hx] at hq
      · exact ⟨a, ha, hq⟩
    · simp only [if_true, List.length_cons]
      have : xs.filter Q = [] := by
        rw [List.filter_eq_nil_iff]
        intro a ha hq
        exact hp.1 a ha ⟨hx, hq⟩
      simp [this]

theorem fjBA_r_distinct (xs other : List Item) (by1 by2 : List String) :
    (fjBA xs other by1 by2).Pairwise (fun p q => p.r ≠ q.r) := by
  rw [fjBA_eq, List.pairwise_map]
  have hz : (other.zipIdx).Pairwise (fun a b => a.2 ≠ b.2) := by
    rw [List.pairwise_iff_getElem]
    intro a b ha hb hab
    simp only [List.getElem_zipIdx]; omega
  refine (hz.filter _).imp ?_
  intro a b hne
  rw [baRow_r, baRow_r]
  simp [hne]

/-- a right item that stays unmatched in `ab` although a left item has its key values: then
    an earlier right item has the same key values. -/
theorem ba_left_some_dup (xs other : List Item) (by1 by2 : List String) (j : Nat) (hj : j < other.length)
    (hu : j ∉ fjUsed xs other by1 by2) (i : Nat)
    (hl : (baRow xs by1 by2 other[j] j).l = some i) :
    ∃ j', ∃ hj' : j' < other.length, j' < j ∧ extract by2 other[j'] = extract by2 other[j] := by
  obtain ⟨hi, hkey⟩ := baRow_l_some _ _ _ _ _ _ hl
  cases hr : (abRow other by1 by2 xs[i] i).r with
  | none => exact absurd hkey.symm (abRow_r_none _ _ _ _ _ hr other[j] (List.getElem_mem hj))
  | some j' =>
    obtain ⟨hj', he, hmin⟩ := abRow_r_some _ _ _ _ _ _ hr
    have hle : j' ≤ j := hmin j hj hkey.symm
    have hne : j' ≠ j := by
      rintro rfl
      exact hu (mem_fjUsed.mpr ⟨_, mem_fjAB.mpr ⟨i, hi, rfl⟩, hr⟩)
    exact ⟨j', hj', by omega, he.trans hkey⟩

/-- with distinct right key tuples every left item occurs exactly once. -/
theorem fullJoin_left_once (xs other : List Item) (by1 by2 : List String)
    (hnd : (other.map (extract by2)).Nodup) (i : Nat) (hi : i < xs.length) :
    ((fullJoin xs other by1 by2).filter (fun p => p.l == some i)).length = 1 := by
  rw [((fullJoin_perm xs other by1 by2).filter _).length_eq]
  have hba : ∀ q ∈ fjBA xs other by1 by2, ¬ ((q.l == some i) = true) := by
    intro q hq hl
    obtain ⟨j, hj, hu, rfl⟩ := mem_fjBA.mp hq
    obtain ⟨j', hj', hlt, he⟩ := ba_left_some_dup xs other by1 by2 j hj hu i (by simpa using hl)
    have := (List.pairwise_iff_getElem.mp hnd) j' j (by simpa using hj') (by simpa using hj) hlt
    simp at this
    exact this he
  apply filter_length_eq_one
  · exact ⟨abRow other by1 by2 xs[i] i, List.mem_append_left _ (mem_fjAB.mpr ⟨i, hi, rfl⟩),
      by simp [abRow_l]⟩
  · rw [List.pairwise_append]
    refine ⟨?_, ?_, ?_⟩
    · rw [List.pairwise_iff_getElem]
      intro a b ha hb hab
      rw [fjAB_getElem, fjAB_getElem, abRow_l, abRow_l]
      simp; omega
    · exact List.Pairwise.imp_of_mem (R := fun _ _ => True) (fun _ hb _ h => hba _ hb h.2)
        (List.pairwise_of_forall (fun _ _ => trivial))
    · intro p _ q hq h
      exact hba q hq h.2

/-- with distinct left key tuples every right item occurs exactly once. -/
theorem fullJoin_right_once (xs other : List Item) (by1 by2 : List String)
    (hnd : (xs.map (extract by1)).Nodup) (j : Nat) (hj : j < other.length) :
    ((fullJoin xs other by1 by2).filter (fun p => p.r == some j)).length = 1 := by
  rw [((fullJoin_perm xs other by1 by2).filter _).length_eq]
  apply filter_length_eq_one
  · obtain ⟨p, hp, hr⟩ := fullJoin_keeps_right xs other by1 by2 j hj
    exact ⟨p, (fullJoin_perm xs other by1 by2).mem_iff.mp hp, by simp [hr]⟩
  · rw [List.pairwise_append]
    refine ⟨?_, ?_, ?_⟩
    · rw [List.pairwise_iff_getElem]
      intro a b ha hb hab
      rw [fjAB_getElem, fjAB_getElem]
      rintro ⟨h1, h2⟩
      have ha' : a < xs.length := by simpa [fjAB_length] using ha
      have hb' : b < xs.length := by simpa [fjAB_length] using hb
      obtain ⟨_, e1, _⟩ := abRow_r_some _ _ _ _ _ _ (by simpa using h1)
      obtain ⟨_, e2, _⟩ := abRow_r_some _ _ _ _ _ _ (by simpa using h2)
      have := (List.pairwise_iff_getElem.mp hnd) a b (by simpa using ha') (by simpa using hb') hab
      simp at this
      exact this (e1.symm.trans e2)
    · refine (fjBA_r_distinct xs other by1 by2).imp ?_
      intro p q hne ⟨h1, h2⟩
      apply hne
      have e1 : p.r = some j := by simpa using h1
      have e2 : q.r = some j := by simpa using h2
      rw [e1, e2]
    · intro p hp q hq ⟨h1, h2⟩
      obtain ⟨j', hj', hu, rfl⟩ := mem_fjBA.mp hq
      have e2 : (baRow xs by1 by2 other[j'] j').r = some j := by simpa using h2
      rw [baRow_r] at e2
      simp only [Option.some.injEq] at e2
      subst e2
      exact hu (mem_fjUsed.mpr ⟨p, hp, by simpa using h1⟩)

theorem pairLe_spec :
    PreOrd pairLe ∧ (∀ p q, pairLe p q → pairLe q p → p.l = q.l ∧ p.r = q.r) ∧
    (∀ a b : Nat, optLe (some a) (some b) = decide (a ≤ b)) ∧
    (∀ a, optLe a none = true) ∧ (∀ a : Nat, optLe none (some a) = false) :=
  ⟨pairLe_pre, pairLe_antisymm, fun _ _ => rfl, fun a => by cases a <;> rfl, fun _ => rfl⟩

/-- one left item, two right items with its key: the left item occurs twice. -/
theorem fullJoin_left_twice_example :
    ((fullJoin [⟨0, [("k", .i 1), ("a", .i 10)]⟩]
        [⟨10, [("k", .i 1), ("b", .i 5)]⟩, ⟨11, [("k", .i 1), ("b", .i 6)]⟩] ["k"] ["k"]).filter
      (fun p => p.l == some 0)).length = 2 := by
  rw [fullJoin_eq, if_neg (by decide), List.mergeSort_of_pairwise (by decide)]
  decide

/-! ### aggregate: the order on values and key tuples -/

/-- the value of one key (`item[key]`, `None` for the model's missing entry). -/
def valOf (k : String) (it : Item) : Val := (it.kv.get? k).getD .none

/-- order of one ascending sort pass: Python's `(v is None, v)`, i.e. None last. -/
abbrev valLe : Val → Val → Bool := passLe false

theorem valLe_eq (a b : Val) : valLe a b =
    match a, b with
    | .none, .none => true
    | .none, _ => false
    | _, .none => true
    | .i x, .i y => decide (x ≤ y)
    | .s x, .s y => decide (x ≤ y)
    | .i _, .s _ => true
    | .s _, .i _ => false := by
  cases a <;> cases b <;> rfl

theorem valLe_linOrd : LinOrd valLe := by
  constructor
  · intro a b
    rw [valLe_eq, valLe_eq]
    cases a <;> cases b <;> simp
    · omega
    · exact String.le_total _ _
  · intro a b c
    rw [valLe_eq, valLe_eq, valLe_eq]
    cases a <;> cases b <;> cases c <;> simp
    · exact Int.le_trans
    · exact String.le_trans
  · intro a b
    rw [valLe_eq, valLe_eq]
    cases a <;> cases b <;> simp
    · omega
    · exact String.le_antisymm

/-- lexicographic order on key tuples, each component with None last. -/
def lexLe : List Val → List Val → Bool
  | [], _ => true
  | _ :: _, [] => false
  | a :: as, b :: bs => if a = b then lexLe as bs else valLe a b

theorem lexLe_total : ∀ a b : List Val, lexLe a b || lexLe b a
  | [], _ => by simp [lexLe]
  | _ :: _, [] => by simp [lexLe]
  | a :: as, b :: bs => by
    have ih := lexLe_total as bs
    simp only [lexLe]
    by_cases h : a = b
    · subst h; simpa using ih
    · have h' : ¬ b = a := fun e => h e.symm
      simp only [h, h', if_false]
      exact valLe_linOrd.total a b

theorem lexLe_trans : ∀ a b c : List Val, lexLe a b → lexLe b c → lexLe a c
  | [], _, _ => by simp [lexLe]
  | _ :: _, [], _ => by simp [lexLe]
  | _ :: _, _ :: _, [] => by simp [lexLe]
  | a :: as, b :: bs, c :: cs => by
    have ih := lexLe_trans as bs cs
    simp only [lexLe]
    by_cases h1 : a = b <;> by_cases h2 : b = c
    · subst h1; subst h2; simpa using ih
    · subst h1; simp only [h2, if_true, if_false]; intro _ h; exact h
    · subst h2; simp only [h1, if_true, if_false]; intro h _; exact h
    · simp only [h1, h2, if_false]
      intro ha hb
      have hc := valLe_linOrd.trans _ _ _ ha hb
      by_cases h3 : a = c
      · exfalso; subst h3; exact h1 (valLe_linOrd.antisymm _ _ ha hb)
      · simp only [h3, if_false]; exact hc

theorem lexLe_antisymm : ∀ a b : List Val, lexLe a b → lexLe b a → a = b
  | [], [] => by simp
  | [], _ :: _ => by simp [lexLe]
  | _ :: _, [] => by simp [lexLe]
  | a :: as, b :: bs => by
    have ih := lexLe_antisymm as bs
    simp only [lexLe]
    by_cases h : a = b
    · subst h; simp only [if_true]; intro h1 h2; rw [ih h1 h2]
    · have h' : ¬ b = a := fun e => h e.symm
      simp only [h, h', if_false]
      intro h1 h2
      exact absurd (valLe_linOrd.antisymm _ _ h1 h2) h

theorem lexLe_linOrd : LinOrd lexLe := ⟨lexLe_total, lexLe_trans, lexLe_antisymm⟩

theorem lexLe_spec :
    LinOrd lexLe ∧ LinOrd valLe ∧
    (∀ a b as bs, lexLe (a :: as) (b :: bs) = if a = b then lexLe as bs else valLe a b) ∧
    (∀ v, valLe v .none = true) ∧ (∀ v, v ≠ .none → valLe .none v = false) ∧
    (∀ a b : Int, valLe (.i a) (.i b) = decide (a ≤ b)) ∧
    (∀ a b : String, valLe (.s a) (.s b) = decide (a ≤ b)) :=
  ⟨lexLe_linOrd, valLe_linOrd, fun _ _ _ _ => rfl, fun v => by cases v <;> rfl,
    fun v h => by cases v <;> first | exact absurd rfl h | rfl, fun _ _ => rfl, fun _ _ => rfl⟩

/-! ### aggregate: the sort passes -/

theorem sortPass_asc_eq (xs : List Item) (key : String) :
    sortPass xs key false = xs.mergeSort (fun a b => valLe (valOf key a) (valOf key b)) := by
  unfold sortPass argsortPy
  simp only [Bool.false_eq_true, if_false]
  exact gather_argsort_map (passLe false) (valOf key) xs

theorem sort_cons (xs : List Item) (k : String × Bool) (ks : List (String × Bool)) :
    sort xs (k :: ks) = sortPass (sort xs ks) k.1 k.2 := by
  simp [sort, List.foldl_append]

theorem extract_cons (k : String) (ks : List String) (it : Item) :
    extract (k :: ks) it = valOf k it :: extract ks it := rfl

/-- the passes (last key first, each one stable) leave the items in lexicographic order of
    their key tuples. -/
theorem sort_asc_lex (xs : List Item) (keys : List String) :
    (sort xs (keys.map (fun k => (k, false)))).Pairwise
      (fun a b => lexLe (extract keys a) (extract keys b)) := by
  induction keys with
  | nil => exact List.pairwise_of_forall (fun _ _ => by simp [extract, lexLe])
  | cons k ks ih =>
    rw [List.map_cons, sort_cons, sortPass_asc_eq]
    have hpre : PreOrd (fun a b : Item => valLe (valOf k a) (valOf k b)) :=
      ⟨fun a b => valLe_linOrd.total _ _, fun a b c => valLe_linOrd.trans _ _ _⟩
    refine (mergeSort_lex_step hpre _ _ ih).imp ?_
    intro a b ⟨h1, h2⟩
    rw [extract_cons, extract_cons]
    simp only [lexLe]
    by_cases h : valOf k a = valOf k b
    · simp only [h, if_true]
      apply h2
      rw [h]; exact valLe_linOrd.pre.refl _
    · simp only [h, if_false]; exact h1

/-! ### aggregate: groups -/

/-- `deepcopy().select(*by)`: the group representative reduced to its key entries. -/
def rekey (keys : List String) (it : Item) : Item :=
  { it with kv := keys.map (fun k => (k, (it.kv.get? k).getD .none)) }

theorem get_map_pairs (f : String → Val) (keys : List String) (k : String) (hk : k ∈ keys) :
    Dict.get? (keys.map (fun k => (k, f k))) k = some (f k) := by
  induction keys with
  | nil => simp at hk
  | cons k0 ks ih =>
    simp only [Dict.get?, List.map_cons, List.find?_cons]
    by_cases h : k0 = k
    · subst h; simp
    · have hb : (k0 == k) = false := by simp [h]
      simp only [hb]
      have : k ∈ ks := by
        rcases List.mem_cons.mp hk with e | e
        · exact absurd e.symm h
        · exact e
      exact ih this

/-- the reduced representative has the same key values. -/
theorem extract_rekey (keys : List String) (it : Item) :
    extract keys (rekey keys it) = extract keys it := by
  unfold extract
  apply List.map_congr_left
  intro k hk
  simp only [rekey]
  rw [get_map_pairs (fun k => (it.kv.get? k).getD .none) keys k hk]
  rfl

theorem aggregate_eq (xs : List Item) (keys : List String) :
    aggregate xs keys =
      (sort ((unique xs keys).map (rekey keys)) (keys.map (fun k => (k, false)))).map (fun g =>
        (extract keys g, (xs.filter (fun it => extract keys it == extract keys g)).map (·.tag))) := rfl

/-- the key tuples of the result are a rearrangement of those of `unique`. -/
theorem aggregate_keys_perm (xs : List Item) (keys : List String) :
    ((aggregate xs keys).map (·.1)).Perm ((unique xs keys).map (extract keys)) := by
  rw [aggregate_eq, List.map_map]
  have h := (sort_perm ((unique xs keys).map (rekey keys)) (keys.map (fun k => (k, false)))).map (extract keys)
  refine (List.Perm.of_eq ?_).trans (h.trans (List.Perm.of_eq ?_))
  · rfl
  · rw [List.map_map]
    apply List.map_congr_left
    intro it _
    exact extract_rekey keys it

theorem aggregate_keys_nodup (xs : List Item) (keys : List String) :
    ((aggregate xs keys).map (·.1)).Nodup :=
  (aggregate_keys_perm xs keys).nodup_iff.mpr (uniqueScan_nodup xs keys [])

theorem mem_aggregate_keys (xs : List Item) (keys : List String) (id : List Val) :
    id ∈ (aggregate xs keys).map (·.1) ↔ id ∈ xs.map (extract keys) := by
  rw [(aggregate_keys_perm xs keys).mem_iff]
  unfold unique
  rw [mem_uniqueScan_key]
  simp

/-- each group lists exactly the items with its key values, in original order. -/
theorem aggregate_group (xs : List Item) (keys : List String) (g : List Val × List Nat)
    (hg : g ∈ aggregate xs keys) :
    g.2 = (xs.filter (fun it => extract keys it == g.1)).map (·.tag) := by
  rw [aggregate_eq, List.mem_map] at hg
  obtain ⟨s, _, rfl⟩ := hg
  rfl

theorem aggregate_group_nonempty (xs : List Item) (keys : List String) (g : List Val × List Nat)
    (hg : g ∈ aggregate xs keys) : g.2 ≠ [] := by
  have h1 : g.1 ∈ xs.map (extract keys) :=
    (mem_aggregate_keys xs keys g.1).mp (List.mem_map_of_mem hg)
  obtain ⟨x, hx, he⟩ := List.mem_map.mp h1
  rw [aggregate_group xs keys g hg]
  intro h
  have : x ∈ xs.filter (fun it => extract keys it == g.1) := by
    rw [List.mem_filter]; exact ⟨hx, by simp [he]⟩
  rw [List.map_eq_nil_iff] at h
  rw [h] at this
  simp at this

theorem filter_or_perm {α : Type} (p q : α → Bool) (xs : List α) (h : ∀ x ∈ xs, ¬ (p x = true ∧ q x = true)) :
    (xs.filter p ++ xs.filter q).Perm (xs.filter (fun x => p x || q x)) := by
  induction xs with
  | nil => simp
  | cons x xs ih =>
    have ih' := ih (fun y hy => h y (List.mem_cons_of_mem _ hy))
    have hx := h x List.mem_cons_self
    simp only [List.filter_cons]
    cases hp : p x <;> cases hq : q x
    · simpa using ih'
    · simp only [Bool.false_eq_true, if_false, if_true, Bool.or_true]
      exact List.perm_middle.trans (List.Perm.cons _ ih')
    · simp only [Bool.false_eq_true, if_false, if_true, Bool.or_false, List.cons_append]
      exact List.Perm.cons _ ih'
    · exact absurd ⟨hp, hq⟩ hx

/-- the classes of distinct key values partition the list. -/
theorem flatMap_filter_perm {α κ : Type} [BEq κ] [LawfulBEq κ] (key : α → κ) (xs : List α) (ids : List κ)
    (hn : ids.Nodup) :
    (ids.flatMap (fun id => xs.filter (fun x => key x == id))).Perm
      (xs.filter (fun x => ids.contains (key x))) := by
  induction ids with
  | nil => simp
  | cons id rest ih =>
    rw [List.nodup_cons] at hn
    rw [List.flatMap_cons]
    refine ((ih hn.2).append_left _).trans ?_
    refine (filter_or_perm _ _ xs ?_).trans (List.Perm.of_eq ?_)
    · intro x _ ⟨h1, h2⟩
      have e : key x = id := by simpa using h1
      have : id ∈ rest := by rw [← e]; simpa using h2
      exact hn.1 this
    · apply List.filter_congr
      intro x _
      simp

theorem aggregate_tags_eq (xs : List Item) (keys : List String) :
    (aggregate xs keys).flatMap (·.2) =
      (((aggregate xs keys).map (·.1)).flatMap
        (fun id => xs.filter (fun it => extract keys it == id))).map (·.tag) := by
  rw [aggregate_eq]
  simp only [List.map_flatMap, List.flatMap_map, List.map_map, Function.comp_def]

/-- the groups partition the items. -/
theorem aggregate_partition (xs : List Item) (keys : List String) :
    ((aggregate xs keys).flatMap (·.2)).Perm (xs.map (·.tag)) := by
  rw [aggregate_tags_eq]
  apply List.Perm.map
  refine (flatMap_filter_perm (extract keys) xs _ (aggregate_keys_nodup xs keys)).trans (List.Perm.of_eq ?_)
  rw [List.filter_eq_self]
  intro x hx
  rw [List.contains_iff_mem, mem_aggregate_keys]
  exact List.mem_map_of_mem hx

theorem aggregate_sizes (xs : List Item) (keys : List String) :
    ((aggregate xs keys).map (·.2.length)).sum = xs.length := by
  have h := (aggregate_partition xs keys).length_eq
  rw [List.length_flatMap, List.length_map] at h
  exact h

/-- the key tuples come out in lexicographic order, None last in every component. -/
theorem aggregate_keys_sorted (xs : List Item) (keys : List String) :
    ((aggregate xs keys).map (·.1)).Pairwise (fun a b => lexLe a b) := by
  rw [aggregate_eq, List.map_map, List.pairwise_map]
  exact sort_asc_lex _ keys

theorem aggregate_keys_strict_sorted (xs : List Item) (keys : List String) :
    ((aggregate xs keys).map (·.1)).Pairwise (fun a b => lexLe a b = true ∧ lexLe b a = false) := by
  refine ((aggregate_keys_sorted xs keys).and (aggregate_keys_nodup xs keys)).imp ?_
  intro a b ⟨h1, h2⟩
  refine ⟨h1, ?_⟩
  cases h : lexLe b a
  · rfl
  · exact absurd (lexLe_antisymm a b h1 h) h2

end LoD

end DI

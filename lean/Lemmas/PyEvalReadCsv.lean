/-
  Lemmas/PyEvalReadCsv.lean — what the regenerated body of `ListOfDicts.read_csv` (`Generated/CodeC14.lean`) computes under
  the evaluator of `Model/PyEvalRead.lean`, for ALL files.  The statements are in `Proofs/EvalC14b.lean`.

  FINDING about the evaluator itself.  `Model/PyEvalRead.lean`, `evalLodReadCsv`, says in its comment that the inlined local
  `drop = [i for i in range(len(rows[0])) if colnames[i] not in keys]` "is evaluated once"; it is — for the exception it may
  raise — but then `runOut` evaluates the term AGAIN inside `for row in rows: for i in reversed(drop)`, once per row, in the
  memory of that moment: from the second row on `rows[0]` has already lost its dropped cells, `len(rows[0])` is the number of
  KEPT cells, and the recomputed `drop` is wrong.  On the rectangular file `a,b,c / 1,2,3 / 4,5,6` with `keys=["c"]` the
  evaluator answers `{c: 3}, {c: 5}`; Python (and the model `csvRestricted`) `{c: 3}, {c: 6}`
  (`evalLodReadCsv_recomputes_drop`, by `decide`).  `evalLodReadCsvOnce` below is the evaluator the comment describes: the
  value of `drop` is computed once, where the assignment stands, bound to the variable `drop`, and the loop reads the
  variable.  Everything else is the same term, the same `evalE` / `execS`.
-/
import Model.PyEvalRead
import Lemmas.PyEvalRead
import Lemmas.ReadRestrict

namespace DI.PyEvalRead

open DI DI.Py DI.Read DI.Gen DI.Tie.C14

variable {β : Type}

/-! ### the evaluator that evaluates `drop` once -/

/-- the statements with the inlined local `drop` replaced by the variable `drop` (the same pattern as `inlinedLocals`). -/
def bindLocals : List Term → List Term
  | [] => []
  | .app "for" [p, it, .app "block" [.app "for" [q, .app "reversed" [_], b]]] :: ts =>
    .app "for" [p, it, .app "block" [.app "for" [q, .app "reversed" [.sym "drop"], b]]] :: bindLocals ts
  | t :: ts => t :: bindLocals ts

/-- the memory after `colnames = rows.pop(0) if header else util.generate_colnames(len(rows[0]))` (as in `evalLodReadCsv`). -/
def csvMem0 (ctx : Ctx β) : Mem β :=
  match evalE ctx noCall Mem.init (colnamesT ctx.header) [] with
  | some (.keys ns) => { Mem.init with names := some ns, rows := if ctx.header then some ctx.csvLines.tail else Option.none }
  | _ => Mem.init

theorem evalLodReadCsv_def (ctx : Ctx β) :
    evalLodReadCsv ctx =
      (match allM (fun d => evalE ctx noCall (csvMem0 ctx) d []) (inlinedLocals (ListOfDicts_read_csv (truthOf ctx noCall)).effs) with
       | Option.none => Option.none
       | some _ =>
         match runOut ctx noCall (csvMem0 ctx) (ListOfDicts_read_csv (truthOf ctx noCall)) with
         | some (.recs l) => some l
         | _ => Option.none) := rfl

/-- `ListOfDicts.read_csv` with the assigned local `drop` evaluated ONCE where the assignment stands (in the memory after
    `colnames = …`, all data rows untouched), its value bound to the variable `drop`; then the statements run, the loop
    reading the variable. -/
def evalLodReadCsvOnce (ctx : Ctx β) : Option (List (Rec β)) :=
  let m0 := csvMem0 ctx
  let out := ListOfDicts_read_csv (truthOf ctx noCall)
  match allM (fun d => evalE ctx noCall m0 d []) (inlinedLocals out.effs) with
  | Option.none => Option.none
  | some vs =>
    match out with
    | .ret effs t =>
      (match (execB ctx noCall (bindLocals effs) [("drop", vs.headD (.list []))] m0).bind fun m' => evalE ctx noCall m' t [] with
       | some (.recs l) => some l
       | _ => Option.none)
    | _ => Option.none

/-! ### deleting cells -/

/-- `del row[d]` for the positions `ds` in that order (IndexError = `none` when a position is outside the row of the moment). -/
def eraseAllM (cs : List String) : List Nat → Option (List String)
  | [] => some cs
  | d :: ds => if d < cs.length then eraseAllM (cs.eraseIdx d) ds else none

/-- the positions (of a header `ns` of the width looked at) whose name is not requested, ascending. -/
def dropPos (keys : List String) : List String → List Nat
  | [] => []
  | k :: ns => (if keys.contains k then [] else [0]) ++ (dropPos keys ns).map (· + 1)

theorem eraseAllM_append (cs : List String) (a b : List Nat) :
    eraseAllM cs (a ++ b) = (eraseAllM cs a).bind fun cs' => eraseAllM cs' b := by
  induction a generalizing cs with
  | nil => rfl
  | cons d a ih =>
    simp only [List.cons_append, eraseAllM]
    split
    · exact ih _
    · rfl

theorem eraseAllM_succ (c : String) (cs : List String) (ds : List Nat) :
    eraseAllM (c :: cs) (ds.map (· + 1)) = (eraseAllM cs ds).map fun cs' => c :: cs' := by
  induction ds generalizing cs with
  | nil => rfl
  | cons d ds ih =>
    simp only [List.map_cons, eraseAllM, List.length_cons, Nat.add_lt_add_iff_right, List.eraseIdx_cons_succ]
    split
    · exact ih _
    · rfl

/-- **deleting the dropped positions back to front leaves the kept cells**, for a row as wide as the header. -/
theorem eraseAllM_dropPos (keys ns cs : List String) (h : cs.length = ns.length) :
    eraseAllM cs (dropPos keys ns).reverse = some (keptCells ns cs keys) := by
  induction ns generalizing cs with
  | nil =>
    cases cs with
    | nil => rfl
    | cons c cs => simp at h
  | cons k ns ih =>
    cases cs with
    | nil => simp at h
    | cons c cs =>
      have h' : cs.length = ns.length := by simpa using h
      have hm : ((dropPos keys ns).map (· + 1)).reverse = (dropPos keys ns).reverse.map (· + 1) := by
        rw [List.map_reverse]
      simp only [dropPos, List.reverse_append, hm, eraseAllM_append, eraseAllM_succ, ih cs h', Option.map_some,
        Option.bind_some, keptCells, List.zip_cons_cons, List.filter_cons]
      cases hk : keys.contains k <;> simp [eraseAllM]

/-- the positions as the comprehension computes them: `[i for i in range(w) if colnames[i] not in keys]`, `w` the width of the
    header. -/
theorem range_filter_dropPos (keys ns : List String) :
    (List.range ns.length).filter (fun i => !keys.contains (ns.getD i "")) = dropPos keys ns := by
  induction ns with
  | nil => rfl
  | cons k ns ih =>
    rw [List.length_cons, List.range_succ_eq_map, List.filter_cons, List.filter_map, dropPos, ← ih]
    have : ((fun i => !keys.contains ((k :: ns).getD i "")) ∘ Nat.succ) = fun i => !keys.contains (ns.getD i "") := by
      funext i; simp
    rw [this]
    by_cases hk : k ∈ keys <;> simp [hk]

/-! ### the terms of `read_csv` and what they denote -/

/-- the data rows of the moment: the list once written (or popped), else what `csv.reader` gave. -/
def curRows (ctx : Ctx β) (m : Mem β) : List (List String) := m.rows.getD ctx.csvLines

def widthT : Term := Term.app "len" [Term.app "getitem" [rowsT, Term.int 0]]

/-- `[i for i in range(len(rows[0])) if colnames[i] not in keys]`. -/
def dropT (names : Term) : Term :=
  Term.app "ListComp" [Term.sym "i", Term.app "in" [Term.sym "i", Term.app "range" [widthT],
    Term.app "if" [Term.app "NotIn" [Term.app "getitem" [names, Term.sym "i"], Term.sym "keys"]]]]

/-- `cls(dict(zip(colnames, x)) for x in rows)`. -/
def itemsT (ns : Term) : Term :=
  Term.app "cls" [Term.app "GeneratorExp" [Term.app "dict()" [Term.app "zip" [ns, Term.sym "x"]],
    Term.app "in" [Term.sym "x", rowsT, Term.app "if" []]]]

def eraseBody : List Term := [Term.app "del" [Term.app "getitem" [Term.sym "row", Term.sym "i"]]]

/-- `for row in rows: for i in reversed(<drop>): del row[i]`. -/
def dropLoopT (drop : Term) : Term :=
  Term.app "for" [Term.sym "row", rowsT, Term.app "block" [Term.app "for" [Term.sym "i", Term.app "reversed" [drop],
    Term.app "block" eraseBody]]]

def fileT : Term := Term.app "with" [Term.app "util.xopen" [Term.sym "path", Term.sym "'rt'", Term.app "=encoding" [Term.sym "encoding"]]]

section
variable (ctx : Ctx β) (call : List (Val β) → Option (Val β))

theorem filterMapM_filter_mem {α δ γ : Type} (f : δ → Option (Option γ)) (e : α → δ) (p : α → Bool) (g : α → γ) (l : List α)
    (hf : ∀ a ∈ l, f (e a) = some (if p a then some (g a) else none)) :
    filterMapM f (l.map e) = some ((l.filter p).map g) := by
  induction l with
  | nil => rfl
  | cons a l ih =>
    have h1 := hf a (by simp)
    have h2 := ih (fun b hb => hf b (by simp [hb]))
    simp only [List.map_cons, filterMapM, h1, h2, Option.bind_some, Option.map_some, List.filter_cons]
    cases p a <;> simp

theorem evalE_rowsT (m : Mem β) (ρ : Env β) : evalE ctx call m rowsT ρ = some (.rows (curRows ctx m)) := by
  show (match m.rows with | some rs => some (Val.rows rs) | none => some (Val.rows ctx.csvLines)) = _
  unfold curRows
  cases m.rows <;> rfl

theorem evalE_colnamesT (m : Mem β) (ns : List String) (h : m.names = some ns) (b : Bool) (ρ : Env β) :
    evalE ctx call m (colnamesT b) ρ = some (.keys ns) := by
  cases b
  · show (match m.names with | some ns => some (Val.keys ns) | none => _) = _
    rw [h]
  · show (match m.names with | some ns => some (Val.keys ns) | none => _) = _
    rw [h]

theorem evalE_widthT (m : Mem β) (ρ : Env β) :
    evalE ctx call m widthT ρ = ((curRows ctx m)[0]?).map fun cs => Val.int cs.length := by
  show ((evalE ctx call m (Term.app "getitem" [rowsT, Term.int 0]) ρ).bind fun (v : Val β) => match v with
      | .row cs => some (Val.int cs.length) | .keys ks => some (Val.int ks.length) | _ => none) = _
  rw [evalE_getitem, evalE_rowsT]
  have : evalE ctx call m (Term.int 0) ρ = some (.int 0) := rfl
  rw [this]
  simp only [Option.bind_some]
  cases (curRows ctx m)[0]? <;> rfl

theorem evalE_range (e : Term) (m : Mem β) (ρ : Env β) :
    evalE ctx call m (Term.app "range" [e]) ρ =
      (evalE ctx call m e ρ).bind fun v => v.asNat.map fun n => Val.list ((List.range n).map fun (i : Nat) => Val.int i) := rfl

theorem evalE_notin (a b : Term) (ρ : Env β) (m : Mem β) :
    evalE ctx call m (Term.app "NotIn" [a, b]) ρ =
      (evalE ctx call m a ρ).bind fun va => (evalE ctx call m b ρ).bind fun vb => (pyIn m va vb).map fun r => Val.bool !r := rfl

/-- **`drop`**: the positions below the width of the FIRST data row whose name is not requested (IndexError = `none` when
    there is no data row, or the first data row is wider than the header). -/
theorem evalE_dropT (m : Mem β) (namesT : Term) (ns r0 : List String) (ρ : Env β)
    (hN : ∀ ρ', evalE ctx call m namesT ρ' = some (.keys ns)) (h0 : (curRows ctx m)[0]? = some r0)
    (hw : r0.length ≤ ns.length) :
    evalE ctx call m (dropT namesT) ρ =
      some (.list (((List.range r0.length).filter fun i => !ctx.columns.contains (ns.getD i "")).map fun (i : Nat) => Val.int i)) := by
  unfold dropT
  rw [evalE_listcomp, evalE_range, evalE_widthT, h0]
  have hnat : (Val.int (β := β) (r0.length : Int)).asNat = some r0.length := by simp [Val.asNat]
  simp only [Option.map_some, Option.bind_some, hnat, iterVals]
  rw [filterMapM_filter_mem _ (fun (i : Nat) => Val.int i) (fun i => !ctx.columns.contains (ns.getD i ""))
    (fun (i : Nat) => Val.int i)]
  · rfl
  · intro i hi
    have hi' : i < ns.length := Nat.lt_of_lt_of_le (List.mem_range.mp hi) hw
    have hx : evalE ctx call m (Term.sym "i") (("i", Val.int i) :: ρ) = some (Val.int i) := rfl
    have hk : evalE ctx call m (Term.sym "keys") (("i", Val.int i) :: ρ) = some (.keys ctx.columns) := rfl
    have hg : evalE ctx call m (Term.app "getitem" [namesT, Term.sym "i"]) (("i", Val.int i) :: ρ) =
        some (Val.key (ns.getD i "")) := by
      rw [evalE_getitem, hN, hx]
      simp [hi']
    have hcond : evalConds ctx call m [Term.app "NotIn" [Term.app "getitem" [namesT, Term.sym "i"], Term.sym "keys"]]
        (("i", Val.int i) :: ρ) = some (!ctx.columns.contains (ns.getD i "")) := by
      show ((evalE ctx call m (Term.app "NotIn" [Term.app "getitem" [namesT, Term.sym "i"], Term.sym "keys"])
        (("i", Val.int i) :: ρ)).bind fun v => (evalConds ctx call m [] (("i", Val.int i) :: ρ)).map fun b => truthy v && b) = _
      rw [evalE_notin, hg, hk]
      simp [pyIn, Val.asKey, evalConds, truthy]
    rw [hcond, hx]
    simp only [Option.bind_some, Option.map_some]
    cases (!ctx.columns.contains (ns.getD i "")) <;> rfl

/-- `cls(dict(zip(colnames, x)) for x in rows)`: the list of dicts once written, else one dict per data row of the moment
    (`zip` stops at the shorter of the two). -/
theorem evalE_itemsT (m : Mem β) (nsT : Term) (vks : Val β) (ks : List String) (ρ : Env β)
    (hK : ∀ ρ', evalE ctx call m nsT ρ' = some vks) (hks : vks.asKeys = some ks) :
    evalE ctx call m (itemsT nsT) ρ =
      some (.recs (m.items.getD ((curRows ctx m).map fun cs => ks.zip (cs.map ctx.ofStr)))) := by
  show (match m.items with
    | some l => some (Val.recs l)
    | none => (evalE ctx call m rowsT ρ).bind fun vs => (iterVals vs).bind fun its =>
        (allM (fun v => (evalE ctx call m (Term.app "dict()" [Term.app "zip" [nsT, Term.sym "x"]]) (("x", v) :: ρ)).bind Val.asRec)
          its).map Val.recs) = _
  cases hm : m.items with
  | some l => rfl
  | none =>
    simp only [evalE_rowsT, Option.bind_some, iterVals, Option.getD_none]
    rw [allM_map_some Val.row _ (fun cs => ks.zip (cs.map ctx.ofStr))]
    · rfl
    · intro cs
      have hx : evalE ctx call m (Term.sym "x") (("x", Val.row cs) :: ρ) = some (Val.row cs) := rfl
      show ((evalE ctx call m nsT (("x", Val.row cs) :: ρ)).bind fun va =>
        (evalE ctx call m (Term.sym "x") (("x", Val.row cs) :: ρ)).bind fun vb => va.asKeys.bind fun ks => match vb with
          | .row cs => some (Val.dict (ks.zip (cs.map ctx.ofStr)))
          | _ => none).bind Val.asRec = _
      rw [hK, hx]
      simp [hks, Val.asRec]

end

/-! ### the deletion loop -/

/-- a loop over the lines BY REFERENCE whose body rewrites the line it points at: every line in turn. -/
theorem loopRows (body : Env β → Mem β → Option (Mem β)) (bind : Val β → Option (Env β)) (G : List String → Option (List String))
    (hb : ∀ i, ∃ ρ, bind (.rowRef i) = some ρ ∧ ∀ (m : Mem β) pre r post, i = pre.length → m.rows = some (pre ++ r :: post) →
      body ρ m = (G r).map fun r' => { m with rows := some (pre ++ r' :: post) })
    (post pre : List (List String)) (m : Mem β) (hm : m.rows = some (pre ++ post)) :
    loopOver body bind ((List.range' pre.length post.length).map Val.rowRef) m =
      (allM G post).map fun post' => { m with rows := some (pre ++ post') } := by
  induction post generalizing pre m with
  | nil =>
    simp only [List.length_nil, List.range'_zero, List.map_nil, loopOver, allM, Option.map_some]
    congr 1; cases m; simp_all
  | cons r post ih =>
    obtain ⟨ρ, hρ, hbody⟩ := hb pre.length
    simp only [List.length_cons, List.range'_succ, List.map_cons, loopOver, hρ, Option.bind_some, allM]
    rw [hbody m pre r post rfl hm]
    cases hG : G r with
    | none => rfl
    | some r' =>
      simp only [Option.map_some, Option.bind_some]
      have := ih (pre ++ [r']) { m with rows := some (pre ++ r' :: post) } (by simp)
      simp only [List.length_append, List.length_singleton] at this
      rw [this]
      cases allM G post with
      | none => rfl
      | some post' => simp

theorem loopRows_all (body : Env β → Mem β → Option (Mem β)) (bind : Val β → Option (Env β)) (G : List String → Option (List String))
    (hb : ∀ i, ∃ ρ, bind (.rowRef i) = some ρ ∧ ∀ (m : Mem β) pre r post, i = pre.length → m.rows = some (pre ++ r :: post) →
      body ρ m = (G r).map fun r' => { m with rows := some (pre ++ r' :: post) })
    (l : List (List String)) (m : Mem β) (hm : m.rows = some l) :
    loopOver body bind ((List.range l.length).map Val.rowRef) m = (allM G l).map fun l' => { m with rows := some l' } := by
  have := loopRows body bind G hb l [] m (by simpa using hm)
  simpa [List.range_eq_range'] using this

section
variable (ctx : Ctx β) (call : List (Val β) → Option (Val β))

/-- `for i in <positions>: del row[i]` on one line: the positions one after the other, IndexError (`none`) as soon as one is
    outside the line of the moment. -/
theorem eraseInner (ρ : Env β) (pre post : List (List String)) (ds : List Nat) (cs : List String) (m : Mem β)
    (hm : m.rows = some (pre ++ cs :: post)) :
    loopOver (fun ρ' m' => execB ctx call eraseBody ρ' m') (bindPat (("row", Val.rowRef pre.length) :: ρ) (Term.sym "i"))
        (ds.map fun (i : Nat) => Val.int i) m =
      (eraseAllM cs ds).map fun cs' => { m with rows := some (pre ++ cs' :: post) } := by
  induction ds generalizing cs m with
  | nil =>
    simp only [List.map_nil, loopOver, eraseAllM, Option.map_some]
    congr 1; cases m; simp_all
  | cons d ds ih =>
    have hb : bindPat (("row", Val.rowRef (β := β) pre.length) :: ρ) (Term.sym "i") (Val.int d) =
        some (("i", Val.int d) :: ("row", Val.rowRef pre.length) :: ρ) := rfl
    have h1 : evalE ctx call m (Term.sym "row") (("i", Val.int d) :: ("row", Val.rowRef pre.length) :: ρ) =
        some (Val.rowRef pre.length) := rfl
    have h2 : evalE ctx call m (Term.sym "i") (("i", Val.int d) :: ("row", Val.rowRef pre.length) :: ρ) = some (Val.int d) := rfl
    have hd : derefRow m pre.length = some cs := by simp [derefRow, hm]
    simp only [List.map_cons, loopOver, hb, Option.bind_some]
    unfold eraseBody
    rw [execB_cons, execS_del, h1, h2]
    simp only [Option.bind_some, hd, eraseAllM]
    by_cases hlt : d < cs.length
    · have hc : (0 ≤ (d : Int) ∧ (d : Int).toNat < cs.length) := ⟨Int.natCast_nonneg d, by simpa using hlt⟩
      simp only [hc, and_self, if_true, hm, Option.map_some, Option.bind_some, execB_nil, hlt, Int.toNat_natCast,
        modify_append_cons]
      exact ih (cs.eraseIdx d) _ rfl
    · simp [hlt]

/-- **the deletion loop** `for row in rows: for i in reversed(drop): del row[i]`, `drop` being the variable: every data row
    loses the positions of `drop`, back to front; the lines become an object of the memory. -/
theorem execS_dropLoop (ds : List Nat) (m : Mem β) :
    execS ctx call (dropLoopT (Term.sym "drop")) [("drop", Val.list (ds.map fun (i : Nat) => Val.int i))] m =
      (allM (fun cs => eraseAllM cs ds.reverse) (curRows ctx m)).map fun R' => { m with rows := some R' } := by
  unfold dropLoopT
  rw [execS_for, evalE_rowsT]
  simp only [Option.bind_some, iterRefs]
  rw [loopRows_all _ _ (fun cs => eraseAllM cs ds.reverse) _ (curRows ctx m) _ rfl]
  intro i
  refine ⟨("row", Val.rowRef i) :: [("drop", Val.list (ds.map fun (i : Nat) => Val.int i))], rfl, ?_⟩
  intro m' pre r post hi hm'
  subst hi
  have hrev : evalE ctx call m' (Term.app "reversed" [Term.sym "drop"])
      (("row", Val.rowRef pre.length) :: [("drop", Val.list (ds.map fun (i : Nat) => Val.int i))]) =
      some (Val.list (ds.reverse.map fun (i : Nat) => Val.int i)) := by
    rw [List.map_reverse]; rfl
  rw [execB_cons, execS_for, hrev]
  simp only [Option.bind_some, iterRefs, iterVals, Option.map_some]
  rw [eraseInner ctx call _ pre post ds.reverse r m' hm']
  cases eraseAllM r ds.reverse <;> rfl

end

/-! ### the conversions, on a list of dicts that is built from other objects of the memory -/

section
variable (ctx : Ctx β) (call : List (Val β) → Option (Val β))

/-- `convLoop_eq` of `Lemmas/PyEvalRead.lean` for a term `dataT` whose value depends on the memory: `Inv` holds of the
    memories the loop goes through (it only writes the list of dicts). -/
theorem convLoop_inv (Inv : Mem β → Prop) (hInv : ∀ (m : Mem β) l, Inv m → Inv { m with items := some l })
    (dataT : Term) (recs : List (Rec β)) (ρ : Env β)
    (hD : ∀ (m : Mem β) ρ', Inv m → evalE ctx call m dataT ρ' = some (.recs (m.items.getD recs)))
    (ps : List (String × ConvFn β)) (m : Mem β) (hm : Inv m) :
    ((loopOver (fun ρ' m' => execB ctx call [Term.app "for" [Term.sym "item", dataT, Term.app "block" convBody]] ρ' m')
        (bindPat ρ (Term.app "tuple" [Term.sym "key", Term.sym "type"]))
        (ps.map fun p => Val.pair (.key p.1) (.convFn p.2)) m).map (fun m' => m'.items.getD recs) =
      ps.foldlM convStep (m.items.getD recs)) ∧
    ∀ m', loopOver (fun ρ' m' => execB ctx call [Term.app "for" [Term.sym "item", dataT, Term.app "block" convBody]] ρ' m')
        (bindPat ρ (Term.app "tuple" [Term.sym "key", Term.sym "type"]))
        (ps.map fun p => Val.pair (.key p.1) (.convFn p.2)) m = some m' → Inv m' := by
  induction ps generalizing m with
  | nil => exact ⟨rfl, fun m' h => by cases h; exact hm⟩
  | cons p ps ih =>
    have hb : bindPat ρ (Term.app "tuple" [Term.sym "key", Term.sym "type"]) (Val.pair (.key p.1) (.convFn p.2)) =
        some (("type", Val.convFn p.2) :: ("key", Val.key p.1) :: ρ) := rfl
    simp only [List.map_cons, loopOver, hb, Option.bind_some, List.foldlM_cons]
    rw [execB_cons, execS_for, hD _ _ hm]
    simp only [Option.bind_some, iterRefs]
    rw [loopItems_all _ _ (convRec p) (fun _ => True)
      (fun i => convItem_hb ctx call ρ p.1 p.2 i) (m.items.getD recs) _ rfl (fun _ _ => trivial)]
    unfold convStep
    cases hc : allM (convRec p) (m.items.getD recs) with
    | none => exact ⟨rfl, fun m' h => by cases h⟩
    | some l' =>
      simp only [Option.map_some, Option.bind_some, execB_nil]
      exact ih _ (hInv _ _ hm)

/-- the conversions, then the list of dicts returned. -/
theorem csv_tail (Inv : Mem β → Prop) (hInv : ∀ (m : Mem β) l, Inv m → Inv { m with items := some l })
    (dataT : Term) (recs : List (Rec β)) (ρ : Env β)
    (hD : ∀ (m : Mem β) ρ', Inv m → evalE ctx call m dataT ρ' = some (.recs (m.items.getD recs))) (m : Mem β) (hm : Inv m) :
    (match (execB ctx call [castItems dataT] ρ m).bind (fun m' => evalE ctx call m' dataT []) with
      | some (.recs l) => some l
      | _ => none) = ctx.convs.foldlM convStep (m.items.getD recs) := by
  have hloop := convLoop_inv ctx call Inv hInv dataT recs ρ hD ctx.convs m hm
  have hit : evalE ctx call m (Term.app ".items" [Term.sym "types"]) ρ =
      some (.list (ctx.convs.map fun p => Val.pair (.key p.1) (.convFn p.2))) := rfl
  rw [execB_cons]
  unfold castItems
  rw [execS_for, hit]
  simp only [Option.bind_some, iterRefs, iterVals, Option.map_some]
  change (match ((loopOver (fun ρ' m' => execB ctx call [Term.app "for" [Term.sym "item", dataT, Term.app "block" convBody]] ρ' m')
        (bindPat ρ (Term.app "tuple" [Term.sym "key", Term.sym "type"]))
        (ctx.convs.map fun p => Val.pair (.key p.1) (.convFn p.2)) m).bind fun m' => execB ctx call [] ρ m').bind
          (fun m' => evalE ctx call m' dataT []) with
      | some (.recs l) => some l
      | _ => none) = _
  cases hl : loopOver (fun ρ' m' => execB ctx call [Term.app "for" [Term.sym "item", dataT, Term.app "block" convBody]] ρ' m')
        (bindPat ρ (Term.app "tuple" [Term.sym "key", Term.sym "type"]))
        (ctx.convs.map fun p => Val.pair (.key p.1) (.convFn p.2)) m with
  | none => rw [hl] at hloop; exact hloop.1
  | some m' =>
    rw [hl] at hloop
    simp only [Option.bind_some, execB_nil, hD m' [] (hloop.2 m' rfl)]
    exact hloop.1

end

/-! ### `ListOfDicts.read_csv`, evaluated -/

/-- the file as `read_csv` sees it: with `header=True` the first line gives the names and the rest are the data rows; with
    `header=False` every line is a data row and the names are generated for the width of the first one. -/
def CsvFile (ctx : Ctx β) (names : List String) (rows : List (List String)) : Prop :=
  (ctx.header = true ∧ ctx.csvLines = names :: rows) ∨
  (ctx.header = false ∧ ctx.csvLines = rows ∧ ∃ r0 rest, rows = r0 :: rest ∧ names = ctx.genNames r0.length)

/-- a CSV cell as a value of the dict. -/
def embedRec (ofStr : String → β) (r : Rec String) : Rec β := r.map fun p => (p.1, ofStr p.2)

section
variable (ctx : Ctx β)

/-- the regenerated body on the entry state of `ctx` (`Proofs/TieC14.lean`, `lod_read_csv_code`, the tests answered). -/
theorem read_csv_out :
    ListOfDicts_read_csv (truthOf ctx noCall) =
      if ctx.csvLines.isEmpty then Out.ret [fileT] (Term.app "cls" [Term.app "list" []])
      else if ctx.columns.isEmpty then
        Out.ret [fileT, castItems (itemsT (colnamesT ctx.header))] (itemsT (colnamesT ctx.header))
      else
        Out.ret [fileT, dropLoopT (dropT (colnamesT ctx.header)),
            castItems (itemsT (keep (colnamesT ctx.header) (Term.sym "keys")))]
          (itemsT (keep (colnamesT ctx.header) (Term.sym "keys"))) := by
  rw [lod_read_csv_code]
  have h1 : truthOf ctx noCall rowsT = !ctx.csvLines.isEmpty := rfl
  have h2 : truthOf ctx noCall (Term.sym "header") = ctx.header := rfl
  have h3 := truth_columns ctx "keys" (Or.inr rfl)
  unfold rowsT at h1
  simp only [h1, h2, h3]
  cases ctx.csvLines.isEmpty <;> cases ctx.columns.isEmpty <;> cases ctx.header <;> rfl

theorem csvMem0_header (N : List String) (R : List (List String)) (hh : ctx.header = true) (hl : ctx.csvLines = N :: R) :
    csvMem0 ctx = { frame := none, items := none, rows := some R, names := some N } := by
  have : evalE ctx noCall Mem.init (colnamesT true) [] = some (.keys N) := by
    show (match (Mem.init : Mem β).names with
      | some ns => some (Val.keys ns)
      | none => (evalE ctx noCall Mem.init rowsT []).bind fun (v : Val β) => match v with
        | .rows rs => rs.head?.map Val.keys | _ => none) = _
    rw [evalE_rowsT]
    simp [Mem.init, curRows, hl]
  unfold csvMem0
  rw [hh, this]
  simp [Mem.init, hl]

theorem csvMem0_noheader (r0 : List String) (rest : List (List String)) (hh : ctx.header = false)
    (hl : ctx.csvLines = r0 :: rest) :
    csvMem0 ctx = { frame := none, items := none, rows := none, names := some (ctx.genNames r0.length) } := by
  have : evalE ctx noCall Mem.init (colnamesT false) [] = some (.keys (ctx.genNames r0.length)) := by
    show (match (Mem.init : Mem β).names with
      | some ns => some (Val.keys ns)
      | none => (evalE ctx noCall Mem.init widthT []).bind fun (v : Val β) => v.asNat.map fun n => Val.keys (ctx.genNames n)) = _
    rw [evalE_widthT]
    simp [Mem.init, curRows, hl, Val.asNat]
  unfold csvMem0
  rw [hh, this]
  simp [Mem.init]

theorem csvFile_mem0 (N : List String) (R : List (List String)) (hf : CsvFile ctx N R) :
    (csvMem0 ctx).items = none ∧ (csvMem0 ctx).names = some N ∧ curRows ctx (csvMem0 ctx) = R ∧ ctx.csvLines.isEmpty = false := by
  rcases hf with ⟨hh, hl⟩ | ⟨hh, hl, r0, rest, hR, hN⟩
  · rw [csvMem0_header ctx N R hh hl]
    exact ⟨rfl, rfl, rfl, by simp [hl]⟩
  · rw [csvMem0_noheader ctx r0 rest hh (by rw [hl, hR])]
    exact ⟨rfl, by rw [hN], by simp [curRows, hl], by simp [hl, hR]⟩

/-- the invariant of the conversions: the names and the data rows stay what they are. -/
def CsvInv (ctx : Ctx β) (N : List String) (R : List (List String)) (m : Mem β) : Prop := m.names = some N ∧ curRows ctx m = R

theorem csvInv_items (N : List String) (R : List (List String)) (m : Mem β) (l : List (Rec β)) (h : CsvInv ctx N R m) :
    CsvInv ctx N R { m with items := some l } := h

theorem execS_fileT (ρ : Env β) (m : Mem β) : execS ctx noCall fileT ρ m = some m := rfl

/-- without `keys`: one dict per data row, `zip(colnames, row)`; then the conversions. -/
theorem csv_run_nokeys (N : List String) (R : List (List String)) (b : Bool) (ρ : Env β) (m0 : Mem β)
    (hi : m0.items = none) (hn : m0.names = some N) (hr : curRows ctx m0 = R) :
    (match (execB ctx noCall [fileT, castItems (itemsT (colnamesT b))] ρ m0).bind
        (fun m' => evalE ctx noCall m' (itemsT (colnamesT b)) []) with
      | some (.recs l) => some l
      | _ => none) = ctx.convs.foldlM convStep (R.map fun cs => N.zip (cs.map ctx.ofStr)) := by
  rw [execB_cons, execS_fileT]
  simp only [Option.bind_some]
  have hD : ∀ (m : Mem β) ρ', CsvInv ctx N R m → evalE ctx noCall m (itemsT (colnamesT b)) ρ' =
      some (.recs (m.items.getD (R.map fun cs => N.zip (cs.map ctx.ofStr)))) := by
    intro m ρ' hm
    rw [evalE_itemsT ctx noCall m (colnamesT b) (.keys N) N ρ' (fun ρ'' => evalE_colnamesT ctx noCall m N hm.1 b ρ'') rfl, hm.2]
  have := csv_tail ctx noCall (CsvInv ctx N R) (csvInv_items ctx N R) _ _ ρ hD m0 ⟨hn, hr⟩
  rw [hi] at this
  exact this

/-- with `keys`, `drop` bound to the positions `ds`: every data row loses these positions (back to front; IndexError = `none`),
    the names are those requested, in the order of the HEADER; `zip`; then the conversions. -/
theorem csv_run_keys (N : List String) (R : List (List String)) (b : Bool) (ds : List Nat) (m0 : Mem β)
    (hi : m0.items = none) (hn : m0.names = some N) (hr : curRows ctx m0 = R) :
    (match (execB ctx noCall [fileT, dropLoopT (Term.sym "drop"), castItems (itemsT (keep (colnamesT b) (Term.sym "keys")))]
          [("drop", Val.list (ds.map fun (i : Nat) => Val.int i))] m0).bind
        (fun m' => evalE ctx noCall m' (itemsT (keep (colnamesT b) (Term.sym "keys"))) []) with
      | some (.recs l) => some l
      | _ => none) =
      (allM (fun cs => eraseAllM cs ds.reverse) R).bind fun R' =>
        ctx.convs.foldlM convStep (R'.map fun cs => (N.filter fun k => ctx.columns.contains k).zip (cs.map ctx.ofStr)) := by
  rw [execB_cons, execS_fileT]
  simp only [Option.bind_some]
  rw [execB_cons, execS_dropLoop, hr]
  cases hE : allM (fun cs => eraseAllM cs ds.reverse) R with
  | none => rfl
  | some R' =>
    simp only [Option.map_some, Option.bind_some]
    have hD : ∀ (m : Mem β) ρ', CsvInv ctx N R' m → evalE ctx noCall m (itemsT (keep (colnamesT b) (Term.sym "keys"))) ρ' =
        some (.recs (m.items.getD (R'.map fun cs => (N.filter fun k => ctx.columns.contains k).zip (cs.map ctx.ofStr)))) := by
      intro m ρ' hm
      rw [evalE_itemsT ctx noCall m (keep (colnamesT b) (Term.sym "keys")) _ (N.filter fun k => ctx.columns.contains k) ρ'
        (fun ρ'' => evalE_keep ctx noCall m (colnamesT b) N ρ'' (evalE_colnamesT ctx noCall m N hm.1 b ρ'') "keys" (Or.inr rfl))
        (asKeys_list_keys _), hm.2]
    have := csv_tail ctx noCall (CsvInv ctx N R') (csvInv_items ctx N R') _ _
      [("drop", Val.list (ds.map fun (i : Nat) => Val.int i))] hD { m0 with rows := some R' } ⟨hn, rfl⟩
    refine this.trans ?_
    show List.foldlM convStep (m0.items.getD _) ctx.convs = _
    rw [hi]; rfl

end

section
variable (ctx : Ctx β)

/-- no line at all: `cls([])`, whatever `keys`, `header`, `types`. -/
theorem evalLodReadCsvOnce_empty (h : ctx.csvLines = []) : evalLodReadCsvOnce ctx = some [] := by
  unfold evalLodReadCsvOnce
  simp only [read_csv_out ctx, h, List.isEmpty_nil, if_true]
  rfl

theorem evalLodReadCsv_empty (h : ctx.csvLines = []) : evalLodReadCsv ctx = some [] := by
  rw [evalLodReadCsv_def]
  simp only [read_csv_out ctx, h, List.isEmpty_nil, if_true]
  rfl

/-- **without `keys`**, ANY file (ragged too): `dict(zip(colnames, row))` per data row, then the conversions. -/
theorem evalLodReadCsvOnce_nokeys (N : List String) (R : List (List String)) (hf : CsvFile ctx N R) (hk : ctx.columns = []) :
    evalLodReadCsvOnce ctx = ctx.convs.foldlM convStep (R.map fun cs => N.zip (cs.map ctx.ofStr)) := by
  obtain ⟨hi, hn, hr, he⟩ := csvFile_mem0 ctx N R hf
  unfold evalLodReadCsvOnce
  simp only [read_csv_out ctx, he, hk, List.isEmpty_nil, if_true, Bool.false_eq_true, if_false]
  exact csv_run_nokeys ctx N R ctx.header [("drop", Val.list [])] (csvMem0 ctx) hi hn hr

/-- … and there the evaluator of `Model/PyEvalRead.lean` is right too (no `drop` to recompute). -/
theorem evalLodReadCsv_nokeys (N : List String) (R : List (List String)) (hf : CsvFile ctx N R) (hk : ctx.columns = []) :
    evalLodReadCsv ctx = ctx.convs.foldlM convStep (R.map fun cs => N.zip (cs.map ctx.ofStr)) := by
  obtain ⟨hi, hn, hr, he⟩ := csvFile_mem0 ctx N R hf
  rw [evalLodReadCsv_def]
  simp only [read_csv_out ctx, he, hk, List.isEmpty_nil, if_true, Bool.false_eq_true, if_false]
  exact csv_run_nokeys ctx N R ctx.header [] (csvMem0 ctx) hi hn hr

/-- **with `keys`**, any file with a first data row not wider than the header: `drop` = the positions below the width of
    the FIRST data row whose name is not requested; every data row loses them back to front (IndexError when a row is too
    short for one of them); the names are the requested ones in HEADER order; `zip` (stops at the shorter); conversions. -/
theorem evalLodReadCsvOnce_keys (N : List String) (R : List (List String)) (hf : CsvFile ctx N R) (hk : ctx.columns ≠ [])
    (r0 : List String) (rest : List (List String)) (hR : R = r0 :: rest) (hw : r0.length ≤ N.length) :
    evalLodReadCsvOnce ctx =
      (allM (fun cs => eraseAllM cs ((List.range r0.length).filter fun i => !ctx.columns.contains (N.getD i "")).reverse) R).bind
        fun R' => ctx.convs.foldlM convStep
          (R'.map fun cs => (N.filter fun k => ctx.columns.contains k).zip (cs.map ctx.ofStr)) := by
  obtain ⟨hi, hn, hr, he⟩ := csvFile_mem0 ctx N R hf
  have hk' : ctx.columns.isEmpty = false := by cases hc : ctx.columns <;> simp_all
  have hdrop := evalE_dropT ctx noCall (csvMem0 ctx) (colnamesT ctx.header) N r0 []
    (fun ρ' => evalE_colnamesT ctx noCall _ N hn ctx.header ρ') (by rw [hr, hR]; rfl) hw
  have hloc : inlinedLocals [fileT, dropLoopT (dropT (colnamesT ctx.header)),
      castItems (itemsT (keep (colnamesT ctx.header) (Term.sym "keys")))] = [dropT (colnamesT ctx.header)] := rfl
  have hbind : bindLocals [fileT, dropLoopT (dropT (colnamesT ctx.header)),
      castItems (itemsT (keep (colnamesT ctx.header) (Term.sym "keys")))] =
      [fileT, dropLoopT (Term.sym "drop"), castItems (itemsT (keep (colnamesT ctx.header) (Term.sym "keys")))] := rfl
  unfold evalLodReadCsvOnce
  simp only [read_csv_out ctx, he, hk', Bool.false_eq_true, if_false, Out.effs, hloc, allM, hdrop, Option.bind_some,
    Option.map_some, hbind, List.headD_cons]
  exact csv_run_keys ctx N R ctx.header _ (csvMem0 ctx) hi hn hr

/-- the rows as the model has them, the cells embedded. -/
theorem map_zip_embed (ofStr : String → β) (ks cs : List String) :
    ks.zip (cs.map ofStr) = embedRec ofStr (ks.zip cs) := by
  unfold embedRec
  induction ks generalizing cs with
  | nil => rfl
  | cons k ks ih => cases cs with
    | nil => rfl
    | cons c cs => simp [ih]

/-- **the rectangular file**: the model's `csvRestricted`, then the conversions. -/
theorem evalLodReadCsvOnce_rect (N : List String) (R : List (List String)) (hf : CsvFile ctx N R)
    (hrect : ∀ r ∈ R, r.length = N.length) (hne : R ≠ [] ∨ ctx.columns = []) :
    evalLodReadCsvOnce ctx = ctx.convs.foldlM convStep ((csvRestricted N R ctx.columns).map (embedRec ctx.ofStr)) := by
  by_cases hk : ctx.columns = []
  · rw [evalLodReadCsvOnce_nokeys ctx N R hf hk]
    simp only [csvRestricted, hk, List.isEmpty_nil, if_true, List.map_map]
    congr 1
    apply List.map_congr_left
    intro cs _
    exact map_zip_embed ctx.ofStr N cs
  · have hR : R ≠ [] := by rcases hne with h | h; exact h; exact absurd h hk
    obtain ⟨r0, rest, hR'⟩ := List.exists_cons_of_ne_nil hR
    have h0 : r0.length = N.length := hrect r0 (by rw [hR']; simp)
    rw [evalLodReadCsvOnce_keys ctx N R hf hk r0 rest hR' (Nat.le_of_eq h0), h0, range_filter_dropPos]
    rw [allM_eq_map _ (fun cs => keptCells N cs ctx.columns) R
      (fun cs hcs => eraseAllM_dropPos ctx.columns N cs (hrect cs hcs))]
    have hk' : ctx.columns.isEmpty = false := by cases hc : ctx.columns <;> simp_all
    simp only [Option.bind_some, csvRestricted, hk', Bool.false_eq_true, if_false, List.map_map]
    congr 1
    apply List.map_congr_left
    intro cs _
    exact map_zip_embed ctx.ofStr _ _

end

/-! ### the evaluator of `Model/PyEvalRead.lean` with `keys`: right when there is ONE data row -/

section
variable (ctx : Ctx β)

theorem evalE_reversed (call : List (Val β) → Option (Val β)) (e : Term) (m : Mem β) (ρ : Env β) :
    evalE ctx call m (Term.app "reversed" [e]) ρ =
      (evalE ctx call m e ρ).bind fun v => match v with | .list l => some (.list l.reverse) | _ => none := rfl

/-- after the deletion loop: the dicts of the rows of the moment under the requested names, then the conversions. -/
theorem csv_after_drop (N : List String) (R' : List (List String)) (b : Bool) (ρ : Env β) (m1 : Mem β)
    (hi : m1.items = none) (hn : m1.names = some N) (hr : curRows ctx m1 = R') :
    (match (execB ctx noCall [castItems (itemsT (keep (colnamesT b) (Term.sym "keys")))] ρ m1).bind
        (fun m' => evalE ctx noCall m' (itemsT (keep (colnamesT b) (Term.sym "keys"))) []) with
      | some (.recs l) => some l
      | _ => none) =
      ctx.convs.foldlM convStep (R'.map fun cs => (N.filter fun k => ctx.columns.contains k).zip (cs.map ctx.ofStr)) := by
  have hD : ∀ (m : Mem β) ρ', CsvInv ctx N R' m → evalE ctx noCall m (itemsT (keep (colnamesT b) (Term.sym "keys"))) ρ' =
      some (.recs (m.items.getD (R'.map fun cs => (N.filter fun k => ctx.columns.contains k).zip (cs.map ctx.ofStr)))) := by
    intro m ρ' hm
    rw [evalE_itemsT ctx noCall m (keep (colnamesT b) (Term.sym "keys")) _ (N.filter fun k => ctx.columns.contains k) ρ'
      (fun ρ'' => evalE_keep ctx noCall m (colnamesT b) N ρ'' (evalE_colnamesT ctx noCall m N hm.1 b ρ'') "keys" (Or.inr rfl))
      (asKeys_list_keys _), hm.2]
  have := csv_tail ctx noCall (CsvInv ctx N R') (csvInv_items ctx N R') _ _ ρ hD m1 ⟨hn, hr⟩
  rw [hi] at this
  exact this

/-- the deletion loop with `drop` INLINED (recomputed for every row), when there is one data row: the same as with the
    variable. -/
theorem execS_dropLoop_inlined_one (N r0 : List String) (b : Bool) (m0 : Mem β) (hn : m0.names = some N)
    (hr : curRows ctx m0 = [r0]) (hw : r0.length ≤ N.length) :
    execS ctx noCall (dropLoopT (dropT (colnamesT b))) [] m0 =
      (eraseAllM r0 ((List.range r0.length).filter fun i => !ctx.columns.contains (N.getD i "")).reverse).map
        fun cs' => { m0 with rows := some [cs'] } := by
  unfold dropLoopT
  rw [execS_for, evalE_rowsT, hr]
  simp only [Option.bind_some, iterRefs]
  show loopOver _ _ [Val.rowRef 0] _ = _
  have hb : bindPat ([] : Env β) (Term.sym "row") (Val.rowRef 0) = some [("row", Val.rowRef 0)] := rfl
  simp only [loopOver, hb, Option.bind_some]
  have hdrop := evalE_dropT ctx noCall { m0 with rows := some [r0] } (colnamesT b) N r0 [("row", Val.rowRef 0)]
    (fun ρ' => evalE_colnamesT ctx noCall { m0 with rows := some [r0] } N hn b ρ') rfl hw
  rw [execB_cons, execS_for, evalE_reversed, hdrop]
  simp only [Option.bind_some, iterRefs, iterVals, Option.map_some]
  have := eraseInner ctx noCall ([] : Env β) [] []
    ((List.range r0.length).filter fun i => !ctx.columns.contains (N.getD i "")).reverse r0 { m0 with rows := some [r0] } rfl
  simp only [List.length_nil, List.nil_append, List.map_reverse] at this
  rw [this]
  cases eraseAllM r0 ((List.range r0.length).filter fun i => !ctx.columns.contains (N.getD i "")).reverse <;> rfl

/-- **one data row**: the evaluator of `Model/PyEvalRead.lean` computes what `evalLodReadCsvOnce` computes. -/
theorem evalLodReadCsv_keys_one (N r0 : List String) (hf : CsvFile ctx N [r0]) (hk : ctx.columns ≠ [])
    (hw : r0.length ≤ N.length) :
    evalLodReadCsv ctx =
      (allM (fun cs => eraseAllM cs ((List.range r0.length).filter fun i => !ctx.columns.contains (N.getD i "")).reverse)
        [r0]).bind fun R' => ctx.convs.foldlM convStep
          (R'.map fun cs => (N.filter fun k => ctx.columns.contains k).zip (cs.map ctx.ofStr)) := by
  obtain ⟨hi, hn, hr, he⟩ := csvFile_mem0 ctx N [r0] hf
  have hk' : ctx.columns.isEmpty = false := by cases hc : ctx.columns <;> simp_all
  have hdrop := evalE_dropT ctx noCall (csvMem0 ctx) (colnamesT ctx.header) N r0 []
    (fun ρ' => evalE_colnamesT ctx noCall _ N hn ctx.header ρ') (by rw [hr]; rfl) hw
  have hloc : inlinedLocals [fileT, dropLoopT (dropT (colnamesT ctx.header)),
      castItems (itemsT (keep (colnamesT ctx.header) (Term.sym "keys")))] = [dropT (colnamesT ctx.header)] := rfl
  rw [evalLodReadCsv_def]
  simp only [read_csv_out ctx, he, hk', Bool.false_eq_true, if_false, Out.effs, hloc, allM, hdrop, Option.bind_some,
    Option.map_some, runOut_ret]
  rw [execB_cons, execS_fileT]
  simp only [Option.bind_some]
  rw [execB_cons, execS_dropLoop_inlined_one ctx N r0 ctx.header (csvMem0 ctx) hn hr hw]
  cases hE : eraseAllM r0 ((List.range r0.length).filter fun i => !ctx.columns.contains (N.getD i "")).reverse with
  | none => rfl
  | some cs' =>
    simp only [Option.map_some, Option.bind_some]
    exact csv_after_drop ctx N [cs'] ctx.header [] { csvMem0 ctx with rows := some [cs'] } hi hn rfl

theorem evalLodReadCsv_eq_once_one (N r0 : List String) (hf : CsvFile ctx N [r0]) (hk : ctx.columns ≠ [])
    (hw : r0.length ≤ N.length) : evalLodReadCsv ctx = evalLodReadCsvOnce ctx := by
  rw [evalLodReadCsv_keys_one ctx N r0 hf hk hw, evalLodReadCsvOnce_keys ctx N [r0] hf hk r0 [] rfl hw]

end

/-! ### restriction = selection afterwards; the order of the names; the conversions -/

theorem csvRestricted_is_filter (N : List String) (R : List (List String)) (keys : List String) (hk : keys ≠ [])
    (hrect : ∀ r ∈ R, r.length = N.length) :
    csvRestricted N R keys = (csvRestricted N R []).map fun r => r.filter fun p => keys.contains p.1 := by
  have hk' : keys.isEmpty = false := by cases keys <;> simp_all
  simp only [csvRestricted, hk', Bool.false_eq_true, if_false, List.isEmpty_nil, if_true, List.map_map]
  apply List.map_congr_left
  intro row hrow
  exact csv_restricted_row N row keys (hrect row hrow).symm

theorem csvRestricted_names (N : List String) (R : List (List String)) (keys : List String) (hk : keys ≠ [])
    (hrect : ∀ r ∈ R, r.length = N.length) (r : Rec String) (hr : r ∈ csvRestricted N R keys) :
    r.map (·.1) = N.filter fun k => keys.contains k := by
  rw [csvRestricted_is_filter N R keys hk hrect] at hr
  simp only [csvRestricted, List.isEmpty_nil, if_true, List.map_map, List.mem_map] at hr
  obtain ⟨row, hrow, rfl⟩ := hr
  have : (N.zip row).map (·.1) = N := List.map_fst_zip (by rw [hrect row hrow]; exact Nat.le_refl _)
  conv => rhs; rw [← this]
  rw [List.filter_map]
  rfl

theorem embedRec_filter (ofStr : String → β) (keys : List String) (r : Rec String) :
    (embedRec ofStr r).filter (fun p => keys.contains p.1) = embedRec ofStr (r.filter fun p => keys.contains p.1) := by
  unfold embedRec
  rw [List.filter_map]
  rfl

/-- a conversion whose key the dict does not have changes nothing (no KeyError). -/
theorem convRec_absent (k : String) (f : ConvFn β) (r : Rec β) (h : k ∉ r.map (·.1)) : convRec (k, f) r = some r := by
  have : lookup r k = none := by
    apply lookup_eq_none_of_not_has
    cases hh : Dict.has r k with
    | false => rfl
    | true =>
      unfold Dict.has at hh
      obtain ⟨p, hp, hpk⟩ := List.any_eq_true.mp hh
      exact absurd (List.mem_map.mpr ⟨p, hp, by simpa using hpk⟩) h
  simp [convRec, this]

/-- a conversion whose key the dict has: the value under that key is replaced by the converted one, in place. -/
theorem convRec_present (k : String) (f : ConvFn β) (r : Rec β) (v : β) (h : lookup r k = some v) :
    convRec (k, f) r = (f v).map fun v' => Dict.set r k v' := by
  simp [convRec, h]

end DI.PyEvalRead

/-
  Lemmas/Key.lean — `Key.le` is a linear order (so every generic theorem applies to the
  concrete cells the driver computes with).
-/
import Model.Basic
import Lemmas.Sort

namespace DI

theorem leCodes_total : ∀ a b, leCodes a b || leCodes b a
  | [], _ => by simp [leCodes]
  | _ :: _, [] => by simp [leCodes]
  | a :: as, b :: bs => by
    have ih := leCodes_total as bs
    simp only [leCodes]
    by_cases h1 : a < b
    · simp [h1]
    · by_cases h2 : b < a
      · simp [h2]
      · simp [h1, h2]; simpa using ih

theorem leCodes_trans : ∀ a b c, leCodes a b → leCodes b c → leCodes a c
  | [], _, _ => by simp [leCodes]
  | _ :: _, [], _ => by simp [leCodes]
  | _ :: _, _ :: _, [] => by simp [leCodes]
  | a :: as, b :: bs, c :: cs => by
    have ih := leCodes_trans as bs cs
    simp only [leCodes]
    intro h1 h2
    by_cases hab : a < b
    · by_cases hbc : b < c
      · have : a < c := by omega
        simp [this]
      · by_cases hcb : c < b
        · simp [hbc, hcb] at h2
        · have : b = c := by omega
          subst this; simp [hab]
    · by_cases hba : b < a
      · simp [hab, hba] at h1
      · have : a = b := by omega
        subst this
        by_cases hbc : a < c
        · simp [hbc]
        · by_cases hcb : c < a
          · simp [hbc, hcb] at h2
          · simp [hab, hbc, hcb] at h1 h2 ⊢
            exact ih h1 h2

theorem leCodes_antisymm : ∀ a b, leCodes a b → leCodes b a → a = b
  | [], [] => by simp
  | [], _ :: _ => by simp [leCodes]
  | _ :: _, [] => by simp [leCodes]
  | a :: as, b :: bs => by
    have ih := leCodes_antisymm as bs
    simp only [leCodes]
    intro h1 h2
    by_cases hab : a < b
    · have : ¬ b < a := by omega
      simp [hab, this] at h2
    · by_cases hba : b < a
      · simp [hab, hba] at h1
      · have : a = b := by omega
        subst this
        simp [hab] at h1 h2
        rw [ih h1 h2]

theorem Key.le_linOrd : LinOrd Key.le := by
  constructor
  · intro a b
    cases a <;> cases b <;> simp [Key.le, Key.rank]
    · rename_i x y; cases x <;> cases y <;> simp
    · omega
    · simpa using leCodes_total _ _
    · omega
  · intro a b c
    cases a <;> cases b <;> cases c <;> simp [Key.le, Key.rank]
    · rename_i x y z; cases x <;> cases y <;> cases z <;> simp
    · omega
    · exact leCodes_trans _ _ _
    · omega
  · intro a b
    cases a <;> cases b <;> simp [Key.le, Key.rank]
    · rename_i x y; cases x <;> cases y <;> simp
    · omega
    · exact leCodes_antisymm _ _
    · omega

end DI

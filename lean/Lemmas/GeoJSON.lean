import Model.GeoJSON

namespace DI.Geo

/-- the comma logic of the feature loop: with `k + len = n + 1` (the last feature has index `n`)
    the tokens are a well-formed comma-separated element list. -/
theorem featTokensFrom_elems (k n : Nat) (f : String) (rest : List String) (h : k + rest.length = n) :
    Elems (featTokensFrom k n (f :: rest)) (f :: rest) := by
  induction rest generalizing k f with
  | nil =>
    have : ¬ k < n := by simp at h; omega
    simp only [featTokensFrom, this, if_false, List.nil_append]
    exact Elems.one f
  | cons g rest ih =>
    have hk : k < n := by simp at h; omega
    have := ih (k + 1) g (by simp at h ⊢; omega)
    simp only [featTokensFrom, hk, if_true, List.cons_append, List.nil_append] at this ⊢
    exact Elems.cons f _ _ this

theorem featTokens_elems (f : String) (rest : List String) : Elems (featTokens (f :: rest)) (f :: rest) := by
  unfold featTokens
  exact featTokensFrom_elems 0 _ f rest (by simp)

theorem features_value (feats : List String) :
    Value (Tok.lbrack :: featTokens feats ++ [Tok.rbrack]) (Val.arr feats) := by
  cases feats with
  | nil => simpa [featTokens, featTokensFrom] using Value.emptyArr
  | cons f rest => exact Value.arr _ _ (featTokens_elems f rest)

theorem members_wellformed (metadata : List (String × String)) (feats : List String) :
    Members (metadata.flatMap (fun (k, v) => [Tok.str k, Tok.colon, Tok.blob v, Tok.comma]) ++
             (Tok.str "\"features\"" :: Tok.colon :: Tok.lbrack :: featTokens feats ++ [Tok.rbrack]))
            (metadata.map (fun (k, v) => (k, Val.blob v)) ++ [("\"features\"", Val.arr feats)]) := by
  induction metadata with
  | nil =>
    simp only [List.flatMap_nil, List.nil_append, List.map_nil]
    exact Members.one "\"features\"" _ _ (features_value feats)
  | cons m ms ih =>
    obtain ⟨k, v⟩ := m
    simp only [List.flatMap_cons, List.map_cons, List.cons_append, List.nil_append]
    have := Members.cons k [Tok.blob v] (Val.blob v) _ _ (Value.blob v) ih
    simpa using this

/-- the written file is one well-formed JSON object whose members are the metadata members, in
    order, followed by `"features"` holding exactly the features, in order — for every number of
    metadata members and of features, zero included. -/
theorem write_wellformed (metadata : List (String × String)) (feats : List String) :
    Object (writeTokens metadata feats)
      (metadata.map (fun (k, v) => (k, Val.blob v)) ++ [("\"features\"", Val.arr feats)]) := by
  have h := Object.mk _ _ (members_wellformed metadata feats)
  unfold writeTokens
  simpa [List.append_assoc] using h

/-! ### read -/

theorem read_rows (feats : List Feature) (columns : List String) :
    (readColumns feats columns).2 = feats.map (·.geometry) ∧
    ∀ c ∈ (readColumns feats columns).1, c.2.length = feats.length := by
  refine ⟨rfl, ?_⟩
  intro c hc
  simp only [readColumns, Read.frameFromRecords] at hc
  split at hc <;> (simp only [List.mem_map] at hc; obtain ⟨k, _, rfl⟩ := hc; simp)

theorem read_metadata (members : List (String × String)) (m : String × String) :
    m ∈ readMetadata members ↔ m ∈ members ∧ m.1 ≠ "features" := by
  simp [readMetadata, List.mem_filter]

end DI.Geo

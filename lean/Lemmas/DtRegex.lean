import Model.DtRegex

namespace DI.DtRe

theorem not_isNone_map {δ : Type} (xs : List (Option δ)) :
    (xs.map (·.isNone)).map (!·) = xs.map (·.isSome) := by
  induction xs with
  | nil => rfl
  | cons x xs ih => cases x <;> simp [ih]

theorem putMask_fill {δ β : Type} (f : δ → β) (xs : List (Option δ)) (out : List (Option β))
    (ho : out.length = xs.length) :
    putMask (xs.map (·.isSome)) out ((xs.filterMap id).map f) =
      (xs.zip out).map (fun p => match p.1 with | some y => some (f y) | none => p.2) := by
  induction xs generalizing out with
  | nil => simp [putMask]
  | cons x xs ih =>
    cases out with
    | nil => simp at ho
    | cons o os =>
      have ho' : os.length = xs.length := by simpa using ho
      have ih' := ih os ho'
      cases x with
      | none =>
        simp only [List.map_cons, Option.isSome_none, List.filterMap_cons, id, List.zip_cons_cons]
        cases hv : (xs.filterMap id).map f with
        | nil => rw [hv] at ih'; simp only [putMask]; rw [ih']
        | cons v vs => rw [hv] at ih'; simp only [putMask]; rw [ih']
      | some y =>
        simp only [List.map_cons, Option.isSome_some, List.filterMap_cons, id, List.zip_cons_cons, putMask]
        rw [ih']

/-- every dt extractor / to_string / scalar `replace`: at each non-missing position what `f` gives
    for that element, a missing value at every NaT, length preserved — for all lengths (0 included)
    and all patterns of missing values (all-missing included). -/
theorem pull_elementwise {δ β : Type} (f : δ → β) (xs : List (Option δ)) :
    pull f xs = xs.map (fun x => x.map f) := by
  unfold pull
  simp only []
  split
  · rename_i hall
    apply List.map_congr_left
    intro x hx
    have := List.all_eq_true.mp hall (x.isNone) (List.mem_map.mpr ⟨x, hx, rfl⟩)
    cases x <;> simp_all
  · rw [not_isNone_map, putMask_fill f xs _ (by simp)]
    apply List.ext_getElem
    · simp
    · intro i h1 h2
      simp only [List.getElem_map, List.getElem_zip]
      cases xs[i]'(by simpa using h2) <;> rfl

/-- the integer result type: exactly when there is at least one element and none is missing. -/
theorem any_isNone {δ : Type} (xs : List (Option δ)) : xs.any (·.isNone) = !xs.all (·.isSome) := by
  induction xs with
  | nil => rfl
  | cons x xs ih => cases x <;> simp [ih]

theorem pull_int_typing {δ : Type} (xs : List (Option δ)) :
    pullIntIsInteger xs = (!xs.isEmpty && xs.all (·.isSome)) := by
  unfold pullIntIsInteger
  simp only [List.all_map, List.any_map]
  have e1 : (id ∘ fun (x : Option δ) => x.isNone) = (fun x => x.isNone) := rfl
  rw [e1, any_isNone xs]
  cases xs with
  | nil => simp
  | cons x xs =>
    cases hs : (x :: xs).all (·.isSome)
    · simp
    · have : (x :: xs).all (fun x => x.isNone) = false := by
        cases x with
        | none => simp at hs
        | some y => simp
      simp [this]

/-- replace with scalar components = replace with the corresponding constant vectors. -/
theorem replace_elementwise {δ γ : Type} [Inhabited γ] (repl : δ → List (String × γ) → δ)
    (xs : List (Option δ)) (comps : List (String × Comp γ)) :
    replace repl xs comps =
      xs.zipIdx.map (fun (x, i) => x.map (fun y => repl y (comps.map (fun c => (c.1, c.2.at i))))) := by
  unfold replace
  split
  · rename_i hall
    rw [pull_elementwise]
    have hconst : ∀ i, comps.map (fun c => (c.1, c.2.at i)) = comps.map (fun c => (c.1, c.2.at 0)) := by
      intro i
      apply List.map_congr_left
      intro c hc
      have := List.all_eq_true.mp hall c hc
      cases hc2 : c.2 with
      | scalar v => simp [Comp.at, hc2]
      | vector vs => simp [hc2] at this
    apply List.ext_getElem
    · simp
    · intro i h1 h2
      simp [hconst]
  · rfl

theorem quarter_table : (List.range 13).tail.map quarterOf = [1, 1, 1, 2, 2, 2, 3, 3, 3, 4, 4, 4] := by decide

theorem quarter_typing {δ : Type} (xs : List (Option δ)) :
    quarterIsInteger xs = xs.all (·.isSome) := by
  unfold quarterIsInteger
  induction xs with
  | nil => rfl
  | cons x xs ih =>
    cases x <;> simp_all

/-- scalar arguments behave like one-element vectors. -/
theorem scalar_eq_singleton {δ β : Type} (f : δ → β) (x : Option δ) :
    scalarCall (pull f) x = x.map f := by
  simp [scalarCall, pull_elementwise]

theorem regex_elementwise {β : Type} (f : String → β) (xs : List (Option String)) (i : Nat) (h : i < xs.length) :
    (regexMap f xs)[i]? = some ((xs[i]).map f) := by
  simp [regexMap, h]

end DI.DtRe

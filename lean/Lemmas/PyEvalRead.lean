/-
  Lemmas/PyEvalRead.lean — what the evaluator of `Model/PyEvalRead.lean` computes on the regenerated bodies of the readers
  with a column / key restriction (C14): `DataFrame.from_json`, `ListOfDicts.from_json`, the `read_json` of both and
  `ListOfDicts.read_csv`.  The statements are in `Proofs/EvalC14.lean`.
-/
import Model.PyEvalRead
import Lemmas.ReadRestrict
import Lemmas.KeyUnion
import Proofs.TieC14

namespace DI.PyEvalRead

open DI DI.Py DI.Read DI.Gen DI.Tie.C14

variable {β : Type}

/-! ### small facts -/

theorem allM_map_some {α γ δ : Type} (g : α → δ) (f : δ → Option γ) (h : α → γ) (hf : ∀ a, f (g a) = some (h a)) (l : List α) :
    allM f (l.map g) = some (l.map h) := by
  induction l with
  | nil => rfl
  | cons a l ih => simp [allM, hf, ih]

theorem allM_eq_map {α γ : Type} (f : α → Option γ) (h : α → γ) (l : List α) (hf : ∀ a ∈ l, f a = some (h a)) :
    allM f l = some (l.map h) := by
  induction l with
  | nil => rfl
  | cons a l ih =>
    have h1 := hf a (by simp)
    have h2 := ih (fun b hb => hf b (by simp [hb]))
    simp [allM, h1, h2]

theorem asKeys_list_keys (ks : List String) : (Val.list (ks.map (Val.key (β := β)))).asKeys = some ks := by
  have := allM_map_some (Val.key (β := β)) Val.asKey id (fun _ => rfl) ks
  simpa [Val.asKeys] using this

/-- the cell of a record under a key, as `.get(k, None)` gives it. -/
def getVal (r : Rec β) (k : String) : Val β :=
  match lookup r k with
  | some v => .cell v
  | none => .none

theorem asCell_getVal (r : Rec β) (k : String) : (getVal r k).asCell = some (lookup r k) := by
  unfold getVal; cases lookup r k <;> rfl

theorem asCells_plucked (recs : List (Rec β)) (k : String) :
    (Val.list (recs.map fun r => getVal r k)).asCells = some (recs.map fun r => lookup r k) := by
  have := allM_map_some (fun r : Rec β => getVal r k) Val.asCell (fun r => lookup r k) (fun r => asCell_getVal r k) recs
  simpa [Val.asCells] using this

/-! ### dicts -/

theorem lookup_eq_none_of_not_has {α : Type} (d : Dict α) (k : String) (h : Dict.has d k = false) : lookup d k = none := by
  unfold lookup
  have : d.find? (fun p => p.1 == k) = none := by
    rw [List.find?_eq_none]
    intro p hp hk
    have : Dict.has d k = true := by unfold Dict.has; rw [List.any_eq_true]; exact ⟨p, hp, hk⟩
    rw [h] at this; cases this
  rw [this]; rfl

theorem has_of_lookup {α : Type} (d : Dict α) (k : String) (v : α) (h : lookup d k = some v) : Dict.has d k = true := by
  cases hh : Dict.has d k with
  | true => rfl
  | false => rw [lookup_eq_none_of_not_has d k hh] at h; cases h

/-- building a dict from pairs with distinct keys, one assignment after the other: the pairs, in order. -/
theorem foldl_set_nodup {α : Type} (ps : List (String × α)) (hnd : (ps.map (·.1)).Nodup) (d : Dict α)
    (hd : ∀ p ∈ ps, Dict.has d p.1 = false) :
    ps.foldl (fun d p => Dict.set d p.1 p.2) d = d ++ ps := by
  induction ps generalizing d with
  | nil => simp
  | cons p ps ih =>
    have hp : Dict.has d p.1 = false := hd p (by simp)
    simp only [List.map_cons, List.nodup_cons] at hnd
    simp only [List.foldl_cons]
    have hs : Dict.set d p.1 p.2 = d ++ [p] := by simp [Dict.set, hp]
    rw [hs, ih hnd.2]
    · simp
    · intro q hq
      have hq1 := hd q (by simp [hq])
      have hne : q.1 ≠ p.1 := fun e => hnd.1 (by rw [← e]; exact List.mem_map_of_mem hq)
      unfold Dict.has at hq1 ⊢
      simp only [List.any_append, hq1, Bool.false_or, List.any_cons, List.any_nil, Bool.or_false]
      simpa using fun e => hne e.symm

/-! ### expressions -/

section
variable (ctx : Ctx β) (call : List (Val β) → Option (Val β))

theorem evalE_listcomp (m : Mem β) (elem src : Term) (x : String) (conds : List Term) (ρ : Env β) :
    evalE ctx call m (Term.app "ListComp" [elem, Term.app "in" [Term.sym x, src, Term.app "if" conds]]) ρ =
      (evalE ctx call m src ρ).bind fun vs => (iterVals vs).bind fun its =>
        (filterMapM (fun v => (evalConds ctx call m conds ((x, v) :: ρ)).bind fun b =>
          if b then (evalE ctx call m elem ((x, v) :: ρ)).map some else some Option.none) its).map Val.list := rfl

theorem filterMapM_filter {α δ γ : Type} (f : δ → Option (Option γ)) (e : α → δ) (p : α → Bool) (g : α → γ) (l : List α)
    (hf : ∀ a, f (e a) = some (if p a then some (g a) else none)) :
    filterMapM f (l.map e) = some ((l.filter p).map g) := by
  induction l with
  | nil => rfl
  | cons a l ih =>
    simp only [List.map_cons, filterMapM, hf, ih, Option.bind_some, Option.map_some, List.filter_cons]
    cases p a <;> simp

/-- `[x for x in names if x in columns]`: the names, in THEIR order, that are requested. -/
theorem evalE_keep (m : Mem β) (namesT : Term) (ns : List String) (ρ : Env β)
    (hN : evalE ctx call m namesT ρ = some (.keys ns)) (w : String) (hw : w = "columns" ∨ w = "keys") :
    evalE ctx call m (keep namesT (Term.sym w)) ρ =
      some (.list ((ns.filter fun k => ctx.columns.contains k).map Val.key)) := by
  unfold keep
  rw [evalE_listcomp, hN]
  simp only [Option.bind_some, iterVals]
  rw [filterMapM_filter _ Val.key (fun k => ctx.columns.contains k) Val.key]
  · rfl
  · intro k
    have hx : evalE ctx call m (Term.sym "x") (("x", Val.key k) :: ρ) = some (Val.key k) := rfl
    have hc : evalE ctx call m (Term.sym w) (("x", Val.key k) :: ρ) = some (.keys ctx.columns) := by
      rcases hw with rfl | rfl <;> rfl
    have hcond : evalConds ctx call m [Term.app "In" [Term.sym "x", Term.sym w]] (("x", Val.key k) :: ρ) =
        some (ctx.columns.contains k) := by
      show ((evalE ctx call m (Term.sym "x") (("x", Val.key k) :: ρ)).bind fun va =>
        (evalE ctx call m (Term.sym w) (("x", Val.key k) :: ρ)).bind fun vb => (pyIn m va vb).map Val.bool).bind _ = _
      rw [hx, hc]
      simp [pyIn, Val.asKey, evalConds, truthy]
    rw [hcond, hx]
    simp only [Option.bind_some, Option.map_some]
    cases ctx.columns.contains k <;> rfl

/-- `[x.get(k, None) for x in records]`. -/
theorem evalE_pluck (m : Mem β) (recsT : Term) (recs : List (Rec β)) (key : String) (ρ : Env β)
    (hR : ∀ ρ', evalE ctx call m recsT ρ' = some (.recs recs)) :
    evalE ctx call m (Term.app "ListComp" [Term.app ".get" [Term.sym "x", Term.sym "k", Term.sym "None"],
        Term.app "in" [Term.sym "x", recsT, Term.app "if" []]]) (("k", Val.key key) :: ρ) =
      some (.list (recs.map fun r => getVal r key)) := by
  rw [evalE_listcomp, hR]
  simp only [Option.bind_some, iterVals]
  rw [filterMapM_filter _ Val.dict (fun _ => true) (fun r => getVal r key)]
  · rw [List.filter_eq_self.mpr (fun _ _ => rfl)]; rfl
  · intro r
    rfl

/-- the frame the comprehension builds from keys `ks`. -/
def plucked (recs : List (Rec β)) (ks : List String) : Dict (ColV β) :=
  ks.map fun k => (k, ColV.list (recs.map fun r => lookup r k))

theorem evalE_dictcomp (m : Mem β) (ke ve src : Term) (k : String) (ρ : Env β) :
    evalE ctx call m (Term.app "DictComp" [Term.app "pair" [ke, ve], Term.app "in" [Term.sym k, src, Term.app "if" []]]) ρ =
      match m.frame with
      | some d => some (.frame d)
      | none =>
        (evalE ctx call m src ρ).bind fun vs => vs.asKeys.bind fun ks =>
          (allM (fun key => (evalE ctx call m ke ((k, .key key) :: ρ)).bind fun vk => vk.asKey.bind fun kk =>
            (evalE ctx call m ve ((k, .key key) :: ρ)).bind fun vv => vv.asCells.map fun xs => (kk, ColV.list xs)) ks).map fun ps =>
              .frame (ps.foldl (fun d p => Dict.set d p.1 p.2) []) := rfl

/-- `{k: [x.get(k, None) for x in records] for k in keys}`: the dict once written, else one plucked list per key. -/
theorem evalE_columnsOf (m : Mem β) (recsT ksT : Term) (recs : List (Rec β)) (vks : Val β) (ks : List String) (ρ : Env β)
    (hR : ∀ ρ', evalE ctx call m recsT ρ' = some (.recs recs))
    (hK : evalE ctx call m ksT ρ = some vks) (hks : vks.asKeys = some ks) (hnd : ks.Nodup) :
    evalE ctx call m (columnsOf recsT ksT) ρ = some (.frame (m.frame.getD (plucked recs ks))) := by
  unfold columnsOf
  rw [evalE_dictcomp]
  cases hf : m.frame with
  | some d => rfl
  | none =>
    simp only [hK, hks, Option.bind_some, Option.getD_none]
    rw [allM_eq_map _ (fun key => (key, ColV.list (recs.map fun r => lookup r key)))]
    · simp only [Option.map_some]
      rw [foldl_set_nodup]
      · rfl
      · rw [List.map_map]
        have : ((fun x : String × ColV β => x.1) ∘ fun key => (key, ColV.list (recs.map fun r => lookup r key))) = id := by
          funext key; rfl
        rw [this, List.map_id]; exact hnd
      · intro p _; rfl
    · intro key _
      have hk : evalE ctx call m (Term.sym "k") (("k", Val.key key) :: ρ) = some (Val.key key) := rfl
      rw [hk, evalE_pluck ctx call m recsT recs key ρ hR]
      simp only [Option.bind_some, Val.asKey, asCells_plucked, Option.map_some]

end

/-! ### `DataFrame.from_json` -/

/-- `data[name] = DataFrameColumn(data[name], dtype)`: KeyError (`none`) for a name that is not a key of `data`, `none`
    when the cast fails; the column keeps its place. -/
def castStep (d : Dict (ColV β)) (p : String × CastFn β) : Option (Dict (ColV β)) :=
  (lookup d p.1).bind fun c => (p.2 c.cells).map fun xs => Dict.set d p.1 (ColV.column xs)

section
variable (ctx : Ctx β) (call : List (Val β) → Option (Val β))

theorem execS_store (tgt k e : Term) (ρ : Env β) (m : Mem β) :
    execS ctx call (Term.app "store" [Term.app "getitem" [tgt, k], e]) ρ m =
      (evalE ctx call m e ρ).bind fun ve => (evalE ctx call m tgt ρ).bind fun vt => (evalE ctx call m k ρ).bind fun vk =>
        match vt, vk.asKey with
        | .frame d, some key => ve.asColV.map fun c => { m with frame := some (Dict.set d key c) }
        | .itemRef i, some key => (match ve, m.items with
            | .cell v, some l => if i < l.length then some { m with items := some (l.modify i fun r => Dict.set r key v) } else Option.none
            | _, _ => Option.none)
        | _, _ => Option.none := rfl

theorem evalE_DFC (c f : Term) (ρ : Env β) (m : Mem β) :
    evalE ctx call m (Term.app "DataFrameColumn" [c, f]) ρ =
      (evalE ctx call m c ρ).bind fun vc => (evalE ctx call m f ρ).bind fun vf => match vc, vf with
        | .cells xs, .castFn g => (g xs).map Val.column
        | .column xs, .castFn g => (g xs).map Val.column
        | _, _ => Option.none := rfl

theorem evalE_getitem (d k : Term) (ρ : Env β) (m : Mem β) :
    evalE ctx call m (Term.app "getitem" [d, k]) ρ =
      (evalE ctx call m d ρ).bind fun vd => (evalE ctx call m k ρ).bind fun vk => match vd, vk with
        | .frame f, .key key => (lookup f key).map fun c => match c with | .list xs => .cells xs | .column xs => .column xs
        | .itemRef i, .key key => (derefItem m i).bind fun r => (lookup r key).map Val.cell
        | .rows rs, .int 0 => (rs[0]?).map Val.row
        | .keys ks, .int i => if 0 ≤ i then (ks[i.toNat]?).map Val.key else Option.none
        | _, _ => Option.none := rfl

theorem execB_cons (t : Term) (ts : List Term) (ρ : Env β) (m : Mem β) :
    execB ctx call (t :: ts) ρ m = (execS ctx call t ρ m).bind fun m' => execB ctx call ts ρ m' := rfl

theorem execB_nil (ρ : Env β) (m : Mem β) : execB ctx call [] ρ m = some m := rfl

theorem execS_for (pat it : Term) (body : List Term) (ρ : Env β) (m : Mem β) :
    execS ctx call (Term.app "for" [pat, it, Term.app "block" body]) ρ m =
      (evalE ctx call m it ρ).bind fun vi => (iterRefs m vi).bind fun r =>
        loopOver (fun ρ' m' => execB ctx call body ρ' m') (bindPat ρ pat) r.1 r.2 := rfl

/-- one cast: `data[name] = DataFrameColumn(data[name], dtype)`. -/
theorem castBody_eq (dataT : Term) (F0 : Dict (ColV β)) (n : String) (f : CastFn β) (ρ : Env β) (m : Mem β)
    (hD : ∀ ρ', evalE ctx call m dataT ρ' = some (.frame (m.frame.getD F0))) :
    execB ctx call [Term.app "store" [Term.app "getitem" [dataT, Term.sym "name"],
        Term.app "DataFrameColumn" [Term.app "getitem" [dataT, Term.sym "name"], Term.sym "dtype"]]]
        (("dtype", Val.castFn f) :: ("name", Val.key n) :: ρ) m =
      (castStep (m.frame.getD F0) (n, f)).map fun d => { m with frame := some d } := by
  have hn : evalE ctx call m (Term.sym "name") (("dtype", Val.castFn f) :: ("name", Val.key n) :: ρ) = some (Val.key n) := rfl
  have hdt : evalE ctx call m (Term.sym "dtype") (("dtype", Val.castFn f) :: ("name", Val.key n) :: ρ) = some (Val.castFn f) := rfl
  rw [execB_cons, execS_store, evalE_DFC, evalE_getitem, hD, hn, hdt]
  simp only [Option.bind_some, castStep, Val.asKey]
  cases hl : lookup (m.frame.getD F0) n with
  | none => rfl
  | some c =>
    cases c with
    | list xs =>
      simp only [Option.map_some, Option.bind_some, ColV.cells]
      cases f xs <;> rfl
    | column xs =>
      simp only [Option.map_some, Option.bind_some, ColV.cells]
      cases f xs <;> rfl

/-- **the casts**: in the order of `dtypes`, every one on the dict as the previous ones left it. -/
theorem castLoop_eq (dataT : Term) (F0 : Dict (ColV β)) (ρ : Env β)
    (hD : ∀ (m : Mem β) ρ', m.items = none → evalE ctx call m dataT ρ' = some (.frame (m.frame.getD F0)))
    (ps : List (String × CastFn β)) (m : Mem β) (hm : m.items = none) :
    ((loopOver (fun ρ' m' => execB ctx call [Term.app "store" [Term.app "getitem" [dataT, Term.sym "name"],
          Term.app "DataFrameColumn" [Term.app "getitem" [dataT, Term.sym "name"], Term.sym "dtype"]]] ρ' m')
        (bindPat ρ (Term.app "tuple" [Term.sym "name", Term.sym "dtype"]))
        (ps.map fun p => Val.pair (.key p.1) (.castFn p.2)) m).map fun m' => m'.frame.getD F0) =
      ps.foldlM castStep (m.frame.getD F0) ∧
    ∀ m', loopOver (fun ρ' m' => execB ctx call [Term.app "store" [Term.app "getitem" [dataT, Term.sym "name"],
          Term.app "DataFrameColumn" [Term.app "getitem" [dataT, Term.sym "name"], Term.sym "dtype"]]] ρ' m')
        (bindPat ρ (Term.app "tuple" [Term.sym "name", Term.sym "dtype"]))
        (ps.map fun p => Val.pair (.key p.1) (.castFn p.2)) m = some m' → m'.items = none := by
  induction ps generalizing m with
  | nil => exact ⟨rfl, fun m' h => by cases h; exact hm⟩
  | cons p ps ih =>
    have hb : bindPat ρ (Term.app "tuple" [Term.sym "name", Term.sym "dtype"]) (Val.pair (.key p.1) (.castFn p.2)) =
        some (("dtype", Val.castFn p.2) :: ("name", Val.key p.1) :: ρ) := rfl
    simp only [List.map_cons, loopOver, hb, Option.bind_some, List.foldlM_cons]
    rw [castBody_eq ctx call dataT F0 p.1 p.2 ρ m (fun ρ' => hD m ρ' hm)]
    cases hc : castStep (m.frame.getD F0) (p.1, p.2) with
    | none => exact ⟨rfl, fun m' h => by cases h⟩
    | some d =>
      simp only [Option.map_some, Option.bind_some]
      exact ih { m with frame := some d } hm

end

/-- the records `DataFrame.from_json` works on: the parsed text, or the list given. -/
def recordsOf (ctx : Ctx β) : Option (List (Rec β)) :=
  match ctx.input with
  | .text s => (match ctx.loads s with | some (.records l) => some l | _ => none)
  | .recs l => some l
  | _ => none

/-- the keys kept: the first-seen union of the records' keys, in THAT order, those requested (all when nothing is requested). -/
def keptKeys (recs : List (Rec β)) (columns : List String) : List String :=
  if columns.isEmpty then unionKeys recs else (unionKeys recs).filter fun k => columns.contains k

theorem keptKeys_nodup (recs : List (Rec β)) (columns : List String) : (keptKeys recs columns).Nodup := by
  unfold keptKeys
  split
  · exact unionKeys_nodup recs
  · exact (unionKeys_nodup recs).sublist List.filter_sublist

theorem plucked_keptKeys (recs : List (Rec β)) (columns : List String) :
    plucked recs (keptKeys recs columns) = (frameFromRecords recs columns).map fun p => (p.1, ColV.list p.2) := by
  unfold plucked keptKeys frameFromRecords
  simp only [List.map_map]
  split <;> rfl

section
variable (ctx : Ctx β)

theorem runOut_ret (call : List (Val β) → Option (Val β)) (m : Mem β) (effs : List Term) (t : Term) :
    runOut ctx call m (Out.ret effs t) = (execB ctx call effs [] m).bind fun m' => evalE ctx call m' t [] := rfl

theorem evalE_castColumns_cls (recsT ksT : Term) (recs : List (Rec β)) (vks : Val β) (ks : List String)
    (hR : ∀ (m : Mem β) ρ', m.items = none → evalE ctx noCall m recsT ρ' = some (.recs recs))
    (hK : ∀ (m : Mem β) ρ', m.items = none → evalE ctx noCall m ksT ρ' = some vks) (hks : vks.asKeys = some ks) (hnd : ks.Nodup) :
    (match runOut ctx noCall Mem.init (Out.ret [castColumns (columnsOf recsT ksT)]
        (Term.app "cls" [Term.app "=**" [columnsOf recsT ksT]])) with
      | some (.frame d) => some d
      | _ => none) = ctx.casts.foldlM castStep (plucked recs ks) := by
  have hD : ∀ (m : Mem β) ρ', m.items = none →
      evalE ctx noCall m (columnsOf recsT ksT) ρ' = some (.frame (m.frame.getD (plucked recs ks))) :=
    fun m ρ' hm => evalE_columnsOf ctx noCall m recsT ksT recs vks ks ρ' (fun ρ'' => hR m ρ'' hm) (hK m ρ' hm) hks hnd
  have hloop := castLoop_eq ctx noCall (columnsOf recsT ksT) (plucked recs ks) [] hD ctx.casts Mem.init rfl
  have hit : evalE ctx noCall Mem.init (Term.app ".items" [Term.sym "dtypes"]) [] =
      some (.list (ctx.casts.map fun p => Val.pair (.key p.1) (.castFn p.2))) := rfl
  rw [runOut_ret, execB_cons]
  unfold castColumns
  rw [execS_for, hit]
  simp only [Option.bind_some, iterRefs, iterVals, Option.map_some]
  cases hl : loopOver (fun ρ' m' => execB ctx noCall [Term.app "store" [Term.app "getitem" [columnsOf recsT ksT, Term.sym "name"],
          Term.app "DataFrameColumn" [Term.app "getitem" [columnsOf recsT ksT, Term.sym "name"], Term.sym "dtype"]]] ρ' m')
        (bindPat [] (Term.app "tuple" [Term.sym "name", Term.sym "dtype"]))
        (ctx.casts.map fun p => Val.pair (.key p.1) (.castFn p.2)) Mem.init with
  | none =>
    rw [hl] at hloop
    exact hloop.1
  | some m' =>
    rw [hl] at hloop
    have hm' := hloop.2 m' rfl
    have hcls : evalE ctx noCall m' (Term.app "cls" [Term.app "=**" [columnsOf recsT ksT]]) [] =
        (evalE ctx noCall m' (columnsOf recsT ksT) []).bind fun vd => match vd with | .frame f => some (.frame f) | _ => none := rfl
    simp only [Option.bind_some, execB_nil, hcls, hD m' [] hm']
    exact hloop.1

end

section
variable (ctx : Ctx β)

def loadsT : Term := Term.app "json.loads" [Term.sym "string", Term.app "=**" [Term.sym "kwargs"]]
def keysT (recsT : Term) : Term := Term.app "util.unique_keys" [Term.app "itertools.chain" [Term.app "*" [recsT]]]

theorem truth_isStr :
    truthOf ctx noCall (Term.app "isinstance" [Term.sym "string", Term.sym "str"]) =
      (match ctx.input with | .text _ => true | _ => false) := rfl

theorem truth_columns (w : String) (hw : w = "columns" ∨ w = "keys") :
    truthOf ctx noCall (Term.sym w) = !ctx.columns.isEmpty := by
  rcases hw with rfl | rfl <;> rfl

theorem evalE_loadsT (m : Mem β) (hm : m.items = none) (ρ : Env β) :
    evalE ctx noCall m loadsT ρ =
      (match ctx.input with | .text s => (ctx.loads s).map Parsed.toVal | _ => none) := by
  show (match m.items with
    | some l => some (Val.recs l)
    | none => (evalE ctx noCall m (Term.sym "string") ρ).bind fun (v : Val β) => match v with
      | .text s => (ctx.loads s).map Parsed.toVal
      | _ => none) = _
  rw [hm]
  show (some ctx.input).bind _ = _
  cases ctx.input <;> rfl

theorem evalE_keysT (recsT : Term) (recs : List (Rec β)) (m : Mem β) (ρ : Env β)
    (hR : evalE ctx noCall m recsT ρ = some (.recs recs)) :
    evalE ctx noCall m (keysT recsT) ρ = some (.keys (unionKeys recs)) := by
  show (evalE ctx noCall m recsT ρ).bind _ = _
  rw [hR]; rfl

theorem truth_isList (recsT : Term) (v : Val β) (hR : evalE ctx noCall Mem.init recsT [] = some v) :
    truthOf ctx noCall (Term.app "isinstance" [recsT, Term.sym "list"]) = isList v := by
  unfold truthOf
  show (match (evalE ctx noCall Mem.init recsT []).map (fun (v : Val β) => Val.bool (β := β) (isList v)) with
    | some (v : Val β) => truthy v | none => false) = _
  rw [hR]; rfl

/-- the common part: records found, every branch of `columns`. -/
theorem df_build (recsT : Term) (recs : List (Rec β))
    (hR : ∀ (m : Mem β) ρ', m.items = none → evalE ctx noCall m recsT ρ' = some (.recs recs)) :
    (match runOut ctx noCall Mem.init
        (let keys := keysT recsT
         let build (ks : Term) := Out.ret [castColumns (columnsOf recsT ks)] (Term.app "cls" [Term.app "=**" [columnsOf recsT ks]])
         if truthOf ctx noCall (Term.sym "columns") then build (keep keys (Term.sym "columns")) else build keys) with
      | some (.frame d) => some d
      | _ => none) = ctx.casts.foldlM castStep (plucked recs (keptKeys recs ctx.columns)) := by
  have hK : ∀ (m : Mem β) ρ', m.items = none → evalE ctx noCall m (keysT recsT) ρ' = some (.keys (unionKeys recs)) :=
    fun m ρ' hm => evalE_keysT ctx recsT recs m ρ' (hR m ρ' hm)
  simp only [truth_columns ctx "columns" (Or.inl rfl)]
  cases hc : ctx.columns.isEmpty with
  | true =>
    simp only [Bool.not_true, Bool.false_eq_true, if_false]
    have := evalE_castColumns_cls ctx recsT (keysT recsT) recs _ (unionKeys recs) hR hK rfl (unionKeys_nodup recs)
    rw [this]; simp [keptKeys, hc]
  | false =>
    simp only [Bool.not_false, if_true]
    have hK' : ∀ (m : Mem β) ρ', m.items = none → evalE ctx noCall m (keep (keysT recsT) (Term.sym "columns")) ρ' =
        some (.list (((unionKeys recs).filter fun k => ctx.columns.contains k).map Val.key)) :=
      fun m ρ' hm => evalE_keep ctx noCall m (keysT recsT) (unionKeys recs) ρ' (hK m ρ' hm) "columns" (Or.inl rfl)
    have := evalE_castColumns_cls ctx recsT (keep (keysT recsT) (Term.sym "columns")) recs _ _ hR hK' (asKeys_list_keys _)
      ((unionKeys_nodup recs).sublist List.filter_sublist)
    rw [this]; simp [keptKeys, hc]

/-- **`DataFrame.from_json`, evaluated** on a text that parses to a list of records, or on such a list: the plucked
    columns of the kept keys, then the casts in the order of `dtypes`. -/
theorem evalDfFromJson_eq (recs : List (Rec β)) (h : recordsOf ctx = some recs) :
    evalDfFromJson ctx = ctx.casts.foldlM castStep (plucked recs (keptKeys recs ctx.columns)) := by
  unfold evalDfFromJson
  rw [df_from_json_code, truth_isStr]
  unfold recordsOf at h
  cases hin : ctx.input with
  | text s =>
    rw [hin] at h
    dsimp only at h
    simp only [if_true]
    have hl : (ctx.loads s).map Parsed.toVal = some (.recs recs) := by
      cases hls : ctx.loads s with
      | none => rw [hls] at h; cases h
      | some p => cases p with
        | records l => rw [hls] at h; cases h; rfl
        | other => rw [hls] at h; cases h
    have hR : ∀ (m : Mem β) ρ', m.items = none → evalE ctx noCall m loadsT ρ' = some (.recs recs) := by
      intro m ρ' hm; rw [evalE_loadsT ctx m hm, hin]; exact hl
    have ht : truthOf ctx noCall (Term.app "isinstance" [loadsT, Term.sym "list"]) = true :=
      truth_isList ctx loadsT _ (hR Mem.init [] rfl)
    show (match runOut ctx noCall Mem.init (if truthOf ctx noCall (Term.app "isinstance" [loadsT, Term.sym "list"]) then _ else _) with
      | some (.frame d) => some d | _ => none) = _
    rw [ht]
    exact df_build ctx loadsT recs hR
  | recs l =>
    rw [hin] at h; cases h
    simp only [Bool.false_eq_true, if_false]
    have hR : ∀ (m : Mem β) ρ', m.items = none → evalE ctx noCall m (Term.sym "string") ρ' = some (.recs recs) := by
      intro m ρ' _; show some ctx.input = _; rw [hin]
    have ht : truthOf ctx noCall (Term.app "isinstance" [Term.sym "string", Term.sym "list"]) = true :=
      truth_isList ctx (Term.sym "string") _ (hR Mem.init [] rfl)
    show (match runOut ctx noCall Mem.init (if truthOf ctx noCall (Term.app "isinstance" [Term.sym "string", Term.sym "list"]) then _ else _) with
      | some (.frame d) => some d | _ => none) = _
    rw [ht]
    exact df_build ctx (Term.sym "string") recs hR
  | _ => rw [hin] at h; cases h

end

/-! ### `ListOfDicts.from_json` -/

theorem modify_append_cons {α : Type} (pre : List α) (r : α) (post : List α) (f : α → α) :
    (pre ++ r :: post).modify pre.length f = pre ++ f r :: post := by
  induction pre with
  | nil => rfl
  | cons a pre ih => simp [ih]

theorem getElem?_append_cons {α : Type} (pre : List α) (r : α) (post : List α) :
    (pre ++ r :: post)[pre.length]? = some r := by simp

/-- a loop over the dicts of the list BY REFERENCE whose body rewrites the dict it points at: every dict in turn. -/
theorem loopItems (body : Env β → Mem β → Option (Mem β)) (bind : Val β → Option (Env β)) (G : Rec β → Option (Rec β))
    (P : Rec β → Prop)
    (hb : ∀ i, ∃ ρ, bind (.itemRef i) = some ρ ∧ ∀ (m : Mem β) pre r post, i = pre.length → m.items = some (pre ++ r :: post) →
      P r → body ρ m = (G r).map fun r' => { m with items := some (pre ++ r' :: post) })
    (post pre : List (Rec β)) (m : Mem β) (hm : m.items = some (pre ++ post)) (hP : ∀ r ∈ post, P r) :
    loopOver body bind ((List.range' pre.length post.length).map Val.itemRef) m =
      (allM G post).map fun post' => { m with items := some (pre ++ post') } := by
  induction post generalizing pre m with
  | nil =>
    simp only [List.length_nil, List.range'_zero, List.map_nil, loopOver, allM, Option.map_some]
    congr 1; cases m; simp_all
  | cons r post ih =>
    obtain ⟨ρ, hρ, hbody⟩ := hb pre.length
    simp only [List.length_cons, List.range'_succ, List.map_cons, loopOver, hρ, Option.bind_some, allM]
    rw [hbody m pre r post rfl hm (hP r (by simp))]
    cases hG : G r with
    | none => rfl
    | some r' =>
      simp only [Option.map_some, Option.bind_some]
      have := ih (pre ++ [r']) { m with items := some (pre ++ r' :: post) } (by simp) (fun q hq => hP q (by simp [hq]))
      simp only [List.length_append, List.length_singleton] at this
      rw [this]
      cases allM G post with
      | none => rfl
      | some post' => simp

theorem loopItems_all (body : Env β → Mem β → Option (Mem β)) (bind : Val β → Option (Env β)) (G : Rec β → Option (Rec β))
    (P : Rec β → Prop)
    (hb : ∀ i, ∃ ρ, bind (.itemRef i) = some ρ ∧ ∀ (m : Mem β) pre r post, i = pre.length → m.items = some (pre ++ r :: post) →
      P r → body ρ m = (G r).map fun r' => { m with items := some (pre ++ r' :: post) })
    (l : List (Rec β)) (m : Mem β) (hm : m.items = some l) (hP : ∀ r ∈ l, P r) :
    loopOver body bind ((List.range l.length).map Val.itemRef) m = (allM G l).map fun l' => { m with items := some l' } := by
  have := loopItems body bind G P hb l [] m (by simpa using hm) hP
  simpa [List.range_eq_range'] using this

theorem has_del_ne (r : Rec β) (d d' : String) (h : d' ≠ d) : Dict.has (Dict.del r d) d' = Dict.has r d' := by
  unfold Dict.has Dict.del
  induction r with
  | nil => rfl
  | cons p r ih =>
    simp only [List.filter_cons, List.any_cons]
    by_cases hp : p.1 = d
    · have : (p.1 != d) = false := by simp [hp]
      have h2 : (p.1 == d') = false := by simp [hp]; exact fun e => h e.symm
      simp [this, h2, ih]
    · have : (p.1 != d) = true := by simp [hp]
      simp [this, ih]

/-- what one conversion does to one dict: `if key in item: item[key] = type(item[key])`. -/
def convRec (p : String × ConvFn β) (r : Rec β) : Option (Rec β) :=
  match lookup r p.1 with
  | none => some r
  | some v => (p.2 v).map fun v' => Dict.set r p.1 v'

/-- `for item in data: if key in item: item[key] = type(item[key])`. -/
def convStep (l : List (Rec β)) (p : String × ConvFn β) : Option (List (Rec β)) := allM (convRec p) l

section
variable (ctx : Ctx β) (call : List (Val β) → Option (Val β))

def delBody : List Term := [Term.app "del" [Term.app "getitem" [Term.sym "item", Term.sym "key"]]]

theorem execS_del (tgt k : Term) (ρ : Env β) (m : Mem β) :
    execS ctx call (Term.app "del" [Term.app "getitem" [tgt, k]]) ρ m =
      (evalE ctx call m tgt ρ).bind fun vt => (evalE ctx call m k ρ).bind fun vk =>
        match vt, vk with
        | .itemRef i, .key key => (derefItem m i).bind fun r =>
            if Dict.has r key then m.items.map fun l => { m with items := some (l.modify i fun r => Dict.del r key) } else Option.none
        | .rowRef i, .int j => (derefRow m i).bind fun cs =>
            if 0 ≤ j ∧ j.toNat < cs.length then m.rows.map fun rs => { m with rows := some (rs.modify i fun cs => cs.eraseIdx j.toNat) }
            else Option.none
        | _, _ => Option.none := rfl

theorem execB_del (ρ : Env β) (m : Mem β) (i : Nat) (d : String) :
    execB ctx call delBody (("key", Val.key d) :: ("item", Val.itemRef i) :: ρ) m =
      (derefItem m i).bind fun r =>
        if Dict.has r d then m.items.map fun l => { m with items := some (l.modify i fun r => Dict.del r d) } else none := by
  have h1 : evalE ctx call m (Term.sym "item") (("key", Val.key d) :: ("item", Val.itemRef i) :: ρ) = some (Val.itemRef i) := rfl
  have h2 : evalE ctx call m (Term.sym "key") (("key", Val.key d) :: ("item", Val.itemRef i) :: ρ) = some (Val.key d) := rfl
  unfold delBody
  rw [execB_cons, execS_del, h1, h2]
  simp only [Option.bind_some]
  cases derefItem m i with
  | none => rfl
  | some r =>
    simp only [Option.bind_some]
    split
    · cases m.items <;> rfl
    · rfl

theorem delInner (ρ : Env β) (pre post : List (Rec β)) (ds : List String) (r : Rec β) (m : Mem β)
    (hm : m.items = some (pre ++ r :: post)) (hnd : ds.Nodup) (hin : ∀ d ∈ ds, Dict.has r d = true) :
    loopOver (fun ρ' m' => execB ctx call delBody ρ' m') (bindPat (("item", Val.itemRef pre.length) :: ρ) (Term.sym "key"))
        (ds.map Val.key) m =
      some { m with items := some (pre ++ (r.filter fun p => !ds.contains p.1) :: post) } := by
  induction ds generalizing r m with
  | nil =>
    have hf : (r.filter fun p => !([] : List String).contains p.1) = r := List.filter_eq_self.mpr (fun _ _ => rfl)
    simp only [List.map_nil, loopOver, hf]
    congr 1; cases m; simp_all
  | cons d ds ih =>
    have hb : bindPat (("item", Val.itemRef (β := β) pre.length) :: ρ) (Term.sym "key") (Val.key d) =
        some (("key", Val.key d) :: ("item", Val.itemRef pre.length) :: ρ) := rfl
    simp only [List.map_cons, loopOver, hb, Option.bind_some]
    rw [execB_del]
    have hd : derefItem m pre.length = some r := by simp [derefItem, hm]
    simp only [hd, Option.bind_some, hin d (by simp), if_true, hm, Option.map_some, modify_append_cons]
    simp only [List.nodup_cons] at hnd
    rw [ih (Dict.del r d) _ rfl hnd.2]
    · congr 3
      simp only [Dict.del, List.filter_filter]
      congr 2
      apply List.filter_congr
      intro p _
      simp only [List.contains_cons]
      cases hpd : p.1 == d <;> simp [bne, hpd, Bool.and_comm]
    · intro d' hd'
      rw [has_del_ne r d d' (fun e => hnd.1 (e ▸ hd'))]
      exact hin d' (by simp [hd'])

end

section
variable (ctx : Ctx β) (call : List (Val β) → Option (Val β))

def delKeysT : Term := Term.app "Sub" [Term.app "set()" [Term.sym "item"], Term.app "set()" [Term.sym "keys"]]

theorem evalE_delKeys (ρ : Env β) (m : Mem β) (i : Nat) (r : Rec β) (hd : derefItem m i = some r) :
    evalE ctx call m delKeysT (("item", Val.itemRef i) :: ρ) =
      some (.keys ((r.map (·.1)).filter fun k => !ctx.columns.contains k)) := by
  show ((derefItem m i).map fun (r : Rec β) => Val.keys (r.map (·.1))).bind _ = _
  rw [hd]; rfl

/-- one dict of the restriction loop: `for key in set(item) - keys: del item[key]` (a dict: its keys are distinct). -/
theorem delItem_hb (ρ : Env β) (i : Nat) :
    ∃ ρ', bindPat ρ (Term.sym "item") (Val.itemRef (β := β) i) = some ρ' ∧
      ∀ (m : Mem β) pre r post, i = pre.length → m.items = some (pre ++ r :: post) → (r.map (·.1)).Nodup →
        execB ctx call [Term.app "for" [Term.sym "key", delKeysT, Term.app "block" delBody]] ρ' m =
          (some (r.filter fun p => ctx.columns.contains p.1)).map fun r' => { m with items := some (pre ++ r' :: post) } := by
  refine ⟨("item", Val.itemRef i) :: ρ, rfl, ?_⟩
  intro m pre r post hi hm hnd
  subst hi
  have hd : derefItem m pre.length = some r := by simp [derefItem, hm]
  rw [execB_cons, execS_for, evalE_delKeys ctx call ρ m pre.length r hd]
  simp only [Option.bind_some, iterRefs, iterVals, Option.map_some]
  rw [delInner ctx call ρ pre post _ r m hm (hnd.sublist List.filter_sublist)]
  · have hf : (r.filter fun p => !((r.map (·.1)).filter fun k => !ctx.columns.contains k).contains p.1) =
        r.filter fun p => ctx.columns.contains p.1 := by
      apply List.filter_congr
      intro p hp
      have : p.1 ∈ r.map (·.1) := List.mem_map_of_mem hp
      by_cases hc : p.1 ∈ ctx.columns <;> simp [List.mem_filter, this, hc]
    simp only [Option.bind_some, execB_nil, hf]
  · intro d hd'
    have := (List.mem_filter.mp hd').1
    obtain ⟨p, hp, rfl⟩ := List.mem_map.mp this
    unfold Dict.has; rw [List.any_eq_true]; exact ⟨p, hp, by simp⟩

end

theorem lookup_of_has {α : Type} (r : Dict α) (k : String) (h : Dict.has r k = true) : ∃ v, lookup r k = some v := by
  unfold Dict.has at h; unfold lookup
  induction r with
  | nil => simp at h
  | cons p r ih =>
    simp only [List.find?_cons]
    cases hp : p.1 == k with
    | true => exact ⟨p.2, rfl⟩
    | false =>
      simp only [List.any_cons, hp, Bool.false_or] at h
      exact ih h

section
variable (ctx : Ctx β) (call : List (Val β) → Option (Val β))

def convBody : List Term :=
  [Term.app "if" [Term.app "In" [Term.sym "key", Term.sym "item"],
     Term.app "block" [Term.app "store" [Term.app "getitem" [Term.sym "item", Term.sym "key"],
       Term.app "call" [Term.sym "type", Term.app "getitem" [Term.sym "item", Term.sym "key"]]]],
     Term.app "block" []]]

theorem execS_if (c : Term) (a b : List Term) (ρ : Env β) (m : Mem β) :
    execS ctx call (Term.app "if" [c, Term.app "block" a, Term.app "block" b]) ρ m =
      (evalE ctx call m c ρ).bind fun vc => if truthy vc then execB ctx call a ρ m else execB ctx call b ρ m := rfl

theorem evalE_in (a b : Term) (ρ : Env β) (m : Mem β) :
    evalE ctx call m (Term.app "In" [a, b]) ρ =
      (evalE ctx call m a ρ).bind fun va => (evalE ctx call m b ρ).bind fun vb => (pyIn m va vb).map Val.bool := rfl

theorem evalE_call (f a : Term) (ρ : Env β) (m : Mem β) :
    evalE ctx call m (Term.app "call" [f, a]) ρ =
      (evalE ctx call m f ρ).bind fun vf => (evalE ctx call m a ρ).bind fun va => match vf, va with
        | .convFn g, .cell v => (g v).map Val.cell
        | _, _ => Option.none := rfl

/-- one dict of one conversion: `if key in item: item[key] = type(item[key])` — every PRESENT value, `None` included. -/
theorem convItem_hb (ρ : Env β) (k : String) (f : ConvFn β) (i : Nat) :
    ∃ ρ', bindPat (("type", Val.convFn f) :: ("key", Val.key k) :: ρ) (Term.sym "item") (Val.itemRef (β := β) i) = some ρ' ∧
      ∀ (m : Mem β) pre r post, i = pre.length → m.items = some (pre ++ r :: post) → True →
        execB ctx call convBody ρ' m =
          (convRec (k, f) r).map fun r' => { m with items := some (pre ++ r' :: post) } := by
  refine ⟨("item", Val.itemRef i) :: ("type", Val.convFn f) :: ("key", Val.key k) :: ρ, rfl, ?_⟩
  intro m pre r post hi hm _
  subst hi
  have hd : derefItem m pre.length = some r := by simp [derefItem, hm]
  have hk : evalE ctx call m (Term.sym "key") (("item", Val.itemRef pre.length) :: ("type", Val.convFn f) :: ("key", Val.key k) :: ρ) =
      some (Val.key k) := rfl
  have hi : evalE ctx call m (Term.sym "item") (("item", Val.itemRef pre.length) :: ("type", Val.convFn f) :: ("key", Val.key k) :: ρ) =
      some (Val.itemRef pre.length) := rfl
  have ht : evalE ctx call m (Term.sym "type") (("item", Val.itemRef pre.length) :: ("type", Val.convFn f) :: ("key", Val.key k) :: ρ) =
      some (Val.convFn f) := rfl
  unfold convBody
  rw [execB_cons, execS_if, evalE_in, hk, hi]
  simp only [Option.bind_some, pyIn, Val.asKey, hd, Option.map_some, truthy, convRec]
  cases hh : Dict.has r k with
  | false =>
    simp only [Bool.false_eq_true, if_false, execB_nil, Option.bind_some, lookup_eq_none_of_not_has r k hh, Option.map_some]
    congr 1; cases m; simp_all
  | true =>
    obtain ⟨v, hv⟩ := lookup_of_has r k hh
    simp only [if_true, execB_cons, execS_store, evalE_call, evalE_getitem, hk, hi, ht, Option.bind_some, hd, hv,
      Option.map_some, Val.asKey, hm]
    cases f v with
    | none => rfl
    | some v' =>
      have hlt : pre.length < (pre ++ r :: post).length := by simp
      simp only [Option.map_some, Option.bind_some, hlt, if_true, modify_append_cons, execB_nil]

/-- **the conversions**: in the order of `types`, every one over all dicts of the list as the previous ones left it. -/
theorem convLoop_eq (dataT : Term) (recs : List (Rec β)) (ρ : Env β)
    (hD : ∀ (m : Mem β) ρ', evalE ctx call m dataT ρ' = some (.recs (m.items.getD recs)))
    (ps : List (String × ConvFn β)) (m : Mem β) :
    (loopOver (fun ρ' m' => execB ctx call [Term.app "for" [Term.sym "item", dataT, Term.app "block" convBody]] ρ' m')
        (bindPat ρ (Term.app "tuple" [Term.sym "key", Term.sym "type"]))
        (ps.map fun p => Val.pair (.key p.1) (.convFn p.2)) m).map (fun m' => m'.items.getD recs) =
      ps.foldlM convStep (m.items.getD recs) := by
  induction ps generalizing m with
  | nil => rfl
  | cons p ps ih =>
    have hb : bindPat ρ (Term.app "tuple" [Term.sym "key", Term.sym "type"]) (Val.pair (.key p.1) (.convFn p.2)) =
        some (("type", Val.convFn p.2) :: ("key", Val.key p.1) :: ρ) := rfl
    simp only [List.map_cons, loopOver, hb, Option.bind_some, List.foldlM_cons]
    rw [execB_cons, execS_for, hD]
    simp only [Option.bind_some, iterRefs]
    rw [loopItems_all _ _ (convRec p) (fun _ => True)
      (fun i => convItem_hb ctx call ρ p.1 p.2 i) (m.items.getD recs) _ rfl (fun _ _ => trivial)]
    unfold convStep
    cases hc : allM (convRec p) (m.items.getD recs) with
    | none => rfl
    | some l' =>
      simp only [Option.map_some, Option.bind_some, execB_nil]
      exact ih _

end

section
variable (ctx : Ctx β)

theorem evalE_cls_loads (m : Mem β) :
    evalE ctx noCall m (Term.app "cls" [loadsT]) [] = (evalE ctx noCall m loadsT []).bind fun v => v.asRecs.map Val.recs := rfl

/-- the conversions, then `cls(data)`. -/
theorem lod_tail (recs : List (Rec β))
    (hD : ∀ (m : Mem β) ρ', evalE ctx noCall m loadsT ρ' = some (.recs (m.items.getD recs))) (m : Mem β) :
    (match (execB ctx noCall [castItems loadsT] [] m).bind (fun m' => evalE ctx noCall m' (Term.app "cls" [loadsT]) []) with
      | some (.recs l) => some l
      | _ => none) = ctx.convs.foldlM convStep (m.items.getD recs) := by
  have hloop := convLoop_eq ctx noCall loadsT recs [] hD ctx.convs m
  have hit : evalE ctx noCall m (Term.app ".items" [Term.sym "types"]) [] =
      some (.list (ctx.convs.map fun p => Val.pair (.key p.1) (.convFn p.2))) := rfl
  rw [execB_cons]
  unfold castItems
  rw [execS_for, hit]
  simp only [Option.bind_some, iterRefs, iterVals, Option.map_some]
  change (match ((loopOver (fun ρ' m' => execB ctx noCall [Term.app "for" [Term.sym "item", loadsT, Term.app "block" convBody]] ρ' m')
        (bindPat [] (Term.app "tuple" [Term.sym "key", Term.sym "type"]))
        (ctx.convs.map fun p => Val.pair (.key p.1) (.convFn p.2)) m).bind fun m' => execB ctx noCall [] [] m').bind
          (fun m' => evalE ctx noCall m' (Term.app "cls" [loadsT]) []) with
      | some (.recs l) => some l
      | _ => none) = _
  cases hl : loopOver (fun ρ' m' => execB ctx noCall [Term.app "for" [Term.sym "item", loadsT, Term.app "block" convBody]] ρ' m')
        (bindPat [] (Term.app "tuple" [Term.sym "key", Term.sym "type"]))
        (ctx.convs.map fun p => Val.pair (.key p.1) (.convFn p.2)) m with
  | none => rw [hl] at hloop; exact hloop
  | some m' =>
    rw [hl] at hloop
    simp only [Option.bind_some, execB_nil, evalE_cls_loads, hD m' [], Val.asRecs, Option.map_some]
    exact hloop

/-- **`ListOfDicts.from_json`, evaluated** on a text that parses to a list of dicts (distinct keys in every dict): every
    item cut down to the requested keys (its own order kept, nothing added), then the conversions in the order of `types`. -/
theorem evalLodFromJson_eq (s : String) (recs : List (Rec β)) (hin : ctx.input = .text s)
    (hl : ctx.loads s = some (.records recs)) (hnd : ∀ r ∈ recs, (r.map (·.1)).Nodup) :
    evalLodFromJson ctx = ctx.convs.foldlM convStep (itemsRestricted recs ctx.columns) := by
  have hD : ∀ (m : Mem β) ρ', evalE ctx noCall m loadsT ρ' = some (.recs (m.items.getD recs)) := by
    intro m ρ'
    cases hm : m.items with
    | none => rw [evalE_loadsT ctx m hm, hin]; simp only [hl]; rfl
    | some l =>
      show (match m.items with
        | some l => some (Val.recs l)
        | none => (evalE ctx noCall m (Term.sym "string") ρ').bind fun (v : Val β) => match v with
          | .text s => (ctx.loads s).map Parsed.toVal
          | _ => none) = _
      rw [hm]; rfl
  have ht : truthOf ctx noCall (Term.app "isinstance" [loadsT, Term.sym "list"]) = true :=
    truth_isList ctx loadsT _ (hD Mem.init [])
  unfold evalLodFromJson
  rw [lod_from_json_code]
  show (match runOut ctx noCall Mem.init (if truthOf ctx noCall (Term.app "isinstance" [loadsT, Term.sym "list"]) then _ else _) with
    | some (.recs l) => some l | _ => none) = _
  rw [ht]
  simp only [if_true, truth_columns ctx "keys" (Or.inr rfl)]
  cases hc : ctx.columns.isEmpty with
  | true =>
    simp only [Bool.not_true, Bool.false_eq_true, if_false, runOut_ret]
    have := lod_tail ctx recs hD Mem.init
    simp only [itemsRestricted, hc, if_true]
    exact this
  | false =>
    simp only [Bool.not_false, if_true, runOut_ret]
    rw [execB_cons]
    change (match (((execS ctx noCall (Term.app "for" [Term.sym "item", loadsT, Term.app "block"
        [Term.app "for" [Term.sym "key", delKeysT, Term.app "block" delBody]]]) [] Mem.init).bind fun m' =>
          execB ctx noCall [castItems loadsT] [] m').bind fun m' => evalE ctx noCall m' (Term.app "cls" [loadsT]) []) with
      | some (.recs l) => some l | _ => none) = _
    rw [execS_for, hD]
    have h0 : (Mem.init : Mem β).items.getD recs = recs := rfl
    simp only [Option.bind_some, iterRefs, h0]
    rw [loopItems_all _ _ (fun r => some (r.filter fun p => ctx.columns.contains p.1)) (fun r => (r.map (·.1)).Nodup)
      (fun i => delItem_hb ctx noCall [] i) recs _ rfl hnd]
    rw [allM_eq_map _ (fun r => r.filter fun p => ctx.columns.contains p.1) recs (fun _ _ => rfl)]
    simp only [Option.map_some, Option.bind_some]
    have := lod_tail ctx recs hD { (Mem.init : Mem β) with items := some (recs.map fun r => r.filter fun p => ctx.columns.contains p.1) }
    simp only [itemsRestricted, hc, Bool.false_eq_true, if_false]
    exact this

end

/-! ### restriction = selection afterwards (on the model) -/

theorem restrict_is_filter (recs : List (Rec β)) (columns : List String) (hc : columns ≠ []) :
    frameFromRecords recs columns = (frameFromRecords recs []).filter fun p => columns.contains p.1 := by
  have : columns.isEmpty = false := by cases columns <;> simp_all
  simp only [frameFromRecords, this, Bool.false_eq_true, if_false, List.isEmpty_nil, if_true, List.filter_map]
  rfl

theorem lookup_map_key {α : Type} (ks : List String) (f : String → α) (k : String) :
    lookup (ks.map fun k => (k, f k)) k = if ks.contains k then some (f k) else none := by
  unfold lookup
  induction ks with
  | nil => rfl
  | cons a ks ih =>
    simp only [List.map_cons, List.find?_cons, List.contains_cons]
    by_cases h : a = k
    · subst h; simp
    · have h1 : (a == k) = false := by simp [h]
      have h2 : (k == a) = false := by simp; exact fun e => h e.symm
      simp only [h1, h2, Bool.false_or]
      exact ih

theorem restrict_lookup_eq_selectAfter (recs : List (Rec β)) (columns : List String) (hc : columns ≠ []) (k : String) :
    lookup (frameFromRecords recs columns) k = selectAfter recs columns k := by
  have : columns.isEmpty = false := by cases columns <;> simp_all
  unfold selectAfter
  have h0 : ((frameFromRecords recs []).find? (fun p => p.1 == k)).map (·.2) = lookup (frameFromRecords recs []) k := rfl
  rw [h0]
  simp only [frameFromRecords, this, Bool.false_eq_true, if_false, List.isEmpty_nil, if_true]
  rw [lookup_map_key, lookup_map_key]
  simp only [List.contains_eq_mem, List.mem_filter, decide_eq_true_eq]
  by_cases h1 : k ∈ unionKeys recs <;> by_cases h2 : k ∈ columns <;> simp [h1, h2]

end DI.PyEvalRead

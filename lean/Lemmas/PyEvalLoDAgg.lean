/-
  Lemmas/PyEvalLoDAgg.lean — the proofs behind `Proofs/EvalC15c.lean` and `Proofs/EvalC16b.lean`: the evaluator of
  `Model/PyEvalLoDAgg.lean` on the bodies of `ListOfDicts.sort / head / tail / extend / __getitem__` and
  `group_by / _split_join_by / aggregate` (`full_join`: `Lemmas/PyEvalLoDFull.lean`).

  1. sorting: the stable insertion sort `isort` is `List.mergeSort` for a total preorder (`isort_eq_mergeSort`); Python's
     comparison of the keys of one `sort` pass is the model's `specLe1` (`keyLeP_sortKeyOf`); `sorted` on the references of a
     list is the model's `LoD.sortPass` (`sortedBy_pass`); the body of `sort` (`sort_run`);
  2. slices; `head` / `tail` / `__getitem__` / `extend` / `group_by` / `_split_join_by`;
  3. allocation (`Store.fresh`, `allocAll_spec`, `materialize_*`);
  4. method calls (`evalAM` equations, `callGen_*`); `aggregate`: the iterable of the second loop
     (`unique → deepcopy → select → sort`: `agg_iterable`; a group key given twice: `dedupK`, `lexLe_dedupK`), the dict of lists
     (`bucketsAfter`), the two loops, `aggregate_run`.
-/
import Model.PyEvalLoDAgg
import Lemmas.PyEvalLoDJoin
import Lemmas.LoDSort
import Lemmas.LoDJoinAgg
import Lemmas.PyCore

namespace DI.PyEvalLoD
open DI DI.Py DI.LoD

/-! ### 1. sorting -/


section ISort
variable {α : Type}

theorem insertBy_perm (le : α → α → Bool) (a : α) (l : List α) : (insertBy le a l).Perm (a :: l) := by
  induction l with
  | nil => exact List.Perm.refl _
  | cons b l ih =>
    simp only [insertBy]
    split
    · exact List.Perm.refl _
    · exact ((List.Perm.cons b ih).trans (List.Perm.swap a b l))

theorem isort_perm (le : α → α → Bool) (l : List α) : (isort le l).Perm l := by
  induction l with
  | nil => exact List.Perm.refl _
  | cons a l ih => exact (insertBy_perm le a _).trans (List.Perm.cons a ih)

theorem mem_isort {le : α → α → Bool} {l : List α} {x : α} : x ∈ isort le l ↔ x ∈ l := (isort_perm le l).mem_iff

theorem insertBy_sorted {le : α → α → Bool} (h : PreOrd le) (a : α) (l : List α) (hl : l.Pairwise (fun x y => le x y)) :
    (insertBy le a l).Pairwise (fun x y => le x y) := by
  induction l with
  | nil => simp [insertBy]
  | cons b l ih =>
    simp only [insertBy]
    split
    · rename_i hab
      refine List.Pairwise.cons ?_ hl
      intro c hc
      rcases List.mem_cons.mp hc with e | m
      · subst e; exact hab
      · exact h.trans a b c hab (List.rel_of_pairwise_cons hl m)
    · rename_i hab
      have hba : le b a = true := by
        have := h.total a b
        cases h1 : le a b <;> simp_all
      refine List.Pairwise.cons ?_ (ih (List.Pairwise.of_cons hl))
      intro c hc
      rcases List.mem_cons.mp ((insertBy_perm le a l).mem_iff.mp hc) with e | m
      · subst e; exact hba
      · exact List.rel_of_pairwise_cons hl m

theorem isort_sorted {le : α → α → Bool} (h : PreOrd le) (l : List α) : (isort le l).Pairwise (fun x y => le x y) := by
  induction l with
  | nil => exact List.Pairwise.nil
  | cons a l ih => exact insertBy_sorted h a _ ih

theorem insertBy_filter_eqv {le : α → α → Bool} (h : PreOrd le) (c a : α) (l : List α) :
    (insertBy le a l).filter (eqv le c) = (a :: l).filter (eqv le c) := by
  induction l with
  | nil => rfl
  | cons b l ih =>
    simp only [insertBy]
    split
    · rfl
    · rename_i hab
      have hnot : ¬ (eqv le c a = true ∧ eqv le c b = true) := by
        intro ⟨h1, h2⟩
        simp only [eqv, Bool.and_eq_true] at h1 h2
        exact hab (h.trans a c b h1.2 h2.1)
      rw [List.filter_cons, ih]
      by_cases h1 : eqv le c a = true
      · have h2 : eqv le c b = false := by
          cases hb : eqv le c b
          · rfl
          · exact absurd ⟨h1, hb⟩ hnot
        simp [h1, h2]
      · simp [List.filter_cons, h1]

theorem isort_filter_eqv {le : α → α → Bool} (h : PreOrd le) (c : α) (l : List α) :
    (isort le l).filter (eqv le c) = l.filter (eqv le c) := by
  induction l with
  | nil => rfl
  | cons a l ih =>
    show (insertBy le a (isort le l)).filter (eqv le c) = _
    rw [insertBy_filter_eqv h, List.filter_cons, List.filter_cons, ih]

/-- the stable insertion sort IS the stable merge sort. -/
theorem isort_eq_mergeSort {le : α → α → Bool} (h : PreOrd le) (l : List α) : isort le l = l.mergeSort le :=
  eq_mergeSort_of_stable h l (isort le l) (isort_perm le l) (isort_sorted h l) (fun a => isort_filter_eqv h a l)

theorem insertBy_congr (le₁ le₂ : α → α → Bool) (a : α) (l : List α) (h : ∀ b, b ∈ l → le₁ a b = le₂ a b) :
    insertBy le₁ a l = insertBy le₂ a l := by
  induction l with
  | nil => rfl
  | cons b l ih =>
    simp only [insertBy, h b List.mem_cons_self, ih (fun c hc => h c (List.mem_cons_of_mem _ hc))]

theorem isort_congr (le₁ le₂ : α → α → Bool) (l : List α) (h : ∀ a, a ∈ l → ∀ b, b ∈ l → le₁ a b = le₂ a b) :
    isort le₁ l = isort le₂ l := by
  induction l with
  | nil => rfl
  | cons a l ih =>
    have ih' := ih (fun x hx y hy => h x (List.mem_cons_of_mem _ hx) y (List.mem_cons_of_mem _ hy))
    show insertBy le₁ a (isort le₁ l) = insertBy le₂ a (isort le₂ l)
    rw [ih']
    exact insertBy_congr le₁ le₂ a _ (fun b hb => h a List.mem_cons_self b (List.mem_cons_of_mem _ (mem_isort.mp hb)))

theorem insertBy_map {β : Type} (f : α → β) (le : β → β → Bool) (a : α) (l : List α) :
    (insertBy (fun x y => le (f x) (f y)) a l).map f = insertBy le (f a) (l.map f) := by
  induction l with
  | nil => rfl
  | cons b l ih =>
    simp only [insertBy, List.map_cons]
    split <;> simp [ih]

theorem isort_map {β : Type} (f : α → β) (le : β → β → Bool) (l : List α) :
    (isort (fun x y => le (f x) (f y)) l).map f = isort le (l.map f) := by
  induction l with
  | nil => rfl
  | cons a l ih =>
    show (insertBy _ a (isort _ l)).map f = insertBy le (f a) (isort le (l.map f))
    rw [insertBy_map, ih]

end ISort

/-- the key `sort_key(item)` of one pass for the value `v = item[key]`. -/
def sortKeyOf (desc : Bool) (v : LoD.Val) : PVal :=
  .tuple [.bool (if desc then v != .none else v == .none), .atom v]

/-- values that Python can order against each other in one column: None with anything, ints, strs. -/
def sameKind : LoD.Val → LoD.Val → Bool
  | .none, _ => true
  | _, .none => true
  | .i _, .i _ => true
  | .s _, .s _ => true
  | _, _ => false

theorem str_lt_eq (a b : String) : decide (a < b) = !decide (b ≤ a) := by
  by_cases h : a < b
  · simp [h, String.not_le.mpr h]
  · simp [h, String.not_lt.mp h]

theorem int_lt_eq (a b : Int) : decide (a < b) = !decide (b ≤ a) := by
  by_cases h : a < b
  · have : ¬ b ≤ a := by omega
    simp [h, this]
  · have : b ≤ a := by omega
    simp [h, this]

theorem pyLt_sortKeyOf_isSome (d : Bool) (a b : LoD.Val) (h : sameKind a b = true) :
    (pyLt (sortKeyOf d a) (sortKeyOf d b)).isSome = true := by
  have e1 : ∀ v, (Val.i v == Val.none) = false := fun v => by simp
  have e2 : ∀ v, (Val.s v == Val.none) = false := fun v => by simp
  have e3 : ∀ v, (Val.i v != Val.none) = true := fun v => by simp
  have e4 : ∀ v, (Val.s v != Val.none) = true := fun v => by simp
  cases d <;> cases a <;> cases b <;>
    simp [sortKeyOf, pyLt, lexLt, keyEq, cmpLt, sameKind, e1, e2, e3, e4] at h ⊢ <;> split <;> rfl

theorem keyLeP_sortKeyOf (d : Bool) (a b : LoD.Val) (h : sameKind a b = true) :
    keyLeP d (sortKeyOf d a) (sortKeyOf d b) = specLe1 d a b := by
  have e1 : ∀ v, (Val.i v == Val.none) = false := fun v => by simp
  have e2 : ∀ v, (Val.s v == Val.none) = false := fun v => by simp
  have e3 : ∀ v, (Val.i v != Val.none) = true := fun v => by simp
  have e4 : ∀ v, (Val.s v != Val.none) = true := fun v => by simp
  cases d <;> cases a <;> cases b <;>
    simp [sortKeyOf, keyLeP, pyLt, lexLt, keyEq, cmpLt, sameKind, specLe1, Val.le, e1, e2, e3, e4] at h ⊢
  · rename_i x y
    by_cases hxy : y = x
    · subst hxy; simp
    · simp [hxy, int_lt_eq]
  · rename_i x y
    by_cases hxy : y = x
    · subst hxy; simp
    · simp [hxy, str_lt_eq]
  · rename_i x y
    by_cases hxy : x = y
    · subst hxy; simp
    · simp [hxy, int_lt_eq]
  · rename_i x y
    by_cases hxy : x = y
    · subst hxy; simp
    · simp [hxy, str_lt_eq]

/-- one pass of `sorted` on the references of `acc`, given their keys: the references of the model's `sortPass`. -/
theorem sortedBy_pass (acc : List Item) (k : String) (d : Bool)
    (hh : ∀ x, x ∈ acc → ∀ y, y ∈ acc → sameKind (keyVal k x) (keyVal k y) = true) :
    sortedBy (acc.map fun x => sortKeyOf d (keyVal k x)) (acc.map tagRef) d = some ((sortPass acc k d).map tagRef) := by
  have hcmp : comparable (acc.map fun x => sortKeyOf d (keyVal k x)) = true := by
    simp only [comparable, List.all_eq_true, List.mem_map]
    rintro _ ⟨x, hx, rfl⟩ _ ⟨y, hy, rfl⟩
    exact pyLt_sortKeyOf_isSome d _ _ (hh x hx y hy)
  unfold sortedBy
  simp only [List.length_map, beq_self_eq_true, hcmp, Bool.and_self, if_true, Option.some.injEq]
  have hz : (acc.map fun x => sortKeyOf d (keyVal k x)).zip (acc.map tagRef) =
      acc.map (fun x => (sortKeyOf d (keyVal k x), tagRef x)) := by
    rw [List.zip_map']
  rw [hz, ← isort_map (fun x : Item => (sortKeyOf d (keyVal k x), tagRef x)) (fun p q => keyLeP d p.1 q.1) acc,
    List.map_map]
  have e : isort (fun x y : Item => keyLeP d (sortKeyOf d (keyVal k x), tagRef x).1 (sortKeyOf d (keyVal k y), tagRef y).1) acc
      = isort (LoD.keyLe k d) acc :=
    isort_congr _ _ acc (fun x hx y hy => keyLeP_sortKeyOf d _ _ (hh x hx y hy))
  rw [e, isort_eq_mergeSort (keyLe_pre k d), sortPass_eq_mergeSort]
  rfl



/-! ### the body of `sort` -/

def dirOf (d : Bool) : Int := if d then -1 else 1
def dirPairsVal (kds : List (String × Bool)) : PVal :=
  .tuple (kds.map fun p => .tuple [PVal.str p.1, .atom (.i (dirOf p.2))])

def itemKeyT : Term := .app "getitem" [.sym "item", .sym "key"]
def sortKeyBodyT : Term :=
  .app "ifexp" [.app "Gt" [.sym "dir", .int 0],
    .app "tuple" [.app "Is" [itemKeyT, .sym "None"], itemKeyT],
    .app "tuple" [.app "IsNot" [itemKeyT, .sym "None"], itemKeyT]]
def sortKeyDefT : Term :=
  .app "def" [.sym "sort_key", .app "params" [.sym "item"], .app "block" [.app "return" [sortKeyBodyT]]]
def dirCheckT : Term :=
  .app "if" [.app "NotIn" [.sym "dir", .app "list" [.int 1, .int (-1)]],
    .app "block" [.app "raise" [.sym "ValueError"]], .app "block" []]
def sortAssignT : Term :=
  .app "assign" [.sym "data", .app "sorted" [.sym "data", .app "=key" [.sym "sort_key"],
    .app "=reverse" [.app "Lt" [.sym "dir", .int 0]]]]
def sortBodyT : Term := .app "block" [dirCheckT, sortKeyDefT, sortAssignT]
def sortItT : Term :=
  .app "getitem" [.app "list()" [.app ".items" [.sym "key_dir_pairs"]], .app "slice" [.sym "None", .sym "None", .int (-1)]]
def sortLoopT : Term :=
  .app "for" [.app "tuple" [.sym "key", .sym "dir"], sortItT, sortBodyT, .app "init" [.sym "data", .sym "self"]]
def sortRetT : Term := .app "._new" [.sym "self", .app "value-after-loop" [.sym "data", sortLoopT]]

section EqsA
variable (F : Funs) (ρ : Env) (σ : Store)

theorem evalAE_sym_dir : evalAE F (.sym "dir") ρ σ = ρ.lookup "dir" := rfl
theorem evalAE_sym_data : evalAE F (.sym "data") ρ σ = ρ.lookup "data" := rfl
theorem evalAE_sym_self : evalAE F (.sym "self") ρ σ = ρ.lookup "self" := rfl
theorem evalAE_int (i : Int) : evalAE F (.int i) ρ σ = some (.atom (.i i)) := rfl
theorem evalAE_ifexp (c a b : Term) : evalAE F (.app "ifexp" [c, a, b]) ρ σ =
    (evalAE F c ρ σ).bind fun vc => (truthy σ vc).bind fun t => if t then evalAE F a ρ σ else evalAE F b ρ σ := rfl
theorem evalAE_Gt (a b : Term) : evalAE F (.app "Gt" [a, b]) ρ σ =
    (evalAE F a ρ σ).bind fun va => (evalAE F b ρ σ).bind fun vb => va.asInt.bind fun x => vb.asInt.map fun y => .bool (decide (y < x)) := rfl
theorem evalAE_Lt (a b : Term) : evalAE F (.app "Lt" [a, b]) ρ σ =
    (evalAE F a ρ σ).bind fun va => (evalAE F b ρ σ).bind fun vb => va.asInt.bind fun x => vb.asInt.map fun y => .bool (decide (x < y)) := rfl
theorem evalAE_tuple (args : List Term) : evalAE F (.app "tuple" args) ρ σ = (evalAEs F args ρ σ).map .tuple := rfl
theorem evalAEs_nil : evalAEs F [] ρ σ = some [] := rfl
theorem evalAEs_cons (t : Term) (ts : List Term) :
    evalAEs F (t :: ts) ρ σ = (evalAE F t ρ σ).bind fun v => (evalAEs F ts ρ σ).map fun vs => v :: vs := rfl
theorem evalAE_Is (x : Term) : evalAE F (.app "Is" [x, .sym "None"]) ρ σ =
    (evalAE F x ρ σ).map fun v => .bool (decide (v = .atom .none)) := rfl
theorem evalAE_IsNot (x : Term) : evalAE F (.app "IsNot" [x, .sym "None"]) ρ σ =
    (evalAE F x ρ σ).map fun v => .bool (!decide (v = .atom .none)) := rfl
theorem evalAE_itemKey : evalAE F itemKeyT ρ σ =
    (ρ.lookup "item").bind fun vx => (ρ.lookup "key").bind fun vk => getItem σ vx vk := rfl
theorem evalAE_dirCheck_cond : evalAE F (.app "NotIn" [.sym "dir", .app "list" [.int 1, .int (-1)]]) ρ σ =
    (ρ.lookup "dir").bind fun vk => (pyIn σ vk (.tuple [.atom (.i 1), .atom (.i (-1))])).map (fun b => .bool !b) := rfl
theorem evalAE_getitem_rev (x : Term) (i : Int) :
    evalAE F (.app "getitem" [x, .app "slice" [.sym "None", .sym "None", .int i]]) ρ σ =
      (evalAE F x ρ σ).bind fun v => v.asTuple.bind fun l => if i = -1 then some (.tuple l.reverse) else none := rfl
theorem evalAE_listCall (x : Term) : evalAE F (.app "list()" [x]) ρ σ = (evalAE F x ρ σ).bind fun v => v.asTuple.map .tuple := rfl
theorem evalAE_items_kdp : evalAE F (.app ".items" [.sym "key_dir_pairs"]) ρ σ =
    (ρ.lookup "key_dir_pairs").bind (itemsOf σ) := rfl
theorem evalAE_new (x e : Term) : evalAE F (.app "._new" [x, e]) ρ σ = (evalAE F e ρ σ).bind fun v => v.asTuple.map .tuple := rfl
theorem evalAE_val (x : String) (t : Term) : evalAE F (.app "value-after-loop" [.sym x, t]) ρ σ = ρ.lookup x := rfl

end EqsA

section SortRun
variable (F : Funs)

theorem evalAS_block (ss : List Term) (s : ASt) : evalAS F (.app "block" ss) s = evalAB F ss s := rfl
theorem evalAB_nil (s : ASt) : evalAB F [] s = some (Ctl.normal, s) := rfl
theorem evalAB_cons (t : Term) (ts : List Term) (s : ASt) :
    evalAB F (t :: ts) s = (evalAS F t s).bind fun r => match r.1 with | .normal => evalAB F ts r.2 | .cont => some r := rfl
theorem evalAS_if (c a b : Term) (s : ASt) : evalAS F (.app "if" [c, a, b]) s =
    (evalAE F c s.env s.store).bind fun vc => (truthy s.store vc).bind fun t => if t then evalAS F a s else evalAS F b s := rfl
theorem evalAS_for_init (tgt it body : Term) (x : String) (e : Term) (s : ASt) :
    evalAS F (.app "for" [tgt, it, body, .app "init" [.sym x, e]]) s =
    (evalAE F it s.env s.store).bind fun vi => vi.asTuple.bind fun vs =>
      (loopOverA (evalAS F body) (bindTarget tgt) vs { s with env := initEnv F x e s.env s.store }).map fun s' =>
        (Ctl.normal, s') := rfl
theorem evalAS_def (f p : String) (e : Term) (s : ASt) :
    evalAS F (.app "def" [.sym f, .app "params" [.sym p], .app "block" [.app "return" [e]]]) s =
      some (Ctl.normal, { s with defs := (f, p, e) :: s.defs }) := rfl
theorem evalAS_assign (x : String) (e : Term) (s : ASt) : evalAS F (.app "assign" [.sym x, e]) s =
    (evalAX F s.defs e s.env s.store).map fun v => (Ctl.normal, { s with env := (x, v) :: s.env }) := rfl
theorem evalAX_sorted (defs : List (String × String × Term)) (x : Term) (f : String) (r : Term) (ρ : Env) (σ : Store) :
    evalAX F defs (.app "sorted" [x, .app "=key" [.sym f], .app "=reverse" [r]]) ρ σ =
    (evalAE F x ρ σ).bind fun vx => vx.asTuple.bind fun l => (evalAE F r ρ σ).bind fun vr => (truthy σ vr).bind fun rev =>
      (defs.lookup f).bind fun pb => (allM (fun v => evalAE F pb.2 ((pb.1, v) :: ρ) σ) l).bind fun ks =>
        (sortedBy ks l rev).map .tuple := rfl
theorem loopOverA_nil (body : ASt → Option (Ctl × ASt)) (bind : PVal → Env → Option Env) (s : ASt) :
    loopOverA body bind [] s = some s := rfl
theorem loopOverA_cons (body : ASt → Option (Ctl × ASt)) (bind : PVal → Env → Option Env) (v : PVal) (vs : List PVal) (s : ASt) :
    loopOverA body bind (v :: vs) s =
      (bind v s.env).bind fun ρ => (body { s with env := ρ }).bind fun r => loopOverA body bind vs r.2 := rfl

theorem atom_eq_none (v : LoD.Val) : decide (PVal.atom v = PVal.atom LoD.Val.none) = (v == LoD.Val.none) := by
  cases v <;> simp

/-- the key function of one pass at an item that has the key. -/
theorem sortKey_eval (ρ : Env) (σ : Store) (k : String) (d : Bool) (r : Nat) (D : LoD.Dict) (v : LoD.Val)
    (hkey : ρ.lookup "key" = some (PVal.str k)) (hdir : ρ.lookup "dir" = some (.atom (.i (dirOf d))))
    (hl : σ.lookup r = some D) (hg : D.get? k = some v) :
    evalAE F sortKeyBodyT (("item", .ref r) :: ρ) σ = some (sortKeyOf d v) := by
  have hk' : (("item", PVal.ref r) :: ρ).lookup "key" = some (PVal.str k) := by
    rw [List.lookup_cons]; simp only [show ("key" == "item") = false by decide]; exact hkey
  have hd' : (("item", PVal.ref r) :: ρ).lookup "dir" = some (.atom (.i (dirOf d))) := by
    rw [List.lookup_cons]; simp only [show ("dir" == "item") = false by decide]; exact hdir
  have hi' : (("item", PVal.ref r) :: ρ).lookup "item" = some (.ref r) := by
    rw [List.lookup_cons]; simp
  have hik : evalAE F itemKeyT (("item", .ref r) :: ρ) σ = some (.atom v) := by
    rw [evalAE_itemKey, hi', hk']
    simp only [Option.bind_some, PVal.str, getItem, hl, hg, Option.map_some]
  unfold sortKeyBodyT
  rw [evalAE_ifexp, evalAE_Gt, evalAE_sym_dir, hd', evalAE_int]
  cases d
  · simp only [dirOf, Option.bind_some, PVal.asInt, Option.map_some, truthy]
    simp only [show decide ((0 : Int) < 1) = true by decide, if_true, evalAE_tuple, evalAEs_cons, evalAEs_nil, evalAE_Is, hik,
      Option.map_some, Option.bind_some, atom_eq_none, sortKeyOf, Bool.false_eq_true, if_false]
  · simp only [dirOf, Option.bind_some, PVal.asInt, Option.map_some, truthy]
    simp only [show decide ((0 : Int) < -1) = false by decide, if_true, evalAE_tuple, evalAEs_cons, evalAEs_nil, evalAE_IsNot, hik,
      Option.map_some, Option.bind_some, atom_eq_none, sortKeyOf, Bool.false_eq_true, if_false]
    rfl


theorem allM_map_mem {α β γ : Type} (f : β → Option γ) (g : α → β) (k : α → γ) (as : List α)
    (h : ∀ a, a ∈ as → f (g a) = some (k a)) : allM f (as.map g) = some (as.map k) := by
  induction as with
  | nil => rfl
  | cons a as ih =>
    simp only [List.map_cons, allM, h a List.mem_cons_self, Option.bind_some,
      ih (fun b hb => h b (List.mem_cons_of_mem _ hb)), Option.map_some]

theorem keyVal_of_get (k : String) (x : Item) (v : LoD.Val) (h : x.kv.get? k = some v) : keyVal k x = v := by
  simp [keyVal, h]

theorem get_of_has (D : LoD.Dict) (k : String) (h : D.has k = true) : ∃ v, D.get? k = some v := by
  rw [Dict.has_iff_get?] at h
  exact Option.isSome_iff_exists.mp h

/-- one iteration of the loop of `sort`: `data` becomes the references of the model's pass. -/
theorem sort_iter (σ : Store) (acc : List Item) (k : String) (d : Bool) (ρ1 : Env) (out : List PVal)
    (defs : List (String × String × Term))
    (hdata : ρ1.lookup "data" = some (.tuple (acc.map tagRef)))
    (hst : ∀ x, x ∈ acc → σ.lookup x.tag = some x.kv)
    (hk : ∀ x, x ∈ acc → x.kv.has k = true)
    (hh : ∀ x, x ∈ acc → ∀ y, y ∈ acc → sameKind (keyVal k x) (keyVal k y) = true) :
    ∃ ρ' defs', ((bindTarget (.app "tuple" [.sym "key", .sym "dir"]) (.tuple [PVal.str k, .atom (.i (dirOf d))]) ρ1).bind fun ρ =>
        evalAS F sortBodyT ⟨ρ, σ, out, defs⟩) = some (Ctl.normal, ⟨ρ', σ, out, defs'⟩) ∧
      ρ'.lookup "data" = some (.tuple ((sortPass acc k d).map tagRef)) ∧
      (∀ x, x ≠ "data" → x ≠ "key" → x ≠ "dir" → ρ'.lookup x = ρ1.lookup x) := by
  let ρ : Env := ("dir", .atom (.i (dirOf d))) :: ("key", PVal.str k) :: ρ1
  have hb : bindTarget (.app "tuple" [.sym "key", .sym "dir"]) (.tuple [PVal.str k, .atom (.i (dirOf d))]) ρ1 = some ρ := rfl
  have hkey : ρ.lookup "key" = some (PVal.str k) := by
    show List.lookup "key" (_ :: _ :: ρ1) = _
    rw [List.lookup_cons]; simp only [show ("key" == "dir") = false by decide]; rw [List.lookup_cons]; simp
  have hdir : ρ.lookup "dir" = some (.atom (.i (dirOf d))) := by
    show List.lookup "dir" (_ :: _) = _
    rw [List.lookup_cons]; simp
  have hdat : ρ.lookup "data" = some (.tuple (acc.map tagRef)) := by
    show List.lookup "data" (_ :: _ :: ρ1) = _
    rw [List.lookup_cons]; simp only [show ("data" == "dir") = false by decide]
    rw [List.lookup_cons]; simp only [show ("data" == "key") = false by decide]; exact hdata
  have hcheck : evalAE F (.app "NotIn" [.sym "dir", .app "list" [.int 1, .int (-1)]]) ρ σ = some (.bool false) := by
    rw [evalAE_dirCheck_cond, hdir]
    cases d <;> simp [dirOf, pyIn, PVal.plain]
  have hkeys : allM (fun v => evalAE F sortKeyBodyT (("item", v) :: ρ) σ) (acc.map tagRef) =
      some (acc.map fun x => sortKeyOf d (keyVal k x)) := by
    apply allM_map_mem
    intro x hx
    obtain ⟨v, hv⟩ := get_of_has x.kv k (hk x hx)
    rw [keyVal_of_get k x v hv]
    exact sortKey_eval F ρ σ k d x.tag x.kv v hkey hdir (hst x hx) hv
  have hrev : evalAE F (.app "Lt" [.sym "dir", .int 0]) ρ σ = some (.bool d) := by
    rw [evalAE_Lt, evalAE_sym_dir, hdir, evalAE_int]
    cases d <;> simp [dirOf, PVal.asInt]
  refine ⟨("data", .tuple ((sortPass acc k d).map tagRef)) :: ρ, ("sort_key", "item", sortKeyBodyT) :: defs, ?_, ?_, ?_⟩
  · rw [hb, Option.bind_some]
    unfold sortBodyT
    rw [evalAS_block, evalAB_cons]
    unfold dirCheckT
    rw [evalAS_if]
    simp only [hcheck, Option.bind_some, truthy, Bool.false_eq_true, if_false, evalAS_block, evalAB_nil]
    rw [evalAB_cons]
    unfold sortKeyDefT
    rw [evalAS_def]
    simp only [Option.bind_some]
    rw [evalAB_cons]
    unfold sortAssignT
    rw [evalAS_assign, evalAX_sorted]
    simp only [evalAE_sym_data, hdat, Option.bind_some, PVal.asTuple, hrev, truthy, List.lookup_cons, beq_self_eq_true,
      hkeys, sortedBy_pass acc k d hh, Option.map_some, evalAB_nil]
  · rw [List.lookup_cons]; simp
  · intro x h1 h2 h3
    have e1 : (x == "data") = false := by simpa using h1
    have e2 : (x == "dir") = false := by simpa using h3
    have e3 : (x == "key") = false := by simpa using h2
    show List.lookup x (_ :: _ :: _ :: ρ1) = _
    simp only [List.lookup_cons, e1, e2, e3]


def dirPairVal (p : String × Bool) : PVal := .tuple [PVal.str p.1, .atom (.i (dirOf p.2))]

theorem dirPairsVal_eq (kds : List (String × Bool)) : dirPairsVal kds = .tuple (kds.map dirPairVal) := rfl

/-- the loop of `sort` over the pairs `kds` (already in the order of iteration). -/
theorem sort_loop (σ : Store) : ∀ (kds : List (String × Bool)) (acc : List Item) (ρ1 : Env) (out : List PVal)
    (defs : List (String × String × Term)),
    ρ1.lookup "data" = some (.tuple (acc.map tagRef)) →
    (∀ x, x ∈ acc → σ.lookup x.tag = some x.kv) →
    (∀ p, p ∈ kds → ∀ x, x ∈ acc → x.kv.has p.1 = true) →
    (∀ p, p ∈ kds → ∀ x, x ∈ acc → ∀ y, y ∈ acc → sameKind (keyVal p.1 x) (keyVal p.1 y) = true) →
    ∃ ρ' defs', loopOverA (evalAS F sortBodyT) (bindTarget (.app "tuple" [.sym "key", .sym "dir"])) (kds.map dirPairVal)
        ⟨ρ1, σ, out, defs⟩ = some ⟨ρ', σ, out, defs'⟩ ∧
      ρ'.lookup "data" = some (.tuple ((kds.foldl (fun a p => sortPass a p.1 p.2) acc).map tagRef)) ∧
      (∀ x, x ≠ "data" → x ≠ "key" → x ≠ "dir" → ρ'.lookup x = ρ1.lookup x)
  | [], acc, ρ1, out, defs, hdata, _, _, _ => ⟨ρ1, defs, rfl, hdata, fun _ _ _ _ => rfl⟩
  | (k, d) :: kds, acc, ρ1, out, defs, hdata, hst, hk, hh => by
    obtain ⟨ρ2, defs2, e1, hd2, hkeep2⟩ := sort_iter F σ acc k d ρ1 out defs hdata hst
      (hk (k, d) List.mem_cons_self) (hh (k, d) List.mem_cons_self)
    have hp := sortPass_perm acc k d
    obtain ⟨ρ3, defs3, e2, hd3, hkeep3⟩ := sort_loop σ kds (sortPass acc k d) ρ2 out defs2 hd2
      (fun x hx => hst x (hp.mem_iff.mp hx))
      (fun p hp' x hx => hk p (List.mem_cons_of_mem _ hp') x (hp.mem_iff.mp hx))
      (fun p hp' x hx y hy => hh p (List.mem_cons_of_mem _ hp') x (hp.mem_iff.mp hx) y (hp.mem_iff.mp hy))
    refine ⟨ρ3, defs3, ?_, hd3, fun x h1 h2 h3 => (hkeep3 x h1 h2 h3).trans (hkeep2 x h1 h2 h3)⟩
    rw [List.map_cons, loopOverA_cons]
    show ((bindTarget _ (dirPairVal (k, d)) ρ1).bind fun ρ => (evalAS F sortBodyT ⟨ρ, σ, out, defs⟩).bind fun r => _) = _
    have e1' := e1
    simp only [dirPairVal] at e1' ⊢
    have hb : bindTarget (.app "tuple" [.sym "key", .sym "dir"]) (.tuple [PVal.str k, .atom (.i (dirOf d))]) ρ1 =
        some (("dir", .atom (.i (dirOf d))) :: ("key", PVal.str k) :: ρ1) := rfl
    rw [hb, Option.bind_some] at e1'
    rw [hb, Option.bind_some, e1', Option.bind_some]
    exact e2

theorem itemsOf_dirPairs (σ : Store) (kds : List (String × Bool)) :
    itemsOf σ (dirPairsVal kds) = some (dirPairsVal kds) := by
  have h : allM PVal.fst? (kds.map dirPairVal) = some (kds.map fun p => PVal.str p.1) :=
    allM_map PVal.fst? dirPairVal (fun p => PVal.str p.1) (fun _ => rfl) kds
  simp only [dirPairsVal_eq, itemsOf, h, Option.map_some]

/-- **sort**: the body of `ListOfDicts.sort` returns the references of the model's `LoD.sort`; the store is unchanged. -/
theorem sort_run (ρ : Env) (σ : Store) (rs : List Nat) (xs : List Item) (kds : List (String × Bool))
    (hself : ρ.lookup "self" = some (refsVal rs)) (hkdp : ρ.lookup "key_dir_pairs" = some (dirPairsVal kds))
    (hv : Store.view σ rs = some xs)
    (hk : ∀ p, p ∈ kds → ∀ x, x ∈ xs → x.kv.has p.1 = true)
    (hh : ∀ p, p ∈ kds → ∀ x, x ∈ xs → ∀ y, y ∈ xs → sameKind (keyVal p.1 x) (keyVal p.1 y) = true) :
    ∃ ρ', retA F (Out.ret [sortLoopT] sortRetT) ρ σ = some (.tuple ((LoD.sort xs kds).map tagRef), ρ', σ) := by
  have hinit : initEnv F "data" (.sym "self") ρ σ = ("data", .tuple (xs.map tagRef)) :: ρ := by
    simp only [initEnv, evalAE_sym_self, hself, refsVal, refs_of_view σ rs xs hv]
  have hdata : (("data", PVal.tuple (xs.map tagRef)) :: ρ).lookup "data" = some (.tuple (xs.map tagRef)) := by
    rw [List.lookup_cons]; simp
  obtain ⟨ρ', defs', e, hd, _⟩ := sort_loop F σ kds.reverse xs (("data", .tuple (xs.map tagRef)) :: ρ) [] [] hdata
    (fun x hx => Store.view_lookup_of_mem σ rs xs hv x hx)
    (fun p hp => hk p (List.mem_reverse.mp hp)) (fun p hp => hh p (List.mem_reverse.mp hp))
  refine ⟨ρ', ?_⟩
  have hit : evalAE F sortItT ρ σ = some (.tuple (kds.reverse.map dirPairVal)) := by
    unfold sortItT
    rw [evalAE_getitem_rev, evalAE_listCall, evalAE_items_kdp, hkdp]
    simp only [Option.bind_some, itemsOf_dirPairs]
    simp only [dirPairsVal_eq, PVal.asTuple, Option.map_some, Option.bind_some, if_true, List.map_reverse]
  simp only [retA, runA, evalAB_cons, evalAB_nil]
  unfold sortLoopT
  rw [evalAS_for_init]
  simp only [hit, Option.bind_some, PVal.asTuple, hinit, e, Option.map_some]
  unfold sortRetT
  rw [evalAE_new, evalAE_val, hd]
  simp only [Option.bind_some, PVal.asTuple, Option.map_some, LoD.sort]

end SortRun


/-! ### slices -/

theorem mem_sliceIdx (len : Nat) (a b : Option Int) (i : Int) (h : i ∈ sliceIdx len a b) : 0 ≤ i ∧ i.toNat < len := by
  unfold sliceIdx arange at h
  simp only [List.mem_map, List.mem_range] at h
  obtain ⟨k, hk, rfl⟩ := h
  cases a <;> cases b <;> simp only [normBound, pmin, pmax] at hk ⊢ <;> (repeat' split at hk) <;> (repeat' split) <;> omega

theorem sliceOf_eq_gatherI {α : Type} [Inhabited α] (l : List α) (a b : Option Int) :
    sliceOf l a b = gatherI l (sliceIdx l.length a b) := by
  unfold sliceOf gatherI
  generalize hidx : sliceIdx l.length a b = idx
  have hmem : ∀ i, i ∈ idx → i.toNat < l.length := fun i hi => (mem_sliceIdx l.length a b i (hidx ▸ hi)).2
  clear hidx
  induction idx with
  | nil => rfl
  | cons i idx ih =>
    have hi := hmem i List.mem_cons_self
    simp only [List.filterMap_cons, List.map_cons, List.getElem?_eq_getElem hi, getElem!_pos l i.toNat hi]
    rw [ih (fun j hj => hmem j (List.mem_cons_of_mem _ hj))]

theorem sliceOf_map {α β : Type} (f : α → β) (l : List α) (a b : Option Int) :
    sliceOf (l.map f) a b = (sliceOf l a b).map f := by
  unfold sliceOf
  rw [List.length_map, List.map_filterMap]
  congr 1
  funext i
  simp


/-! ### head / tail / __getitem__ / extend / group_by / _split_join_by -/

section Small
variable (F : Funs) (ρ : Env) (σ : Store)

theorem evalAE_getitem_slice (x : Term) (a b : Option Int) : evalAE F (.app "getitem" [x, .slice a b]) ρ σ =
    (evalAE F x ρ σ).bind fun v => v.asTuple.map fun l => .tuple (sliceOf l a b) := rfl
theorem evalAE_super_getitem (e : Term) : evalAE F (.app "super().__getitem__" [e]) ρ σ =
    (ρ.lookup "self").bind fun vs => (evalAE F e ρ σ).bind fun vi => listGetitem σ vs vi := rfl
theorem evalAE_sym_index : evalAE F (.sym "index") ρ σ = ρ.lookup "index" := rfl
theorem evalAE_sym_other : evalAE F (.sym "other") ρ σ = ρ.lookup "other" := rfl
theorem evalAE_sym_keys : evalAE F (.sym "keys") ρ σ = ρ.lookup "keys" := rfl
theorem evalAE_sym_by : evalAE F (.sym "by") ρ σ = ρ.lookup "by" := rfl
theorem evalAE_sym_x : evalAE F (.sym "x") ρ σ = ρ.lookup "x" := rfl
theorem evalAE_chain (a b : Term) : evalAE F (.app "itertools.chain" [a, b]) ρ σ =
    (evalAE F a ρ σ).bind fun va => (evalAE F b ρ σ).bind fun vb =>
      va.asTuple.bind fun la => vb.asTuple.map fun lb => .tuple (la ++ lb) := rfl
theorem evalAE_class (e : Term) : evalAE F (.app ".__class__" [.sym "self", e]) ρ σ =
    (evalAE F e ρ σ).bind fun v => v.asTuple.bind fun l => (allM (copyVal σ) l).map .tuple := rfl
theorem evalAE_tupleCall (x : Term) : evalAE F (.app "tuple()" [x]) ρ σ = (evalAE F x ρ σ).bind fun v => v.asTuple.map .tuple := rfl
theorem evalAE_reversed (x : Term) : evalAE F (.app "reversed" [x]) ρ σ =
    (evalAE F x ρ σ).bind fun v => v.asTuple.map fun l => .tuple l.reverse := rfl
theorem evalAE_isinstance_str (x : Term) : evalAE F (.app "isinstance" [x, .sym "str"]) ρ σ =
    (evalAE F x ρ σ).map fun v => .bool v.asStr.isSome := rfl
theorem evalAE_isinstance_seq (x : Term) : evalAE F (.app "isinstance" [x, .app "tuple" [.sym "list", .sym "tuple"]]) ρ σ =
    (evalAE F x ρ σ).map fun v => .bool v.asTuple.isSome := rfl
theorem evalAE_ListComp (e tgt it : Term) : evalAE F (.app "ListComp" [e, .app "in" [tgt, it, .app "if" []]]) ρ σ =
    (evalAE F it ρ σ).bind fun vi => vi.asTuple.bind fun vs =>
      (compLoop (bindTarget tgt) (fun _ => some true) (fun ρ1 => evalAE F e ρ1 σ) ρ vs).map .tuple := rfl
theorem evalAE_getitem_x_int (i : Int) : evalAE F (.app "getitem" [.sym "x", .int i]) ρ σ =
    (ρ.lookup "x").bind fun vx => getItem σ vx (.atom (.i i)) := rfl
theorem evalAS_yieldFrom (e : Term) (s : ASt) : evalAS F (.app "yield-from" [e]) s =
    (evalAE F e s.env s.store).bind fun v => v.asTuple.map fun vs => (Ctl.normal, { s with out := s.out ++ vs }) := rfl
theorem evalAS_setattr (e : Term) (s : ASt) : evalAS F (.app "setattr" [.sym "self", .sym "_group_keys", e]) s =
    (evalAE F e s.env s.store).map fun v => (Ctl.normal, { s with env := (groupKeysName, v) :: s.env }) := rfl

/-- `self._new(self[a:b])`: a new list over the SAME objects at the positions of the slice. -/
theorem slice_new_run (rs : List Nat) (xs : List Item) (a b : Option Int)
    (hself : ρ.lookup "self" = some (refsVal rs)) (hv : Store.view σ rs = some xs) :
    retA F (Out.ret [] (.app "._new" [.sym "self", .app "getitem" [.sym "self", .slice a b]])) ρ σ =
      some (.tuple ((gatherI xs (sliceIdx xs.length a b)).map tagRef), ρ, σ) := by
  simp only [retA, runA, evalAB_nil, Option.map_some, Option.bind_some, evalAE_new, evalAE_getitem_slice, evalAE_sym_self, hself,
    refsVal, PVal.asTuple, refs_of_view σ rs xs hv, sliceOf_map]
  rw [sliceOf_eq_gatherI]

/-- `self[index]` with an int: the item itself (`none` = IndexError). -/
theorem getitem_int_run (rs : List Nat) (xs : List Item) (i : Int)
    (hself : ρ.lookup "self" = some (refsVal rs)) (hindex : ρ.lookup "index" = some (.atom (.i i)))
    (hv : Store.view σ rs = some xs) :
    retA F (Out.ret [] (.app "super().__getitem__" [.sym "index"])) ρ σ =
      (if 0 ≤ (if i < 0 then i + xs.length else i) then (xs.map tagRef)[(if i < 0 then i + xs.length else i).toNat]? else none).map
        fun v => (v, ρ, σ) := by
  simp only [retA, runA, evalAB_nil, Option.map_some, Option.bind_some, evalAE_super_getitem, evalAE_sym_index, hself, hindex,
    listGetitem, getItem, refsVal, refs_of_view σ rs xs hv, List.length_map]

/-- `self[a:b]` with a slice object: `_new` of the sub-list. -/
theorem getitem_slice_run (rs : List Nat) (xs : List Item) (a b : Option Int)
    (hself : ρ.lookup "self" = some (refsVal rs)) (hindex : ρ.lookup "index" = some (sliceVal a b))
    (hv : Store.view σ rs = some xs) :
    retA F (Out.ret [] (.app "._new" [.sym "self", .app "super().__getitem__" [.sym "index"]])) ρ σ =
      some (.tuple ((gatherI xs (sliceIdx xs.length a b)).map tagRef), ρ, σ) := by
  have ha : (optI a).asOptI = some a := by cases a <;> rfl
  have hb : (optI b).asOptI = some b := by cases b <;> rfl
  simp only [retA, runA, evalAB_nil, Option.map_some, Option.bind_some, evalAE_new, evalAE_super_getitem, evalAE_sym_index, hself,
    hindex, sliceVal, listGetitem, refsVal, PVal.asTuple, ha, hb, refs_of_view σ rs xs hv, sliceOf_map]
  rw [sliceOf_eq_gatherI]

/-- `LoD.slice` (natural bounds) is the Python slice. -/
theorem gatherI_slice_nat {α : Type} [Inhabited α] (xs : List α) (a b : Nat) :
    gatherI xs (sliceIdx xs.length (some (a : Int)) (some (b : Int))) = (xs.drop a).take (b - a) := by
  unfold gatherI sliceIdx normBound
  have ha : ¬ ((a : Int) < 0) := by omega
  have hb : ¬ ((b : Int) < 0) := by omega
  simp only [ha, hb, if_false, pmin_cast]
  rcases Nat.lt_or_ge (min a xs.length) (min b xs.length) with h | h
  · have h1 := arange_nat (min a xs.length) (min b xs.length - min a xs.length) ((min b xs.length : Nat) : Int) (by omega)
    rw [h1, List.map_map]
    have ha' : min a xs.length = a := by omega
    rw [ha']
    have h2 := map_range_getElem xs a (min b xs.length - a) (by omega)
    have e : (fun i : Int => xs[i.toNat]!) ∘ (fun k : Nat => ((a + k : Nat) : Int)) = fun k => xs[a + k]! := by
      funext k; simp only [Function.comp, Int.toNat_natCast]
    rw [e, h2]
    apply List.ext_getElem
    · simp; omega
    · intro i h3 h4; simp
  · rw [arange_empty _ _ (by omega)]
    have : (xs.drop a).take (b - a) = [] := by
      apply List.eq_nil_of_length_eq_zero
      simp; omega
    rw [this]; rfl

/-- **extend**, `other` a ListOfDicts: the references of both. -/
theorem extend_run (rs os : List Nat) (hself : ρ.lookup "self" = some (refsVal rs))
    (hother : ρ.lookup "other" = some (refsVal os)) :
    runAY F [.app "yield-from" [.app "itertools.chain" [.sym "self", .sym "other"]]] ρ σ =
      some ((rs ++ os).map PVal.ref, σ) := by
  simp only [runAY, runA, evalAB_cons, evalAB_nil, evalAS_yieldFrom, evalAE_chain, evalAE_sym_self, evalAE_sym_other, hself, hother,
    refsVal, Option.bind_some, PVal.asTuple, Option.map_some, List.nil_append, List.map_append]

/-- **extend**, `other` any sequence of dict objects / dict values: `self.__class__(other)` wraps each in a NEW dict, yielded
    by value after the receiver's references. -/
theorem extend_wrap_run (rs : List Nat) (vs : List PVal) (ds : List LoD.Dict)
    (hself : ρ.lookup "self" = some (refsVal rs)) (hother : ρ.lookup "other" = some (.tuple vs))
    (hds : allM (copyVal σ) vs = some (ds.map dictVal)) :
    runAY F [.app "yield-from" [.app "itertools.chain" [.sym "self", .app ".__class__" [.sym "self", .sym "other"]]]] ρ σ =
      some (rs.map PVal.ref ++ ds.map dictVal, σ) := by
  simp only [runAY, runA, evalAB_cons, evalAB_nil, evalAS_yieldFrom, evalAE_chain, evalAE_class, evalAE_sym_self, evalAE_sym_other,
    hself, hother, hds, refsVal, Option.bind_some, PVal.asTuple, Option.map_some, List.nil_append]

/-- **group_by**: the keys are recorded on the receiver, which is returned itself. -/
theorem group_by_run (v : PVal) (ks : List PVal) (hself : ρ.lookup "self" = some v) (hkeys : ρ.lookup "keys" = some (.tuple ks)) :
    retA F (Out.ret [.app "setattr" [.sym "self", .sym "_group_keys", .app "tuple()" [.sym "keys"]]] (.sym "self")) ρ σ =
      some (v, (groupKeysName, .tuple ks) :: ρ, σ) := by
  have h2 : ((groupKeysName, PVal.tuple ks) :: ρ).lookup "self" = some v := by
    rw [List.lookup_cons]; simp only [show ("self" == groupKeysName) = false by decide]; exact hself
  simp only [retA, runA, evalAB_cons, evalAB_nil, evalAS_setattr, evalAE_tupleCall, evalAE_sym_keys, hkeys, Option.bind_some,
    PVal.asTuple, Option.map_some, evalAE_sym_self, h2]


/-- one side of `_split_join_by`: `[x if isinstance(x, str) else x[i] for x in by]`. -/
def sideT (i : Int) : Term :=
  .app "ListComp" [.app "ifexp" [.app "isinstance" [.sym "x", .sym "str"], .sym "x", .app "getitem" [.sym "x", .int i]],
    .app "in" [.sym "x", .sym "by", .app "if" []]]

theorem side_eval (i : Int) (pick : ByArg → String) (bys : List ByArg) (hby : ρ.lookup "by" = some (byVal bys))
    (hp : ∀ a b, getItem σ (.tuple [PVal.str a, PVal.str b]) (.atom (.i i)) = some (PVal.str (pick (.pair a b))))
    (hs : ∀ k, pick (.same k) = k) :
    evalAE F (sideT i) ρ σ = some (keysVal (bys.map pick)) := by
  have h := compLoop_map (bindTarget (.sym "x")) (fun _ => some true)
    (fun ρ1 => evalAE F (.app "ifexp" [.app "isinstance" [.sym "x", .sym "str"], .sym "x", .app "getitem" [.sym "x", .int i]]) ρ1 σ)
    ρ ByArg.val (fun b => some (PVal.str (pick b))) bys (by
      intro b _
      refine ⟨("x", b.val) :: ρ, rfl, Or.inr ⟨_, rfl, rfl, ?_⟩⟩
      have hx : ∀ v : PVal, (("x", v) :: ρ).lookup "x" = some v := fun v => by rw [List.lookup_cons]; simp
      rw [evalAE_ifexp, evalAE_isinstance_str, evalAE_sym_x, hx]
      cases b with
      | same k => simp only [ByArg.val, PVal.str, PVal.asStr, Option.map_some, Option.isSome_some, Option.bind_some, truthy,
          if_true, hs]
      | pair a b =>
        simp only [ByArg.val, PVal.asStr, Option.map_some, Option.isSome_none, Option.bind_some, truthy,
          Bool.false_eq_true, if_false, evalAE_getitem_x_int, hx, hp])
  unfold sideT
  rw [evalAE_ListComp, evalAE_sym_by, hby]
  simp only [byVal, Option.bind_some, PVal.asTuple, h, Option.map_some, keysVal, List.filterMap_eq_map', List.map_map]
  rfl

/-- **_split_join_by**: the two key-name lists, as the join bodies use them (`splitBy`). -/
theorem split_join_by_run (bys : List ByArg) (hby : ρ.lookup "by" = some (byVal bys)) :
    retA F (Out.ret [] (.app "tuple" [sideT 0, sideT 1])) ρ σ =
      some (.tuple [keysVal (byLeft bys), keysVal (byRight bys)], ρ, σ) := by
  have h0 := side_eval F ρ σ 0 ByArg.left bys hby (fun _ _ => rfl) (fun _ => rfl)
  have h1 := side_eval F ρ σ 1 ByArg.right bys hby (fun _ _ => rfl) (fun _ => rfl)
  simp only [retA, runA, evalAB_nil, Option.map_some, Option.bind_some, evalAE_tuple, evalAEs_cons, evalAEs_nil, h0, h1, byLeft,
    byRight]

end Small


/-! ### 2. allocation -/

theorem Store.lt_fresh_of_mem (σ : Store) (p : Nat × LoD.Dict) (h : p ∈ σ) : p.1 < σ.fresh := by
  induction σ with
  | nil => cases h
  | cons q σ ih =>
    simp only [Store.fresh, List.foldr_cons]
    rcases List.mem_cons.mp h with e | m
    · subst e; omega
    · have := ih m
      simp only [Store.fresh] at this
      omega

theorem Store.mem_of_lookup (σ : Store) (n : Nat) (d : LoD.Dict) (h : σ.lookup n = some d) : (n, d) ∈ σ := by
  induction σ with
  | nil => simp at h
  | cons q σ ih =>
    rw [List.lookup_cons] at h
    by_cases e : n == q.1
    · simp only [e] at h
      have e' : n = q.1 := by simpa using e
      have : q = (n, d) := by cases q; simp_all
      rw [this]; exact List.mem_cons_self
    · simp only [e] at h
      exact List.mem_cons_of_mem _ (ih h)

theorem Store.lookup_fresh (σ : Store) : σ.lookup σ.fresh = none := by
  cases h : σ.lookup σ.fresh with
  | none => rfl
  | some d =>
    have := Store.lt_fresh_of_mem σ _ (Store.mem_of_lookup σ _ d h)
    simp at this

theorem Store.lookup_alloc (σ : Store) (d : LoD.Dict) (n : Nat) :
    (σ.alloc d).2.lookup n = if n = σ.fresh then some d else σ.lookup n := by
  simp only [Store.alloc, List.lookup_append]
  by_cases e : n = σ.fresh
  · subst e
    simp [Store.lookup_fresh]
  · have : (n == σ.fresh) = false := by simpa using e
    simp [e, List.lookup_cons, this]

theorem Store.lookup_alloc_old (σ : Store) (d : LoD.Dict) (n : Nat) (D : LoD.Dict) (h : σ.lookup n = some D) :
    (σ.alloc d).2.lookup n = some D := by
  rw [Store.lookup_alloc]
  have : n ≠ σ.fresh := fun e => by rw [e, Store.lookup_fresh] at h; cases h
  simp [this, h]

/-- the items `allocAll` creates: ids paired with the contents. -/
def mkItems (ns : List Nat) (ds : List LoD.Dict) : List Item := List.zipWith (fun n d => { tag := n, kv := d }) ns ds

/-- `allocAll`: the new ids are unused before, pairwise distinct, hold the given contents in order; every other id is
    as before. -/
theorem allocAll_spec (σ : Store) (ds : List LoD.Dict) :
    (allocAll σ ds).1.length = ds.length ∧
    (∀ n, n ∈ (allocAll σ ds).1 → σ.lookup n = none) ∧
    (allocAll σ ds).1.Nodup ∧
    Store.view (allocAll σ ds).2 (allocAll σ ds).1 = some (mkItems (allocAll σ ds).1 ds) ∧
    (∀ n, n ∉ (allocAll σ ds).1 → (allocAll σ ds).2.lookup n = σ.lookup n) := by
  induction ds generalizing σ with
  | nil =>
    refine ⟨rfl, ?_, List.nodup_nil, rfl, fun _ _ => rfl⟩
    intro n h
    simp [allocAll] at h
  | cons d ds ih =>
    obtain ⟨h1, h2, h3, h4, h5⟩ := ih (σ.alloc d).2
    have hf : (σ.alloc d).1 = σ.fresh := rfl
    have hnew : ∀ n, n ∈ (allocAll (σ.alloc d).2 ds).1 → n ≠ σ.fresh := by
      intro n hn e
      have := h2 n hn
      rw [Store.lookup_alloc, if_pos e] at this
      cases this
    simp only [allocAll]
    refine ⟨by simp [h1], ?_, ?_, ?_, ?_⟩
    · intro n hn
      rcases List.mem_cons.mp hn with e | m
      · rw [e, hf]; exact Store.lookup_fresh σ
      · have := h2 n m
        rw [Store.lookup_alloc, if_neg (hnew n m)] at this
        exact this
    · exact List.nodup_cons.mpr ⟨fun hm => hnew _ hm hf, h3⟩
    · have hl : (allocAll (σ.alloc d).2 ds).2.lookup σ.fresh = some d := by
        rw [h5 _ (fun hm => hnew _ hm rfl), Store.lookup_alloc, if_pos rfl]
      rw [hf]
      simp only [Store.view, hl, Option.bind_some, h4, Option.map_some, mkItems, List.zipWith_cons_cons]
    · intro n hn
      have hn1 : n ≠ σ.fresh := fun e => hn (e ▸ hf ▸ List.mem_cons_self)
      have hn2 : n ∉ (allocAll (σ.alloc d).2 ds).1 := fun hm => hn (List.mem_cons_of_mem _ hm)
      rw [h5 n hn2, Store.lookup_alloc, if_neg hn1]

theorem mkItems_tags (ns : List Nat) (ds : List LoD.Dict) (h : ns.length = ds.length) : (mkItems ns ds).map (·.tag) = ns := by
  induction ns generalizing ds with
  | nil => cases ds <;> simp_all [mkItems]
  | cons n ns ih =>
    cases ds with
    | nil => simp at h
    | cons d ds =>
      simp only [mkItems, List.zipWith_cons_cons, List.map_cons] at ih ⊢
      rw [ih ds (by simpa using h)]

theorem mkItems_kvs (ns : List Nat) (ds : List LoD.Dict) (h : ns.length = ds.length) : (mkItems ns ds).map (·.kv) = ds := by
  induction ns generalizing ds with
  | nil => cases ds <;> simp_all [mkItems]
  | cons n ns ih =>
    cases ds with
    | nil => simp at h
    | cons d ds =>
      simp only [mkItems, List.zipWith_cons_cons, List.map_cons] at ih ⊢
      rw [ih ds (by simpa using h)]

theorem materialize_refs (σ : Store) (rs : List Nat) : materialize σ (rs.map PVal.ref) = some (rs, σ) := by
  induction rs with
  | nil => rfl
  | cons r rs ih => simp only [List.map_cons, materialize, ih, Option.map_some]

theorem materialize_dicts (σ : Store) (ds : List LoD.Dict) : materialize σ (ds.map dictVal) = some (allocAll σ ds) := by
  induction ds generalizing σ with
  | nil => rfl
  | cons d ds ih =>
    have hk := asKvs_dictVal d
    simp only [List.map_cons, allocAll]
    have := ih (σ.alloc d).2
    simp only [dictVal, dictValP] at hk this ⊢
    rw [materialize]
    · simp only [hk, Option.bind_some, this, Option.map_some]
    · intro n h; cases h



/-! ### 5. method calls; aggregate -/

section EqsM
variable (F : Funs) (B : Bodies)

theorem evalAM_deepcopy (x : Term) (s : MSt) : evalAM F B (.app ".deepcopy" [x]) s =
    memoized (.app ".deepcopy" [x]) s fun s =>
    (evalAM F B x s).bind fun r => r.1.asRefs.bind fun rs => (Store.view r.2.store rs).map fun xs =>
      (refsV (allocAll r.2.store (xs.map (·.kv))).1, { r.2 with store := (allocAll r.2.store (xs.map (·.kv))).2 }) := rfl
theorem evalAM_unique (x : Term) (args : List Term) (s : MSt) : evalAM F B (.app ".unique" (x :: args)) s =
    memoized (.app ".unique" (x :: args)) s fun s =>
    (evalAM F B x s).bind fun rx => (evalStar F args rx.2.env rx.2.store).bind fun ks =>
      callGen (runJ F) B.unique [("self", rx.1), ("keys", .tuple ks)] rx.2 := rfl
theorem evalAM_select (x : Term) (args : List Term) (s : MSt) : evalAM F B (.app ".select" (x :: args)) s =
    memoized (.app ".select" (x :: args)) s fun s =>
    (evalAM F B x s).bind fun rx => (evalStar F args rx.2.env rx.2.store).bind fun ks =>
      callGen (runJ F) B.select [("self", rx.1), ("keys", .tuple ks)] rx.2 := rfl
theorem evalAM_sort (x : Term) (kws : List Term) (s : MSt) : evalAM F B (.app ".sort" (x :: kws)) s =
    memoized (.app ".sort" (x :: kws)) s fun s =>
    (evalAM F B x s).bind fun rx => (evalKwargs F kws rx.2.env rx.2.store).bind fun ps =>
      (retA F B.sort [("self", rx.1), ("key_dir_pairs", dictValP (aofPairs ps))] rx.2.store).map fun r =>
        (r.1, { rx.2 with store := r.2.2 }) := rfl
theorem evalAM_sym (x : String) (s : MSt) : evalAM F B (.sym x) s = (evalAE F (.sym x) s.env s.store).map fun v => (v, s) := rfl
theorem evalAM_ListOfDicts (e : Term) (s : MSt) : evalAM F B (.app "ListOfDicts" [e]) s =
    (evalAE F e s.env s.store).bind fun v => v.asRefs.bind fun rs => (Store.view s.store rs).map fun xs =>
      (refsV (allocAll s.store (xs.map (·.kv))).1, { s with store := (allocAll s.store (xs.map (·.kv))).2 }) := rfl
theorem evalAM_call (args : List Term) (s : MSt) : evalAM F B (.app "call" args) s =
    (evalAE F (.app "call" args) s.env s.store).map fun v => (v, s) := rfl
theorem evalAM_items (args : List Term) (s : MSt) : evalAM F B (.app ".items" args) s =
    (evalAE F (.app ".items" args) s.env s.store).map fun v => (v, s) := rfl
end EqsM

/-! ### the pieces of a method call -/

theorem refsV_eq (rs : List Nat) : refsV rs = refsVal rs := rfl

theorem asRefs_refsV (rs : List Nat) : (refsV rs).asRefs = some rs := by
  simp only [PVal.asRefs, refsV, PVal.asTuple, Option.bind_some]
  exact (allM_map PVal.asRef PVal.ref id (fun _ => rfl) rs).trans (by simp)

theorem asRefs_tagRefs (xs : List Item) : (PVal.tuple (xs.map tagRef)).asRefs = some (xs.map (·.tag)) := by
  simp only [PVal.asRefs, PVal.asTuple, Option.bind_some]
  exact allM_map PVal.asRef tagRef (·.tag) (fun _ => rfl) xs

theorem memoized_miss (t : Term) (s : MSt) (k : MSt → Option (PVal × MSt)) (h : memoGet s.memo t = none) :
    memoized t s k = (k s).map fun r => (r.1, { r.2 with memo := (t, r.1) :: r.2.memo }) := by
  simp only [memoized, h]

theorem callGen_refs (runner : List Term → Env → Store → Option (List PVal × Store)) (effs : List Term) (ρ' : Env)
    (e : Env) (σ0 : Store) (m : List (Term × PVal)) (c : List (String × Int))
    (rs : List Nat) (σ' : Store) (h : runner effs ρ' σ0 = some (rs.map PVal.ref, σ')) :
    callGen runner effs ρ' ⟨e, σ0, m, c⟩ = some (refsV rs, ⟨e, σ', m, c⟩) := by
  simp only [callGen, h, Option.bind_some, materialize_refs, Option.map_some]

theorem callGen_dicts (runner : List Term → Env → Store → Option (List PVal × Store)) (effs : List Term) (ρ' : Env)
    (e : Env) (σ0 : Store) (m : List (Term × PVal)) (c : List (String × Int))
    (ds : List LoD.Dict) (σ' : Store) (h : runner effs ρ' σ0 = some (ds.map dictVal, σ')) :
    callGen runner effs ρ' ⟨e, σ0, m, c⟩ = some (refsV (allocAll σ' ds).1, ⟨e, (allocAll σ' ds).2, m, c⟩) := by
  simp only [callGen, h, Option.bind_some, materialize_dicts, Option.map_some]

/-! ### aggregate: the terms -/

def gkT : Term := .app "._group_keys" [.sym "self"]
def groupsT : Term :=
  .app ".select" [.app ".deepcopy" [.app ".unique" [.sym "self", .app "*" [gkT]]], .app "*" [gkT]]
def aggExtrT : Term := .app "operator.itemgetter" [.app "*" [gkT]]
def aggSortedT : Term := .app ".sort" [groupsT, .app "=**" [.app "dict.fromkeys" [gkT, .int 1]]]

section AggIter
variable (F : Funs) (B : Bodies)

theorem evalAE_gk (ρ : Env) (σ : Store) : evalAE F gkT ρ σ = ρ.lookup groupKeysName := rfl

theorem evalStar_gk (ρ : Env) (σ : Store) (ks : List String) (hgk : ρ.lookup groupKeysName = some (keysVal ks)) :
    evalStar F [.app "*" [gkT]] ρ σ = some (ks.map PVal.str) := by
  simp only [evalStar, evalAE_gk, hgk, keysVal, Option.bind_some, PVal.asTuple, Option.map_some, List.append_nil]

theorem evalAE_fromkeys (ks v : Term) (ρ : Env) (σ : Store) : evalAE F (.app "dict.fromkeys" [ks, v]) ρ σ =
    (evalAE F ks ρ σ).bind fun vks => (evalAE F v ρ σ).bind fun vv =>
      vks.asTuple.map fun l => .tuple (l.map (fun k => .tuple [k, vv])) := rfl

theorem aofPairs_nodup {κ β : Type} [BEq κ] [LawfulBEq κ] (ps : List (κ × β)) (h : (ps.map (·.1)).Nodup) : aofPairs ps = ps := by
  unfold aofPairs
  suffices H : ∀ acc : List (κ × β), ((acc ++ ps).map (·.1)).Nodup → ps.foldl (fun d p => aset d p.1 p.2) acc = acc ++ ps by
    simpa using H [] (by simpa using h)
  clear h
  induction ps with
  | nil => intro acc _; simp
  | cons p ps ih =>
    intro acc hacc
    have hnot : acc.any (fun q => q.1 == p.1) = false := by
      rw [List.any_eq_false]
      intro q hq hqp
      have e : q.1 = p.1 := by simpa using hqp
      rw [List.map_append, List.nodup_append] at hacc
      exact hacc.2.2 q.1 (List.mem_map_of_mem hq) p.1 (by simp) e
    rw [List.foldl_cons]
    have e : aset acc p.1 p.2 = acc ++ [p] := by simp [aset, hnot]
    rw [e, ih (acc ++ [p]) (by simpa using hacc)]
    simp

theorem kwargs_fromkeys (ρ : Env) (σ : Store) (ks : List String) (hgk : ρ.lookup groupKeysName = some (keysVal ks)) :
    evalKwargs F [.app "=**" [.app "dict.fromkeys" [gkT, .int 1]]] ρ σ =
      some (ks.map fun k => (PVal.str k, PVal.atom (.i 1))) := by
  have h : allM PVal.asPair (ks.map fun k => PVal.tuple [PVal.str k, PVal.atom (.i 1)]) =
      some (ks.map fun k => (PVal.str k, PVal.atom (.i 1))) :=
    allM_map PVal.asPair (fun k => PVal.tuple [PVal.str k, PVal.atom (.i 1)]) _ (fun _ => rfl) ks
  simp only [evalKwargs, evalAE_fromkeys, evalAE_gk, hgk, evalAE_int, keysVal, Option.bind_some, PVal.asTuple,
    Option.map_some, PVal.asPairs, List.map_map, Function.comp_def, h, List.append_nil]

/-! ### group keys given more than once -/

/-- the keys in first-occurrence order (what `dict.fromkeys(by, 1)` keeps). -/
def addKey (acc : List String) (k : String) : List String := if acc.contains k then acc else acc ++ [k]
def dedupK (ks : List String) : List String := ks.foldl addKey []

theorem aset_const {κ : Type} [BEq κ] [LawfulBEq κ] (d : List (κ × Unit)) (k : κ) :
    aset d k () = if d.any (fun p => p.1 == k) then d else d ++ [(k, ())] := by
  rw [aset_def]
  split
  · have : d.map (arepl k ()) = d := by
      conv => rhs; rw [← List.map_id d]
      apply List.map_congr_left
      intro p _
      unfold arepl
      split
      · rename_i h; have := eq_of_beq h; cases p; simp_all
      · rfl
    rw [this]
  · rfl

theorem aofPairs_unit (ks : List String) : ∀ (acc : List String),
    (ks.map fun k => (k, ())).foldl (fun d p => aset d p.1 p.2) (acc.map fun k => (k, ())) =
      (ks.foldl addKey acc).map fun k => (k, ()) := by
  induction ks with
  | nil => intro acc; rfl
  | cons k ks ih =>
    intro acc
    rw [List.map_cons, List.foldl_cons, List.foldl_cons, aset_const]
    have hany : (acc.map fun k => (k, ())).any (fun p => p.1 == k) = acc.contains k := by
      rw [List.any_map]
      induction acc with
      | nil => rfl
      | cons a acc iha =>
        simp only [List.any_cons, List.contains_cons, Function.comp, iha]
        congr 1
        by_cases e : a = k
        · subst e; simp
        · have e' : ¬ k = a := fun h => e h.symm
          rw [beq_eq_false_iff_ne.mpr e, beq_eq_false_iff_ne.mpr e']
    rw [hany]
    unfold addKey
    split
    · exact ih acc
    · have : (acc.map fun k => (k, ())) ++ [(k, ())] = (acc ++ [k]).map fun k => (k, ()) := by simp
      rw [this]; exact ih (acc ++ [k])

theorem dirPairs_of_keys' (ks : List String) :
    dictValP (aofPairs (ks.map fun k => (PVal.str k, PVal.atom (.i 1)))) = dirPairsVal ((dedupK ks).map fun k => (k, false)) := by
  have h1 : (ks.map fun k => (PVal.str k, PVal.atom (.i 1))) =
      (ks.map fun k => (k, ())).map fun p => (PVal.str p.1, (fun _ : Unit => PVal.atom (.i 1)) p.2) := by
    rw [List.map_map]; rfl
  rw [h1, aofPairs_map PVal.str (fun _ : Unit => PVal.atom (.i 1)) kvEnc_str_inj]
  have h2 : aofPairs (ks.map fun k => (k, ())) = (dedupK ks).map fun k => (k, ()) := by
    have := aofPairs_unit ks []
    simpa [aofPairs, dedupK] using this
  rw [h2]
  simp only [dictValP, dirPairsVal, List.map_map, Function.comp_def, pairVal, dirOf]
  rfl

theorem mem_foldl_addKey (ks acc : List String) (k : String) : k ∈ ks.foldl addKey acc ↔ k ∈ acc ∨ k ∈ ks := by
  induction ks generalizing acc with
  | nil => simp
  | cons a ks ih =>
    rw [List.foldl_cons, ih]
    unfold addKey
    split
    · rename_i h
      have ha : a ∈ acc := by simpa using h
      constructor
      · rintro (h | h); exact Or.inl h; exact Or.inr (List.mem_cons_of_mem _ h)
      · rintro (h | h)
        · exact Or.inl h
        · rcases List.mem_cons.mp h with e | m
          · exact Or.inl (e ▸ ha)
          · exact Or.inr m
    · simp only [List.mem_append, List.mem_cons, List.not_mem_nil, or_false]
      constructor
      · rintro ((h | h) | h); exact Or.inl h; exact Or.inr (Or.inl h); exact Or.inr (Or.inr h)
      · rintro (h | h | h); exact Or.inl (Or.inl h); exact Or.inl (Or.inr h); exact Or.inr h

theorem mem_dedupK (ks : List String) (k : String) : k ∈ dedupK ks ↔ k ∈ ks := by
  simp [dedupK, mem_foldl_addKey]

/-- a later occurrence of a key on which the two items agree does not matter for the lexicographic order. -/
theorem lexLe_skip_agree (a b : Item) (k : String) (h : valOf k a = valOf k b) (l1 l2 : List String) :
    LoD.lexLe (extract (l1 ++ k :: l2) a) (extract (l1 ++ k :: l2) b) = LoD.lexLe (extract (l1 ++ l2) a) (extract (l1 ++ l2) b) := by
  induction l1 with
  | nil =>
    simp only [List.nil_append, extract_cons, LoD.lexLe, h, if_true]
  | cons k0 l1 ih =>
    simp only [List.cons_append, extract_cons, LoD.lexLe, ih]

/-- … nor does a repetition of an earlier key. -/
theorem lexLe_skip_dup (a b : Item) (k : String) (l1 l2 : List String) (hk : k ∈ l1) :
    LoD.lexLe (extract (l1 ++ k :: l2) a) (extract (l1 ++ k :: l2) b) = LoD.lexLe (extract (l1 ++ l2) a) (extract (l1 ++ l2) b) := by
  induction l1 with
  | nil => cases hk
  | cons k0 l1 ih =>
    simp only [List.cons_append, extract_cons, LoD.lexLe]
    by_cases h : valOf k0 a = valOf k0 b
    · simp only [h, if_true]
      rcases List.mem_cons.mp hk with e | m
      · subst e; exact lexLe_skip_agree a b k h l1 l2
      · exact ih m
    · simp only [h, if_false]

theorem lexLe_foldl_addKey (a b : Item) (ks : List String) : ∀ acc : List String,
    LoD.lexLe (extract (ks.foldl addKey acc) a) (extract (ks.foldl addKey acc) b) =
      LoD.lexLe (extract (acc ++ ks) a) (extract (acc ++ ks) b) := by
  induction ks with
  | nil => intro acc; simp
  | cons k ks ih =>
    intro acc
    rw [List.foldl_cons, ih]
    unfold addKey
    split
    · rename_i h
      have hk : k ∈ acc := by simpa using h
      exact (lexLe_skip_dup a b k acc ks hk).symm
    · rw [List.append_assoc]; rfl

theorem lexLe_dedupK (a b : Item) (ks : List String) :
    LoD.lexLe (extract (dedupK ks) a) (extract (dedupK ks) b) = LoD.lexLe (extract ks a) (extract ks b) := by
  have := lexLe_foldl_addKey a b ks []
  simpa [dedupK] using this


/-- the key entries of a group row: `{k: item[k] for k in by}` (a key given twice appears once). -/
def rowOf (ks : List String) (u : Item) : LoD.Dict := Dict.ofPairs (ks.map fun k => (k, (u.kv.get? k).getD .none))

theorem selectKv_row (ks : List String) (u : Item) (hk : ∀ k, k ∈ ks → u.kv.has k = true) : selectKv ks u.kv = rowOf ks u := by
  unfold selectKv rowOf
  congr 1
  induction ks with
  | nil => rfl
  | cons k ks ih =>
    obtain ⟨v, hv⟩ := get_of_has u.kv k (hk k List.mem_cons_self)
    simp only [List.filterMap_cons, hv, Option.map_some, List.map_cons, Option.getD_some]
    rw [ih (fun k' hk' => hk k' (List.mem_cons_of_mem _ hk'))]

theorem ofPairs_map_get (f : String → LoD.Val) (ks : List String) (k : String) (hk : k ∈ ks) :
    (Dict.ofPairs (ks.map fun k => (k, f k))).get? k = some (f k) := by
  rw [Dict.ofPairs_get?, ← List.map_reverse, List.find?_map]
  have hk' : k ∈ ks.reverse := List.mem_reverse.mpr hk
  cases h : ks.reverse.find? ((fun p : String × LoD.Val => p.1 == k) ∘ fun k => (k, f k)) with
  | none =>
    rw [List.find?_eq_none] at h
    have := h k hk'
    simp at this
  | some k' =>
    have := List.find?_some h
    simp only [Function.comp, beq_iff_eq] at this
    subst this
    rfl

theorem rowOf_get (ks : List String) (u : Item) (k : String) (hk : k ∈ ks) :
    (rowOf ks u).get? k = some ((u.kv.get? k).getD .none) :=
  ofPairs_map_get (fun k => (u.kv.get? k).getD .none) ks k hk

theorem extract_rowOf (ks : List String) (u : Item) (t : Nat) : extract ks ⟨t, rowOf ks u⟩ = extract ks u := by
  unfold extract
  apply List.map_congr_left
  intro k hk
  simp only [rowOf_get ks u k hk, Option.getD_some]


theorem mem_unique (xs : List Item) (ks : List String) (u : Item) (h : u ∈ LoD.unique xs ks) : u ∈ xs :=
  (uniqueScan_sublist xs ks []).subset h

theorem mkItems_map_kv (ns : List Nat) (xs : List Item) (f : Item → LoD.Dict) (h : ns.length = xs.length) :
    ∀ g, g ∈ mkItems ns (xs.map f) → ∃ u, u ∈ xs ∧ g.kv = f u := by
  induction ns generalizing xs with
  | nil => intro g hg; cases xs <;> simp [mkItems] at hg
  | cons n ns ih =>
    cases xs with
    | nil => simp at h
    | cons x xs =>
      intro g hg
      simp only [mkItems, List.map_cons, List.zipWith_cons_cons, List.mem_cons] at hg
      rcases hg with e | m
      · exact ⟨x, List.mem_cons_self, by rw [e]⟩
      · obtain ⟨u, hu, e⟩ := ih xs (by simpa using h) g m
        exact ⟨u, List.mem_cons_of_mem _ hu, e⟩

theorem mkItems_map_extract (ks : List String) (ns : List Nat) (xs : List Item) (f : Item → LoD.Dict) (h : ns.length = xs.length)
    (he : ∀ u, u ∈ xs → extract ks { tag := 0, kv := f u } = extract ks u) :
    (mkItems ns (xs.map f)).map (extract ks) = xs.map (extract ks) := by
  induction ns generalizing xs with
  | nil => cases xs <;> simp_all [mkItems]
  | cons n ns ih =>
    cases xs with
    | nil => simp at h
    | cons x xs =>
      simp only [mkItems, List.map_cons, List.zipWith_cons_cons] at ih ⊢
      rw [ih xs (by simpa using h) (fun u hu => he u (List.mem_cons_of_mem _ hu))]
      congr 1
      exact he x List.mem_cons_self

/-- **the iterable of the second loop of `aggregate`**: `self.unique(*by).deepcopy().select(*by).sort(**dict.fromkeys(by, 1))`
    evaluates to NEW objects `S`, one per distinct key tuple, holding exactly the key entries, in the order of the model's
    `LoD.aggregate`; every object that existed before is unchanged. -/
theorem agg_iterable (hBu : B.unique = [uniqueT]) (hBs : B.select = [selectT]) (hBo : B.sort = Out.ret [sortLoopT] sortRetT)
    (ρ : Env) (σ : Store) (rs : List Nat) (xs : List Item) (ks : List String) (hne : ks ≠ [])
    (hself : ρ.lookup "self" = some (refsVal rs)) (hgk : ρ.lookup groupKeysName = some (keysVal ks))
    (hv : Store.view σ rs = some xs) (hk : ∀ x, x ∈ xs → ∀ k, k ∈ ks → x.kv.has k = true)
    (hh : ∀ k, k ∈ ks → ∀ x, x ∈ xs → ∀ y, y ∈ xs → sameKind (keyVal k x) (keyVal k y) = true) :
    ∃ σ2 S, evalM1 F B aggSortedT ρ σ = some (.tuple (S.map tagRef), σ2) ∧
      S.map (extract ks) = (LoD.aggregate xs ks).map (·.1) ∧
      (∀ g, g ∈ S → g.kv = Dict.ofPairs (ks.map fun k => (k, (g.kv.get? k).getD .none))) ∧
      (S.map (·.tag)).Nodup ∧ (∀ g, g ∈ S → σ.lookup g.tag = none) ∧
      Store.view σ2 (S.map (·.tag)) = some S ∧ (∀ n d, σ.lookup n = some d → σ2.lookup n = some d) := by
  -- unique
  let U := LoD.unique xs ks
  have hUx : ∀ u, u ∈ U → u ∈ xs := fun u hu => mem_unique xs ks u hu
  let s0 : MSt := { env := ρ, store := σ, memo := [], ctr := [] }
  have hstar : ∀ σ', evalStar F [.app "*" [gkT]] ρ σ' = some (ks.map PVal.str) := fun σ' => evalStar_gk F ρ σ' ks hgk
  have huniq : runJ F B.unique [("self", refsVal rs), ("keys", .tuple (ks.map PVal.str))] σ = some ((U.map (·.tag)).map PVal.ref, σ) := by
    rw [hBu, unique_run F _ σ rs ks xs hne rfl rfl rfl hv hk, List.map_map]; rfl
  have e1 : evalAM F B (.app ".unique" [.sym "self", .app "*" [gkT]]) s0 =
      some (refsV (U.map (·.tag)), { s0 with memo := [(.app ".unique" [.sym "self", .app "*" [gkT]], refsV (U.map (·.tag)))] }) := by
    rw [evalAM_unique, memoized_miss _ _ _ rfl, evalAM_sym]
    simp only [evalAE_sym_self, s0, hself, Option.map_some, Option.bind_some, hstar]
    rw [callGen_refs (runJ F) B.unique _ _ _ _ _ (U.map (·.tag)) σ huniq]
    rfl
  -- deepcopy
  have hvU : Store.view σ (U.map (·.tag)) = some U :=
    Store.view_of_lookups σ U (fun u hu => Store.view_lookup_of_mem σ rs xs hv u (hUx u hu))
  obtain ⟨hl1, hnew1, hnd1, hview1, hold1⟩ := allocAll_spec σ (U.map (·.kv))
  generalize hA1 : allocAll σ (U.map (·.kv)) = A1 at hl1 hnew1 hnd1 hview1 hold1
  have e2 : evalAM F B (.app ".deepcopy" [.app ".unique" [.sym "self", .app "*" [gkT]]]) s0 =
      some (refsV A1.1, { s0 with store := A1.2, memo :=
        [(.app ".deepcopy" [.app ".unique" [.sym "self", .app "*" [gkT]]], refsV A1.1),
         (.app ".unique" [.sym "self", .app "*" [gkT]], refsV (U.map (·.tag)))] }) := by
    rw [evalAM_deepcopy, memoized_miss _ _ _ rfl, e1]
    simp only [Option.bind_some, asRefs_refsV, s0, hvU, Option.map_some, hA1]
  -- select
  let G1 := mkItems A1.1 (U.map (·.kv))
  have hsel : runJ F B.select [("self", refsV A1.1), ("keys", .tuple (ks.map PVal.str))] A1.2 =
      some ((G1.map fun x => selectKv ks x.kv).map dictVal, A1.2) := by
    rw [hBs, select_run F _ A1.2 A1.1 ks G1 rfl rfl hview1, List.map_map]; rfl
  have hG1kv : G1.map (·.kv) = U.map (·.kv) := mkItems_kvs _ _ (by simpa using hl1)
  have hds : (G1.map fun x => selectKv ks x.kv) = U.map fun u => rowOf ks u := by
    have : (G1.map fun x => selectKv ks x.kv) = (G1.map (·.kv)).map (selectKv ks) := by rw [List.map_map]; rfl
    rw [this, hG1kv, List.map_map]
    apply List.map_congr_left
    intro u hu
    exact selectKv_row ks u (hk u (hUx u hu))
  obtain ⟨hl2, hnew2, hnd2, hview2, hold2⟩ := allocAll_spec A1.2 (U.map fun u => rowOf ks u)
  generalize hA2 : allocAll A1.2 (U.map fun u => rowOf ks u) = A2 at hl2 hnew2 hnd2 hview2 hold2
  let s2 : MSt := { s0 with store := A2.2, memo :=
        [(groupsT, refsV A2.1),
         (.app ".deepcopy" [.app ".unique" [.sym "self", .app "*" [gkT]]], refsV A1.1),
         (.app ".unique" [.sym "self", .app "*" [gkT]], refsV (U.map (·.tag)))] }
  have e3 : evalAM F B groupsT s0 = some (refsV A2.1, s2) := by
    unfold groupsT
    rw [evalAM_select, memoized_miss _ _ _ rfl, e2]
    simp only [Option.bind_some, s0, hstar]
    rw [callGen_dicts (runJ F) B.select _ _ _ _ _ (G1.map fun x => selectKv ks x.kv) A1.2 hsel]
    simp only [Option.map_some, hds, hA2, s2, s0, groupsT]
  -- sort
  let G2 := mkItems A2.1 (U.map fun u => rowOf ks u)
  have hG2 : ∀ g, g ∈ G2 → ∃ u, u ∈ U ∧ g.kv = rowOf ks u :=
    mkItems_map_kv A2.1 U (fun u => rowOf ks u) (by simpa using hl2)
  have hkeyval : ∀ (g u : Item) (k : String), k ∈ ks → g.kv = rowOf ks u →
      g.kv.get? k = some ((u.kv.get? k).getD .none) := by
    intro g u k hk' e
    rw [e]; exact rowOf_get ks u k hk'
  have hsort := sort_run F [("self", refsVal A2.1), ("key_dir_pairs", dirPairsVal ((dedupK ks).map fun k => (k, false)))] A2.2 A2.1 G2
    ((dedupK ks).map fun k => (k, false)) rfl rfl hview2
    (by
      intro p hp g hg
      obtain ⟨k, hk'', rfl⟩ := List.mem_map.mp hp
      have hk' : k ∈ ks := (mem_dedupK ks k).mp hk''
      obtain ⟨u, _, e⟩ := hG2 g hg
      rw [Dict.has_iff_get?, hkeyval g u k hk' e]; rfl)
    (by
      intro p hp g hg g' hg'
      obtain ⟨k, hk'', rfl⟩ := List.mem_map.mp hp
      have hk' : k ∈ ks := (mem_dedupK ks k).mp hk''
      obtain ⟨u, hu, e⟩ := hG2 g hg
      obtain ⟨u', hu', e'⟩ := hG2 g' hg'
      simp only [keyVal, hkeyval g u k hk' e, hkeyval g' u' k hk' e', Option.getD_some]
      exact hh k hk' u (hUx u hu) u' (hUx u' hu'))
  obtain ⟨ρs, hsort⟩ := hsort
  let S := LoD.sort G2 ((dedupK ks).map fun k => (k, false))
  have hperm : S.Perm G2 := sort_perm G2 _
  have e4 : evalM1 F B aggSortedT ρ σ = some (.tuple (S.map tagRef), A2.2) := by
    unfold evalM1 aggSortedT
    show (evalAM F B _ s0).map _ = _
    rw [evalAM_sort, memoized_miss _ _ _ rfl, e3]
    simp only [Option.bind_some, s2, s0, kwargs_fromkeys F ρ A2.2 ks hgk, dirPairs_of_keys' ks, hBo, refsV_eq, hsort,
      Option.map_some]
    rfl
  have hG2tags : G2.map (·.tag) = A2.1 := mkItems_tags _ _ (by simpa using hl2)
  refine ⟨A2.2, S, e4, ?_, ?_, ?_, ?_, ?_, ?_⟩
  · -- the ids: both sides are the sorted list of the distinct key tuples
    have hG2ids : G2.map (extract ks) = U.map (extract ks) :=
      mkItems_map_extract ks A2.1 U (fun u => rowOf ks u) (by simpa using hl2) (fun u _ => extract_rowOf ks u 0)
    have p1 : (S.map (extract ks)).Perm ((LoD.aggregate xs ks).map (·.1)) :=
      ((hperm.map (extract ks)).trans (List.Perm.of_eq hG2ids)).trans (aggregate_keys_perm xs ks).symm
    have s1 : (S.map (extract ks)).Pairwise (fun a b => LoD.lexLe a b) := by
      rw [List.pairwise_map]
      exact (sort_asc_lex G2 (dedupK ks)).imp (fun {a b} h => by rw [← lexLe_dedupK]; exact h)
    exact List.Perm.eq_of_pairwise (fun a b _ _ h1 h2 => lexLe_antisymm a b h1 h2) s1 (aggregate_keys_sorted xs ks) p1
  · intro g hg
    obtain ⟨u, _, e⟩ := hG2 g (hperm.mem_iff.mp hg)
    rw [e]
    show rowOf ks u = Dict.ofPairs (ks.map fun k => (k, ((rowOf ks u).get? k).getD .none))
    unfold rowOf
    congr 1
    apply List.map_congr_left
    intro k hk'
    rw [ofPairs_map_get (fun k => (u.kv.get? k).getD .none) ks k hk']; rfl
  · exact (hperm.map (·.tag)).nodup_iff.mpr (hG2tags ▸ hnd2)
  · intro g hg
    have hgt : g.tag ∈ A2.1 := by
      rw [← hG2tags]; exact List.mem_map_of_mem (hperm.mem_iff.mp hg)
    have h1 := hnew2 g.tag hgt
    by_cases hm : g.tag ∈ A1.1
    · exact hnew1 g.tag hm
    · rw [hold1 g.tag hm] at h1; exact h1
  · exact Store.view_of_lookups A2.2 S (fun g hg =>
      Store.view_lookup_of_mem A2.2 A2.1 G2 hview2 g (hperm.mem_iff.mp hg))
  · intro n d hn
    have h1 : n ∉ A1.1 := fun hm => by rw [hnew1 n hm] at hn; cases hn
    have h2 : n ∉ A2.1 := fun hm => by
      have := hnew2 n hm
      rw [hold1 n h1, hn] at this; cases this
    rw [hold2 n h2, hold1 n h1, hn]

end AggIter


/-! ### aggregate: the buckets -/

/-- the local `items_by_group` as key tuple ↦ member ids, in first-seen order. -/
abbrev Groups := List (List LoD.Val × List Nat)

def encG (G : Groups) : List (PVal × PVal) := G.map fun p => (keyEnc p.1, refsV p.2)

/-- `items_by_group.setdefault(id, []).append(item)`. -/
def gAdd (G : Groups) (id : List LoD.Val) (r : Nat) : Groups := aset G id ((aget G id).getD [] ++ [r])

theorem bucketAdd_enc (G : Groups) (id : List LoD.Val) (r : Nat) :
    bucketAdd (encG G) (keyEnc id) (.ref r) = some (encG (gAdd G id r)) := by
  have hget : aget (encG G) (keyEnc id) = (aget G id).map refsV := aget_map keyEnc refsV keyEnc_inj G id
  have hset : ∀ ns : List Nat, aset (encG G) (keyEnc id) (refsV ns) = encG (aset G id ns) :=
    fun ns => aset_map keyEnc refsV keyEnc_inj G id ns
  unfold bucketAdd gAdd
  rw [keyEnc_plain, if_pos rfl, hget]
  cases h : aget G id with
  | none =>
    simp only [Option.map_none, Option.getD_none, List.nil_append]
    exact congrArg some (hset [r])
  | some ns =>
    simp only [Option.map_some, refsV, Option.getD_some]
    have := hset (ns ++ [r])
    simp only [refsV, List.map_append, List.map_cons, List.map_nil] at this
    exact congrArg some this

/-- the buckets after the first loop: every key tuple maps to its members, in list order. -/
def bucketsAfter (ks : List String) (xs : List Item) (G : Groups) : Groups :=
  xs.foldl (fun G x => gAdd G (extract ks x) x.tag) G

theorem aget_bucketsAfter (ks : List String) (id : List LoD.Val) : ∀ (xs : List Item) (G : Groups),
    aget (bucketsAfter ks xs G) id =
      match aget G id, (xs.filter fun x => extract ks x == id).map (·.tag) with
      | none, [] => none
      | o, M => some (o.getD [] ++ M)
  | [], G => by
    simp only [bucketsAfter, List.foldl_nil, List.filter_nil, List.map_nil]
    cases aget G id <;> simp
  | x :: xs, G => by
    have ih := aget_bucketsAfter ks id xs (gAdd G (extract ks x) x.tag)
    simp only [bucketsAfter, List.foldl_cons] at ih ⊢
    rw [ih]
    by_cases e : extract ks x = id
    · subst e
      simp only [gAdd, aget_aset_self, List.filter_cons, beq_self_eq_true, if_true, List.map_cons]
      cases aget G (extract ks x) <;> simp
    · have e' : (extract ks x == id) = false := by simpa using e
      simp only [gAdd, aget_aset_other _ _ _ _ e', List.filter_cons, e', Bool.false_eq_true, if_false]


/-! ### aggregate: the first loop -/

def aggFillBodyT : Term :=
  .app "block" [.app "assign" [.sym "id", .app "call" [aggExtrT, .sym "item"]],
    .app ".append" [.app ".setdefault" [.sym "{}", .sym "id", .app "list" []], .sym "item"]]
def aggFillT : Term := .app "for" [.sym "item", .sym "self", aggFillBodyT]

section AggFill
variable (F : Funs) (B : Bodies)

theorem evalGS_block (ss : List Term) (s : St) : evalGS F B (.app "block" ss) s = evalGB F B ss s := rfl
theorem evalGB_nil (s : St) : evalGB F B [] s = some (Ctl.normal, s) := rfl
theorem evalGB_cons (t : Term) (ts : List Term) (s : St) :
    evalGB F B (t :: ts) s = (evalGS F B t s).bind fun r => match r.1 with | .normal => evalGB F B ts r.2 | .cont => some r := rfl
theorem evalGS_for (tgt it body : Term) (s : St) : evalGS F B (.app "for" [tgt, it, body]) s =
    (evalM1 F B it s.env s.store).bind fun r => r.1.asTuple.bind fun vs =>
      (loopOver (evalGS F B body) (bindTarget tgt) vs { s with store := r.2 }).map fun s' => (Ctl.normal, s') := rfl
theorem evalGS_for_init (tgt it body : Term) (x : String) (e : Term) (s : St) :
    evalGS F B (.app "for" [tgt, it, body, .app "init" [.sym x, e]]) s =
    (evalM1 F B it s.env s.store).bind fun r => r.1.asTuple.bind fun vs =>
      (loopOver (evalGS F B body) (bindTarget tgt) vs
        { s with env := initEnv F x e s.env s.store, store := r.2 }).map fun s' => (Ctl.normal, s') := rfl
theorem evalGS_assign (x : String) (e : Term) (s : St) : evalGS F B (.app "assign" [.sym x, e]) s =
    (evalM1 F B e s.env s.store).map fun r => (Ctl.normal, { s with env := (x, r.1) :: s.env, store := r.2 }) := rfl
theorem evalGS_append (k v : Term) (s : St) :
    evalGS F B (.app ".append" [.app ".setdefault" [.sym "{}", k, .app "list" []], v]) s =
    (bucketsOf s.env).bind fun d => (evalAE F k s.env s.store).bind fun vk => (evalAE F v s.env s.store).bind fun vv =>
      (bucketAdd d vk vv).map fun d' => (Ctl.normal, { s with env := (bucketsName, dictValP d') :: s.env }) := rfl

theorem evalM1_sym (x : String) (ρ : Env) (σ : Store) : evalM1 F B (.sym x) ρ σ = (evalAE F (.sym x) ρ σ).map fun v => (v, σ) := by
  simp only [evalM1, evalAM_sym, Option.map_map]; rfl
theorem evalM1_call (args : List Term) (ρ : Env) (σ : Store) :
    evalM1 F B (.app "call" args) ρ σ = (evalAE F (.app "call" args) ρ σ).map fun v => (v, σ) := by
  simp only [evalM1, evalAM_call, Option.map_map]; rfl
theorem evalM1_items (args : List Term) (ρ : Env) (σ : Store) :
    evalM1 F B (.app ".items" args) ρ σ = (evalAE F (.app ".items" args) ρ σ).map fun v => (v, σ) := by
  simp only [evalM1, evalAM_items, Option.map_map]; rfl

theorem evalAE_sym_item (ρ : Env) (σ : Store) : evalAE F (.sym "item") ρ σ = ρ.lookup "item" := rfl
theorem evalAE_sym_id (ρ : Env) (σ : Store) : evalAE F (.sym "id") ρ σ = ρ.lookup "id" := rfl
theorem evalAE_sym_group (ρ : Env) (σ : Store) : evalAE F (.sym "group") ρ σ = ρ.lookup "group" := rfl
theorem evalAE_call_extr (x : Term) (ρ : Env) (σ : Store) : evalAE F (.app "call" [aggExtrT, x]) ρ σ =
    (ρ.lookup groupKeysName).bind fun vks => (evalAE F x ρ σ).bind fun vx => itemgetter σ vks vx := rfl

theorem bucketsOf_cons (D : List (PVal × PVal)) (ρ : Env) : bucketsOf ((bucketsName, dictValP D) :: ρ) = some D := by
  simp only [bucketsOf, List.lookup_cons, beq_self_eq_true, Option.getD_some, asPairs_dictValP]

theorem lookup_cons_ne (x y : String) (v : PVal) (ρ : Env) (h : (x == y) = false) : ((y, v) :: ρ).lookup x = ρ.lookup x := by
  rw [List.lookup_cons, h]

/-- the first loop of `aggregate`: the store is untouched; `items_by_group` ends as `bucketsAfter`. -/
theorem agg_fill_loop (σ : Store) (ks : List String) (hne : ks ≠ []) : ∀ (rs : List Nat) (xs : List Item) (G : Groups) (ρ1 : Env)
    (out : List PVal),
    Store.view σ rs = some xs → (∀ x, x ∈ xs → ∀ k, k ∈ ks → x.kv.has k = true) →
    ρ1.lookup groupKeysName = some (keysVal ks) → bucketsOf ρ1 = some (encG G) →
    ∃ ρ2, loopOver (evalGS F B aggFillBodyT) (bindTarget (.sym "item")) (rs.map PVal.ref) ⟨ρ1, σ, out⟩ = some ⟨ρ2, σ, out⟩ ∧
      bucketsOf ρ2 = some (encG (bucketsAfter ks xs G)) ∧
      (∀ x, (x == "item") = false → (x == "id") = false → (x == bucketsName) = false → ρ2.lookup x = ρ1.lookup x)
  | [], xs, G, ρ1, out, hv, _, _, hb => by
    simp only [Store.view, Option.some.injEq] at hv
    subst hv
    exact ⟨ρ1, rfl, hb, fun _ _ _ _ => rfl⟩
  | r :: rs, xs, G, ρ1, out, hv, hk, hgk, hb => by
    obtain ⟨d, ys, hl, hvr, e⟩ := Store.view_cons_inv σ r rs xs hv
    subst e
    have hkd : ∀ k, k ∈ ks → d.has k = true := hk ⟨r, d⟩ List.mem_cons_self
    let ρa : Env := ("id", keyEnc (extract ks ⟨r, d⟩)) :: ("item", .ref r) :: ρ1
    let ρb : Env := (bucketsName, dictValP (encG (gAdd G (extract ks ⟨r, d⟩) r))) :: ρa
    have hgk' : (("item", PVal.ref r) :: ρ1).lookup groupKeysName = some (keysVal ks) := by
      rw [lookup_cons_ne _ _ _ _ (by decide)]; exact hgk
    have hstep : evalGS F B aggFillBodyT ⟨("item", .ref r) :: ρ1, σ, out⟩ = some (Ctl.normal, ⟨ρb, σ, out⟩) := by
      unfold aggFillBodyT
      rw [evalGS_block, evalGB_cons, evalGS_assign, evalM1_call, evalAE_call_extr]
      simp only [hgk', Option.bind_some, evalAE_sym_item, List.lookup_cons, beq_self_eq_true,
        itemgetter_view σ ks hne r d hl hkd, Option.map_some]
      rw [evalGB_cons, evalGS_append]
      have hb' : bucketsOf (("id", keyEnc (extract ks ⟨r, d⟩)) :: ("item", PVal.ref r) :: ρ1) = some (encG G) := by
        simp only [bucketsOf] at hb ⊢
        rw [lookup_cons_ne _ _ _ _ (by decide), lookup_cons_ne _ _ _ _ (by decide)]; exact hb
      have hid : evalAE F (.sym "id") (("id", keyEnc (extract ks ⟨r, d⟩)) :: ("item", PVal.ref r) :: ρ1) σ =
          some (keyEnc (extract ks ⟨r, d⟩)) := by rw [evalAE_sym_id, List.lookup_cons]; simp
      have hit : evalAE F (.sym "item") (("id", keyEnc (extract ks ⟨r, d⟩)) :: ("item", PVal.ref r) :: ρ1) σ =
          some (.ref r) := by
        rw [evalAE_sym_item, lookup_cons_ne _ _ _ _ (by decide), List.lookup_cons]; simp
      simp only [hb', hid, hit, Option.bind_some, bucketAdd_enc, Option.map_some, evalGB_nil]
      rfl
    have hgk2 : ρb.lookup groupKeysName = some (keysVal ks) := by
      show List.lookup groupKeysName (_ :: _ :: _ :: ρ1) = _
      rw [lookup_cons_ne _ _ _ _ (by decide), lookup_cons_ne _ _ _ _ (by decide), lookup_cons_ne _ _ _ _ (by decide)]
      exact hgk
    obtain ⟨ρ2, e2, hb2, hkeep⟩ := agg_fill_loop σ ks hne rs ys (gAdd G (extract ks ⟨r, d⟩) r) ρb out hvr
      (fun x hx => hk x (List.mem_cons_of_mem _ hx)) hgk2 (bucketsOf_cons _ _)
    refine ⟨ρ2, ?_, ?_, ?_⟩
    · rw [List.map_cons, loopOver_cons]
      show ((bindTarget (.sym "item") (.ref r) ρ1).bind fun ρ => _) = _
      simp only [bindTarget, Option.bind_some, hstep]
      exact e2
    · rw [hb2]; rfl
    · intro x h1 h2 h3
      rw [hkeep x h1 h2 h3]
      show List.lookup x (_ :: _ :: _ :: ρ1) = _
      rw [lookup_cons_ne _ _ _ _ h3, lookup_cons_ne _ _ _ _ h2, lookup_cons_ne _ _ _ _ h1]

end AggFill

/-! ### aggregate: the second loop -/

/-- a callable that reads nothing but the contents of the items of the list it is given: its value is `g` of those. -/
def GroupFn (F : Funs) (h : Nat) (g : List LoD.Dict → LoD.Val) : Prop :=
  ∀ (σ : Store) (rs : List Nat) (xs : List Item), Store.view σ rs = some xs → F.call h [refsVal rs] σ = .atom (g (xs.map (·.kv)))

/-- the entries `name = function(group)` written into a group row `K`, in the order of the pairs. -/
def aggDict (gf : Nat → List LoD.Dict → LoD.Val) (pfs : List (String × Nat)) (K : LoD.Dict) (members : List LoD.Dict) : LoD.Dict :=
  pfs.foldl (fun d p => d.set p.1 (gf p.2 members)) K

def aggStoreT : Term :=
  .app "store" [.app "getitem" [.sym "group", .sym "key"], .app "call" [.sym "function", .sym "items"]]
def aggApplyT : Term :=
  .app "for" [.app "tuple" [.sym "key", .sym "function"], .app ".items" [.sym "key_function_pairs"], .app "block" [aggStoreT]]
def aggVisitBodyT : Term :=
  .app "block" [.app "assign" [.sym "id", .app "call" [aggExtrT, .sym "group"]],
    .app "assign" [.sym "items", .app "ListOfDicts" [.app "getitem" [.sym "{}", .sym "id"]]],
    aggApplyT, .app "yield" [.sym "group"]]
def aggVisitT : Term :=
  .app "for" [.sym "group", aggSortedT, aggVisitBodyT, .app "init" [.sym "id", .app "value-after-loop" [.sym "id", aggFillT]]]

section AggVisit
variable (F : Funs) (B : Bodies)

theorem evalGS_store (x k e : Term) (s : St) : evalGS F B (.app "store" [.app "getitem" [x, k], e]) s =
    (evalE F e s.env s.store).bind fun ve => (evalE F x s.env s.store).bind fun vx => (evalE F k s.env s.store).bind fun vk =>
      ve.asAtom.bind fun v => vx.asRef.bind fun n => vk.asStr.bind fun key =>
        (s.store.setKey n key v).map fun σ' => (Ctl.normal, { s with store := σ' }) := rfl
theorem evalGS_yield (e : Term) (s : St) : evalGS F B (.app "yield" [e]) s =
    (evalJE F e s.env s.store).map fun v => (Ctl.normal, { s with out := s.out ++ [v] }) := rfl

/-- one pair `name = function(items)` of a group row. -/
theorem agg_store_step (gf : Nat → List LoD.Dict → LoD.Val) (name : String) (h : Nat) (hg : GroupFn F h (gf h))
    (ρ : Env) (σ : Store) (out : List PVal) (g : Nat) (K : LoD.Dict) (cs : List Nat) (cps : List Item)
    (hgroup : ρ.lookup "group" = some (.ref g)) (hitems : ρ.lookup "items" = some (refsVal cs))
    (hkey : ρ.lookup "key" = some (PVal.str name)) (hfun : ρ.lookup "function" = some (.fn h))
    (hl : σ.lookup g = some K) (hv : Store.view σ cs = some cps) :
    evalGS F B aggStoreT ⟨ρ, σ, out⟩ = some (Ctl.normal, ⟨ρ, Store.set σ g (K.set name (gf h (cps.map (·.kv)))), out⟩) := by
  unfold aggStoreT
  rw [evalGS_store, evalE_call_sym]
  simp only [evalE_function, hfun, Option.bind_some, PVal.asFn, evalEs_cons, evalEs_nil, Option.map_some]
  have hi : evalE F (.sym "items") ρ σ = some (refsVal cs) := hitems
  have hgr : evalE F (.sym "group") ρ σ = some (.ref g) := hgroup
  simp only [hi, hgr, evalE_key, hkey, Option.bind_some, Option.map_some, hg σ cs cps hv, PVal.asAtom, PVal.asRef, PVal.str,
    PVal.asStr, Store.setKey, hl]

theorem itemsOf_fnPairs' (σ : Store) (ps : List (String × Nat)) : itemsOf σ (fnPairsVal ps) = some (fnPairsVal ps) :=
  itemsOf_fnPairs σ ps

/-- `for key, function in pairs: group[key] = function(items)`. -/
theorem agg_apply_loop (gf : Nat → List LoD.Dict → LoD.Val) (g : Nat) (cs : List Nat) (cps : List Item) (hgc : g ∉ cs) :
    ∀ (pfs : List (String × Nat)) (K : LoD.Dict) (ρ : Env) (σ : Store) (out : List PVal),
    (∀ p, p ∈ pfs → GroupFn F p.2 (gf p.2)) →
    ρ.lookup "group" = some (.ref g) → ρ.lookup "items" = some (refsVal cs) →
    σ.lookup g = some K → Store.view σ cs = some cps →
    ∃ ρ', loopOver (evalGS F B (.app "block" [aggStoreT])) (bindTarget (.app "tuple" [.sym "key", .sym "function"]))
        (pfs.map fun p => .tuple [PVal.str p.1, .fn p.2]) ⟨ρ, σ, out⟩ =
        some ⟨ρ', Store.set σ g (aggDict gf pfs K (cps.map (·.kv))), out⟩ ∧
      (∀ x, (x == "key") = false → (x == "function") = false → ρ'.lookup x = ρ.lookup x)
  | [], K, ρ, σ, out, _, _, _, hl, _ => ⟨ρ, by simp [loopOver_nil, aggDict, Store.set_self σ g K hl], fun _ _ _ => rfl⟩
  | (name, h) :: pfs, K, ρ, σ, out, hgf, hgroup, hitems, hl, hv => by
    let ρ1 : Env := ("function", .fn h) :: ("key", PVal.str name) :: ρ
    have hb : bindTarget (.app "tuple" [.sym "key", .sym "function"]) (.tuple [PVal.str name, .fn h]) ρ = some ρ1 := rfl
    have hgroup1 : ρ1.lookup "group" = some (.ref g) := by
      show List.lookup "group" (_ :: _ :: ρ) = _
      rw [lookup_cons_ne _ _ _ _ (by decide), lookup_cons_ne _ _ _ _ (by decide)]; exact hgroup
    have hitems1 : ρ1.lookup "items" = some (refsVal cs) := by
      show List.lookup "items" (_ :: _ :: ρ) = _
      rw [lookup_cons_ne _ _ _ _ (by decide), lookup_cons_ne _ _ _ _ (by decide)]; exact hitems
    have hkey1 : ρ1.lookup "key" = some (PVal.str name) := by
      show List.lookup "key" (_ :: _ :: ρ) = _
      rw [lookup_cons_ne _ _ _ _ (by decide), List.lookup_cons]; simp
    have hfun1 : ρ1.lookup "function" = some (.fn h) := by
      show List.lookup "function" (_ :: _) = _
      rw [List.lookup_cons]; simp
    have hstep := agg_store_step F B gf name h (hgf (name, h) List.mem_cons_self) ρ1 σ out g K cs cps hgroup1 hitems1 hkey1 hfun1 hl hv
    let K1 := K.set name (gf h (cps.map (·.kv)))
    have hl1 : (Store.set σ g K1).lookup g = some K1 := Store.lookup_set_self σ g K K1 hl
    have hv1 : Store.view (Store.set σ g K1) cs = some cps := by rw [Store.view_set_of_not_mem _ _ _ _ hgc]; exact hv
    obtain ⟨ρ', e, hkeep⟩ := agg_apply_loop gf g cs cps hgc pfs K1 ρ1 (Store.set σ g K1) out
      (fun p hp => hgf p (List.mem_cons_of_mem _ hp)) hgroup1 hitems1 hl1 hv1
    refine ⟨ρ', ?_, ?_⟩
    · rw [List.map_cons, loopOver_cons]
      dsimp only
      rw [hb, Option.bind_some]
      simp only [evalGS_block, evalGB_cons, evalGB_nil]
      rw [hstep]
      simp only [Option.bind_some]
      rw [e, Store.set_set]
      rfl
    · intro x h1 h2
      rw [hkeep x h1 h2]
      show List.lookup x (_ :: _ :: ρ) = _
      rw [lookup_cons_ne _ _ _ _ h2, lookup_cons_ne _ _ _ _ h1]


theorem evalAE_getitem_buckets (ρ : Env) (σ : Store) : evalAE F (.app "getitem" [.sym "{}", .sym "id"]) ρ σ =
    (bucketsOf ρ).bind fun d => (ρ.lookup "id").bind fun vk => (dictGet d vk).bind id := rfl
theorem evalAE_items_kfp (ρ : Env) (σ : Store) : evalAE F (.app ".items" [.sym "key_function_pairs"]) ρ σ =
    (ρ.lookup "key_function_pairs").bind (itemsOf σ) := rfl
theorem evalJE_sym_group (ρ : Env) (σ : Store) : evalJE F (.sym "group") ρ σ = ρ.lookup "group" := rfl

theorem evalM1_ListOfDicts (e : Term) (ρ : Env) (σ : Store) : evalM1 F B (.app "ListOfDicts" [e]) ρ σ =
    (evalAE F e ρ σ).bind fun v => v.asRefs.bind fun rs => (Store.view σ rs).map fun xs =>
      (refsV (allocAll σ (xs.map (·.kv))).1, (allocAll σ (xs.map (·.kv))).2) := by
  simp only [evalM1, evalAM_ListOfDicts]
  cases evalAE F e ρ σ with
  | none => rfl
  | some v =>
    simp only [Option.bind_some]
    cases v.asRefs with
    | none => rfl
    | some rs =>
      simp only [Option.bind_some]
      cases Store.view σ rs <;> rfl

/-- one group row: its members are copied for the callables, the row receives one entry per pair, and is yielded. -/
theorem agg_visit_step (gf : Nat → List LoD.Dict → LoD.Val) (ks : List String) (hne : ks ≠ []) (pfs : List (String × Nat))
    (hgf : ∀ p, p ∈ pfs → GroupFn F p.2 (gf p.2)) (Gf : Groups)
    (ρ : Env) (σ : Store) (out : List PVal) (g : Nat) (K : LoD.Dict) (ms : List Item)
    (hgk : ρ.lookup groupKeysName = some (keysVal ks)) (hb : bucketsOf ρ = some (encG Gf))
    (hkfp : ρ.lookup "key_function_pairs" = some (fnPairsVal pfs)) (hgroup : ρ.lookup "group" = some (.ref g))
    (hl : σ.lookup g = some K) (hK : ∀ k, k ∈ ks → K.has k = true)
    (hmem : aget Gf (extract ks ⟨g, K⟩) = some (ms.map (·.tag))) (hms : ∀ x, x ∈ ms → σ.lookup x.tag = some x.kv) :
    ∃ ρ' σ', evalGS F B aggVisitBodyT ⟨ρ, σ, out⟩ = some (Ctl.normal, ⟨ρ', σ', out ++ [.ref g]⟩) ∧
      σ'.lookup g = some (aggDict gf pfs K (ms.map (·.kv))) ∧
      (∀ n d, n ≠ g → σ.lookup n = some d → σ'.lookup n = some d) ∧
      (∀ x, (x == "id") = false → (x == "items") = false → (x == "key") = false → (x == "function") = false →
        ρ'.lookup x = ρ.lookup x) := by
  let gid := extract ks ⟨g, K⟩
  let ρa : Env := ("id", keyEnc gid) :: ρ
  obtain ⟨hl1, hnew1, hnd1, hview1, hold1⟩ := allocAll_spec σ (ms.map (·.kv))
  generalize hA : allocAll σ (ms.map (·.kv)) = A at hl1 hnew1 hnd1 hview1 hold1
  let ρb : Env := ("items", refsV A.1) :: ρa
  have hgc : g ∉ A.1 := fun hm => by rw [hnew1 g hm] at hl; cases hl
  have h1 : evalGS F B (.app "assign" [.sym "id", .app "call" [aggExtrT, .sym "group"]]) ⟨ρ, σ, out⟩ =
      some (Ctl.normal, ⟨ρa, σ, out⟩) := by
    rw [evalGS_assign, evalM1_call, evalAE_call_extr]
    simp only [hgk, Option.bind_some, evalAE_sym_group, hgroup, itemgetter_view σ ks hne g K hl hK, Option.map_some]
    rfl
  have hvm : Store.view σ (ms.map (·.tag)) = some ms := Store.view_of_lookups σ ms hms
  have h2 : evalGS F B (.app "assign" [.sym "items", .app "ListOfDicts" [.app "getitem" [.sym "{}", .sym "id"]]]) ⟨ρa, σ, out⟩ =
      some (Ctl.normal, ⟨ρb, A.2, out⟩) := by
    have hba : bucketsOf ρa = some (encG Gf) := by
      simp only [bucketsOf] at hb ⊢
      show ((List.lookup bucketsName (_ :: ρ)).getD _).asPairs = _
      rw [lookup_cons_ne _ _ _ _ (by decide)]; exact hb
    have hida : ρa.lookup "id" = some (keyEnc gid) := by
      show List.lookup "id" (_ :: ρ) = _; rw [List.lookup_cons]; simp
    have hget : dictGet (encG Gf) (keyEnc gid) = some (some (refsV (ms.map (·.tag)))) := by
      simp only [dictGet, keyEnc_plain, if_true]
      rw [show aget (encG Gf) (keyEnc gid) = (aget Gf gid).map refsV from aget_map keyEnc refsV keyEnc_inj Gf gid, hmem]
      rfl
    rw [evalGS_assign, evalM1_ListOfDicts, evalAE_getitem_buckets]
    simp only [hba, hida, Option.bind_some, hget, id_eq, asRefs_refsV, hvm, Option.map_some, hA]
    rfl
  have hgroupb : ρb.lookup "group" = some (.ref g) := by
    show List.lookup "group" (_ :: _ :: ρ) = _
    rw [lookup_cons_ne _ _ _ _ (by decide), lookup_cons_ne _ _ _ _ (by decide)]; exact hgroup
  have hitemsb : ρb.lookup "items" = some (refsVal A.1) := by
    show List.lookup "items" (_ :: _) = _
    rw [List.lookup_cons]; simp; rfl
  have hkfpb : ρb.lookup "key_function_pairs" = some (fnPairsVal pfs) := by
    show List.lookup "key_function_pairs" (_ :: _ :: ρ) = _
    rw [lookup_cons_ne _ _ _ _ (by decide), lookup_cons_ne _ _ _ _ (by decide)]; exact hkfp
  have hlA : A.2.lookup g = some K := by rw [hold1 g hgc]; exact hl
  obtain ⟨ρc, e3, hkeep3⟩ := agg_apply_loop F B gf g A.1 (mkItems A.1 (ms.map (·.kv))) hgc pfs K ρb A.2 out hgf hgroupb hitemsb
    hlA hview1
  have hkv : (mkItems A.1 (ms.map (·.kv))).map (·.kv) = ms.map (·.kv) := mkItems_kvs _ _ hl1
  rw [hkv] at e3
  have h3 : evalGS F B aggApplyT ⟨ρb, A.2, out⟩ =
      some (Ctl.normal, ⟨ρc, Store.set A.2 g (aggDict gf pfs K (ms.map (·.kv))), out⟩) := by
    unfold aggApplyT
    rw [evalGS_for, evalM1_items, evalAE_items_kfp, hkfpb]
    simp only [Option.bind_some, itemsOf_fnPairs, Option.map_some]
    simp only [fnPairsVal, PVal.asTuple, Option.bind_some, e3, Option.map_some]
  have hgroupc : ρc.lookup "group" = some (.ref g) := by rw [hkeep3 _ (by decide) (by decide)]; exact hgroupb
  refine ⟨ρc, Store.set A.2 g (aggDict gf pfs K (ms.map (·.kv))), ?_, Store.lookup_set_self A.2 g K _ hlA, ?_, ?_⟩
  · unfold aggVisitBodyT
    rw [evalGS_block, evalGB_cons, h1]
    simp only [Option.bind_some]
    rw [evalGB_cons, h2]
    simp only [Option.bind_some]
    rw [evalGB_cons, h3]
    simp only [Option.bind_some]
    rw [evalGB_cons, evalGS_yield, evalJE_sym_group, hgroupc]
    simp only [Option.map_some, Option.bind_some, evalGB_nil]
  · intro n d hn hd
    rw [Store.lookup_set_other _ _ _ _ hn]
    have : n ∉ A.1 := fun hm => by rw [hnew1 n hm] at hd; cases hd
    rw [hold1 n this]; exact hd
  · intro x h1 h2 h3 h4
    rw [hkeep3 x h3 h4]
    show List.lookup x (_ :: _ :: ρ) = _
    rw [lookup_cons_ne _ _ _ _ h2, lookup_cons_ne _ _ _ _ h1]


/-- the members of the group with key tuple `id`, in list order. -/
def membersOf (ks : List String) (xs : List Item) (id : List LoD.Val) : List Item := xs.filter fun x => extract ks x == id

/-- the second loop of `aggregate` over the group rows `S`. -/
theorem agg_visit_loop (gf : Nat → List LoD.Dict → LoD.Val) (ks : List String) (hne : ks ≠ []) (pfs : List (String × Nat))
    (hgf : ∀ p, p ∈ pfs → GroupFn F p.2 (gf p.2)) (xs : List Item) :
    ∀ (S : List Item) (ρ : Env) (σ : Store) (out : List PVal),
    (S.map (·.tag)).Nodup → (∀ g, g ∈ S → σ.lookup g.tag = some g.kv) → (∀ g, g ∈ S → ∀ k, k ∈ ks → g.kv.has k = true) →
    (∀ g, g ∈ S → extract ks g ∈ xs.map (extract ks)) →
    (∀ x, x ∈ xs → σ.lookup x.tag = some x.kv) → (∀ g, g ∈ S → ∀ x, x ∈ xs → x.tag ≠ g.tag) →
    ρ.lookup groupKeysName = some (keysVal ks) → bucketsOf ρ = some (encG (bucketsAfter ks xs [])) →
    ρ.lookup "key_function_pairs" = some (fnPairsVal pfs) →
    ∃ ρ' σ', loopOver (evalGS F B aggVisitBodyT) (bindTarget (.sym "group")) (S.map tagRef) ⟨ρ, σ, out⟩ =
        some ⟨ρ', σ', out ++ S.map tagRef⟩ ∧
      (∀ g, g ∈ S → σ'.lookup g.tag = some (aggDict gf pfs g.kv ((membersOf ks xs (extract ks g)).map (·.kv)))) ∧
      (∀ n d, n ∉ S.map (·.tag) → σ.lookup n = some d → σ'.lookup n = some d)
  | [], ρ, σ, out, _, _, _, _, _, _, _, _, _ => by
    refine ⟨ρ, σ, by simp [loopOver_nil], ?_, fun _ _ _ h => h⟩
    intro g hg; cases hg
  | g :: S, ρ, σ, out, hnd, hS, hSk, hSid, hxs, hdis, hgk, hb, hkfp => by
    let ρ1 : Env := ("group", .ref g.tag) :: ρ
    have hgk1 : ρ1.lookup groupKeysName = some (keysVal ks) := by
      show List.lookup groupKeysName (_ :: ρ) = _; rw [lookup_cons_ne _ _ _ _ (by decide)]; exact hgk
    have hb1 : bucketsOf ρ1 = some (encG (bucketsAfter ks xs [])) := by
      simp only [bucketsOf] at hb ⊢
      show ((List.lookup bucketsName (_ :: ρ)).getD _).asPairs = _
      rw [lookup_cons_ne _ _ _ _ (by decide)]; exact hb
    have hkfp1 : ρ1.lookup "key_function_pairs" = some (fnPairsVal pfs) := by
      show List.lookup "key_function_pairs" (_ :: ρ) = _; rw [lookup_cons_ne _ _ _ _ (by decide)]; exact hkfp
    have hgroup1 : ρ1.lookup "group" = some (.ref g.tag) := by
      show List.lookup "group" (_ :: ρ) = _; rw [List.lookup_cons]; simp
    let ms := membersOf ks xs (extract ks g)
    have hmsne : ms.map (·.tag) ≠ [] := by
      obtain ⟨x, hx, e⟩ := List.mem_map.mp (hSid g List.mem_cons_self)
      have : x ∈ ms := List.mem_filter.mpr ⟨hx, by simp [e]⟩
      intro h
      rw [List.map_eq_nil_iff] at h
      rw [h] at this; cases this
    have hmem : aget (bucketsAfter ks xs []) (extract ks ⟨g.tag, g.kv⟩) = some (ms.map (·.tag)) := by
      rw [aget_bucketsAfter]
      show (match aget ([] : Groups) (extract ks g), ms.map (·.tag) with | none, [] => none | o, M => some (o.getD [] ++ M)) = _
      have : aget ([] : Groups) (extract ks g) = none := rfl
      rw [this]
      cases h : ms.map (·.tag) with
      | nil => exact absurd h hmsne
      | cons a l => simp
    obtain ⟨ρ2, σ2, e1, hl2, hold2, hkeep2⟩ := agg_visit_step F B gf ks hne pfs hgf (bucketsAfter ks xs []) ρ1 σ out g.tag g.kv ms
      hgk1 hb1 hkfp1 hgroup1 (hS g List.mem_cons_self) (hSk g List.mem_cons_self) hmem
      (fun x hx => hxs x (List.mem_filter.mp hx).1)
    have hnd' : g.tag ∉ S.map (·.tag) ∧ (S.map (·.tag)).Nodup := List.nodup_cons.mp hnd
    have hne' : ∀ g', g' ∈ S → g'.tag ≠ g.tag := fun g' hg' e => hnd'.1 (e ▸ List.mem_map_of_mem hg')
    obtain ⟨ρ3, σ3, e2, hl3, hold3⟩ := agg_visit_loop gf ks hne pfs hgf xs S ρ2 σ2 (out ++ [.ref g.tag]) hnd'.2
      (fun g' hg' => hold2 _ _ (hne' g' hg') (hS g' (List.mem_cons_of_mem _ hg')))
      (fun g' hg' => hSk g' (List.mem_cons_of_mem _ hg')) (fun g' hg' => hSid g' (List.mem_cons_of_mem _ hg'))
      (fun x hx => hold2 _ _ (hdis g List.mem_cons_self x hx) (hxs x hx))
      (fun g' hg' => hdis g' (List.mem_cons_of_mem _ hg'))
      (by rw [hkeep2 _ (by decide) (by decide) (by decide) (by decide)]; exact hgk1)
      (by
        simp only [bucketsOf] at hb1 ⊢
        rw [hkeep2 _ (by decide) (by decide) (by decide) (by decide)]; exact hb1)
      (by rw [hkeep2 _ (by decide) (by decide) (by decide) (by decide)]; exact hkfp1)
    refine ⟨ρ3, σ3, ?_, ?_, ?_⟩
    · rw [List.map_cons, loopOver_cons]
      dsimp only
      have hbt : bindTarget (.sym "group") (tagRef g) ρ = some ρ1 := rfl
      rw [hbt, Option.bind_some, e1, Option.bind_some, e2, List.append_assoc]
      rfl
    · intro g' hg'
      rcases List.mem_cons.mp hg' with e | m
      · subst e
        exact hold3 _ _ hnd'.1 hl2
      · exact hl3 g' m
    · intro n d hn hd
      have hn1 : n ≠ g.tag := fun e => hn (by simp [e])
      have hn2 : n ∉ S.map (·.tag) := fun hm => hn (by simp only [List.map_cons]; exact List.mem_cons_of_mem _ hm)
      exact hold3 n d hn2 (hold2 n d hn1 hd)


theorem initEnv_keeps (x : String) (e : Term) (ρ : Env) (σ : Store) (y : String) (h : (y == x) = false) :
    (initEnv F x e ρ σ).lookup y = ρ.lookup y := by
  unfold initEnv
  cases evalAE F e ρ σ with
  | none => rfl
  | some v => exact lookup_cons_ne _ _ _ _ h

/-- the contents of the rows `aggregate` returns, from the model's groups: the key entries, then `name = g(members)` for
    every pair (the members' contents in list order). -/
def aggItems (gf : Nat → List LoD.Dict → LoD.Val) (pfs : List (String × Nat)) (ks : List String) (xs : List Item) : List LoD.Dict :=
  (LoD.aggregate xs ks).map fun row =>
    aggDict gf pfs (Dict.ofPairs (ks.zip row.1)) ((membersOf ks xs row.1).map (·.kv))

theorem zip_extract (ks : List String) (g : Item) :
    ks.zip (extract ks g) = ks.map fun k => (k, (g.kv.get? k).getD .none) := by
  unfold extract
  induction ks with
  | nil => rfl
  | cons k ks ih => simp only [List.map_cons, List.zip_cons_cons, ih]

/-- **aggregate**: evaluating the regenerated body yields NEW row objects `R`, one per distinct key tuple in the order of
    the model's `LoD.aggregate`, holding `aggItems`; every object that existed before is unchanged. -/
theorem aggregate_run (hBu : B.unique = [uniqueT]) (hBs : B.select = [selectT]) (hBo : B.sort = Out.ret [sortLoopT] sortRetT)
    (gf : Nat → List LoD.Dict → LoD.Val) (ρ : Env) (σ : Store) (rs : List Nat) (xs : List Item) (ks : List String)
    (pfs : List (String × Nat)) (hne : ks ≠ [])
    (hself : ρ.lookup "self" = some (refsVal rs)) (hgk : ρ.lookup groupKeysName = some (keysVal ks))
    (hkfp : ρ.lookup "key_function_pairs" = some (fnPairsVal pfs)) (hbk : ρ.lookup bucketsName = none)
    (hv : Store.view σ rs = some xs) (hk : ∀ x, x ∈ xs → ∀ k, k ∈ ks → x.kv.has k = true)
    (hh : ∀ k, k ∈ ks → ∀ x, x ∈ xs → ∀ y, y ∈ xs → sameKind (keyVal k x) (keyVal k y) = true)
    (hgf : ∀ p, p ∈ pfs → GroupFn F p.2 (gf p.2)) :
    ∃ σ' R, runG F B [aggFillT, aggVisitT] ρ σ = some (R.map tagRef, σ') ∧
      Store.view σ' (R.map (·.tag)) = some R ∧ R.map (·.kv) = aggItems gf pfs ks xs ∧
      (R.map (·.tag)).Nodup ∧ (∀ r, r ∈ R → σ.lookup r.tag = none) ∧
      (∀ n d, σ.lookup n = some d → σ'.lookup n = some d) := by
  -- the first loop
  have hb0 : bucketsOf ρ = some (encG []) := by simp only [bucketsOf, hbk]; rfl
  obtain ⟨ρ2, e1, hb2, hkeep2⟩ := agg_fill_loop F B σ ks hne rs xs [] ρ [] hv hk hgk hb0
  have hself2 : ρ2.lookup "self" = some (refsVal rs) := by rw [hkeep2 _ (by decide) (by decide) (by decide)]; exact hself
  have hgk2 : ρ2.lookup groupKeysName = some (keysVal ks) := by rw [hkeep2 _ (by decide) (by decide) (by decide)]; exact hgk
  have hkfp2 : ρ2.lookup "key_function_pairs" = some (fnPairsVal pfs) := by
    rw [hkeep2 _ (by decide) (by decide) (by decide)]; exact hkfp
  have hfill : evalGS F B aggFillT ⟨ρ, σ, []⟩ = some (Ctl.normal, ⟨ρ2, σ, []⟩) := by
    unfold aggFillT
    rw [evalGS_for, evalM1_sym, evalAE_sym_self]
    simp only [hself, Option.map_some, Option.bind_some, refsVal, PVal.asTuple, e1]
  -- the iterable of the second loop
  obtain ⟨σ2, S, eit, hids, hSkv, hSnd, hSnew, hSview, hold⟩ :=
    agg_iterable F B hBu hBs hBo ρ2 σ rs xs ks hne hself2 hgk2 hv hk hh
  let ρ3 : Env := initEnv F "id" (.app "value-after-loop" [.sym "id", aggFillT]) ρ2 σ
  have hk3 : ∀ y, (y == "id") = false → ρ3.lookup y = ρ2.lookup y := fun y h => initEnv_keeps F _ _ ρ2 σ y h
  have hxs : ∀ x, x ∈ xs → σ.lookup x.tag = some x.kv := fun x hx => Store.view_lookup_of_mem σ rs xs hv x hx
  obtain ⟨ρ4, σ4, e2, hl4, hold4⟩ := agg_visit_loop F B gf ks hne pfs hgf xs S ρ3 σ2 [] hSnd
    (fun g hg => Store.view_lookup_of_mem σ2 _ S hSview g hg)
    (fun g hg k hk' => by
      rw [Dict.has_iff_get?, hSkv g hg, ofPairs_map_get (fun k => (g.kv.get? k).getD .none) ks k hk']; rfl)
    (fun g hg => by
      have : extract ks g ∈ (LoD.aggregate xs ks).map (·.1) := hids ▸ List.mem_map_of_mem hg
      exact (mem_aggregate_keys xs ks _).mp this)
    (fun x hx => hold _ _ (hxs x hx))
    (fun g hg x hx e => by
      have := hSnew g hg
      rw [← e, hxs x hx] at this; cases this)
    (by rw [hk3 _ (by decide)]; exact hgk2)
    (by
      simp only [bucketsOf] at hb2 ⊢
      rw [hk3 _ (by decide)]; exact hb2)
    (by rw [hk3 _ (by decide)]; exact hkfp2)
  have hvisit : evalGS F B aggVisitT ⟨ρ2, σ, []⟩ = some (Ctl.normal, ⟨ρ4, σ4, S.map tagRef⟩) := by
    unfold aggVisitT
    rw [evalGS_for_init, eit]
    simp only [Option.bind_some, PVal.asTuple]
    rw [e2]; rfl
  let R : List Item := S.map fun g => { tag := g.tag, kv := aggDict gf pfs g.kv ((membersOf ks xs (extract ks g)).map (·.kv)) }
  have hRtag : R.map (·.tag) = S.map (·.tag) := by simp only [R, List.map_map]; rfl
  refine ⟨σ4, R, ?_, ?_, ?_, ?_, ?_, ?_⟩
  · simp only [runG, evalGB_cons, evalGB_nil, hfill, hvisit, Option.bind_some, Option.map_some]
    simp only [R, List.map_map]; rfl
  · exact Store.view_of_lookups σ4 R (fun r hr => by
      obtain ⟨g, hg, rfl⟩ := List.mem_map.mp hr
      exact hl4 g hg)
  · have e : aggItems gf pfs ks xs =
        (S.map (extract ks)).map fun id => aggDict gf pfs (Dict.ofPairs (ks.zip id)) ((membersOf ks xs id).map (·.kv)) := by
      rw [hids, List.map_map]; rfl
    rw [e]
    simp only [R, List.map_map]
    apply List.map_congr_left
    intro g hg
    simp only [Function.comp]
    rw [zip_extract, ← hSkv g hg]
  · rw [hRtag]; exact hSnd
  · intro r hr
    obtain ⟨g, hg, rfl⟩ := List.mem_map.mp hr
    exact hSnew g hg
  · intro n d hn
    have hnS : n ∉ S.map (·.tag) := fun hm => by
      obtain ⟨g, hg, e⟩ := List.mem_map.mp hm
      have := hSnew g hg
      rw [e, hn] at this; cases this
    exact hold4 n d hnS (hold n d hn)

end AggVisit

end DI.PyEvalLoD

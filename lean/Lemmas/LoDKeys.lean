/-
  Lemmas/LoDKeys.lean — C15: `select`, `rename`, `modify_if` change only the named keys of the
  items concerned; slicing / `*` pick the same items as the Python list operations.

  Part 1: what `dict(pairs)` (`Dict.ofPairs`) is: keys in first-occurrence order, every key holding
          the value of its LAST occurrence; the identity on pair lists without repeated keys.
  Part 2: select.   Part 3: rename (incl. collisions).   Part 4: modify_if.   Part 5: slice, mul.
-/
import Model.LoD
import Lemmas.LoD
import Lemmas.LoDEdit

namespace DI.LoD

open DI

/-! ## Part 1: `dict(pairs)` -/

/-- the keys of a dict in insertion order. -/
def Dict.keys (d : Dict) : List String := d.map (·.1)

theorem Dict.has_iff_mem_keys (d : Dict) (k : String) : d.has k = true ↔ k ∈ d.keys := by
  simp only [Dict.has, Dict.keys, List.any_eq_true, List.mem_map, beq_iff_eq]

theorem Dict.get?_eq_none_iff (d : Dict) (k : String) : d.get? k = none ↔ k ∉ d.keys := by
  rw [← Dict.has_iff_mem_keys, Dict.has_iff_get?]
  cases d.get? k <;> simp

theorem Dict.get?_isSome_iff (d : Dict) (k : String) : (d.get? k).isSome = true ↔ k ∈ d.keys := by
  rw [← Dict.has_iff_mem_keys, Dict.has_iff_get?]

/-- `d[k] = v` keeps the key order: an existing key stays where it is, a new one goes last. -/
theorem Dict.keys_set (d : Dict) (k : String) (v : Val) :
    (d.set k v).keys = if k ∈ d.keys then d.keys else d.keys ++ [k] := by
  unfold Dict.set
  by_cases h : d.has k = true
  · have hm := (Dict.has_iff_mem_keys d k).mp h
    simp only [h, if_true, hm]
    unfold Dict.keys
    rw [List.map_map]
    apply List.map_congr_left
    intro p _
    simp only [Function.comp]
    split
    · rename_i hp; exact (beq_iff_eq.mp hp).symm
    · rfl
  · have hm : k ∉ d.keys := fun hc => h ((Dict.has_iff_mem_keys d k).mpr hc)
    rw [if_neg hm]
    simp [h, Dict.keys]

/-- `d.update(pairs)`: value of the last pair with that key, else the old value. -/
theorem foldl_set_get? (ps : List (String × Val)) (d : Dict) (k : String) :
    (ps.foldl (fun d p => d.set p.1 p.2) d).get? k =
      ((ps.reverse.find? (fun p => p.1 == k)).map (·.2)).or (d.get? k) := by
  induction ps generalizing d with
  | nil => simp
  | cons p t ih =>
    rw [List.foldl_cons, ih, List.reverse_cons, List.find?_append]
    cases ht : t.reverse.find? (fun p => p.1 == k) with
    | some q => simp
    | none =>
      simp only [Option.none_or, Option.map_none, List.find?_cons, List.find?_nil]
      by_cases hk : p.1 = k
      · subst hk; simp [Dict.get?_set_self]
      · have hb : (p.1 == k) = false := by simp [hk]
        simp only [hb, Option.map_none, Option.none_or]
        exact Dict.get?_set_other d p.1 k p.2 (fun e => hk e.symm)

/-- `d.update(pairs)`: old keys first, then the new keys in first-occurrence order. -/
theorem foldl_set_keys (ps : List (String × Val)) (d : Dict) :
    (ps.foldl (fun d p => d.set p.1 p.2) d).keys =
      d.keys ++ ((ps.map (·.1)).filter (fun k => !d.keys.contains k)).eraseDups := by
  induction ps generalizing d with
  | nil => simp
  | cons p t ih =>
    rw [List.foldl_cons, ih, Dict.keys_set, List.map_cons, List.filter_cons]
    by_cases hm : p.1 ∈ d.keys
    · simp [hm]
    · simp only [hm, if_false, List.contains_eq_mem, decide_false, Bool.not_false, if_true,
        List.eraseDups_cons, List.filter_filter, List.append_assoc, List.cons_append, List.nil_append]
      congr 3
      apply List.filter_congr
      intro k _
      by_cases h1 : k ∈ d.keys <;> by_cases h2 : k = p.1 <;> simp [h1, h2]

/-- `dict(pairs)`: every key holds the value of its last occurrence. -/
theorem Dict.ofPairs_get? (ps : List (String × Val)) (k : String) :
    (Dict.ofPairs ps).get? k = (ps.reverse.find? (fun p => p.1 == k)).map (·.2) := by
  unfold Dict.ofPairs
  rw [foldl_set_get?]
  simp [Dict.get?]

/-- `dict(pairs)`: keys in first-occurrence order. -/
theorem Dict.ofPairs_keys (ps : List (String × Val)) :
    (Dict.ofPairs ps).keys = (ps.map (·.1)).eraseDups := by
  unfold Dict.ofPairs
  rw [foldl_set_keys]
  have : ∀ l : List String, l.filter (fun _ => true) = l := fun l => List.filter_eq_self.mpr (by simp)
  simp [Dict.keys, this]

theorem foldl_set_nodup (ps : List (String × Val)) (d : Dict) (h : (d.keys ++ ps.map (·.1)).Nodup) :
    ps.foldl (fun d p => d.set p.1 p.2) d = d ++ ps := by
  induction ps generalizing d with
  | nil => simp
  | cons p t ih =>
    have hp : p.1 ∉ d.keys := by
      intro hc
      rw [List.nodup_append] at h
      exact h.2.2 _ hc _ (by simp) rfl
    have hs : d.set p.1 p.2 = d ++ [p] := by
      unfold Dict.set
      have : d.has p.1 = false := by
        cases hh : d.has p.1
        · rfl
        · exact absurd ((Dict.has_iff_mem_keys d p.1).mp hh) hp
      simp [this]
    rw [List.foldl_cons, hs, ih]
    · simp
    · simpa [Dict.keys, List.append_assoc] using h

/-- `dict(pairs)` of pairs without repeated keys is the pair list itself. -/
theorem Dict.ofPairs_nodup (ps : List (String × Val)) (h : (ps.map (·.1)).Nodup) :
    Dict.ofPairs ps = ps := by
  unfold Dict.ofPairs
  rw [foldl_set_nodup ps [] (by simpa [Dict.keys] using h)]
  simp

/-! ## Part 2: select -/

theorem select_pairs_keys (d : Dict) (keys : List String) :
    (keys.filterMap (fun k => (d.get? k).map (fun v => (k, v)))).map (·.1) =
      keys.filter (fun k => decide (k ∈ d.keys)) := by
  induction keys with
  | nil => rfl
  | cons k ks ih =>
    rw [List.filterMap_cons, List.filter_cons]
    cases h : d.get? k with
    | none =>
      have : k ∉ d.keys := (Dict.get?_eq_none_iff d k).mp h
      simp [this, ih]
    | some v =>
      have : k ∈ d.keys := (Dict.get?_isSome_iff d k).mp (by simp [h])
      simp [this, ih]

theorem select_pairs_get? (d : Dict) (keys : List String) (k : String) :
    (Dict.ofPairs (keys.filterMap (fun k => (d.get? k).map (fun v => (k, v))))).get? k =
      if k ∈ keys then d.get? k else none := by
  rw [Dict.ofPairs_get?]
  cases hf : (keys.filterMap (fun k => (d.get? k).map (fun v => (k, v)))).reverse.find?
      (fun p => p.1 == k) with
  | some p =>
    have hk : p.1 = k := by simpa using List.find?_some hf
    have hm : p ∈ keys.filterMap (fun k => (d.get? k).map (fun v => (k, v))) := by
      simpa using List.mem_of_find?_eq_some hf
    rw [List.mem_filterMap] at hm
    obtain ⟨k0, hk0, hp⟩ := hm
    cases hg : d.get? k0 with
    | none => simp [hg] at hp
    | some v =>
      simp only [hg, Option.map_some, Option.some.injEq] at hp
      subst hp
      simp only at hk
      subst hk
      simp [hk0, hg]
  | none =>
    rw [List.find?_eq_none] at hf
    by_cases hk : k ∈ keys
    · simp only [hk, if_true, Option.map_none]
      cases hg : d.get? k with
      | none => rfl
      | some v =>
        exfalso
        have := hf (k, v) (by
          rw [List.mem_reverse, List.mem_filterMap]
          exact ⟨k, hk, by simp [hg]⟩)
        simp at this
    · simp [hk]

/-- `select(*keys)`: as many items as before; every new item carries the fresh identity, has exactly
    the keys of `keys` that the old item had — in the order of `keys` (first occurrence) — and
    under each of them the old value. -/
theorem select_spec (xs : List Item) (keys : List String) (fresh : List Nat)
    (hl : fresh.length = xs.length) (i : Nat) (hi : i < xs.length) :
    ∃ h' : i < (select xs keys fresh).length,
      ((select xs keys fresh)[i]).tag = fresh[i]'(by omega) ∧
      ((select xs keys fresh)[i]).kv.keys =
        (keys.filter (fun k => decide (k ∈ xs[i].kv.keys))).eraseDups ∧
      ∀ k, ((select xs keys fresh)[i]).kv.get? k = if k ∈ keys then xs[i].kv.get? k else none := by
  have hlen : (select xs keys fresh).length = xs.length := by simp [select, hl]
  refine ⟨by omega, ?_⟩
  simp only [select, List.getElem_map, List.getElem_zip]
  refine ⟨trivial, ?_, fun k => select_pairs_get? _ keys k⟩
  rw [Dict.ofPairs_keys, select_pairs_keys]

theorem select_length (xs : List Item) (keys : List String) (fresh : List Nat)
    (hl : fresh.length = xs.length) : (select xs keys fresh).length = xs.length := by
  simp [select, hl]

/-! ## Part 3: rename -/

/-- the rename map of the specification: a key that is the `from` of some pair `(to, from)` gets the
    `to` of the LAST such pair; every other key keeps its name. -/
def renameOf (toFrom : List (String × String)) (k : String) : String :=
  ((toFrom.reverse.find? (fun p => p.2 == k)).map (·.1)).getD k

/-- one step of building `renames = {from: to}`. -/
def renStep (acc : List (String × String)) (p : String × String) : List (String × String) :=
  if acc.any (fun q => q.1 == p.2) then acc.map (fun q => if q.1 == p.2 then (p.2, p.1) else q)
  else acc ++ [(p.2, p.1)]

def renLookup (acc : List (String × String)) (k : String) : Option String :=
  (acc.find? (fun q => q.1 == k)).map (·.2)

theorem renLookup_step_self (acc : List (String × String)) (p : String × String) :
    renLookup (renStep acc p) p.2 = some p.1 := by
  unfold renStep renLookup
  split
  · rename_i hh
    induction acc with
    | nil => simp at hh
    | cons q acc ih =>
      simp only [List.map_cons, List.find?_cons]
      by_cases hq : q.1 = p.2
      · simp [hq]
      · have h1 : (q.1 == p.2) = false := by simp [hq]
        simp only [h1, Bool.false_eq_true, if_false]
        apply ih
        simpa [h1] using hh
  · rename_i hh
    have hnone : acc.find? (fun q => q.1 == p.2) = none := by
      rw [List.find?_eq_none]
      intro x hx
      simp only [List.any_eq_true, not_exists, not_and] at hh
      exact hh x hx
    simp [List.find?_append, hnone]

theorem renLookup_step_other (acc : List (String × String)) (p : String × String) (k : String)
    (h : k ≠ p.2) : renLookup (renStep acc p) k = renLookup acc k := by
  unfold renStep renLookup
  have hb : (p.2 == k) = false := by simp [Ne.symm h]
  split
  · rename_i hh
    clear hh
    congr 1
    induction acc with
    | nil => rfl
    | cons q acc ih =>
      rw [List.map_cons, List.find?_cons, List.find?_cons]
      by_cases hq : q.1 = p.2
      · have h1 : (q.1 == k) = false := by simp [hq, Ne.symm h]
        have h3 : (q.1 == p.2) = true := by simp [hq]
        simp only [h3, if_true, hb, h1]
        exact ih
      · have h1 : (q.1 == p.2) = false := by simp [hq]
        simp only [h1, Bool.false_eq_true, if_false]
        cases hk : (q.1 == k)
        · exact ih
        · rfl
  · rw [List.find?_append]
    cases hf : acc.find? (fun q => q.1 == k) with
    | some x => simp
    | none => simp [hb]

theorem renLookup_foldl (ps acc : List (String × String)) (k : String) :
    renLookup (ps.foldl renStep acc) k =
      ((ps.reverse.find? (fun p => p.2 == k)).map (·.1)).or (renLookup acc k) := by
  induction ps generalizing acc with
  | nil => simp
  | cons p t ih =>
    rw [List.foldl_cons, ih, List.reverse_cons, List.find?_append]
    cases ht : t.reverse.find? (fun p => p.2 == k) with
    | some q => simp
    | none =>
      simp only [Option.none_or, Option.map_none, List.find?_cons, List.find?_nil]
      by_cases hk : p.2 = k
      · subst hk; simp [renLookup_step_self]
      · have hb : (p.2 == k) = false := by simp [hk]
        simp only [hb, Option.map_none, Option.none_or]
        exact renLookup_step_other acc p k (fun e => hk e.symm)

/-- the `renames` dict built by the code looks keys up exactly as `renameOf` says. -/
theorem renames_lookup (toFrom : List (String × String)) (k : String) :
    (((toFrom.foldl renStep []).find? (fun q => q.1 == k)).map (·.2)).getD k = renameOf toFrom k := by
  have h := renLookup_foldl toFrom [] k
  unfold renLookup at h
  rw [h]
  simp [renameOf]

/-- the model of `rename`, with the rename map written as `renameOf`. -/
theorem rename_eq (xs : List Item) (toFrom : List (String × String)) (fresh : List Nat) :
    rename xs toFrom fresh = (xs.zip fresh).map (fun p =>
      { tag := p.2, kv := Dict.ofPairs (p.1.kv.map (fun e => (renameOf toFrom e.1, e.2))) }) := by
  unfold rename
  apply List.map_congr_left
  intro p _
  congr 2
  apply List.map_congr_left
  intro e _
  congr 1
  exact renames_lookup toFrom e.1

/-- keys that are not the `from` of any pair keep their name. -/
theorem renameOf_not_mentioned (toFrom : List (String × String)) (k : String)
    (h : k ∉ toFrom.map (·.2)) : renameOf toFrom k = k := by
  unfold renameOf
  have : toFrom.reverse.find? (fun p => p.2 == k) = none := by
    rw [List.find?_eq_none]
    intro x hx hxk
    apply h
    rw [List.mem_map]
    exact ⟨x, by simpa using hx, by simpa using hxk⟩
  simp [this]

/-- the last pair naming `k` as `from` decides its new name. -/
theorem renameOf_last (pre post : List (String × String)) (to k : String)
    (h : k ∉ post.map (·.2)) : renameOf (pre ++ (to, k) :: post) k = to := by
  unfold renameOf
  have hn : post.reverse.find? (fun p => p.2 == k) = none := by
    rw [List.find?_eq_none]
    intro x hx hxk
    apply h
    rw [List.mem_map]
    exact ⟨x, by simpa using hx, by simpa using hxk⟩
  simp [List.find?_append, hn]

/-- `rename(**to_from)`: as many items as before; every new item carries the fresh identity and is
    `dict(zip(renamed keys, values))`.  Without a name collision that is the old entry list with
    only the names changed (same values, same order); in general the keys are the renamed keys in
    first-occurrence order and a key reached by several old keys holds the value of the LAST of
    them (Python's `dict(zip(...))` does the same). -/
theorem rename_spec (xs : List Item) (toFrom : List (String × String)) (fresh : List Nat)
    (hl : fresh.length = xs.length) (i : Nat) (hi : i < xs.length) :
    ∃ h' : i < (rename xs toFrom fresh).length,
      ((rename xs toFrom fresh)[i]).tag = fresh[i]'(by omega) ∧
      ((rename xs toFrom fresh)[i]).kv.keys = (xs[i].kv.keys.map (renameOf toFrom)).eraseDups ∧
      (∀ k', ((rename xs toFrom fresh)[i]).kv.get? k' =
        (xs[i].kv.reverse.find? (fun e => renameOf toFrom e.1 == k')).map (·.2)) ∧
      ((xs[i].kv.keys.map (renameOf toFrom)).Nodup →
        ((rename xs toFrom fresh)[i]).kv = xs[i].kv.map (fun e => (renameOf toFrom e.1, e.2))) := by
  have hlen : (rename xs toFrom fresh).length = xs.length := by simp [rename, hl]
  refine ⟨by omega, ?_⟩
  simp only [rename_eq, List.getElem_map, List.getElem_zip]
  refine ⟨trivial, ?_, ?_, ?_⟩
  · rw [Dict.ofPairs_keys]; simp [Dict.keys, List.map_map, Function.comp_def]
  · intro k'
    rw [Dict.ofPairs_get?, ← List.map_reverse, List.find?_map]
    simp [Function.comp_def]
  · intro hnd
    apply Dict.ofPairs_nodup
    simpa [Dict.keys, List.map_map, Function.comp_def] using hnd

theorem rename_length (xs : List Item) (toFrom : List (String × String)) (fresh : List Nat)
    (hl : fresh.length = xs.length) : (rename xs toFrom fresh).length = xs.length := by
  simp [rename, hl]

/-! ## Part 4: modify_if -/

theorem modifyIf_length (xs : List Item) (mask : List Bool) (key : String) (vals : List Val)
    (hm : mask.length = xs.length) (hv : vals.length = xs.length) :
    (modifyIf xs mask key vals).length = xs.length := by
  simp [modifyIf, hm, hv]

/-- `modify_if(predicate, key=f)`: an item whose predicate is false is returned unchanged (same
    object, same dict); for the others only `key` changes: same object, `key` holds the computed
    value, every other key keeps its value, and the key order is kept (`key` goes last if new). -/
theorem modifyIf_spec (xs : List Item) (mask : List Bool) (key : String) (vals : List Val)
    (hm : mask.length = xs.length) (hv : vals.length = xs.length) (i : Nat) (hi : i < xs.length) :
    ∃ h' : i < (modifyIf xs mask key vals).length,
      (mask[i]'(by omega) = false → (modifyIf xs mask key vals)[i] = xs[i]) ∧
      (mask[i]'(by omega) = true →
        ((modifyIf xs mask key vals)[i]).tag = xs[i].tag ∧
        ((modifyIf xs mask key vals)[i]).kv.get? key = some (vals[i]'(by omega)) ∧
        (∀ k', k' ≠ key → ((modifyIf xs mask key vals)[i]).kv.get? k' = xs[i].kv.get? k') ∧
        ((modifyIf xs mask key vals)[i]).kv.keys =
          if key ∈ xs[i].kv.keys then xs[i].kv.keys else xs[i].kv.keys ++ [key]) := by
  refine ⟨by rw [modifyIf_length xs mask key vals hm hv]; exact hi, ?_⟩
  simp only [modifyIf, List.getElem_map, List.getElem_zip]
  constructor
  · intro hf; simp [hf]
  · intro ht
    simp only [ht, if_true]
    exact ⟨trivial, Dict.get?_set_self _ _ _, fun k' hk => Dict.get?_set_other _ _ _ _ hk,
      Dict.keys_set _ _ _⟩

/-! ## Part 5: slicing and `*` -/

theorem filter_range_interval (n a b : Nat) :
    (List.range n).filter (fun p => decide (a ≤ p ∧ p < b)) = List.range' a (min b n - a) := by
  induction n with
  | zero => simp
  | succ n ih =>
    rw [List.range_succ, List.filter_append, ih]
    by_cases h : a ≤ n ∧ n < b
    · have e : min b (n + 1) - a = (min b n - a) + 1 := by omega
      have e2 : a + (min b n - a) = n := by omega
      rw [e, List.range'_concat]
      simp [h, e2]
    · have e : min b (n + 1) - a = min b n - a := by omega
      rw [e]
      simp [h]

/-- `self[a:b]` is the list of the items at the positions `a ≤ p < min(b, len)`, in order. -/
theorem slice_eq_positions (xs : List Item) (a b : Nat) :
    slice xs a b = ((List.range xs.length).filter (fun p => decide (a ≤ p ∧ p < b))).map (fun p => xs[p]!) := by
  rw [filter_range_interval]
  apply List.ext_getElem
  · simp [slice]; omega
  · intro i h1 h2
    simp only [slice, List.length_take, List.length_drop] at h1
    have h3 : a + i < xs.length := by omega
    simp [slice, h3]

theorem slice_length (xs : List Item) (a b : Nat) :
    (slice xs a b).length = min b xs.length - a := by
  simp [slice]; omega

/-- element form: position `i` of the slice is position `a + i` of the list. -/
theorem slice_get (xs : List Item) (a b i : Nat) (h : i < (slice xs a b).length) :
    (slice xs a b)[i] = xs[a + i]'(by rw [slice_length] at h; omega) := by
  simp [slice]

theorem slice_sublist (xs : List Item) (a b : Nat) : (slice xs a b).Sublist xs :=
  (List.take_sublist _ _).trans (List.drop_sublist _ _)

theorem mul_zero (xs : List Item) : mul xs 0 = [] := by simp [mul]

theorem mul_succ (xs : List Item) (n : Nat) : mul xs (n + 1) = xs ++ mul xs n := by
  simp [mul, List.replicate_succ]

theorem mul_mod_lt (xs : List Item) (n i : Nat) (h : i < (mul xs n).length) : i % xs.length < xs.length := by
  rw [mul_length] at h
  rcases Nat.eq_zero_or_pos xs.length with h0 | h0
  · rw [h0] at h; simp at h
  · exact Nat.mod_lt _ h0

/-- `self * n`: position `i` holds item `i mod len` (n copies, in order). -/
theorem mul_get (xs : List Item) (n i : Nat) (h : i < (mul xs n).length) :
    (mul xs n)[i] = xs[i % xs.length]'(mul_mod_lt xs n i h) := by
  induction n generalizing i with
  | zero => simp [mul] at h
  | succ n ih =>
    simp only [mul_succ]
    by_cases hi : i < xs.length
    · rw [List.getElem_append_left hi]
      simp [Nat.mod_eq_of_lt hi]
    · have hge : xs.length ≤ i := by omega
      rw [List.getElem_append_right hge]
      have h' : i - xs.length < (mul xs n).length := by
        rw [mul_succ, List.length_append] at h; omega
      rw [ih (i - xs.length) h']
      congr 1
      exact (Nat.mod_eq_sub_mod hge).symm

end DI.LoD

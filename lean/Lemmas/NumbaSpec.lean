/-
  Lemmas/NumbaSpec.lean — C08 strengthened: Numba group form = pure group form without the
  length hypothesis and with the exact condition for count_unique; whole call histories.
-/
import Model.Aggregate
import Model.Numba
import Lemmas.Aggregate
import Lemmas.AggStats
import Lemmas.AggSpec

namespace DI.Agg

/-! ### the exact condition under which the Numba kernel agrees -/

def naCount (xg : List Num) : Nat := (xg.filter (·.isNone)).length

/-- what the group must satisfy for the Numba kernel to be interchangeable with the Python one:
    nothing, except for mode (no missing value) and set-based count_unique (at most one). -/
def numbaSafe : Helper → List Num → Bool
  | .mode, xg => !hasNa xg
  | .countUnique false, xg => decide (naCount xg ≤ 1)
  | _, _ => true

theorem countUnique_kernels_agree_iff (xg : List Num) :
    kernelNumba (.countUnique false) xg = kernel (.countUnique false) xg ↔ naCount xg ≤ 1 := by
  simp only [kernelNumba, kernel, countUniqueNumba, countUniqueOf, naCount, Bool.false_eq_true, if_false,
    Option.some.injEq, Res.nat.injEq]
  omega

theorem kernelNumba_eq_of_safe (h : Helper) (xg : List Num) (hs : numbaSafe h xg = true) :
    kernelNumba h xg = kernel h xg := by
  cases h with
  | mode =>
    apply kernelNumba_eq
    intro _
    simpa [numbaSafe] using hs
  | countUnique d =>
    cases d with
    | true => exact kernelNumba_eq _ _ (by simp [naSensitive])
    | false => exact (countUnique_kernels_agree_iff xg).mpr (by simpa [numbaSafe] using hs)
  | nth i => exact kernelNumba_eq _ _ (by simp [naSensitive])
  | _ => rfl

theorem numbaSafe_of_no_na (h : Helper) (xg : List Num) (hna : hasNa xg = false) : numbaSafe h xg = true := by
  cases h with
  | mode => simp [numbaSafe, hna]
  | countUnique d =>
    cases d
    · simp [numbaSafe, naCount, filter_isNone_of_no_na xg hna]
    · rfl
  | _ => rfl

/-- Numba on = Numba off whenever every group (after the NA policy) is safe for the helper;
    no hypothesis on the lengths of the column and the group-id vector. -/
theorem numba_eq_python_of_safe (h : Helper) (d : Bool) (xs : List Num) (ids : List Nat)
    (hsafe : ∀ xg ∈ chunks ids xs, numbaSafe h (handleNa xg (d && hasNa xs)) = true) :
    groupFormNumba h d xs ids = groupForm h d xs ids := by
  unfold groupFormNumba groupForm
  apply List.map_congr_left
  intro xg hg
  rw [kernelNumba_eq_of_safe h _ (hsafe xg hg)]
  cases kernel h (handleNa xg (d && hasNa xs)) <;> rfl

/-- the hypothesis of `numba_eq_python` without `ids.length = xs.length`. -/
theorem numba_eq_python' (h : Helper) (d : Bool) (xs : List Num) (ids : List Nat)
    (hna : naSensitive h = true → (d = true ∨ hasNa xs = false)) :
    groupFormNumba h d xs ids = groupForm h d xs ids := by
  apply numba_eq_python_of_safe
  intro xg hg
  by_cases hs : naSensitive h = true
  · apply numbaSafe_of_no_na
    cases hx : hasNa xs with
    | false =>
      simp only [Bool.and_false]
      have := hasNa_chunk' ids xs xg hg hx
      simpa [handleNa] using this
    | true =>
      rcases hna hs with hd | hx'
      · simp only [hd, Bool.and_true]
        exact hasNa_handleNa xg true (Or.inl rfl)
      · rw [hx] at hx'; cases hx'
  · cases h with
    | mode => simp [naSensitive] at hs
    | countUnique d' =>
      cases d'
      · simp [naSensitive] at hs
      · rfl
    | _ => rfl

/-- for every helper: on a column without missing values the Numba group form equals the pure
    group form — no other hypothesis. -/
theorem numba_eq_python_no_na (h : Helper) (d : Bool) (xs : List Num) (ids : List Nat)
    (hna : hasNa xs = false) : groupFormNumba h d xs ids = groupForm h d xs ids :=
  numba_eq_python' h d xs ids (fun _ => Or.inr hna)

/-- for every helper: with drop_na the two paths agree on every column. -/
theorem numba_eq_python_drop_na (h : Helper) (xs : List Num) (ids : List Nat) :
    groupFormNumba h true xs ids = groupForm h true xs ids :=
  numba_eq_python' h true xs ids (fun _ => Or.inl rfl)

/-- the count_unique condition is sharp: two missing values in a group and the paths differ. -/
theorem countUnique_two_missing_counterexample :
    groupFormNumba (.countUnique false) false [none, none] [0, 0] ≠
      groupForm (.countUnique false) false [none, none] [0, 0] := by decide

/-! ### whole histories of calls -/

/-- a process: a sequence of calls, each with the cache setting in force at that moment. -/
def runJ (s : JitState) : List (Call × Bool) → JitState × List (List Res)
  | [] => (s, [])
  | (c, cacheOn) :: rest =>
    let r := stepJ s c cacheOn
    let rr := runJ r.1 rest
    (rr.1, r.2 :: rr.2)

/-- every call of a history returns what the Numba group form returns for its arguments. -/
theorem runJ_outputs (s : JitState) (cs : List (Call × Bool)) :
    (runJ s cs).2 = cs.map (fun c => groupFormNumba c.1.helper c.1.drop c.1.xs c.1.ids) := by
  induction cs generalizing s with
  | nil => rfl
  | cons c rest ih =>
    obtain ⟨c, b⟩ := c
    simp only [runJ, List.map_cons]
    rw [ih]
    rfl

/-- the results of a whole history do not depend on the initial JIT state (what was compiled
    before, what is in the on-disk cache) nor on the cache settings along the way. -/
theorem runJ_state_independent (s s' : JitState) (cs cs' : List (Call × Bool))
    (hcalls : cs.map (·.1) = cs'.map (·.1)) : (runJ s cs).2 = (runJ s' cs').2 := by
  rw [runJ_outputs, runJ_outputs]
  have : ∀ l : List (Call × Bool),
      l.map (fun c => groupFormNumba c.1.helper c.1.drop c.1.xs c.1.ids) =
      (l.map (·.1)).map (fun c => groupFormNumba c.helper c.drop c.xs c.ids) := by
    intro l; simp
  rw [this cs, this cs', hcalls]

/-- a call's result is the same whatever calls preceded it. -/
theorem runJ_append (s s' : JitState) (pre cs : List (Call × Bool)) :
    (runJ s (pre ++ cs)).2 = (runJ s pre).2 ++ (runJ s' cs).2 := by
  simp only [runJ_outputs, List.map_append]

/-- a history of calls that are each safe for their helper returns, call by call, what the pure
    Python path returns. -/
theorem runJ_eq_python (s : JitState) (cs : List (Call × Bool))
    (hsafe : ∀ c ∈ cs, ∀ xg ∈ chunks c.1.ids c.1.xs,
      numbaSafe c.1.helper (handleNa xg (c.1.drop && hasNa c.1.xs)) = true) :
    (runJ s cs).2 = cs.map (fun c => groupForm c.1.helper c.1.drop c.1.xs c.1.ids) := by
  rw [runJ_outputs]
  apply List.map_congr_left
  intro c hc
  exact numba_eq_python_of_safe _ _ _ _ (hsafe c hc)

/-! ### non-vacuity -/

example : numbaSafe .mode [some 1, some 1, some 2] = true ∧ numbaSafe (.countUnique false) [none, some 1] = true ∧
    numbaSafe (.countUnique false) [none, none] = false ∧ numbaSafe .mode [none, some 1] = false := by decide
example : groupFormNumba .mode true [some 1, none, some 2, some 2] [0, 0, 1, 1] =
    groupForm .mode true [some 1, none, some 2, some 2] [0, 0, 1, 1] := numba_eq_python_drop_na _ _ _
example : groupFormNumba .mode false [some 1, some 2, some 2] [0, 1] = [.val 1, .val 2] := by decide
example : (runJ ⟨[], []⟩ [(⟨"mode", "f8", .mode, false, [some 1, some 2, some 2], [0, 1, 1]⟩, true)]).2 =
    (runJ ⟨[("sum", "i8")], [("sum", "i8")]⟩
      [(⟨"mode", "f8", .mode, false, [some 1, some 2, some 2], [0, 1, 1]⟩, false)]).2 :=
  runJ_state_independent _ _ _ _ rfl

end DI.Agg

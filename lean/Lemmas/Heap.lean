/-
  Lemmas/Heap.lean — frame condition for clean effects, composition over call sequences (C06).
-/
import Model.Heap

namespace DI.Heap

/-- every handle of every pool object is a live buffer. -/
def WF (h : Heap) (pool : List Frame) : Prop := ∀ f ∈ pool, ∀ c ∈ f.cols, c.2 < h.length

def Src.isFresh : Src → Bool
  | .fresh _ => true
  | _ => false

def Wr.isLocal : Wr → Bool
  | .localBuf => true
  | _ => false

/-- executable form of `Effect.clean`. -/
def Effect.cleanB (e : Effect) : Bool := e.writes.all Wr.isLocal && e.outs.all (fun o => o.2.isFresh)

theorem Effect.clean_of_cleanB {e : Effect} (h : e.cleanB = true) : e.clean := by
  simp only [Effect.cleanB, Bool.and_eq_true, List.all_eq_true] at h
  refine ⟨?_, ?_⟩
  · intro w hw
    have := h.1 w hw
    cases w <;> simp [Wr.isLocal] at this ⊢
  · intro o ho
    have := h.2 o ho
    cases hs : o.2 with
    | fresh c => exact ⟨c, rfl⟩
    | recv i => simp [hs, Src.isFresh] at this
    | arg i => simp [hs, Src.isFresh] at this

theorem writes_local (recv arg : Frame) (h : Heap) (ws : List Wr) (hw : ∀ w ∈ ws, w = Wr.localBuf) :
    ws.foldl (applyWrite recv arg) h = h := by
  induction ws generalizing h with
  | nil => rfl
  | cons w ws ih =>
    have : w = Wr.localBuf := hw w (by simp)
    subst this
    simp only [List.foldl_cons, applyWrite]
    exact ih h (fun w' hw' => hw w' (by simp [hw']))

/-- all-fresh result columns: the heap only grows, and every result handle is a new buffer. -/
theorem allocOuts_fresh (recv arg : Frame) (outs : List (String × Src)) :
    ∀ (h : Heap), (∀ o ∈ outs, ∃ c, o.2 = Src.fresh c) →
      ∃ ext, (allocOuts recv arg h outs).1 = h ++ ext ∧
        ∀ c ∈ (allocOuts recv arg h outs).2, h.length ≤ c.2 ∧ c.2 < (h ++ ext).length := by
  induction outs with
  | nil => intro h _; exact ⟨[], by simp [allocOuts], by simp [allocOuts]⟩
  | cons o rest ih =>
    intro h hf
    obtain ⟨nm, s⟩ := o
    obtain ⟨c, hc⟩ := hf (nm, s) (by simp)
    simp only at hc
    subst hc
    obtain ⟨ext, he, hids⟩ := ih (h ++ [c]) (fun o ho => hf o (by simp [ho]))
    refine ⟨c :: ext, ?_, ?_⟩
    · simp only [allocOuts, he]; simp
    · intro col hcol
      simp only [allocOuts, List.mem_cons] at hcol
      rcases hcol with rfl | hcol
      · simp
      · have := hids col hcol
        simp only [List.length_append, List.length_cons, List.length_nil] at this ⊢
        omega

/-- **frame condition** for one call: a clean effect leaves every existing buffer as it was and hands
    out only buffers that did not exist before. -/
theorem clean_frame_condition (h : Heap) (recv arg : Frame) (e : Effect) (hc : e.clean) :
    ∃ ext, (exec h recv arg e).1 = h ++ ext ∧
      ∀ c ∈ (exec h recv arg e).2.cols, h.length ≤ c.2 ∧ c.2 < (h ++ ext).length := by
  unfold exec
  simp only
  rw [writes_local recv arg h e.writes hc.1]
  exact allocOuts_fresh recv arg e.outs h hc.2

theorem view_append (h ext : Heap) (f : Frame) (hf : ∀ c ∈ f.cols, c.2 < h.length) :
    view (h ++ ext) f = view h f := by
  unfold view
  congr 1
  apply List.map_congr_left
  intro c hc
  have := hf c hc
  simp [List.getElem?_append_left this]

theorem view_set_other (h : Heap) (f : Frame) (id v : Nat) (hd : ∀ c ∈ f.cols, c.2 ≠ id) :
    view (h.set id v) f = view h f := by
  unfold view
  congr 1
  apply List.map_congr_left
  intro c hc
  have := hd c hc
  simp [List.getElem?_set, Ne.symm this]

/-- an in-place edit through one object is invisible through any object sharing no buffer with it. -/
theorem poke_unobserved (h : Heap) (f g : Frame) (j v : Nat)
    (hd : ∀ a ∈ f.cols, ∀ b ∈ g.cols, a.2 ≠ b.2) : view (poke h f j v) g = view h g := by
  unfold poke colId
  cases hj : f.cols[j]? with
  | none => rfl
  | some a =>
    simp only [Option.map_some]
    apply view_set_other
    intro b hb
    exact (hd a (List.mem_of_getElem? hj) b hb).symm

/-- invariant of a call sequence: handles are live, and every object created by the sequence (index
    ≥ n0) shares no buffer with any object that existed before it. -/
def Inv (n0 : Nat) (h : Heap) (pool : List Frame) : Prop :=
  WF h pool ∧ ∀ i j (hi : i < j) (hj : j < pool.length), n0 ≤ j →
    ∀ a ∈ (pool[i]'(Nat.lt_trans hi hj)).cols, ∀ b ∈ pool[j].cols, a.2 ≠ b.2

theorem step_clean (n0 : Nat) (h : Heap) (pool : List Frame) (c : Call) (hc : c.eff.clean) (hinv : Inv n0 h pool)
    (hn : n0 ≤ pool.length) :
    ∃ ext r, stepCall (h, pool) c = (h ++ ext, pool ++ [r]) ∧ Inv n0 (h ++ ext) (pool ++ [r]) := by
  obtain ⟨ext, he, hids⟩ := clean_frame_condition h (pool[c.recv]?.getD emptyFrame) (pool[c.arg]?.getD emptyFrame) c.eff hc
  refine ⟨ext, (exec h (pool[c.recv]?.getD emptyFrame) (pool[c.arg]?.getD emptyFrame) c.eff).2, ?_, ?_, ?_⟩
  · simp only [stepCall]; rw [← he]
  · intro f hf col hcol
    rcases List.mem_append.mp hf with hf | hf
    · have := hinv.1 f hf col hcol
      simp only [List.length_append]; omega
    · simp only [List.mem_singleton] at hf
      subst hf
      exact (hids col hcol).2
  · intro i j hi hj hn0 a ha b hb
    simp only [List.length_append, List.length_cons, List.length_nil] at hj
    by_cases hjl : j < pool.length
    · have hil : i < pool.length := Nat.lt_trans hi hjl
      simp only [List.getElem_append_left hil] at ha
      simp only [List.getElem_append_left hjl] at hb
      exact hinv.2 i j hi hjl hn0 a ha b hb
    · have hje : j = pool.length := by omega
      subst hje
      have hil : i < pool.length := hi
      simp only [List.getElem_append_left hil] at ha
      simp only [List.getElem_append_right (Nat.le_refl _), Nat.sub_self, List.getElem_cons_zero] at hb
      have h1 := hinv.1 _ (List.getElem_mem hil) a ha
      have h2 := (hids b hb).1
      omega

/-- **sequences**: after any number of clean calls every object that existed before is observed
    unchanged, and the invariant (live handles, no sharing with earlier objects) still holds. -/
theorem runCalls_clean (n0 : Nat) (cs : List Call) :
    ∀ (h : Heap) (pool : List Frame), (∀ c ∈ cs, c.eff.clean) → Inv n0 h pool → n0 ≤ pool.length →
      ∃ ext rs, runCalls (h, pool) cs = (h ++ ext, pool ++ rs) ∧ rs.length = cs.length ∧
        Inv n0 (h ++ ext) (pool ++ rs) ∧ ∀ f ∈ pool, view (h ++ ext) f = view h f := by
  induction cs with
  | nil =>
    intro h pool _ hinv _
    exact ⟨[], [], by simp [runCalls], rfl, by simpa using hinv, by simp⟩
  | cons c cs ih =>
    intro h pool hcl hinv hn
    obtain ⟨ext1, r, hstep, hinv1⟩ := step_clean n0 h pool c (hcl c (by simp)) hinv hn
    obtain ⟨ext2, rs, hrun, hlen, hinv2, hview⟩ := ih (h ++ ext1) (pool ++ [r]) (fun c' hc' => hcl c' (by simp [hc'])) hinv1
      (by simp only [List.length_append]; omega)
    refine ⟨ext1 ++ ext2, r :: rs, ?_, by simp [hlen], ?_, ?_⟩
    · simp only [runCalls, List.foldl_cons] at hrun ⊢
      rw [hstep, hrun]; simp
    · simpa [List.append_assoc] using hinv2
    · intro f hf
      have h1 := hview f (by simp [hf])
      rw [← List.append_assoc, h1]
      exact view_append h ext1 f (hinv.1 f hf)

/-! ### documented exceptions -/

theorem allocOuts_recv_range (recv arg : Frame) (h : Heap) (names : List String) (k : Nat) (is : List Nat)
    (hk : ∀ i ∈ is, i < recv.cols.length) :
    allocOuts recv arg h (is.map (fun i => ((recv.cols[i]?.map (·.1)).getD "", Src.recv i))) =
      (h, is.map (fun i => ((recv.cols[i]?.map (·.1)).getD "", ((recv.cols[i]?).map (·.2)).getD 0))) := by
  induction is with
  | nil => rfl
  | cons i is ih =>
    simp only [List.map_cons, allocOuts, colId]
    rw [ih (fun j hj => hk j (by simp [hj]))]

/-- `copy` is shallow: same buffers, untouched heap, fresh (empty) grouping. -/
theorem copy_is_shallow (h : Heap) (recv arg : Frame) :
    exec h recv arg (copyEffect recv) = (h, { cols := recv.cols, group := [] }) := by
  unfold exec copyEffect
  simp only [List.foldl_nil]
  rw [allocOuts_recv_range recv arg h [] 0 (List.range recv.cols.length) (by intro i hi; simpa using hi)]
  congr 2
  apply List.ext_getElem
  · simp
  · intro i h1 h2
    simp only [List.length_map, List.length_range] at h1
    simp [h1]

theorem setItem_keeps_buffers (h : Heap) (f : Frame) (name : String) (content : Nat) :
    ∃ ext, (setItem h f name content).1 = h ++ ext := ⟨[content], rfl⟩

end DI.Heap

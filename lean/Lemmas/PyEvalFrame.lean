/-
  Lemmas/PyEvalFrame.lean — the evaluator of `Model/PyEvalFrame.lean` on the generator bodies of the DataFrame
  subsetting methods: list semantics of the primitives (`npTake` = `gather`, `npDelete` = `gather` at `deleteIdx`),
  the loop rule (a `for` whose body yields one pair per item denotes a `map`), and the evaluation of every regenerated body.
-/
import Model.PyEvalFrame
import Model.Bind
import Lemmas.Frame
import Lemmas.PyCore
import Lemmas.FrameMore
import Lemmas.Bind
import Lemmas.Cbind

namespace DI.PyEval

open DI DI.Py

/-! ### list semantics of the primitives -/

theorem allSome_map {α β : Type} (f : α → Option β) (g : α → β) (l : List α) (h : ∀ x ∈ l, f x = some (g x)) :
    allSome (l.map f) = some (l.map g) := by
  induction l with
  | nil => rfl
  | cons a t ih =>
    have ha := h a (List.mem_cons_self)
    have ht := ih (fun x hx => h x (List.mem_cons_of_mem _ hx))
    simp only [List.map_cons, ha, allSome, ht]

theorem allSome_none {α β : Type} (f : α → Option β) (l : List α) (x : α) (hx : x ∈ l) (h : f x = none) :
    allSome (l.map f) = none := by
  induction l with
  | nil => cases hx
  | cons a t ih =>
    simp only [List.map_cons]
    cases hfa : f a with
    | none => rfl
    | some b =>
      rcases List.mem_cons.mp hx with rfl | hx'
      · rw [h] at hfa; cases hfa
      · simp only [allSome, ih hx']

def InRange (n : Nat) (i : Int) : Prop := -(n : Int) ≤ i ∧ i < (n : Int)

instance (n : Nat) (i : Int) : Decidable (InRange n i) := by unfold InRange; infer_instance

theorem normIdx_of_inRange {n : Nat} {i : Int} (h : InRange n i) : normIdx n i = some (wrapIdx n i) := by
  unfold normIdx; exact if_pos h

theorem wrapIdx_lt {n : Nat} {i : Int} (h : InRange n i) : wrapIdx n i < n := by
  unfold wrapIdx; unfold InRange at h; split <;> omega

theorem normIdx_none {n : Nat} {i : Int} (h : ¬ InRange n i) : normIdx n i = none := by
  unfold normIdx; exact if_neg h

/-- `np.take` at valid positions is the model's `gather` at the wrapped positions (`sliceIdx`). -/
theorem npTake_spec {α : Type} [Inhabited α] (c : List α) (idx : List Int) (h : ∀ i ∈ idx, InRange c.length i) :
    npTake c idx = some (gather c (sliceIdx c.length idx)) := by
  unfold npTake gather sliceIdx
  rw [List.map_map]
  apply allSome_map
  intro i hi
  have hr := h i hi
  rw [normIdx_of_inRange hr]
  have hlt := wrapIdx_lt hr
  simp [hlt]

/-- a position out of range is an IndexError. -/
theorem npTake_none {α : Type} (c : List α) (idx : List Int) (i : Int) (hi : i ∈ idx) (h : ¬ InRange c.length i) :
    npTake c idx = none := by
  unfold npTake
  apply allSome_none _ _ i hi
  rw [normIdx_none h]

theorem inRange_ofNat {n k : Nat} (h : k < n) : InRange n (k : Int) := by unfold InRange; omega

theorem wrapIdx_ofNat (n k : Nat) : wrapIdx n (k : Int) = k := by unfold wrapIdx; split <;> omega

theorem sliceIdx_ofNat (n : Nat) (l : List Nat) : sliceIdx n (l.map (fun (k : Nat) => (k : Int))) = l := by
  unfold sliceIdx
  rw [List.map_map]
  conv => rhs; rw [← List.map_id l]
  apply List.map_congr_left
  intro k _
  exact wrapIdx_ofNat n k

theorem npTake_nat {α : Type} [Inhabited α] (c : List α) (l : List Nat) (h : ∀ k ∈ l, k < c.length) :
    npTake c (l.map (fun (k : Nat) => (k : Int))) = some (gather c l) := by
  rw [npTake_spec c _ (by
    intro i hi
    obtain ⟨k, hk, rfl⟩ := List.mem_map.mp hi
    exact inRange_ofNat (h k hk)), sliceIdx_ofNat]

theorem zipIdx_filter_map {α : Type} [Inhabited α] (q : Nat → Bool) (c : List α) (k : Nat) :
    ((c.zipIdx k).filter (fun p => q p.2)).map (·.1) =
      ((List.range' k c.length).filter q).map (fun i => c[i - k]!) := by
  induction c generalizing k with
  | nil => rfl
  | cons x xs ih =>
    have tail : ((List.range' (k + 1) xs.length).filter q).map (fun i => (x :: xs)[i - k]!) =
        ((List.range' (k + 1) xs.length).filter q).map (fun i => xs[i - (k + 1)]!) := by
      apply List.map_congr_left
      intro i hi
      have hik : k + 1 ≤ i := (List.mem_range'_1.mp (List.mem_filter.mp hi).1).1
      have e : i - k = (i - (k + 1)) + 1 := by omega
      rw [e]
      simp
    simp only [List.zipIdx_cons, List.length_cons, List.range'_succ, List.filter_cons]
    cases hq : q k
    · simp only [Bool.false_eq_true, if_false]
      rw [ih (k + 1), tail]
    · simp only [if_true, List.map_cons, Nat.sub_self]
      rw [ih (k + 1), tail]
      simp

/-- `np.delete` at valid positions is the model's `gather` at the positions not listed (`sliceOffIdx`). -/
theorem npDelete_spec {α : Type} [Inhabited α] (c : List α) (idx : List Int) (h : ∀ i ∈ idx, InRange c.length i) :
    npDelete c idx = some (gather c (sliceOffIdx c.length idx)) := by
  unfold npDelete
  rw [allSome_map (normIdx c.length) (wrapIdx c.length) idx (fun i hi => normIdx_of_inRange (h i hi))]
  simp only
  have := zipIdx_filter_map (fun i => !(idx.map (wrapIdx c.length)).contains i) c 0
  simp only [Nat.sub_zero] at this
  rw [this]
  simp only [gather, sliceOffIdx, deleteIdx, List.range_eq_range']

theorem npDelete_none {α : Type} (c : List α) (idx : List Int) (i : Int) (hi : i ∈ idx) (h : ¬ InRange c.length i) :
    npDelete c idx = none := by
  unfold npDelete
  rw [allSome_none (normIdx c.length) idx i hi (normIdx_none h)]

theorem npDelete_nat {α : Type} [Inhabited α] (c : List α) (l : List Nat) (h : ∀ k ∈ l, k < c.length) :
    npDelete c (l.map (fun (k : Nat) => (k : Int))) = some (gather c (deleteIdx c.length l)) := by
  rw [npDelete_spec c _ (by
    intro i hi
    obtain ⟨k, hk, rfl⟩ := List.mem_map.mp hi
    exact inRange_ofNat (h k hk))]
  unfold sliceOffIdx
  have := sliceIdx_ofNat c.length l
  unfold sliceIdx at this
  rw [this]

/-! ### environments -/

theorem get?_cons_self (x : String) (v : Val) (e : Env) : Env.get? ((x, v) :: e) x = some v := by
  simp [Env.get?]

theorem get?_cons_ne {x y : String} (v : Val) (e : Env) (h : x ≠ y) : Env.get? ((x, v) :: e) y = Env.get? e y := by
  have : (x == y) = false := by simpa using h
  simp [Env.get?, this]

/-- `e` agrees with `e0` on every name outside the loop variables `vars`. -/
def Stable (vars : List String) (e0 e : Env) : Prop := ∀ x, x ∉ vars → Env.get? e x = Env.get? e0 x

theorem Stable.refl (vars : List String) (e : Env) : Stable vars e e := fun _ _ => rfl

theorem Stable.push {vars : List String} {e0 e : Env} (h : Stable vars e0 e) {x : String} (hx : x ∈ vars) (v : Val) :
    Stable vars e0 ((x, v) :: e) := by
  intro y hy
  have : x ≠ y := fun hxy => hy (hxy ▸ hx)
  rw [get?_cons_ne v e this]
  exact h y hy

/-! ### unfolding the evaluator -/

theorem evalExpr_sym (env : Env) (x : String) (h1 : x ≠ "True") (h2 : x ≠ "False") (h3 : x ≠ "None") :
    evalExpr env (.sym x) = Env.get? env x := by
  unfold evalExpr lookupSym
  split <;> simp_all

theorem evalArgs_nil (env : Env) : evalArgs env [] = some [] := rfl

theorem evalArgs_cons (env : Env) (t : Term) (ts : List Term) (v : Val) (vs : List Val)
    (h : evalExpr env t = some v) (hs : evalArgs env ts = some vs) : evalArgs env (t :: ts) = some (v :: vs) := by
  rw [evalArgs, h, hs]

theorem evalArgs1 {env : Env} {a : Term} {va : Val} (ha : evalExpr env a = some va) : evalArgs env [a] = some [va] :=
  evalArgs_cons env a [] va [] ha rfl

theorem evalArgs2 {env : Env} {a b : Term} {va vb : Val} (ha : evalExpr env a = some va) (hb : evalExpr env b = some vb) :
    evalArgs env [a, b] = some [va, vb] := evalArgs_cons env a [b] va [vb] ha (evalArgs1 hb)

theorem evalArgs3 {env : Env} {a b c : Term} {va vb vc : Val} (ha : evalExpr env a = some va)
    (hb : evalExpr env b = some vb) (hc : evalExpr env c = some vc) :
    evalArgs env [a, b, c] = some [va, vb, vc] := evalArgs_cons env a [b, c] va [vb, vc] ha (evalArgs2 hb hc)

/-- a call of a primitive: the arguments are evaluated, left to right, and handed to `prim`. -/
theorem evalExpr_prim (env : Env) (f : String) (args : List Term) (vs : List Val)
    (h1 : f ≠ "Vector.fast") (h2 : f ≠ "DictComp") (h3 : f ≠ "value-after-loop") (hp : primNames.contains f = true)
    (h : evalArgs env args = some vs) : evalExpr env (.app f args) = prim f vs := by
  rw [evalExpr]
  simp only [h]
  split
  · rfl
  · rfl
  · intro _ _ hf _; exact h1 hf
  · intro _ _ _ _ hf _; exact h2 hf
  · intro _ _ hf _; exact h3 hf

/-- a name `prim` interprets that is not one of the special forms of `evalExpr`. -/
def PlainPrim (f : String) : Prop :=
  f ≠ "Vector.fast" ∧ f ≠ "DictComp" ∧ f ≠ "value-after-loop" ∧ primNames.contains f = true

instance (f : String) : Decidable (PlainPrim f) := by unfold PlainPrim; infer_instance

theorem evalPrim {env : Env} {f : String} {args : List Term} {vs : List Val} (hf : PlainPrim f)
    (h : evalArgs env args = some vs) : evalExpr env (.app f args) = prim f vs :=
  evalExpr_prim env f args vs hf.1 hf.2.1 hf.2.2.1 hf.2.2.2 h

/-- a call of a variable bound to a callable. -/
theorem evalExpr_call (env : Env) (f : String) (args : List Term) (vs : List Val)
    (h1 : f ≠ "Vector.fast") (h2 : f ≠ "DictComp") (h3 : f ≠ "value-after-loop") (hp : primNames.contains f = false)
    (h : evalArgs env args = some vs) : evalExpr env (.app f args) = callVar env f vs := by
  rw [evalExpr]
  simp only [h]
  split
  · rename_i hc; rw [hp] at hc; cases hc
  · rfl
  · intro _ _ hf _; exact h1 hf
  · intro _ _ _ _ hf _; exact h2 hf
  · intro _ _ hf _; exact h3 hf

/-- a failing argument (a Python exception) fails the call. -/
theorem evalExpr_args_none (env : Env) (f : String) (args : List Term)
    (h1 : f ≠ "Vector.fast") (h2 : f ≠ "DictComp") (h3 : f ≠ "value-after-loop")
    (h : evalArgs env args = none) : evalExpr env (.app f args) = none := by
  rw [evalExpr]
  simp only [h]
  · intro _ _ hf _; exact h1 hf
  · intro _ _ _ _ hf _; exact h2 hf
  · intro _ _ hf _; exact h3 hf

theorem execStmt_yield_eq (env : Env) (out : Frame) (n c : Term) :
    execStmt env out (.app "yield" [.app "tuple" [n, c]]) =
      (match evalExpr env n, evalExpr env c with
       | some (.str n), some (.col c) => some (.next, env, out ++ [(n, c)])
       | _, _ => none) := rfl

theorem execStmt_yield {env : Env} {out : Frame} {n c : Term} {vn : String} {vc : List Cell}
    (hn : evalExpr env n = some (.str vn)) (hc : evalExpr env c = some (.col vc)) :
    execStmt env out (.app "yield" [.app "tuple" [n, c]]) = some (.next, env, out ++ [(vn, vc)]) := by
  rw [execStmt_yield_eq, hn, hc]

theorem execStmt_assign_eq (env : Env) (out : Frame) (x : String) (e : Term) :
    execStmt env out (.app "assign" [.sym x, e]) =
      (match evalExpr env e with
       | some v => some (.next, (x, v) :: env, out)
       | none => none) := rfl

theorem execStmt_assign {env : Env} {out : Frame} {x : String} {e : Term} {v : Val} (he : evalExpr env e = some v) :
    execStmt env out (.app "assign" [.sym x, e]) = some (.next, (x, v) :: env, out) := by
  rw [execStmt_assign_eq, he]

theorem execStmt_if_eq (env : Env) (out : Frame) (c : Term) (a b : List Term) :
    execStmt env out (.app "if" [c, .app "block" a, .app "block" b]) =
      (match evalExpr env c with
       | some (.bool true) => execBlock env out a
       | some (.bool false) => execBlock env out b
       | _ => none) := rfl

theorem execStmt_if_true {env : Env} {out : Frame} {c : Term} {a b : List Term} (hc : evalExpr env c = some (.bool true)) :
    execStmt env out (.app "if" [c, .app "block" a, .app "block" b]) = execBlock env out a := by
  rw [execStmt_if_eq, hc]

theorem execStmt_if_false {env : Env} {out : Frame} {c : Term} {a b : List Term} (hc : evalExpr env c = some (.bool false)) :
    execStmt env out (.app "if" [c, .app "block" a, .app "block" b]) = execBlock env out b := by
  rw [execStmt_if_eq, hc]

theorem execBlock_nil (env : Env) (out : Frame) : execBlock env out [] = some (.next, env, out) := rfl

theorem execBlock_cons_next {env env' : Env} {out out' : Frame} {s : Term} {ss : List Term}
    (h : execStmt env out s = some (.next, env', out')) : execBlock env out (s :: ss) = execBlock env' out' ss := by
  rw [execBlock, h]

theorem execBlock_cons_cont {env env' : Env} {out out' : Frame} {s : Term} {ss : List Term}
    (h : execStmt env out s = some (.cont, env', out')) : execBlock env out (s :: ss) = some (.cont, env', out') := by
  rw [execBlock, h]

/-! ### the loop rule -/

/-- one iteration of `for pat in …: body`. -/
def stepOf (pat : Term) (body : List Term) : Env × Frame → Val → Option (Env × Frame) :=
  fun st it => match bindPat st.1 pat it with
    | none => none
    | some env' => match execBlock env' st.2 body with
      | none => none
      | some r => some (r.2.1, r.2.2)

/-- the result of a `for` statement whose items are `its`. -/
def forResult (pat : Term) (body : List Term) (env : Env) (out : Frame) (its : Option (List Val)) :
    Option (Flow × Env × Frame) :=
  match its with
  | none => none
  | some its => match loop (stepOf pat body) (env, out) its with
    | none => none
    | some st => some (.next, st.1, st.2)

/-- **the loop rule**: if every iteration (in any environment satisfying the invariant) appends the pairs `y a` for its
    item `mk a` and re-establishes the invariant, the loop appends `y` of every item, in order. -/
theorem loop_collect {α : Type} (pat : Term) (body : List Term) (mk : α → Val) (Inv : Env → Prop) (y : α → Frame)
    (l : List α)
    (hstep : ∀ env out a, a ∈ l → Inv env → ∃ env1, bindPat env pat (mk a) = some env1 ∧
      ∃ fl env2, execBlock env1 out body = some (fl, env2, out ++ y a) ∧ Inv env2) :
    ∀ env out, Inv env → ∃ env', loop (stepOf pat body) (env, out) (l.map mk) = some (env', out ++ l.flatMap y) ∧ Inv env' := by
  induction l with
  | nil => intro env out hinv; exact ⟨env, by simp [loop], hinv⟩
  | cons a t ih =>
    intro env out hinv
    obtain ⟨env1, hb, fl, env2, hx, hinv2⟩ := hstep env out a List.mem_cons_self hinv
    obtain ⟨env', hl, hinv'⟩ := ih (fun env out b hb => hstep env out b (List.mem_cons_of_mem _ hb)) env2 (out ++ y a) hinv2
    refine ⟨env', ?_, hinv'⟩
    have hs : stepOf pat body (env, out) (mk a) = some (env2, out ++ y a) := by
      simp only [stepOf, hb, hx]
    simp only [List.map_cons, loop, hs, hl, List.flatMap_cons, List.append_assoc]

theorem flatMap_single {α β : Type} (l : List α) (z : α → β) : l.flatMap (fun a => [z a]) = l.map z := by
  induction l with
  | nil => rfl
  | cons a t ih => simp [List.flatMap_cons, ih]

theorem flatMap_ite {α β : Type} (l : List α) (p : α → Bool) (z : α → β) :
    l.flatMap (fun a => if p a then [z a] else []) = (l.filter p).map z := by
  induction l with
  | nil => rfl
  | cons a t ih =>
    simp only [List.flatMap_cons, ih, List.filter_cons]
    cases p a <;> simp

/-- the `for` statement over an evaluated iterable. -/
theorem forResult_collect {α : Type} (pat : Term) (body : List Term) (mk : α → Val) (Inv : Env → Prop) (y : α → Frame)
    (l : List α)
    (hstep : ∀ env out a, a ∈ l → Inv env → ∃ env1, bindPat env pat (mk a) = some env1 ∧
      ∃ fl env2, execBlock env1 out body = some (fl, env2, out ++ y a) ∧ Inv env2)
    (env : Env) (out : Frame) (hinv : Inv env) :
    ∃ env', forResult pat body env out (some (l.map mk)) = some (.next, env', out ++ l.flatMap y) ∧ Inv env' := by
  obtain ⟨env', hl, hinv'⟩ := loop_collect pat body mk Inv y l hstep env out hinv
  exact ⟨env', by simp only [forResult, hl], hinv'⟩

theorem execStmt_for_items (env : Env) (out : Frame) (pat a : Term) (body : List Term) :
    execStmt env out (.app "for" [pat, .app ".items" [a], .app "block" body]) =
      forResult pat body env out (match evalExpr env (.app ".items" [a]) with | some v => itemsOf v | none => none) := rfl

theorem execStmt_for_colnames (env : Env) (out : Frame) (pat a : Term) (body : List Term) :
    execStmt env out (.app "for" [pat, .app ".colnames" [a], .app "block" body]) =
      forResult pat body env out (match evalExpr env (.app ".colnames" [a]) with | some v => itemsOf v | none => none) := rfl

theorem execStmt_for_sym (env : Env) (out : Frame) (pat : Term) (x : String) (body : List Term) :
    execStmt env out (.app "for" [pat, .sym x, .app "block" body]) =
      forResult pat body env out (match evalExpr env (.sym x) with | some v => itemsOf v | none => none) := rfl

theorem execStmt_for_enumerate (env : Env) (out : Frame) (pat e : Term) (body : List Term) :
    execStmt env out (.app "for" [pat, .app "enumerate" [e], .app "block" body]) =
      forResult pat body env out (match evalExpr env e with | some v => (itemsOf v).map enumerate | none => none) := rfl

theorem execStmt_for_genexp (env : Env) (out : Frame) (pat elem p src : Term) (body : List Term) :
    execStmt env out (.app "for" [pat, .app "GeneratorExp" [elem, .app "in" [p, src, .app "if" []]], .app "block" body]) =
      forResult pat body env out (match evalExpr env src with
        | none => none
        | some s => match itemsOf s with
          | none => none
          | some xs => allSome (xs.map (fun x => match bindPat env p x with
              | none => none
              | some env' => evalExpr env' elem))) := rfl

/-! ### `self`, its columns -/

/-- every column has `nrow` cells (what `_check_dimensions` enforces). -/
def Rect (f : Frame) : Prop := ∀ p ∈ f, p.2.length = nrow f

instance (f : Frame) : Decidable (Rect f) := by unfold Rect; infer_instance

/-- `self[name]`, total. -/
def colOf (f : Frame) (n : String) : List Cell := (colOf? f n).getD []

theorem eval_self {e0 e : Env} {vars : List String} {self : Frame} (hs : Stable vars e0 e) (hv : "self" ∉ vars)
    (hself : Env.get? e0 "self" = some (.frame self)) : evalExpr e (.sym "self") = some (.frame self) := by
  rw [evalExpr_sym e "self" (by decide) (by decide) (by decide), hs "self" hv, hself]

/-! ### `for colname, column in self.items(): yield colname, g(column)` -/

def lvCol : List String := ["colname", "column"]

theorem stable_col {e0 e : Env} (h : Stable lvCol e0 e) (n : String) (c : List Cell) :
    Stable lvCol e0 (("column", .col c) :: ("colname", .str n) :: e) :=
  (h.push (by decide) _).push (by decide) _

/-- **every column goes through the same expression**: if `g(column)` evaluates to `h column` for every column of the
    receiver, the loop yields `(name, h column)` for every column, in dict order. -/
theorem exec_perColumn (g : Term → Term) (h : List Cell → List Cell) (e0 : Env) (self : Frame)
    (hself : Env.get? e0 "self" = some (.frame self))
    (hg : ∀ e p, p ∈ self → Stable lvCol e0 e →
      evalExpr (("column", .col p.2) :: ("colname", .str p.1) :: e) (g (.sym "column")) = some (.col (h p.2)))
    (env : Env) (out : Frame) (hs : Stable lvCol e0 env) :
    ∃ env', execStmt env out (perColumn g) = some (.next, env', out ++ self.map (fun p => (p.1, h p.2))) ∧
      Stable lvCol e0 env' := by
  have hitems : evalExpr env (.app ".items" [.sym "self"]) = some (.items (.frame self)) := by
    rw [evalPrim (by decide) (evalArgs1 (eval_self hs (by decide) hself))]; rfl
  unfold perColumn
  rw [execStmt_for_items, hitems]
  have := forResult_collect (.app "tuple" [.sym "colname", .sym "column"])
    [.app "yield" [.app "tuple" [.sym "colname", g (.sym "column")]]]
    (fun (p : String × List Cell) => Val.pair (.str p.1) (.col p.2)) (Stable lvCol e0) (fun p => [(p.1, h p.2)]) self
    (by
      intro env out p hp hinv
      refine ⟨("column", .col p.2) :: ("colname", .str p.1) :: env, rfl, .next, _, ?_, stable_col hinv p.1 p.2⟩
      have hn : evalExpr (("column", .col p.2) :: ("colname", .str p.1) :: env) (.sym "colname") = some (.str p.1) := rfl
      rw [execBlock_cons_next (execStmt_yield hn (hg env p hp hinv))]
      rfl) env out hs
  rw [flatMap_single] at this
  exact this

/-! ### filter / filter_out -/

/-- `self._parse_rows_from_boolean(cond)` for a mask with one entry per row: the positions of its true entries. -/
theorem eval_parse_boolean {e : Env} {self : Frame} {cond : Term} {m : List Bool}
    (hself : evalExpr e (.sym "self") = some (.frame self)) (hcond : evalExpr e cond = some (.mask m))
    (hm : m.length = nrow self) :
    evalExpr e (.app "._parse_rows_from_boolean" [.sym "self", cond]) =
      some (.ints ((nonzero m).map (fun (k : Nat) => (k : Int)))) := by
  rw [evalPrim (by decide) (evalArgs2 hself hcond)]
  show (if m.length = nrow self then _ else _) = _
  rw [if_pos hm]

/-- a mask of the wrong length is rejected (ValueError). -/
theorem eval_parse_boolean_bad {e : Env} {self : Frame} {cond : Term} {m : List Bool}
    (hself : evalExpr e (.sym "self") = some (.frame self)) (hcond : evalExpr e cond = some (.mask m))
    (hm : m.length ≠ nrow self) :
    evalExpr e (.app "._parse_rows_from_boolean" [.sym "self", cond]) = none := by
  rw [evalPrim (by decide) (evalArgs2 hself hcond)]
  show (if m.length = nrow self then _ else _) = _
  rw [if_neg hm]

theorem nonzero_lt {m : List Bool} {k : Nat} (h : k ∈ nonzero m) : k < m.length := (mem_nonzero.mp h).1

/-- the generator loop of `filter`: every column gathered at `filterIdx mask`. -/
theorem exec_filter_take (cond : Term) (m : List Bool) (e0 : Env) (self : Frame)
    (hself : Env.get? e0 "self" = some (.frame self)) (hrect : Rect self) (hm : m.length = nrow self)
    (hcond : ∀ e, Stable lvCol e0 e → evalExpr e cond = some (.mask m))
    (env : Env) (out : Frame) (hs : Stable lvCol e0 env) :
    ∃ env', execStmt env out
        (perColumn (fun c => .app "np.take" [c, .app "._parse_rows_from_boolean" [.sym "self", cond]])) =
      some (.next, env', out ++ self.map (fun p => (p.1, gather p.2 (filterIdx m)))) ∧ Stable lvCol e0 env' := by
  apply exec_perColumn _ (fun c => gather c (filterIdx m)) e0 self hself _ env out hs
  intro e p hp hst
  have hst1 := stable_col hst p.1 p.2
  have hcol : evalExpr (("column", .col p.2) :: ("colname", .str p.1) :: e) (.sym "column") = some (.col p.2) := rfl
  have hrows := eval_parse_boolean (eval_self hst1 (by decide) hself) (hcond _ hst1) hm
  rw [evalPrim (by decide) (evalArgs2 hcol hrows)]
  show (npTake p.2 _).map Val.col = _
  rw [npTake_nat p.2 (nonzero m) (fun k hk => by rw [hrect p hp, ← hm]; exact nonzero_lt hk)]
  rfl

/-- the generator loop of `filter_out`: every column gathered at `filterOutIdx mask`. -/
theorem exec_filter_delete (cond : Term) (m : List Bool) (e0 : Env) (self : Frame)
    (hself : Env.get? e0 "self" = some (.frame self)) (hrect : Rect self) (hm : m.length = nrow self)
    (hcond : ∀ e, Stable lvCol e0 e → evalExpr e cond = some (.mask m))
    (env : Env) (out : Frame) (hs : Stable lvCol e0 env) :
    ∃ env', execStmt env out
        (perColumn (fun c => .app "np.delete" [c, .app "._parse_rows_from_boolean" [.sym "self", cond]])) =
      some (.next, env', out ++ self.map (fun p => (p.1, gather p.2 (filterOutIdx m)))) ∧ Stable lvCol e0 env' := by
  have := exec_perColumn (fun c => .app "np.delete" [c, .app "._parse_rows_from_boolean" [.sym "self", cond]])
    (fun c => gather c (deleteIdx c.length (nonzero m))) e0 self hself (by
      intro e p hp hst
      have hst1 := stable_col hst p.1 p.2
      have hcol : evalExpr (("column", .col p.2) :: ("colname", .str p.1) :: e) (.sym "column") = some (.col p.2) := rfl
      have hrows := eval_parse_boolean (eval_self hst1 (by decide) hself) (hcond _ hst1) hm
      rw [evalPrim (by decide) (evalArgs2 hcol hrows)]
      show (npDelete p.2 _).map Val.col = _
      rw [npDelete_nat p.2 (nonzero m) (fun k hk => by rw [hrect p hp, ← hm]; exact nonzero_lt hk)]
      rfl) env out hs
  have e : self.map (fun p => (p.1, gather p.2 (deleteIdx p.2.length (nonzero m)))) =
      self.map (fun p => (p.1, gather p.2 (filterOutIdx m))) := by
    apply List.map_congr_left
    intro p hp
    rw [hrect p hp, ← hm]; rfl
  rw [e] at this
  exact this

/-- a generator body made of one loop statement. -/
theorem runBody_single {env env' : Env} {s : Term} {out : Frame}
    (h : execStmt env [] s = some (.next, env', out)) : runBody env (.fall [s]) = some out := by
  simp only [runBody, execBlock_cons_next h, execBlock_nil]

theorem runBody_single_none {env : Env} {s : Term} (h : execStmt env [] s = none) : runBody env (.fall [s]) = none := by
  simp only [runBody, execBlock, h]

/-! ### the three forms of the condition -/

/-- the mask form: `rows` is the mask. -/
theorem cond_mask {e0 : Env} {m : List Bool} (hrows : Env.get? e0 "rows" = some (.mask m)) :
    ∀ e, Stable lvCol e0 e → evalExpr e (.sym "rows") = some (.mask m) := by
  intro e hst
  rw [evalExpr_sym e "rows" (by decide) (by decide) (by decide), hst "rows" (by decide), hrows]

/-- the callable form: `rows(self)`, the callable applied ONCE to the whole receiver. -/
theorem cond_callable {e0 : Env} {self : Frame} {g : Frame → List Bool}
    (hself : Env.get? e0 "self" = some (.frame self)) (hrows : Env.get? e0 "rows" = some (.fn g)) :
    ∀ e, Stable lvCol e0 e → evalExpr e (.app "rows" [.sym "self"]) = some (.mask (g self)) := by
  intro e hst
  rw [evalExpr_call e "rows" _ _ (by decide) (by decide) (by decide) (by decide)
    (evalArgs1 (eval_self hst (by decide) hself))]
  simp only [callVar, hst "rows" (by decide), hrows]

/-! ### lookups -/

theorem colOf?_cons (p : String × List Cell) (f : Frame) (n : String) :
    colOf? (p :: f) n = if p.1 == n then some p.2 else colOf? f n := by
  unfold colOf?
  rw [List.find?_cons]
  cases p.1 == n <;> rfl

/-- with distinct column names, `self[name]` of the name at some position is the column at that position. -/
theorem colOf?_of_mem {f : Frame} (hnd : (names f).Nodup) {p : String × List Cell} (hp : p ∈ f) :
    colOf? f p.1 = some p.2 := by
  induction f with
  | nil => cases hp
  | cons q t ih =>
    rw [colOf?_cons]
    simp only [names, List.map_cons, List.nodup_cons] at hnd
    rcases List.mem_cons.mp hp with rfl | hp'
    · simp
    · have hne : (q.1 == p.1) = false := by
        cases hq : q.1 == p.1
        · rfl
        · exact absurd (List.mem_map.mpr ⟨p, hp', (beq_iff_eq.mp hq).symm⟩) hnd.1
      rw [hne]
      exact ih hnd.2 hp'

theorem colOf_of_mem {f : Frame} (hnd : (names f).Nodup) {p : String × List Cell} (hp : p ∈ f) :
    colOf f p.1 = p.2 := by
  unfold colOf; rw [colOf?_of_mem hnd hp]; rfl

/-- a present name has a column (no KeyError). -/
theorem colOf?_of_name {f : Frame} {n : String} (h : n ∈ names f) : colOf? f n = some (colOf f n) := by
  induction f with
  | nil => cases h
  | cons q t ih =>
    unfold colOf
    rw [colOf?_cons]
    cases hq : q.1 == n
    · simp only [Bool.false_eq_true, if_false]
      have : n ∈ names t := by
        simp only [names, List.map_cons, List.mem_cons] at h
        rcases h with h | h
        · rw [h] at hq; simp at hq
        · exact h
      have := ih this
      rw [this]; rfl
    · rfl

/-- an absent name is a KeyError. -/
theorem colOf?_none {f : Frame} {n : String} (h : n ∉ names f) : colOf? f n = none := by
  unfold colOf?
  have : f.find? (fun p => p.1 == n) = none := by
    rw [List.find?_eq_none]
    intro p hp hpn
    exact h (List.mem_map.mpr ⟨p, hp, beq_iff_eq.mp hpn⟩)
  rw [this]; rfl

theorem eval_getitem_self {e : Env} {self : Frame} {t : Term} {n : String}
    (hself : evalExpr e (.sym "self") = some (.frame self)) (ht : evalExpr e t = some (.str n)) :
    evalExpr e (.app "getitem" [.sym "self", t]) = (colOf? self n).map Val.col := by
  rw [evalPrim (by decide) (evalArgs2 hself ht)]; rfl

/-- `self[name].copy()`. -/
theorem eval_ownCopy {e : Env} {self : Frame} {t : Term} {n : String} {c : List Cell}
    (hself : evalExpr e (.sym "self") = some (.frame self)) (ht : evalExpr e t = some (.str n))
    (hc : colOf? self n = some c) :
    evalExpr e (.app ".copy" [.app "getitem" [.sym "self", t]]) = some (.col c) := by
  have h1 : evalExpr e (.app "getitem" [.sym "self", t]) = some (.col c) := by
    rw [eval_getitem_self hself ht, hc]; rfl
  rw [evalPrim (by decide) (evalArgs1 h1)]; rfl

theorem eval_ownCopy_none {e : Env} {self : Frame} {t : Term} {n : String}
    (hself : evalExpr e (.sym "self") = some (.frame self)) (ht : evalExpr e t = some (.str n))
    (hc : colOf? self n = none) :
    evalExpr e (.app ".copy" [.app "getitem" [.sym "self", t]]) = none := by
  have h1 : evalExpr e (.app "getitem" [.sym "self", t]) = none := by
    rw [eval_getitem_self hself ht, hc]; rfl
  have : evalArgs e [.app "getitem" [.sym "self", t]] = none := by rw [evalArgs, h1]
  exact evalExpr_args_none e ".copy" _ (by decide) (by decide) (by decide) this

theorem eval_colnames {e : Env} {self : Frame} (hself : evalExpr e (.sym "self") = some (.frame self)) :
    evalExpr e (.app ".colnames" [.sym "self"]) = some (.strs (names self)) := by
  rw [evalPrim (by decide) (evalArgs1 hself)]; rfl

/-! ### failing loops -/

/-- a loop fails (raises) at the first item whose iteration fails. -/
theorem loop_fail {α : Type} (pat : Term) (body : List Term) (mk : α → Val) (Inv : Env → Prop) (y : α → Frame)
    (l1 : List α) (a : α) (l2 : List α)
    (hstep : ∀ env out b, b ∈ l1 → Inv env → ∃ env1, bindPat env pat (mk b) = some env1 ∧
      ∃ fl env2, execBlock env1 out body = some (fl, env2, out ++ y b) ∧ Inv env2)
    (hfail : ∀ env out, Inv env → stepOf pat body (env, out) (mk a) = none) :
    ∀ env out, Inv env → loop (stepOf pat body) (env, out) ((l1 ++ a :: l2).map mk) = none := by
  induction l1 with
  | nil => intro env out hinv; simp only [List.nil_append, List.map_cons, loop, hfail env out hinv]
  | cons b t ih =>
    intro env out hinv
    obtain ⟨env1, hb, fl, env2, hx, hinv2⟩ := hstep env out b List.mem_cons_self hinv
    have hs : stepOf pat body (env, out) (mk b) = some (env2, out ++ y b) := by
      simp only [stepOf, hb, hx]
    simp only [List.cons_append, List.map_cons, loop, hs]
    exact ih (fun env out c hc => hstep env out c (List.mem_cons_of_mem _ hc)) env2 _ hinv2

theorem exists_first_not {α : Type} (p : α → Prop) [DecidablePred p] (l : List α) (h : ∃ x ∈ l, ¬ p x) :
    ∃ l1 a l2, l = l1 ++ a :: l2 ∧ (∀ b ∈ l1, p b) ∧ ¬ p a := by
  induction l with
  | nil => obtain ⟨x, hx, _⟩ := h; cases hx
  | cons c t ih =>
    by_cases hc : p c
    · obtain ⟨x, hx, hpx⟩ := h
      have : ∃ x ∈ t, ¬ p x := by
        rcases List.mem_cons.mp hx with rfl | hx'
        · exact absurd hc hpx
        · exact ⟨x, hx', hpx⟩
      obtain ⟨l1, a, l2, e, h1, h2⟩ := ih this
      refine ⟨c :: l1, a, l2, by rw [e]; rfl, ?_, h2⟩
      intro b hb
      rcases List.mem_cons.mp hb with rfl | hb'
      · exact hc
      · exact h1 b hb'
    · exact ⟨[], c, t, rfl, (fun _ hb => nomatch hb), hc⟩

/-! ### select -/

def selectLoop : Term :=
  .app "for" [.sym "colname", .sym "colnames", .app "block" [.app "yield" [.app "tuple" [.sym "colname",
    .app ".copy" [.app "getitem" [.sym "self", .sym "colname"]]]]]]

def lvName : List String := ["colname"]

theorem select_step {e0 env : Env} {self : Frame} (hself : Env.get? e0 "self" = some (.frame self))
    (out : Frame) (c : String) (hc : c ∈ names self) (hinv : Stable lvName e0 env) :
    ∃ env1, bindPat env (.sym "colname") (Val.str c) = some env1 ∧
      ∃ fl env2, execBlock env1 out [.app "yield" [.app "tuple" [.sym "colname",
        .app ".copy" [.app "getitem" [.sym "self", .sym "colname"]]]]] = some (fl, env2, out ++ [(c, colOf self c)]) ∧
        Stable lvName e0 env2 := by
  have hst1 : Stable lvName e0 (("colname", Val.str c) :: env) := hinv.push (by decide) _
  refine ⟨("colname", .str c) :: env, rfl, .next, _, ?_, hst1⟩
  have hn : evalExpr (("colname", .str c) :: env) (.sym "colname") = some (.str c) := rfl
  rw [execBlock_cons_next (execStmt_yield hn
    (eval_ownCopy (eval_self hst1 (by decide) hself) hn (colOf?_of_name hc)))]
  rfl

/-- `for colname in colnames: yield colname, self[colname].copy()`: the requested names, in the requested order, each
    with the receiver's whole column. -/
theorem exec_select (e0 : Env) (self : Frame) (cols : List String)
    (hself : Env.get? e0 "self" = some (.frame self)) (hcols : Env.get? e0 "colnames" = some (.strs cols))
    (hall : ∀ c ∈ cols, c ∈ names self) :
    ∃ env', execStmt e0 [] selectLoop = some (.next, env', cols.map (fun c => (c, colOf self c))) := by
  have hit : evalExpr e0 (.sym "colnames") = some (.strs cols) := by
    rw [evalExpr_sym e0 "colnames" (by decide) (by decide) (by decide), hcols]
  unfold selectLoop
  rw [execStmt_for_sym, hit]
  obtain ⟨env', h, _⟩ := forResult_collect (.sym "colname") _ Val.str (Stable lvName e0)
    (fun c => [(c, colOf self c)]) cols
    (fun env out c hc hinv => select_step hself out c (hall c hc) hinv) e0 [] (Stable.refl _ _)
  rw [flatMap_single] at h
  exact ⟨env', h⟩

/-- a requested name that is not a column is a KeyError. -/
theorem exec_select_missing (e0 : Env) (self : Frame) (cols : List String)
    (hself : Env.get? e0 "self" = some (.frame self)) (hcols : Env.get? e0 "colnames" = some (.strs cols))
    (hmiss : ∃ c ∈ cols, c ∉ names self) : execStmt e0 [] selectLoop = none := by
  have hit : evalExpr e0 (.sym "colnames") = some (.strs cols) := by
    rw [evalExpr_sym e0 "colnames" (by decide) (by decide) (by decide), hcols]
  obtain ⟨l1, a, l2, e, h1, h2⟩ := exists_first_not (fun c => c ∈ names self) cols hmiss
  unfold selectLoop
  rw [execStmt_for_sym, hit]
  have := loop_fail (.sym "colname") [.app "yield" [.app "tuple" [.sym "colname",
      .app ".copy" [.app "getitem" [.sym "self", .sym "colname"]]]]] Val.str (Stable lvName e0)
    (fun c => [(c, colOf self c)]) l1 a l2
    (fun env out c hc hinv => select_step hself out c (h1 c hc) hinv)
    (by
      intro env out hinv
      have hst1 : Stable lvName e0 (("colname", Val.str a) :: env) := hinv.push (by decide) _
      have hn : evalExpr (("colname", .str a) :: env) (.sym "colname") = some (.str a) := rfl
      have hb : bindPat env (.sym "colname") (Val.str a) = some (("colname", .str a) :: env) := rfl
      have hy : execStmt (("colname", .str a) :: env) out (.app "yield" [.app "tuple" [.sym "colname",
          .app ".copy" [.app "getitem" [.sym "self", .sym "colname"]]]]) = none := by
        rw [execStmt_yield_eq, hn, eval_ownCopy_none (eval_self hst1 (by decide) hself) hn (colOf?_none h2)]
      simp only [stepOf, hb, execBlock, hy]) e0 [] (Stable.refl _ _)
  show forResult _ _ e0 [] (some (cols.map Val.str)) = none
  rw [e]
  simp only [forResult, this]

/-! ### unselect -/

def unselectLoop : Term :=
  .app "for" [.sym "colname", .app ".colnames" [.sym "self"],
    .app "block" [.app "if" [.app "NotIn" [.sym "colname", .sym "colnames"],
      .app "block" [.app "yield" [.app "tuple" [.sym "colname", .app ".copy" [.app "getitem" [.sym "self", .sym "colname"]]]]],
      .app "block" []]]]

/-- `for colname in self.colnames: if colname not in colnames: yield colname, self[colname].copy()`: the receiver's
    columns in their order, minus the named ones, whole. -/
theorem exec_unselect (e0 : Env) (self : Frame) (cols : List String)
    (hself : Env.get? e0 "self" = some (.frame self)) (hcols : Env.get? e0 "colnames" = some (.strs cols))
    (hnd : (names self).Nodup) :
    ∃ env', execStmt e0 [] unselectLoop = some (.next, env', self.filter (fun p => !cols.contains p.1)) := by
  have hit : evalExpr e0 (.app ".colnames" [.sym "self"]) = some (.strs (names self)) :=
    eval_colnames (eval_self (Stable.refl lvName e0) (by decide) hself)
  unfold unselectLoop
  rw [execStmt_for_colnames, hit]
  show ∃ env', forResult _ _ e0 [] (some ((names self).map Val.str)) = _
  have hm : (names self).map Val.str = self.map (fun p => Val.str p.1) := by simp [names, List.map_map]
  rw [hm]
  obtain ⟨env', h, _⟩ := forResult_collect (.sym "colname")
    [.app "if" [.app "NotIn" [.sym "colname", .sym "colnames"],
      .app "block" [.app "yield" [.app "tuple" [.sym "colname", .app ".copy" [.app "getitem" [.sym "self", .sym "colname"]]]]],
      .app "block" []]]
    (fun (p : String × List Cell) => Val.str p.1)
    (Stable lvName e0) (fun p => if (fun p : String × List Cell => !cols.contains p.1) p then [id p] else []) self
    (by
      intro env out p hp hinv
      have hst1 : Stable lvName e0 (("colname", Val.str p.1) :: env) := hinv.push (by decide) _
      refine ⟨("colname", .str p.1) :: env, rfl, .next, _, ?_, hst1⟩
      have hn : evalExpr (("colname", .str p.1) :: env) (.sym "colname") = some (.str p.1) := rfl
      have hcn : evalExpr (("colname", .str p.1) :: env) (.sym "colnames") = some (.strs cols) := by
        rw [evalExpr_sym _ "colnames" (by decide) (by decide) (by decide), hst1 "colnames" (by decide), hcols]
      have htest : evalExpr (("colname", .str p.1) :: env) (.app "NotIn" [.sym "colname", .sym "colnames"]) =
          some (.bool (!cols.contains p.1)) := by
        rw [evalPrim (by decide) (evalArgs2 hn hcn)]; rfl
      have hif : execStmt (("colname", .str p.1) :: env) out
          (.app "if" [.app "NotIn" [.sym "colname", .sym "colnames"],
            .app "block" [.app "yield" [.app "tuple" [.sym "colname", .app ".copy" [.app "getitem" [.sym "self", .sym "colname"]]]]],
            .app "block" []]) =
          some (.next, ("colname", .str p.1) :: env, out ++ (if (!cols.contains p.1) = true then [id p] else [])) := by
        cases hb : cols.contains p.1
        · rw [hb] at htest
          rw [execStmt_if_true htest,
            execBlock_cons_next (execStmt_yield hn (eval_ownCopy (eval_self hst1 (by decide) hself) hn
              (colOf?_of_mem hnd hp)))]
          simp [execBlock_nil]
        · rw [hb] at htest
          rw [execStmt_if_false htest]
          simp [execBlock_nil]
      rw [execBlock_cons_next hif]
      rfl) e0 [] (Stable.refl _ _)
  rw [flatMap_ite, List.map_id, List.nil_append] at h
  exact ⟨env', h⟩

/-! ### rename -/

theorem loop_total {σ α : Type} (step : σ → Val → Option σ) (mk : α → Val) (g : σ → α → σ) (l : List α)
    (h : ∀ s a, a ∈ l → step s (mk a) = some (g s a)) : ∀ s, loop step s (l.map mk) = some (l.foldl g s) := by
  induction l with
  | nil => intro s; rfl
  | cons a t ih =>
    intro s
    simp only [List.map_cons, loop, h s a List.mem_cons_self, List.foldl_cons]
    exact ih (fun s b hb => h s b (List.mem_cons_of_mem _ hb)) _

/-- `{v: k for k, v in to_from_pairs.items()}`. -/
def fromToTerm : Term :=
  .app "DictComp" [.app "pair" [.sym "v", .sym "k"],
    .app "in" [.app "tuple" [.sym "k", .sym "v"], .app ".items" [.sym "to_from_pairs"], .app "if" []]]

def renameLoop : Term :=
  .app "for" [.sym "fm", .app ".colnames" [.sym "self"],
    .app "block" [.app "assign" [.sym "to", .app ".get" [fromToTerm, .sym "fm", .sym "fm"]],
      .app "yield" [.app "tuple" [.sym "to", .app ".copy" [.app "getitem" [.sym "self", .sym "fm"]]]]]]

/-- the inverted pairs: `from → to`, all pairs entered one after the other into one dict (a repeated `from` keeps its
    position and takes the later `to`). -/
def fromTo (tf : List (String × String)) : List (String × String) := tf.foldl (fun d p => dictInsert d p.2 p.1) []

/-- `from_to_pairs.get(c, c)`. -/
def renameName (tf : List (String × String)) (c : String) : String :=
  (((fromTo tf).find? (fun q => q.1 == c)).map (·.2)).getD c

theorem evalExpr_dictcomp (e : Env) (ke ve pat src : Term) :
    evalExpr e (.app "DictComp" [.app "pair" [ke, ve], .app "in" [pat, src, .app "if" []]]) =
      (match evalExpr e src with
       | none => none
       | some s => match itemsOf s with
         | none => none
         | some its =>
           (loop (fun d it => match bindPat e pat it with
             | none => none
             | some env' => match evalExpr env' ke, evalExpr env' ve with
               | some (.str k), some (.str v) => some (dictInsert d k v)
               | _, _ => none) [] its).map Val.sdict) := rfl

theorem eval_fromTo {e : Env} {tf : List (String × String)} (h : Env.get? e "to_from_pairs" = some (.sdict tf)) :
    evalExpr e fromToTerm = some (.sdict (fromTo tf)) := by
  have hsrc : evalExpr e (.app ".items" [.sym "to_from_pairs"]) = some (.items (.sdict tf)) := by
    have : evalExpr e (.sym "to_from_pairs") = some (.sdict tf) := by
      rw [evalExpr_sym e _ (by decide) (by decide) (by decide), h]
    rw [evalPrim (by decide) (evalArgs1 this)]; rfl
  unfold fromToTerm
  rw [evalExpr_dictcomp, hsrc]
  show (loop _ [] (tf.map (fun p => Val.pair (.str p.1) (.str p.2)))).map Val.sdict = _
  rw [loop_total _ (fun (p : String × String) => Val.pair (.str p.1) (.str p.2))
    (fun d p => dictInsert d p.2 p.1) tf (fun d p _ => rfl)]
  rfl

theorem dictGet_self (d : List (String × String)) (c : String) :
    dictGet d c (.str c) = .str (((d.find? (fun q => q.1 == c)).map (·.2)).getD c) := by
  unfold dictGet
  cases d.find? (fun q => q.1 == c) <;> rfl

def lvRename : List String := ["fm", "to"]

/-- `for fm in self.colnames: to = from_to.get(fm, fm); yield to, self[fm].copy()`: the receiver's columns, whole and in
    their order, each under `from_to.get(name, name)`. -/
theorem exec_rename (e0 : Env) (self : Frame) (tf : List (String × String))
    (hself : Env.get? e0 "self" = some (.frame self)) (htf : Env.get? e0 "to_from_pairs" = some (.sdict tf))
    (hnd : (names self).Nodup) :
    ∃ env', execStmt e0 [] renameLoop = some (.next, env', self.map (fun p => (renameName tf p.1, p.2))) := by
  have hit : evalExpr e0 (.app ".colnames" [.sym "self"]) = some (.strs (names self)) :=
    eval_colnames (eval_self (Stable.refl lvRename e0) (by decide) hself)
  unfold renameLoop
  rw [execStmt_for_colnames, hit]
  show ∃ env', forResult _ _ e0 [] (some ((names self).map Val.str)) = _
  have hm : (names self).map Val.str = self.map (fun p => Val.str p.1) := by simp [names, List.map_map]
  rw [hm]
  obtain ⟨env', h, _⟩ := forResult_collect (.sym "fm")
    [.app "assign" [.sym "to", .app ".get" [fromToTerm, .sym "fm", .sym "fm"]],
      .app "yield" [.app "tuple" [.sym "to", .app ".copy" [.app "getitem" [.sym "self", .sym "fm"]]]]]
    (fun (p : String × List Cell) => Val.str p.1)
    (Stable lvRename e0) (fun p => [(renameName tf p.1, p.2)]) self
    (by
      intro env out p hp hinv
      have hst1 : Stable lvRename e0 (("fm", Val.str p.1) :: env) := hinv.push (by decide) _
      have hst2 : Stable lvRename e0 (("to", Val.str (renameName tf p.1)) :: ("fm", Val.str p.1) :: env) :=
        hst1.push (by decide) _
      refine ⟨("fm", .str p.1) :: env, rfl, .next, _, ?_, hst2⟩
      have hfm : evalExpr (("fm", .str p.1) :: env) (.sym "fm") = some (.str p.1) := rfl
      have hd := eval_fromTo (e := ("fm", .str p.1) :: env) (tf := tf)
        (by rw [hst1 "to_from_pairs" (by decide), htf])
      have hget : evalExpr (("fm", .str p.1) :: env) (.app ".get" [fromToTerm, .sym "fm", .sym "fm"]) =
          some (.str (renameName tf p.1)) := by
        rw [evalPrim (by decide) (evalArgs3 hd hfm hfm)]
        show some (dictGet _ _ _) = _
        rw [dictGet_self]; rfl
      have hto : evalExpr (("to", Val.str (renameName tf p.1)) :: ("fm", Val.str p.1) :: env) (.sym "to") =
          some (.str (renameName tf p.1)) := rfl
      have hfm2 : evalExpr (("to", Val.str (renameName tf p.1)) :: ("fm", Val.str p.1) :: env) (.sym "fm") =
          some (.str p.1) := rfl
      rw [execBlock_cons_next (execStmt_assign hget),
        execBlock_cons_next (execStmt_yield hto (eval_ownCopy (eval_self hst2 (by decide) hself) hfm2
          (colOf?_of_mem hnd hp)))]
      rfl) e0 [] (Stable.refl _ _)
  rw [flatMap_single, List.nil_append] at h
  exact ⟨env', h⟩

/-! ### slice -/

def parseRowsInt (ra : Term) : Term := .app "._parse_rows_from_integer" [.sym "self", ra]
def parseColsInt (ca : Term) : Term := .app "._parse_cols_from_integer" [.sym "self", ca]

def sliceLoop (ra ca : Term) : Term :=
  .app "for" [.sym "colname",
    .app "GeneratorExp" [.app "getitem" [.app ".colnames" [.sym "self"], .sym "x"],
      .app "in" [.sym "x", parseColsInt ca, .app "if" []]],
    .app "block" [.app "yield" [.app "tuple" [.sym "colname",
      .app ".copy" [.app "getitem" [.app "getitem" [.sym "self", .sym "colname"], parseRowsInt ra]]]]]]

def lvSlice : List String := ["colname", "x"]

theorem eval_parse_int {e : Env} {self : Frame} {f : String} {a : Term} {l : List Int}
    (hf : f = "._parse_rows_from_integer" ∨ f = "._parse_cols_from_integer")
    (hself : evalExpr e (.sym "self") = some (.frame self)) (ha : evalExpr e a = some (.ints l)) :
    evalExpr e (.app f [.sym "self", a]) = some (.ints l) := by
  rcases hf with rfl | rfl
  · rw [evalPrim (by decide) (evalArgs2 hself ha)]; rfl
  · rw [evalPrim (by decide) (evalArgs2 hself ha)]; rfl

theorem names_length (self : Frame) : (names self).length = ncol self := by simp [names, ncol]

theorem names_get (self : Frame) (j : Nat) (h : j < ncol self) : (names self)[j]! = (self[j]!).1 := by
  unfold ncol at h
  have h' : j < (names self).length := by rw [names_length]; exact h
  rw [getElem!_pos (names self) j h', getElem!_pos self j h]
  simp [names]

theorem getElem!_mem {α : Type} [Inhabited α] (l : List α) (j : Nat) (h : j < l.length) : l[j]! ∈ l := by
  rw [getElem!_pos l j h]; exact List.getElem_mem h

/-- the generator loop of `slice`: the columns at the requested positions (negative positions wrapped), in the requested
    order, every one read at the ONE row position list `sliceIdx nrow rows`. -/
theorem exec_slice (ra ca : Term) (rows cols : List Int) (e0 : Env) (self : Frame)
    (hself : Env.get? e0 "self" = some (.frame self))
    (hra : ∀ e, Stable lvSlice e0 e → evalExpr e ra = some (.ints rows))
    (hca : ∀ e, Stable lvSlice e0 e → evalExpr e ca = some (.ints cols))
    (hnd : (names self).Nodup) (hrect : Rect self)
    (hrows : ∀ r ∈ rows, InRange (nrow self) r) (hcols : ∀ c ∈ cols, InRange (ncol self) c) :
    ∃ env', execStmt e0 [] (sliceLoop ra ca) = some (.next, env',
      (sliceIdx (ncol self) cols).map (fun j => ((self[j]!).1, gather (self[j]!).2 (sliceIdx (nrow self) rows)))) := by
  have hs0 : evalExpr e0 (.sym "self") = some (.frame self) := eval_self (Stable.refl lvSlice e0) (by decide) hself
  have hsrc : evalExpr e0 (parseColsInt ca) = some (.ints cols) :=
    eval_parse_int (Or.inr rfl) hs0 (hca e0 (Stable.refl _ _))
  unfold sliceLoop
  rw [execStmt_for_genexp, hsrc]
  show ∃ env', forResult _ _ e0 [] (allSome ((cols.map Val.int).map _)) = _
  rw [List.map_map, allSome_map _ (fun i => Val.str (self[wrapIdx (ncol self) i]!).1) cols (by
    intro i hi
    have hst1 : Stable lvSlice e0 (("x", Val.int i) :: e0) := (Stable.refl _ _).push (by decide) _
    have hx : evalExpr (("x", Val.int i) :: e0) (.sym "x") = some (.int i) := rfl
    show evalExpr (("x", Val.int i) :: e0) (.app "getitem" [.app ".colnames" [.sym "self"], .sym "x"]) = _
    rw [evalPrim (by decide) (evalArgs2 (eval_colnames (eval_self hst1 (by decide) hself)) hx)]
    show (npTake (names self) [i]).bind _ = _
    have hr : InRange (names self).length i := by rw [names_length]; exact hcols i hi
    rw [npTake_spec (names self) [i] (by intro j hj; rw [List.mem_singleton.mp hj]; exact hr)]
    have hlt := wrapIdx_lt (hcols i hi)
    simp only [sliceIdx, gather, List.map_cons, List.map_nil, Option.bind_some, List.head?_cons, Option.map_some,
      names_length]
    rw [names_get self _ hlt])]
  obtain ⟨env', h, _⟩ := forResult_collect (.sym "colname")
    [.app "yield" [.app "tuple" [.sym "colname",
      .app ".copy" [.app "getitem" [.app "getitem" [.sym "self", .sym "colname"], parseRowsInt ra]]]]]
    (fun i => Val.str (self[wrapIdx (ncol self) i]!).1) (Stable lvSlice e0)
    (fun i => [((self[wrapIdx (ncol self) i]!).1, gather (self[wrapIdx (ncol self) i]!).2 (sliceIdx (nrow self) rows))]) cols
    (by
      intro env out i hi hinv
      have hlt : wrapIdx (ncol self) i < self.length := wrapIdx_lt (hcols i hi)
      have hp : self[wrapIdx (ncol self) i]! ∈ self := getElem!_mem self _ hlt
      generalize self[wrapIdx (ncol self) i]! = p at hp ⊢
      have hst1 : Stable lvSlice e0 (("colname", Val.str p.1) :: env) := hinv.push (by decide) _
      refine ⟨("colname", .str p.1) :: env, rfl, .next, _, ?_, hst1⟩
      have hn : evalExpr (("colname", .str p.1) :: env) (.sym "colname") = some (.str p.1) := rfl
      have hs1 := eval_self hst1 (by decide) hself
      have hcol : evalExpr (("colname", .str p.1) :: env) (.app "getitem" [.sym "self", .sym "colname"]) =
          some (.col p.2) := by
        rw [eval_getitem_self hs1 hn, colOf?_of_mem hnd hp]; rfl
      have hrw : evalExpr (("colname", .str p.1) :: env) (parseRowsInt ra) = some (.ints rows) :=
        eval_parse_int (Or.inl rfl) hs1 (hra _ hst1)
      have hget : evalExpr (("colname", .str p.1) :: env)
          (.app "getitem" [.app "getitem" [.sym "self", .sym "colname"], parseRowsInt ra]) =
          some (.col (gather p.2 (sliceIdx (nrow self) rows))) := by
        rw [evalPrim (by decide) (evalArgs2 hcol hrw)]
        show (npTake p.2 rows).map Val.col = _
        rw [npTake_spec p.2 rows (by rw [hrect p hp]; exact hrows), hrect p hp]; rfl
      have hcopy : evalExpr (("colname", .str p.1) :: env)
          (.app ".copy" [.app "getitem" [.app "getitem" [.sym "self", .sym "colname"], parseRowsInt ra]]) =
          some (.col (gather p.2 (sliceIdx (nrow self) rows))) := by
        rw [evalPrim (by decide) (evalArgs1 hget)]; rfl
      rw [execBlock_cons_next (execStmt_yield hn hcopy)]
      rfl) e0 [] (Stable.refl _ _)
  rw [flatMap_single, List.nil_append] at h
  refine ⟨env', ?_⟩
  rw [h]
  simp only [sliceIdx, List.map_map]
  rfl

/-! ### slice_off -/

def sliceOffLoop (ra ca : Term) : Term :=
  .app "for" [.app "tuple" [.sym "i", .sym "colname"], .app "enumerate" [.app ".colnames" [.sym "self"]],
    .app "block" [.app "if" [.app "In" [.sym "i", parseColsInt ca], .app "block" [.sym "continue"], .app "block" []],
      .app "yield" [.app "tuple" [.sym "colname",
        .app "np.delete" [.app "getitem" [.sym "self", .sym "colname"], parseRowsInt ra]]]]]

def lvOff : List String := ["i", "colname"]

theorem enumerate_names (self : Frame) :
    enumerate ((names self).map Val.str) =
      self.zipIdx.map (fun a => Val.pair (.int ((a.2 : Nat) : Int)) (.str a.1.1)) := by
  unfold enumerate names
  rw [List.map_map, List.zipIdx_map, List.map_map]
  rfl

/-- the generator loop of `slice_off`: every column whose position is not listed in `cols`, in dict order, each with the
    ONE list of row positions `rows` deleted (`sliceOffIdx`). -/
theorem exec_slice_off (ra ca : Term) (rows cols : List Int) (e0 : Env) (self : Frame)
    (hself : Env.get? e0 "self" = some (.frame self))
    (hra : ∀ e, Stable lvOff e0 e → evalExpr e ra = some (.ints rows))
    (hca : ∀ e, Stable lvOff e0 e → evalExpr e ca = some (.ints cols))
    (hnd : (names self).Nodup) (hrect : Rect self) (hrows : ∀ r ∈ rows, InRange (nrow self) r) :
    ∃ env', execStmt e0 [] (sliceOffLoop ra ca) = some (.next, env',
      (self.zipIdx.filter (fun a => !cols.contains ((a.2 : Nat) : Int))).map
        (fun a => (a.1.1, gather a.1.2 (sliceOffIdx (nrow self) rows)))) := by
  have hs0 : evalExpr e0 (.sym "self") = some (.frame self) := eval_self (Stable.refl lvOff e0) (by decide) hself
  unfold sliceOffLoop
  rw [execStmt_for_enumerate, eval_colnames hs0]
  show ∃ env', forResult _ _ e0 [] (some (enumerate ((names self).map Val.str))) = _
  rw [enumerate_names]
  obtain ⟨env', h, _⟩ := forResult_collect (.app "tuple" [.sym "i", .sym "colname"])
    [.app "if" [.app "In" [.sym "i", parseColsInt ca], .app "block" [.sym "continue"], .app "block" []],
      .app "yield" [.app "tuple" [.sym "colname",
        .app "np.delete" [.app "getitem" [.sym "self", .sym "colname"], parseRowsInt ra]]]]
    (fun (a : (String × List Cell) × Nat) => Val.pair (.int ((a.2 : Nat) : Int)) (.str a.1.1)) (Stable lvOff e0)
    (fun a => if (fun (a : (String × List Cell) × Nat) => !cols.contains ((a.2 : Nat) : Int)) a
      then [(fun (a : (String × List Cell) × Nat) => (a.1.1, gather a.1.2 (sliceOffIdx (nrow self) rows))) a] else [])
    self.zipIdx
    (by
      intro env out a ha hinv
      have hp : a.1 ∈ self := List.fst_mem_of_mem_zipIdx ha
      have hst1 : Stable lvOff e0 (("colname", Val.str a.1.1) :: ("i", Val.int ((a.2 : Nat) : Int)) :: env) :=
        (hinv.push (by decide) _).push (by decide) _
      refine ⟨("colname", Val.str a.1.1) :: ("i", Val.int ((a.2 : Nat) : Int)) :: env, rfl, ?_⟩
      have hn : evalExpr (("colname", Val.str a.1.1) :: ("i", Val.int ((a.2 : Nat) : Int)) :: env) (.sym "colname") =
          some (.str a.1.1) := rfl
      have hi : evalExpr (("colname", Val.str a.1.1) :: ("i", Val.int ((a.2 : Nat) : Int)) :: env) (.sym "i") =
          some (.int ((a.2 : Nat) : Int)) := rfl
      have hs1 := eval_self hst1 (by decide) hself
      have hcw := eval_parse_int (Or.inr rfl) hs1 (hca _ hst1)
      have htest : evalExpr (("colname", Val.str a.1.1) :: ("i", Val.int ((a.2 : Nat) : Int)) :: env)
          (.app "In" [.sym "i", parseColsInt ca]) = some (.bool (cols.contains ((a.2 : Nat) : Int))) := by
        unfold parseColsInt
        rw [evalPrim (by decide) (evalArgs2 hi hcw)]; rfl
      cases hb : cols.contains ((a.2 : Nat) : Int)
      · -- kept
        rw [hb] at htest
        refine ⟨.next, _, ?_, hst1⟩
        have hif : execStmt (("colname", Val.str a.1.1) :: ("i", Val.int ((a.2 : Nat) : Int)) :: env) out
            (.app "if" [.app "In" [.sym "i", parseColsInt ca], .app "block" [.sym "continue"], .app "block" []]) =
            some (.next, ("colname", Val.str a.1.1) :: ("i", Val.int ((a.2 : Nat) : Int)) :: env, out) := by
          rw [execStmt_if_false htest]; rfl
        have hcol : evalExpr (("colname", Val.str a.1.1) :: ("i", Val.int ((a.2 : Nat) : Int)) :: env)
            (.app "getitem" [.sym "self", .sym "colname"]) = some (.col a.1.2) := by
          rw [eval_getitem_self hs1 hn, colOf?_of_mem hnd hp]; rfl
        have hrw := eval_parse_int (Or.inl rfl) hs1 (hra _ hst1)
        have hdel : evalExpr (("colname", Val.str a.1.1) :: ("i", Val.int ((a.2 : Nat) : Int)) :: env)
            (.app "np.delete" [.app "getitem" [.sym "self", .sym "colname"], parseRowsInt ra]) =
            some (.col (gather a.1.2 (sliceOffIdx (nrow self) rows))) := by
          unfold parseRowsInt
          rw [evalPrim (by decide) (evalArgs2 hcol hrw)]
          show (npDelete a.1.2 rows).map Val.col = _
          rw [npDelete_spec a.1.2 rows (by rw [hrect _ hp]; exact hrows), hrect _ hp]; rfl
        rw [execBlock_cons_next hif, execBlock_cons_next (execStmt_yield hn hdel)]
        simp [execBlock_nil]
        simpa using hb
      · -- skipped: `continue`
        rw [hb] at htest
        refine ⟨.cont, ("colname", Val.str a.1.1) :: ("i", Val.int ((a.2 : Nat) : Int)) :: env, ?_, hst1⟩
        have hif : execStmt (("colname", Val.str a.1.1) :: ("i", Val.int ((a.2 : Nat) : Int)) :: env) out
            (.app "if" [.app "In" [.sym "i", parseColsInt ca], .app "block" [.sym "continue"], .app "block" []]) =
            some (.cont, ("colname", Val.str a.1.1) :: ("i", Val.int ((a.2 : Nat) : Int)) :: env, out) := by
          rw [execStmt_if_true htest]; rfl
        rw [execBlock_cons_cont hif]
        simp
        simpa using hb) e0 [] (Stable.refl _ _)
  rw [flatMap_ite, List.nil_append] at h
  exact ⟨env', h⟩

/-! ### the `colname=value` form of the condition -/

/-- `rows = <init>; for colname, value in colname_value_pairs.items(): rows = rows & (self[colname] == value)`. -/
def kvLoop (initT : Term) : Term :=
  .app "for" [.app "tuple" [.sym "colname", .sym "value"], .app ".items" [.sym "colname_value_pairs"],
    .app "block" [.app "assign" [.sym "rows", .app "BitAnd" [.sym "rows",
      .app "Eq" [.app "getitem" [.sym "self", .sym "colname"], .sym "value"]]]],
    .app "init" [.sym "rows", initT]]

def lvKV : List String := ["colname", "value", "rows"]

/-- the masks `self[colname] == value` of the pairs (non-missing values: plain equality of cells). -/
def kvMasks (self : Frame) (kvs : List (String × Key)) : List (List Bool) :=
  kvs.map (fun p => eqMask false (colOf self p.1) (some p.2))

theorem execStmt_for_items_init {env : Env} {out : Frame} {pat a : Term} {body : List Term} {x : String} {e : Term}
    {v : Val} (he : evalExpr env e = some v) :
    execStmt env out (.app "for" [pat, .app ".items" [a], .app "block" body, .app "init" [.sym x, e]]) =
      forResult pat body ((x, v) :: env) out
        (match evalExpr ((x, v) :: env) (.app ".items" [a]) with | some w => itemsOf w | none => none) := by
  have h : execStmt env out (.app "for" [pat, .app ".items" [a], .app "block" body, .app "init" [.sym x, e]]) =
      (match (match evalExpr env e with | some v => some ((x, v) :: env) | none => none : Option Env) with
       | none => none
       | some env0 => forResult pat body env0 out
          (match evalExpr env0 (.app ".items" [a]) with | some w => itemsOf w | none => none)) := rfl
  rw [h, he]

theorem colOf_mem {f : Frame} {n : String} (h : n ∈ names f) : (n, colOf f n) ∈ f := by
  have h1 := colOf?_of_name h
  unfold colOf? at h1
  cases hf : f.find? (fun p => p.1 == n) with
  | none => rw [hf] at h1; cases h1
  | some q =>
    rw [hf] at h1
    have hq : q.2 = colOf f n := by simpa using h1
    have hn : q.1 = n := by simpa using List.find?_some hf
    have := List.mem_of_find?_eq_some hf
    have e : (n, colOf f n) = q := Prod.ext hn.symm hq.symm
    rw [e]; exact this

theorem colOf_length {f : Frame} (hrect : Rect f) {n : String} (h : n ∈ names f) : (colOf f n).length = nrow f :=
  hrect _ (colOf_mem h)

theorem eqMask_length (naEq : Bool) (c : List Cell) (v : Cell) : (eqMask naEq c v).length = c.length := by
  simp [eqMask]

theorem getElem!_zipWith_and (a b : List Bool) (i : Nat) (ha : i < a.length) (hb : i < b.length) :
    (List.zipWith (· && ·) a b)[i]! = (a[i]! && b[i]!) := by
  have : i < (List.zipWith (· && ·) a b).length := by simp; omega
  rw [getElem!_pos _ i this, getElem!_pos a i ha, getElem!_pos b i hb]
  simp

/-- and-ing masks one after the other = the model's `andMasks`, started from any accumulator. -/
theorem foldl_and_masks (n : Nat) (ms : List (List Bool)) : ∀ acc : List Bool, acc.length = n →
    (∀ m ∈ ms, m.length = n) →
    ms.foldl (fun a m => List.zipWith (· && ·) a m) acc =
      (List.range n).map (fun i => acc[i]! && ms.all (fun m => m[i]!)) := by
  induction ms with
  | nil =>
    intro acc hacc _
    apply List.ext_getElem
    · simp [hacc]
    · intro i h1 h2
      have hi : i < acc.length := by simpa using h1
      simp [hi]
  | cons m t ih =>
    intro acc hacc hms
    have hm : m.length = n := hms m List.mem_cons_self
    rw [List.foldl_cons, ih _ (by simp [hacc, hm]) (fun x hx => hms x (List.mem_cons_of_mem _ hx))]
    apply List.map_congr_left
    intro i hi
    have hi' : i < n := List.mem_range.mp hi
    rw [getElem!_zipWith_and acc m i (by omega) (by omega)]
    simp [List.all_cons, Bool.and_assoc]

theorem foldl_and_masks_true (n : Nat) (ms : List (List Bool)) (hms : ∀ m ∈ ms, m.length = n) :
    ms.foldl (fun a m => List.zipWith (· && ·) a m) (List.replicate n true) = andMasks n ms := by
  rw [foldl_and_masks n ms _ (by simp) hms]
  unfold andMasks
  apply List.map_congr_left
  intro i hi
  have hi' : i < n := List.mem_range.mp hi
  have : i < (List.replicate n true).length := by simp [hi']
  rw [getElem!_pos _ i this]
  simp

theorem kv_loop_aux (e0 : Env) (self : Frame) (hself : Env.get? e0 "self" = some (.frame self)) (hrect : Rect self)
    (kvs : List (String × Key)) (hnames : ∀ p ∈ kvs, p.1 ∈ names self) :
    ∀ (env : Env) (out : Frame) (acc : List Bool), Stable lvKV e0 env → Env.get? env "rows" = some (.mask acc) →
      acc.length = nrow self →
      ∃ env', loop (stepOf (.app "tuple" [.sym "colname", .sym "value"])
          [.app "assign" [.sym "rows", .app "BitAnd" [.sym "rows",
            .app "Eq" [.app "getitem" [.sym "self", .sym "colname"], .sym "value"]]]]) (env, out)
          (kvs.map (fun p => Val.pair (.str p.1) (.key p.2))) = some (env', out) ∧ Stable lvKV e0 env' ∧
        Env.get? env' "rows" = some (.mask ((kvMasks self kvs).foldl (fun a m => List.zipWith (· && ·) a m) acc)) := by
  induction kvs with
  | nil => intro env out acc hst hr _; exact ⟨env, rfl, hst, hr⟩
  | cons p t ih =>
    intro env out acc hst hr hlen
    have hp : p.1 ∈ names self := hnames p List.mem_cons_self
    have hst1 : Stable lvKV e0 (("value", Val.key p.2) :: ("colname", Val.str p.1) :: env) :=
      (hst.push (by decide) _).push (by decide) _
    have hn : evalExpr (("value", Val.key p.2) :: ("colname", Val.str p.1) :: env) (.sym "colname") = some (.str p.1) := rfl
    have hv : evalExpr (("value", Val.key p.2) :: ("colname", Val.str p.1) :: env) (.sym "value") = some (.key p.2) := rfl
    have hrows : evalExpr (("value", Val.key p.2) :: ("colname", Val.str p.1) :: env) (.sym "rows") = some (.mask acc) := by
      rw [evalExpr_sym _ "rows" (by decide) (by decide) (by decide), get?_cons_ne _ _ (by decide),
        get?_cons_ne _ _ (by decide), hr]
    have hcol : evalExpr (("value", Val.key p.2) :: ("colname", Val.str p.1) :: env)
        (.app "getitem" [.sym "self", .sym "colname"]) = some (.col (colOf self p.1)) := by
      rw [eval_getitem_self (eval_self hst1 (by decide) hself) hn, colOf?_of_name hp]; rfl
    have heq : evalExpr (("value", Val.key p.2) :: ("colname", Val.str p.1) :: env)
        (.app "Eq" [.app "getitem" [.sym "self", .sym "colname"], .sym "value"]) =
        some (.mask (eqMask false (colOf self p.1) (some p.2))) := by
      rw [evalPrim (by decide) (evalArgs2 hcol hv)]; rfl
    have hml : (eqMask false (colOf self p.1) (some p.2)).length = nrow self := by
      rw [eqMask_length, colOf_length hrect hp]
    have hand : evalExpr (("value", Val.key p.2) :: ("colname", Val.str p.1) :: env)
        (.app "BitAnd" [.sym "rows", .app "Eq" [.app "getitem" [.sym "self", .sym "colname"], .sym "value"]]) =
        some (.mask (List.zipWith (· && ·) acc (eqMask false (colOf self p.1) (some p.2)))) := by
      rw [evalPrim (by decide) (evalArgs2 hrows heq)]
      show (if acc.length = _ then _ else _) = _
      rw [if_pos (by rw [hml, hlen])]
    have hstep : stepOf (.app "tuple" [.sym "colname", .sym "value"])
        [.app "assign" [.sym "rows", .app "BitAnd" [.sym "rows",
          .app "Eq" [.app "getitem" [.sym "self", .sym "colname"], .sym "value"]]]] (env, out)
        (Val.pair (.str p.1) (.key p.2)) =
        some (("rows", Val.mask (List.zipWith (· && ·) acc (eqMask false (colOf self p.1) (some p.2)))) ::
          ("value", Val.key p.2) :: ("colname", Val.str p.1) :: env, out) := by
      have hb : bindPat env (.app "tuple" [.sym "colname", .sym "value"]) (Val.pair (.str p.1) (.key p.2)) =
          some (("value", Val.key p.2) :: ("colname", Val.str p.1) :: env) := rfl
      simp only [stepOf, hb, execBlock_cons_next (execStmt_assign hand), execBlock_nil]
    obtain ⟨env', hl, hst', hr'⟩ := ih (fun q hq => hnames q (List.mem_cons_of_mem _ hq)) _ out
      (List.zipWith (· && ·) acc (eqMask false (colOf self p.1) (some p.2)))
      (hst1.push (by decide) _) (get?_cons_self _ _ _) (by simp [hml, hlen])
    refine ⟨env', ?_, hst', ?_⟩
    · simp only [List.map_cons, loop, hstep]; exact hl
    · rw [hr']; rfl

/-- the pairs loop, run from any environment that knows the receiver and the pairs: afterwards `rows` is the conjunction
    `andMasks` of the masks `self[colname] == value`. -/
theorem exec_kvLoop (initT : Term) (e : Env) (self : Frame) (kvs : List (String × Key))
    (hself : Env.get? e "self" = some (.frame self)) (hkv : Env.get? e "colname_value_pairs" = some (.kdict kvs))
    (hinit : evalExpr e initT = some (.mask (List.replicate (nrow self) true)))
    (hrect : Rect self) (hnames : ∀ p ∈ kvs, p.1 ∈ names self) (out : Frame) :
    ∃ env', execStmt e out (kvLoop initT) = some (.next, env', out) ∧ Stable lvKV e env' ∧
      Env.get? env' "rows" = some (.mask (andMasks (nrow self) (kvMasks self kvs))) := by
  unfold kvLoop
  rw [execStmt_for_items_init hinit]
  have hst1 : Stable lvKV e (("rows", Val.mask (List.replicate (nrow self) true)) :: e) :=
    (Stable.refl _ _).push (by decide) _
  have hitems : evalExpr (("rows", Val.mask (List.replicate (nrow self) true)) :: e)
      (.app ".items" [.sym "colname_value_pairs"]) = some (.items (.kdict kvs)) := by
    have : evalExpr (("rows", Val.mask (List.replicate (nrow self) true)) :: e) (.sym "colname_value_pairs") =
        some (.kdict kvs) := by
      rw [evalExpr_sym _ _ (by decide) (by decide) (by decide), hst1 _ (by decide), hkv]
    rw [evalPrim (by decide) (evalArgs1 this)]; rfl
  rw [hitems]
  obtain ⟨env', hl, hst', hr'⟩ := kv_loop_aux e self hself hrect kvs hnames _ out (List.replicate (nrow self) true)
    hst1 (get?_cons_self _ _ _) (by simp)
  refine ⟨env', ?_, hst', ?_⟩
  · show forResult _ _ _ out (some (kvs.map (fun p => Val.pair (.str p.1) (.key p.2)))) = _
    simp only [forResult, hl]
  · rw [hr', foldl_and_masks_true]
    intro m hm
    obtain ⟨p, hp, rfl⟩ := List.mem_map.mp hm
    rw [eqMask_length, colOf_length hrect (hnames p hp)]

theorem evalExpr_value_after_loop (e : Env) (v : String) (lp : Term) :
    evalExpr e (.app "value-after-loop" [.sym v, lp]) =
      (match execStmt e [] lp with | none => none | some r => Env.get? r.2.1 v) := rfl

/-- the pairs form of the condition: the value of `rows` after the pairs loop. -/
theorem cond_kv (initT : Term) (e : Env) (self : Frame) (kvs : List (String × Key))
    (hself : Env.get? e "self" = some (.frame self)) (hkv : Env.get? e "colname_value_pairs" = some (.kdict kvs))
    (hinit : evalExpr e initT = some (.mask (List.replicate (nrow self) true)))
    (hrect : Rect self) (hnames : ∀ p ∈ kvs, p.1 ∈ names self) :
    evalExpr e (.app "value-after-loop" [.sym "rows", kvLoop initT]) =
      some (.mask (andMasks (nrow self) (kvMasks self kvs))) := by
  obtain ⟨env', h, _, hr⟩ := exec_kvLoop initT e self kvs hself hkv hinit hrect hnames []
  rw [evalExpr_value_after_loop, h]
  exact hr

/-- the two spellings of `Vector.fast([True], bool).repeat(self.nrow)` the translator has produced. -/
theorem init_true_opaque {e : Env} {self : Frame} (hself : Env.get? e "self" = some (.frame self)) :
    evalExpr e (.app "Vector.fast([True], bool).repeat" [.app ".nrow" [.sym "self"]]) =
      some (.mask (List.replicate (nrow self) true)) := by
  have hs : evalExpr e (.sym "self") = some (.frame self) := eval_self (Stable.refl [] e) (by decide) hself
  have hn : evalExpr e (.app ".nrow" [.sym "self"]) = some (.int (nrow self : Nat)) := by
    rw [evalPrim (by decide) (evalArgs1 hs)]; rfl
  have hp : ∀ n : Int, prim "Vector.fast([True], bool).repeat" [Val.int n] =
      if 0 ≤ n then some (.mask (List.replicate n.toNat true)) else none := fun _ => rfl
  rw [evalPrim (by decide) (evalArgs1 hn), hp, if_pos (by omega)]
  simp

theorem init_true_structural {e : Env} {self : Frame} (hself : Env.get? e "self" = some (.frame self)) :
    evalExpr e (.app ".repeat" [.app "Vector.fast" [.app "list" [.sym "True"], .sym "bool"],
        .app ".nrow" [.sym "self"]]) = some (.mask (List.replicate (nrow self) true)) := by
  have hs : evalExpr e (.sym "self") = some (.frame self) := eval_self (Stable.refl [] e) (by decide) hself
  have hn : evalExpr e (.app ".nrow" [.sym "self"]) = some (.int (nrow self : Nat)) := by
    rw [evalPrim (by decide) (evalArgs1 hs)]; rfl
  have ht : evalExpr e (.sym "True") = some (.bool true) := rfl
  have hl : evalExpr e (.app "list" [.sym "True"]) = some (.mask [true]) := by
    rw [evalPrim (by decide) (evalArgs1 ht)]; rfl
  have hv : evalExpr e (.app "Vector.fast" [.app "list" [.sym "True"], .sym "bool"]) = some (.mask [true]) := by
    have : evalExpr e (.app "Vector.fast" [.app "list" [.sym "True"], .sym "bool"]) =
        evalExpr e (.app "list" [.sym "True"]) := rfl
    rw [this, hl]
  have hp : ∀ (m : List Bool) (n : Int), prim ".repeat" [Val.mask m, Val.int n] =
      if 0 ≤ n then some (.mask (m.flatMap (fun b => List.replicate n.toNat b))) else none := fun _ _ => rfl
  rw [evalPrim (by decide) (evalArgs2 hv hn), hp, if_pos (by omega)]
  simp

/-! ### gathering -/

theorem map_range_getElem! {α : Type} [Inhabited α] (l : List α) : (List.range l.length).map (fun i => l[i]!) = l := by
  apply List.ext_getElem
  · simp
  · intro i h1 h2
    have hi : i < l.length := by simpa using h1
    simp [hi]

theorem gather_range {α : Type} [Inhabited α] (c : List α) : gather c (List.range c.length) = c :=
  map_range_getElem! c

theorem gather_append {α : Type} [Inhabited α] (c : List α) (a b : List Nat) :
    gather c (a ++ b) = gather c a ++ gather c b := by simp [gather]

/-- gathering at a permutation of all positions permutes the column. -/
theorem gather_perm {α : Type} [Inhabited α] (c : List α) (idx : List Nat) (h : idx.Perm (List.range c.length)) :
    (gather c idx).Perm c := by
  have := h.map (fun i => c[i]!)
  rw [map_range_getElem!] at this
  exact this

theorem zipWith_map_same {α β γ δ : Type} (f : β → γ → δ) (a : α → β) (b : α → γ) (l : List α) :
    List.zipWith f (l.map a) (l.map b) = l.map (fun x => f (a x) (b x)) := by
  induction l with
  | nil => rfl
  | cons x t ih => simp [ih]

/-! ### the cell-provenance model of `Model/Bind.lean` -/

/-- the shape of a frame: what `Model/Bind.lean` knows about it. -/
def shape (self : Frame) : Bind.Frame := ⟨nrow self, names self⟩

/-- the cell a provenance stands for (frame 0 = the receiver). -/
def cellOf (self : Frame) : Bind.Src → Cell
  | .cell 0 c r => (colOf self c)[r]!
  | _ => none

/-- an output column of the provenance model, read off the receiver. -/
def realize (self : Frame) (p : Bind.OutCol) : String × List Cell := (p.1, p.2.map (cellOf self))

theorem realize_colCells (self : Frame) (name c : String) (h : (colOf self c).length = nrow self) :
    realize self (name, Bind.colCells 0 c (nrow self)) = (name, colOf self c) := by
  unfold realize Bind.colCells
  simp only [List.map_map]
  congr 1
  rw [← h]
  exact map_range_getElem! (colOf self c)

/-- the constructor's `dict(pairs)` for any kind of column (`Bind.dictOf` is the instance for provenance columns):
    a repeated name keeps its first position and takes the last value. -/
def dictOfG {β : Type} (ps : List (String × β)) : List (String × β) :=
  ps.foldl (fun d p => if d.any (fun q => q.1 == p.1) then d.map (fun q => if q.1 == p.1 then p else q)
                       else d ++ [p]) []

theorem dictOf_eq_dictOfG (ps : List Bind.OutCol) : Bind.dictOf ps = dictOfG ps := rfl

theorem dictOfG_map_aux {β γ : Type} (g : β → γ) (ps d : List (String × β)) :
    (ps.map (fun p => (p.1, g p.2))).foldl (fun d p => if d.any (fun q => q.1 == p.1)
        then d.map (fun q => if q.1 == p.1 then p else q) else d ++ [p]) (d.map (fun p => (p.1, g p.2))) =
    (ps.foldl (fun d p => if d.any (fun q => q.1 == p.1)
        then d.map (fun q => if q.1 == p.1 then p else q) else d ++ [p]) d).map (fun p => (p.1, g p.2)) := by
  induction ps generalizing d with
  | nil => rfl
  | cons p t ih =>
    simp only [List.map_cons, List.foldl_cons]
    have hany : (d.map (fun p => (p.1, g p.2))).any (fun q => q.1 == p.1) = d.any (fun q => q.1 == p.1) := by
      simp [List.any_map, Function.comp_def]
    rw [hany]
    cases hc : d.any (fun q => q.1 == p.1)
    · simp only [Bool.false_eq_true, if_false]
      rw [← ih (d ++ [p])]
      simp
    · simp only [if_true]
      rw [← ih]
      congr 1
      simp only [List.map_map]
      apply List.map_congr_left
      intro q _
      simp only [Function.comp]
      cases q.1 == p.1 <;> rfl

theorem dictOfG_map {β γ : Type} (g : β → γ) (ps : List (String × β)) :
    dictOfG (ps.map (fun p => (p.1, g p.2))) = (dictOfG ps).map (fun p => (p.1, g p.2)) :=
  dictOfG_map_aux g ps []

theorem map_realize_dictOf (self : Frame) (ps : List Bind.OutCol) :
    (Bind.dictOf ps).map (realize self) = dictOfG (ps.map (realize self)) := by
  rw [dictOf_eq_dictOfG]
  exact (dictOfG_map (fun s => s.map (cellOf self)) ps).symm

theorem contains_names (self : Frame) (c : String) : (names self).contains c = true ↔ c ∈ names self := by simp

/-- the requested columns as the Bind model's `select` describes them. -/
theorem select_model (self : Frame) (cols : List String) (hrect : Rect self) :
    (if ∀ c ∈ cols, c ∈ names self then some (dictOfG (cols.map (fun c => (c, colOf self c)))) else none) =
      (Bind.select (shape self) cols).map (List.map (realize self)) := by
  unfold Bind.select
  by_cases hall : ∀ c ∈ cols, c ∈ names self
  · have : cols.all (fun c => (shape self).names.contains c) = true := by
      rw [List.all_eq_true]; intro c hc; exact (contains_names self c).mpr (hall c hc)
    rw [if_pos hall, if_pos this]
    simp only [Option.map_some]
    rw [map_realize_dictOf, List.map_map]
    congr 2
    apply List.map_congr_left
    intro c hc
    exact (realize_colCells self c c (colOf_length hrect (hall c hc))).symm
  · have : ¬ (cols.all (fun c => (shape self).names.contains c) = true) := by
      rw [List.all_eq_true]; intro h; exact hall (fun c hc => (contains_names self c).mp (h c hc))
    rw [if_neg hall, if_neg this]
    rfl

/-- the kept columns as the Bind model's `unselect` describes them. -/
theorem unselect_model (self : Frame) (cols : List String) (hnd : (names self).Nodup) (hrect : Rect self) :
    self.filter (fun p => !cols.contains p.1) = (Bind.unselect (shape self) cols).map (realize self) := by
  unfold Bind.unselect
  have : (shape self).names.filter (fun c => !cols.contains c) =
      (self.filter (fun p => !cols.contains p.1)).map (·.1) := by
    simp only [shape, names, List.filter_map]; rfl
  rw [this, List.map_map, List.map_map]
  conv => lhs; rw [← List.map_id (self.filter _)]
  apply List.map_congr_left
  intro p hp
  have hp' : p ∈ self := (List.mem_filter.mp hp).1
  have hn : p.1 ∈ names self := List.mem_map.mpr ⟨p, hp', rfl⟩
  show p = realize self (p.1, Bind.colCells 0 p.1 (nrow self))
  rw [realize_colCells self p.1 p.1 (colOf_length hrect hn), colOf_of_mem hnd hp']

theorem rename_unfold (self : Frame) (tf : List (String × String)) :
    Bind.rename (shape self) tf =
      Bind.dictOf ((names self).map (fun c => (renameName tf c, Bind.colCells 0 c (nrow self)))) := rfl

/-- the renamed columns as the Bind model's `rename` describes them (after the constructor's `dict`). -/
theorem rename_model (self : Frame) (tf : List (String × String)) (hnd : (names self).Nodup) (hrect : Rect self) :
    dictOfG (self.map (fun p => (renameName tf p.1, p.2))) = (Bind.rename (shape self) tf).map (realize self) := by
  rw [rename_unfold, map_realize_dictOf]
  congr 1
  simp only [names, List.map_map]
  apply List.map_congr_left
  intro p hp
  have hn : p.1 ∈ names self := List.mem_map.mpr ⟨p, hp, rfl⟩
  show _ = realize self (renameName tf p.1, Bind.colCells 0 p.1 (nrow self))
  rw [realize_colCells self _ p.1 (colOf_length hrect hn), colOf_of_mem hnd hp]

/-! ### whole rows -/

/-- the model's whole-row function: EVERY column of the frame, in dict order, gathered at ONE list of row positions
    (`gather` of `Model/Basic.lean`, the function `C02.whole_rows` is about). -/
def wholeRows (self : Frame) (idx : List Nat) : Frame := self.map (fun p => (p.1, gather p.2 idx))

theorem wholeRows_names (self : Frame) (idx : List Nat) : names (wholeRows self idx) = names self := by
  simp [wholeRows, names, List.map_map, Function.comp_def]

/-- output row `j` of every column `k` is input row `idx[j]` of that column. -/
theorem wholeRows_cell (self : Frame) (idx : List Nat) (k j : Nat) (hk : k < self.length) (hj : j < idx.length) :
    ((wholeRows self idx)[k]!).1 = (self[k]!).1 ∧ ((wholeRows self idx)[k]!).2[j]! = ((self[k]!).2)[idx[j]!]! := by
  have hk' : k < (wholeRows self idx).length := by simp [wholeRows, hk]
  rw [getElem!_pos _ k hk', getElem!_pos _ k hk]
  simp only [wholeRows, List.getElem_map]
  exact ⟨trivial, gather_get _ idx j hj⟩

theorem map_range_get_map {α β : Type} [Inhabited α] (l : List α) (F : α → β) :
    (List.range l.length).map (fun j => F l[j]!) = l.map F := by
  have := congrArg (List.map F) (map_range_getElem! l)
  rw [List.map_map] at this
  exact this

theorem zipIdx_filter_all {α β : Type} (l : List α) (F : α → β) :
    ((l.zipIdx.filter (fun a => !([] : List Int).contains ((a.2 : Nat) : Int))).map (fun a => F a.1)) = l.map F := by
  have h1 : l.zipIdx.filter (fun a => !([] : List Int).contains ((a.2 : Nat) : Int)) = l.zipIdx := by
    apply List.filter_eq_self.mpr
    intro a _; rfl
  rw [h1]
  have h2 := congrArg (List.map F) (List.zipIdx_map_fst 0 l)
  rw [List.map_map] at h2
  exact h2

theorem arange_zero_inRange (n : Nat) : ∀ r ∈ arange 0 (n : Int), InRange n r := by
  intro r hr
  rw [arange_zero] at hr
  obtain ⟨k, hk, rfl⟩ := List.mem_map.mp hr
  exact inRange_ofNat (List.mem_range.mp hk)

theorem sliceIdx_arange (n : Nat) : sliceIdx n (arange 0 (n : Int)) = List.range n := by
  rw [arange_zero, sliceIdx_ofNat]

theorem eval_arange_nrow {e : Env} {self : Frame} (hs : evalExpr e (.sym "self") = some (.frame self)) :
    evalExpr e (.app "np.arange" [.app ".nrow" [.sym "self"]]) = some (.ints (arange 0 (nrow self : Nat))) := by
  have hn : evalExpr e (.app ".nrow" [.sym "self"]) = some (.int (nrow self : Nat)) := by
    rw [evalPrim (by decide) (evalArgs1 hs)]; rfl
  rw [evalPrim (by decide) (evalArgs1 hn)]; rfl

theorem eval_arange_ncol {e : Env} {self : Frame} (hs : evalExpr e (.sym "self") = some (.frame self)) :
    evalExpr e (.app "np.arange" [.app ".ncol" [.sym "self"]]) = some (.ints (arange 0 (ncol self : Nat))) := by
  have hn : evalExpr e (.app ".ncol" [.sym "self"]) = some (.int (ncol self : Nat)) := by
    rw [evalPrim (by decide) (evalArgs1 hs)]; rfl
  rw [evalPrim (by decide) (evalArgs1 hn)]; rfl

theorem eval_empty_list (e : Env) : evalExpr e (.app "list" []) = some (.ints []) := by
  rw [evalPrim (by decide) (evalArgs_nil e)]; rfl

theorem eval_var {e0 e : Env} {vars : List String} {x : String} {v : Val} (hs : Stable vars e0 e) (hv : x ∉ vars)
    (h1 : x ≠ "True") (h2 : x ≠ "False") (h3 : x ≠ "None") (hx : Env.get? e0 x = some v) :
    evalExpr e (.sym x) = some v := by
  rw [evalExpr_sym e x h1 h2 h3, hs x hv, hx]

/-- a receiver with at least one column and a mask of the wrong length: the generator raises at its first column. -/
theorem exec_filter_bad_length (f : String) (hf : PlainPrim f) (cond : Term) (m : List Bool) (e0 : Env) (self : Frame)
    (hself : Env.get? e0 "self" = some (.frame self)) (hne : self ≠ []) (hm : m.length ≠ nrow self)
    (hcond : ∀ e, Stable lvCol e0 e → evalExpr e cond = some (.mask m)) :
    execStmt e0 [] (perColumn (fun c => .app f [c, .app "._parse_rows_from_boolean" [.sym "self", cond]])) = none := by
  have hitems : evalExpr e0 (.app ".items" [.sym "self"]) = some (.items (.frame self)) := by
    rw [evalPrim (by decide) (evalArgs1 (eval_self (Stable.refl lvCol e0) (by decide) hself))]; rfl
  unfold perColumn
  rw [execStmt_for_items, hitems]
  cases self with
  | nil => exact absurd rfl hne
  | cons p t =>
    have hst1 : Stable lvCol e0 (("column", Val.col p.2) :: ("colname", Val.str p.1) :: e0) :=
      stable_col (Stable.refl _ _) p.1 p.2
    have hcol : evalExpr (("column", .col p.2) :: ("colname", .str p.1) :: e0) (.sym "column") = some (.col p.2) := rfl
    have hbad := eval_parse_boolean_bad (eval_self hst1 (by decide) hself) (hcond _ hst1) hm
    have hargs : evalArgs (("column", .col p.2) :: ("colname", .str p.1) :: e0)
        [.sym "column", .app "._parse_rows_from_boolean" [.sym "self", cond]] = none := by
      rw [evalArgs, hcol, evalArgs, hbad]
    have hcall := evalExpr_args_none _ f _ hf.1 hf.2.1 hf.2.2.1 hargs
    have hn : evalExpr (("column", .col p.2) :: ("colname", .str p.1) :: e0) (.sym "colname") = some (.str p.1) := rfl
    have hy : execStmt (("column", .col p.2) :: ("colname", .str p.1) :: e0) []
        (.app "yield" [.app "tuple" [.sym "colname",
          .app f [.sym "column", .app "._parse_rows_from_boolean" [.sym "self", cond]]]]) = none := by
      rw [execStmt_yield_eq, hn, hcall]
    have hb : bindPat e0 (.app "tuple" [.sym "colname", .sym "column"]) (Val.pair (.str p.1) (.col p.2)) =
        some (("column", .col p.2) :: ("colname", .str p.1) :: e0) := rfl
    show forResult _ _ e0 [] (some (Val.pair (.str p.1) (.col p.2) :: _)) = none
    simp only [forResult, loop, stepOf, hb, execBlock, hy]

/-! ### whole bodies -/

def parsedBool (cond : Term) : Term := .app "._parse_rows_from_boolean" [.sym "self", cond]

theorem run_filter_take (cond : Term) (m : List Bool) (env : Env) (self : Frame)
    (hself : Env.get? env "self" = some (.frame self)) (hrect : Rect self) (hm : m.length = nrow self)
    (hcond : ∀ e, Stable lvCol env e → evalExpr e cond = some (.mask m)) :
    runBody env (.fall [perColumn (fun c => .app "np.take" [c, parsedBool cond])]) =
      some (wholeRows self (filterIdx m)) := by
  obtain ⟨_, h, _⟩ := exec_filter_take cond m env self hself hrect hm hcond env [] (Stable.refl _ _)
  exact runBody_single h

theorem run_filter_delete (cond : Term) (m : List Bool) (env : Env) (self : Frame)
    (hself : Env.get? env "self" = some (.frame self)) (hrect : Rect self) (hm : m.length = nrow self)
    (hcond : ∀ e, Stable lvCol env e → evalExpr e cond = some (.mask m)) :
    runBody env (.fall [perColumn (fun c => .app "np.delete" [c, parsedBool cond])]) =
      some (wholeRows self (filterOutIdx m)) := by
  obtain ⟨_, h, _⟩ := exec_filter_delete cond m env self hself hrect hm hcond env [] (Stable.refl _ _)
  exact runBody_single h

theorem run_filter_bad_length (f : String) (hf : PlainPrim f) (cond : Term) (m : List Bool) (env : Env) (self : Frame)
    (hself : Env.get? env "self" = some (.frame self)) (hne : self ≠ []) (hm : m.length ≠ nrow self)
    (hcond : ∀ e, Stable lvCol env e → evalExpr e cond = some (.mask m)) :
    runBody env (.fall [perColumn (fun c => .app f [c, parsedBool cond])]) = none :=
  runBody_single_none (exec_filter_bad_length f hf cond m env self hself hne hm hcond)

theorem andMasks_length (n : Nat) (ms : List (List Bool)) : (andMasks n ms).length = n := by simp [andMasks]

/-- the body of the pairs form, for either consumer (`np.take` / `np.delete`): the pairs loop, then the loop over the
    columns whose positions expression reads the value of `rows` after the pairs loop. -/
theorem run_pairs_form (f : String) (idxOf : List Bool → List Nat) (initT : Term) (env : Env) (self : Frame)
    (kvs : List (String × Key))
    (hinit : ∀ (e : Env), Env.get? e "self" = some (.frame self) →
      evalExpr e initT = some (.mask (List.replicate (nrow self) true)))
    (hself : Env.get? env "self" = some (.frame self))
    (hkv : Env.get? env "colname_value_pairs" = some (.kdict kvs))
    (hrect : Rect self) (hnames : ∀ p ∈ kvs, p.1 ∈ names self)
    (hexec : ∀ (cond : Term) (m : List Bool) (e0 : Env), Env.get? e0 "self" = some (.frame self) →
      m.length = nrow self → (∀ e, Stable lvCol e0 e → evalExpr e cond = some (.mask m)) →
      ∃ env', execStmt e0 [] (perColumn (fun c => Term.app f [c, parsedBool cond])) =
        some (.next, env', [] ++ wholeRows self (idxOf m)) ∧ Stable lvCol e0 env') :
    runBody env (.fall [kvLoop initT, perColumn (fun c => Term.app f
      [c, parsedBool (.app "value-after-loop" [.sym "rows", kvLoop initT])])]) =
      some (wholeRows self (idxOf (andMasks (nrow self) (kvMasks self kvs)))) := by
  obtain ⟨env1, h1, hst1, _⟩ := exec_kvLoop initT env self kvs hself hkv (hinit env hself) hrect hnames []
  have hself1 : Env.get? env1 "self" = some (.frame self) := by rw [hst1 "self" (by decide), hself]
  have hkv1 : Env.get? env1 "colname_value_pairs" = some (.kdict kvs) := by
    rw [hst1 "colname_value_pairs" (by decide), hkv]
  obtain ⟨env2, h2, _⟩ := hexec (.app "value-after-loop" [.sym "rows", kvLoop initT])
    (andMasks (nrow self) (kvMasks self kvs)) env1 hself1 (andMasks_length _ _) (by
      intro e hst
      have hs : Env.get? e "self" = some (.frame self) := by rw [hst "self" (by decide), hself1]
      have hk' : Env.get? e "colname_value_pairs" = some (.kdict kvs) := by
        rw [hst "colname_value_pairs" (by decide), hkv1]
      exact cond_kv initT e self kvs hs hk' (hinit e hs) hrect hnames)
  simp only [runBody, execBlock_cons_next h1, execBlock_cons_next h2, execBlock_nil, List.nil_append]

theorem run_pairs_take (initT : Term) (env : Env) (self : Frame) (kvs : List (String × Key))
    (hinit : ∀ (e : Env), Env.get? e "self" = some (.frame self) →
      evalExpr e initT = some (.mask (List.replicate (nrow self) true)))
    (hself : Env.get? env "self" = some (.frame self))
    (hkv : Env.get? env "colname_value_pairs" = some (.kdict kvs))
    (hrect : Rect self) (hnames : ∀ p ∈ kvs, p.1 ∈ names self) :
    runBody env (.fall [kvLoop initT, perColumn (fun c => Term.app "np.take"
      [c, parsedBool (.app "value-after-loop" [.sym "rows", kvLoop initT])])]) =
      some (wholeRows self (filterIdx (andMasks (nrow self) (kvMasks self kvs)))) :=
  run_pairs_form "np.take" filterIdx initT env self kvs hinit hself hkv hrect hnames
    (fun cond m e0 hs hm hc => exec_filter_take cond m e0 self hs hrect hm hc e0 [] (Stable.refl _ _))

theorem run_pairs_delete (initT : Term) (env : Env) (self : Frame) (kvs : List (String × Key))
    (hinit : ∀ (e : Env), Env.get? e "self" = some (.frame self) →
      evalExpr e initT = some (.mask (List.replicate (nrow self) true)))
    (hself : Env.get? env "self" = some (.frame self))
    (hkv : Env.get? env "colname_value_pairs" = some (.kdict kvs))
    (hrect : Rect self) (hnames : ∀ p ∈ kvs, p.1 ∈ names self) :
    runBody env (.fall [kvLoop initT, perColumn (fun c => Term.app "np.delete"
      [c, parsedBool (.app "value-after-loop" [.sym "rows", kvLoop initT])])]) =
      some (wholeRows self (filterOutIdx (andMasks (nrow self) (kvMasks self kvs)))) :=
  run_pairs_form "np.delete" filterOutIdx initT env self kvs hinit hself hkv hrect hnames
    (fun cond m e0 hs hm hc => exec_filter_delete cond m e0 self hs hrect hm hc e0 [] (Stable.refl _ _))

/-- the kept and the dropped rows, stacked column by column, are the receiver's rows under ONE permutation of the row
    positions; in particular every column is permuted. -/
theorem partition_frames (self : Frame) (m : List Bool) (hrect : Rect self) (hm : m.length = nrow self) :
    (filterIdx m ++ filterOutIdx m).Perm (List.range (nrow self)) ∧
    List.zipWith (fun p q => (p.1, p.2 ++ q.2)) (wholeRows self (filterIdx m)) (wholeRows self (filterOutIdx m)) =
      wholeRows self (filterIdx m ++ filterOutIdx m) ∧
    ∀ p ∈ self, (gather p.2 (filterIdx m) ++ gather p.2 (filterOutIdx m)).Perm p.2 := by
  refine ⟨?_, ?_, ?_⟩
  · rw [← hm]; exact filter_partition m
  · simp only [wholeRows, zipWith_map_same, gather_append]
  · intro p hp
    rw [← gather_append]
    apply gather_perm
    rw [hrect p hp, ← hm]
    exact filter_partition m

theorem run_slice (rowsNone colsNone : Bool) (env : Env) (self : Frame) (rows cols : List Int)
    (hself : Env.get? env "self" = some (.frame self))
    (hrows : rowsNone = false → Env.get? env "rows" = some (.ints rows) ∧ ∀ r ∈ rows, InRange (nrow self) r)
    (hcols : colsNone = false → Env.get? env "cols" = some (.ints cols) ∧ ∀ c ∈ cols, InRange (ncol self) c)
    (hnd : (names self).Nodup) (hrect : Rect self) :
    runBody env (.fall [sliceLoop
      (if rowsNone then Term.app "np.arange" [Term.app ".nrow" [Term.sym "self"]] else Term.sym "rows")
      (if colsNone then Term.app "np.arange" [Term.app ".ncol" [Term.sym "self"]] else Term.sym "cols")]) =
      some ((if colsNone then List.range (ncol self) else DI.sliceIdx (ncol self) cols).map (fun j =>
        ((self[j]!).1, gather (self[j]!).2
          (if rowsNone then List.range (nrow self) else DI.sliceIdx (nrow self) rows)))) := by
  obtain ⟨_, h⟩ := exec_slice
    (if rowsNone then Term.app "np.arange" [Term.app ".nrow" [Term.sym "self"]] else Term.sym "rows")
    (if colsNone then Term.app "np.arange" [Term.app ".ncol" [Term.sym "self"]] else Term.sym "cols")
    (if rowsNone then arange 0 (nrow self : Nat) else rows) (if colsNone then arange 0 (ncol self : Nat) else cols)
    env self hself
    (by
      intro e hst
      cases rowsNone
      · exact eval_var hst (by decide) (by decide) (by decide) (by decide) (hrows rfl).1
      · exact eval_arange_nrow (eval_self hst (by decide) hself))
    (by
      intro e hst
      cases colsNone
      · exact eval_var hst (by decide) (by decide) (by decide) (by decide) (hcols rfl).1
      · exact eval_arange_ncol (eval_self hst (by decide) hself))
    hnd hrect
    (by
      cases rowsNone
      · exact (hrows rfl).2
      · exact arange_zero_inRange _)
    (by
      cases colsNone
      · exact (hcols rfl).2
      · exact arange_zero_inRange _)
  rw [runBody_single h]
  cases rowsNone <;> cases colsNone <;> simp only [if_true, if_false, Bool.false_eq_true, sliceIdx_arange]

theorem run_slice_rows (env : Env) (self : Frame) (rows : List Int)
    (hself : Env.get? env "self" = some (.frame self)) (hrows : Env.get? env "rows" = some (.ints rows))
    (hin : ∀ r ∈ rows, InRange (nrow self) r) (hnd : (names self).Nodup) (hrect : Rect self) :
    runBody env (.fall [sliceLoop (Term.sym "rows") (Term.app "np.arange" [Term.app ".ncol" [Term.sym "self"]])]) =
      some (wholeRows self (DI.sliceIdx (nrow self) rows)) := by
  have := run_slice false true env self rows [] hself (fun _ => ⟨hrows, hin⟩) (fun h => nomatch h) hnd hrect
  simp only [if_true, Bool.false_eq_true, if_false, ncol] at this
  rw [this, map_range_get_map self (fun p => (p.1, gather p.2 (DI.sliceIdx (nrow self) rows)))]
  rfl

theorem run_slice_off (rowsNone colsNone : Bool) (env : Env) (self : Frame) (rows cols : List Int)
    (hself : Env.get? env "self" = some (.frame self))
    (hrows : rowsNone = false → Env.get? env "rows" = some (.ints rows) ∧ ∀ r ∈ rows, InRange (nrow self) r)
    (hcols : colsNone = false → Env.get? env "cols" = some (.ints cols))
    (hnd : (names self).Nodup) (hrect : Rect self) :
    runBody env (.fall [sliceOffLoop
      (if rowsNone then Term.app "list" [] else Term.sym "rows")
      (if colsNone then Term.app "list" [] else Term.sym "cols")]) =
      some ((self.zipIdx.filter (fun a => !(if colsNone then [] else cols).contains ((a.2 : Nat) : Int))).map
        (fun a => (a.1.1, gather a.1.2 (sliceOffIdx (nrow self) (if rowsNone then [] else rows))))) := by
  obtain ⟨_, h⟩ := exec_slice_off
    (if rowsNone then Term.app "list" [] else Term.sym "rows")
    (if colsNone then Term.app "list" [] else Term.sym "cols") (if rowsNone then [] else rows)
    (if colsNone then [] else cols) env self hself
    (by
      intro e hst
      cases rowsNone
      · exact eval_var hst (by decide) (by decide) (by decide) (by decide) (hrows rfl).1
      · exact eval_empty_list e)
    (by
      intro e hst
      cases colsNone
      · exact eval_var hst (by decide) (by decide) (by decide) (by decide) (hcols rfl)
      · exact eval_empty_list e)
    hnd hrect
    (by
      cases rowsNone
      · exact (hrows rfl).2
      · intro r hr; cases hr)
  exact runBody_single h

theorem run_slice_off_rows (env : Env) (self : Frame) (rows : List Int)
    (hself : Env.get? env "self" = some (.frame self)) (hrows : Env.get? env "rows" = some (.ints rows))
    (hin : ∀ r ∈ rows, InRange (nrow self) r) (hnd : (names self).Nodup) (hrect : Rect self) :
    runBody env (.fall [sliceOffLoop (Term.sym "rows") (Term.app "list" [])]) =
      some (wholeRows self (sliceOffIdx (nrow self) rows)) := by
  have := run_slice_off false true env self rows [] hself (fun _ => ⟨hrows, hin⟩) (fun h => nomatch h) hnd hrect
  simp only [if_true, Bool.false_eq_true, if_false] at this
  rw [this, zipIdx_filter_all self (fun p => (p.1, gather p.2 (sliceOffIdx (nrow self) rows)))]
  rfl

/-! ### select / unselect / rename: whole bodies and the Bind model -/

theorem run_select (env : Env) (self : Frame) (cols : List String)
    (hself : Env.get? env "self" = some (.frame self)) (hcols : Env.get? env "colnames" = some (.strs cols)) :
    runBody env (.fall [selectLoop]) =
      if ∀ c ∈ cols, c ∈ names self then some (cols.map (fun c => (c, colOf self c))) else none := by
  by_cases hall : ∀ c ∈ cols, c ∈ names self
  · obtain ⟨_, h⟩ := exec_select env self cols hself hcols hall
    rw [if_pos hall]; exact runBody_single h
  · rw [if_neg hall]
    apply runBody_single_none
    apply exec_select_missing env self cols hself hcols
    false_or_by_contra
    rename_i hno
    exact hall (fun c hc => Classical.byContradiction (fun hn => hno ⟨c, hc, hn⟩))

/-- the evaluated body against the Bind model: after the constructor's `dict`, the yielded pairs are the model's output
    columns read off the receiver; the body raises exactly when the model rejects. -/
theorem run_select_model (env : Env) (self : Frame) (cols : List String)
    (hself : Env.get? env "self" = some (.frame self)) (hcols : Env.get? env "colnames" = some (.strs cols))
    (hrect : Rect self) :
    (runBody env (.fall [selectLoop])).map dictOfG = (Bind.select (shape self) cols).map (List.map (realize self)) := by
  rw [run_select env self cols hself hcols, ← select_model self cols hrect]
  by_cases hall : ∀ c ∈ cols, c ∈ names self
  · rw [if_pos hall, if_pos hall]; rfl
  · rw [if_neg hall, if_neg hall]; rfl

theorem run_unselect (env : Env) (self : Frame) (cols : List String)
    (hself : Env.get? env "self" = some (.frame self)) (hcols : Env.get? env "colnames" = some (.strs cols))
    (hnd : (names self).Nodup) :
    runBody env (.fall [unselectLoop]) = some (self.filter (fun p => !cols.contains p.1)) := by
  obtain ⟨_, h⟩ := exec_unselect env self cols hself hcols hnd
  exact runBody_single h

theorem run_rename (env : Env) (self : Frame) (tf : List (String × String))
    (hself : Env.get? env "self" = some (.frame self)) (htf : Env.get? env "to_from_pairs" = some (.sdict tf))
    (hnd : (names self).Nodup) :
    runBody env (.fall [renameLoop]) = some (self.map (fun p => (renameName tf p.1, p.2))) := by
  obtain ⟨_, h⟩ := exec_rename env self tf hself htf hnd
  exact runBody_single h

/-! ### the new names -/

theorem fromTo_of_nodup (tf : List (String × String)) (h : (tf.map (·.2)).Nodup) :
    fromTo tf = tf.map (fun p => (p.2, p.1)) := by
  have := Bind.fromTo_of_nodup tf [] (by simpa using h)
  rw [List.nil_append] at this
  exact this

/-- with distinct `from` names, `from_to.get(c, c)` is the `to` paired with `from = c`, else `c` (`Bind.renameTo`). -/
theorem renameName_eq_renameTo (tf : List (String × String)) (h : (tf.map (·.2)).Nodup) (c : String) :
    renameName tf c = Bind.renameTo tf c := by
  unfold renameName
  rw [fromTo_of_nodup tf h]
  simp only [List.find?_map, Bind.renameTo, Option.map_map]
  congr 1

theorem renameName_swap (a b : String) (hab : a ≠ b) :
    renameName [(a, b), (b, a)] a = b ∧ renameName [(a, b), (b, a)] b = a ∧
    ∀ c, c ≠ a → c ≠ b → renameName [(a, b), (b, a)] c = c := by
  have hba : (b == a) = false := by simpa using hab.symm
  have hft : fromTo [(a, b), (b, a)] = [(b, a), (a, b)] := by
    simp [fromTo, dictInsert, hba]
  unfold renameName
  rw [hft]
  refine ⟨?_, ?_, ?_⟩
  · simp [hba]
  · simp
  · intro c hca hcb
    have h1 : (b == c) = false := by simpa using hcb.symm
    have h2 : (a == c) = false := by simpa using hca.symm
    simp [h1, h2]

end DI.PyEval

/-
  Lemmas/DfSort.lean — DataFrame.sort (C03): the lexsort of the constructed sort keys is a
  stable permutation ordered by the keys; each `sort_key` branch orders rows like the
  specification order of its column and direction.
-/
import Model.Frame
import Lemmas.Sort
import Lemmas.Key
import Lemmas.Vector
import Lemmas.Rank

namespace DI

variable {κ : Type}

/-! ### the order on cells with the missing value last -/

theorem leNaLast_linOrd {le : κ → κ → Bool} (h : LinOrd le) : LinOrd (leNaLast le) := by
  constructor
  · exact (leRaw_pre h.pre false).total
  · exact (leRaw_pre h.pre false).trans
  · intro a b
    cases a <;> cases b <;> simp [leNaLast, leRaw]
    exact h.antisymm _ _

theorem ltOf_leNaLast (le : κ → κ → Bool) (a b : Option κ) :
    ltOf (leNaLast le) a b = ltNaLast le a b := by
  cases a <;> cases b <;> simp [ltOf, leNaLast, leRaw, ltNaLast]

theorem cellLinOrd : LinOrd (leNaLast Key.le) := leNaLast_linOrd Key.le_linOrd

/-- the strict order on cells used by `leLex`. -/
abbrev cellLt : Cell → Cell → Bool := ltNaLast Key.le

theorem cellLt_eq (a b : Cell) : cellLt a b = ltOf (leNaLast Key.le) a b :=
  (ltOf_leNaLast Key.le a b).symm

theorem cellLt_irrefl (a : Cell) : cellLt a a = false := by
  rw [cellLt_eq]; exact ltOf_irrefl a

theorem cellLt_trans {a b c : Cell} : cellLt a b → cellLt b c → cellLt a c := by
  simp only [cellLt_eq]; exact ltOf_trans cellLinOrd

theorem cellLt_asymm {a b : Cell} : cellLt a b → cellLt b a = false := by
  intro h
  cases h' : cellLt b a
  · rfl
  · have := cellLt_trans h h'; simp [cellLt_irrefl] at this

/-- neither before the other: equal (the order is linear). -/
theorem cellLt_tricho {a b : Cell} (h1 : cellLt a b = false) (h2 : cellLt b a = false) : a = b := by
  rw [cellLt_eq] at h1 h2
  have e1 := (not_ltOf cellLinOrd).mp h1
  have e2 := (not_ltOf cellLinOrd).mp h2
  exact cellLinOrd.antisymm _ _ e2 e1

/-! ### leLex is a total preorder -/

theorem leLex_total : ∀ a b : List Cell, leLex a b || leLex b a
  | [], _ => by simp [leLex]
  | _ :: _, [] => by simp [leLex]
  | a :: as, b :: bs => by
    have ih := leLex_total as bs
    simp only [leLex]
    cases h1 : cellLt a b
    · cases h2 : cellLt b a
      · simp only [cellLt] at h1 h2; simp [h1, h2]; simpa using ih
      · simp only [cellLt] at h1 h2; simp [h1, h2]
    · have h2 := cellLt_asymm h1
      simp only [cellLt] at h1 h2; simp [h1, h2]

theorem leLex_trans : ∀ a b c : List Cell, leLex a b → leLex b c → leLex a c
  | [], _, _ => by simp [leLex]
  | _ :: _, [], _ => by simp [leLex]
  | _ :: _, _ :: _, [] => by simp [leLex]
  | a :: as, b :: bs, c :: cs => by
    have ih := leLex_trans as bs cs
    simp only [leLex]
    intro hab hbc
    cases h1 : cellLt a b
    · cases h1' : cellLt b a
      · -- a = b
        have := cellLt_tricho h1 h1'; subst this
        simp only [cellLt] at h1; simp [h1] at hab
        cases h2 : cellLt a c
        · cases h2' : cellLt c a
          · simp only [cellLt] at h2 h2'; simp [h2, h2'] at hbc ⊢; exact ih hab hbc
          · simp only [cellLt] at h2 h2'; simp [h2, h2'] at hbc
        · simp only [cellLt] at h2; simp [h2]
      · simp only [cellLt] at h1 h1'; simp [h1, h1'] at hab
    · -- a < b
      cases h2 : cellLt b c
      · cases h2' : cellLt c b
        · have := cellLt_tricho h2 h2'; subst this
          simp only [cellLt] at h1; simp [h1]
        · simp only [cellLt] at h2 h2'; simp [h2, h2'] at hbc
      · have := cellLt_trans h1 h2
        simp only [cellLt] at this; simp [this]

theorem leLex_pre : PreOrd leLex := ⟨leLex_total, leLex_trans⟩

/-! ### lexsort: permutation, sorted, stable -/

theorem rowsOf_length (n : Nat) (cols : List (List Cell)) : (rowsOf n cols).length = n := by
  simp [rowsOf]

theorem lexsortIdx_perm (n : Nat) (keys : List (List Cell)) :
    (lexsortIdx n keys).Perm (List.range n) := by
  have := argsort_perm leLex (rowsOf n keys)
  rwa [rowsOf_length] at this

theorem lexsortIdx_sorted (n : Nat) (keys : List (List Cell)) :
    (gather (rowsOf n keys) (lexsortIdx n keys)).Pairwise (fun a b => leLex a b) := by
  unfold lexsortIdx argsort
  rw [(tagged_sortPairs leLex (rowsOf n keys)).gather, List.pairwise_map]
  exact sortPairs_sorted leLex_pre _

theorem pair_sublist_zipIdx (xs : List α) (i j : Nat) (hij : i < j) (hj : j < xs.length) :
    [(xs[i]'(by omega), i), (xs[j], j)].Sublist xs.zipIdx := by
  have hlen : xs.zipIdx.length = xs.length := by simp
  have e : xs.zipIdx = xs.zipIdx.take j ++ xs.zipIdx.drop j := (List.take_append_drop j _).symm
  rw [e]
  have h1 : [(xs[i]'(by omega), i)].Sublist (xs.zipIdx.take j) := by
    rw [List.singleton_sublist, List.mem_take_iff_getElem]
    exact ⟨i, by simp; omega, by simp⟩
  have h2 : [(xs[j], j)].Sublist (xs.zipIdx.drop j) := by
    rw [List.singleton_sublist, List.mem_drop_iff_getElem]
    exact ⟨0, by simp; omega, by simp⟩
  exact List.Sublist.append h1 h2

/-- stability: two rows in input order whose keys are already in order keep their order. -/
theorem lexsortIdx_stable (n : Nat) (keys : List (List Cell)) (i j : Nat) (hij : i < j) (hj : j < n)
    (hle : leLex (rowsOf n keys)[i]! (rowsOf n keys)[j]!) :
    [i, j].Sublist (lexsortIdx n keys) := by
  unfold lexsortIdx argsort
  have hl := rowsOf_length n keys
  have hs := pair_sublist_zipIdx (rowsOf n keys) i j hij (by omega)
  have hi' : i < (rowsOf n keys).length := by omega
  have hj' : j < (rowsOf n keys).length := by omega
  have := sortPairs_stable leLex_pre (rowsOf n keys) hs (by simpa [hi', hj'] using hle)
  have := this.map (·.2)
  simpa using this

end DI

namespace DI

/-! ### rank is an order embedding -/

theorem rankMinSpec_length {κ : Type} (le : κ → κ → Bool) (xs : List (Option κ)) :
    (rankMinSpec le xs).length = xs.length := by simp [rankMinSpec]

theorem rankMinSpec_get {κ : Type} (le : κ → κ → Bool) (xs : List (Option κ)) (i : Nat)
    (hi : i < xs.length) :
    (rankMinSpec le xs)[i]! = 1 + cnt (leNaLast le) xs xs[i]! := by
  simp only [rankMinSpec, cnt]
  simp only [hi, getElem!_pos, List.getElem_map, List.length_map]
  congr 2
  apply List.filter_congr
  intro y _
  rw [ltOf_leNaLast]

theorem rankMinSpec_lt_iff {κ : Type} [DecidableEq κ] {le : κ → κ → Bool} (h : LinOrd le)
    (xs : List (Option κ)) (i j : Nat) (hi : i < xs.length) (hj : j < xs.length) :
    (rankMinSpec le xs)[i]! < (rankMinSpec le xs)[j]! ↔ ltNaLast le xs[i]! xs[j]! = true := by
  rw [rankMinSpec_get le xs i hi, rankMinSpec_get le xs j hj, ← ltOf_leNaLast]
  have hmem : xs[i]! ∈ xs := by simp [hi]
  have := cnt_lt_iff (leNaLast_linOrd h) (u := xs) (a := xs[i]!) (b := xs[j]!) hmem
  rw [← this]
  omega

theorem rankKey_length (col : List Cell) : (rankKey col).length = col.length := by
  simp [rankKey, vrank_min_spec Key.le_linOrd, rankMinSpec_length]

theorem rankKey_get (col : List Cell) (i : Nat) (hi : i < col.length) :
    (rankKey col)[i]! = some (Key.i (Int.ofNat (rankMinSpec Key.le col)[i]!)) := by
  have hl : i < (rankMinSpec Key.le col).length := by rw [rankMinSpec_length]; exact hi
  simp [rankKey, vrank_min_spec Key.le_linOrd, hl]

theorem cellLt_int (a b : Int) : cellLt (some (Key.i a)) (some (Key.i b)) = decide (a < b) := by
  simp only [cellLt, ltNaLast, ltOf, Key.le]
  by_cases h : a < b
  · have h1 : a ≤ b := by omega
    have h2 : ¬ b ≤ a := by omega
    simp [h, h1, h2]
  · have h2 : b ≤ a := by omega
    simp [h, h2]

/-- ranking a column does not change how its rows compare (missing last). -/
theorem rankKey_lt (col : List Cell) (i j : Nat) (hi : i < col.length) (hj : j < col.length) :
    cellLt (rankKey col)[i]! (rankKey col)[j]! = cellLt col[i]! col[j]! := by
  rw [rankKey_get col i hi, rankKey_get col j hj, cellLt_int]
  have hiff := rankMinSpec_lt_iff Key.le_linOrd col i j hi hj
  cases h : cellLt col[i]! col[j]!
  · simp only [decide_eq_false_iff_not]
    intro hc
    have h2 : (rankMinSpec Key.le col)[i]! < (rankMinSpec Key.le col)[j]! := Int.ofNat_lt.mp hc
    have h3 := hiff.mp h2
    have h4 : ltNaLast Key.le col[i]! col[j]! = false := h
    rw [h4] at h3; exact Bool.noConfusion h3
  · simp only [decide_eq_true_eq]
    have h' : ltNaLast Key.le col[i]! col[j]! = true := h
    exact Int.ofNat_lt.mpr (hiff.mpr h')

theorem rankKey_no_na (col : List Cell) (i : Nat) (hi : i < col.length) :
    ∃ v, (rankKey col)[i]! = some (Key.i v) := ⟨_, rankKey_get col i hi⟩

/-! ### order reversal -/

theorem invert_lt_int (b : Bool) (x y : Int) :
    cellLt (invertKey b (some (Key.i x))) (invertKey b (some (Key.i y)))
      = cellLt (some (Key.i y)) (some (Key.i x)) := by
  simp only [invertKey, cellLt_int]
  cases b <;> simp <;> omega

/-- a numeric key column is made of integer-coded cells (ints, order image of floats, ticks). -/
def IntCoded (col : List Cell) : Prop := ∀ c ∈ col, c = none ∨ ∃ v, c = some (Key.i v)

theorem invert_descNaLast (b : Bool) (a c : Cell)
    (ha : a = none ∨ ∃ v, a = some (Key.i v)) (hc : c = none ∨ ∃ v, c = some (Key.i v)) :
    cellLt (invertKey b a) (invertKey b c) = descNaLast a c := by
  rcases ha with rfl | ⟨x, rfl⟩ <;> rcases hc with rfl | ⟨y, rfl⟩
  · simp [invertKey, descNaLast, cellLt, ltNaLast]
  · simp [invertKey, descNaLast, cellLt, ltNaLast]
  · simp [invertKey, descNaLast, cellLt, ltNaLast]
  · rw [invert_lt_int]; simp [descNaLast]

end DI

namespace DI

theorem map_get! {α β : Type} [Inhabited α] [Inhabited β] (f : α → β) (l : List α) (i : Nat) (hi : i < l.length) :
    (l.map f)[i]! = f l[i]! := by simp [hi]

/-- every branch of `sort_key` orders the rows like the specification order of its column
    and direction. -/
theorem sortKey_spec (k : ColKind) (desc : Bool) (col : List Cell)
    (hwf : k.isNumber = true → IntCoded col) (i j : Nat) (hi : i < col.length) (hj : j < col.length) :
    cellLt (sortKey k desc col)[i]! (sortKey k desc col)[j]! = specLt k desc col col[i]! col[j]! := by
  have hri := rankKey_lt col i j hi hj
  have hrj := rankKey_lt col j i hj hi
  have hli : i < (rankKey col).length := by rw [rankKey_length]; exact hi
  have hlj : j < (rankKey col).length := by rw [rankKey_length]; exact hj
  obtain ⟨vi, hvi⟩ := rankKey_no_na col i hi
  obtain ⟨vj, hvj⟩ := rankKey_no_na col j hj
  have hinv : ∀ b, cellLt (invertKey b (rankKey col)[i]!) (invertKey b (rankKey col)[j]!)
      = cellLt col[j]! col[i]! := by
    intro b; rw [hvi, hvj, invert_lt_int, ← hvi, ← hvj]; exact hrj
  have hnum : k.isNumber = true →
      cellLt (invertKey k.isInteger col[i]!) (invertKey k.isInteger col[j]!) = descNaLast col[i]! col[j]! := by
    intro hn
    have hc := hwf hn
    exact invert_descNaLast _ _ _ (hc _ (by simp [hi])) (hc _ (by simp [hj]))
  unfold sortKey specLt rankedKey
  cases hrk : (k.isString && col.any isNa) <;> cases desc <;> simp only [hrk]
  · -- not ranked first, ascending
    cases hf : k.fastAsc <;> cases hn : k.isNumber <;> simpa [hf, hn] using hri
  · -- not ranked first, descending
    cases hn : k.isNumber
    · simpa [hn, hli, hlj] using hinv true
    · simpa [hn, hi, hj] using hnum hn
  · simpa using hri
  · simpa [hli, hlj] using hinv true

theorem sortKey_length (k : ColKind) (desc : Bool) (col : List Cell) :
    (sortKey k desc col).length = col.length := by
  unfold sortKey
  cases (k.isString && col.any isNa) <;> cases desc <;> cases k.fastAsc <;> cases k.isNumber <;>
    simp [rankKey_length]

end DI

namespace DI

/-- the sort specification of a whole `sort(**colname_dir_pairs)` call. -/
def specLts (keys : List (ColKind × Bool × List Cell)) : List (Cell → Cell → Bool) :=
  keys.map (fun k => specLt k.1 k.2.1 k.2.2)

def origCols (keys : List (ColKind × Bool × List Cell)) : List (List Cell) := keys.map (·.2.2)

def WfKeys (n : Nat) (keys : List (ColKind × Bool × List Cell)) : Prop :=
  ∀ k ∈ keys, k.2.2.length = n ∧ (k.1.isNumber = true → IntCoded k.2.2)

theorem rowsOf_get (n : Nat) (cols : List (List Cell)) (i : Nat) (hi : i < n) :
    (rowsOf n cols)[i]! = cols.map (fun c => c[i]!) := by
  simp [rowsOf, hi]

/-- comparing two rows by the constructed keys = comparing them by the specification. -/
theorem leLex_keys_eq_spec (n : Nat) (keys : List (ColKind × Bool × List Cell)) (hwf : WfKeys n keys)
    (i j : Nat) (hi : i < n) (hj : j < n) :
    leLex ((keys.map (fun k => sortKey k.1 k.2.1 k.2.2)).map (fun c => c[i]!))
          ((keys.map (fun k => sortKey k.1 k.2.1 k.2.2)).map (fun c => c[j]!))
      = leLexBy (specLts keys) ((origCols keys).map (fun c => c[i]!)) ((origCols keys).map (fun c => c[j]!)) := by
  induction keys with
  | nil => simp [leLex, leLexBy, specLts, origCols]
  | cons k ks ih =>
    have hk := hwf k (by simp)
    have ih' := ih (fun k' hk' => hwf k' (by simp [hk']))
    have e1 := sortKey_spec k.1 k.2.1 k.2.2 hk.2 i j (by omega) (by omega)
    have e2 := sortKey_spec k.1 k.2.1 k.2.2 hk.2 j i (by omega) (by omega)
    simp only [List.map_cons, leLex, leLexBy, specLts, origCols] at ih' ⊢
    simp only [cellLt] at e1 e2
    rw [e1, e2, ih']

/-- DataFrame.sort orders the rows lexicographically by the specification order of the keys. -/
theorem dfSortIdx_sorted_spec (n : Nat) (keys : List (ColKind × Bool × List Cell)) (hwf : WfKeys n keys) :
    (gather (rowsOf n (origCols keys)) (dfSortIdx n keys)).Pairwise
      (fun a b => leLexBy (specLts keys) a b) := by
  have hs := lexsortIdx_sorted n (keys.map (fun k => sortKey k.1 k.2.1 k.2.2))
  have hp := lexsortIdx_perm n (keys.map (fun k => sortKey k.1 k.2.1 k.2.2))
  unfold dfSortIdx
  unfold gather at hs ⊢
  rw [List.pairwise_map] at hs ⊢
  refine List.Pairwise.imp_of_mem ?_ hs
  intro a b ha hb hab
  have ha' : a < n := by simpa using hp.mem_iff.mp ha
  have hb' : b < n := by simpa using hp.mem_iff.mp hb
  rw [rowsOf_get n _ a ha', rowsOf_get n _ b hb'] at hab ⊢
  rw [← leLex_keys_eq_spec n keys hwf a b ha' hb']
  exact hab

theorem dfSortIdx_perm (n : Nat) (keys : List (ColKind × Bool × List Cell)) :
    (dfSortIdx n keys).Perm (List.range n) := lexsortIdx_perm n _

/-- stability: rows in input order that the specification does not order the other way round
    (in particular rows equal on all keys) keep their relative order. -/
theorem dfSortIdx_stable (n : Nat) (keys : List (ColKind × Bool × List Cell)) (hwf : WfKeys n keys)
    (i j : Nat) (hij : i < j) (hj : j < n)
    (hle : leLexBy (specLts keys) (rowsOf n (origCols keys))[i]! (rowsOf n (origCols keys))[j]!) :
    [i, j].Sublist (dfSortIdx n keys) := by
  unfold dfSortIdx
  apply lexsortIdx_stable n _ i j hij hj
  have hi : i < n := by omega
  rw [rowsOf_get n _ i hi, rowsOf_get n _ j hj] at hle ⊢
  rw [leLex_keys_eq_spec n keys hwf i j hi hj]
  exact hle

end DI

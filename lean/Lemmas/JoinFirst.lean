/-
  Lemmas/JoinFirst.lean — C05: a left row is joined with the FIRST right row (in the original
  right order) that has the same key and no missing key value; with none if there is no such row.
-/
import Model.Group
import Lemmas.Frame
import Lemmas.DfSort
import Lemmas.Group
import Lemmas.GroupRuns

namespace DI

/-- the key tuple of row `j` over the key columns `cols`. -/
def rowKey (cols : List (List Cell)) (j : Nat) : List Cell := cols.map (fun c => c[j]!)

def noNa (cols : List (List Cell)) (j : Nat) : Prop := ∀ c ∈ cols, isNa c[j]! = false

theorem rowsOf_gather_get (cols : List (List Cell)) (idx : List Nat) (q : Nat) (hq : q < idx.length) :
    (rowsOf idx.length (cols.map (fun c => gather c idx)))[q]! = rowKey cols idx[q]! := by
  rw [rowsOf_get _ _ q hq]
  simp only [rowKey, List.map_map]
  apply List.map_congr_left
  intro c _
  simp only [Function.comp]
  exact gather_get c idx q hq

theorem rowsOf_length' (n : Nat) (cols : List (List Cell)) : (rowsOf n cols).length = n := by simp [rowsOf]

/-- position of a member of a strictly increasing list; smaller members sit at smaller positions. -/
theorem sorted_index_lt {l : List Nat} (hs : l.Pairwise (· < ·)) {q q' : Nat} (hq : q < l.length) (hq' : q' < l.length)
    (h : l[q'] < l[q]) : q' < q := by
  rcases Nat.lt_trichotomy q' q with h1 | h1 | h1
  · exact h1
  · subst h1; omega
  · have := (List.pairwise_iff_getElem.mp hs) q q' hq hq' h1; omega

theorem find_rev_zipIdx_some {α : Type} [BEq α] [LawfulBEq α] (l : List α) (r : α) (p : α × Nat)
    (h : l.zipIdx.reverse.find? (fun p => p.1 == r) = some p) :
    ∃ ht : p.2 < l.length, l[p.2] = r := by
  have hm := List.mem_of_find?_eq_some h
  have hp := List.find?_some h
  rw [List.mem_reverse] at hm
  obtain ⟨i, hi, heq⟩ := List.mem_iff_getElem.mp hm
  simp only [List.length_zipIdx] at hi
  rw [List.getElem_zipIdx] at heq
  have e1 : p.1 = l[i] := by rw [← heq]
  have e2 : p.2 = i := by rw [← heq]; simp
  refine ⟨by omega, ?_⟩
  have := eq_of_beq hp
  subst e2
  rw [← e1]; exact this

theorem find_rev_zipIdx_none {α : Type} [BEq α] [LawfulBEq α] (l : List α) (r : α)
    (h : l.zipIdx.reverse.find? (fun p => p.1 == r) = none) : ∀ t (ht : t < l.length), l[t] ≠ r := by
  intro t ht heq
  rw [List.find?_eq_none] at h
  have hm : (l[t], t) ∈ l.zipIdx.reverse := by
    rw [List.mem_reverse, List.mem_iff_getElem]
    exact ⟨t, by simpa using ht, by simp⟩
  have := h _ hm
  simp [heq] at this

section
variable (n : Nat) (lk : List (List Cell)) (m : Nat) (rk : List (List Cell))

/-- the model's value for left row `i`. -/
theorem joinSrc_get (i : Nat) (hi : i < n) :
    (joinSrc n lk m rk)[i]! =
      match ((rowsOf (rightReduced m rk true).length (rk.map (fun c => gather c (rightReduced m rk true)))).zipIdx.reverse.find?
              (fun p => p.1 == (rowsOf n lk)[i]!)) with
      | some p => some (rightReduced m rk true)[p.2]!
      | none => none := by
  unfold joinSrc
  simp only
  have hl : i < (rowsOf n lk).length := by rw [rowsOf_length']; exact hi
  rw [getElem!_pos _ i (by simpa using hl)]
  simp only [List.getElem_map]
  rw [getElem!_pos _ i hl]
  rfl

/-- members of the reduced right side: first occurrences among the right rows without missing key. -/
theorem rightReduced_spec (t : Nat) (ht : t < (rightReduced m rk true).length) :
    let j := (rightReduced m rk true)[t]!
    j < m ∧ noNa rk j ∧ ∀ j' < j, noNa rk j' → rowKey rk j' ≠ rowKey rk j := by
  simp only [rightReduced, if_true] at ht ⊢
  have hks := dropNaIdx_sorted m rk
  generalize hkept : dropNaIdx m rk = kept at ht hks ⊢
  have hkm : ∀ j, j ∈ kept ↔ j < m ∧ noNa rk j := by
    intro j; rw [← hkept]; exact mem_dropNaIdx
  rw [gather_length] at ht
  rw [gather_get _ _ t ht]
  have hU : (uniqueIdx kept.length (rk.map (fun c => gather c kept)))[t]! ∈
      uniqueIdx kept.length (rk.map (fun c => gather c kept)) := by
    rw [getElem!_pos _ t ht]; exact List.getElem_mem _
  generalize (uniqueIdx kept.length (rk.map (fun c => gather c kept)))[t]! = q at hU
  obtain ⟨hq, hfirst⟩ := mem_uniqueIdx.mp hU
  have hmem : kept[q]! ∈ kept := by rw [getElem!_pos _ q hq]; exact List.getElem_mem _
  refine ⟨((hkm _).mp hmem).1, ((hkm _).mp hmem).2, ?_⟩
  intro j' hj' hna heq
  have hj'm : j' < m := by have := ((hkm _).mp hmem).1; omega
  have hj'k : j' ∈ kept := (hkm j').mpr ⟨hj'm, hna⟩
  obtain ⟨q', hq', e'⟩ := List.mem_iff_getElem.mp hj'k
  have hlt : q' < q := by
    apply sorted_index_lt hks hq hq'
    rw [e']; rw [getElem!_pos _ q hq] at hj'; exact hj'
  apply hfirst q' hlt
  rw [rowsOf_gather_get rk kept q' hq', rowsOf_gather_get rk kept q hq]
  rw [getElem!_pos _ q' hq', e']
  exact heq

/-- every right row without missing key has a representative with the same key in the reduced side. -/
theorem rightReduced_complete (j : Nat) (hj : j < m) (hna : noNa rk j) :
    ∃ t, t < (rightReduced m rk true).length ∧ rowKey rk (rightReduced m rk true)[t]! = rowKey rk j := by
  simp only [rightReduced, if_true]
  have hjk : j ∈ dropNaIdx m rk := mem_dropNaIdx.mpr ⟨hj, hna⟩
  generalize dropNaIdx m rk = kept at hjk ⊢
  obtain ⟨q, hq, e⟩ := List.mem_iff_getElem.mp hjk
  have hRlen : (rowsOf kept.length (rk.map (fun c => gather c kept))).length = kept.length := rowsOf_length' _ _
  obtain ⟨f, hf, ef, hfm⟩ := exists_first_occurrence (rowsOf kept.length (rk.map (fun c => gather c kept))) q (by omega)
  have hfU : f ∈ uniqueIdx kept.length (rk.map (fun c => gather c kept)) := hfm
  obtain ⟨t, ht, et⟩ := List.mem_iff_getElem.mp hfU
  refine ⟨t, by rw [gather_length]; exact ht, ?_⟩
  rw [gather_get _ _ t ht, getElem!_pos _ t ht, et]
  have hfl : f < kept.length := by omega
  have e1 := rowsOf_gather_get rk kept f hfl
  have e2 := rowsOf_gather_get rk kept q hq
  rw [getElem!_pos _ f (by omega)] at e1
  rw [getElem!_pos _ q (by omega)] at e2
  rw [← e1, ef, e2, getElem!_pos _ q hq, e]

/-- **first match**: a left row is joined with the first right row — in the original right order —
    that has the same key tuple and no missing key value. -/
theorem joinSrc_some (i : Nat) (hi : i < n) (j : Nat) (h : (joinSrc n lk m rk)[i]! = some j) :
    j < m ∧ noNa rk j ∧ rowKey rk j = (rowsOf n lk)[i]! ∧
      ∀ j' < j, noNa rk j' → rowKey rk j' ≠ (rowsOf n lk)[i]! := by
  rw [joinSrc_get n lk m rk i hi] at h
  split at h
  · rename_i p hp
    obtain ⟨ht, hr⟩ := find_rev_zipIdx_some _ _ p hp
    rw [rowsOf_length'] at ht
    simp only [Option.some.injEq] at h
    have hkey := rowsOf_gather_get rk (rightReduced m rk true) p.2 ht
    rw [getElem!_pos _ p.2 (by rw [rowsOf_length']; exact ht)] at hkey
    rw [hr] at hkey
    have hs := rightReduced_spec m rk p.2 ht
    simp only at hs
    rw [h] at hs hkey
    refine ⟨hs.1, hs.2.1, hkey.symm, ?_⟩
    intro j' hj' hna
    rw [hkey]
    exact hs.2.2 j' hj' hna
  · cases h

/-- … and with none exactly when no right row without missing key has the same key tuple. -/
theorem joinSrc_none (i : Nat) (hi : i < n) (h : (joinSrc n lk m rk)[i]! = none) :
    ∀ j < m, noNa rk j → rowKey rk j ≠ (rowsOf n lk)[i]! := by
  rw [joinSrc_get n lk m rk i hi] at h
  split at h
  · cases h
  · rename_i hp
    intro j hj hna heq
    obtain ⟨t, ht, et⟩ := rightReduced_complete m rk j hj hna
    have hnone := find_rev_zipIdx_none _ _ hp t (by rw [rowsOf_length']; exact ht)
    apply hnone
    have hkey := rowsOf_gather_get rk (rightReduced m rk true) t ht
    rw [getElem!_pos _ t (by rw [rowsOf_length']; exact ht)] at hkey
    rw [hkey, et, heq]

end

end DI

/-
  Lemmas/Bind.lean — combining and reshaping columns (C09).
-/
import Model.Bind

namespace DI.Bind

/-! ### first-seen union of names -/

theorem uniqueKeys_aux (ks acc : List String) (hacc : acc.Nodup) :
    (ks.foldl (fun acc k => if acc.contains k then acc else acc ++ [k]) acc).Nodup ∧
    ∀ k, k ∈ ks.foldl (fun acc k => if acc.contains k then acc else acc ++ [k]) acc ↔ k ∈ acc ∨ k ∈ ks := by
  induction ks generalizing acc with
  | nil => simp [hacc]
  | cons x xs ih =>
    simp only [List.foldl_cons]
    by_cases hx : acc.contains x = true
    · simp only [hx, if_true]
      have := ih acc hacc
      refine ⟨this.1, fun k => ?_⟩
      rw [this.2 k]
      have hx' : x ∈ acc := by simpa using hx
      constructor
      · rintro (h | h); exact Or.inl h; exact Or.inr (List.mem_cons_of_mem _ h)
      · rintro (h | h)
        · exact Or.inl h
        · rcases List.mem_cons.mp h with rfl | h
          · exact Or.inl hx'
          · exact Or.inr h
    · simp only [hx, Bool.false_eq_true, if_false]
      have hx' : x ∉ acc := by simpa using hx
      have hnd : (acc ++ [x]).Nodup := by
        rw [List.nodup_append]
        refine ⟨hacc, by simp, ?_⟩
        intro a ha b hb; simp at hb; subst hb; intro e; subst e; exact hx' ha
      have := ih (acc ++ [x]) hnd
      refine ⟨this.1, fun k => ?_⟩
      rw [this.2 k]
      simp only [List.mem_append, List.mem_cons, List.not_mem_nil, or_false]
      constructor
      · rintro ((h | h) | h)
        · exact Or.inl h
        · exact Or.inr (Or.inl h)
        · exact Or.inr (Or.inr h)
      · rintro (h | h | h)
        · exact Or.inl (Or.inl h)
        · exact Or.inl (Or.inr h)
        · exact Or.inr h

theorem uniqueKeys_nodup (ks : List String) : (uniqueKeys ks).Nodup := (uniqueKeys_aux ks [] (by simp)).1

theorem mem_uniqueKeys (ks : List String) (k : String) : k ∈ uniqueKeys ks ↔ k ∈ ks := by
  have := (uniqueKeys_aux ks [] (by simp)).2 k
  simpa [uniqueKeys] using this

/-! ### rbind -/

theorem rbind_names (frames : List Frame) :
    (rbind frames).map (·.1) = uniqueKeys (frames.flatMap (·.names)) := by
  simp only [rbind, List.map_map]
  have : ((fun (x : OutCol) => x.1) ∘ fun c => (c, (frames.zipIdx.map (fun (p : Frame × Nat) =>
      if p.1.names.contains c then colCells p.2 c p.1.nrow else List.replicate p.1.nrow Src.na)).flatten))
      = id := by funext c; rfl
  rw [this, List.map_id]

theorem colCells_length (f : Nat) (c : String) (n : Nat) : (colCells f c n).length = n := by
  simp [colCells]

/-- the part that frame `f` (number `i`) contributes to column `c`. -/
def part (c : String) (f : Frame) (i : Nat) : List Src :=
  if f.names.contains c then colCells i c f.nrow else List.replicate f.nrow Src.na

theorem part_length (c : String) (f : Frame) (i : Nat) : (part c f i).length = f.nrow := by
  unfold part; split <;> simp [colCells]

theorem part_get (c : String) (f : Frame) (i r : Nat) (hr : r < f.nrow) :
    (part c f i)[r]? = some (if f.names.contains c then Src.cell i c r else Src.na) := by
  unfold part
  by_cases hc : f.names.contains c = true
  · simp only [hc, if_true]; simp [colCells, hr]
  · simp only [hc, Bool.false_eq_true, if_false]; simp [hr]

theorem rbind_col (frames : List Frame) (c : String) (cells : List Src) (h : (c, cells) ∈ rbind frames) :
    cells = (frames.zipIdx.map (fun p => part c p.1 p.2)).flatten := by
  simp only [rbind, List.mem_map] at h
  obtain ⟨c', _, h'⟩ := h
  cases h'
  rfl

/-- the result has the sum of the row counts. -/
theorem parts_lengths (frames : List Frame) (c : String) :
    (frames.zipIdx.map (fun p => part c p.1 p.2)).map List.length = frames.map (·.nrow) := by
  rw [List.map_map]
  have : ∀ (k : Nat) (l : List Frame),
      (l.zipIdx k).map (List.length ∘ fun p => part c p.1 p.2) = l.map (·.nrow) := by
    intro k l
    induction l generalizing k with
    | nil => simp
    | cons f l ih => simp [List.zipIdx_cons, part_length, ih (k + 1)]
  exact this 0 frames

/-- the result has the sum of the row counts. -/
theorem rbind_nrow (frames : List Frame) (c : String) (cells : List Src) (h : (c, cells) ∈ rbind frames) :
    cells.length = (frames.map (·.nrow)).sum := by
  rw [rbind_col frames c cells h, List.length_flatten, parts_lengths]

theorem flatten_get_block {α : Type} (ls : List (List α)) (i r : Nat) (hi : i < ls.length)
    (hr : r < (ls[i]).length) :
    (ls.flatten)[((ls.take i).map List.length).sum + r]? = some ((ls[i])[r]) := by
  induction ls generalizing i with
  | nil => simp at hi
  | cons l ls ih =>
    cases i with
    | zero =>
      simp only [List.take_zero, List.map_nil, List.sum_nil, Nat.zero_add, List.flatten_cons, List.getElem_cons_zero]
      simp only [List.getElem_cons_zero] at hr
      rw [List.getElem?_append_left hr]
      simp
    | succ i =>
      simp only [List.take_succ_cons, List.map_cons, List.sum_cons, List.flatten_cons, List.getElem_cons_succ]
      simp only [List.getElem_cons_succ] at hr
      have hi' : i < ls.length := by simpa using hi
      rw [List.getElem?_append_right (by omega)]
      have := ih i hi' hr
      rw [← this]
      congr 1
      omega

/-- each input's rows are recoverable by position: rows `off_i .. off_i + nrow_i` of column `c`
    are frame `i`'s own cells of `c`, or missing values when frame `i` lacks `c`. -/
theorem rbind_block (frames : List Frame) (c : String) (cells : List Src) (h : (c, cells) ∈ rbind frames)
    (i r : Nat) (hi : i < frames.length) (hr : r < (frames[i]).nrow) :
    cells[((frames.take i).map (·.nrow)).sum + r]? =
      some (if (frames[i]).names.contains c then Src.cell i c r else Src.na) := by
  rw [rbind_col frames c cells h]
  have hlen : (frames.zipIdx.map (fun p => part c p.1 p.2)).length = frames.length := by simp
  have hi' : i < (frames.zipIdx.map (fun p => part c p.1 p.2)).length := by omega
  have hget : (frames.zipIdx.map (fun p => part c p.1 p.2))[i] = part c frames[i] i := by simp
  have hr' : r < ((frames.zipIdx.map (fun p => part c p.1 p.2))[i]).length := by
    rw [hget, part_length]; exact hr
  have key := flatten_get_block _ i r hi' hr'
  have hoff : (((frames.zipIdx.map (fun p => part c p.1 p.2)).take i).map List.length).sum
      = ((frames.take i).map (·.nrow)).sum := by
    have := parts_lengths frames c
    rw [List.map_take, this, ← List.map_take]
  rw [hoff] at key
  rw [key]
  have h1 := part_get c frames[i] i r hr
  have h2 : (frames.zipIdx.map (fun p => part c p.1 p.2))[i][r]? = (part c frames[i] i)[r]? := by
    rw [hget]
  rw [List.getElem?_eq_getElem hr'] at h2
  rw [h2, h1]

end DI.Bind

namespace DI.Bind

theorem map_fst_pair (l : List String) (g : String → List Src) :
    (l.map (fun c => (c, g c))).map (·.1) = l := by
  rw [List.map_map]
  have : ((fun (x : OutCol) => x.1) ∘ fun c => (c, g c)) = id := by funext c; rfl
  rw [this, List.map_id]

/-! ### the constructor's dict: nothing is invented, names are unique -/

theorem dictOf_aux (ps d : List OutCol) (hd : (d.map (·.1)).Nodup) :
    let r := ps.foldl (fun d p => if d.any (fun q => q.1 == p.1) then d.map (fun q => if q.1 == p.1 then p else q)
                       else d ++ [p]) d
    (r.map (·.1)).Nodup ∧ (∀ p ∈ r, p ∈ d ∨ p ∈ ps) := by
  induction ps generalizing d with
  | nil => simp [hd]
  | cons p ps ih =>
    simp only [List.foldl_cons]
    by_cases h : d.any (fun q => q.1 == p.1) = true
    · simp only [h, if_true]
      have hnd : ((d.map (fun q => if q.1 == p.1 then p else q)).map (·.1)).Nodup := by
        rw [List.map_map]
        have : d.map ((fun x : OutCol => x.1) ∘ fun q => if q.1 == p.1 then p else q) = d.map (·.1) := by
          apply List.map_congr_left
          intro q _
          simp only [Function.comp]
          by_cases hq : q.1 == p.1
          · simp only [hq, if_true]; exact (beq_iff_eq.mp hq).symm
          · simp [hq]
        rw [this]; exact hd
      have := ih _ hnd
      refine ⟨this.1, fun x hx => ?_⟩
      rcases this.2 x hx with h1 | h1
      · simp only [List.mem_map] at h1
        obtain ⟨q, hq, rfl⟩ := h1
        by_cases hq' : q.1 == p.1
        · simp only [hq', if_true]; exact Or.inr (by simp)
        · simp only [hq', Bool.false_eq_true, if_false]; exact Or.inl hq
      · exact Or.inr (List.mem_cons_of_mem _ h1)
    · simp only [h, Bool.false_eq_true, if_false]
      have hnd : ((d ++ [p]).map (·.1)).Nodup := by
        simp only [List.map_append, List.map_cons, List.map_nil]
        rw [List.nodup_append]
        refine ⟨hd, by simp, ?_⟩
        intro a ha b hb
        simp at hb; subst hb
        intro e; subst e
        apply h
        simp only [List.any_eq_true]
        simp only [List.mem_map] at ha
        obtain ⟨q, hq, hqe⟩ := ha
        exact ⟨q, hq, by simp [hqe]⟩
      have := ih _ hnd
      refine ⟨this.1, fun x hx => ?_⟩
      rcases this.2 x hx with h1 | h1
      · rcases List.mem_append.mp h1 with h2 | h2
        · exact Or.inl h2
        · simp at h2; subst h2; exact Or.inr (by simp)
      · exact Or.inr (List.mem_cons_of_mem _ h1)

theorem dictOf_nodup (ps : List OutCol) : ((dictOf ps).map (·.1)).Nodup :=
  (dictOf_aux ps [] (by simp)).1

theorem mem_dictOf (ps : List OutCol) (p : OutCol) (h : p ∈ dictOf ps) : p ∈ ps := by
  rcases (dictOf_aux ps [] (by simp)).2 p h with h1 | h1
  · cases h1
  · exact h1

theorem dictOf_of_nodup (ps : List OutCol) (h : (ps.map (·.1)).Nodup) : dictOf ps = ps := by
  unfold dictOf
  have : ∀ (d : List OutCol), ((d ++ ps).map (·.1)).Nodup →
      ps.foldl (fun d p => if d.any (fun q => q.1 == p.1) then d.map (fun q => if q.1 == p.1 then p else q)
                       else d ++ [p]) d = d ++ ps := by
    induction ps with
    | nil => intro d _; simp
    | cons p ps ih =>
      intro d hd
      simp only [List.foldl_cons]
      have hn : d.any (fun q => q.1 == p.1) = false := by
        rw [List.any_eq_false]
        intro q hq hqe
        simp only [List.map_append, List.map_cons] at hd
        rw [List.nodup_append] at hd
        have := hd.2.2 q.1 (by simp only [List.mem_map]; exact ⟨q, hq, rfl⟩) p.1 (by simp)
        exact this (beq_iff_eq.mp hqe)
      simp only [hn, Bool.false_eq_true, if_false]
      have := ih (by
        have h' := h
        simp only [List.map_cons, List.nodup_cons] at h'
        exact h'.2) (d ++ [p]) (by simpa using hd)
      simpa using this
  simpa using this [] (by simpa using h)

/-! ### select / unselect / rename never touch values -/

/-- unselect: exactly the other columns, in order, each a whole untouched column. -/
theorem unselect_spec (self : Frame) (cols : List String) :
    (unselect self cols).map (·.1) = self.names.filter (fun c => !cols.contains c) ∧
    ∀ p ∈ unselect self cols, p.2 = colCells 0 p.1 self.nrow := by
  constructor
  · unfold unselect; exact map_fst_pair _ _
  · intro p hp
    simp only [unselect, List.mem_map] at hp
    obtain ⟨c, _, rfl⟩ := hp; rfl

/-- select: every output column is a whole untouched input column; for distinct requested
    names the result has exactly the requested names in the requested order. -/
theorem select_spec (self : Frame) (cols : List String) (out : List OutCol) (h : select self cols = some out) :
    (∀ p ∈ out, p.2 = colCells 0 p.1 self.nrow ∧ p.1 ∈ cols) ∧
    (cols.Nodup → out.map (·.1) = cols) := by
  unfold select at h
  split at h
  · cases h
    constructor
    · intro p hp
      have := mem_dictOf _ p hp
      simp only [List.mem_map] at this
      obtain ⟨c, hc, rfl⟩ := this
      exact ⟨rfl, hc⟩
    · intro hnd
      rw [dictOf_of_nodup]
      · exact map_fst_pair _ _
      · rw [map_fst_pair]; exact hnd
  · cases h

/-- rename: every output column is a whole untouched input column (only names change). -/
theorem rename_sources (self : Frame) (toFrom : List (String × String)) :
    ∀ p ∈ rename self toFrom, ∃ c ∈ self.names, p.2 = colCells 0 c self.nrow := by
  intro p hp
  unfold rename at hp
  have := mem_dictOf _ p hp
  simp only [List.mem_map] at this
  obtain ⟨c, hc, rfl⟩ := this
  exact ⟨c, hc, rfl⟩

theorem rename_names_nodup (self : Frame) (toFrom : List (String × String)) :
    ((rename self toFrom).map (·.1)).Nodup := dictOf_nodup _

end DI.Bind

import Model.Convert

namespace DI.Convert

open DI.Read

theorem lookup_map_pair {β : Type} (cols : List (Col β)) (f : Col β → Option β) (k : String)
    (hnd : (cols.map (·.1)).Nodup) (c : Col β) (hc : c ∈ cols) (hk : c.1 = k) :
    lookup (cols.map (fun c => (c.1, f c))) k = some (f c) := by
  induction cols with
  | nil => cases hc
  | cons d ds ih =>
    simp only [List.map_cons, List.nodup_cons] at hnd
    rcases List.mem_cons.mp hc with rfl | hc'
    · simp [lookup, List.find?_cons, hk]
    · have hne : ¬ (d.1 == k) = true := by
        intro he
        have : d.1 = k := beq_iff_eq.mp he
        apply hnd.1
        rw [this, ← hk]
        exact List.mem_map.mpr ⟨c, hc', rfl⟩
      have := ih hnd.2 hc'
      simp only [lookup, List.map_cons, List.find?_cons, hne] at this ⊢
      exact this

/-- one record per row, one field per column. -/
theorem toRecords_shape {β : Type} (cols : List (Col β)) (n : Nat) :
    (toRecords cols n).length = n ∧ ∀ r ∈ toRecords cols n, r.length = cols.length ∧ r.map (·.1) = cols.map (·.1) := by
  constructor
  · simp [toRecords]
  · intro r hr
    simp only [toRecords, List.mem_map] at hr
    obtain ⟨i, _, rfl⟩ := hr
    simp [Function.comp]

/-- missing values cross the boundary as `None` exactly at the missing positions. -/
theorem toRecords_null {β : Type} (cols : List (Col β)) (n i : Nat) (hi : i < n) (c : Col β) (hc : c ∈ cols)
    (hnd : (cols.map (·.1)).Nodup) (hlen : c.2.length = n) :
    ((toRecords cols n)[i]?).map (fun r => lookup r c.1) = some (some (c.2[i]'(by omega))) := by
  have h1 : (toRecords cols n)[i]? = some (cols.map (fun c => (c.1, (c.2[i]?).join))) := by
    simp [toRecords, hi]
  rw [h1]
  simp only [Option.map_some]
  rw [lookup_map_pair cols (fun c => (c.2[i]?).join) c.1 hnd c hc rfl]
  have : c.2[i]? = some (c.2[i]'(by omega)) := List.getElem?_eq_getElem (by omega)
  simp [this]

/-- plucking a column back out of the records returns the column. -/
theorem pluck_toRecords {β : Type} (cols : List (Col β)) (n : Nat) (c : Col β) (hc : c ∈ cols)
    (hnd : (cols.map (·.1)).Nodup) (hlen : c.2.length = n) :
    pluck (toRecords cols n) c.1 = c.2 := by
  apply List.ext_getElem
  · simp [pluck, toRecords, hlen]
  · intro i h1 h2
    simp only [pluck, toRecords, List.getElem_map, List.getElem_range]
    rw [lookup_map_pair cols (fun c => (c.2[i]?).join) c.1 hnd c hc rfl]
    have : c.2[i]? = some (c.2[i]) := List.getElem?_eq_getElem h2
    simp [this]

/-- DataFrame -> ListOfDicts -> DataFrame gives back the same columns: names, order, values and
    missing positions (for a frame with at least one row). -/
theorem lod_roundtrip {β : Type} (cols : List (Col β)) (n : Nat) (hn : 0 < n)
    (hnd : (cols.map (·.1)).Nodup) (hlen : ∀ c ∈ cols, c.2.length = n) :
    toColumns (toRecords cols n) = cols := by
  have hne : toRecords cols n = (cols.map (fun c => (c.1, (c.2[0]?).join))) :: (toRecords cols n).tail := by
    cases n with
    | zero => omega
    | succ m => simp [toRecords, List.range_succ_eq_map]
  unfold toColumns
  rw [hne]
  simp only []
  rw [← hne, List.map_map]
  apply List.ext_getElem
  · simp
  · intro i h1 h2
    simp only [List.getElem_map, Function.comp]
    have hc : cols[i] ∈ cols := List.getElem_mem h2
    rw [pluck_toRecords cols n cols[i] hc hnd (hlen _ hc)]

end DI.Convert

namespace DI.Convert

open DI.Read

def addKey (acc : List String) (k : String) : List String := if acc.contains k then acc else acc ++ [k]

theorem foldl_addKey_mem (ks acc : List String) (h : ∀ k ∈ ks, k ∈ acc) : ks.foldl addKey acc = acc := by
  induction ks generalizing acc with
  | nil => rfl
  | cons k ks ih =>
    have hk : k ∈ acc := h k (by simp)
    simp only [List.foldl_cons, addKey, List.contains_eq_mem, hk, decide_true, if_true]
    exact ih acc (fun x hx => h x (by simp [hx]))

theorem foldl_addKey_nodup (ks acc : List String) (hnd : (acc ++ ks).Nodup) : ks.foldl addKey acc = acc ++ ks := by
  induction ks generalizing acc with
  | nil => simp
  | cons k ks ih =>
    have hk : k ∉ acc := by
      rw [List.nodup_append] at hnd
      intro h; exact hnd.2.2 k h k (by simp) rfl
    simp only [List.foldl_cons, addKey, List.contains_eq_mem, hk, decide_false, Bool.false_eq_true, if_false]
    have := ih (acc ++ [k]) (by simpa using hnd)
    simpa using this

theorem unionKeys_eq {β : Type} (recs : List (Rec β)) :
    unionKeys recs = (recs.flatMap (fun r => r.map (·.1))).foldl addKey [] := rfl

/-- the JSON records of a frame all carry the frame's column names, in order. -/
theorem unionKeys_toRecords {β : Type} (cols : List (Col β)) (n : Nat) (hn : 0 < n)
    (hnd : (cols.map (·.1)).Nodup) : unionKeys (toRecords cols n) = cols.map (·.1) := by
  rw [unionKeys_eq]
  cases n with
  | zero => omega
  | succ m =>
    have hflat : (toRecords cols (m + 1)).flatMap (fun r => r.map (·.1)) =
        cols.map (·.1) ++ ((toRecords cols (m + 1)).tail).flatMap (fun r => r.map (·.1)) := by
      simp [toRecords, List.range_succ_eq_map, Function.comp]
    rw [hflat, List.foldl_append]
    rw [foldl_addKey_nodup (cols.map (·.1)) [] (by simpa using hnd)]
    simp only [List.nil_append]
    apply foldl_addKey_mem
    intro k hk
    simp only [List.mem_flatMap] at hk
    obtain ⟨r, hr, hkr⟩ := hk
    have hr' := (toRecords_shape cols (m + 1)).2 r (List.mem_of_mem_tail hr)
    rw [hr'.2] at hkr
    exact hkr

/-- DataFrame -> JSON records -> DataFrame: same names, order, values, missing positions. -/
theorem json_roundtrip {β : Type} (cols : List (Col β)) (n : Nat) (hn : 0 < n)
    (hnd : (cols.map (·.1)).Nodup) (hlen : ∀ c ∈ cols, c.2.length = n) :
    fromJsonRecords (toRecords cols n) = cols := by
  unfold fromJsonRecords
  rw [unionKeys_toRecords cols n hn hnd, List.map_map]
  apply List.ext_getElem
  · simp
  · intro i h1 h2
    simp only [List.getElem_map, Function.comp]
    have hc : cols[i] ∈ cols := List.getElem_mem h2
    rw [pluck_toRecords cols n cols[i] hc hnd (hlen _ hc)]

end DI.Convert

/-
  Lemmas/KeyUnion.lean — the first-seen union of keys (`util.unique_keys(chain(*data))`, the
  `setdefault` loop of `GeoJSON.read`) characterised exactly: it is the list of all keys with the
  later duplicates erased, i.e. every key once, in the order of its first appearance.
  Used by C13 (JSON records) and C18 (GeoJSON property columns).
-/
import Lemmas.Convert

namespace DI.Read

open DI.Convert

/-- all keys of all records, in reading order (`itertools.chain(*data)`). -/
def allKeys {β : Type} (recs : List (Rec β)) : List String := recs.flatMap (fun r => r.map (·.1))

theorem foldl_addKey_eq (l acc : List String) :
    l.foldl addKey acc = acc ++ (l.filter (fun k => !acc.contains k)).eraseDups := by
  induction l generalizing acc with
  | nil => simp
  | cons k l ih =>
    by_cases hk : k ∈ acc
    · simp only [List.foldl_cons, addKey, List.contains_eq_mem, hk, decide_true, if_true]
      rw [ih acc]
      simp [hk]
    · simp only [List.foldl_cons, addKey, List.contains_eq_mem, hk, decide_false, Bool.false_eq_true, if_false]
      rw [ih (acc ++ [k])]
      simp only [List.filter_cons, List.contains_eq_mem, hk, decide_false, Bool.not_false, if_true,
        List.eraseDups_cons, List.filter_filter, List.append_assoc, List.cons_append, List.nil_append]
      congr 3
      apply List.filter_congr
      intro x _
      by_cases hx : x = k <;> by_cases hxa : x ∈ acc <;> simp [hx, hxa]

/-- the key union is the chained key list with later duplicates erased. -/
theorem unionKeys_eq_eraseDups {β : Type} (recs : List (Rec β)) : unionKeys recs = (allKeys recs).eraseDups := by
  rw [unionKeys_eq, foldl_addKey_eq]
  have : ∀ l : List String, l.filter (fun _ => true) = l := fun l => List.filter_eq_self.mpr (fun _ _ => rfl)
  simp [allKeys, this]

theorem nodup_eraseDups (l : List String) : l.eraseDups.Nodup := by
  generalize hn : l.length = n
  induction n using Nat.strongRecOn generalizing l with
  | _ n ih =>
    cases l with
    | nil => simp
    | cons a l =>
      rw [List.eraseDups_cons, List.nodup_cons]
      refine ⟨?_, ih _ ?_ _ rfl⟩
      · simp [List.mem_eraseDups, List.mem_filter]
      · simp only [List.length_cons] at hn
        have := List.length_filter_le (fun b => !b == a) l
        omega

theorem idxOf_cons_self (a : String) (l : List String) : List.idxOf a (a :: l) = 0 := by
  simp

theorem idxOf_cons_ne (a k : String) (l : List String) (h : a ≠ k) : List.idxOf k (a :: l) = List.idxOf k l + 1 := by
  have : (a == k) = false := by simpa using h
  simp [List.idxOf_cons, this]

theorem idxOf_filter_lt (p : String → Bool) (k1 k2 : String) (h1 : p k1 = true) (h2 : p k2 = true) (l : List String) :
    (List.idxOf k1 (l.filter p) < List.idxOf k2 (l.filter p)) ↔ (List.idxOf k1 l < List.idxOf k2 l) := by
  induction l with
  | nil => simp
  | cons a l ih =>
    by_cases ha1 : a = k1
    · subst ha1
      simp only [List.filter_cons, h1, if_true, idxOf_cons_self]
      by_cases ha2 : a = k2
      · subst ha2; simp
      · simp [idxOf_cons_ne _ _ _ ha2]
    · by_cases ha2 : a = k2
      · subst ha2
        simp [h2]
      · by_cases hp : p a = true
        · simp only [List.filter_cons, hp, if_true, idxOf_cons_ne _ _ _ ha1, idxOf_cons_ne _ _ _ ha2]
          omega
        · simp only [List.filter_cons, hp, Bool.false_eq_true, if_false, idxOf_cons_ne _ _ _ ha1,
            idxOf_cons_ne _ _ _ ha2]
          omega

/-- erasing later duplicates keeps the order of first appearance. -/
theorem idxOf_eraseDups_lt (k1 k2 : String) (l : List String) :
    (List.idxOf k1 l.eraseDups < List.idxOf k2 l.eraseDups) ↔ (List.idxOf k1 l < List.idxOf k2 l) := by
  generalize hn : l.length = n
  induction n using Nat.strongRecOn generalizing l with
  | _ n ih =>
    cases l with
    | nil => simp
    | cons a l =>
      rw [List.eraseDups_cons]
      by_cases ha1 : a = k1
      · subst ha1
        by_cases ha2 : a = k2
        · subst ha2; simp
        · simp [idxOf_cons_ne _ _ _ ha2]
      · by_cases ha2 : a = k2
        · subst ha2
          simp
        · simp only [idxOf_cons_ne _ _ _ ha1, idxOf_cons_ne _ _ _ ha2, Nat.add_lt_add_iff_right]
          have hlen : (l.filter (fun b => !b == a)).length < n := by
            simp only [List.length_cons] at hn
            have := List.length_filter_le (fun b => !b == a) l
            omega
          rw [ih _ hlen _ rfl]
          apply idxOf_filter_lt
          · simpa using fun h => ha1 h.symm
          · simpa using fun h => ha2 h.symm

/-- the key union holds every key exactly once ... -/
theorem unionKeys_nodup {β : Type} (recs : List (Rec β)) : (unionKeys recs).Nodup := by
  rw [unionKeys_eq_eraseDups]; exact nodup_eraseDups _

theorem mem_unionKeys {β : Type} (recs : List (Rec β)) (k : String) :
    k ∈ unionKeys recs ↔ ∃ r ∈ recs, k ∈ r.map (·.1) := by
  rw [unionKeys_eq_eraseDups, List.mem_eraseDups]
  simp [allKeys, List.mem_flatMap]

/-- ... in the order of first appearance over all records. -/
theorem unionKeys_first_seen {β : Type} (recs : List (Rec β)) (k1 k2 : String) :
    (List.idxOf k1 (unionKeys recs) < List.idxOf k2 (unionKeys recs)) ↔
      (List.idxOf k1 (allKeys recs) < List.idxOf k2 (allKeys recs)) := by
  rw [unionKeys_eq_eraseDups]; exact idxOf_eraseDups_lt k1 k2 _

/-- the keys of the first record come first, in its own order; then the new keys of the rest. -/
theorem unionKeys_cons {β : Type} (r : Rec β) (rs : List (Rec β)) (hnd : (r.map (·.1)).Nodup) :
    unionKeys (r :: rs) = r.map (·.1) ++ (unionKeys rs).filter (fun k => !(r.map (·.1)).contains k) := by
  rw [unionKeys_eq]
  simp only [List.flatMap_cons, List.foldl_append]
  rw [foldl_addKey_nodup (r.map (·.1)) [] (by simpa using hnd)]
  simp only [List.nil_append]
  rw [foldl_addKey_eq, unionKeys_eq_eraseDups]
  congr 1
  -- eraseDups commutes with filter
  show ((allKeys rs).filter (fun k => !(r.map (·.1)).contains k)).eraseDups = _
  generalize allKeys rs = l
  generalize (fun k => !(r.map (·.1)).contains k) = p
  generalize hn : l.length = n
  induction n using Nat.strongRecOn generalizing l with
  | _ n ih =>
    cases l with
    | nil => simp
    | cons a l =>
      have hlen : (l.filter (fun b => !b == a)).length < n := by
        simp only [List.length_cons] at hn
        have := List.length_filter_le (fun b => !b == a) l
        omega
      by_cases hp : p a = true
      · simp only [List.filter_cons, hp, if_true, List.eraseDups_cons]
        rw [← ih _ hlen _ rfl, List.filter_filter, List.filter_filter]
        congr 2
        apply List.filter_congr
        intro x _; exact Bool.and_comm _ _
      · simp only [List.filter_cons, hp, Bool.false_eq_true, if_false, List.eraseDups_cons]
        rw [← ih _ hlen _ rfl, List.filter_filter]
        congr 1
        apply List.filter_congr
        intro x _
        by_cases hx : x = a
        · subst hx; simp [hp]
        · simp [hx]

end DI.Read

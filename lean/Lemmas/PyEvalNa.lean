/-
  Lemmas/PyEvalNa.lean — the evaluator of `Model/PyEvalNa.lean` on the regenerated bodies of the missing-value helpers of
  `Vector` (`Generated/CodeC10.lean`): `na_value`, `na_dtype`, `is_na`, `drop_na`, `tolist`, `equal`, for every dtype class
  and every list of stored elements; and the link to the cell model (`vdropNa`, `vequal`, `isNaElem`).
-/
import Model.PyEvalNa
import Model.Vector
import Lemmas.Construct
import Lemmas.ConstructMore

namespace DI.PyEvalNa

open DI DI.Py DI.Construct DI.Gen

/-! ### unfolding the evaluator -/

theorem evalExpr_sym (M : Methods) (env : Env) (s : String) : evalExpr M env (.sym s) = some (lookupSym env s) := by
  rw [evalExpr]

theorem evalArgs_nil (M : Methods) (env : Env) : evalArgs M env [] = some [] := by rw [evalArgs]

theorem evalArgs_cons (M : Methods) (env : Env) (t : Term) (ts : List Term) (v : Val) (vs : List Val)
    (h : evalExpr M env t = some v) (hs : evalArgs M env ts = some vs) : evalArgs M env (t :: ts) = some (v :: vs) := by
  rw [evalArgs, h, hs]

theorem evalArgs1 {M : Methods} {env : Env} {a : Term} {va : Val} (ha : evalExpr M env a = some va) :
    evalArgs M env [a] = some [va] := evalArgs_cons M env a [] va [] ha (evalArgs_nil M env)

theorem evalArgs2 {M : Methods} {env : Env} {a b : Term} {va vb : Val} (ha : evalExpr M env a = some va)
    (hb : evalExpr M env b = some vb) : evalArgs M env [a, b] = some [va, vb] :=
  evalArgs_cons M env a [b] va [vb] ha (evalArgs1 hb)

theorem evalArgs3 {M : Methods} {env : Env} {a b c : Term} {va vb vc : Val} (ha : evalExpr M env a = some va)
    (hb : evalExpr M env b = some vb) (hc : evalExpr M env c = some vc) :
    evalArgs M env [a, b, c] = some [va, vb, vc] := evalArgs_cons M env a [b, c] va [vb, vc] ha (evalArgs2 hb hc)

/-- an ordinary call: the arguments, then the method table or the primitive. -/
theorem evalExpr_call (M : Methods) (env : Env) (g : String) (args : List Term) (vs : List Val)
    (h1 : g ≠ "ListComp") (h2 : g ≠ "And") (h : evalArgs M env args = some vs) :
    evalExpr M env (.app g args) = if isMethod g then M g vs else prim g vs := by
  rw [evalExpr]
  simp only [h]
  · intro _ _ _ hf _; exact h1 hf
  · intro _ _ hf _; exact h2 hf

theorem evalExpr_prim {M : Methods} {env : Env} {g : String} {args : List Term} {vs : List Val}
    (h1 : g ≠ "ListComp") (h2 : g ≠ "And") (hm : isMethod g = false) (h : evalArgs M env args = some vs) :
    evalExpr M env (.app g args) = prim g vs := by
  rw [evalExpr_call M env g args vs h1 h2 h, hm]; rfl

theorem evalExpr_method {M : Methods} {env : Env} {g : String} {args : List Term} {vs : List Val}
    (h1 : g ≠ "ListComp") (h2 : g ≠ "And") (hm : isMethod g = true) (h : evalArgs M env args = some vs) :
    evalExpr M env (.app g args) = M g vs := by
  rw [evalExpr_call M env g args vs h1 h2 h, hm]; rfl

theorem evalExpr_and (M : Methods) (env : Env) (a b : Term) :
    evalExpr M env (.app "And" [a, b]) =
      (match evalExpr M env a with
       | some (.bool false) => some (.bool false)
       | some (.bool true) =>
         (match evalExpr M env b with
          | some (.bool r) => some (.bool r)
          | _ => none)
       | _ => none) := by
  rw [evalExpr]; rfl

theorem evalExpr_listcomp (M : Methods) (env : Env) (elem src : Term) (x : String) :
    evalExpr M env (.app "ListComp" [elem, .app "in" [.sym x, src, .app "if" []]]) =
      (match evalExpr M env src with
       | some (.vec _ xs) =>
         match allSome (xs.map (fun e => evalExpr M ((x, .el e) :: env) elem)) with
         | none => none
         | some vs => (collectBools vs).map Val.bools
       | _ => none) := by
  rw [evalExpr]; rfl

theorem allSome_map {α β : Type} (f : α → Option β) (g : α → β) (l : List α) (h : ∀ x ∈ l, f x = some (g x)) :
    allSome (l.map f) = some (l.map g) := by
  induction l with
  | nil => rfl
  | cons a t ih =>
    have ha := h a (List.mem_cons_self)
    have ht := ih (fun x hx => h x (List.mem_cons_of_mem _ hx))
    simp only [List.map_cons, ha, allSome, ht]

theorem collectBools_map {α : Type} (f : α → Bool) (l : List α) :
    collectBools (l.map (fun x => Val.bool (f x))) = some (l.map f) := by
  induction l with
  | nil => rfl
  | cons a t ih => simp only [List.map_cons, collectBools, ih]

/-! ### the receiver and the dtype predicates -/

theorem self_eval (M : Methods) (c : DClass) (xs : List El) :
    evalExpr M (selfEnv c xs) (.sym "self") = some (.vec c xs) := by
  rw [evalExpr_sym]; rfl

theorem self_eval2 (M : Methods) (c d : DClass) (xs ys : List El) :
    evalExpr M (equalEnv c xs d ys) (.sym "self") = some (.vec c xs) := by
  rw [evalExpr_sym]; rfl

theorem other_eval2 (M : Methods) (c d : DClass) (xs ys : List El) :
    evalExpr M (equalEnv c xs d ys) (.sym "other") = some (.vec d ys) := by
  rw [evalExpr_sym]; rfl

/-- a dtype predicate on the receiver, under any method table. -/
theorem pred_eval (M : Methods) (c : DClass) (xs : List El) (p : String) (b : Bool)
    (h1 : p ≠ "ListComp") (h2 : p ≠ "And") (hm : isMethod p = false)
    (hp : prim p [.vec c xs] = some (.bool b)) :
    truthOf M (selfEnv c xs) (.app p [.sym "self"]) = b := by
  unfold truthOf
  rw [evalExpr_prim h1 h2 hm (evalArgs1 (self_eval M c xs)), hp]

theorem is_datetime_truth (M : Methods) (c : DClass) (xs : List El) :
    truthOf M (selfEnv c xs) (.app ".is_datetime" [.sym "self"]) = (c == .date || c == .datetime) :=
  pred_eval M c xs _ _ (by decide) (by decide) (by decide) rfl
theorem is_timedelta_truth (M : Methods) (c : DClass) (xs : List El) :
    truthOf M (selfEnv c xs) (.app ".is_timedelta" [.sym "self"]) = (c == .timedelta) :=
  pred_eval M c xs _ _ (by decide) (by decide) (by decide) rfl
theorem is_float_truth (M : Methods) (c : DClass) (xs : List El) :
    truthOf M (selfEnv c xs) (.app ".is_float" [.sym "self"]) = (c == .float) :=
  pred_eval M c xs _ _ (by decide) (by decide) (by decide) rfl
theorem is_integer_truth (M : Methods) (c : DClass) (xs : List El) :
    truthOf M (selfEnv c xs) (.app ".is_integer" [.sym "self"]) = (c == .int || c == .timedelta) :=
  pred_eval M c xs _ _ (by decide) (by decide) (by decide) rfl
theorem is_string_truth (M : Methods) (c : DClass) (xs : List El) :
    truthOf M (selfEnv c xs) (.app ".is_string" [.sym "self"]) = (c == .str) :=
  pred_eval M c xs _ _ (by decide) (by decide) (by decide) rfl
theorem is_string_fixed_truth (M : Methods) (c : DClass) (xs : List El) :
    truthOf M (selfEnv c xs) (.app "._is_string_fixed" [.sym "self"]) = (c == .ustr) :=
  pred_eval M c xs _ _ (by decide) (by decide) (by decide) rfl

/-! ### `is_na`, `na_value`, `na_dtype`: the decision chains, run -/

theorem isnat_run (c : DClass) (xs : List El) (hc : (c == .date || c == .datetime || c == .timedelta) = true) :
    evalExpr M0 (selfEnv c xs) (.app "np.isnat" [.sym "self"]) = some (.mask (xs.map (· == .nat))) := by
  rw [evalExpr_prim (by decide) (by decide) (by decide) (evalArgs1 (self_eval M0 c xs))]
  show (if (c == .date || c == .datetime || c == .timedelta) = true then _ else _) = _
  rw [if_pos hc]

theorem isnan_run (xs : List El) :
    evalExpr M0 (selfEnv .float xs) (.app "np.isnan" [.sym "self"]) = some (.mask (xs.map (· == .nan))) := by
  rw [evalExpr_prim (by decide) (by decide) (by decide) (evalArgs1 (self_eval M0 .float xs))]; rfl

theorem pyEq_blank (e : El) : pyEq e blank = (e == blank) := by
  unfold pyEq
  by_cases h : e = blank
  · subst h; decide
  · have : (e == blank) = false := by simpa using h
    rw [this]; rfl

theorem eqblank_run (c : DClass) (xs : List El) :
    evalExpr M0 (selfEnv c xs) (.app "Eq" [.sym "self", .sym "dtypes.string.na_object"]) =
      some (.mask (xs.map (· == blank))) := by
  rw [evalExpr_prim (by decide) (by decide) (by decide)
    (evalArgs2 (self_eval M0 c xs) (evalExpr_sym M0 _ "dtypes.string.na_object"))]
  show some (Val.mask (xs.map (fun x => pyEq x blank))) = _
  simp only [pyEq_blank]

theorem isnone_elem (c : DClass) (xs : List El) (e : El) :
    evalExpr M0 (("x", .el e) :: selfEnv c xs) (.app "Is" [.sym "x", .sym "None"]) = some (.bool (e == .pyNone)) := by
  rw [evalExpr_prim (by decide) (by decide) (by decide)
    (evalArgs2 (evalExpr_sym M0 _ "x") (evalExpr_sym M0 _ "None"))]
  rfl

theorem isnone_run (c : DClass) (xs : List El) :
    evalExpr M0 (selfEnv c xs) (.app ".fast" [.sym "self",
      .app "ListComp" [.app "Is" [.sym "x", .sym "None"], .app "in" [.sym "x", .sym "self", .app "if" []]],
      .sym "bool"]) = some (.mask (xs.map (· == .pyNone))) := by
  have hl : evalExpr M0 (selfEnv c xs)
      (.app "ListComp" [.app "Is" [.sym "x", .sym "None"], .app "in" [.sym "x", .sym "self", .app "if" []]]) =
      some (.bools (xs.map (· == .pyNone))) := by
    rw [evalExpr_listcomp, self_eval]
    simp only
    rw [allSome_map _ (fun e => Val.bool (e == .pyNone)) xs (fun e _ => isnone_elem c xs e)]
    simp only [collectBools_map, Option.map_some]
  rw [evalExpr_prim (by decide) (by decide) (by decide)
    (evalArgs3 (self_eval M0 c xs) hl (evalExpr_sym M0 _ "bool"))]
  rfl

/-- **is_na**: the regenerated decision chain, run on a vector of class `c`, flags exactly the elements `isNaEl c`
    recognises — for every class and every list of elements. -/
theorem is_na_run (c : DClass) (xs : List El) :
    M1 ".is_na" [.vec c xs] = some (.mask (xs.map (isNaEl c))) := by
  show runRet M0 (selfEnv c xs) (Vector_is_na (truthOf M0 (selfEnv c xs))) = _
  unfold Vector_is_na
  rw [is_datetime_truth, is_timedelta_truth, is_float_truth, is_string_truth, is_string_fixed_truth]
  cases c
  case date => exact isnat_run .date xs rfl
  case datetime => exact isnat_run .datetime xs rfl
  case timedelta => exact isnat_run .timedelta xs rfl
  case float => exact isnan_run xs
  case str => exact eqblank_run .str xs
  case ustr => exact eqblank_run .ustr xs
  case bool => exact isnone_run .bool xs
  case int => exact isnone_run .int xs
  case bytes => exact isnone_run .bytes xs
  case object => exact isnone_run .object xs

/-- **na_value**: the regenerated chain returns the class's missing value. -/
theorem na_value_run (c : DClass) (xs : List El) :
    M1 ".na_value" [.vec c xs] = some (.el (naEl c)) := by
  show runRet M0 (selfEnv c xs) (Vector_na_value (truthOf M0 (selfEnv c xs))) = _
  unfold Vector_na_value
  rw [is_datetime_truth, is_timedelta_truth, is_float_truth, is_integer_truth, is_string_truth, is_string_fixed_truth]
  have hdt : evalExpr M0 (selfEnv c xs) (.app "np.datetime64" [.sym "'NaT'"]) = some (.el .nat) := by
    rw [evalExpr_prim (by decide) (by decide) (by decide) (evalArgs1 (evalExpr_sym M0 _ "'NaT'"))]; rfl
  have htd : evalExpr M0 (selfEnv c xs) (.app "np.timedelta64" [.sym "'NaT'"]) = some (.el .nat) := by
    rw [evalExpr_prim (by decide) (by decide) (by decide) (evalArgs1 (evalExpr_sym M0 _ "'NaT'"))]; rfl
  cases c
  case date => exact hdt
  case datetime => exact hdt
  case timedelta => exact htd
  case float => exact evalExpr_sym M0 _ "np.nan"
  case int => exact evalExpr_sym M0 _ "np.nan"
  case str => exact evalExpr_sym M0 _ "dtypes.string.na_object"
  case ustr => exact evalExpr_sym M0 _ "dtypes.string.na_object"
  case bool => exact evalExpr_sym M0 _ "None"
  case bytes => exact evalExpr_sym M0 _ "None"
  case object => exact evalExpr_sym M0 _ "None"

/-- **na_dtype**: the class that can hold the missing value. -/
theorem na_dtype_run (c : DClass) (xs : List El) :
    M1 ".na_dtype" [.vec c xs] = some (.dtype (naDtype c)) := by
  show runRet M0 (selfEnv c xs) (Vector_na_dtype (truthOf M0 (selfEnv c xs))) = _
  unfold Vector_na_dtype
  rw [is_datetime_truth, is_timedelta_truth, is_float_truth, is_integer_truth, is_string_truth, is_string_fixed_truth]
  have hd : evalExpr M0 (selfEnv c xs) (.app ".dtype" [.sym "self"]) = some (.dtype c) := by
    rw [evalExpr_prim (by decide) (by decide) (by decide) (evalArgs1 (self_eval M0 c xs))]; rfl
  cases c
  case int => exact evalExpr_sym M0 _ "float"
  case bool => exact evalExpr_sym M0 _ "object"
  case bytes => exact evalExpr_sym M0 _ "object"
  case object => exact evalExpr_sym M0 _ "object"
  all_goals exact hd

/-! ### list facts -/

theorem select_map_filter {α : Type} (p : α → Bool) (xs : List α) : select (xs.map p) xs = xs.filter p := by
  induction xs with
  | nil => rfl
  | cons x t ih =>
    cases hp : p x <;> simp only [List.map_cons, hp, select, List.filter_cons, ih] <;> simp

theorem zipWith_where (p : El → Bool) (xs : List El) :
    List.zipWith (fun b x => if b then El.pyNone else x) (xs.map p) xs = xs.map (fun e => if p e then El.pyNone else e) := by
  induction xs with
  | nil => rfl
  | cons x t ih => simp only [List.map_cons, List.zipWith_cons_cons, ih]

theorem all_zipWith_beq (a b : List Bool) (h : a.length = b.length) :
    (List.zipWith (· == ·) a b).all id = (a == b) := by
  induction a generalizing b with
  | nil => cases b with
    | nil => rfl
    | cons y t => simp at h
  | cons x s ih =>
    cases b with
    | nil => simp at h
    | cons y t =>
      have := ih t (by simpa using h)
      simp only [List.zipWith_cons_cons, List.all_cons, id, this, List.cons_beq_cons]

theorem all_zipWith_pyEq (a b : List El) (h : a.length = b.length) (hc : ∀ e ∈ a, e ≠ .nan ∧ e ≠ .nat) :
    (List.zipWith pyEq a b).all id = (a == b) := by
  induction a generalizing b with
  | nil => cases b with
    | nil => rfl
    | cons y t => simp at h
  | cons x s ih =>
    cases b with
    | nil => simp at h
    | cons y t =>
      have := ih t (by simpa using h) (fun e he => hc e (List.mem_cons_of_mem _ he))
      have hx := hc x List.mem_cons_self
      have hxy : pyEq x y = (x == y) := by
        unfold pyEq
        have h1 : (x != El.nan) = true := by simpa using hx.1
        have h2 : (x != El.nat) = true := by simpa using hx.2
        rw [h1, h2]; simp
      simp only [List.zipWith_cons_cons, List.all_cons, id, this, List.cons_beq_cons, hxy]

theorem pyEq_comm (a b : El) : pyEq a b = pyEq b a := by
  unfold pyEq
  by_cases h : a = b
  · subst h; rfl
  · have h' : ¬ b = a := fun e => h e.symm
    have e1 : (a == b) = false := by simpa using h
    have e2 : (b == a) = false := by simpa using h'
    rw [e1, e2]; rfl

theorem zipWith_pyEq_comm (a b : List El) : List.zipWith pyEq a b = List.zipWith pyEq b a := by
  induction a generalizing b with
  | nil => cases b <;> rfl
  | cons x s ih =>
    cases b with
    | nil => rfl
    | cons y t => simp only [List.zipWith_cons_cons, ih t, pyEq_comm x y]

theorem filter_length_of_map_eq {α : Type} (p : α → Bool) (xs ys : List α) (h : xs.map p = ys.map p) :
    (xs.filter (fun e => !p e)).length = (ys.filter (fun e => !p e)).length := by
  induction xs generalizing ys with
  | nil =>
    cases ys with
    | nil => rfl
    | cons y t => simp at h
  | cons x s ih =>
    cases ys with
    | nil => simp at h
    | cons y t =>
      simp only [List.map_cons, List.cons.injEq] at h
      have := ih t h.2
      simp only [List.filter_cons, h.1]
      cases p y <;> simp [this]

/-! ### `drop_na`, `tolist` -/

theorem is_na_call (env : Env) (x : String) (vx : DClass) (vs : List El)
    (hx : evalExpr M1 env (.sym x) = some (.vec vx vs)) :
    evalExpr M1 env (.app ".is_na" [.sym x]) = some (.mask (vs.map (isNaEl vx))) := by
  rw [evalExpr_method (by decide) (by decide) (by decide) (evalArgs1 hx), is_na_run]

theorem not_is_na_call (env : Env) (x : String) (vx : DClass) (vs : List El)
    (hx : evalExpr M1 env (.sym x) = some (.vec vx vs)) :
    evalExpr M1 env (.app "~" [.app ".is_na" [.sym x]]) = some (.mask (vs.map (fun e => !isNaEl vx e))) := by
  rw [evalExpr_prim (by decide) (by decide) (by decide) (evalArgs1 (is_na_call env x vx vs hx))]
  show some (Val.mask ((vs.map (isNaEl vx)).map (!·))) = _
  rw [List.map_map]; rfl

theorem kept_call (env : Env) (x : String) (vx : DClass) (vs : List El)
    (hx : evalExpr M1 env (.sym x) = some (.vec vx vs)) :
    evalExpr M1 env (.app "getitem" [.sym x, .app "~" [.app ".is_na" [.sym x]]]) = some (.vec vx (dropNa vx vs)) := by
  rw [evalExpr_prim (by decide) (by decide) (by decide) (evalArgs2 hx (not_is_na_call env x vx vs hx))]
  show (if (vs.map (fun e => !isNaEl vx e)).length = vs.length then _ else _) = _
  rw [if_pos (by simp), select_map_filter]; rfl

/-- **drop_na**: `self[~self.is_na()].copy()` = the elements `is_na` does not flag, in order. -/
theorem drop_na_run (c : DClass) (xs : List El) : dropNaRun c xs = some (.vec c (dropNa c xs)) := by
  show runRet M1 (selfEnv c xs) (Vector_drop_na _) = _
  unfold Vector_drop_na
  simp only [runRet]
  rw [evalExpr_prim (by decide) (by decide) (by decide) (evalArgs1 (kept_call _ "self" c xs (self_eval M1 c xs)))]
  rfl

/-- **tolist**: `np.where(self.is_na(), None, self).tolist()` = None exactly at the flagged positions. -/
theorem tolist_run (c : DClass) (xs : List El) :
    tolistRun c xs = some (.list (xs.map (fun e => if isNaEl c e then El.pyNone else e))) := by
  show runRet M1 (selfEnv c xs) (Vector_tolist _) = _
  unfold Vector_tolist
  simp only [runRet]
  have hw : evalExpr M1 (selfEnv c xs) (.app "np.where" [.app ".is_na" [.sym "self"], .sym "None", .sym "self"]) =
      some (.arr (xs.map (fun e => if isNaEl c e then El.pyNone else e))) := by
    rw [evalExpr_prim (by decide) (by decide) (by decide)
      (evalArgs3 (is_na_call _ "self" c xs (self_eval M1 c xs)) (evalExpr_sym M1 _ "None") (self_eval M1 c xs))]
    show (if (xs.map (isNaEl c)).length = xs.length then _ else _) = _
    rw [if_pos (by simp), zipWith_where]
  rw [evalExpr_prim (by decide) (by decide) (by decide) (evalArgs1 hw)]
  rfl

/-! ### `equal` -/

/-- `str(na_value)` of a class. -/
def strNa (c : DClass) : String :=
  match naOfClass c with
  | .nan => "nan" | .nat => "NaT" | .emptyStr => "" | .pyNone => "None"

/-- what `equal` computes for two vectors of one class and one length. -/
def equalSpec (c : DClass) (xs ys : List El) : Bool :=
  (xs.map (isNaEl c) == ys.map (isNaEl c)) && (List.zipWith pyEq (dropNa c xs) (dropNa c ys)).all id

theorem str_na_call (c d : DClass) (xs ys : List El) (x : String) (vx : DClass) (vs : List El)
    (hx : evalExpr M1 (equalEnv c xs d ys) (.sym x) = some (.vec vx vs)) :
    evalExpr M1 (equalEnv c xs d ys) (.app "str" [.app ".na_value" [.sym x]]) = some (.name (strNa vx)) := by
  have h1 : evalExpr M1 (equalEnv c xs d ys) (.app ".na_value" [.sym x]) = some (.el (naEl vx)) := by
    rw [evalExpr_method (by decide) (by decide) (by decide) (evalArgs1 hx), na_value_run]
  rw [evalExpr_prim (by decide) (by decide) (by decide) (evalArgs1 h1)]
  cases vx <;> rfl

theorem isinstance_truth (c d : DClass) (xs ys : List El) :
    truthOf M1 (equalEnv c xs d ys) (.app "isinstance" [.sym "other", .sym "Vector"]) = true := by
  unfold truthOf
  rw [evalExpr_prim (by decide) (by decide) (by decide)
    (evalArgs2 (other_eval2 M1 c d xs ys) (evalExpr_sym M1 _ "Vector"))]
  rfl

theorem same_na_truth (c d : DClass) (xs ys : List El) :
    truthOf M1 (equalEnv c xs d ys) (.app "Eq" [.app "str" [.app ".na_value" [.sym "self"]],
      .app "str" [.app ".na_value" [.sym "other"]]]) = (strNa c == strNa d) := by
  unfold truthOf
  rw [evalExpr_prim (by decide) (by decide) (by decide)
    (evalArgs2 (str_na_call c d xs ys "self" c xs (self_eval2 M1 c d xs ys))
      (str_na_call c d xs ys "other" d ys (other_eval2 M1 c d xs ys)))]
  rfl

theorem false_run (M : Methods) (env : Env) : runRet M env (Out.ret [] (Term.sym "False")) = some (.bool false) := by
  simp only [runRet]; rw [evalExpr_sym]; rfl

/-- **equal, the guard**: vectors of different lengths, or whose classes have different missing values, are unequal
    (`False`, no error). -/
theorem equal_run_guard (c d : DClass) (xs ys : List El) (h : xs.length ≠ ys.length ∨ strNa c ≠ strNa d) :
    equalRun c xs d ys = some (.bool false) := by
  show runRet M1 (equalEnv c xs d ys) (Vector_equal _ _ _) = _
  unfold Vector_equal
  rw [isinstance_truth, same_na_truth]
  have : (!(true && decide ((xs.length : Int) = (ys.length : Int)) && (strNa c == strNa d))) = true := by
    rcases h with h | h
    · have : ¬ ((xs.length : Int) = (ys.length : Int)) := by omega
      simp [this]
    · simp [h]
  rw [if_pos this]
  exact false_run M1 _

/-- **equal, one class**: same length, same missing positions, and `==` true at every pair of non-missing elements. -/
theorem equal_run (c : DClass) (xs ys : List El) :
    equalRun c xs c ys = some (.bool (decide (xs.length = ys.length) && equalSpec c xs ys)) := by
  by_cases hlen : xs.length = ys.length
  · show runRet M1 (equalEnv c xs c ys) (Vector_equal _ _ _) = _
    unfold Vector_equal
    rw [isinstance_truth, same_na_truth]
    have : (!(true && decide ((xs.length : Int) = (ys.length : Int)) && (strNa c == strNa c))) = false := by
      have : ((xs.length : Int) = (ys.length : Int)) := by omega
      simp [this]
    rw [this]
    simp only [Bool.false_eq_true, if_false, runRet]
    have hs := self_eval2 M1 c c xs ys
    have ho := other_eval2 M1 c c xs ys
    have hii := is_na_call (equalEnv c xs c ys) "self" c xs hs
    have hjj := is_na_call (equalEnv c xs c ys) "other" c ys ho
    have hmask : evalExpr M1 (equalEnv c xs c ys)
        (.app "np.all" [.app "Eq" [.app ".is_na" [.sym "self"], .app ".is_na" [.sym "other"]]]) =
        some (.bool (xs.map (isNaEl c) == ys.map (isNaEl c))) := by
      have he : evalExpr M1 (equalEnv c xs c ys) (.app "Eq" [.app ".is_na" [.sym "self"], .app ".is_na" [.sym "other"]]) =
          some (.mask (List.zipWith (· == ·) (xs.map (isNaEl c)) (ys.map (isNaEl c)))) := by
        rw [evalExpr_prim (by decide) (by decide) (by decide) (evalArgs2 hii hjj)]
        show (if (xs.map (isNaEl c)).length = (ys.map (isNaEl c)).length then _ else _) = _
        rw [if_pos (by simpa using hlen)]
      rw [evalExpr_prim (by decide) (by decide) (by decide) (evalArgs1 he)]
      show some (Val.bool ((List.zipWith (· == ·) (xs.map (isNaEl c)) (ys.map (isNaEl c))).all id)) = _
      rw [all_zipWith_beq _ _ (by simpa using hlen)]
    rw [evalExpr_and, hmask]
    simp only [hlen, decide_true, Bool.true_and, equalSpec]
    cases hm : (xs.map (isNaEl c) == ys.map (isNaEl c))
    · rfl
    · have hmeq : xs.map (isNaEl c) = ys.map (isNaEl c) := by simpa using hm
      have hl2 : (dropNa c xs).length = (dropNa c ys).length := filter_length_of_map_eq (isNaEl c) xs ys hmeq
      have hv : evalExpr M1 (equalEnv c xs c ys)
          (.app "np.all" [.app "Eq" [.app "getitem" [.sym "self", .app "~" [.app ".is_na" [.sym "self"]]],
            .app "getitem" [.sym "other", .app "~" [.app ".is_na" [.sym "other"]]]]]) =
          some (.bool ((List.zipWith pyEq (dropNa c xs) (dropNa c ys)).all id)) := by
        have he : evalExpr M1 (equalEnv c xs c ys)
            (.app "Eq" [.app "getitem" [.sym "self", .app "~" [.app ".is_na" [.sym "self"]]],
              .app "getitem" [.sym "other", .app "~" [.app ".is_na" [.sym "other"]]]]) =
            some (.mask (List.zipWith pyEq (dropNa c xs) (dropNa c ys))) := by
          rw [evalExpr_prim (by decide) (by decide) (by decide)
            (evalArgs2 (kept_call _ "self" c xs hs) (kept_call _ "other" c ys ho))]
          show (if c = c ∧ (dropNa c xs).length = (dropNa c ys).length then _ else _) = _
          rw [if_pos ⟨rfl, hl2⟩]
        rw [evalExpr_prim (by decide) (by decide) (by decide) (evalArgs1 he)]
        rfl
      simp only [hv, Bool.true_and]
  · rw [equal_run_guard c c xs ys (Or.inl hlen)]
    simp [hlen]

/-! ### the link to the cell model -/

theorem cells_isNone (c : DClass) (xs : List El) : (cells c xs).map (·.isNone) = xs.map (isNaEl c) := by
  unfold cells
  rw [List.map_map]
  apply List.map_congr_left
  intro e _
  simp only [Function.comp, cellOf]
  cases isNaEl c e <;> rfl

theorem cells_isNa (c : DClass) (xs : List El) : (cells c xs).map DI.isNa = xs.map (isNaEl c) := cells_isNone c xs

theorem cells_filterMap (c : DClass) (xs : List El) : (cells c xs).filterMap id = dropNa c xs := by
  unfold cells dropNa
  induction xs with
  | nil => rfl
  | cons e t ih =>
    simp only [List.map_cons, List.filter_cons, cellOf]
    cases h : isNaEl c e
    · simp only [Bool.false_eq_true, if_false, List.filterMap_cons, id, Bool.not_false, if_true, ih]
    · simp only [if_true, List.filterMap_cons, id, Bool.not_true, Bool.false_eq_true, if_false, ih]

/-- `drop_na` on elements is the model's `vdropNa` on cells. -/
theorem dropNa_eq_vdropNa (c : DClass) (xs : List El) : dropNa c xs = More.vdropNa (cells c xs) :=
  (cells_filterMap c xs).symm

theorem cells_length (c : DClass) (xs : List El) : (cells c xs).length = xs.length := by simp [cells]

/-- the list `tolist` returns is the cells, missing ↦ None. -/
theorem tolist_eq_cells (c : DClass) (xs : List El) :
    xs.map (fun e => if isNaEl c e then El.pyNone else e) = (cells c xs).map pyOfCell := by
  unfold cells
  rw [List.map_map]
  apply List.map_congr_left
  intro e _
  simp only [Function.comp, cellOf]
  cases isNaEl c e <;> rfl

theorem clean_dropNa {c : DClass} {xs : List El} (h : Clean c xs) : ∀ e ∈ dropNa c xs, e ≠ .nan ∧ e ≠ .nat := by
  intro e he
  have := List.mem_filter.mp he
  exact h e this.1 (by simpa using this.2)

/-- under `Clean` (on one side), what `equal` computes is the model's `vequal` of the cells. -/
theorem equalSpec_eq_vequal (c : DClass) (xs ys : List El) (h : Clean c xs) :
    (decide (xs.length = ys.length) && equalSpec c xs ys) = vequal (cells c xs) (cells c ys) := by
  unfold vequal equalSpec
  rw [cells_length, cells_length, cells_isNone, cells_isNone, cells_filterMap, cells_filterMap]
  have hd : decide (xs.length = ys.length) = (xs.length == ys.length) := by
    by_cases hl : xs.length = ys.length <;> simp [hl]
  rw [hd, ← Bool.and_assoc]
  cases hm : (xs.map (isNaEl c) == ys.map (isNaEl c))
  · simp
  · have hmeq : xs.map (isNaEl c) = ys.map (isNaEl c) := by simpa using hm
    have hl : (dropNa c xs).length = (dropNa c ys).length := filter_length_of_map_eq (isNaEl c) xs ys hmeq
    rw [all_zipWith_pyEq (dropNa c xs) (dropNa c ys) hl (clean_dropNa h)]

/-- `equal` is reflexive on a vector EXACTLY when every non-missing element equals itself. -/
theorem equalSpec_refl_iff (c : DClass) (xs : List El) : equalSpec c xs xs = true ↔ Clean c xs := by
  unfold equalSpec
  simp only [BEq.rfl, Bool.true_and]
  constructor
  · intro h e he hna
    have hmem : e ∈ dropNa c xs := List.mem_filter.mpr ⟨he, by simp [hna]⟩
    have hall : ∀ e ∈ dropNa c xs, pyEq e e = true := by
      generalize dropNa c xs = l at h
      induction l with
      | nil => intro e he; cases he
      | cons a t ih =>
        simp only [List.zipWith_cons_cons, List.all_cons, id, Bool.and_eq_true] at h
        intro e he
        rcases List.mem_cons.mp he with rfl | he'
        · exact h.1
        · exact ih h.2 e he'
    have := hall e hmem
    unfold pyEq at this
    simp only [Bool.and_eq_true, bne_iff_ne, ne_eq] at this
    exact ⟨this.1.2, this.2⟩
  · intro h
    rw [all_zipWith_pyEq _ _ rfl (clean_dropNa h)]
    simp

theorem equalSpec_comm (c : DClass) (xs ys : List El) : equalSpec c xs ys = equalSpec c ys xs := by
  unfold equalSpec
  rw [zipWith_pyEq_comm]
  congr 1
  exact Bool.beq_comm

/-- a vector whose elements fit its (non-object) class has no NaN / NaT that `is_na` does not flag. -/
theorem clean_of_storable (c : DClass) (xs : List El) (hc : c ≠ .object) (h : ∀ e ∈ xs, Storable c e = true) :
    Clean c xs := by
  intro e he hna
  have hs := h e he
  cases c <;> cases e <;> simp_all [Storable, isNaEl]

/-- `isNaEl` is the model's `isNaElem` on the element as `Model/Construct.lean` sees it. -/
theorem isNaEl_eq_isNaElem (c : DClass) (e : El) (h : Storable c e = true) :
    isNaEl c e = isNaElem c (toElem c e) := by
  cases e with
  | nan => cases c <;> first | rfl | simp [Storable] at h
  | nat => cases c <;> first | rfl | simp [Storable] at h
  | pyNone => cases c <;> first | rfl | simp [Storable] at h
  | v k =>
    cases k with
    | b x => cases c <;> first | rfl | simp [Storable] at h
    | i x => cases c <;> first | rfl | simp [Storable] at h
    | o x => cases c <;> first | rfl | simp [Storable] at h
    | s cs => cases cs <;> cases c <;> first | rfl | simp [Storable] at h

theorem dropNa_idem (c : DClass) (xs : List El) : dropNa c (dropNa c xs) = dropNa c xs := by
  unfold dropNa
  rw [List.filter_filter]
  simp

theorem dropNa_no_na (c : DClass) (xs : List El) : ∀ e ∈ dropNa c xs, isNaEl c e = false := by
  intro e he
  simpa using (List.mem_filter.mp he).2

/-- the class `na_dtype` names flags the vector's own `na_value`. -/
theorem isNaEl_naDtype (c : DClass) : isNaEl (naDtype c) (naEl c) = true := by
  cases c <;> rfl

theorem storable_naDtype (c : DClass) : Storable (naDtype c) (naEl c) = true := by
  cases c <;> rfl

theorem tolist_none_iff (c : DClass) (e : El) (h : Storable c e = true) :
    (if isNaEl c e then El.pyNone else e) = El.pyNone ↔ isNaEl c e = true := by
  cases c <;> cases e <;> simp_all [Storable, isNaEl]

end DI.PyEvalNa

/-
  Lemmas/Rank.lean — the `unique → inverse → bincount → cumsum` pipeline of `Vector.rank`
  computes "one plus the number of elements ordered strictly before" (min) and
  "the number of elements ordered before or equal" (max).
-/
import Model.Vector
import Lemmas.Sort

namespace DI

variable {κ : Type} [DecidableEq κ]

/-! ### counting -/

theorem length_filter_add_not (p : α → Bool) (l : List α) :
    (l.filter p).length + (l.filter (fun x => !p x)).length = l.length := by
  induction l with
  | nil => simp
  | cons a l ih =>
    simp only [List.filter_cons]
    cases h : p a <;> simp [h] <;> omega

theorem length_filter_le_of_imp {p q : α → Bool} (l : List α) (h : ∀ x ∈ l, p x → q x) :
    (l.filter p).length ≤ (l.filter q).length := by
  induction l with
  | nil => simp
  | cons a l ih =>
    have ih' := ih (fun x hx => h x (by simp [hx]))
    have ha := h a (by simp)
    simp only [List.filter_cons]
    cases hp : p a <;> cases hq : q a <;> simp [hp, hq] at ha ⊢ <;> omega

theorem length_filter_lt_of_imp {p q : α → Bool} (l : List α) (h : ∀ x ∈ l, p x → q x)
    (a : α) (ha : a ∈ l) (hpa : p a = false) (hqa : q a = true) :
    (l.filter p).length < (l.filter q).length := by
  induction l with
  | nil => simp at ha
  | cons b l ih =>
    have himp : ∀ x ∈ l, p x → q x := fun x hx => h x (by simp [hx])
    simp only [List.filter_cons]
    rcases List.mem_cons.mp ha with rfl | hal
    · have := length_filter_le_of_imp l himp
      simp [hpa, hqa]; omega
    · have := ih himp hal
      have hb := h b (by simp)
      cases hp : p b <;> cases hq : q b <;> simp [hp, hq] at hb ⊢ <;> omega

/-! ### cumsum / bincount -/

theorem cumsumFrom_get (acc : Nat) (l : List Nat) (t : Nat) (ht : t < l.length) :
    (cumsumFrom acc l)[t]? = some (acc + (l.take (t + 1)).sum) := by
  induction l generalizing acc t with
  | nil => simp at ht
  | cons x l ih =>
    cases t with
    | zero => simp [cumsumFrom]
    | succ t =>
      simp only [cumsumFrom, List.getElem?_cons_succ]
      rw [ih (acc + x) t (by simpa using ht)]
      simp [List.take_succ_cons, Nat.add_assoc]

theorem length_filter_lt_succ (l : List Nat) (t : Nat) :
    (l.filter (fun x => x < t + 1)).length =
      (l.filter (fun x => x < t)).length + (l.filter (fun x => x == t)).length := by
  induction l with
  | nil => simp
  | cons a l ihl =>
    simp only [List.filter_cons]
    by_cases h1 : a < t
    · have h2 : ¬ a = t := by omega
      have h3 : a < t + 1 := by omega
      simp [h1, h2, h3]; omega
    · by_cases h2 : a = t
      · subst h2; simp; omega
      · have h3 : ¬ a < t + 1 := by omega
        simp [h1, h2, h3]; omega

theorem sum_map_count_range (inv : List Nat) (t : Nat) :
    ((List.range t).map (fun k => inv.count k)).sum = (inv.filter (fun x => x < t)).length := by
  induction t with
  | zero =>
    have : ∀ l : List Nat, (l.filter (fun _ => false)).length = 0 := by
      intro l; induction l <;> simp_all
    simp [this]
  | succ t ih =>
    rw [List.range_succ, List.map_append, List.sum_append, ih]
    simp only [List.map_cons, List.map_nil, List.sum_cons, List.sum_nil, Nat.add_zero]
    rw [List.count_eq_length_filter, length_filter_lt_succ]

theorem take_bincount (inv : List Nat) (m t : Nat) (ht : t ≤ m) :
    (bincount inv m).take t = (List.range t).map (fun k => inv.count k) := by
  unfold bincount
  rw [← List.map_take]
  congr 1
  rw [List.take_range]
  congr 1
  omega

/-- exclusive prefix sums: `concatenate(([0], bincount(inv))).cumsum()[t]` = number of entries `< t`. -/
theorem cumsum_zero_bincount (inv : List Nat) (m t : Nat) (ht : t ≤ m) :
    (cumsum (0 :: bincount inv m))[t]! = (inv.filter (fun x => x < t)).length := by
  unfold cumsum
  have hl : t < (0 :: bincount inv m).length := by simp [bincount]; omega
  have := cumsumFrom_get 0 (0 :: bincount inv m) t hl
  simp only [getElem!_def, this]
  simp only [List.take_succ_cons, List.sum_cons, Nat.zero_add, Option.getD_some]
  rw [take_bincount inv m t ht, sum_map_count_range]

/-- inclusive prefix sums: `bincount(inv).cumsum()[t]` = number of entries `≤ t`. -/
theorem cumsum_bincount (inv : List Nat) (m t : Nat) (ht : t < m) :
    (cumsum (bincount inv m))[t]! = (inv.filter (fun x => x < t + 1)).length := by
  unfold cumsum
  have hl : t < (bincount inv m).length := by simp [bincount]; omega
  have := cumsumFrom_get 0 (bincount inv m) t hl
  simp only [getElem!_def, this]
  simp only [Nat.zero_add, Option.getD_some]
  rw [take_bincount inv m (t + 1) (by omega), sum_map_count_range]

end DI

namespace DI

variable {κ : Type} [DecidableEq κ]

/-! ### sorted distinct values and the inverse -/

theorem mem_dedupAdj {α : Type} [DecidableEq α] (a : α) : ∀ l : List α, a ∈ dedupAdj l ↔ a ∈ l
  | [] => by simp [dedupAdj]
  | [b] => by simp [dedupAdj]
  | b :: c :: rest => by
    have ih := mem_dedupAdj a (c :: rest)
    simp only [dedupAdj]
    split
    · rename_i h; subst h; rw [ih]; simp
    · simp only [List.mem_cons] at ih ⊢; rw [ih]

theorem mem_sortedDistinct {le : κ → κ → Bool} {a : κ} {xs : List κ} :
    a ∈ sortedDistinct le xs ↔ a ∈ xs := by
  unfold sortedDistinct
  rw [mem_dedupAdj, List.mem_mergeSort]

/-- number of entries of `u` strictly smaller than `a` — what `uniqueInverse` maps `a` to. -/
def cnt (le : κ → κ → Bool) (u : List κ) (a : κ) : Nat := (u.filter (fun v => ltOf le v a)).length

theorem uniqueInverse_eq (le : κ → κ → Bool) (xs : List κ) :
    uniqueInverse le xs = xs.map (cnt le (sortedDistinct le xs)) := rfl

theorem ltOf_irrefl {le : κ → κ → Bool} (a : κ) : ltOf le a a = false := by
  unfold ltOf; cases le a a <;> simp

theorem ltOf_trans {le : κ → κ → Bool} (h : LinOrd le) {a b c : κ} :
    ltOf le a b → ltOf le b c → ltOf le a c := by
  unfold ltOf
  simp only [Bool.and_eq_true, Bool.not_eq_true', and_imp]
  intro h1 h2 h3 h4
  refine ⟨h.trans _ _ _ h1 h3, ?_⟩
  cases hca : le c a
  · rfl
  · have := h.trans _ _ _ hca h1
    simp [this] at h4

theorem not_ltOf {le : κ → κ → Bool} (h : LinOrd le) {a b : κ} :
    ltOf le a b = false ↔ le b a = true := by
  unfold ltOf
  have := h.total a b
  cases h1 : le a b <;> cases h2 : le b a <;> simp_all

theorem cnt_lt_length {le : κ → κ → Bool} {u : List κ} {a : κ} (ha : a ∈ u) :
    cnt le u a < u.length := by
  unfold cnt
  have h1 := length_filter_add_not (fun v => ltOf le v a) u
  have h2 : 0 < (u.filter (fun v => !ltOf le v a)).length := by
    apply List.length_pos_of_mem (a := a)
    simp [List.mem_filter, ha, ltOf_irrefl]
  omega

theorem cnt_lt_iff {le : κ → κ → Bool} (h : LinOrd le) {u : List κ} {a b : κ} (ha : a ∈ u) :
    cnt le u a < cnt le u b ↔ ltOf le a b = true := by
  constructor
  · intro hlt
    cases hab : ltOf le a b
    · exfalso
      have hba : le b a = true := (not_ltOf h).mp hab
      have : cnt le u b ≤ cnt le u a := by
        unfold cnt
        apply length_filter_le_of_imp
        intro x _ hx
        -- x < b ≤ a
        unfold ltOf at hx ⊢
        simp only [Bool.and_eq_true, Bool.not_eq_true'] at hx ⊢
        refine ⟨h.trans _ _ _ hx.1 hba, ?_⟩
        cases hax : le a x
        · rfl
        · have := h.trans _ _ _ hba hax
          simp [this] at hx
      omega
    · rfl
  · intro hab
    unfold cnt
    apply length_filter_lt_of_imp u (a := a)
    · intro x _ hx; exact ltOf_trans h hx hab
    · exact ha
    · exact ltOf_irrefl a
    · exact hab

theorem cnt_le_iff {le : κ → κ → Bool} (h : LinOrd le) {u : List κ} {a b : κ} (hb : b ∈ u) :
    cnt le u a < cnt le u b + 1 ↔ ltOf le b a = false := by
  have := cnt_lt_iff h (u := u) (a := b) (b := a) hb
  constructor
  · intro h1
    cases hba : ltOf le b a
    · rfl
    · have := this.mpr hba; omega
  · intro h1
    have : ¬ cnt le u b < cnt le u a := by
      intro hc; have := this.mp hc; simp [h1] at this
    omega

/-! ### masked assignment -/

theorem putMask_nonNa (xs : List (Option κ)) (base : List Nat) (F : κ → Nat)
    (hb : base.length = xs.length) :
    putMask (xs.map (fun x => !isNa x)) base ((nonNa xs).map F)
      = (xs.zip base).map (fun p => match p.1 with | some a => F a | none => p.2) := by
  induction xs generalizing base with
  | nil => simp [putMask]
  | cons x xs ih =>
    cases base with
    | nil => simp at hb
    | cons o os =>
      have hb' : os.length = xs.length := by simpa using hb
      have ih' := ih os hb'
      cases x with
      | none =>
        simp only [nonNa, isNa] at ih' ⊢
        simpa [putMask] using ih'
      | some a =>
        simp only [nonNa, isNa] at ih' ⊢
        simpa [putMask] using ih'

theorem putMask_na_const (xs : List (Option κ)) (out : List Nat) (c m : Nat)
    (ho : out.length = xs.length) (hm : xs.length ≤ m) :
    putMask (xs.map isNa) out (List.replicate m c)
      = (xs.zip out).map (fun p => if isNa p.1 then c else p.2) := by
  induction xs generalizing out m with
  | nil => simp [putMask]
  | cons x xs ih =>
    cases out with
    | nil => simp at ho
    | cons o os =>
      have ho' : os.length = xs.length := by simpa using ho
      cases m with
      | zero => simp at hm
      | succ m =>
        have hm' : xs.length ≤ m := by simpa using hm
        cases x with
        | none =>
          simp only [List.map_cons, isNa, Option.isNone_none, putMask, if_true,
            List.replicate_succ, List.headD_cons, List.tail_cons, List.zip_cons_cons]
          rw [ih os m ho' hm']; simp [isNa]
        | some a =>
          simp only [List.map_cons, isNa, Option.isNone_some, putMask, Bool.false_eq_true,
            if_false, List.zip_cons_cons]
          rw [ih os (m + 1) ho' (by omega)]; simp [isNa]

/-- both assignments together: every element is mapped independently. -/
theorem putMask_both (xs : List (Option κ)) (F : κ → Nat) (c m : Nat) (hm : xs.length ≤ m) :
    putMask (xs.map isNa)
      (putMask (xs.map (fun x => !isNa x)) (zeros xs.length) ((nonNa xs).map F))
      (List.replicate m c)
    = xs.map (fun x => match x with | some a => F a | none => c) := by
  rw [putMask_nonNa xs (zeros xs.length) F (by simp [zeros])]
  rw [putMask_na_const xs _ c m (by simp [zeros]) hm]
  apply List.ext_getElem
  · simp [zeros]
  · intro i h1 h2
    simp only [List.getElem_map, List.getElem_zip]
    cases hx : xs[i]'(by simpa [zeros] using h1) <;> simp [isNa, hx]

theorem length_filter_nonNa (le : κ → κ → Bool) (xs : List (Option κ)) (p : κ → Bool) :
    ((nonNa xs).filter p).length
      = (xs.filter (fun y => match y with | some b => p b | none => false)).length := by
  induction xs with
  | nil => simp [nonNa]
  | cons x xs ih =>
    cases x with
    | none => simpa [nonNa] using ih
    | some a =>
      simp only [nonNa, List.filterMap_cons, id, List.filter_cons] at ih ⊢
      split <;> simp [ih]

end DI

namespace DI

variable {κ : Type} [DecidableEq κ]

theorem mem_nonNa {xs : List (Option κ)} {a : κ} : a ∈ nonNa xs ↔ some a ∈ xs := by
  simp [nonNa]

theorem length_nonNa (xs : List (Option κ)) :
    (nonNa xs).length = (xs.filter (fun y => ltNaLast (κ := κ) (fun _ _ => true) y none)).length := by
  induction xs with
  | nil => simp [nonNa]
  | cons x xs ih =>
    cases x <;> simp_all [nonNa, ltNaLast]

theorem ltNaLast_none (le : κ → κ → Bool) (y : Option κ) : ltNaLast le y none = y.isSome := by
  cases y <;> simp [ltNaLast]

/-- count of strictly smaller inverse indices = count of strictly smaller values. -/
theorem inv_count_lt {le : κ → κ → Bool} (h : LinOrd le) (vals : List κ) (a : κ) :
    ((uniqueInverse le vals).filter (fun x => x < cnt le (sortedDistinct le vals) a)).length
      = (vals.filter (fun v => ltOf le v a)).length := by
  rw [uniqueInverse_eq, List.filter_map, List.length_map]
  congr 1
  apply List.filter_congr
  intro v hv
  have hv' : v ∈ sortedDistinct le vals := mem_sortedDistinct.mpr hv
  have := cnt_lt_iff h (u := sortedDistinct le vals) (a := v) (b := a) hv'
  simp only [Function.comp]
  cases hlt : ltOf le v a
  · simp only [decide_eq_false_iff_not]; intro hc; have := this.mp hc; simp [hlt] at this
  · simp only [decide_eq_true_eq]; exact this.mpr hlt

theorem inv_count_le {le : κ → κ → Bool} (h : LinOrd le) (vals : List κ) (a : κ)
    (ha : a ∈ vals) :
    ((uniqueInverse le vals).filter (fun x => x < cnt le (sortedDistinct le vals) a + 1)).length
      = (vals.filter (fun v => !ltOf le a v)).length := by
  rw [uniqueInverse_eq, List.filter_map, List.length_map]
  congr 1
  apply List.filter_congr
  intro v _
  have ha' : a ∈ sortedDistinct le vals := mem_sortedDistinct.mpr ha
  have := cnt_le_iff h (u := sortedDistinct le vals) (a := v) (b := a) ha'
  simp only [Function.comp]
  cases hlt : ltOf le a v
  · simp only [Bool.not_false, decide_eq_true_eq]; exact this.mpr hlt
  · simp only [Bool.not_true, decide_eq_false_iff_not]; intro hc; have := this.mp hc; simp [hlt] at this

/-- `Vector.rank(method="min")` pipeline = counting definition. -/
theorem rankMinCore_spec {le : κ → κ → Bool} (h : LinOrd le) (xs : List (Option κ)) :
    rankMinCore le xs = rankMinSpec le xs := by
  unfold rankMinCore rankMinSpec
  simp only []
  rw [uniqueInverse_eq, List.map_map]
  rw [putMask_both xs _ _ _ (Nat.le_refl _)]
  apply List.map_congr_left
  intro x hx
  cases x with
  | none =>
    simp only [ltNaLast_none]
    have := length_filter_nonNa le xs (fun _ => true)
    have h2 : (nonNa xs).filter (fun _ => true) = nonNa xs := by simp
    rw [h2] at this
    rw [this, Nat.add_comm]
    congr 2
  | some a =>
    simp only [Function.comp]
    have ha : a ∈ nonNa xs := mem_nonNa.mpr hx
    have hau : a ∈ sortedDistinct le (nonNa xs) := mem_sortedDistinct.mpr ha
    have hlt := cnt_lt_length (le := le) hau
    rw [cumsum_zero_bincount _ _ _ (Nat.le_of_lt hlt)]
    have := inv_count_lt h (nonNa xs) a
    rw [uniqueInverse_eq] at this
    rw [this, length_filter_nonNa le xs, Nat.add_comm]
    congr 2
    apply List.filter_congr
    intro y _; cases y <;> simp [ltNaLast]

/-- `Vector.rank(method="max")` pipeline = counting definition. -/
theorem rankMaxCore_spec {le : κ → κ → Bool} (h : LinOrd le) (xs : List (Option κ)) :
    rankMaxCore le xs = rankMaxSpec le xs := by
  unfold rankMaxCore rankMaxSpec
  simp only []
  rw [uniqueInverse_eq, List.map_map]
  rw [putMask_both xs _ _ _ (Nat.le_refl _)]
  apply List.map_congr_left
  intro x hx
  cases x with
  | none =>
    have : ∀ l : List (Option κ), (l.filter (fun y => !ltNaLast le none y)).length = l.length := by
      intro l; induction l <;> simp_all [ltNaLast]
    simp [this]
  | some a =>
    simp only [Function.comp]
    have ha : a ∈ nonNa xs := mem_nonNa.mpr hx
    have hau : a ∈ sortedDistinct le (nonNa xs) := mem_sortedDistinct.mpr ha
    have hlt := cnt_lt_length (le := le) hau
    rw [cumsum_bincount _ _ _ hlt]
    have := inv_count_le h (nonNa xs) a ha
    rw [uniqueInverse_eq] at this
    rw [this, length_filter_nonNa le xs]
    congr 1
    apply List.filter_congr
    intro y _; cases y <;> simp [ltNaLast]

end DI

namespace DI

variable {κ : Type} [DecidableEq κ]

theorem filter_length_zero_of_forall {p : α → Bool} (l : List α) (h : ∀ x ∈ l, p x = false) :
    (l.filter p).length = 0 := by
  induction l with
  | nil => simp
  | cons a l ih =>
    have := h a (by simp)
    simp [List.filter_cons, this, ih (fun x hx => h x (by simp [hx]))]

theorem vrank_min_spec {le : κ → κ → Bool} (h : LinOrd le) (one : κ) (xs : List (Option κ)) :
    vrank le one .min xs = rankMinSpec le xs := by
  unfold vrank
  split
  · rename_i h0
    have : xs = [] := List.eq_nil_of_length_eq_zero h0
    subst this; simp [rankMinSpec]
  · simp only []
    split
    · rename_i hall
      rw [rankMinCore_spec h]
      unfold rankMinSpec
      rw [List.map_map]
      apply List.map_congr_left
      intro x hx
      have hxn : ∀ y ∈ xs, y = none := by
        intro y hy
        have := List.all_eq_true.mp hall y hy
        simpa [isNa] using this
      simp only [Function.comp]
      rw [filter_length_zero_of_forall, filter_length_zero_of_forall]
      · intro y hy; rw [hxn y hy, hxn x hx]; simp [ltNaLast]
      · intro y hy
        simp only [List.mem_map] at hy
        obtain ⟨_, _, rfl⟩ := hy
        simp [ltNaLast, ltOf_irrefl]
    · exact rankMinCore_spec h xs

theorem vrank_max_spec {le : κ → κ → Bool} (h : LinOrd le) (one : κ) (xs : List (Option κ)) :
    vrank le one .max xs = rankMaxSpec le xs := by
  unfold vrank
  split
  · rename_i h0
    have : xs = [] := List.eq_nil_of_length_eq_zero h0
    subst this; simp [rankMaxSpec]
  · simp only []
    split
    · rename_i hall
      rw [rankMaxCore_spec h]
      unfold rankMaxSpec
      rw [List.map_map]
      apply List.map_congr_left
      intro x hx
      have hxn : ∀ y ∈ xs, y = none := by
        intro y hy
        have := List.all_eq_true.mp hall y hy
        simpa [isNa] using this
      simp only [Function.comp]
      have e1 : ∀ l : List (Option κ), (∀ y ∈ l, y = some one) →
          (l.filter (fun y => !ltNaLast le (some one) y)).length = l.length := by
        intro l hl
        induction l with
        | nil => simp
        | cons a l ih =>
          have := hl a (by simp)
          subst this
          have ih' := ih (fun y hy => hl y (by simp [hy]))
          simp only [List.filter_cons, ltNaLast, ltOf_irrefl, Bool.not_false, if_true,
            List.length_cons]
          simp only [ltNaLast] at ih'
          rw [ih']
      have e2 : ∀ l : List (Option κ),
          (l.filter (fun y => !ltNaLast le none y)).length = l.length := by
        intro l; induction l <;> simp_all [ltNaLast]
      rw [hxn x hx, e2, e1]
      · simp
      · intro y hy
        simp only [List.mem_map] at hy
        obtain ⟨_, _, rfl⟩ := hy; rfl
    · exact rankMaxCore_spec h xs

end DI

/-
  Generated/CodeC15.lean — REGENERATED on every run by harness/py2lean.py from the current source of
  /repo (symbolic execution of small control-flow functions; see Model/PyCore.lean).  Do not edit.
-/
import Model.PyCore

set_option linter.unusedVariables false

namespace DI.Gen

open DI.Py

/-- dataiter/list_of_dicts.py: ListOfDicts.head (sha256 of the function source: 879e6252d58fabe7) -/
def ListOfDicts_head (truth : Term → Bool) (n_is_None : Bool) (dataiter_DEFAULT_PEEK_ITEMS : Int) (len_self : Int) (n : Int) : Out :=
  if n_is_None then
    let n' : Int := dataiter_DEFAULT_PEEK_ITEMS;
    let n' : Int := (pmin len_self n');
    Out.ret [] (Term.app "._new" [(Term.sym "self"), (Term.app "getitem" [(Term.sym "self"), (Term.slice none (some n'))])])
  else
    let n' : Int := (pmin len_self n);
    Out.ret [] (Term.app "._new" [(Term.sym "self"), (Term.app "getitem" [(Term.sym "self"), (Term.slice none (some n'))])])

/-- dataiter/list_of_dicts.py: ListOfDicts.tail (sha256 of the function source: 7f6d393a90721779) -/
def ListOfDicts_tail (truth : Term → Bool) (n_is_None : Bool) (dataiter_DEFAULT_PEEK_ITEMS : Int) (len_self : Int) (n : Int) : Out :=
  if n_is_None then
    let n' : Int := dataiter_DEFAULT_PEEK_ITEMS;
    let n' : Int := (pmin len_self n');
    Out.ret [] (Term.app "._new" [(Term.sym "self"), (Term.app "getitem" [(Term.sym "self"), (Term.slice (some (len_self - n')) none)])])
  else
    let n' : Int := (pmin len_self n);
    Out.ret [] (Term.app "._new" [(Term.sym "self"), (Term.app "getitem" [(Term.sym "self"), (Term.slice (some (len_self - n')) none)])])

/-- dataiter/list_of_dicts.py: ListOfDicts.filter (sha256 of the function source: 31c775b48c97c0e5) -/
def ListOfDicts_filter (truth : Term → Bool) : Out :=
  if truth (Term.app "callable" [(Term.sym "function")]) then
    let eff0 : Term := (Term.app "for" [(Term.sym "item"), (Term.sym "self"), (Term.app "block" [(Term.app "if" [(Term.app "function" [(Term.sym "item")]), (Term.app "block" [(Term.app "yield" [(Term.sym "item")])]), (Term.app "block" [])])])]);
    Out.fall [eff0]
  else
    if truth (Term.sym "key_value_pairs") then
      let extract' : Term := (Term.app "operator.itemgetter" [(Term.app "*" [(Term.app ".keys" [(Term.sym "key_value_pairs")])])]);
      let values' : Term := (Term.app "tuple" [(Term.app ".values" [(Term.sym "key_value_pairs")])]);
      let values' : Term := (if truth (Term.app "Eq" [(Term.app "len" [values']), (Term.int (1 : Int))]) then (Term.app "getitem" [values', (Term.int (0 : Int))]) else values');
      let eff0 : Term := (Term.app "for" [(Term.sym "item"), (Term.sym "self"), (Term.app "block" [(Term.app "if" [(Term.app "Eq" [(Term.app "call" [extract', (Term.sym "item")]), values']), (Term.app "block" [(Term.app "yield" [(Term.sym "item")])]), (Term.app "block" [])])])]);
      Out.fall [eff0]
    else
      Out.fall []

/-- dataiter/list_of_dicts.py: ListOfDicts.filter_out (sha256 of the function source: 724c8d5816387522) -/
def ListOfDicts_filter_out (truth : Term → Bool) : Out :=
  if truth (Term.app "callable" [(Term.sym "function")]) then
    let eff0 : Term := (Term.app "for" [(Term.sym "item"), (Term.sym "self"), (Term.app "block" [(Term.app "if" [(Term.app "not" [(Term.app "function" [(Term.sym "item")])]), (Term.app "block" [(Term.app "yield" [(Term.sym "item")])]), (Term.app "block" [])])])]);
    Out.fall [eff0]
  else
    if truth (Term.sym "key_value_pairs") then
      let extract' : Term := (Term.app "operator.itemgetter" [(Term.app "*" [(Term.app ".keys" [(Term.sym "key_value_pairs")])])]);
      let values' : Term := (Term.app "tuple" [(Term.app ".values" [(Term.sym "key_value_pairs")])]);
      let values' : Term := (if truth (Term.app "Eq" [(Term.app "len" [values']), (Term.int (1 : Int))]) then (Term.app "getitem" [values', (Term.int (0 : Int))]) else values');
      let eff0 : Term := (Term.app "for" [(Term.sym "item"), (Term.sym "self"), (Term.app "block" [(Term.app "if" [(Term.app "NotEq" [(Term.app "call" [extract', (Term.sym "item")]), values']), (Term.app "block" [(Term.app "yield" [(Term.sym "item")])]), (Term.app "block" [])])])]);
      Out.fall [eff0]
    else
      Out.fall []

/-- dataiter/list_of_dicts.py: ListOfDicts.unique (sha256 of the function source: fa2d027f167b0fd0) -/
def ListOfDicts_unique (truth : Term → Bool) : Out :=
  if (!truth (Term.sym "self")) then
    Out.ret [] (Term.sym "None")
  else
    if (!truth (Term.sym "keys")) then
      let keys' : Term := (Term.app "set" [(Term.app "getitem" [(Term.sym "self"), (Term.int (0 : Int))])]);
      let eff0 : Term := (Term.app "for" [(Term.sym "item"), (Term.sym "self"), (Term.app "block" [(Term.app "assign" [(Term.sym "keys"), (Term.app "BitAnd=" [(Term.sym "keys"), (Term.app "set" [(Term.sym "item")])])])]), (Term.app "init" [(Term.sym "keys"), keys'])]);
      let keys' : Term := (Term.app "value-after-loop" [(Term.sym "keys"), eff0]);
      let found_ids' : Term := (Term.app "set" []);
      let extract' : Term := (Term.app "operator.itemgetter" [(Term.app "*" [keys'])]);
      let eff1 : Term := (Term.app "for" [(Term.sym "item"), (Term.sym "self"), (Term.app "block" [(Term.app "assign" [(Term.sym "id"), (Term.app "call" [extract', (Term.sym "item")])]), (Term.app "if" [(Term.app "NotIn" [(Term.sym "id"), found_ids']), (Term.app "block" [(Term.app ".add" [found_ids', (Term.sym "id")]), (Term.app "yield" [(Term.sym "item")])]), (Term.app "block" [])])])]);
      let id' : Term := (Term.app "value-after-loop" [(Term.sym "id"), eff1]);
      Out.fall [eff0, eff1]
    else
      let found_ids' : Term := (Term.app "set" []);
      let extract' : Term := (Term.app "operator.itemgetter" [(Term.app "*" [(Term.sym "keys")])]);
      let eff0 : Term := (Term.app "for" [(Term.sym "item"), (Term.sym "self"), (Term.app "block" [(Term.app "assign" [(Term.sym "id"), (Term.app "call" [extract', (Term.sym "item")])]), (Term.app "if" [(Term.app "NotIn" [(Term.sym "id"), found_ids']), (Term.app "block" [(Term.app ".add" [found_ids', (Term.sym "id")]), (Term.app "yield" [(Term.sym "item")])]), (Term.app "block" [])])])]);
      let id' : Term := (Term.app "value-after-loop" [(Term.sym "id"), eff0]);
      Out.fall [eff0]

/-- dataiter/list_of_dicts.py: ListOfDicts.sort (sha256 of the function source: ff89d8a4564797f0) -/
def ListOfDicts_sort (truth : Term → Bool) : Out :=
  let data' : Term := (Term.sym "self");
  let eff0 : Term := (Term.app "for" [(Term.app "tuple" [(Term.sym "key"), (Term.sym "dir")]), (Term.app "getitem" [(Term.app "list" [(Term.app ".items" [(Term.sym "key_dir_pairs")])]), (Term.app "slice" [(Term.sym "None"), (Term.sym "None"), (Term.int (-(1 : Int)))])]), (Term.app "block" [(Term.app "if" [(Term.app "NotIn" [(Term.sym "dir"), (Term.app "list" [(Term.int (1 : Int)), (Term.int (-(1 : Int)))])]), (Term.app "block" [(Term.app "raise" [(Term.sym "ValueError")])]), (Term.app "block" [])]), (Term.app "def" [(Term.sym "sort_key"), (Term.app "params" [(Term.sym "item")]), (Term.app "block" [(Term.app "return" [(Term.app "ifexp" [(Term.app "Gt" [(Term.sym "dir"), (Term.int (0 : Int))]), (Term.app "tuple" [(Term.app "Is" [(Term.app "getitem" [(Term.sym "item"), (Term.sym "key")]), (Term.sym "None")]), (Term.app "getitem" [(Term.sym "item"), (Term.sym "key")])]), (Term.app "tuple" [(Term.app "IsNot" [(Term.app "getitem" [(Term.sym "item"), (Term.sym "key")]), (Term.sym "None")]), (Term.app "getitem" [(Term.sym "item"), (Term.sym "key")])])])])])]), (Term.app "assign" [(Term.sym "data"), (Term.app "sorted" [(Term.sym "data"), (Term.app "=key" [(Term.sym "sort_key")]), (Term.app "=reverse" [(Term.app "Lt" [(Term.sym "dir"), (Term.int (0 : Int))])])])])]), (Term.app "init" [(Term.sym "data"), data'])]);
  let data' : Term := (Term.app "value-after-loop" [(Term.sym "data"), eff0]);
  Out.ret [eff0] (Term.app "._new" [(Term.sym "self"), data'])

end DI.Gen

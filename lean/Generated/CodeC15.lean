/-
  Generated/CodeC15.lean — REGENERATED on every run by harness/py2lean.py from the current source of
  /repo (symbolic execution of small control-flow functions; see Model/PyCore.lean).  Do not edit.
-/
import Model.PyCore

set_option linter.unusedVariables false

namespace DI.Gen

open DI.Py

/-- dataiter/list_of_dicts.py: ListOfDicts.head (sha256 of the function source: 879e6252d58fabe7) -/
def ListOfDicts_head (truth : Term → Bool) (n_is_None : Bool) (dataiter_DEFAULT_PEEK_ITEMS : Int) (len_self : Int) (n : Int) : Out :=
  if n_is_None then
    let n' : Int := dataiter_DEFAULT_PEEK_ITEMS;
    let n' : Int := (pmin len_self n');
    Out.ret [] (Term.app "._new" [(Term.sym "self"), (Term.app "getitem" [(Term.sym "self"), (Term.slice none (some n'))])])
  else
    let n' : Int := (pmin len_self n);
    Out.ret [] (Term.app "._new" [(Term.sym "self"), (Term.app "getitem" [(Term.sym "self"), (Term.slice none (some n'))])])

/-- the decorators of dataiter/list_of_dicts.py: ListOfDicts.head, outermost first -/
def ListOfDicts_head_decorators : List String := []

/-- the signature of dataiter/list_of_dicts.py: ListOfDicts.head: parameters in order, with the source text of their defaults -/
def ListOfDicts_head_signature : List String := ["self", "n=None"]

/-- the calls of dataiter/list_of_dicts.py: ListOfDicts.head in the order Python makes them along the source text -/
def ListOfDicts_head_call_order : List String := ["len", "min", "self._new"]

/-- dataiter/list_of_dicts.py: ListOfDicts.tail (sha256 of the function source: 7f6d393a90721779) -/
def ListOfDicts_tail (truth : Term → Bool) (n_is_None : Bool) (dataiter_DEFAULT_PEEK_ITEMS : Int) (len_self : Int) (n : Int) : Out :=
  if n_is_None then
    let n' : Int := dataiter_DEFAULT_PEEK_ITEMS;
    let n' : Int := (pmin len_self n');
    Out.ret [] (Term.app "._new" [(Term.sym "self"), (Term.app "getitem" [(Term.sym "self"), (Term.slice (some (len_self - n')) none)])])
  else
    let n' : Int := (pmin len_self n);
    Out.ret [] (Term.app "._new" [(Term.sym "self"), (Term.app "getitem" [(Term.sym "self"), (Term.slice (some (len_self - n')) none)])])

/-- the decorators of dataiter/list_of_dicts.py: ListOfDicts.tail, outermost first -/
def ListOfDicts_tail_decorators : List String := []

/-- the signature of dataiter/list_of_dicts.py: ListOfDicts.tail: parameters in order, with the source text of their defaults -/
def ListOfDicts_tail_signature : List String := ["self", "n=None"]

/-- the calls of dataiter/list_of_dicts.py: ListOfDicts.tail in the order Python makes them along the source text -/
def ListOfDicts_tail_call_order : List String := ["len", "min", "len", "self._new"]

/-- dataiter/list_of_dicts.py: ListOfDicts.filter (sha256 of the function source: 31c775b48c97c0e5) -/
def ListOfDicts_filter (truth : Term → Bool) : Out :=
  if truth (Term.app "callable" [(Term.sym "function")]) then
    let eff0 : Term := (Term.app "for" [(Term.sym "item"), (Term.sym "self"), (Term.app "block" [(Term.app "if" [(Term.app "function" [(Term.sym "item")]), (Term.app "block" [(Term.app "yield" [(Term.sym "item")])]), (Term.app "block" [])])])]);
    Out.fall [eff0]
  else
    if truth (Term.sym "key_value_pairs") then
      let extract' : Term := (Term.app "operator.itemgetter" [(Term.app "*" [(Term.app ".keys" [(Term.sym "key_value_pairs")])])]);
      let values' : Term := (Term.app "tuple()" [(Term.app ".values" [(Term.sym "key_value_pairs")])]);
      let values' : Term := (if truth (Term.app "Eq" [(Term.app "len" [values']), (Term.int (1 : Int))]) then (Term.app "getitem" [values', (Term.int (0 : Int))]) else values');
      let eff0 : Term := (Term.app "for" [(Term.sym "item"), (Term.sym "self"), (Term.app "block" [(Term.app "if" [(Term.app "Eq" [(Term.app "call" [extract', (Term.sym "item")]), values']), (Term.app "block" [(Term.app "yield" [(Term.sym "item")])]), (Term.app "block" [])])])]);
      Out.fall [eff0]
    else
      Out.fall []

/-- the decorators of dataiter/list_of_dicts.py: ListOfDicts.filter, outermost first -/
def ListOfDicts_filter_decorators : List String := ["deco.new_from_generator"]

/-- the signature of dataiter/list_of_dicts.py: ListOfDicts.filter: parameters in order, with the source text of their defaults -/
def ListOfDicts_filter_signature : List String := ["self", "function=None", "**key_value_pairs"]

/-- the calls of dataiter/list_of_dicts.py: ListOfDicts.filter in the order Python makes them along the source text -/
def ListOfDicts_filter_call_order : List String := ["callable", "function", "key_value_pairs.keys", "operator.itemgetter", "key_value_pairs.values", "tuple", "len", "extract"]

/-- dataiter/list_of_dicts.py: ListOfDicts.filter_out (sha256 of the function source: 724c8d5816387522) -/
def ListOfDicts_filter_out (truth : Term → Bool) : Out :=
  if truth (Term.app "callable" [(Term.sym "function")]) then
    let eff0 : Term := (Term.app "for" [(Term.sym "item"), (Term.sym "self"), (Term.app "block" [(Term.app "if" [(Term.app "not" [(Term.app "function" [(Term.sym "item")])]), (Term.app "block" [(Term.app "yield" [(Term.sym "item")])]), (Term.app "block" [])])])]);
    Out.fall [eff0]
  else
    if truth (Term.sym "key_value_pairs") then
      let extract' : Term := (Term.app "operator.itemgetter" [(Term.app "*" [(Term.app ".keys" [(Term.sym "key_value_pairs")])])]);
      let values' : Term := (Term.app "tuple()" [(Term.app ".values" [(Term.sym "key_value_pairs")])]);
      let values' : Term := (if truth (Term.app "Eq" [(Term.app "len" [values']), (Term.int (1 : Int))]) then (Term.app "getitem" [values', (Term.int (0 : Int))]) else values');
      let eff0 : Term := (Term.app "for" [(Term.sym "item"), (Term.sym "self"), (Term.app "block" [(Term.app "if" [(Term.app "NotEq" [(Term.app "call" [extract', (Term.sym "item")]), values']), (Term.app "block" [(Term.app "yield" [(Term.sym "item")])]), (Term.app "block" [])])])]);
      Out.fall [eff0]
    else
      Out.fall []

/-- the decorators of dataiter/list_of_dicts.py: ListOfDicts.filter_out, outermost first -/
def ListOfDicts_filter_out_decorators : List String := ["deco.new_from_generator"]

/-- the signature of dataiter/list_of_dicts.py: ListOfDicts.filter_out: parameters in order, with the source text of their defaults -/
def ListOfDicts_filter_out_signature : List String := ["self", "function=None", "**key_value_pairs"]

/-- the calls of dataiter/list_of_dicts.py: ListOfDicts.filter_out in the order Python makes them along the source text -/
def ListOfDicts_filter_out_call_order : List String := ["callable", "function", "key_value_pairs.keys", "operator.itemgetter", "key_value_pairs.values", "tuple", "len", "extract"]

/-- dataiter/list_of_dicts.py: ListOfDicts.unique (sha256 of the function source: fa2d027f167b0fd0) -/
def ListOfDicts_unique (truth : Term → Bool) : Out :=
  if (!truth (Term.sym "self")) then
    Out.ret [] (Term.sym "None")
  else
    if (!truth (Term.sym "keys")) then
      let keys' : Term := (Term.app "set()" [(Term.app "getitem" [(Term.sym "self"), (Term.int (0 : Int))])]);
      let eff0 : Term := (Term.app "for" [(Term.sym "item"), (Term.sym "self"), (Term.app "block" [(Term.app "assign" [(Term.sym "keys"), (Term.app "BitAnd=" [(Term.sym "keys"), (Term.app "set()" [(Term.sym "item")])])])]), (Term.app "init" [(Term.sym "keys"), keys'])]);
      let keys' : Term := (Term.app "value-after-loop" [(Term.sym "keys"), eff0]);
      let found_ids' : Term := (Term.app "set()" []);
      let extract' : Term := (Term.app "operator.itemgetter" [(Term.app "*" [keys'])]);
      let eff1 : Term := (Term.app "for" [(Term.sym "item"), (Term.sym "self"), (Term.app "block" [(Term.app "assign" [(Term.sym "id"), (Term.app "call" [extract', (Term.sym "item")])]), (Term.app "if" [(Term.app "NotIn" [(Term.sym "id"), found_ids']), (Term.app "block" [(Term.app ".add" [found_ids', (Term.sym "id")]), (Term.app "yield" [(Term.sym "item")])]), (Term.app "block" [])])])]);
      let id' : Term := (Term.app "value-after-loop" [(Term.sym "id"), eff1]);
      Out.fall [eff0, eff1]
    else
      let found_ids' : Term := (Term.app "set()" []);
      let extract' : Term := (Term.app "operator.itemgetter" [(Term.app "*" [(Term.sym "keys")])]);
      let eff0 : Term := (Term.app "for" [(Term.sym "item"), (Term.sym "self"), (Term.app "block" [(Term.app "assign" [(Term.sym "id"), (Term.app "call" [extract', (Term.sym "item")])]), (Term.app "if" [(Term.app "NotIn" [(Term.sym "id"), found_ids']), (Term.app "block" [(Term.app ".add" [found_ids', (Term.sym "id")]), (Term.app "yield" [(Term.sym "item")])]), (Term.app "block" [])])])]);
      let id' : Term := (Term.app "value-after-loop" [(Term.sym "id"), eff0]);
      Out.fall [eff0]

/-- the decorators of dataiter/list_of_dicts.py: ListOfDicts.unique, outermost first -/
def ListOfDicts_unique_decorators : List String := ["deco.new_from_generator"]

/-- the signature of dataiter/list_of_dicts.py: ListOfDicts.unique: parameters in order, with the source text of their defaults -/
def ListOfDicts_unique_signature : List String := ["self", "*keys"]

/-- the calls of dataiter/list_of_dicts.py: ListOfDicts.unique in the order Python makes them along the source text -/
def ListOfDicts_unique_call_order : List String := ["set", "set", "set", "operator.itemgetter", "extract", "found_ids.add"]

/-- dataiter/list_of_dicts.py: ListOfDicts.sort (sha256 of the function source: ff89d8a4564797f0) -/
def ListOfDicts_sort (truth : Term → Bool) : Out :=
  let data' : Term := (Term.sym "self");
  let eff0 : Term := (Term.app "for" [(Term.app "tuple" [(Term.sym "key"), (Term.sym "dir")]), (Term.app "getitem" [(Term.app "list()" [(Term.app ".items" [(Term.sym "key_dir_pairs")])]), (Term.app "slice" [(Term.sym "None"), (Term.sym "None"), (Term.int (-(1 : Int)))])]), (Term.app "block" [(Term.app "if" [(Term.app "NotIn" [(Term.sym "dir"), (Term.app "list" [(Term.int (1 : Int)), (Term.int (-(1 : Int)))])]), (Term.app "block" [(Term.app "raise" [(Term.sym "ValueError")])]), (Term.app "block" [])]), (Term.app "def" [(Term.sym "sort_key"), (Term.app "params" [(Term.sym "item")]), (Term.app "block" [(Term.app "return" [(Term.app "ifexp" [(Term.app "Gt" [(Term.sym "dir"), (Term.int (0 : Int))]), (Term.app "tuple" [(Term.app "Is" [(Term.app "getitem" [(Term.sym "item"), (Term.sym "key")]), (Term.sym "None")]), (Term.app "getitem" [(Term.sym "item"), (Term.sym "key")])]), (Term.app "tuple" [(Term.app "IsNot" [(Term.app "getitem" [(Term.sym "item"), (Term.sym "key")]), (Term.sym "None")]), (Term.app "getitem" [(Term.sym "item"), (Term.sym "key")])])])])])]), (Term.app "assign" [(Term.sym "data"), (Term.app "sorted" [(Term.sym "data"), (Term.app "=key" [(Term.sym "sort_key")]), (Term.app "=reverse" [(Term.app "Lt" [(Term.sym "dir"), (Term.int (0 : Int))])])])])]), (Term.app "init" [(Term.sym "data"), data'])]);
  let data' : Term := (Term.app "value-after-loop" [(Term.sym "data"), eff0]);
  Out.ret [eff0] (Term.app "._new" [(Term.sym "self"), data'])

/-- the decorators of dataiter/list_of_dicts.py: ListOfDicts.sort, outermost first -/
def ListOfDicts_sort_decorators : List String := []

/-- the signature of dataiter/list_of_dicts.py: ListOfDicts.sort: parameters in order, with the source text of their defaults -/
def ListOfDicts_sort_signature : List String := ["self", "**key_dir_pairs"]

/-- the calls of dataiter/list_of_dicts.py: ListOfDicts.sort in the order Python makes them along the source text -/
def ListOfDicts_sort_call_order : List String := ["key_dir_pairs.items", "list", "ValueError", "sorted", "self._new"]

/-- dataiter/list_of_dicts.py: ListOfDicts.modify (sha256 of the function source: 193088e74915f420) -/
def ListOfDicts_modify (truth : Term → Bool) : Out :=
  let key_function_pairs' : Term := (Term.app ".items" [(Term.sym "key_function_pairs")]);
  let eff0 : Term := (Term.app "for" [(Term.sym "item"), (Term.sym "self"), (Term.app "block" [(Term.app "for" [(Term.app "tuple" [(Term.sym "key"), (Term.sym "function")]), key_function_pairs', (Term.app "block" [(Term.app "store" [(Term.app "getitem" [(Term.sym "item"), (Term.sym "key")]), (Term.app "call" [(Term.sym "function"), (Term.sym "item")])])])]), (Term.app "yield" [(Term.sym "item")])])]);
  Out.fall [eff0]

/-- the decorators of dataiter/list_of_dicts.py: ListOfDicts.modify, outermost first -/
def ListOfDicts_modify_decorators : List String := ["deco.obsoletes", "deco.new_from_generator"]

/-- the signature of dataiter/list_of_dicts.py: ListOfDicts.modify: parameters in order, with the source text of their defaults -/
def ListOfDicts_modify_signature : List String := ["self", "**key_function_pairs"]

/-- the calls of dataiter/list_of_dicts.py: ListOfDicts.modify in the order Python makes them along the source text -/
def ListOfDicts_modify_call_order : List String := ["key_function_pairs.items", "function"]

/-- dataiter/list_of_dicts.py: ListOfDicts.modify_if (sha256 of the function source: e9940e0a6aa6f8a5) -/
def ListOfDicts_modify_if (truth : Term → Bool) : Out :=
  let key_function_pairs' : Term := (Term.app ".items" [(Term.sym "key_function_pairs")]);
  let eff0 : Term := (Term.app "for" [(Term.sym "item"), (Term.sym "self"), (Term.app "block" [(Term.app "if" [(Term.app "predicate" [(Term.sym "item")]), (Term.app "block" [(Term.app "for" [(Term.app "tuple" [(Term.sym "key"), (Term.sym "function")]), key_function_pairs', (Term.app "block" [(Term.app "store" [(Term.app "getitem" [(Term.sym "item"), (Term.sym "key")]), (Term.app "call" [(Term.sym "function"), (Term.sym "item")])])])])]), (Term.app "block" [])]), (Term.app "yield" [(Term.sym "item")])])]);
  Out.fall [eff0]

/-- the decorators of dataiter/list_of_dicts.py: ListOfDicts.modify_if, outermost first -/
def ListOfDicts_modify_if_decorators : List String := ["deco.obsoletes", "deco.new_from_generator"]

/-- the signature of dataiter/list_of_dicts.py: ListOfDicts.modify_if: parameters in order, with the source text of their defaults -/
def ListOfDicts_modify_if_signature : List String := ["self", "predicate", "**key_function_pairs"]

/-- the calls of dataiter/list_of_dicts.py: ListOfDicts.modify_if in the order Python makes them along the source text -/
def ListOfDicts_modify_if_call_order : List String := ["key_function_pairs.items", "predicate", "function"]

/-- dataiter/list_of_dicts.py: ListOfDicts.fill_missing_keys (sha256 of the function source: 0c38d21a4f15d752) -/
def ListOfDicts_fill_missing_keys (truth : Term → Bool) : Out :=
  if (!truth (Term.sym "key_value_pairs")) then
    let key_value_pairs' : Term := (Term.app "dict.fromkeys" [(Term.app ".keys" [(Term.sym "self")]), (Term.sym "None")]);
    let key_value_pairs' : Term := (Term.app ".items" [key_value_pairs']);
    let eff0 : Term := (Term.app "for" [(Term.sym "item"), (Term.sym "self"), (Term.app "block" [(Term.app "for" [(Term.app "tuple" [(Term.sym "key"), (Term.sym "value")]), key_value_pairs', (Term.app "block" [(Term.app "if" [(Term.app "NotIn" [(Term.sym "key"), (Term.sym "item")]), (Term.app "block" [(Term.app "store" [(Term.app "getitem" [(Term.sym "item"), (Term.sym "key")]), (Term.sym "value")])]), (Term.app "block" [])])])]), (Term.app "yield" [(Term.sym "item")])])]);
    Out.fall [eff0]
  else
    let key_value_pairs' : Term := (Term.app ".items" [(Term.sym "key_value_pairs")]);
    let eff0 : Term := (Term.app "for" [(Term.sym "item"), (Term.sym "self"), (Term.app "block" [(Term.app "for" [(Term.app "tuple" [(Term.sym "key"), (Term.sym "value")]), key_value_pairs', (Term.app "block" [(Term.app "if" [(Term.app "NotIn" [(Term.sym "key"), (Term.sym "item")]), (Term.app "block" [(Term.app "store" [(Term.app "getitem" [(Term.sym "item"), (Term.sym "key")]), (Term.sym "value")])]), (Term.app "block" [])])])]), (Term.app "yield" [(Term.sym "item")])])]);
    Out.fall [eff0]

/-- the decorators of dataiter/list_of_dicts.py: ListOfDicts.fill_missing_keys, outermost first -/
def ListOfDicts_fill_missing_keys_decorators : List String := ["deco.obsoletes", "deco.new_from_generator"]

/-- the signature of dataiter/list_of_dicts.py: ListOfDicts.fill_missing_keys: parameters in order, with the source text of their defaults -/
def ListOfDicts_fill_missing_keys_signature : List String := ["self", "**key_value_pairs"]

/-- the calls of dataiter/list_of_dicts.py: ListOfDicts.fill_missing_keys in the order Python makes them along the source text -/
def ListOfDicts_fill_missing_keys_call_order : List String := ["self.keys", "dict.fromkeys", "key_value_pairs.items"]

/-- dataiter/list_of_dicts.py: ListOfDicts.select (sha256 of the function source: 2bc5415f4be84868) -/
def ListOfDicts_select (truth : Term → Bool) : Out :=
  let eff0 : Term := (Term.app "for" [(Term.sym "item"), (Term.sym "self"), (Term.app "block" [(Term.app "yield" [(Term.app "AttributeDict" [(Term.app "DictComp" [(Term.app "pair" [(Term.sym "x"), (Term.app "getitem" [(Term.sym "item"), (Term.sym "x")])]), (Term.app "in" [(Term.sym "x"), (Term.sym "keys"), (Term.app "if" [(Term.app "In" [(Term.sym "x"), (Term.sym "item")])])])])])])])]);
  Out.fall [eff0]

/-- the decorators of dataiter/list_of_dicts.py: ListOfDicts.select, outermost first -/
def ListOfDicts_select_decorators : List String := ["deco.obsoletes", "deco.new_from_generator"]

/-- the signature of dataiter/list_of_dicts.py: ListOfDicts.select: parameters in order, with the source text of their defaults -/
def ListOfDicts_select_signature : List String := ["self", "*keys"]

/-- the calls of dataiter/list_of_dicts.py: ListOfDicts.select in the order Python makes them along the source text -/
def ListOfDicts_select_call_order : List String := ["AttributeDict"]

/-- dataiter/list_of_dicts.py: ListOfDicts.unselect (sha256 of the function source: f3ada5a83c89cd2e) -/
def ListOfDicts_unselect (truth : Term → Bool) : Out :=
  let eff0 : Term := (Term.app "for" [(Term.sym "item"), (Term.sym "self"), (Term.app "block" [(Term.app "for" [(Term.sym "key"), (Term.sym "keys"), (Term.app "block" [(Term.app "if" [(Term.app "In" [(Term.sym "key"), (Term.sym "item")]), (Term.app "block" [(Term.app "del" [(Term.app "getitem" [(Term.sym "item"), (Term.sym "key")])])]), (Term.app "block" [])])])]), (Term.app "yield" [(Term.sym "item")])])]);
  Out.fall [eff0]

/-- the decorators of dataiter/list_of_dicts.py: ListOfDicts.unselect, outermost first -/
def ListOfDicts_unselect_decorators : List String := ["deco.obsoletes", "deco.new_from_generator"]

/-- the signature of dataiter/list_of_dicts.py: ListOfDicts.unselect: parameters in order, with the source text of their defaults -/
def ListOfDicts_unselect_signature : List String := ["self", "*keys"]

/-- the calls of dataiter/list_of_dicts.py: ListOfDicts.unselect in the order Python makes them along the source text -/
def ListOfDicts_unselect_call_order : List String := []

/-- dataiter/list_of_dicts.py: ListOfDicts.rename (sha256 of the function source: 72f79345b7a532f7) -/
def ListOfDicts_rename (truth : Term → Bool) : Out :=
  let renames' : Term := (Term.app "DictComp" [(Term.app "pair" [(Term.sym "v"), (Term.sym "k")]), (Term.app "in" [(Term.app "tuple" [(Term.sym "k"), (Term.sym "v")]), (Term.app ".items" [(Term.sym "to_from_pairs")]), (Term.app "if" [])])]);
  let eff0 : Term := (Term.app "for" [(Term.sym "item"), (Term.sym "self"), (Term.app "block" [(Term.app "assign" [(Term.sym "keys"), (Term.app "ListComp" [(Term.app ".get" [renames', (Term.sym "x"), (Term.sym "x")]), (Term.app "in" [(Term.sym "x"), (Term.app ".keys" [(Term.sym "item")]), (Term.app "if" [])])])]), (Term.app "yield" [(Term.app "AttributeDict" [(Term.app "zip" [(Term.sym "keys"), (Term.app ".values" [(Term.sym "item")])])])])])]);
  let keys' : Term := (Term.app "value-after-loop" [(Term.sym "keys"), eff0]);
  Out.fall [eff0]

/-- the decorators of dataiter/list_of_dicts.py: ListOfDicts.rename, outermost first -/
def ListOfDicts_rename_decorators : List String := ["deco.obsoletes", "deco.new_from_generator"]

/-- the signature of dataiter/list_of_dicts.py: ListOfDicts.rename: parameters in order, with the source text of their defaults -/
def ListOfDicts_rename_signature : List String := ["self", "**to_from_pairs"]

/-- the calls of dataiter/list_of_dicts.py: ListOfDicts.rename in the order Python makes them along the source text -/
def ListOfDicts_rename_call_order : List String := ["to_from_pairs.items", "renames.get", "item.keys", "item.values", "zip", "AttributeDict"]

/-- dataiter/list_of_dicts.py: ListOfDicts.append (sha256 of the function source: f0aac02460a254c6) -/
def ListOfDicts_append (truth : Term → Bool) : Out :=
  if (!truth (Term.app "isinstance" [(Term.sym "item"), (Term.sym "AttributeDict")])) then
    let item' : Term := (Term.app "AttributeDict" [(Term.sym "item")]);
    let eff0 : Term := (Term.app "yield-from" [(Term.app "itertools.chain" [(Term.sym "self"), (Term.app "list" [item'])])]);
    Out.fall [eff0]
  else
    let eff0 : Term := (Term.app "yield-from" [(Term.app "itertools.chain" [(Term.sym "self"), (Term.app "list" [(Term.sym "item")])])]);
    Out.fall [eff0]

/-- the decorators of dataiter/list_of_dicts.py: ListOfDicts.append, outermost first -/
def ListOfDicts_append_decorators : List String := ["deco.new_from_generator"]

/-- the signature of dataiter/list_of_dicts.py: ListOfDicts.append: parameters in order, with the source text of their defaults -/
def ListOfDicts_append_signature : List String := ["self", "item"]

/-- the calls of dataiter/list_of_dicts.py: ListOfDicts.append in the order Python makes them along the source text -/
def ListOfDicts_append_call_order : List String := ["isinstance", "AttributeDict", "itertools.chain"]

/-- dataiter/list_of_dicts.py: ListOfDicts.extend (sha256 of the function source: 8862b06c0b212d1d) -/
def ListOfDicts_extend (truth : Term → Bool) : Out :=
  if (!truth (Term.app "isinstance" [(Term.sym "other"), (Term.app ".__class__" [(Term.sym "self")])])) then
    let other' : Term := (Term.app ".__class__" [(Term.sym "self"), (Term.sym "other")]);
    let eff0 : Term := (Term.app "yield-from" [(Term.app "itertools.chain" [(Term.sym "self"), other'])]);
    Out.fall [eff0]
  else
    let eff0 : Term := (Term.app "yield-from" [(Term.app "itertools.chain" [(Term.sym "self"), (Term.sym "other")])]);
    Out.fall [eff0]

/-- the decorators of dataiter/list_of_dicts.py: ListOfDicts.extend, outermost first -/
def ListOfDicts_extend_decorators : List String := ["deco.new_from_generator"]

/-- the signature of dataiter/list_of_dicts.py: ListOfDicts.extend: parameters in order, with the source text of their defaults -/
def ListOfDicts_extend_signature : List String := ["self", "other"]

/-- the calls of dataiter/list_of_dicts.py: ListOfDicts.extend in the order Python makes them along the source text -/
def ListOfDicts_extend_call_order : List String := ["isinstance", "self.__class__", "itertools.chain"]

/-- dataiter/list_of_dicts.py: ListOfDicts.insert (sha256 of the function source: 1792b768d97c6586) -/
def ListOfDicts_insert (truth : Term → Bool) : Out :=
  if (!truth (Term.app "isinstance" [(Term.sym "item"), (Term.sym "AttributeDict")])) then
    let item' : Term := (Term.app "AttributeDict" [(Term.sym "item")]);
    let items' : Term := (Term.app "list()" [(Term.sym "self")]);
    let eff0 : Term := (Term.app ".insert" [items', (Term.sym "index"), item']);
    let eff1 : Term := (Term.app "yield-from" [items']);
    Out.fall [eff0, eff1]
  else
    let items' : Term := (Term.app "list()" [(Term.sym "self")]);
    let eff0 : Term := (Term.app ".insert" [items', (Term.sym "index"), (Term.sym "item")]);
    let eff1 : Term := (Term.app "yield-from" [items']);
    Out.fall [eff0, eff1]

/-- the decorators of dataiter/list_of_dicts.py: ListOfDicts.insert, outermost first -/
def ListOfDicts_insert_decorators : List String := ["deco.new_from_generator"]

/-- the signature of dataiter/list_of_dicts.py: ListOfDicts.insert: parameters in order, with the source text of their defaults -/
def ListOfDicts_insert_signature : List String := ["self", "index", "item"]

/-- the calls of dataiter/list_of_dicts.py: ListOfDicts.insert in the order Python makes them along the source text -/
def ListOfDicts_insert_call_order : List String := ["isinstance", "AttributeDict", "list", "items.insert"]

/-- dataiter/list_of_dicts.py: ListOfDicts.reverse (sha256 of the function source: 8accc042c92a780d) -/
def ListOfDicts_reverse (truth : Term → Bool) : Out :=
  let eff0 : Term := (Term.app "yield-from" [(Term.app "reversed" [(Term.sym "self")])]);
  Out.fall [eff0]

/-- the decorators of dataiter/list_of_dicts.py: ListOfDicts.reverse, outermost first -/
def ListOfDicts_reverse_decorators : List String := ["deco.new_from_generator"]

/-- the signature of dataiter/list_of_dicts.py: ListOfDicts.reverse: parameters in order, with the source text of their defaults -/
def ListOfDicts_reverse_signature : List String := ["self"]

/-- the calls of dataiter/list_of_dicts.py: ListOfDicts.reverse in the order Python makes them along the source text -/
def ListOfDicts_reverse_call_order : List String := ["reversed"]

/-- dataiter/list_of_dicts.py: ListOfDicts.__add__ (sha256 of the function source: 40588e0cbd7aba14) -/
def ListOfDicts_add (truth : Term → Bool) : Out :=
  if (!truth (Term.app "isinstance" [(Term.sym "other"), (Term.sym "ListOfDicts")])) then
    Out.raise [] "TypeError"
  else
    let eff0 : Term := (Term.app "yield-from" [(Term.app "itertools.chain" [(Term.sym "self"), (Term.sym "other")])]);
    Out.fall [eff0]

/-- the decorators of dataiter/list_of_dicts.py: ListOfDicts.__add__, outermost first -/
def ListOfDicts_add_decorators : List String := ["deco.new_from_generator"]

/-- the signature of dataiter/list_of_dicts.py: ListOfDicts.__add__: parameters in order, with the source text of their defaults -/
def ListOfDicts_add_signature : List String := ["self", "other"]

/-- the calls of dataiter/list_of_dicts.py: ListOfDicts.__add__ in the order Python makes them along the source text -/
def ListOfDicts_add_call_order : List String := ["isinstance", "TypeError", "itertools.chain"]

/-- dataiter/list_of_dicts.py: ListOfDicts.__mul__ (sha256 of the function source: f14316ed33ac8fc9) -/
def ListOfDicts_mul (truth : Term → Bool) : Out :=
  if (!truth (Term.app "isinstance" [(Term.sym "other"), (Term.sym "int")])) then
    Out.raise [] "TypeError"
  else
    let eff0 : Term := (Term.app "for" [(Term.sym "i"), (Term.app "range" [(Term.sym "other")]), (Term.app "block" [(Term.app "yield-from" [(Term.sym "self")])])]);
    Out.fall [eff0]

/-- the decorators of dataiter/list_of_dicts.py: ListOfDicts.__mul__, outermost first -/
def ListOfDicts_mul_decorators : List String := ["deco.new_from_generator"]

/-- the signature of dataiter/list_of_dicts.py: ListOfDicts.__mul__: parameters in order, with the source text of their defaults -/
def ListOfDicts_mul_signature : List String := ["self", "other"]

/-- the calls of dataiter/list_of_dicts.py: ListOfDicts.__mul__ in the order Python makes them along the source text -/
def ListOfDicts_mul_call_order : List String := ["isinstance", "TypeError", "range"]

/-- dataiter/list_of_dicts.py: ListOfDicts.__rmul__ (sha256 of the function source: eb7aafc36c1b7381) -/
def ListOfDicts_rmul (truth : Term → Bool) : Out :=
  Out.ret [] (Term.app ".__mul__" [(Term.sym "self"), (Term.sym "other")])

/-- the decorators of dataiter/list_of_dicts.py: ListOfDicts.__rmul__, outermost first -/
def ListOfDicts_rmul_decorators : List String := []

/-- the signature of dataiter/list_of_dicts.py: ListOfDicts.__rmul__: parameters in order, with the source text of their defaults -/
def ListOfDicts_rmul_signature : List String := ["self", "other"]

/-- the calls of dataiter/list_of_dicts.py: ListOfDicts.__rmul__ in the order Python makes them along the source text -/
def ListOfDicts_rmul_call_order : List String := ["self.__mul__"]

/-- dataiter/list_of_dicts.py: ListOfDicts.__getitem__ (sha256 of the function source: 718d0b7dc6e2afed) -/
def ListOfDicts_getitem (truth : Term → Bool) : Out :=
  let value' : Term := (Term.app "super().__getitem__" [(Term.sym "index")]);
  Out.ret [] (if truth (Term.app "isinstance" [value', (Term.sym "list")]) then (Term.app "._new" [(Term.sym "self"), value']) else value')

/-- the decorators of dataiter/list_of_dicts.py: ListOfDicts.__getitem__, outermost first -/
def ListOfDicts_getitem_decorators : List String := []

/-- the signature of dataiter/list_of_dicts.py: ListOfDicts.__getitem__: parameters in order, with the source text of their defaults -/
def ListOfDicts_getitem_signature : List String := ["self", "index"]

/-- the calls of dataiter/list_of_dicts.py: ListOfDicts.__getitem__ in the order Python makes them along the source text -/
def ListOfDicts_getitem_call_order : List String := ["super", "super().__getitem__", "isinstance", "self._new"]

/-- dataiter/list_of_dicts.py: ListOfDicts.__setitem__ (sha256 of the function source: 9603f410b85e816e) -/
def ListOfDicts_setitem (truth : Term → Bool) : Out :=
  if (!truth (Term.app "isinstance" [(Term.sym "value"), (Term.sym "AttributeDict")])) then
    let value' : Term := (Term.app "AttributeDict" [(Term.sym "value")]);
    Out.ret [] (Term.app "super().__setitem__" [(Term.sym "index"), value'])
  else
    Out.ret [] (Term.app "super().__setitem__" [(Term.sym "index"), (Term.sym "value")])

/-- the decorators of dataiter/list_of_dicts.py: ListOfDicts.__setitem__, outermost first -/
def ListOfDicts_setitem_decorators : List String := []

/-- the signature of dataiter/list_of_dicts.py: ListOfDicts.__setitem__: parameters in order, with the source text of their defaults -/
def ListOfDicts_setitem_signature : List String := ["self", "index", "value"]

/-- the calls of dataiter/list_of_dicts.py: ListOfDicts.__setitem__ in the order Python makes them along the source text -/
def ListOfDicts_setitem_call_order : List String := ["isinstance", "AttributeDict", "super", "super().__setitem__"]

/-- dataiter/list_of_dicts.py: ListOfDicts.clear (sha256 of the function source: 6204d38144d2d937) -/
def ListOfDicts_clear (truth : Term → Bool) : Out :=
  Out.ret [] (Term.app "._new" [(Term.sym "self"), (Term.app "list" [])])

/-- the decorators of dataiter/list_of_dicts.py: ListOfDicts.clear, outermost first -/
def ListOfDicts_clear_decorators : List String := []

/-- the signature of dataiter/list_of_dicts.py: ListOfDicts.clear: parameters in order, with the source text of their defaults -/
def ListOfDicts_clear_signature : List String := ["self"]

/-- the calls of dataiter/list_of_dicts.py: ListOfDicts.clear in the order Python makes them along the source text -/
def ListOfDicts_clear_call_order : List String := ["self._new"]

/-- dataiter/list_of_dicts.py: ListOfDicts.drop_na (sha256 of the function source: fdf1fef01e385a27) -/
def ListOfDicts_drop_na (truth : Term → Bool) : Out :=
  let eff0 : Term := (Term.app "for" [(Term.sym "item"), (Term.sym "self"), (Term.app "block" [(Term.app "if" [(Term.app "not" [(Term.app "any" [(Term.app "GeneratorExp" [(Term.app "Is" [(Term.app ".get" [(Term.sym "item"), (Term.sym "x"), (Term.sym "None")]), (Term.sym "None")]), (Term.app "in" [(Term.sym "x"), (Term.sym "keys"), (Term.app "if" [])])])])]), (Term.app "block" [(Term.app "yield" [(Term.sym "item")])]), (Term.app "block" [])])])]);
  Out.fall [eff0]

/-- the decorators of dataiter/list_of_dicts.py: ListOfDicts.drop_na, outermost first -/
def ListOfDicts_drop_na_decorators : List String := ["deco.new_from_generator"]

/-- the signature of dataiter/list_of_dicts.py: ListOfDicts.drop_na: parameters in order, with the source text of their defaults -/
def ListOfDicts_drop_na_signature : List String := ["self", "*keys"]

/-- the calls of dataiter/list_of_dicts.py: ListOfDicts.drop_na in the order Python makes them along the source text -/
def ListOfDicts_drop_na_call_order : List String := ["item.get", "any"]

/-- dataiter/list_of_dicts.py: ListOfDicts.keys (sha256 of the function source: e12ad0f32330d12e) -/
def ListOfDicts_keys (truth : Term → Bool) : Out :=
  let eff0 : Term := (Term.app "yield-from" [(Term.app "dict.fromkeys" [(Term.app "itertools.chain" [(Term.app "*" [(Term.sym "self")])])])]);
  Out.fall [eff0]

/-- the decorators of dataiter/list_of_dicts.py: ListOfDicts.keys, outermost first -/
def ListOfDicts_keys_decorators : List String := []

/-- the signature of dataiter/list_of_dicts.py: ListOfDicts.keys: parameters in order, with the source text of their defaults -/
def ListOfDicts_keys_signature : List String := ["self"]

/-- the calls of dataiter/list_of_dicts.py: ListOfDicts.keys in the order Python makes them along the source text -/
def ListOfDicts_keys_call_order : List String := ["itertools.chain", "dict.fromkeys"]

/-- dataiter/list_of_dicts.py: ListOfDicts.map (sha256 of the function source: 9d88709a1d6c693b) -/
def ListOfDicts_map (truth : Term → Bool) : Out :=
  let new' : Term := (Term.app "list()" [(Term.app "map" [(Term.sym "function"), (Term.sym "self")])]);
  let coerce' : Term := (Term.app "all" [(Term.app "GeneratorExp" [(Term.app "isinstance" [(Term.sym "x"), (Term.sym "dict")]), (Term.app "in" [(Term.sym "x"), new', (Term.app "if" [])])])]);
  Out.ret [] (if truth coerce' then (Term.app ".__class__" [(Term.sym "self"), new']) else new')

/-- the decorators of dataiter/list_of_dicts.py: ListOfDicts.map, outermost first -/
def ListOfDicts_map_decorators : List String := []

/-- the signature of dataiter/list_of_dicts.py: ListOfDicts.map: parameters in order, with the source text of their defaults -/
def ListOfDicts_map_signature : List String := ["self", "function"]

/-- the calls of dataiter/list_of_dicts.py: ListOfDicts.map in the order Python makes them along the source text -/
def ListOfDicts_map_call_order : List String := ["map", "list", "isinstance", "all", "self.__class__"]

/-- dataiter/list_of_dicts.py: ListOfDicts.pluck (sha256 of the function source: e337b46198f1bc60) -/
def ListOfDicts_pluck (truth : Term → Bool) : Out :=
  Out.ret [] (Term.app "ListComp" [(Term.app ".get" [(Term.sym "x"), (Term.sym "key"), (Term.sym "default")]), (Term.app "in" [(Term.sym "x"), (Term.sym "self"), (Term.app "if" [])])])

/-- the decorators of dataiter/list_of_dicts.py: ListOfDicts.pluck, outermost first -/
def ListOfDicts_pluck_decorators : List String := []

/-- the signature of dataiter/list_of_dicts.py: ListOfDicts.pluck: parameters in order, with the source text of their defaults -/
def ListOfDicts_pluck_signature : List String := ["self", "key", "default=None"]

/-- the calls of dataiter/list_of_dicts.py: ListOfDicts.pluck in the order Python makes them along the source text -/
def ListOfDicts_pluck_call_order : List String := ["x.get"]

/-- dataiter/list_of_dicts.py: ListOfDicts.sample (sha256 of the function source: 0d3fb5a21a48afdb) -/
def ListOfDicts_sample (truth : Term → Bool) (n_is_None : Bool) : Out :=
  if n_is_None then
    let n' : Term := (Term.sym "dataiter.DEFAULT_PEEK_ITEMS");
    let n' : Term := (Term.app "min" [(Term.app "len" [(Term.sym "self")]), n']);
    let eff0 : Term := (Term.app "for" [(Term.sym "i"), (Term.app "sorted" [(Term.app "random.sample" [(Term.app "range" [(Term.app "len" [(Term.sym "self")])]), n'])]), (Term.app "block" [(Term.app "yield" [(Term.app "getitem" [(Term.sym "self"), (Term.sym "i")])])])]);
    Out.fall [eff0]
  else
    let n' : Term := (Term.app "min" [(Term.app "len" [(Term.sym "self")]), (Term.sym "n")]);
    let eff0 : Term := (Term.app "for" [(Term.sym "i"), (Term.app "sorted" [(Term.app "random.sample" [(Term.app "range" [(Term.app "len" [(Term.sym "self")])]), n'])]), (Term.app "block" [(Term.app "yield" [(Term.app "getitem" [(Term.sym "self"), (Term.sym "i")])])])]);
    Out.fall [eff0]

/-- the decorators of dataiter/list_of_dicts.py: ListOfDicts.sample, outermost first -/
def ListOfDicts_sample_decorators : List String := ["deco.new_from_generator"]

/-- the signature of dataiter/list_of_dicts.py: ListOfDicts.sample: parameters in order, with the source text of their defaults -/
def ListOfDicts_sample_signature : List String := ["self", "n=None"]

/-- the calls of dataiter/list_of_dicts.py: ListOfDicts.sample in the order Python makes them along the source text -/
def ListOfDicts_sample_call_order : List String := ["len", "min", "len", "range", "random.sample", "sorted"]

/-- dataiter/util.py: unique_keys (sha256 of the function source: 6fc1d05e520a276f) -/
def util_unique_keys (truth : Term → Bool) : Out :=
  Out.ret [] (Term.app "list()" [(Term.app "dict.fromkeys" [(Term.sym "keys")])])

/-- the decorators of dataiter/util.py: unique_keys, outermost first -/
def util_unique_keys_decorators : List String := []

/-- the signature of dataiter/util.py: unique_keys: parameters in order, with the source text of their defaults -/
def util_unique_keys_signature : List String := ["keys"]

/-- the calls of dataiter/util.py: unique_keys in the order Python makes them along the source text -/
def util_unique_keys_call_order : List String := ["dict.fromkeys", "list"]

/-- dataiter/util.py: unique_types (sha256 of the function source: a60e5d8260c20bf1) -/
def util_unique_types (truth : Term → Bool) : Out :=
  Out.ret [] (Term.app "set()" [(Term.app "GeneratorExp" [(Term.app ".__class__" [(Term.sym "x")]), (Term.app "in" [(Term.sym "x"), (Term.sym "seq"), (Term.app "if" [(Term.app "And" [(Term.app "IsNot" [(Term.sym "x"), (Term.sym "None")]), (Term.app "not" [(Term.app "And" [(Term.app "isinstance" [(Term.sym "x"), (Term.sym "float")]), (Term.app "np.isnan" [(Term.sym "x")])])])])])])])])

/-- the decorators of dataiter/util.py: unique_types, outermost first -/
def util_unique_types_decorators : List String := []

/-- the signature of dataiter/util.py: unique_types: parameters in order, with the source text of their defaults -/
def util_unique_types_signature : List String := ["seq"]

/-- the calls of dataiter/util.py: unique_types in the order Python makes them along the source text -/
def util_unique_types_call_order : List String := ["isinstance", "np.isnan", "set"]

/-- dataiter/deco.py: listify.wrapper (sha256 of the function source: fad29f4e8a0ecc13) -/
def deco_listify_wrapper (truth : Term → Bool) : Out :=
  let value' : Term := (Term.app "function" [(Term.app "*" [(Term.sym "args")]), (Term.app "=**" [(Term.sym "kwargs")])]);
  Out.ret [] (Term.app "list()" [value'])

/-- the decorators of dataiter/deco.py: listify.wrapper, outermost first -/
def deco_listify_wrapper_decorators : List String := ["functools.wraps(function)"]

/-- the signature of dataiter/deco.py: listify.wrapper: parameters in order, with the source text of their defaults -/
def deco_listify_wrapper_signature : List String := ["*args", "**kwargs"]

/-- the calls of dataiter/deco.py: listify.wrapper in the order Python makes them along the source text -/
def deco_listify_wrapper_call_order : List String := ["function", "list"]

/-- dataiter/deco.py: tuplefy.wrapper (sha256 of the function source: 100c88ed508155bc) -/
def deco_tuplefy_wrapper (truth : Term → Bool) : Out :=
  let value' : Term := (Term.app "function" [(Term.app "*" [(Term.sym "args")]), (Term.app "=**" [(Term.sym "kwargs")])]);
  Out.ret [] (Term.app "tuple()" [value'])

/-- the decorators of dataiter/deco.py: tuplefy.wrapper, outermost first -/
def deco_tuplefy_wrapper_decorators : List String := ["functools.wraps(function)"]

/-- the signature of dataiter/deco.py: tuplefy.wrapper: parameters in order, with the source text of their defaults -/
def deco_tuplefy_wrapper_signature : List String := ["*args", "**kwargs"]

/-- the calls of dataiter/deco.py: tuplefy.wrapper in the order Python makes them along the source text -/
def deco_tuplefy_wrapper_call_order : List String := ["function", "tuple"]

end DI.Gen

/-
  Generated/CodeC15.lean — REGENERATED on every run by harness/py2lean.py from the current source of
  /repo (symbolic execution of small control-flow functions; see Model/PyCore.lean).  Do not edit.
-/
import Model.PyCore

set_option linter.unusedVariables false

namespace DI.Gen

open DI.Py

/-- dataiter/list_of_dicts.py: ListOfDicts.head (sha256 of the function source: 879e6252d58fabe7) -/
def ListOfDicts_head (truth : Term → Bool) (n_is_None : Bool) (dataiter_DEFAULT_PEEK_ITEMS : Int) (len_self : Int) (n : Int) : Out :=
  if n_is_None then
    let n' : Int := dataiter_DEFAULT_PEEK_ITEMS;
    let n' : Int := (pmin len_self n');
    Out.ret [] (Term.app "._new" [(Term.sym "self"), (Term.app "getitem" [(Term.sym "self"), (Term.slice none (some n'))])])
  else
    let n' : Int := (pmin len_self n);
    Out.ret [] (Term.app "._new" [(Term.sym "self"), (Term.app "getitem" [(Term.sym "self"), (Term.slice none (some n'))])])

/-- dataiter/list_of_dicts.py: ListOfDicts.tail (sha256 of the function source: 7f6d393a90721779) -/
def ListOfDicts_tail (truth : Term → Bool) (n_is_None : Bool) (dataiter_DEFAULT_PEEK_ITEMS : Int) (len_self : Int) (n : Int) : Out :=
  if n_is_None then
    let n' : Int := dataiter_DEFAULT_PEEK_ITEMS;
    let n' : Int := (pmin len_self n');
    Out.ret [] (Term.app "._new" [(Term.sym "self"), (Term.app "getitem" [(Term.sym "self"), (Term.slice (some (len_self - n')) none)])])
  else
    let n' : Int := (pmin len_self n);
    Out.ret [] (Term.app "._new" [(Term.sym "self"), (Term.app "getitem" [(Term.sym "self"), (Term.slice (some (len_self - n')) none)])])

end DI.Gen

/-
  Generated/CodeC05.lean — REGENERATED on every run by harness/py2lean.py from the current source of
  /repo (symbolic execution of small control-flow functions; see Model/PyCore.lean).  Do not edit.
-/
import Model.PyCore

set_option linter.unusedVariables false

namespace DI.Gen

open DI.Py

/-- dataiter/data_frame.py: DataFrame.left_join (sha256 of the function source: ab664bbfdc9bed05) -/
def DataFrame_left_join (truth : Term → Bool) : Out :=
  let tup0_1' : Term := (Term.app "._split_join_by" [(Term.sym "self"), (Term.app "*" [(Term.sym "by")])]);
  let by1' : Term := (Term.app "item0" [tup0_1']);
  let by2' : Term := (Term.app "item1" [tup0_1']);
  let other' : Term := (Term.app ".unique" [(Term.app ".drop_na" [(Term.sym "other"), (Term.app "*" [by2'])]), (Term.app "*" [by2'])]);
  let tup3_1' : Term := (Term.app "._get_join_indices" [(Term.sym "self"), other', by1', by2']);
  let found' : Term := (Term.app "item0" [tup3_1']);
  let src' : Term := (Term.app "item1" [tup3_1']);
  let eff0 : Term := (Term.app "for" [(Term.app "tuple" [(Term.sym "colname"), (Term.sym "column")]), (Term.app ".items" [(Term.sym "self")]), (Term.app "block" [(Term.app "yield" [(Term.app "tuple" [(Term.sym "colname"), (Term.app ".copy" [(Term.sym "column")])])])])]);
  let eff1 : Term := (Term.app "for" [(Term.app "tuple" [(Term.sym "colname"), (Term.sym "column")]), (Term.app ".items" [other']), (Term.app "block" [(Term.app "if" [(Term.app "In" [(Term.sym "colname"), by2']), (Term.app "block" [(Term.sym "continue")]), (Term.app "block" [])]), (Term.app "if" [(Term.app "In" [(Term.sym "colname"), (Term.sym "self")]), (Term.app "block" [(Term.sym "continue")]), (Term.app "block" [])]), (Term.app "assign" [(Term.sym "value"), (Term.app ".na_value" [(Term.sym "column")])]), (Term.app "assign" [(Term.sym "dtype"), (Term.app ".na_dtype" [(Term.sym "column")])]), (Term.app "assign" [(Term.sym "new"), (Term.app ".repeat" [(Term.app "Vector.fast" [(Term.app "list" [(Term.sym "value")]), (Term.sym "dtype")]), (Term.app ".nrow" [(Term.sym "self")])])]), (Term.app "store" [(Term.app "getitem" [(Term.sym "new"), found']), (Term.app "getitem" [(Term.sym "column"), (Term.app "getitem" [src', found'])])]), (Term.app "yield" [(Term.app "tuple" [(Term.sym "colname"), (Term.app ".copy" [(Term.sym "new")])])])])]);
  let value' : Term := (Term.app "value-after-loop" [(Term.sym "value"), eff1]);
  let dtype' : Term := (Term.app "value-after-loop" [(Term.sym "dtype"), eff1]);
  let new' : Term := (Term.app "value-after-loop" [(Term.sym "new"), eff1]);
  Out.fall [eff0, eff1]

/-- the decorators of dataiter/data_frame.py: DataFrame.left_join, outermost first -/
def DataFrame_left_join_decorators : List String := ["deco.new_from_generator"]

/-- the signature of dataiter/data_frame.py: DataFrame.left_join: parameters in order, with the source text of their defaults -/
def DataFrame_left_join_signature : List String := ["self", "other", "*by"]

/-- the calls of dataiter/data_frame.py: DataFrame.left_join in the order Python makes them along the source text -/
def DataFrame_left_join_call_order : List String := ["self._split_join_by", "other.drop_na", "other.drop_na(*by2).unique", "self._get_join_indices", "self.items", "column.copy", "other.items", "Vector.fast", "Vector.fast([value], dtype).repeat", "new.copy"]

/-- dataiter/data_frame.py: DataFrame.inner_join (sha256 of the function source: 4dbdeabd107d4c04) -/
def DataFrame_inner_join (truth : Term → Bool) : Out :=
  let tup0_1' : Term := (Term.app "._split_join_by" [(Term.sym "self"), (Term.app "*" [(Term.sym "by")])]);
  let by1' : Term := (Term.app "item0" [tup0_1']);
  let by2' : Term := (Term.app "item1" [tup0_1']);
  let other' : Term := (Term.app ".unique" [(Term.app ".drop_na" [(Term.sym "other"), (Term.app "*" [by2'])]), (Term.app "*" [by2'])]);
  let tup3_1' : Term := (Term.app "._get_join_indices" [(Term.sym "self"), other', by1', by2']);
  let found' : Term := (Term.app "item0" [tup3_1']);
  let src' : Term := (Term.app "item1" [tup3_1']);
  let eff0 : Term := (Term.app "for" [(Term.app "tuple" [(Term.sym "colname"), (Term.sym "column")]), (Term.app ".items" [(Term.sym "self")]), (Term.app "block" [(Term.app "yield" [(Term.app "tuple" [(Term.sym "colname"), (Term.app ".copy" [(Term.app "getitem" [(Term.sym "column"), found'])])])])])]);
  let eff1 : Term := (Term.app "for" [(Term.app "tuple" [(Term.sym "colname"), (Term.sym "column")]), (Term.app ".items" [other']), (Term.app "block" [(Term.app "if" [(Term.app "In" [(Term.sym "colname"), by2']), (Term.app "block" [(Term.sym "continue")]), (Term.app "block" [])]), (Term.app "if" [(Term.app "In" [(Term.sym "colname"), (Term.sym "self")]), (Term.app "block" [(Term.sym "continue")]), (Term.app "block" [])]), (Term.app "yield" [(Term.app "tuple" [(Term.sym "colname"), (Term.app ".copy" [(Term.app "getitem" [(Term.sym "column"), (Term.app "getitem" [src', found'])])])])])])]);
  Out.fall [eff0, eff1]

/-- the decorators of dataiter/data_frame.py: DataFrame.inner_join, outermost first -/
def DataFrame_inner_join_decorators : List String := ["deco.new_from_generator"]

/-- the signature of dataiter/data_frame.py: DataFrame.inner_join: parameters in order, with the source text of their defaults -/
def DataFrame_inner_join_signature : List String := ["self", "other", "*by"]

/-- the calls of dataiter/data_frame.py: DataFrame.inner_join in the order Python makes them along the source text -/
def DataFrame_inner_join_call_order : List String := ["self._split_join_by", "other.drop_na", "other.drop_na(*by2).unique", "self._get_join_indices", "self.items", "column[found].copy", "other.items", "column[src[found]].copy"]

/-- dataiter/data_frame.py: DataFrame.semi_join (sha256 of the function source: d6cf60209f5136da) -/
def DataFrame_semi_join (truth : Term → Bool) : Out :=
  let tup0_1' : Term := (Term.app "._split_join_by" [(Term.sym "self"), (Term.app "*" [(Term.sym "by")])]);
  let by1' : Term := (Term.app "item0" [tup0_1']);
  let by2' : Term := (Term.app "item1" [tup0_1']);
  let other' : Term := (Term.app ".unique" [(Term.app ".drop_na" [(Term.sym "other"), (Term.app "*" [by2'])]), (Term.app "*" [by2'])]);
  let tup3_1' : Term := (Term.app "._get_join_indices" [(Term.sym "self"), other', by1', by2']);
  let found' : Term := (Term.app "item0" [tup3_1']);
  let src' : Term := (Term.app "item1" [tup3_1']);
  let eff0 : Term := (Term.app "for" [(Term.app "tuple" [(Term.sym "colname"), (Term.sym "column")]), (Term.app ".items" [(Term.sym "self")]), (Term.app "block" [(Term.app "yield" [(Term.app "tuple" [(Term.sym "colname"), (Term.app ".copy" [(Term.app "getitem" [(Term.sym "column"), found'])])])])])]);
  Out.fall [eff0]

/-- the decorators of dataiter/data_frame.py: DataFrame.semi_join, outermost first -/
def DataFrame_semi_join_decorators : List String := ["deco.new_from_generator"]

/-- the signature of dataiter/data_frame.py: DataFrame.semi_join: parameters in order, with the source text of their defaults -/
def DataFrame_semi_join_signature : List String := ["self", "other", "*by"]

/-- the calls of dataiter/data_frame.py: DataFrame.semi_join in the order Python makes them along the source text -/
def DataFrame_semi_join_call_order : List String := ["self._split_join_by", "other.drop_na", "other.drop_na(*by2).unique", "self._get_join_indices", "self.items", "column[found].copy"]

/-- dataiter/data_frame.py: DataFrame.anti_join (sha256 of the function source: 09e57d87cbee322c) -/
def DataFrame_anti_join (truth : Term → Bool) : Out :=
  let tup0_1' : Term := (Term.app "._split_join_by" [(Term.sym "self"), (Term.app "*" [(Term.sym "by")])]);
  let by1' : Term := (Term.app "item0" [tup0_1']);
  let by2' : Term := (Term.app "item1" [tup0_1']);
  let other' : Term := (Term.app ".unique" [(Term.app ".drop_na" [(Term.sym "other"), (Term.app "*" [by2'])]), (Term.app "*" [by2'])]);
  let tup3_1' : Term := (Term.app "._get_join_indices" [(Term.sym "self"), other', by1', by2']);
  let found' : Term := (Term.app "item0" [tup3_1']);
  let src' : Term := (Term.app "item1" [tup3_1']);
  let eff0 : Term := (Term.app "for" [(Term.app "tuple" [(Term.sym "colname"), (Term.sym "column")]), (Term.app ".items" [(Term.sym "self")]), (Term.app "block" [(Term.app "yield" [(Term.app "tuple" [(Term.sym "colname"), (Term.app "np.delete" [(Term.sym "column"), found'])])])])]);
  Out.fall [eff0]

/-- the decorators of dataiter/data_frame.py: DataFrame.anti_join, outermost first -/
def DataFrame_anti_join_decorators : List String := ["deco.new_from_generator"]

/-- the signature of dataiter/data_frame.py: DataFrame.anti_join: parameters in order, with the source text of their defaults -/
def DataFrame_anti_join_signature : List String := ["self", "other", "*by"]

/-- the calls of dataiter/data_frame.py: DataFrame.anti_join in the order Python makes them along the source text -/
def DataFrame_anti_join_call_order : List String := ["self._split_join_by", "other.drop_na", "other.drop_na(*by2).unique", "self._get_join_indices", "self.items", "np.delete"]

/-- dataiter/data_frame.py: DataFrame._split_join_by (sha256 of the function source: 514e3228ccced4c1) -/
def DataFrame_split_join_by (truth : Term → Bool) : Out :=
  let by1' : Term := (Term.app "ListComp" [(Term.app "ifexp" [(Term.app "isinstance" [(Term.sym "x"), (Term.sym "str")]), (Term.sym "x"), (Term.app "getitem" [(Term.sym "x"), (Term.int (0 : Int))])]), (Term.app "in" [(Term.sym "x"), (Term.sym "by"), (Term.app "if" [])])]);
  let by2' : Term := (Term.app "ListComp" [(Term.app "ifexp" [(Term.app "isinstance" [(Term.sym "x"), (Term.sym "str")]), (Term.sym "x"), (Term.app "getitem" [(Term.sym "x"), (Term.int (1 : Int))])]), (Term.app "in" [(Term.sym "x"), (Term.sym "by"), (Term.app "if" [])])]);
  Out.ret [] (Term.app "tuple" [by1', by2'])

/-- the decorators of dataiter/data_frame.py: DataFrame._split_join_by, outermost first -/
def DataFrame_split_join_by_decorators : List String := []

/-- the signature of dataiter/data_frame.py: DataFrame._split_join_by: parameters in order, with the source text of their defaults -/
def DataFrame_split_join_by_signature : List String := ["self", "*by"]

/-- the calls of dataiter/data_frame.py: DataFrame._split_join_by in the order Python makes them along the source text -/
def DataFrame_split_join_by_call_order : List String := ["isinstance", "isinstance"]

/-- dataiter/data_frame.py: DataFrame._get_join_indices (sha256 of the function source: 9827df43ea4b302b) -/
def DataFrame_get_join_indices (truth : Term → Bool) : Out :=
  let keys1' : Term := (Term.app "ListComp" [(Term.app "getitem" [(Term.sym "self"), (Term.sym "x")]), (Term.app "in" [(Term.sym "x"), (Term.sym "by1"), (Term.app "if" [])])]);
  let keys2' : Term := (Term.app "ListComp" [(Term.app "getitem" [(Term.sym "other"), (Term.sym "x")]), (Term.app "in" [(Term.sym "x"), (Term.sym "by2"), (Term.app "if" [])])]);
  let eff0 : Term := (Term.app "for" [(Term.app "tuple" [(Term.sym "i"), (Term.app "tuple" [(Term.sym "key1"), (Term.sym "key2")])]), (Term.app "enumerate" [(Term.app "zip" [keys1', keys2'])]), (Term.app "block" [(Term.app "if" [(Term.app "And" [(Term.app ".is_datetime" [(Term.sym "key1")]), (Term.app ".is_datetime" [(Term.sym "key2")]), (Term.app "NotEq" [(Term.app ".dtype" [(Term.sym "key1")]), (Term.app ".dtype" [(Term.sym "key2")])])]), (Term.app "block" [(Term.app "assign" [(Term.sym "dtype"), (Term.app "np.promote_types" [(Term.app ".dtype" [(Term.sym "key1")]), (Term.app ".dtype" [(Term.sym "key2")])])]), (Term.app "assign" [(Term.app "tuple" [(Term.sym "new1"), (Term.sym "new2")]), (Term.app "tuple" [(Term.app ".astype" [(Term.sym "key1"), (Term.sym "dtype")]), (Term.app ".astype" [(Term.sym "key2"), (Term.sym "dtype")])])]), (Term.app "if" [(Term.app "And" [(Term.app ".all" [(Term.app ".equal" [(Term.app ".astype" [(Term.sym "new1"), (Term.app ".dtype" [(Term.sym "key1")])]), (Term.sym "key1")])]), (Term.app ".all" [(Term.app ".equal" [(Term.app ".astype" [(Term.sym "new2"), (Term.app ".dtype" [(Term.sym "key2")])]), (Term.sym "key2")])])]), (Term.app "block" [(Term.app "assign" [(Term.app "tuple" [(Term.app "getitem" [(Term.sym "keys1"), (Term.sym "i")]), (Term.app "getitem" [(Term.sym "keys2"), (Term.sym "i")])]), (Term.app "tuple" [(Term.sym "new1"), (Term.sym "new2")])])]), (Term.app "block" [])])]), (Term.app "block" [])])])]);
  let dtype' : Term := (Term.app "value-after-loop" [(Term.sym "dtype"), eff0]);
  let other_ids' : Term := (Term.app "list()" [(Term.app "zip" [(Term.app "*" [keys2'])])]);
  let other_by_id' : Term := (Term.app "DictComp" [(Term.app "pair" [(Term.app "getitem" [other_ids', (Term.sym "i")]), (Term.sym "i")]), (Term.app "in" [(Term.sym "i"), (Term.app "range" [(Term.app ".nrow" [(Term.sym "other")])]), (Term.app "if" [])])]);
  let self_ids' : Term := (Term.app "zip" [(Term.app "*" [keys1'])]);
  let src' : Term := (Term.app "map" [(Term.app "lambda" [(Term.app "params" [(Term.sym "x")]), (Term.app ".get" [other_by_id', (Term.sym "x"), (Term.int (-(1 : Int)))])]), self_ids']);
  let src' : Term := (Term.app "np.fromiter" [src', (Term.sym "int"), (Term.app "=count" [(Term.app ".nrow" [(Term.sym "self")])])]);
  let found' : Term := (Term.app "np.where" [(Term.app "Gt" [src', (Term.int (-(1 : Int)))])]);
  Out.ret [eff0] (Term.app "tuple" [found', src'])

/-- the decorators of dataiter/data_frame.py: DataFrame._get_join_indices, outermost first -/
def DataFrame_get_join_indices_decorators : List String := []

/-- the signature of dataiter/data_frame.py: DataFrame._get_join_indices: parameters in order, with the source text of their defaults -/
def DataFrame_get_join_indices_signature : List String := ["self", "other", "by1", "by2"]

/-- the calls of dataiter/data_frame.py: DataFrame._get_join_indices in the order Python makes them along the source text -/
def DataFrame_get_join_indices_call_order : List String := ["zip", "enumerate", "key1.is_datetime", "key2.is_datetime", "np.promote_types", "key1.astype", "key2.astype", "new1.astype", "new1.astype(key1.dtype).equal", "new1.astype(key1.dtype).equal(key1).all", "new2.astype", "new2.astype(key2.dtype).equal", "new2.astype(key2.dtype).equal(key2).all", "zip", "list", "range", "zip", "map", "np.fromiter", "np.where"]

/-- dataiter/data_frame.py: DataFrame.full_join (sha256 of the function source: fe3fa4f7f55ded27) -/
def DataFrame_full_join (truth : Term → Bool) : Out :=
  let a' : Term := (Term.app ".copy" [(Term.sym "self")]);
  let b' : Term := (Term.app ".copy" [(Term.sym "other")]);
  let eff0 : Term := (Term.app "store" [(Term.app "getitem" [a', (Term.sym "'_aid_'")]), (Term.app "np.arange" [(Term.app ".nrow" [(Term.sym "self")])])]);
  let eff1 : Term := (Term.app "store" [(Term.app "getitem" [b', (Term.sym "'_bid_'")]), (Term.app "np.arange" [(Term.app ".nrow" [(Term.sym "other")])])]);
  let ab' : Term := (Term.app ".left_join" [a', b', (Term.app "*" [(Term.sym "by")])]);
  let b' : Term := (Term.app ".anti_join" [b', ab', (Term.sym "'_bid_'")]);
  if truth (Term.app "Eq" [(Term.app ".nrow" [b']), (Term.int (0 : Int))]) then
    Out.ret [eff0, eff1] (Term.app ".unselect" [ab', (Term.sym "'_aid_'"), (Term.sym "'_bid_'")])
  else
    let by_reverse' : Term := (Term.app "ListComp" [(Term.app "ifexp" [(Term.app "isinstance" [(Term.sym "x"), (Term.app "tuple" [(Term.sym "list"), (Term.sym "tuple")])]), (Term.app "tuple()" [(Term.app "reversed" [(Term.sym "x")])]), (Term.sym "x")]), (Term.app "in" [(Term.sym "x"), (Term.sym "by"), (Term.app "if" [])])]);
    let ba' : Term := (Term.app ".left_join" [b', a', (Term.app "*" [by_reverse'])]);
    let eff2 : Term := (Term.app "for" [(Term.sym "item"), (Term.sym "by"), (Term.app "block" [(Term.app "if" [(Term.app "isinstance" [(Term.sym "item"), (Term.app "tuple" [(Term.sym "list"), (Term.sym "tuple")])]), (Term.app "block" [(Term.app "store" [(Term.app "getitem" [ba', (Term.app "getitem" [(Term.sym "item"), (Term.int (0 : Int))])]), (Term.app ".pop" [ba', (Term.app "getitem" [(Term.sym "item"), (Term.int (1 : Int))])])])]), (Term.app "block" [])])])]);
    Out.ret [eff0, eff1, eff2] (Term.app ".unselect" [(Term.app ".sort" [(Term.app ".rbind" [ab', ba']), (Term.app "=_aid_" [(Term.int (1 : Int))]), (Term.app "=_bid_" [(Term.int (1 : Int))])]), (Term.sym "'_aid_'"), (Term.sym "'_bid_'")])

/-- the decorators of dataiter/data_frame.py: DataFrame.full_join, outermost first -/
def DataFrame_full_join_decorators : List String := []

/-- the signature of dataiter/data_frame.py: DataFrame.full_join: parameters in order, with the source text of their defaults -/
def DataFrame_full_join_signature : List String := ["self", "other", "*by"]

/-- the calls of dataiter/data_frame.py: DataFrame.full_join in the order Python makes them along the source text -/
def DataFrame_full_join_call_order : List String := ["self.copy", "other.copy", "np.arange", "np.arange", "a.left_join", "b.anti_join", "ab.unselect", "isinstance", "reversed", "tuple", "b.left_join", "isinstance", "ba.pop", "ab.rbind", "ab.rbind(ba).sort", "ab.rbind(ba).sort(_aid_=1, _bid_=1).unselect"]

/-- dataiter/data_frame.py: DataFrame.compare (sha256 of the function source: 639e34a83ecd6c56) -/
def DataFrame_compare (truth : Term → Bool) : Out :=
  if truth (Term.app "Lt" [(Term.app ".nrow" [(Term.app ".unique" [(Term.sym "self"), (Term.app "*" [(Term.sym "by")])])]), (Term.app ".nrow" [(Term.sym "self")])]) then
    Out.raise [] "ValueError"
  else
    if truth (Term.app "Lt" [(Term.app ".nrow" [(Term.app ".unique" [(Term.sym "other"), (Term.app "*" [(Term.sym "by")])])]), (Term.app ".nrow" [(Term.sym "other")])]) then
      Out.raise [] "ValueError"
    else
      let added' : Term := (Term.app ".anti_join" [(Term.sym "self"), (Term.sym "other"), (Term.app "*" [(Term.sym "by")])]);
      let removed' : Term := (Term.app ".anti_join" [(Term.sym "other"), (Term.sym "self"), (Term.app "*" [(Term.sym "by")])]);
      let x' : Term := (Term.app ".modify" [(Term.sym "self"), (Term.app "=_i_" [(Term.app "range" [(Term.app ".nrow" [(Term.sym "self")])])])]);
      let y' : Term := (Term.app ".modify" [(Term.sym "other"), (Term.app "=_j_" [(Term.app "range" [(Term.app ".nrow" [(Term.sym "other")])])])]);
      let z' : Term := (Term.app ".inner_join" [x', (Term.app ".select" [y', (Term.sym "'_j_'"), (Term.app "*" [(Term.sym "by")])]), (Term.app "*" [(Term.sym "by")])]);
      let colnames' : Term := (Term.app "util.unique_keys" [(Term.app "Add" [(Term.app ".colnames" [(Term.sym "self")]), (Term.app ".colnames" [(Term.sym "other")])])]);
      let colnames' : Term := (Term.app "ListComp" [(Term.sym "x"), (Term.app "in" [(Term.sym "x"), colnames', (Term.app "if" [(Term.app "NotIn" [(Term.sym "x"), (Term.sym "ignore_columns")])])])]);
      let changed' : Term := (Term.app "list" []);
      let eff0 : Term := (Term.app "for" [(Term.app "tuple" [(Term.sym "i"), (Term.sym "j")]), (Term.app "zip" [(Term.app "._i_" [z']), (Term.app "._j_" [z'])]), (Term.app "block" [(Term.app "if" [(Term.app "GtE" [(Term.app "len" [changed']), (Term.sym "max_changed")]), (Term.app "block" [(Term.app "print" [(Term.app "fstring" [(Term.sym "'max_changed='"), (Term.app "format" [(Term.sym "max_changed"), (Term.sym ""), (Term.int (-1 : Int))]), (Term.sym "' reached, terminating'")])]), (Term.sym "break")]), (Term.app "block" [])]), (Term.app "for" [(Term.sym "colname"), colnames', (Term.app "block" [(Term.app "if" [(Term.app "GtE" [(Term.app "len" [changed']), (Term.sym "max_changed")]), (Term.app "block" [(Term.sym "break")]), (Term.app "block" [])]), (Term.app "assign" [(Term.sym "xvalue"), (Term.app "ifexp" [(Term.app "In" [(Term.sym "colname"), x']), (Term.app "getitem" [(Term.app "getitem" [x', (Term.sym "colname")]), (Term.sym "i")]), (Term.sym "None")])]), (Term.app "assign" [(Term.sym "yvalue"), (Term.app "ifexp" [(Term.app "In" [(Term.sym "colname"), y']), (Term.app "getitem" [(Term.app "getitem" [y', (Term.sym "colname")]), (Term.sym "j")]), (Term.sym "None")])]), (Term.app "if" [(Term.app "And" [(Term.app "NotEq" [(Term.sym "xvalue"), (Term.sym "yvalue")]), (Term.app "not" [(Term.app ".all" [(Term.app ".is_na" [(Term.app "Vector" [(Term.app "list" [(Term.sym "xvalue"), (Term.sym "yvalue")])])])])])]), (Term.app "block" [(Term.app "assign" [(Term.sym "byrow"), (Term.app "DictComp" [(Term.app "pair" [(Term.sym "k"), (Term.app "getitem" [(Term.app "getitem" [x', (Term.sym "k")]), (Term.sym "i")])]), (Term.app "in" [(Term.sym "k"), (Term.sym "by"), (Term.app "if" [])])])]), (Term.app ".append" [changed', (Term.app "dict()" [(Term.app "=**" [(Term.sym "byrow")]), (Term.app "=column" [(Term.sym "colname")]), (Term.app "=xvalue" [(Term.sym "xvalue")]), (Term.app "=yvalue" [(Term.sym "yvalue")])])])]), (Term.app "block" [])])]), (Term.app "init" [(Term.sym "xvalue"), (Term.sym "xvalue")]), (Term.app "init" [(Term.sym "yvalue"), (Term.sym "yvalue")]), (Term.app "init" [(Term.sym "byrow"), (Term.sym "byrow")])])])]);
      let xvalue' : Term := (Term.app "value-after-loop" [(Term.sym "xvalue"), eff0]);
      let yvalue' : Term := (Term.app "value-after-loop" [(Term.sym "yvalue"), eff0]);
      let byrow' : Term := (Term.app "value-after-loop" [(Term.sym "byrow"), eff0]);
      let added' : Term := (if truth (Term.app "Gt" [(Term.app ".nrow" [added']), (Term.int (0 : Int))]) then added' else (Term.sym "None"));
      let removed' : Term := (if truth (Term.app "Gt" [(Term.app ".nrow" [removed']), (Term.int (0 : Int))]) then removed' else (Term.sym "None"));
      let changed' : Term := (if truth changed' then (Term.app ".from_json" [(Term.sym "self"), changed']) else (Term.sym "None"));
      Out.ret [eff0] (Term.app "tuple" [added', removed', changed'])

/-- the decorators of dataiter/data_frame.py: DataFrame.compare, outermost first -/
def DataFrame_compare_decorators : List String := []

/-- the signature of dataiter/data_frame.py: DataFrame.compare: parameters in order, with the source text of their defaults -/
def DataFrame_compare_signature : List String := ["self", "other", "*by", "ignore_columns=[]", "max_changed=inf"]

/-- the calls of dataiter/data_frame.py: DataFrame.compare in the order Python makes them along the source text -/
def DataFrame_compare_call_order : List String := ["self.unique", "ValueError", "other.unique", "ValueError", "self.anti_join", "other.anti_join", "range", "self.modify", "range", "other.modify", "y.select", "x.inner_join", "util.unique_keys", "zip", "len", "print", "len", "Vector", "Vector([xvalue, yvalue]).is_na", "Vector([xvalue, yvalue]).is_na().all", "dict", "changed.append", "self.from_json"]

end DI.Gen

/-
  Generated/CodeC03.lean — REGENERATED on every run by harness/py2lean.py from the current source of
  /repo (symbolic execution of small control-flow functions; see Model/PyCore.lean).  Do not edit.
-/
import Model.PyCore

set_option linter.unusedVariables false

namespace DI.Gen

open DI.Py

/-- dataiter/data_frame.py: DataFrame.sort.sort_key (sha256 of the function source: 00193d6741857fdf) -/
def DataFrame_sort_key (truth : Term → Bool) (dir : Int) : Out :=
  if (!(decide (dir = (1 : Int)) || decide (dir = (-(1 : Int))))) then
    Out.raise [] "ValueError"
  else
    let column' : Term := (Term.app "getitem" [(Term.sym "self"), (Term.sym "colname")]);
    if ((truth (Term.app ".is_string" [column']) || truth (Term.app "._is_string_fixed" [column'])) && truth (Term.app ".any" [(Term.app ".is_na" [column'])])) then
      let column' : Term := (Term.app ".rank" [column', (Term.app "=method" [(Term.sym "'min'")])]);
      let column' : Term := (Term.app "._optimize_for_argsort" [column']);
      if (decide (dir > (0 : Int)) && (truth (Term.app "._is_string_fixed" [column']) || truth (Term.app ".is_boolean" [column']) || truth (Term.app ".is_bytes" [column']) || truth (Term.app ".is_datetime" [column']) || truth (Term.app ".is_float" [column']) || truth (Term.app ".is_integer" [column']) || truth (Term.app ".is_timedelta" [column']))) then
        Out.ret [] column'
      else
        if (!truth (Term.app ".is_number" [column'])) then
          let column' : Term := (Term.app ".rank" [column', (Term.app "=method" [(Term.sym "'min'")])]);
          if (decide (dir < (0 : Int)) && truth (Term.app ".is_integer" [column']) && (!truth (Term.app ".is_timedelta" [column']))) then
            Out.ret [] (Term.app "~" [column'])
          else
            Out.ret [] (if decide (dir > (0 : Int)) then column' else (Term.app "neg" [column']))
        else
          if (decide (dir < (0 : Int)) && truth (Term.app ".is_integer" [column']) && (!truth (Term.app ".is_timedelta" [column']))) then
            Out.ret [] (Term.app "~" [column'])
          else
            Out.ret [] (if decide (dir > (0 : Int)) then column' else (Term.app "neg" [column']))
    else
      let column' : Term := (Term.app "._optimize_for_argsort" [column']);
      if (decide (dir > (0 : Int)) && (truth (Term.app "._is_string_fixed" [column']) || truth (Term.app ".is_boolean" [column']) || truth (Term.app ".is_bytes" [column']) || truth (Term.app ".is_datetime" [column']) || truth (Term.app ".is_float" [column']) || truth (Term.app ".is_integer" [column']) || truth (Term.app ".is_timedelta" [column']))) then
        Out.ret [] column'
      else
        if (!truth (Term.app ".is_number" [column'])) then
          let column' : Term := (Term.app ".rank" [column', (Term.app "=method" [(Term.sym "'min'")])]);
          if (decide (dir < (0 : Int)) && truth (Term.app ".is_integer" [column']) && (!truth (Term.app ".is_timedelta" [column']))) then
            Out.ret [] (Term.app "~" [column'])
          else
            Out.ret [] (if decide (dir > (0 : Int)) then column' else (Term.app "neg" [column']))
        else
          if (decide (dir < (0 : Int)) && truth (Term.app ".is_integer" [column']) && (!truth (Term.app ".is_timedelta" [column']))) then
            Out.ret [] (Term.app "~" [column'])
          else
            Out.ret [] (if decide (dir > (0 : Int)) then column' else (Term.app "neg" [column']))

/-- the decorators of dataiter/data_frame.py: DataFrame.sort.sort_key, outermost first -/
def DataFrame_sort_key_decorators : List String := []

/-- the signature of dataiter/data_frame.py: DataFrame.sort.sort_key: parameters in order, with the source text of their defaults -/
def DataFrame_sort_key_signature : List String := ["colname", "dir"]

end DI.Gen

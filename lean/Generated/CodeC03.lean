/-
  Generated/CodeC03.lean — REGENERATED on every run by harness/py2lean.py from the current source of
  /repo (symbolic execution of small control-flow functions; see Model/PyCore.lean).  Do not edit.
-/
import Model.PyCore

set_option linter.unusedVariables false

namespace DI.Gen

open DI.Py

/-- dataiter/data_frame.py: DataFrame.sort.sort_key (sha256 of the function source: 00193d6741857fdf) -/
def DataFrame_sort_key (truth : Term → Bool) (dir : Int) : Out :=
  if (!(decide (dir = (1 : Int)) || decide (dir = (-(1 : Int))))) then
    Out.raise [] "ValueError"
  else
    let column' : Term := (Term.app "getitem" [(Term.sym "self"), (Term.sym "colname")]);
    if ((truth (Term.app ".is_string" [column']) || truth (Term.app "._is_string_fixed" [column'])) && truth (Term.app ".any" [(Term.app ".is_na" [column'])])) then
      let column' : Term := (Term.app ".rank" [column', (Term.app "=method" [(Term.sym "'min'")])]);
      let column' : Term := (Term.app "._optimize_for_argsort" [column']);
      if (decide (dir > (0 : Int)) && (truth (Term.app "._is_string_fixed" [column']) || truth (Term.app ".is_boolean" [column']) || truth (Term.app ".is_bytes" [column']) || truth (Term.app ".is_datetime" [column']) || truth (Term.app ".is_float" [column']) || truth (Term.app ".is_integer" [column']) || truth (Term.app ".is_timedelta" [column']))) then
        Out.ret [] column'
      else
        if (!truth (Term.app ".is_number" [column'])) then
          let column' : Term := (Term.app ".rank" [column', (Term.app "=method" [(Term.sym "'min'")])]);
          if (decide (dir < (0 : Int)) && truth (Term.app ".is_integer" [column']) && (!truth (Term.app ".is_timedelta" [column']))) then
            Out.ret [] (Term.app "~" [column'])
          else
            Out.ret [] (if decide (dir > (0 : Int)) then column' else (Term.app "neg" [column']))
        else
          if (decide (dir < (0 : Int)) && truth (Term.app ".is_integer" [column']) && (!truth (Term.app ".is_timedelta" [column']))) then
            Out.ret [] (Term.app "~" [column'])
          else
            Out.ret [] (if decide (dir > (0 : Int)) then column' else (Term.app "neg" [column']))
    else
      let column' : Term := (Term.app "._optimize_for_argsort" [column']);
      if (decide (dir > (0 : Int)) && (truth (Term.app "._is_string_fixed" [column']) || truth (Term.app ".is_boolean" [column']) || truth (Term.app ".is_bytes" [column']) || truth (Term.app ".is_datetime" [column']) || truth (Term.app ".is_float" [column']) || truth (Term.app ".is_integer" [column']) || truth (Term.app ".is_timedelta" [column']))) then
        Out.ret [] column'
      else
        if (!truth (Term.app ".is_number" [column'])) then
          let column' : Term := (Term.app ".rank" [column', (Term.app "=method" [(Term.sym "'min'")])]);
          if (decide (dir < (0 : Int)) && truth (Term.app ".is_integer" [column']) && (!truth (Term.app ".is_timedelta" [column']))) then
            Out.ret [] (Term.app "~" [column'])
          else
            Out.ret [] (if decide (dir > (0 : Int)) then column' else (Term.app "neg" [column']))
        else
          if (decide (dir < (0 : Int)) && truth (Term.app ".is_integer" [column']) && (!truth (Term.app ".is_timedelta" [column']))) then
            Out.ret [] (Term.app "~" [column'])
          else
            Out.ret [] (if decide (dir > (0 : Int)) then column' else (Term.app "neg" [column']))

/-- the decorators of dataiter/data_frame.py: DataFrame.sort.sort_key, outermost first -/
def DataFrame_sort_key_decorators : List String := []

/-- the signature of dataiter/data_frame.py: DataFrame.sort.sort_key: parameters in order, with the source text of their defaults -/
def DataFrame_sort_key_signature : List String := ["colname", "dir"]

/-- the calls of dataiter/data_frame.py: DataFrame.sort.sort_key in the order Python makes them along the source text -/
def DataFrame_sort_key_call_order : List String := ["ValueError", "column.is_string", "column._is_string_fixed", "column.is_na", "column.is_na().any", "column.rank", "column._optimize_for_argsort", "column._is_string_fixed", "column.is_boolean", "column.is_bytes", "column.is_datetime", "column.is_float", "column.is_integer", "column.is_timedelta", "any", "column.is_number", "column.rank", "column.is_integer", "column.is_timedelta"]

/-- dataiter/data_frame.py: DataFrame.sort (sha256 of the function source: 8fae1dd9a619a43c) -/
def DataFrame_sort (truth : Term → Bool) : Out :=
  let sort_key' : Term := (Term.app "local-def" [(Term.app "def" [(Term.sym "sort_key"), (Term.app "params" [(Term.sym "colname"), (Term.sym "dir")]), (Term.app "block" [(Term.app "if" [(Term.app "NotIn" [(Term.sym "dir"), (Term.app "list" [(Term.int (1 : Int)), (Term.int (-(1 : Int)))])]), (Term.app "block" [(Term.app "raise" [(Term.sym "ValueError")])]), (Term.app "block" [])]), (Term.app "assign" [(Term.sym "column"), (Term.app "getitem" [(Term.sym "self"), (Term.sym "colname")])]), (Term.app "if" [(Term.app "And" [(Term.app "Or" [(Term.app ".is_string" [(Term.sym "column")]), (Term.app "._is_string_fixed" [(Term.sym "column")])]), (Term.app ".any" [(Term.app ".is_na" [(Term.sym "column")])])]), (Term.app "block" [(Term.app "assign" [(Term.sym "column"), (Term.app ".rank" [(Term.sym "column"), (Term.app "=method" [(Term.sym "'min'")])])])]), (Term.app "block" [])]), (Term.app "assign" [(Term.sym "column"), (Term.app "._optimize_for_argsort" [(Term.sym "column")])]), (Term.app "if" [(Term.app "And" [(Term.app "Gt" [(Term.sym "dir"), (Term.int (0 : Int))]), (Term.app "any" [(Term.app "tuple" [(Term.app "._is_string_fixed" [(Term.sym "column")]), (Term.app ".is_boolean" [(Term.sym "column")]), (Term.app ".is_bytes" [(Term.sym "column")]), (Term.app ".is_datetime" [(Term.sym "column")]), (Term.app ".is_float" [(Term.sym "column")]), (Term.app ".is_integer" [(Term.sym "column")]), (Term.app ".is_timedelta" [(Term.sym "column")])])])]), (Term.app "block" [(Term.app "return" [(Term.sym "column")])]), (Term.app "block" [])]), (Term.app "if" [(Term.app "not" [(Term.app ".is_number" [(Term.sym "column")])]), (Term.app "block" [(Term.app "assign" [(Term.sym "column"), (Term.app ".rank" [(Term.sym "column"), (Term.app "=method" [(Term.sym "'min'")])])])]), (Term.app "block" [])]), (Term.app "if" [(Term.app "And" [(Term.app "Lt" [(Term.sym "dir"), (Term.int (0 : Int))]), (Term.app ".is_integer" [(Term.sym "column")]), (Term.app "not" [(Term.app ".is_timedelta" [(Term.sym "column")])])]), (Term.app "block" [(Term.app "return" [(Term.app "~" [(Term.sym "column")])])]), (Term.app "block" [])]), (Term.app "return" [(Term.app "ifexp" [(Term.app "Gt" [(Term.sym "dir"), (Term.int (0 : Int))]), (Term.sym "column"), (Term.app "neg" [(Term.sym "column")])])])])])]);
  let indices' : Term := (Term.app "np.lexsort" [(Term.app "tuple()" [(Term.app "GeneratorExp" [(Term.app "call" [sort_key', (Term.app "*" [(Term.sym "x")])]), (Term.app "in" [(Term.sym "x"), (Term.app "reversed" [(Term.app ".items" [(Term.sym "colname_dir_pairs")])]), (Term.app "if" [])])])])]);
  let eff0 : Term := (Term.app "for" [(Term.app "tuple" [(Term.sym "colname"), (Term.sym "column")]), (Term.app ".items" [(Term.sym "self")]), (Term.app "block" [(Term.app "yield" [(Term.app "tuple" [(Term.sym "colname"), (Term.app ".copy" [(Term.app "getitem" [(Term.sym "column"), indices'])])])])])]);
  Out.fall [eff0]

/-- the decorators of dataiter/data_frame.py: DataFrame.sort, outermost first -/
def DataFrame_sort_decorators : List String := ["deco.new_from_generator"]

/-- the signature of dataiter/data_frame.py: DataFrame.sort: parameters in order, with the source text of their defaults -/
def DataFrame_sort_signature : List String := ["self", "**colname_dir_pairs"]

/-- the calls of dataiter/data_frame.py: DataFrame.sort in the order Python makes them along the source text -/
def DataFrame_sort_call_order : List String := ["sort_key", "colname_dir_pairs.items", "reversed", "tuple", "np.lexsort", "self.items", "column[indices].copy"]

end DI.Gen

/-
  Generated/CodeC11.lean — REGENERATED on every run by harness/py2lean.py from the current source of
  /repo (symbolic execution of small control-flow functions; see Model/PyCore.lean).  Do not edit.
-/
import Model.PyCore

set_option linter.unusedVariables false

namespace DI.Gen

open DI.Py

/-- dataiter/vector.py: Vector.sort (sha256 of the function source: 7c276cb54d3a9639) -/
def Vector_sort (truth : Term → Bool) : Out :=
  if truth (Term.app ".is_object" [(Term.sym "self")]) then
    let lst' : Term := (Term.app "sorted" [(Term.sym "self"), (Term.app "=key" [(Term.sym "str")]), (Term.app "=reverse" [(Term.app "Lt" [(Term.sym "dir"), (Term.int (0 : Int))])])]);
    let new' : Term := (Term.app ".fast" [(Term.sym "self"), lst', (Term.sym "object")]);
    let na' : Term := (Term.app ".is_na" [new']);
    Out.ret [] (Term.app ".concat" [(Term.app "getitem" [new', (Term.app "~" [na'])]), (Term.app "getitem" [new', na'])])
  else
    let opt' : Term := (Term.app "._optimize_for_argsort" [(Term.sym "self")]);
    let new' : Term := (Term.app "getitem" [(Term.sym "self"), (Term.app ".argsort" [opt', (Term.app "=kind" [(Term.sym "'stable'")])])]);
    if truth (Term.app "Lt" [(Term.sym "dir"), (Term.int (0 : Int))]) then
      let new' : Term := (Term.app "getitem" [new', (Term.app "slice" [(Term.sym "None"), (Term.sym "None"), (Term.int (-(1 : Int)))])]);
      let na' : Term := (Term.app ".is_na" [new']);
      Out.ret [] (Term.app ".concat" [(Term.app "getitem" [new', (Term.app "~" [na'])]), (Term.app "getitem" [new', na'])])
    else
      let na' : Term := (Term.app ".is_na" [new']);
      Out.ret [] (Term.app ".concat" [(Term.app "getitem" [new', (Term.app "~" [na'])]), (Term.app "getitem" [new', na'])])

/-- the decorators of dataiter/vector.py: Vector.sort, outermost first -/
def Vector_sort_decorators : List String := []

/-- the signature of dataiter/vector.py: Vector.sort: parameters in order, with the source text of their defaults -/
def Vector_sort_signature : List String := ["self", "*", "dir=1"]

/-- the calls of dataiter/vector.py: Vector.sort in the order Python makes them along the source text -/
def Vector_sort_call_order : List String := ["self.is_object", "sorted", "self.fast", "new.is_na", "new[~na].concat", "self._optimize_for_argsort", "opt.argsort", "new.is_na", "new[~na].concat"]

/-- dataiter/vector.py: Vector.rank (sha256 of the function source: a2dc17b194d3614a) -/
def Vector_rank (truth : Term → Bool) : Out :=
  if truth (Term.app "Eq" [(Term.app ".length" [(Term.sym "self")]), (Term.int (0 : Int))]) then
    Out.ret [] (Term.app ".fast" [(Term.sym "self"), (Term.app "list" []), (Term.sym "int")])
  else
    if truth (Term.app ".all" [(Term.app ".is_na" [(Term.sym "self")])]) then
      let self' : Term := (Term.app ".fast" [(Term.sym "self"), (Term.app "np.repeat" [(Term.int (1 : Int)), (Term.app ".length" [(Term.sym "self")])])]);
      let na' : Term := (Term.app ".is_na" [self']);
      let self' : Term := (Term.app "._optimize_for_argsort" [self']);
      let out' : Term := (Term.app "np.zeros_like" [self', (Term.sym "int")]);
      if truth (Term.app "Eq" [(Term.sym "method"), (Term.sym "'min'")]) then
        let inv' : Term := (Term.app "getitem" [(Term.app "np.unique" [(Term.app "getitem" [self', (Term.app "~" [na'])]), (Term.app "=return_inverse" [(Term.sym "True")])]), (Term.int (1 : Int))]);
        let eff0 : Term := (Term.app "store" [(Term.app "getitem" [out', (Term.app "~" [na'])]), (Term.app "Add" [(Term.app "getitem" [(Term.app ".cumsum" [(Term.app "np.concatenate" [(Term.app "tuple" [(Term.app "list" [(Term.int (0 : Int))]), (Term.app "np.bincount" [inv'])])])]), inv']), (Term.int (1 : Int))])]);
        let eff1 : Term := (Term.app "store" [(Term.app "getitem" [out', na']), (Term.app "Add" [(Term.app ".sum" [(Term.app "~" [na'])]), (Term.int (1 : Int))])]);
        Out.ret [eff0, eff1] (Term.app ".view" [out', (Term.app ".__class__" [self'])])
      else
        if truth (Term.app "Eq" [(Term.sym "method"), (Term.sym "'max'")]) then
          let inv' : Term := (Term.app "getitem" [(Term.app "np.unique" [(Term.app "getitem" [self', (Term.app "~" [na'])]), (Term.app "=return_inverse" [(Term.sym "True")])]), (Term.int (1 : Int))]);
          let eff0 : Term := (Term.app "store" [(Term.app "getitem" [out', (Term.app "~" [na'])]), (Term.app "getitem" [(Term.app ".cumsum" [(Term.app "np.bincount" [inv'])]), inv'])]);
          let eff1 : Term := (Term.app "store" [(Term.app "getitem" [out', na']), (Term.app "len" [self'])]);
          Out.ret [eff0, eff1] (Term.app ".view" [out', (Term.app ".__class__" [self'])])
        else
          if truth (Term.app "Eq" [(Term.sym "method"), (Term.sym "'ordinal'")]) then
            let indices' : Term := (Term.app ".argsort" [(Term.app "getitem" [self', (Term.app "~" [na'])]), (Term.app "=kind" [(Term.sym "'stable'")])]);
            let rank' : Term := (Term.app "np.zeros_like" [indices']);
            let eff0 : Term := (Term.app "store" [(Term.app "getitem" [rank', indices']), (Term.app "Add" [(Term.app "np.arange" [(Term.app "len" [indices'])]), (Term.int (1 : Int))])]);
            let eff1 : Term := (Term.app "store" [(Term.app "getitem" [out', (Term.app "~" [na'])]), rank']);
            let eff2 : Term := (Term.app "store" [(Term.app "getitem" [out', na']), (Term.app "Add" [(Term.app "Add" [(Term.app ".max" [rank']), (Term.app "np.arange" [(Term.app ".sum" [na'])])]), (Term.int (1 : Int))])]);
            Out.ret [eff0, eff1, eff2] (Term.app ".view" [out', (Term.app ".__class__" [self'])])
          else
            Out.raise [] "ValueError"
    else
      let na' : Term := (Term.app ".is_na" [(Term.sym "self")]);
      let self' : Term := (Term.app "._optimize_for_argsort" [(Term.sym "self")]);
      let out' : Term := (Term.app "np.zeros_like" [self', (Term.sym "int")]);
      if truth (Term.app "Eq" [(Term.sym "method"), (Term.sym "'min'")]) then
        let inv' : Term := (Term.app "getitem" [(Term.app "np.unique" [(Term.app "getitem" [self', (Term.app "~" [na'])]), (Term.app "=return_inverse" [(Term.sym "True")])]), (Term.int (1 : Int))]);
        let eff0 : Term := (Term.app "store" [(Term.app "getitem" [out', (Term.app "~" [na'])]), (Term.app "Add" [(Term.app "getitem" [(Term.app ".cumsum" [(Term.app "np.concatenate" [(Term.app "tuple" [(Term.app "list" [(Term.int (0 : Int))]), (Term.app "np.bincount" [inv'])])])]), inv']), (Term.int (1 : Int))])]);
        let eff1 : Term := (Term.app "store" [(Term.app "getitem" [out', na']), (Term.app "Add" [(Term.app ".sum" [(Term.app "~" [na'])]), (Term.int (1 : Int))])]);
        Out.ret [eff0, eff1] (Term.app ".view" [out', (Term.app ".__class__" [self'])])
      else
        if truth (Term.app "Eq" [(Term.sym "method"), (Term.sym "'max'")]) then
          let inv' : Term := (Term.app "getitem" [(Term.app "np.unique" [(Term.app "getitem" [self', (Term.app "~" [na'])]), (Term.app "=return_inverse" [(Term.sym "True")])]), (Term.int (1 : Int))]);
          let eff0 : Term := (Term.app "store" [(Term.app "getitem" [out', (Term.app "~" [na'])]), (Term.app "getitem" [(Term.app ".cumsum" [(Term.app "np.bincount" [inv'])]), inv'])]);
          let eff1 : Term := (Term.app "store" [(Term.app "getitem" [out', na']), (Term.app "len" [self'])]);
          Out.ret [eff0, eff1] (Term.app ".view" [out', (Term.app ".__class__" [self'])])
        else
          if truth (Term.app "Eq" [(Term.sym "method"), (Term.sym "'ordinal'")]) then
            let indices' : Term := (Term.app ".argsort" [(Term.app "getitem" [self', (Term.app "~" [na'])]), (Term.app "=kind" [(Term.sym "'stable'")])]);
            let rank' : Term := (Term.app "np.zeros_like" [indices']);
            let eff0 : Term := (Term.app "store" [(Term.app "getitem" [rank', indices']), (Term.app "Add" [(Term.app "np.arange" [(Term.app "len" [indices'])]), (Term.int (1 : Int))])]);
            let eff1 : Term := (Term.app "store" [(Term.app "getitem" [out', (Term.app "~" [na'])]), rank']);
            let eff2 : Term := (Term.app "store" [(Term.app "getitem" [out', na']), (Term.app "Add" [(Term.app "Add" [(Term.app ".max" [rank']), (Term.app "np.arange" [(Term.app ".sum" [na'])])]), (Term.int (1 : Int))])]);
            Out.ret [eff0, eff1, eff2] (Term.app ".view" [out', (Term.app ".__class__" [self'])])
          else
            Out.raise [] "ValueError"

/-- the decorators of dataiter/vector.py: Vector.rank, outermost first -/
def Vector_rank_decorators : List String := []

/-- the signature of dataiter/vector.py: Vector.rank: parameters in order, with the source text of their defaults -/
def Vector_rank_signature : List String := ["self", "*", "method='min'"]

/-- the calls of dataiter/vector.py: Vector.rank in the order Python makes them along the source text -/
def Vector_rank_call_order : List String := ["self.fast", "self.is_na", "self.is_na().all", "np.repeat", "self.fast", "self.is_na", "self._optimize_for_argsort", "np.zeros_like", "np.unique", "np.bincount", "np.concatenate", "np.concatenate(([0], np.bincount(inv))).cumsum", "(~na).sum", "out.view", "np.unique", "np.bincount", "np.bincount(inv).cumsum", "len", "out.view", "self[~na].argsort", "np.zeros_like", "len", "np.arange", "rank.max", "na.sum", "np.arange", "out.view", "ValueError"]

/-- dataiter/vector.py: Vector.unique (sha256 of the function source: b250584209c6db2d) -/
def Vector_unique (truth : Term → Bool) : Out :=
  let opt' : Term := (Term.app "._optimize_for_argsort" [(Term.sym "self")]);
  let tup1_1' : Term := (Term.app "np.unique" [opt', (Term.app "=return_index" [(Term.sym "True")])]);
  let u' : Term := (Term.app "item0" [tup1_1']);
  let indices' : Term := (Term.app "item1" [tup1_1']);
  Out.ret [] (Term.app ".copy" [(Term.app "getitem" [(Term.sym "self"), (Term.app ".sort" [indices'])])])

/-- the decorators of dataiter/vector.py: Vector.unique, outermost first -/
def Vector_unique_decorators : List String := []

/-- the signature of dataiter/vector.py: Vector.unique: parameters in order, with the source text of their defaults -/
def Vector_unique_signature : List String := ["self"]

/-- the calls of dataiter/vector.py: Vector.unique in the order Python makes them along the source text -/
def Vector_unique_call_order : List String := ["self._optimize_for_argsort", "np.unique", "indices.sort", "self[indices.sort()].copy"]

/-- dataiter/vector.py: Vector._optimize_for_argsort (sha256 of the function source: c40aed754af7a270) -/
def Vector_optimize_for_argsort (truth : Term → Bool) : Out :=
  if (truth (Term.app ".is_string" [(Term.sym "self")]) && truth (Term.app "Gt" [(Term.app ".length" [(Term.sym "self")]), (Term.int (0 : Int))]) && truth (Term.app "Lt/Lt" [(Term.int (0 : Int)), (Term.app "walrus" [(Term.sym "n"), (Term.app ".max" [(Term.app ".str_len" [(Term.app ".str" [(Term.sym "self")])])])]), (Term.int (50 : Int))])) then
    Out.ret [] (Term.app ".astype" [(Term.sym "self"), (Term.app "fstring" [(Term.sym "'U'"), (Term.app "format" [(Term.sym "n"), (Term.sym ""), (Term.int (-1 : Int))])])])
  else
    Out.ret [] (Term.sym "self")

/-- the decorators of dataiter/vector.py: Vector._optimize_for_argsort, outermost first -/
def Vector_optimize_for_argsort_decorators : List String := []

/-- the signature of dataiter/vector.py: Vector._optimize_for_argsort: parameters in order, with the source text of their defaults -/
def Vector_optimize_for_argsort_signature : List String := ["self"]

/-- the calls of dataiter/vector.py: Vector._optimize_for_argsort in the order Python makes them along the source text -/
def Vector_optimize_for_argsort_call_order : List String := ["self.is_string", "self.str.str_len", "self.str.str_len().max", "self.astype"]

end DI.Gen
